// C11 harness: CrossSection construction and 2-D Booleans.
//   unit ties   : the real IsInside / EmitBoundary / SweepPass::ProcessEvent column loop / PolySetAdd /
//                 MergeVerticals1D (anonymous namespace of boolean2_sweep.cpp, reached by including the
//                 file) and the real OutEdgesToPolygons (library) against the Lean models, exactly.
//   lattice     : random Boolean/BatchBoolean/transform programs over integer rectangles: the real result,
//                 classified at pixel centres, must equal the Lean pixel semantics; Area == pixel count;
//                 integer vertices; exact validity; operand-order independence of union/intersection.
//   contours    : arbitrary (self-intersecting, overlapping, clockwise, collinear, near-concurrent) contours
//                 under the Positive / EvenOdd / (internal) Intersect rule, and Booleans of such: an
//                 independent long-double winding-number oracle at points farther than 10*eps from every
//                 input and output edge; output validity (no proper crossing, simple loops, winding 0/1).
// usage: c11_cross <nUnit> <nLattice> <nContour> <nBig>
#include <algorithm>
#include <cmath>
#include <cstdint>
#include <cstdlib>
#include <cstring>
#include <functional>
#include <limits>
#include <map>
#include <memory>
#include <mutex>
#include <numeric>
#include <set>
#include <sstream>
#include <string>
#include <utility>
#include <vector>

#include "manifold/cross_section.h"
#include "manifold/optional_assert.h"
#include "boolean2.h"
#include "shared.h"
#include "common.h"
// reach the anonymous namespace (and SweepPass::EmitBoundary); SweepWinding is renamed so that the
// library's own definition stays the only one with that name
#define SweepWinding c11_harness_copy_of_SweepWinding
#define private public
#include "boolean2_sweep.cpp"
#undef private
#undef SweepWinding

using namespace manifold;
using hz::Rng;
typedef long double LD;

static long gSamples = 0, gSkipped = 0, gPairTests = 0, gCommChecks = 0, gBvh = 0;

// ------------------------------------------------------------------------------------------ helpers
static const char* ruleName(WindRule r) { return r == WindRule::Add ? "add" : r == WindRule::Intersect ? "intersect" : "evenodd"; }
static std::string ll(double v) { return std::to_string((long long)v); }
static std::string fmtKey(const std::pair<vec2, vec2>& k, int64_t m) {
  return ll(k.first.x) + " " + ll(k.first.y) + " " + ll(k.second.x) + " " + ll(k.second.y) + " " + std::to_string((long long)m);
}
static std::string fmtPolySet(const PolySet2& ps) {
  if (ps.empty()) return "empty";
  std::string s; bool first = true;
  for (auto& kv : ps) { if (!first) s += " ; "; first = false; s += fmtKey(kv.first, kv.second); }
  return s;
}
static std::string fmtPolys(const Polygons& ps, size_t limit = 2500) {
  std::string s; char buf[80];
  for (auto& l : ps) { s += "["; for (auto& v : l) { snprintf(buf, sizeof buf, "(%.17g,%.17g)", v.x, v.y); s += buf; if (s.size() > limit) return s + "…"; } s += "]"; }
  return s;
}

// winding number of point p with respect to closed loops (Sunday's crossing rule, long double)
static int windingAt(const Polygons& ps, LD px, LD py) {
  int w = 0;
  for (auto& l : ps) {
    size_t n = l.size();
    for (size_t i = 0; i < n; i++) {
      const vec2 &a = l[i], &b = l[(i + 1) % n];
      bool ua = (LD)a.y <= py, ub = (LD)b.y <= py;
      if (ua == ub) continue;
      LD cr = ((LD)b.x - a.x) * (py - a.y) - ((LD)b.y - a.y) * (px - a.x);
      if (ua) { if (cr > 0) w++; } else { if (cr < 0) w--; }
    }
  }
  return w;
}
static LD distSeg(LD px, LD py, const vec2& a, const vec2& b) {
  LD dx = (LD)b.x - a.x, dy = (LD)b.y - a.y, l2 = dx * dx + dy * dy;
  LD t = l2 > 0 ? ((px - a.x) * dx + (py - a.y) * dy) / l2 : 0;
  t = t < 0 ? 0 : t > 1 ? 1 : t;
  LD qx = a.x + t * dx - px, qy = a.y + t * dy - py;
  return sqrtl(qx * qx + qy * qy);
}
static LD minDist(const Polygons& ps, LD px, LD py) {
  LD d = std::numeric_limits<LD>::infinity();
  for (auto& l : ps) for (size_t i = 0; i < l.size(); i++) d = std::min(d, distSeg(px, py, l[i], l[(i + 1) % l.size()]));
  return d;
}
static LD orientLD(const vec2& a, const vec2& b, const vec2& c) { return ((LD)b.x - a.x) * ((LD)c.y - a.y) - ((LD)b.y - a.y) * ((LD)c.x - a.x); }
static LD lenLD(const vec2& a, const vec2& b) { return hypotl((LD)b.x - a.x, (LD)b.y - a.y); }

struct Edge2 { vec2 a, b; int loop, idx; };
static std::vector<Edge2> edgesOf(const Polygons& ps) {
  std::vector<Edge2> es;
  for (size_t l = 0; l < ps.size(); l++) for (size_t i = 0; i < ps[l].size(); i++) es.push_back({ps[l][i], ps[l][(i + 1) % ps[l].size()], (int)l, (int)i});
  return es;
}
// output validity: loops simple (no repeated vertex), no exactly coincident edges, no two edges crossing
// properly with every endpoint farther than `margin` from the other edge's line
static std::string validity(const Polygons& out, LD margin) {
  for (size_t l = 0; l < out.size(); l++) {
    if (out[l].size() < 3) return "loop with fewer than 3 vertices";
    std::set<std::pair<double, double>> seen;
    for (auto& v : out[l]) if (!seen.insert({v.x, v.y}).second) { char b[120]; snprintf(b, sizeof b, "contour %zu repeats vertex (%.17g,%.17g)", l, v.x, v.y); return b; }
  }
  auto es = edgesOf(out);
  std::set<std::pair<std::pair<double, double>, std::pair<double, double>>> und;
  for (auto& e : es) {
    auto p = std::make_pair(e.a.x, e.a.y), q = std::make_pair(e.b.x, e.b.y);
    if (q < p) std::swap(p, q);
    if (!und.insert({p, q}).second) { char b[160]; snprintf(b, sizeof b, "edge (%.17g,%.17g)-(%.17g,%.17g) occurs twice in the output", p.first, p.second, q.first, q.second); return b; }
  }
  // sort by min x for a sweep-and-prune pair test
  std::vector<int> ord(es.size()); std::iota(ord.begin(), ord.end(), 0);
  auto mnx = [&](int i) { return std::min(es[i].a.x, es[i].b.x); };
  auto mxx = [&](int i) { return std::max(es[i].a.x, es[i].b.x); };
  std::sort(ord.begin(), ord.end(), [&](int i, int j) { return mnx(i) < mnx(j); });
  for (size_t oi = 0; oi < ord.size(); oi++) {
    int i = ord[oi];
    for (size_t oj = oi + 1; oj < ord.size(); oj++) {
      int j = ord[oj];
      if (mnx(j) > mxx(i)) break;
      if (std::max(es[i].a.y, es[i].b.y) < std::min(es[j].a.y, es[j].b.y) || std::max(es[j].a.y, es[j].b.y) < std::min(es[i].a.y, es[i].b.y)) continue;
      gPairTests++;
      const Edge2 &e = es[i], &f = es[j];
      LD o1 = orientLD(e.a, e.b, f.a), o2 = orientLD(e.a, e.b, f.b), o3 = orientLD(f.a, f.b, e.a), o4 = orientLD(f.a, f.b, e.b);
      LD le = lenLD(e.a, e.b), lf = lenLD(f.a, f.b);
      if (fabsl(o1) <= margin * le || fabsl(o2) <= margin * le || fabsl(o3) <= margin * lf || fabsl(o4) <= margin * lf) continue;
      if ((o1 > 0) != (o2 > 0) && (o3 > 0) != (o4 > 0)) {
        char b[400];
        snprintf(b, sizeof b, "output edges cross: (%.17g,%.17g)-(%.17g,%.17g) x (%.17g,%.17g)-(%.17g,%.17g)", e.a.x, e.a.y, e.b.x, e.b.y, f.a.x, f.a.y, f.b.x, f.b.y);
        return b;
      }
    }
  }
  return "";
}

// exact validity on integer coordinates: additionally no collinear overlap and no T-crossing
static std::string latticeValidity(const Polygons& out) {
  auto es = edgesOf(out);
  auto O = [](const vec2& a, const vec2& b, const vec2& c) -> long long {
    return ((long long)b.x - (long long)a.x) * ((long long)c.y - (long long)a.y) - ((long long)b.y - (long long)a.y) * ((long long)c.x - (long long)a.x);
  };
  auto sg = [](long long v) { return v > 0 ? 1 : v < 0 ? -1 : 0; };
  for (size_t i = 0; i < es.size(); i++)
    for (size_t j = i + 1; j < es.size(); j++) {
      const Edge2 &e = es[i], &f = es[j];
      long long o1 = O(e.a, e.b, f.a), o2 = O(e.a, e.b, f.b), o3 = O(f.a, f.b, e.a), o4 = O(f.a, f.b, e.b);
      if (sg(o1) * sg(o2) < 0 && sg(o3) * sg(o4) < 0) return "output edges cross properly (lattice)";
      if (o1 == 0 && o2 == 0) {  // collinear: overlap of positive length?
        auto key = [&](const vec2& p) { return std::make_pair(p.x, p.y); };
        auto a0 = std::min(key(e.a), key(e.b)), a1 = std::max(key(e.a), key(e.b)), b0 = std::min(key(f.a), key(f.b)), b1 = std::max(key(f.a), key(f.b));
        if (std::max(a0, b0) < std::min(a1, b1)) return "output edges overlap (lattice)";
      }
    }
  return "";
}

static Polygons canon(Polygons ps) {
  for (auto& l : ps) {
    if (l.empty()) continue;
    size_t k = 0;
    for (size_t i = 1; i < l.size(); i++) if (l[i].x < l[k].x || (l[i].x == l[k].x && l[i].y < l[k].y)) k = i;
    std::rotate(l.begin(), l.begin() + k, l.end());
  }
  std::sort(ps.begin(), ps.end(), [](const SimplePolygon& a, const SimplePolygon& b) {
    return std::lexicographical_compare(a.begin(), a.end(), b.begin(), b.end(), [](const vec2& p, const vec2& q) { return p.x < q.x || (p.x == q.x && p.y < q.y); });
  });
  return ps;
}
static bool samePolys(const Polygons& a, const Polygons& b) {
  if (a.size() != b.size()) return false;
  for (size_t i = 0; i < a.size(); i++) {
    if (a[i].size() != b[i].size()) return false;
    for (size_t j = 0; j < a[i].size(); j++) if (!(a[i][j].x == b[i][j].x && a[i][j].y == b[i][j].y)) return false;
  }
  return true;
}

// ------------------------------------------------------------------------------------------ unit ties
static int64_t randMult(Rng& r, bool allowZero) {
  for (;;) {
    int64_t m;
    int k = (int)r.below(20);
    if (k == 0) m = ((int64_t)1 << 40) + (int64_t)r.below(5);
    else if (k == 1) m = -(((int64_t)1 << 40) + (int64_t)r.below(5));
    else m = r.range(-3, 3);
    if (m != 0 || allowZero) return m;
  }
}

static void unitInside() {
  const WindRule rules[3] = {WindRule::Add, WindRule::Intersect, WindRule::EvenOdd};
  std::vector<int64_t> ws;
  for (int w = -6; w <= 6; w++) ws.push_back(w);
  for (int64_t b : {(int64_t)1 << 40, ((int64_t)1 << 40) + 1, std::numeric_limits<int64_t>::max() / 4 * 2 + 1}) { ws.push_back(b); ws.push_back(-b); }
  for (auto rule : rules) for (int64_t w : ws)
    hz::emit("inside-" + std::string(ruleName(rule)) + "-" + std::to_string((long long)w) + " inside", "sweep2 inside " + std::string(ruleName(rule)) + " " + std::to_string((long long)w), IsInside(rule, w) ? "1" : "0", true);
}

static void unitEmitDirect(Rng& r, int id) {
  const WindRule rules[3] = {WindRule::Add, WindRule::Intersect, WindRule::EvenOdd};
  WindRule rule = rules[r.below(3)];
  int64_t below = r.below(8) == 0 ? randMult(r, true) : r.range(-4, 4);
  int64_t above = below + randMult(r, true);
  bool fwd = r.below(2);
  vec2 lo(r.range(-3, 3), r.range(-3, 3)), hi = lo;
  while (!kLexLess(lo, hi)) hi = vec2(lo.x + r.range(0, 3), lo.y + r.range(-3, 3));
  SweepPass pass(rule, SweepMode::Winding);
  pass.EmitBoundary(fwd ? lo : hi, fwd ? hi : lo, /*m (unused in winding mode)=*/7, below, above);
  int64_t stored = 0;
  bool shapeOk = pass.out_.size() <= 1;
  if (pass.out_.size() == 1) { auto& kv = *pass.out_.begin(); stored = kv.second; shapeOk = kv.first.first == lo && kv.first.second == hi; }
  // oracle on the real output: the stored lex-forward sign is +1 iff only the upper side is filled
  int want = (int)IsInside(rule, above) - (int)IsInside(rule, below);
  bool ok = shapeOk && stored == want;
  hz::emit("emitdirect-" + std::to_string(id) + " emitdirect rule=" + ruleName(rule) + " fwd=" + std::to_string(fwd),
           "sweep2 emit " + std::string(ruleName(rule)) + " " + (fwd ? "1" : "0") + " " + std::to_string((long long)below) + " " + std::to_string((long long)(above - below)),
           std::to_string((long long)stored), ok, ok ? "" : "EmitBoundary stored " + std::to_string((long long)stored) + " for below=" + std::to_string((long long)below) + " above=" + std::to_string((long long)above));
}

// a synthetic status with three blocks driven through the real ProcessEvent: `under` edges ending at
// (2,-400), a fan ending at (1,0), `over` edges ending at (1,200); all start on x = 0
static void unitEmitColumn(Rng& r, int id) {
  const WindRule rules[3] = {WindRule::Add, WindRule::Intersect, WindRule::EvenOdd};
  WindRule rule = rules[r.below(3)];
  std::vector<int64_t> us, ms, os;
  int nu = (int)r.below(5), nf = 1 + (int)r.below(8), no = (int)r.below(5);
  bool big = r.below(6) == 0;
  auto mk = [&]() { return big ? randMult(r, false) : (int64_t)(r.below(2) ? r.range(1, 3) : -r.range(1, 3)); };
  for (int i = 0; i < nu; i++) us.push_back(mk());
  for (int i = 0; i < nf; i++) ms.push_back(mk());
  for (int i = 0; i < no; i++) os.push_back(mk());
  SweepPass pass(rule, SweepMode::Winding);
  // bottom-to-top order = ascending start ordinate
  std::vector<std::pair<vec2, vec2>> ku, kf, ko;
  for (int i = 0; i < nu; i++) { ku.push_back({vec2(0, -10 - (nu - 1 - i)), vec2(2, -400)}); pass.Seed(ku[i].first, ku[i].second, us[i]); }
  for (int i = 0; i < nf; i++) { kf.push_back({vec2(0, 10 + i), vec2(1, 0)}); pass.Seed(kf[i].first, kf[i].second, ms[i]); }
  for (int i = 0; i < no; i++) { ko.push_back({vec2(0, 100 + i), vec2(1, 200)}); pass.Seed(ko[i].first, ko[i].second, os[i]); }
  pass.Run(/*mergeVerticalOutput=*/false);
  PolySet2& out = pass.Out();
  int64_t wu = 0; for (auto m : us) wu += m;
  auto block = [&](const char* nm, const std::vector<std::pair<vec2, vec2>>& keys, const std::vector<int64_t>& mult, int64_t w0) {
    if (keys.empty()) return;
    std::vector<long long> got;
    bool ok = true; int64_t w = w0; long long acc = 0; std::string msg;
    for (size_t i = 0; i < keys.size(); i++) {
      auto it = out.find(keys[i]);
      long long e = it == out.end() ? 0 : (long long)it->second;
      got.push_back(e);
      w += mult[i]; acc += e;
      // property oracle on the real output: partial sums are the fill indicator relative to the entry winding
      long long want = (long long)IsInside(rule, w) - (long long)IsInside(rule, w0);
      if (acc != want || e < -1 || e > 1) { ok = false; msg = "prefix sum of emitted signs " + std::to_string(acc) + " != fill indicator " + std::to_string(want) + " at gap " + std::to_string(i + 1); }
    }
    std::string req = "sweep2 emit " + std::string(ruleName(rule)) + " 1 " + std::to_string((long long)w0);
    for (auto m : mult) req += " " + std::to_string((long long)m);
    hz::emit("emitcol-" + std::to_string(id) + "-" + nm + " emitcol rule=" + ruleName(rule) + " n=" + std::to_string(keys.size()), req, hz::join(got), ok, msg);
  };
  block("under", ku, us, 0);
  block("fan", kf, ms, wu);
  block("over", ko, os, wu);
}

static void unitPolySet(Rng& r, int id, bool merge) {
  int n = 1 + (int)r.below(merge ? 14 : 10);
  int G = merge ? 6 : 3;
  PolySet2 ps; std::string req = merge ? "sweep2 mergev" : "sweep2 polyset";
  std::vector<std::pair<vec2, vec2>> prev;
  for (int i = 0; i < n; i++) {
    vec2 a(r.range(0, merge ? 2 : G), r.range(0, G)), b(r.range(0, merge ? 2 : G), r.range(0, G));
    if (merge && r.below(3)) b.x = a.x;                                     // many verticals on few lines
    if (!prev.empty() && r.below(4) == 0) { auto p = prev[r.below(prev.size())]; a = p.second; b = p.first; }  // the reverse of an earlier edge
    if (!prev.empty() && r.below(6) == 0) { auto p = prev[r.below(prev.size())]; a = p.first; b = p.second; }  // a copy
    int64_t m = r.below(10) == 0 ? 0 : r.range(-2, 2);
    prev.push_back({a, b});
    PolySetAdd(ps, a, b, m);
    req += std::string(i ? " ; " : " ") + ll(a.x) + " " + ll(a.y) + " " + ll(b.x) + " " + ll(b.y) + " " + std::to_string((long long)m);
  }
  bool ok = true; std::string msg;
  if (merge) {
    // oracle on the real output: coverage of every vertical line at half-integer ordinates is unchanged,
    // and the verticals on one line are disjoint
    PolySet2 before = ps;
    MergeVerticals1D(ps);
    for (int x = 0; x <= 2 && ok; x++) {
      for (int y2 = -1; y2 <= 2 * G + 1 && ok; y2 += 2) {
        double y = y2 / 2.0; long long c0 = 0, c1 = 0; int hits = 0;
        for (auto& kv : before) if (kv.first.first.x == x && kv.first.second.x == x && kv.first.first.y < y && y < kv.first.second.y) c0 += kv.second;
        for (auto& kv : ps) if (kv.first.first.x == x && kv.first.second.x == x && kv.first.first.y < y && y < kv.first.second.y) { c1 += kv.second; hits++; }
        if (c0 != c1) { ok = false; msg = "coverage of x=" + std::to_string(x) + " at y=" + std::to_string(y) + " changed from " + std::to_string(c0) + " to " + std::to_string(c1); }
        if (hits > 1) { ok = false; msg = "merged verticals overlap on x=" + std::to_string(x); }
      }
    }
    for (auto& kv : before) if (kv.first.first.x != kv.first.second.x) { auto it = ps.find(kv.first); if (it == ps.end() || it->second != kv.second) { ok = false; msg = "a non-vertical entry changed"; } }
  } else {
    for (auto& kv : ps) if (kv.second == 0 || !kLexLess(kv.first.first, kv.first.second)) { ok = false; msg = "zero or non-normalised entry stored"; }
  }
  hz::emit(std::string(merge ? "mergev-" : "polyset-") + std::to_string(id) + (merge ? " mergev" : " polyset") + " n=" + std::to_string(n), req, fmtPolySet(ps), ok, msg);
}

// balanced directed multigraph on distinct lattice points: a union of random closed vertex cycles
static void unitWalk(Rng& r, int id) {
  int nv = 3 + (int)r.below(7);
  std::vector<vec2> verts; std::set<std::pair<int, int>> used;
  while ((int)verts.size() < nv) { int x = r.range(-3, 3), y = r.range(-3, 3); if (used.insert({x, y}).second) verts.push_back(vec2(x, y)); }
  std::vector<OutEdge> edges;
  int nc = 1 + (int)r.below(4);
  for (int c = 0; c < nc; c++) {
    int len = 2 + (int)r.below(5);
    std::vector<int> cyc;
    for (int i = 0; i < len; i++) { int v = (int)r.below(nv); if (!cyc.empty() && cyc.back() == v) continue; cyc.push_back(v); }
    while (cyc.size() >= 2 && cyc.front() == cyc.back()) cyc.pop_back();
    if (cyc.size() < 2) continue;
    for (size_t i = 0; i < cyc.size(); i++) edges.push_back({cyc[i], cyc[(i + 1) % cyc.size()], 1});
  }
  for (size_t i = edges.size(); i > 1; i--) std::swap(edges[i - 1], edges[r.below(i)]);
  std::string req = "sweep2 walk";
  for (size_t i = 0; i < verts.size(); i++) req += std::string(i ? " ; " : " ") + ll(verts[i].x) + " " + ll(verts[i].y);
  req += " |";
  for (size_t i = 0; i < edges.size(); i++) req += std::string(i ? " ; " : " ") + std::to_string(edges[i].v0) + " " + std::to_string(edges[i].v1);
  Polygons polys = OutEdgesToPolygons(verts, edges);
  std::map<std::pair<double, double>, int> idOf;
  for (int i = 0; i < nv; i++) idOf[{verts[i].x, verts[i].y}] = i;
  std::string exp = "closed 1 |"; bool ok = true; std::string msg;
  for (size_t l = 0; l < polys.size(); l++) {
    exp += l ? " ," : "";
    std::set<int> seen;
    for (auto& v : polys[l]) { int idv = idOf[{v.x, v.y}]; exp += " " + std::to_string(idv); if (!seen.insert(idv).second) { ok = false; msg = "extracted loop repeats a vertex"; } }
    if (polys[l].size() < 3) { ok = false; msg = "extracted loop with fewer than 3 vertices"; }
  }
  hz::emit("walk-" + std::to_string(id) + " walk nv=" + std::to_string(nv) + " ne=" + std::to_string(edges.size()), req, exp, ok, msg);
}

// ------------------------------------------------------------------------------------------ lattice programs
struct Prog { CrossSection cs; std::string toks; };
static std::string gCommFail;

static void checkComm(const CrossSection& a, const CrossSection& b, OpType op, const std::string& ta, const std::string& tb) {
  gCommChecks++;
  Polygons p = canon(a.Boolean(b, op).ToPolygons()), q = canon(b.Boolean(a, op).ToPolygons());
  if (!samePolys(p, q) && gCommFail.empty())
    gCommFail = std::string(op == OpType::Add ? "union" : "intersection") + " depends on operand order: A=" + ta + " B=" + tb + " A.B=" + fmtPolys(p, 800) + " B.A=" + fmtPolys(q, 800);
}

static Prog genProg(Rng& r, int depth, std::vector<Prog>& pool) {
  int k = depth <= 0 ? 0 : (int)r.below(12);
  if (k == 0 || k == 1) {  // leaf (k==1: reuse a whole earlier sub-program when there is one)
    if (k == 1 && !pool.empty()) return pool[r.below(pool.size())];
    int x0 = r.range(0, 6), y0 = r.range(0, 6), x1 = r.range(x0 + 1, 8), y1 = r.range(y0 + 1, 8);
    if (r.below(2)) { x1 = std::max(x1, std::min(8, x0 + 3)); y1 = std::max(y1, std::min(8, y0 + 3)); }
    Prog p{CrossSection(Rect(vec2(x0, y0), vec2(x1, y1))), "R " + std::to_string(x0) + " " + std::to_string(y0) + " " + std::to_string(x1) + " " + std::to_string(y1)};
    return p;
  }
  if (k <= 4) {  // binary Boolean
    Prog a = genProg(r, depth - 1, pool), b = genProg(r, depth - 1, pool);
    int o10 = (int)r.below(10), o = o10 < 5 ? 0 : o10 < 8 ? 1 : 2;
    OpType op = o == 0 ? OpType::Add : o == 1 ? OpType::Subtract : OpType::Intersect;
    if (op != OpType::Subtract) checkComm(a.cs, b.cs, op, a.toks, b.toks);
    Prog p{a.cs.Boolean(b.cs, op), std::string(o == 0 ? "U " : o == 1 ? "D " : "I ") + a.toks + " " + b.toks};
    pool.push_back(p);
    return p;
  }
  if (k <= 6) {  // BatchBoolean
    int n = 2 + (int)r.below(3), o = (int)r.below(3);
    OpType op = o == 0 ? OpType::Add : o == 1 ? OpType::Subtract : OpType::Intersect;
    std::vector<CrossSection> v; std::string t = std::string(o == 0 ? "BU " : o == 1 ? "BD " : "BI ") + std::to_string(n);
    for (int i = 0; i < n; i++) { Prog c = genProg(r, depth - 1, pool); v.push_back(c.cs); t += " " + c.toks; }
    if (op != OpType::Subtract) {  // operand order of a batch union / intersection
      gCommChecks++;
      std::vector<CrossSection> w(v.rbegin(), v.rend());
      Polygons p = canon(CrossSection::BatchBoolean(v, op).ToPolygons()), q = canon(CrossSection::BatchBoolean(w, op).ToPolygons());
      if (!samePolys(p, q) && gCommFail.empty()) gCommFail = "BatchBoolean " + t + " depends on operand order: " + fmtPolys(p, 800) + " vs " + fmtPolys(q, 800);
    }
    Prog p{CrossSection::BatchBoolean(v, op), t};
    pool.push_back(p);
    return p;
  }
  Prog a = genProg(r, depth - 1, pool);
  if (k <= 8) {  // integer translation (k==8: through Warp, which re-applies the fill rule)
    if (r.below(6) == 0) {   // far away and back, materialised out there: the pixel set is unchanged (2^40 + small integers are exact doubles), only the
      const double F = 1099511627776.0;   // carried tolerance grows to the rounding size at 2^40 (about 1): later Booleans must still resolve unit pixels
      CrossSection f = a.cs.Translate(vec2(r.below(2) ? F : 0.0, r.below(2) ? -F : F)); Rect bnd = f.Bounds(); (void)f.Area(); (void)f.NumVert();
      CrossSection c = f.Translate(vec2(-(bnd.min.x - a.cs.Bounds().min.x), -(bnd.min.y - a.cs.Bounds().min.y)));
      return a.cs.IsEmpty() ? a : Prog{c, "T 0 0 " + a.toks};
    }
    int dx = r.below(4) ? r.range(-2, 2) : r.range(-4, 4), dy = r.below(4) ? r.range(-2, 2) : r.range(-4, 4);
    CrossSection c = k == 7 ? a.cs.Translate(vec2(dx, dy)) : a.cs.Warp([dx, dy](vec2& v) { v.x += dx; v.y += dy; });
    return Prog{c, "T " + std::to_string(dx) + " " + std::to_string(dy) + " " + a.toks};
  }
  // mostly composed with the translation that maps [0,8]^2 onto itself, so operands keep overlapping
  bool back = r.below(5) != 0;
  if (k <= 10) return back ? Prog{a.cs.Rotate(90).Translate(vec2(8, 0)), "T 8 0 Q " + a.toks} : Prog{a.cs.Rotate(90), "Q " + a.toks};
  return back ? Prog{a.cs.Mirror(vec2(1, 0)).Translate(vec2(8, 0)), "T 8 0 M " + a.toks} : Prog{a.cs.Mirror(vec2(1, 0)), "M " + a.toks};
}

static void latticeCase(Rng& r, int id) {
  std::vector<Prog> pool;
  gCommFail.clear();
  int depth = 1 + (int)r.below(6);
  Prog p = genProg(r, depth, pool);
  Polygons out = p.cs.ToPolygons();
  const int LO = -40, HI = 40;
  bool ok = true; std::string msg;
  for (auto& l : out) for (auto& v : l) {
    if (v.x != std::floor(v.x) || v.y != std::floor(v.y)) { ok = false; char b[100]; snprintf(b, sizeof b, "non-integer output vertex (%.17g,%.17g)", v.x, v.y); msg = b; }
    if (v.x < LO || v.x > HI || v.y < LO || v.y > HI) return;  // outside the comparison window: not a case
  }
  long count = 0; std::string rows;
  for (int j = LO; j < HI; j++) {
    rows += " ";
    for (int i = LO; i < HI; i++) {
      int w = windingAt(out, (LD)i + 0.5L, (LD)j + 0.5L);
      if (w != 0 && w != 1 && ok) { ok = false; msg = "winding " + std::to_string(w) + " of the result at pixel " + std::to_string(i) + "," + std::to_string(j); }
      rows += w != 0 ? '1' : '0'; count += w != 0;
    }
  }
  double area = p.cs.Area();
  if (ok && area != (double)count) { ok = false; char b[100]; snprintf(b, sizeof b, "Area %.17g != pixel count %ld", area, count); msg = b; }
  if (ok) { msg = latticeValidity(out); ok = msg.empty(); }
  if (ok) { msg = validity(out, 0); ok = msg.empty(); }
  if (ok && !gCommFail.empty()) { ok = false; msg = gCommFail; }
  if (!ok) msg += " result=" + fmtPolys(out, 1500);
  hz::emit("lat-" + std::to_string(id) + " lattice depth=" + std::to_string(depth) + " px=" + std::to_string(count) + " loops=" + std::to_string(out.size()),
           "sweep2 pixel " + std::to_string(LO) + " " + std::to_string(HI) + " " + p.toks, std::to_string(count) + rows, ok, msg);
}

// ------------------------------------------------------------------------------------------ arbitrary contours
static SimplePolygon starPoly(Rng& r, double cx, double cy, double rad, int n, int k, bool cw) {  // {n/k} star, self-intersecting for k>1
  SimplePolygon p; double ph = r.below(10000) * 6.283185307179586e-4;
  for (int i = 0; i < n; i++) { double a = ph + 2 * M_PI * ((i * k) % n) / n; p.push_back(vec2(cx + rad * cos(a), cy + rad * sin(a))); }
  if (cw) std::reverse(p.begin(), p.end());
  return p;
}
static SimplePolygon randomPoly(Rng& r, double cx, double cy, double rad, int n) {  // random closed polyline: many self-intersections
  SimplePolygon p;
  for (int i = 0; i < n; i++) p.push_back(vec2(cx + rad * (r.below(20001) / 10000.0 - 1), cy + rad * (r.below(20001) / 10000.0 - 1)));
  return p;
}
static SimplePolygon circlePoly(Rng& r, double cx, double cy, double rad, int n, bool cw) { return starPoly(r, cx, cy, rad, n, 1, cw); }
static SimplePolygon rectPoly(double x0, double y0, double x1, double y1, bool cw) {
  SimplePolygon p{vec2(x0, y0), vec2(x1, y0), vec2(x1, y1), vec2(x0, y1)};
  if (cw) std::reverse(p.begin(), p.end());
  return p;
}

static Polygons genContours(Rng& r, double s, std::string& kind) {
  Polygons ps;
  int k = (int)r.below(10);
  double ox = s * (r.below(2001) / 1000.0 - 1) * (r.below(3) == 0 ? 10 : 0.5), oy = s * (r.below(2001) / 1000.0 - 1) * (r.below(3) == 0 ? 10 : 0.5);
  switch (k) {
    case 0: {  // stars {n/k}
      kind = "star";
      int m = 1 + (int)r.below(3);
      for (int i = 0; i < m; i++) { int n = 5 + (int)r.below(8); int kk = 2 + (int)r.below(std::max(1, n / 2 - 1)); ps.push_back(starPoly(r, ox + s * 0.3 * i, oy, s * (0.5 + 0.1 * r.below(6)), n, kk, r.below(3) == 0)); }
      break;
    }
    case 1: {  // figure-eights / bow-ties
      kind = "eight";
      int m = 1 + (int)r.below(3);
      for (int i = 0; i < m; i++) {
        double x = ox + s * 0.37 * i, y = oy + s * 0.21 * i, w = s * (0.4 + 0.1 * r.below(5)), h = s * (0.3 + 0.1 * r.below(5));
        SimplePolygon p{vec2(x, y), vec2(x + w, y + h), vec2(x + w, y), vec2(x, y + h)};
        if (r.below(2)) std::reverse(p.begin(), p.end());
        ps.push_back(p);
      }
      break;
    }
    case 2: {  // overlapping discs, both orientations
      kind = "discs";
      int m = 2 + (int)r.below(4);
      for (int i = 0; i < m; i++) ps.push_back(circlePoly(r, ox + s * 0.4 * (r.below(2001) / 1000.0 - 1), oy + s * 0.4 * (r.below(2001) / 1000.0 - 1), s * (0.2 + 0.05 * r.below(8)), 6 + (int)r.below(30), r.below(3) == 0));
      break;
    }
    case 3: {  // rectangles on a coarse non-integer grid: collinear overlapping edges, shared corners, copies
      kind = "collinear";
      int m = 2 + (int)r.below(5); double g = s * 0.1;
      for (int i = 0; i < m; i++) {
        int x0 = r.range(0, 8), y0 = r.range(0, 8), x1 = r.range(x0 + 1, 10), y1 = r.range(y0 + 1, 10);
        ps.push_back(rectPoly(ox + g * x0, oy + g * y0, ox + g * x1, oy + g * y1, r.below(4) == 0));
        if (r.below(5) == 0) ps.push_back(ps.back());
      }
      break;
    }
    case 4: {  // near-concurrent crossings: thin needles through (almost) one point
      kind = "needles";
      int m = 3 + (int)r.below(6); double pert = s * std::pow(10.0, -(double)r.range(6, 15));
      for (int i = 0; i < m; i++) {
        double a = M_PI * (i + 0.1 * (r.below(7))) / m, cx = ox + pert * (r.below(2001) / 1000.0 - 1), cy = oy + pert * (r.below(2001) / 1000.0 - 1);
        double dx = cos(a) * s, dy = sin(a) * s, wx = -sin(a) * s * 0.02, wy = cos(a) * s * 0.02;
        SimplePolygon p{vec2(cx - dx - wx, cy - dy - wy), vec2(cx + dx + wx, cy + dy + wy), vec2(cx + dx - wx, cy + dy - wy), vec2(cx - dx + wx, cy - dy + wy)};  // bow-tie through the centre
        if (r.below(2)) p = SimplePolygon{vec2(cx - dx - wx, cy - dy - wy), vec2(cx + dx - wx, cy + dy - wy), vec2(cx + dx + wx, cy + dy + wy), vec2(cx - dx + wx, cy - dy + wy)};  // thin parallelogram
        if (r.below(3) == 0) std::reverse(p.begin(), p.end());
        ps.push_back(p);
      }
      break;
    }
    case 5: {  // random polylines
      kind = "scribble";
      int m = 1 + (int)r.below(2);
      for (int i = 0; i < m; i++) ps.push_back(randomPoly(r, ox, oy, s, 4 + (int)r.below(14)));
      break;
    }
    case 6: {  // nested same-direction and opposite-direction rings (winding 2, holes, islands)
      kind = "nested";
      int m = 2 + (int)r.below(4);
      for (int i = 0; i < m; i++) ps.push_back(circlePoly(r, ox, oy, s * (1.0 - 0.18 * i), 5 + (int)r.below(12), r.below(2)));
      break;
    }
    case 7: {  // a shape and an almost-identical copy (rotation 1e-8..1e-15, sub-eps .. small shift): near-collinear overlapping edges
      kind = "nearcopy";
      SimplePolygon base = r.below(2) ? starPoly(r, ox, oy, s, 5 + (int)r.below(6), 1 + (int)r.below(2), false) : rectPoly(ox - s * 0.7, oy - s * 0.4, ox + s * 0.6, oy + s * 0.5, false);
      ps.push_back(base);
      int m = 1 + (int)r.below(3);
      for (int i = 0; i < m; i++) {
        double ang = std::pow(10.0, -(double)r.range(8, 15)) * (r.below(2) ? 1 : -1), sh = s * std::pow(10.0, -(double)r.range(3, 16)) * (r.below(3) ? 1 : 0);
        SimplePolygon q;
        for (auto& v : base) q.push_back(vec2(ox + (v.x - ox) * cos(ang) - (v.y - oy) * sin(ang) + sh, oy + (v.x - ox) * sin(ang) + (v.y - oy) * cos(ang) - sh * 0.5));
        if (r.below(3) == 0) std::reverse(q.begin(), q.end());
        ps.push_back(q);
      }
      break;
    }
    case 8: {  // hash of thin bars: a grid of crossings, T-junctions and exactly touching corners
      kind = "hash";
      int nx = 2 + (int)r.below(4), ny = 2 + (int)r.below(4); double g = s * 0.2, t = g * (r.below(2) ? 0.25 : 0.5);
      for (int i = 0; i < nx; i++) ps.push_back(rectPoly(ox + g * i, oy - g * 0.5, ox + g * i + t, oy + g * ny, r.below(5) == 0));
      for (int j = 0; j < ny; j++) ps.push_back(rectPoly(ox - g * 0.5, oy + g * j, ox + g * (nx - 1) + (r.below(2) ? t : g), oy + g * j + t, r.below(5) == 0));
      if (r.below(2)) { SimplePolygon d{vec2(ox - g * 0.5, oy - g * 0.5), vec2(ox + g * nx, oy + g * ny), vec2(ox + g * nx - t, oy + g * ny), vec2(ox - g * 0.5 - t, oy - g * 0.5)}; ps.push_back(d); }  // a diagonal through the lattice points
      break;
    }
    default: {  // mixture
      kind = "mix";
      ps.push_back(starPoly(r, ox, oy, s * 0.8, 7, 3, false));
      ps.push_back(rectPoly(ox - s * 0.5, oy - s * 0.5, ox + s * 0.5, oy + s * 0.5, r.below(2)));
      ps.push_back(randomPoly(r, ox, oy, s * 0.7, 6));
      ps.push_back(circlePoly(r, ox + 0.2 * s, oy, s * 0.6, 24, r.below(2)));
    }
  }
  return ps;
}

struct Bounds2 { double x0 = 1e300, y0 = 1e300, x1 = -1e300, y1 = -1e300; void add(const Polygons& p) { for (auto& l : p) for (auto& v : l) { x0 = std::min(x0, v.x); y0 = std::min(y0, v.y); x1 = std::max(x1, v.x); y1 = std::max(y1, v.y); } } };

// classify sample points; `inside(p)` evaluates the specification from the INPUT windings
static std::string sampleOracle(Rng& r, const std::vector<const Polygons*>& inputs, const Polygons& out, LD margin, int nRandom,
                                const std::function<bool(const std::vector<int>&)>& spec) {
  Bounds2 bb; for (auto p : inputs) bb.add(*p); bb.add(out);
  if (bb.x0 > bb.x1) return "";
  double W = std::max(bb.x1 - bb.x0, bb.y1 - bb.y0); if (!(W > 0)) return "";
  std::vector<std::pair<LD, LD>> pts;
  for (int i = 0; i < nRandom; i++) pts.push_back({bb.x0 - 0.05 * W + 1.1 * W * (r.below(1000001) / 1e6), bb.y0 - 0.05 * W + 1.1 * W * (r.below(1000001) / 1e6)});
  // probes beside input and output edges at 100*eps-scale, 1e-6 and 1e-3 of the extent
  auto beside = [&](const Polygons& ps, int stride) {
    int c = 0;
    for (auto& l : ps) for (size_t i = 0; i < l.size(); i++) {
      if ((c++ % stride) != 0) continue;
      const vec2 &a = l[i], &b = l[(i + 1) % l.size()];
      LD len = lenLD(a, b); if (!(len > 0)) continue;
      LD t = 0.1L + 0.8L * (r.below(1001) / 1000.0L), mx = a.x + t * ((LD)b.x - a.x), my = a.y + t * ((LD)b.y - a.y), nx = -((LD)b.y - a.y) / len, ny = ((LD)b.x - a.x) / len;
      for (LD d : {(LD)(20 * margin), (LD)(1e-6 * W), (LD)(1e-3 * W)}) { pts.push_back({mx + d * nx, my + d * ny}); pts.push_back({mx - d * nx, my - d * ny}); }
    }
  };
  size_t nIn = 0; for (auto p : inputs) for (auto& l : *p) nIn += l.size();
  size_t nOut = 0; for (auto& l : out) nOut += l.size();
  for (auto p : inputs) beside(*p, nIn > 600 ? 4 : 1);
  beside(out, nOut > 600 ? 4 : 1);
  for (auto& pt : pts) {
    bool near = minDist(out, pt.first, pt.second) < margin;
    for (auto p : inputs) if (!near && minDist(*p, pt.first, pt.second) < margin) near = true;
    if (near) { gSkipped++; continue; }
    gSamples++;
    std::vector<int> w; for (auto p : inputs) w.push_back(windingAt(*p, pt.first, pt.second));
    int wo = windingAt(out, pt.first, pt.second);
    bool want = spec(w);
    if (wo != 0 && wo != 1) { char b[200]; snprintf(b, sizeof b, "output winding %d at (%.17Lg,%.17Lg)", wo, pt.first, pt.second); return b; }
    if ((wo == 1) != want) {
      char b[300]; std::string ws; for (int x : w) ws += " " + std::to_string(x);
      snprintf(b, sizeof b, "point (%.17Lg,%.17Lg) with input windings%s should be %s but the result has winding %d (distance to nearest edge %.3Lg, margin %.3Lg)", pt.first, pt.second, ws.c_str(),
               want ? "inside" : "outside", wo, std::min(minDist(out, pt.first, pt.second), minDist(*inputs[0], pt.first, pt.second)), margin);
      return b;
    }
  }
  return "";
}

static void finish(const std::string& tag, const std::vector<const Polygons*>& inputs, const Polygons& out, std::string msg, LD margin) {
  if (msg.empty()) msg = validity(out, margin);
  bool ok = msg.empty();
  if (!ok) { for (size_t i = 0; i < inputs.size(); i++) msg += " input" + std::to_string(i) + "=" + fmtPolys(*inputs[i]); msg += " result=" + fmtPolys(out, 3000); }
  hz::emit(tag, "", "", ok, msg);
}

static void contourCase(Rng& r, int id) {
  const double scales[5] = {1e-3, 1e-1, 1, 10, 1e3};
  double s = scales[r.below(5)];
  std::string kind; Polygons in = genContours(r, s, kind);
  int mode = (int)r.below(9);
  char sc[40]; snprintf(sc, sizeof sc, "%g", s);
  if (mode <= 2) {  // construction under a fill rule
    Polygons out; LD eps = InferEps(in, {}); const char* rn;
    std::function<bool(const std::vector<int>&)> spec;
    if (mode == 0) { CrossSection c(in); out = c.ToPolygons(); eps = std::max<LD>(eps, c.GetTolerance()); rn = "positive"; spec = [](const std::vector<int>& w) { return w[0] > 0; }; }
    else if (mode == 1) { CrossSection c = CrossSection::EvenOdd(in); out = c.ToPolygons(); eps = std::max<LD>(eps, c.GetTolerance()); rn = "evenodd"; spec = [](const std::vector<int>& w) { return (w[0] % 2) != 0; }; }
    else { out = ApplyFillRule(in, (double)eps, WindRule::Intersect); rn = "gt1"; spec = [](const std::vector<int>& w) { return w[0] > 1; }; }
    LD margin = 10 * eps;
    std::string msg = sampleOracle(r, {&in}, out, margin, 150, spec);
    finish("ctr-" + std::to_string(id) + " fill-" + rn + " kind=" + kind + " scale=" + sc + " nin=" + std::to_string(edgesOf(in).size()) + " nout=" + std::to_string(edgesOf(out).size()), {&in}, out, msg, margin);
    return;
  }
  if (mode == 7) {  // Warp of a regularised section by a smooth non-affine map: the result is the positive fill of the warped contours
    CrossSection A(in);
    double amp = 0.3 * (r.below(1001) / 1000.0), fr = (1 + r.below(4)) / s, sx = r.below(2) ? 1.0 : 0.7;
    auto f = [amp, fr, s, sx](vec2& v) { double x = v.x, y = v.y; v.x = sx * x + amp * s * std::sin(fr * y); v.y = y + 0.5 * amp * s * std::cos(fr * x); };
    Polygons warped = A.ToPolygons();
    for (auto& l : warped) for (auto& v : l) f(v);
    CrossSection W = A.Warp(f);
    Polygons out = W.ToPolygons();
    LD eps = std::max<LD>({(LD)InferEps(warped, {}), (LD)A.GetTolerance(), (LD)W.GetTolerance()});
    LD margin = 10 * eps;
    std::string msg = sampleOracle(r, {&warped}, out, margin, 150, [](const std::vector<int>& w) { return w[0] > 0; });
    finish("ctr-" + std::to_string(id) + " warp kind=" + kind + " scale=" + sc + " nout=" + std::to_string(edgesOf(out).size()), {&warped}, out, msg, margin);
    return;
  }
  std::string kind2; Polygons in2 = genContours(r, s, kind2);
  // put the second operand over the first
  Bounds2 b1, b2; b1.add(in); b2.add(in2);
  double dx = (b1.x0 + b1.x1) / 2 - (b2.x0 + b2.x1) / 2 + 0.2 * s * (r.below(2001) / 1000.0 - 1), dy = (b1.y0 + b1.y1) / 2 - (b2.y0 + b2.y1) / 2 + 0.2 * s * (r.below(2001) / 1000.0 - 1);
  for (auto& l : in2) for (auto& v : l) { v.x += dx; v.y += dy; }
  const bool bEvenOdd = r.below(3) == 0;
  CrossSection A(in), B = bEvenOdd ? CrossSection::EvenOdd(in2) : CrossSection(in2);
  auto inB = [bEvenOdd](int w) { return bEvenOdd ? (w % 2) != 0 : w > 0; };
  if (mode == 8) {  // Booleans of affinely transformed sections (arbitrary rotation, shear, mirror; lazily applied transforms)
    double ang = r.below(36000) / 100.0, shx = 0.5 * (r.below(2001) / 1000.0 - 1), k1 = 0.5 + r.below(1500) / 1000.0;
    bool mir = r.below(2);
    mat2x3 m(vec2(k1, 0.0), vec2(shx, mir ? -1.0 : 1.0), vec2(0.1 * s, -0.05 * s));
    CrossSection A2 = A.Transform(m), B2 = B.Rotate(ang).Translate(vec2(0.05 * s, 0));
    if (r.below(3) == 0) A2 = A2.Mirror(vec2(1, 1));
    int o = (int)r.below(3); OpType op = o == 0 ? OpType::Add : o == 1 ? OpType::Subtract : OpType::Intersect;
    CrossSection C = A2.Boolean(B2, op);
    Polygons pa = A2.ToPolygons(), pb = B2.ToPolygons(), out = C.ToPolygons();
    LD eps = std::max<LD>({(LD)InferEps(pa, pb), (LD)A2.GetTolerance(), (LD)B2.GetTolerance(), (LD)C.GetTolerance()});
    LD margin = 10 * eps;
    std::string msg;
    // the transformed operands must themselves still wind 0/1 (mirrors reverse the loops)
    auto spec = [op](const std::vector<int>& w) { bool a = w[0] == 1, b = w[1] == 1; return op == OpType::Add ? (a || b) : op == OpType::Subtract ? (a && !b) : (a && b); };
    msg = sampleOracle(r, {&pa, &pb}, out, margin, 150, spec);
    if (msg.empty()) msg = sampleOracle(r, {&pa}, pa, margin, 40, [](const std::vector<int>& w) { return w[0] == 1; });
    if (msg.empty()) msg = sampleOracle(r, {&pb}, pb, margin, 40, [](const std::vector<int>& w) { return w[0] == 1; });
    finish("ctr-" + std::to_string(id) + " xform-" + (o == 0 ? "add" : o == 1 ? "sub" : "int") + " kind=" + kind + "+" + kind2 + " scale=" + sc + " nout=" + std::to_string(edgesOf(out).size()), {&pa, &pb}, out, msg, margin);
    return;
  }
  if (mode <= 5) {
    OpType op = mode == 3 ? OpType::Add : mode == 4 ? OpType::Subtract : OpType::Intersect;
    CrossSection C = A.Boolean(B, op);
    Polygons out = C.ToPolygons();
    LD eps = std::max<LD>({(LD)InferEps(in, in2), (LD)A.GetTolerance(), (LD)B.GetTolerance(), (LD)C.GetTolerance()});
    LD margin = 10 * eps;
    // the operands themselves are results: their edges also bound the classification margin
    Polygons pa = A.ToPolygons(), pb = B.ToPolygons();
    auto spec = [op, inB](const std::vector<int>& w) { bool a = w[0] > 0, b = inB(w[1]); return op == OpType::Add ? (a || b) : op == OpType::Subtract ? (a && !b) : (a && b); };
    std::string msg = sampleOracle(r, {&in, &in2, &pa, &pb}, out, margin, 150, spec);
    finish("ctr-" + std::to_string(id) + " bool-" + (mode == 3 ? "add" : mode == 4 ? "sub" : "int") + " kind=" + kind + "+" + kind2 + (bEvenOdd ? "(eo)" : "") + " scale=" + sc + " nout=" + std::to_string(edgesOf(out).size()),
           {&in, &in2, &pa, &pb}, out, msg, margin);
    return;
  }
  // BatchBoolean of three
  std::string kind3; Polygons in3 = genContours(r, s, kind3);
  Bounds2 b3; b3.add(in3);
  double ex = (b1.x0 + b1.x1) / 2 - (b3.x0 + b3.x1) / 2, ey = (b1.y0 + b1.y1) / 2 - (b3.y0 + b3.y1) / 2;
  for (auto& l : in3) for (auto& v : l) { v.x += ex; v.y += ey; }
  CrossSection Cc(in3);
  int o = (int)r.below(3); OpType op = o == 0 ? OpType::Add : o == 1 ? OpType::Subtract : OpType::Intersect;
  CrossSection R = CrossSection::BatchBoolean({A, B, Cc}, op);
  Polygons out = R.ToPolygons(), pa = A.ToPolygons(), pb = B.ToPolygons(), pc = Cc.ToPolygons();
  LD eps = std::max<LD>({(LD)InferEps(in, in2), (LD)InferEps(in3, {}), (LD)A.GetTolerance(), (LD)B.GetTolerance(), (LD)Cc.GetTolerance(), (LD)R.GetTolerance()});
  LD margin = 10 * eps;
  auto spec = [op, inB](const std::vector<int>& w) { bool a = w[0] > 0, b = inB(w[1]), c = w[2] > 0; return op == OpType::Add ? (a || b || c) : op == OpType::Subtract ? (a && !b && !c) : (a && b && c); };
  std::string msg = sampleOracle(r, {&in, &in2, &in3, &pa, &pb, &pc}, out, margin, 150, spec);
  finish("ctr-" + std::to_string(id) + " batch-" + (o == 0 ? "add" : o == 1 ? "sub" : "int") + " kind=" + kind + "+" + kind2 + "+" + kind3 + " scale=" + sc + " nout=" + std::to_string(edgesOf(out).size()),
         {&in, &in2, &in3, &pa, &pb, &pc}, out, msg, margin);
}

// more than kEdgePairBvhThreshold (1024) edges after the collapse: the BVH broad phase
static void bigCase(Rng& r, int id) {
  int mode = (int)r.below(3);
  double s = mode == 2 ? 100.0 : 1.0;
  Polygons a, b;
  if (mode == 0) {  // two fine discs
    a.push_back(circlePoly(r, 0, 0, 1.0, 700 + (int)r.below(200), false));
    b.push_back(circlePoly(r, 0.3, 0.1, 1.0, 700 + (int)r.below(200), false));
  } else if (mode == 1) {  // a field of small squares against a star
    for (int i = 0; i < 460; i++) { double x = (r.below(2001) / 1000.0 - 1), y = (r.below(2001) / 1000.0 - 1), w = 0.02 + 0.1 * (r.below(1000) / 1000.0); a.push_back(rectPoly(x, y, x + w, y + w * 0.7, r.below(5) == 0)); }
    b.push_back(starPoly(r, 0, 0, 1.1, 11, 4, false));
  } else {  // lattice-aligned combs: thousands of collinear/shared edges
    for (int i = 0; i < 300; i++) a.push_back(rectPoly(2 * i, 0, 2 * i + 1, 40, false));
    for (int j = 0; j < 150; j++) b.push_back(rectPoly(-5, (j % 20) * 2 + 0.5 * (j / 20 % 2), 620, (j % 20) * 2 + 1, false));
  }
  gBvh++;
  int o = (int)r.below(3); OpType op = o == 0 ? OpType::Add : o == 1 ? OpType::Subtract : OpType::Intersect;
  CrossSection A(a), B(b);
  CrossSection C = A.Boolean(B, op);
  Polygons out = C.ToPolygons(), pa = A.ToPolygons(), pb = B.ToPolygons();
  LD eps = std::max<LD>({(LD)InferEps(a, b), (LD)A.GetTolerance(), (LD)B.GetTolerance(), (LD)C.GetTolerance()});
  LD margin = 10 * eps;
  auto spec = [op](const std::vector<int>& w) { bool x = w[0] > 0, y = w[1] > 0; return op == OpType::Add ? (x || y) : op == OpType::Subtract ? (x && !y) : (x && y); };
  std::string msg = sampleOracle(r, {&a, &b, &pa, &pb}, out, margin, 300, spec);
  (void)s;
  size_t nin = edgesOf(pa).size() + edgesOf(pb).size();
  finish("big-" + std::to_string(id) + " bvh-" + (o == 0 ? "add" : o == 1 ? "sub" : "int") + " mode=" + std::to_string(mode) + " nin=" + std::to_string(nin) + " nout=" + std::to_string(edgesOf(out).size()),
         {&a, &b, &pa, &pb}, out, msg, margin);
}

int main(int argc, char** argv) {
  uint64_t seed = hz::envSeed();
  int nUnit = argc > 1 ? atoi(argv[1]) : 200, nLat = argc > 2 ? atoi(argv[2]) : 200, nCtr = argc > 3 ? atoi(argv[3]) : 200, nBig = argc > 4 ? atoi(argv[4]) : 2;
  {
    Rng r(seed);
    if (nUnit > 0) unitInside();
    for (int i = 0; i < nUnit; i++) { unitEmitDirect(r, i); unitEmitColumn(r, i); unitPolySet(r, i, false); unitPolySet(r, i, true); unitWalk(r, i); }
  }
  { Rng r(seed + 1000003); for (int i = 0; i < nLat; i++) latticeCase(r, i); }
  { Rng r(seed + 2000003); for (int i = 0; i < nCtr; i++) contourCase(r, i); }
  { Rng r(seed + 3000003); for (int i = 0; i < nBig; i++) bigCase(r, i); }
  printf("STATS samples=%ld skipped=%ld pairtests=%ld commchecks=%ld bvhcases=%ld\n", gSamples, gSkipped, gPairTests, gCommChecks, gBvh);
  return 0;
}
