// C04 harness: one program, one schedule.  Prints a hash of everything exported by every
// object of the program.  The check runs the SAME program in the serial build, in the
// virtual-TBB build under many schedule seeds/modes, and in the real-TBB build at several
// thread counts, and requires all hashes to be equal.
//   c04_determ <program 0..N-1> <schedule seed> <mode 0|1|2> <threads (real TBB only)>
#include <cstdio>
#include <cstring>
#include "manifold/manifold.h"
#include "manifold/cross_section.h"
#include "manifold/polygon.h"
#include "apiprog.h"
#if defined(MANIFOLD_VTBB)
#include "tbb/vtbb_core.h"
#elif MANIFOLD_PAR == 1
#include <tbb/global_control.h>
#endif
using namespace manifold;

static uint64_t hashPolys(const Polygons& ps) { ap::Hash h; for (auto& p : ps) { size_t n = p.size(); h.add(&n, sizeof n); if (n) h.add(p.data(), n * sizeof(vec2)); } return h.h; }
static void out(int prog, const char* what, uint64_t h, size_t size) { printf("HASH %d %s %016llx size=%zu\n", prog, what, (unsigned long long)h, size); }
static void outM(int prog, const char* what, const Manifold& m) { out(prog, what, ap::observe(m), m.NumTri()); }

int main(int argc, char** argv) {
  int prog = argc > 1 ? atoi(argv[1]) : 0; uint64_t sseed = argc > 2 ? strtoull(argv[2], 0, 10) : 1; int mode = argc > 3 ? atoi(argv[3]) : 0; int threads = argc > 4 ? atoi(argv[4]) : 0;
#if defined(MANIFOLD_VTBB)
  tbb::vt::seed(sseed); tbb::vt::ctl().mode = mode; (void)threads;
#elif MANIFOLD_PAR == 1
  tbb::global_control gc(tbb::global_control::max_allowed_parallelism, threads > 0 ? threads : 1); (void)sseed; (void)mode;
#else
  (void)sseed; (void)mode; (void)threads;
#endif
  const int big = 384;  // Sphere(_, 384): 73 728 triangles, 221 184 halfedges (> 1e5)
  switch (prog) {
    case 0: { Manifold a = Manifold::Sphere(1, big), b = a.Translate({0.5, 0.13, 0.21}); outM(prog, "union", a + b); outM(prog, "diff", a - b); outM(prog, "int", a ^ b); break; }
    case 1: { Manifold a = Manifold::Sphere(1, big).Scale({1, 0.7, 1.3}); outM(prog, "normals", a.CalculateNormals(0, 30)); outM(prog, "curvature", a.CalculateCurvature(0, 1));
              outM(prog, "props", a.SetProperties(3, [](double* o, vec3 p, const double*) { o[0] = p.x; o[1] = p.y * p.z; o[2] = 1; })); break; }
    case 2: { Manifold a = Manifold::Cube({2, 2, 2}, true).Refine(70); outM(prog, "refined", a); outM(prog, "warped", a.Warp([](vec3& v) { v.z += 0.1 * v.x * v.x; }));
              outM(prog, "simplified", a.Simplify(0.001)); outM(prog, "trim", a.TrimByPlane({1, 1, 1}, 0.2)); break; }
    case 3: { std::vector<Manifold> parts; for (int i = 0; i < 60; i++) parts.push_back(Manifold::Sphere(0.6, 48).Translate({0.9 * (i % 5), 0.9 * ((i / 5) % 4), 0.9 * (i / 20)}));
              Manifold u = Manifold::BatchBoolean(parts, OpType::Add); outM(prog, "batch", u); auto comps = u.Decompose(); out(prog, "ncomp", comps.size(), comps.size()); for (size_t i = 0; i < comps.size() && i < 3; i++) outM(prog, "comp", comps[i]); break; }
    case 4: { Manifold s = Manifold::Cube({1, 1, 1}, true).SmoothOut(60, 0.2).Refine(60); outM(prog, "smoothrefine", s); outM(prog, "hull", s.Hull());
              Manifold t = Manifold::Tetrahedron().Refine(40); outM(prog, "mesh-roundtrip", Manifold(t.GetMeshGL64())); break; }
    case 5: { auto sdf = [](vec3 p) { return 1.0 - la::length(p) + 0.2 * std::sin(6 * p.x) * std::sin(5 * p.y); }; Manifold l = Manifold::LevelSet(sdf, Box(vec3(-1.6), vec3(1.6)), 0.045); outM(prog, "levelset", l);
              outM(prog, "levelset-split", l.SplitByPlane({0, 0, 1}, 0.1).first); break; }
    case 6: { CrossSection c = CrossSection::Circle(5, 3000), d = CrossSection::Circle(4, 2500).Translate({2.5, 0.3}); out(prog, "cs-union", hashPolys((c + d).ToPolygons()), (c + d).NumVert()); out(prog, "cs-diff", hashPolys((c - d).ToPolygons()), (c - d).NumVert());
              CrossSection o = (c ^ d).Offset(0.3, CrossSection::JoinType::Round, 2.0, 64); out(prog, "cs-offset", hashPolys(o.ToPolygons()), o.NumVert());
              outM(prog, "extrude", Manifold::Extrude((c - d).ToPolygons(), 3, 20, 90)); break; }
    case 7: { Polygons ps; SimplePolygon outer; const int n = 40000; for (int i = 0; i < n; i++) { double a = 2 * M_PI * i / n, r = 10 + std::sin(37 * a) + 0.3 * std::sin(911 * a); outer.push_back({r * std::cos(a), r * std::sin(a)}); } ps.push_back(outer);
              for (int h = 0; h < 30; h++) { SimplePolygon hole; for (int i = 0; i < 12; i++) { double a = -2 * M_PI * i / 12; hole.push_back({(h % 6 - 2.5) * 2 + 0.4 * std::cos(a), (h / 6 - 2) * 2 + 0.4 * std::sin(a)}); } ps.push_back(hole); }
              auto tris = Triangulate(ps); ap::Hash h; h.vec(tris); out(prog, "triangulate", h.h, tris.size()); break; }
    case 8: { Manifold a = Manifold::Sphere(1, 256), b = Manifold::Cylinder(3, 0.4, 0.4, 256, true).Rotate(30, 40, 0); Manifold r = (a - b) + b.Scale({0.5, 0.5, 1.2}); outM(prog, "csg", r); outM(prog, "mink", Manifold::Cube({1, 1, 1}).MinkowskiSum(Manifold::Sphere(0.2, 16))); break; }
    case 9: {  // import of a mesh with >= 2^18 vertices (the bucketed, AtomicAdd-slotted branch of CreateHalfedges) that contains legal
               // 4-valent edges: pairs of cubes sharing an edge BY INDEX, their triangles spread over the whole triangle list so that the
               // halfedges of one doubled edge are handled by different chunks of the parallel loops
      MeshGL64 g = Manifold::Sphere(1, 1024).GetMeshGL64(); g.runIndex.clear(); g.runOriginalID.clear(); g.runTransform.clear(); g.faceID.clear(); g.mergeFromVert.clear(); g.mergeToVert.clear(); g.halfedgeTangent.clear();
      const size_t nT0 = g.NumTri(); std::vector<std::array<uint64_t, 3>> extra;
      auto V = [&](double x, double y, double z) { g.vertProperties.insert(g.vertProperties.end(), {x, y, z}); return (uint64_t)(g.vertProperties.size() / 3 - 1); };
      for (int k = 0; k < 12; k++) {
        const double ox = 4 + 3.0 * (k % 4), oy = 4 + 3.0 * (k / 4), oz = 0.25 * k;
        uint64_t id[3][3][2];   // lattice corners x,y in 0..2, z in 0..1 ; the two cubes are [0,1]^2 and [1,2]^2 in xy: they share the edge (1,1,0)-(1,1,1)
        for (int x = 0; x < 3; x++) for (int y = 0; y < 3; y++) for (int z = 0; z < 2; z++) id[x][y][z] = ((x < 2 && y < 2) || (x > 0 && y > 0)) ? V(ox + x, oy + y, oz + z) : 0;
        auto cube = [&](int x0, int y0) { auto P = [&](int dx, int dy, int dz) { return id[x0 + dx][y0 + dy][dz]; };
          const int q[6][4][3] = {{{0,0,0},{0,1,0},{1,1,0},{1,0,0}}, {{0,0,1},{1,0,1},{1,1,1},{0,1,1}}, {{0,0,0},{1,0,0},{1,0,1},{0,0,1}}, {{0,1,0},{0,1,1},{1,1,1},{1,1,0}}, {{0,0,0},{0,0,1},{0,1,1},{0,1,0}}, {{1,0,0},{1,1,0},{1,1,1},{1,0,1}}};
          for (auto& f : q) { uint64_t a = P(f[0][0], f[0][1], f[0][2]), b = P(f[1][0], f[1][1], f[1][2]), c = P(f[2][0], f[2][1], f[2][2]), d = P(f[3][0], f[3][1], f[3][2]); extra.push_back({a, b, c}); extra.push_back({a, c, d}); } };
        cube(0, 0); cube(1, 1);
      }
      // spread the extra triangles evenly through the list (deterministic)
      std::vector<uint64_t> tv; tv.reserve(g.triVerts.size() + 3 * extra.size()); const size_t stride = nT0 / (extra.size() + 1); size_t e = 0;
      for (size_t t = 0; t < nT0; t++) { if (e < extra.size() && t == (e + 1) * stride) { for (auto x : extra[e]) tv.push_back(x); e++; } for (int i = 0; i < 3; i++) tv.push_back(g.triVerts[3 * t + i]); }
      for (; e < extra.size(); e++) for (auto x : extra[e]) tv.push_back(x);
      g.triVerts = tv;
      Manifold m(g); out(prog, "bigimport-status", (uint64_t)(int)m.Status(), m.NumVert()); outM(prog, "bigimport", m);
      auto comps = m.Decompose(); out(prog, "bigimport-ncomp", comps.size(), comps.size());
      break; }
    default: {  // seeded API program with larger primitives
      hz::Rng r(1000 + prog); ap::Gen gen(r, prog % 2 == 0); std::vector<Manifold> pool; ap::Limits lim; lim.maxTri = 40000;
      for (int i = 0; i < 25; i++) { gen.nobj = (int)pool.size(); ap::Step s = gen.next(); if (s.op == "sphere") s.arg[1] = 128; if (s.op == "refine") s.arg[0] += 6; size_t b = pool.size(); ap::exec(s, pool, lim); for (size_t k = b; k < pool.size(); k++) outM(prog, s.op.c_str(), pool[k]); }
    }
  }
  return 0;
}
