// C20 harness: paired C-API / C++-API calls, compared field by field, under ASan+UBSan+LSan.
//
// * every C call goes through C(fn) which records the wrapper name (coverage vs the generated table);
// * every opaque object lives either in storage from manifold_alloc_X() (released with manifold_delete_X) or in a
//   caller buffer of EXACTLY manifold_X_size() bytes (exact malloc -> ASan redzones; or a canary-framed buffer),
//   released with manifold_destruct_X + free; each object is destructed/deleted exactly once;
// * results: manifolds are read back through the C accessors (manifold_get_meshgl64 + manifold_meshgl64_*) and compared
//   bitwise with GetMeshGL64() of the C++ result (runOriginalID excluded: ids are a global counter); cross-sections by
//   the polygon coordinates, scalars by bit pattern;
// * callbacks check the identity and the contents of the context pointer;
// * the lifecycle log of all objects is sent to the Lean automaton (engine `cbind life`), which must accept it as clean.
// Output: CASE/REQ/EXP/PROP blocks (common.h) + one line `COVERED name name ...`.
#include <cmath>
#include <cstring>
#include <functional>
#include <memory>
#include <set>
#include <sstream>

#include "common.h"
#include "manifold/cross_section.h"
#include "manifold/manifold.h"
#include "manifold/manifoldc.h"
#include "manifold/polygon.h"

using namespace manifold;

namespace cov {
std::set<std::string> hit;
}
#define C(f) (cov::hit.insert(#f), f)

static hz::Rng rng(hz::envSeed());
static double rd(double lo, double hi) { return lo + (hi - lo) * (double)(rng.next() % 1000003) / 1000003.0; }
static uint64_t bits(double d) { uint64_t u; memcpy(&u, &d, 8); return u; }
static uint32_t bitsf(float d) { uint32_t u; memcpy(&u, &d, 4); return u; }

// ------------------------------------------------------------------------------------------------ verdicts
static int g_cases = 0, g_fail = 0, g_checks = 0;
struct Case {
  std::string tag, fail;
  explicit Case(const std::string& kind, const std::string& what) { tag = "c" + std::to_string(g_cases++) + " " + kind + " " + what; }
  void ok(bool cond, const std::string& msg) {
    ++g_checks;
    if (!cond && fail.size() < 600) fail += (fail.empty() ? "" : "; ") + msg;
  }
  void eqd(const char* what, double c, double p) {
    ok(bits(c) == bits(p), std::string(what) + " C=" + std::to_string(c) + " C++=" + std::to_string(p));
  }
  template <class A, class B> void eqi(const char* what, A c, B p) {
    ok((long long)c == (long long)p, std::string(what) + " C=" + std::to_string((long long)c) + " C++=" + std::to_string((long long)p));
  }
  ~Case() {
    if (!fail.empty()) ++g_fail;
    hz::emit(tag, "", "", fail.empty(), fail);
  }
};

// ------------------------------------------------------------------------------------------------ lifecycle
static std::vector<std::string> g_life;
static int g_nextId = 0;
static int g_canaryBad = 0, g_ptrBad = 0;
static void life(char op, int id) { g_life.push_back(std::string(1, op) + std::to_string(id)); }

template <class CT> struct K;
#define KIND(CT, nm, CPPT)                                                     \
  template <> struct K<CT> {                                                   \
    using Cpp = CPPT;                                                          \
    static CT* alloc() { return C(manifold_alloc_##nm)(); }                    \
    static size_t size() { return C(manifold_##nm##_size)(); }                 \
    static void destruct(CT* p) { C(manifold_destruct_##nm)(p); }              \
    static void del(CT* p) { C(manifold_delete_##nm)(p); }                     \
    static const char* name() { return #nm; }                                  \
  };
KIND(ManifoldManifold, manifold, Manifold)
KIND(ManifoldManifoldVec, manifold_vec, std::vector<Manifold>)
KIND(ManifoldCrossSection, cross_section, CrossSection)
KIND(ManifoldCrossSectionVec, cross_section_vec, std::vector<CrossSection>)
KIND(ManifoldRayHitVec, ray_hit_vec, std::vector<RayHit>)
KIND(ManifoldSimplePolygon, simple_polygon, SimplePolygon)
KIND(ManifoldPolygons, polygons, Polygons)
KIND(ManifoldMeshGL, meshgl, MeshGL)
KIND(ManifoldMeshGL64, meshgl64, MeshGL64)
KIND(ManifoldBox, box, Box)
KIND(ManifoldRect, rect, Rect)
KIND(ManifoldTriangulation, triangulation, std::vector<ivec3>)
KIND(ManifoldExecutionContext, execution_context, ExecutionContext)

static const size_t RZ = 32;
// One opaque object with its storage. mem() hands the raw storage to exactly one constructor wrapper; set() checks that the
// wrapper returned that very pointer; the destructor releases it exactly once by the route matching its origin.
template <class CT> struct Obj {
  CT* p = nullptr;
  unsigned char* base = nullptr;
  void* raw = nullptr;
  size_t n = 0;
  int id, mode;  // 0 = manifold_alloc_X / manifold_delete_X, 1 = exact-size malloc, 2 = canary-framed buffer
  bool constructed = false;
  Obj() {
    id = g_nextId++;
    static int perKind = (int)(hz::envSeed() % 3);   // every kind cycles through the three storage modes
    mode = perKind++ % 3;
    n = K<CT>::size();
    if (mode == 0) {
      raw = K<CT>::alloc();
      life('a', id);
    } else if (mode == 1) {
      base = (unsigned char*)malloc(n);
      raw = base;
      life('b', id);
    } else {
      base = (unsigned char*)malloc(n + 2 * RZ);
      memset(base, 0xA5, n + 2 * RZ);
      raw = base + RZ;
      life('b', id);
    }
  }
  Obj(const Obj&) = delete;
  Obj& operator=(const Obj&) = delete;
  void* mem() {
    life('c', id);
    constructed = true;
    return raw;
  }
  CT* set(CT* r) {
    if ((void*)r != raw) ++g_ptrBad;
    p = r;
    return r;
  }
  operator CT*() const { return p; }
  typename K<CT>::Cpp& cpp() const { return *reinterpret_cast<typename K<CT>::Cpp*>(p); }
  ~Obj() {
    if (mode == 0) {
      if (constructed) {
        K<CT>::del(p);
        life('x', id);
      } else {
        // raw storage from manifold_alloc_X that was never constructed: the API offers no release for it; give it an
        // empty object first (never happens in this harness)
        ++g_ptrBad;
      }
    } else {
      if (constructed) {
        K<CT>::destruct(p);
        life('d', id);
      }
      if (mode == 2)
        for (size_t i = 0; i < RZ; ++i)
          if (base[i] != 0xA5 || base[RZ + n + i] != 0xA5) { ++g_canaryBad; break; }
      free(base);
      life('r', id);
    }
  }
};
// NEW(type, var, wrapper, args...) : declare an object and construct it with a wrapper whose first parameter is `mem`
#define NEW(CT, var, fn, ...) \
  Obj<CT> var;                \
  var.set(C(fn)(var.mem(), ##__VA_ARGS__))

// exact-size output buffer for the copy_data accessors (ASan sees an overrun by one byte)
// copy_data() on an EMPTY vector calls memcpy(mem, nullptr, 0): undefined behaviour by the letter of the C standard
// (UBSan: "null pointer passed as argument 2, which is declared to never be null", conv.h:83).  The main run therefore
// does not call an array accessor whose *_length() is 0; `c20_cbind probe-empty-copy` does, and checks/c20.py reports
// the abort as the finding copy_data-empty-memcpy-null.
static bool g_probeEmpty = false;
template <class T, class F> static std::vector<T> grab(size_t n, F f, Case& t, const char* what) {
  if (n == 0 && !g_probeEmpty) return {};
  T* buf = (T*)malloc(n * sizeof(T) + (n == 0 ? 1 : 0));
  T* r = f((void*)buf);
  t.ok(r == buf, std::string(what) + " does not return mem");
  std::vector<T> v(buf, buf + n);
  free(buf);
  return v;
}

// ------------------------------------------------------------------------------------------------ reading results back
static MeshGL64 readC64(ManifoldMeshGL64* m, Case& t) {
  MeshGL64 o;
  o.numProp = C(manifold_meshgl64_num_prop)(m);
  o.vertProperties = grab<double>(C(manifold_meshgl64_vert_properties_length)(m), [&](void* b) { return C(manifold_meshgl64_vert_properties)(b, m); }, t, "meshgl64_vert_properties");
  o.triVerts = grab<uint64_t>(C(manifold_meshgl64_tri_length)(m), [&](void* b) { return C(manifold_meshgl64_tri_verts)(b, m); }, t, "meshgl64_tri_verts");
  size_t ml = C(manifold_meshgl64_merge_length)(m);
  o.mergeFromVert = grab<uint64_t>(ml, [&](void* b) { return C(manifold_meshgl64_merge_from_vert)(b, m); }, t, "meshgl64_merge_from_vert");
  o.mergeToVert = grab<uint64_t>(ml, [&](void* b) { return C(manifold_meshgl64_merge_to_vert)(b, m); }, t, "meshgl64_merge_to_vert");
  o.runIndex = grab<uint64_t>(C(manifold_meshgl64_run_index_length)(m), [&](void* b) { return C(manifold_meshgl64_run_index)(b, m); }, t, "meshgl64_run_index");
  o.runOriginalID = grab<uint32_t>(C(manifold_meshgl64_run_original_id_length)(m), [&](void* b) { return C(manifold_meshgl64_run_original_id)(b, m); }, t, "meshgl64_run_original_id");
  o.runTransform = grab<double>(C(manifold_meshgl64_run_transform_length)(m), [&](void* b) { return C(manifold_meshgl64_run_transform)(b, m); }, t, "meshgl64_run_transform");
  o.runFlags = grab<uint8_t>(C(manifold_meshgl64_run_flags_length)(m), [&](void* b) { return C(manifold_meshgl64_run_flags)(b, m); }, t, "meshgl64_run_flags");
  o.faceID = grab<uint64_t>(C(manifold_meshgl64_face_id_length)(m), [&](void* b) { return C(manifold_meshgl64_face_id)(b, m); }, t, "meshgl64_face_id");
  o.halfedgeTangent = grab<double>(C(manifold_meshgl64_tangent_length)(m), [&](void* b) { return C(manifold_meshgl64_halfedge_tangent)(b, m); }, t, "meshgl64_halfedge_tangent");
  o.tolerance = C(manifold_meshgl64_tolerance)(m);
  return o;
}
static MeshGL readC32(ManifoldMeshGL* m, Case& t) {
  MeshGL o;
  o.numProp = C(manifold_meshgl_num_prop)(m);
  o.vertProperties = grab<float>(C(manifold_meshgl_vert_properties_length)(m), [&](void* b) { return C(manifold_meshgl_vert_properties)(b, m); }, t, "meshgl_vert_properties");
  o.triVerts = grab<uint32_t>(C(manifold_meshgl_tri_length)(m), [&](void* b) { return C(manifold_meshgl_tri_verts)(b, m); }, t, "meshgl_tri_verts");
  size_t ml = C(manifold_meshgl_merge_length)(m);
  o.mergeFromVert = grab<uint32_t>(ml, [&](void* b) { return C(manifold_meshgl_merge_from_vert)(b, m); }, t, "meshgl_merge_from_vert");
  o.mergeToVert = grab<uint32_t>(ml, [&](void* b) { return C(manifold_meshgl_merge_to_vert)(b, m); }, t, "meshgl_merge_to_vert");
  o.runIndex = grab<uint32_t>(C(manifold_meshgl_run_index_length)(m), [&](void* b) { return C(manifold_meshgl_run_index)(b, m); }, t, "meshgl_run_index");
  o.runOriginalID = grab<uint32_t>(C(manifold_meshgl_run_original_id_length)(m), [&](void* b) { return C(manifold_meshgl_run_original_id)(b, m); }, t, "meshgl_run_original_id");
  o.runTransform = grab<float>(C(manifold_meshgl_run_transform_length)(m), [&](void* b) { return C(manifold_meshgl_run_transform)(b, m); }, t, "meshgl_run_transform");
  o.runFlags = grab<uint8_t>(C(manifold_meshgl_run_flags_length)(m), [&](void* b) { return C(manifold_meshgl_run_flags)(b, m); }, t, "meshgl_run_flags");
  o.faceID = grab<uint32_t>(C(manifold_meshgl_face_id_length)(m), [&](void* b) { return C(manifold_meshgl_face_id)(b, m); }, t, "meshgl_face_id");
  o.halfedgeTangent = grab<float>(C(manifold_meshgl_tangent_length)(m), [&](void* b) { return C(manifold_meshgl_halfedge_tangent)(b, m); }, t, "meshgl_halfedge_tangent");
  o.tolerance = C(manifold_meshgl_tolerance)(m);
  return o;
}

template <class V> static bool sameBits(const V& a, const V& b) {
  if (a.size() != b.size()) return false;
  return a.empty() || memcmp(a.data(), b.data(), a.size() * sizeof(a[0])) == 0;
}
template <class M> static std::string meshDiff(const M& a, const M& b, bool ids) {
  if (a.numProp != b.numProp) return "numProp";
  if (!sameBits(a.vertProperties, b.vertProperties)) return "vertProperties";
  if (!sameBits(a.triVerts, b.triVerts)) return "triVerts";
  if (!sameBits(a.mergeFromVert, b.mergeFromVert)) return "mergeFromVert";
  if (!sameBits(a.mergeToVert, b.mergeToVert)) return "mergeToVert";
  if (!sameBits(a.runIndex, b.runIndex)) return "runIndex";
  if (a.runOriginalID.size() != b.runOriginalID.size()) return "runOriginalID.size";
  if (ids && !sameBits(a.runOriginalID, b.runOriginalID)) return "runOriginalID";
  if (!sameBits(a.runTransform, b.runTransform)) return "runTransform";
  if (!sameBits(a.runFlags, b.runFlags)) return "runFlags";
  if (!sameBits(a.faceID, b.faceID)) return "faceID";
  if (!sameBits(a.halfedgeTangent, b.halfedgeTangent)) return "halfedgeTangent";
  if (memcmp(&a.tolerance, &b.tolerance, sizeof(a.tolerance)) != 0) return "tolerance";
  return "";
}
template <class M> static uint64_t meshHash(const M& m) {
  uint64_t h = 1469598103934665603ull;
  auto mix = [&](const void* p, size_t n) { const unsigned char* c = (const unsigned char*)p; for (size_t i = 0; i < n; ++i) { h ^= c[i]; h *= 1099511628211ull; } };
  uint64_t np = m.numProp; mix(&np, 8);
  if (!m.vertProperties.empty()) mix(m.vertProperties.data(), m.vertProperties.size() * sizeof(m.vertProperties[0]));
  if (!m.triVerts.empty()) mix(m.triVerts.data(), m.triVerts.size() * sizeof(m.triVerts[0]));
  return h;
}

// independent spelling of the error-code correspondence (NOT conv.cpp's switch)
static int expectCode(Manifold::Error e) {
  switch (e) {
    case Manifold::Error::NoError: return MANIFOLD_NO_ERROR;
    case Manifold::Error::NonFiniteVertex: return MANIFOLD_NON_FINITE_VERTEX;
    case Manifold::Error::NotManifold: return MANIFOLD_NOT_MANIFOLD;
    case Manifold::Error::VertexOutOfBounds: return MANIFOLD_VERTEX_INDEX_OUT_OF_BOUNDS;
    case Manifold::Error::PropertiesWrongLength: return MANIFOLD_PROPERTIES_WRONG_LENGTH;
    case Manifold::Error::MissingPositionProperties: return MANIFOLD_MISSING_POSITION_PROPERTIES;
    case Manifold::Error::MergeVectorsDifferentLengths: return MANIFOLD_MERGE_VECTORS_DIFFERENT_LENGTHS;
    case Manifold::Error::MergeIndexOutOfBounds: return MANIFOLD_MERGE_INDEX_OUT_OF_BOUNDS;
    case Manifold::Error::TransformWrongLength: return MANIFOLD_TRANSFORM_WRONG_LENGTH;
    case Manifold::Error::RunIndexWrongLength: return MANIFOLD_RUN_INDEX_WRONG_LENGTH;
    case Manifold::Error::FaceIDWrongLength: return MANIFOLD_FACE_ID_WRONG_LENGTH;
    case Manifold::Error::InvalidConstruction: return MANIFOLD_INVALID_CONSTRUCTION;
    case Manifold::Error::ResultTooLarge: return MANIFOLD_RESULT_TOO_LARGE;
    case Manifold::Error::InvalidTangents: return MANIFOLD_INVALID_TANGENTS;
    case Manifold::Error::Cancelled: return MANIFOLD_CANCELLED;
  }
  return -1;
}

static std::string g_lastHash;
// compare a manifold produced through the C API with the C++ result of the mirrored call
static void cmpM(Case& t, const char* what, ManifoldManifold* c, const Manifold& p) {
  int sc = (int)C(manifold_status)(c);
  t.ok(sc == expectCode(p.Status()), std::string(what) + ": status C=" + std::to_string(sc) + " C++=" + std::to_string(expectCode(p.Status())));
  NEW(ManifoldMeshGL64, mg, manifold_get_meshgl64, c);
  MeshGL64 a = readC64(mg, t), b = p.GetMeshGL64();
  std::string d = meshDiff(a, b, false);
  t.ok(d.empty(), std::string(what) + ": meshes differ in " + d);
  t.eqi((std::string(what) + " num_tri").c_str(), C(manifold_num_tri)(c), p.NumTri());
  g_lastHash = std::to_string(meshHash(a)) + "/" + std::to_string(meshHash(b));
}
static Polygons readPolys(ManifoldPolygons* ps, Case& t, bool viaSimple) {
  Polygons out;
  size_t n = C(manifold_polygons_length)(ps);
  for (size_t i = 0; i < n; ++i) {
    SimplePolygon sp;
    size_t k = C(manifold_polygons_simple_length)(ps, i);
    if (viaSimple) {
      NEW(ManifoldSimplePolygon, s, manifold_polygons_get_simple, ps, i);
      t.eqi("simple_polygon_length", C(manifold_simple_polygon_length)(s), k);
      for (size_t j = 0; j < k; ++j) {
        ManifoldVec2 v = C(manifold_simple_polygon_get_point)(s, j);
        sp.push_back({v.x, v.y});
      }
    } else {
      for (size_t j = 0; j < k; ++j) {
        ManifoldVec2 v = C(manifold_polygons_get_point)(ps, i, j);
        sp.push_back({v.x, v.y});
      }
    }
    out.push_back(sp);
  }
  return out;
}
static bool samePolys(const Polygons& a, const Polygons& b) {
  if (a.size() != b.size()) return false;
  for (size_t i = 0; i < a.size(); ++i) {
    if (a[i].size() != b[i].size()) return false;
    for (size_t j = 0; j < a[i].size(); ++j)
      if (bits(a[i][j].x) != bits(b[i][j].x) || bits(a[i][j].y) != bits(b[i][j].y)) return false;
  }
  return true;
}
static void cmpCS(Case& t, const char* what, ManifoldCrossSection* c, const CrossSection& p) {
  NEW(ManifoldPolygons, ps, manifold_cross_section_to_polygons, c);
  Polygons a = readPolys(ps, t, (rng.next() & 1) != 0), b = p.ToPolygons();
  t.ok(samePolys(a, b), std::string(what) + ": polygons differ (C " + std::to_string(a.size()) + " contours, C++ " + std::to_string(b.size()) + ")");
  t.eqd((std::string(what) + " area").c_str(), C(manifold_cross_section_area)(c), p.Area());
}
static bool v3eq(ManifoldVec3 a, vec3 b) { return bits(a.x) == bits(b.x) && bits(a.y) == bits(b.y) && bits(a.z) == bits(b.z); }
static bool v2eq(ManifoldVec2 a, vec2 b) { return bits(a.x) == bits(b.x) && bits(a.y) == bits(b.y); }

// ------------------------------------------------------------------------------------------------ callbacks
struct Ctx {
  uint64_t magic;
  double a, b, c;
  long calls;
  long bad;
};
static Ctx* g_expectCtx = nullptr;
static inline void seeCtx(void* ctx) {
  Ctx* k = (Ctx*)ctx;
  if (k != g_expectCtx || k == nullptr || k->magic != 0xC0FFEE1234567890ull) {
    if (g_expectCtx) g_expectCtx->bad++;
    return;
  }
  k->calls++;
}
static ManifoldVec3 warp3(double x, double y, double z, void* ctx) {
  seeCtx(ctx);
  Ctx* k = g_expectCtx;
  return {x + k->a * y, y * k->b, z + k->c};
}
static ManifoldVec2 warp2(double x, double y, void* ctx) {
  seeCtx(ctx);
  Ctx* k = g_expectCtx;
  return {x + k->a * y, y * k->b + k->c};
}
static double sdfBall(double x, double y, double z, void* ctx) {
  seeCtx(ctx);
  Ctx* k = g_expectCtx;
  return k->a - std::sqrt(x * x / 4 + y * y + z * z * k->b);
}
static void propFn(double* np, ManifoldVec3 pos, const double* op, void* ctx) {
  seeCtx(ctx);
  Ctx* k = g_expectCtx;
  np[0] = pos.x * k->a;
  np[1] = pos.y + k->b;
  np[2] = pos.z - pos.x * k->c;
  (void)op;
}
static std::string g_obj;
static void objSink(char* s, void* ctx) {
  seeCtx(ctx);
  g_obj = s;
}
static Ctx newCtx() { return Ctx{0xC0FFEE1234567890ull, rd(0.1, 0.4), rd(1.1, 1.9), rd(0.2, 0.7), 0, 0}; }

// ------------------------------------------------------------------------------------------------ test groups
static int isz(int lo, int hi) { return rng.range(lo, hi); }

static void testSizes() {
  Case t("sizes", "manifold_*_size == sizeof of the C++ type");
  t.eqi("manifold_size", K<ManifoldManifold>::size(), sizeof(Manifold));
  t.eqi("manifold_vec_size", K<ManifoldManifoldVec>::size(), sizeof(std::vector<Manifold>));
  t.eqi("cross_section_size", K<ManifoldCrossSection>::size(), sizeof(CrossSection));
  t.eqi("cross_section_vec_size", K<ManifoldCrossSectionVec>::size(), sizeof(std::vector<CrossSection>));
  t.eqi("ray_hit_vec_size", K<ManifoldRayHitVec>::size(), sizeof(std::vector<RayHit>));
  t.eqi("simple_polygon_size", K<ManifoldSimplePolygon>::size(), sizeof(SimplePolygon));
  t.eqi("polygons_size", K<ManifoldPolygons>::size(), sizeof(Polygons));
  t.eqi("meshgl_size", K<ManifoldMeshGL>::size(), sizeof(MeshGL));
  t.eqi("meshgl64_size", K<ManifoldMeshGL64>::size(), sizeof(MeshGL64));
  t.eqi("box_size", K<ManifoldBox>::size(), sizeof(Box));
  t.eqi("rect_size", K<ManifoldRect>::size(), sizeof(Rect));
  t.eqi("triangulation_size", K<ManifoldTriangulation>::size(), sizeof(std::vector<ivec3>));
  t.eqi("execution_context_size", K<ManifoldExecutionContext>::size(), sizeof(ExecutionContext));
  t.eqi("manifold_pair_size", C(manifold_manifold_pair_size)(), sizeof(ManifoldManifoldPair));
}

// a polygon set with an outer contour and a hole, asymmetric in x/y
static Polygons somePolys() {
  double w = rd(2, 3), h = rd(1, 1.8);
  Polygons ps;
  ps.push_back({{0, 0}, {w, 0}, {w, h}, {w * 0.4, h * 1.3}, {0, h}});
  if (rng.next() & 1) ps.push_back({{w * 0.2, h * 0.2}, {w * 0.2, h * 0.5}, {w * 0.5, h * 0.5}, {w * 0.5, h * 0.2}});
  return ps;
}
// build the same polygons through the C API (exercises simple_polygon / polygons marshalling)
struct CPolys {
  std::vector<std::unique_ptr<Obj<ManifoldSimplePolygon>>> sps;
  Obj<ManifoldPolygons> ps;
  CPolys(const Polygons& src) {
    std::vector<ManifoldSimplePolygon*> ptrs;
    for (auto& sp : src) {
      std::vector<ManifoldVec2> pts;
      for (auto& v : sp) pts.push_back({v.x, v.y});
      // exact-size input array: an over-read is an ASan error
      ManifoldVec2* arr = (ManifoldVec2*)malloc(pts.size() * sizeof(ManifoldVec2));
      memcpy(arr, pts.data(), pts.size() * sizeof(ManifoldVec2));
      sps.emplace_back(new Obj<ManifoldSimplePolygon>());
      sps.back()->set(C(manifold_simple_polygon)(sps.back()->mem(), arr, pts.size()));
      free(arr);
      ptrs.push_back(*sps.back());
    }
    ManifoldSimplePolygon** pa = (ManifoldSimplePolygon**)malloc(ptrs.size() * sizeof(void*) + 1);
    memcpy(pa, ptrs.data(), ptrs.size() * sizeof(void*));
    ps.set(C(manifold_polygons)(ps.mem(), pa, ptrs.size()));
    free(pa);
  }
};

static void testPolygons() {
  Case t("polygons", "simple_polygon/polygons marshalling, triangulate");
  Polygons src = somePolys();
  CPolys cp(src);
  t.ok(samePolys(readPolys(cp.ps, t, false), src), "polygons round trip (get_point)");
  t.ok(samePolys(readPolys(cp.ps, t, true), src), "polygons round trip (get_simple)");
  t.ok(samePolys(cp.ps.cpp(), src), "polygons object content");
  double eps = rd(1e-9, 1e-7);
  NEW(ManifoldTriangulation, tr, manifold_triangulate, cp.ps, eps);
  std::vector<ivec3> ref = Triangulate(src, eps);
  size_t nt = C(manifold_triangulation_num_tri)(tr);
  t.eqi("triangulation_num_tri", nt, ref.size());
  std::vector<int> tv = grab<int>(nt * 3, [&](void* b) { return C(manifold_triangulation_tri_verts)(b, tr); }, t, "triangulation_tri_verts");
  bool same = nt == ref.size();
  for (size_t i = 0; same && i < nt; ++i) same = tv[3 * i] == ref[i].x && tv[3 * i + 1] == ref[i].y && tv[3 * i + 2] == ref[i].z;
  t.ok(same, "triangulation differs");
  NEW(ManifoldTriangulation, tr2, manifold_triangulate, cp.ps, -1.0);
  t.eqi("triangulation_num_tri (default epsilon)", C(manifold_triangulation_num_tri)(tr2), Triangulate(src, -1.0).size());
}

static void testConstructors() {
  {
    double x = rd(0.5, 1), y = rd(1.2, 2), z = rd(2.5, 3.5);
    int center = isz(0, 1);
    Case t("ctor", "cube " + std::to_string(center));
    NEW(ManifoldManifold, m, manifold_cube, x, y, z, center);
    cmpM(t, "cube", m, Manifold::Cube(vec3(x, y, z), center != 0));
  }
  {
    double h = rd(1, 2), rl = rd(0.5, 0.9), rh = rd(1.1, 1.6);
    int seg = isz(5, 17), center = isz(0, 1);
    Case t("ctor", "cylinder");
    NEW(ManifoldManifold, m, manifold_cylinder, h, rl, rh, seg, center);
    cmpM(t, "cylinder", m, Manifold::Cylinder(h, rl, rh, seg, center != 0));
    Case t2("error", "cylinder with non-positive height -> InvalidConstruction");
    NEW(ManifoldManifold, bad, manifold_cylinder, -h, rl, rh, seg, center);
    t2.eqi("status", C(manifold_status)(bad), expectCode(Manifold::Cylinder(-h, rl, rh, seg, center != 0).Status()));
    t2.eqi("is_empty", C(manifold_is_empty)(bad), Manifold::Cylinder(-h, rl, rh, seg, center != 0).IsEmpty());
  }
  {
    double r = rd(0.7, 1.4);
    int seg = 4 * isz(2, 5);
    Case t("ctor", "sphere tetrahedron empty copy");
    NEW(ManifoldManifold, m, manifold_sphere, r, seg);
    cmpM(t, "sphere", m, Manifold::Sphere(r, seg));
    NEW(ManifoldManifold, te, manifold_tetrahedron);
    cmpM(t, "tetrahedron", te, Manifold::Tetrahedron());
    NEW(ManifoldManifold, e, manifold_empty);
    t.eqi("empty is_empty", C(manifold_is_empty)(e), Manifold().IsEmpty());
    t.eqi("empty status", C(manifold_status)(e), expectCode(Manifold().Status()));
    NEW(ManifoldManifold, cp, manifold_copy, m);
    cmpM(t, "copy", cp, Manifold(m.cpp()));
  }
  {
    Case t("ctor", "extrude revolve slice project");
    Polygons src = somePolys();
    CPolys cp(src);
    double h = rd(1, 2), tw = rd(10, 50), sx = rd(0.3, 0.6), sy = rd(0.7, 0.95);
    int sl = isz(1, 4);
    NEW(ManifoldManifold, ex, manifold_extrude, cp.ps, h, sl, tw, sx, sy);
    Manifold pex = Manifold::Extrude(src, h, sl, tw, vec2(sx, sy));
    cmpM(t, "extrude", ex, pex);
    int seg = isz(5, 12);
    double deg = rd(100, 300);
    NEW(ManifoldManifold, rv, manifold_revolve, cp.ps, seg, deg);
    cmpM(t, "revolve", rv, Manifold::Revolve(src, seg, deg));
    double sh = h * rd(0.2, 0.8);
    NEW(ManifoldPolygons, slc, manifold_slice, ex, sh);
    t.ok(samePolys(readPolys(slc, t, false), ex.cpp().Slice(sh)), "slice differs");
    NEW(ManifoldPolygons, prj, manifold_project, ex);
    t.ok(samePolys(readPolys(prj, t, true), ex.cpp().Project()), "project differs");
  }
  {
    Case t("ctor", "hull_pts compose decompose");
    std::vector<ManifoldVec3> pts;
    std::vector<vec3> ppts;
    int n = isz(6, 14);
    for (int i = 0; i < n; ++i) {
      vec3 v(rd(-1, 1), rd(-2, 2), rd(-3, 3));
      pts.push_back({v.x, v.y, v.z});
      ppts.push_back(v);
    }
    ManifoldVec3* arr = (ManifoldVec3*)malloc(n * sizeof(ManifoldVec3));
    memcpy(arr, pts.data(), n * sizeof(ManifoldVec3));
    NEW(ManifoldManifold, hp, manifold_hull_pts, arr, (size_t)n);
    free(arr);
    cmpM(t, "hull_pts", hp, Manifold::Hull(ppts));
    NEW(ManifoldManifold, c1, manifold_cube, 1.0, 2.0, 3.0, 0);
    NEW(ManifoldManifold, c2, manifold_translate, c1, 5.0, 0.5, 0.25);
    NEW(ManifoldManifoldVec, v, manifold_manifold_empty_vec);
    C(manifold_manifold_vec_push_back)(v, c1);
    C(manifold_manifold_vec_push_back)(v, c2);
    NEW(ManifoldManifold, cm, manifold_compose, v);
    Manifold pcm = Manifold::Compose({c1.cpp(), c2.cpp()});
    cmpM(t, "compose", cm, pcm);
    NEW(ManifoldManifoldVec, dv, manifold_decompose, cm);
    std::vector<Manifold> pd = cm.cpp().Decompose();
    t.eqi("decompose length", C(manifold_manifold_vec_length)(dv), pd.size());
    for (size_t i = 0; i < pd.size() && i < C(manifold_manifold_vec_length)(dv); ++i) {
      NEW(ManifoldManifold, di, manifold_manifold_vec_get, dv, i);
      cmpM(t, "decompose[i]", di, pd[i]);
    }
  }
}

static void testLevelSet() {
  Case t("callback", "level_set level_set_seq (sdf context)");
  Ctx k = newCtx();
  k.a = rd(0.9, 1.3);
  g_expectCtx = &k;
  NEW(ManifoldBox, bx, manifold_box, -3.0, -2.0, -1.5, 3.1, 2.2, 1.6);
  double el = rd(0.35, 0.5), lvl = rd(-0.05, 0.05), tol = -1;
  std::function<double(vec3)> f = [&](vec3 v) { return k.a - std::sqrt(v.x * v.x / 4 + v.y * v.y + v.z * v.z * k.b); };
  NEW(ManifoldManifold, ls, manifold_level_set, sdfBall, bx, el, lvl, tol, (void*)&k);
  long calls1 = k.calls;
  cmpM(t, "level_set", ls, Manifold::LevelSet(f, bx.cpp(), el, lvl, tol, true));
  NEW(ManifoldManifold, ls2, manifold_level_set_seq, sdfBall, bx, el, lvl, tol, (void*)&k);
  cmpM(t, "level_set_seq", ls2, Manifold::LevelSet(f, bx.cpp(), el, lvl, tol, false));
  t.ok(calls1 > 0 && k.calls > calls1, "sdf callback never ran");
  t.ok(k.bad == 0, "sdf callback received a different context pointer " + std::to_string(k.bad) + " times");
  t.ok(C(manifold_num_tri)(ls) > 0, "level set is empty (test is vacuous)");
  g_expectCtx = nullptr;
}

static void testBooleans() {
  NEW(ManifoldManifold, a, manifold_cube, rd(1, 1.5), rd(1.6, 2), rd(2.1, 2.6), 0);
  NEW(ManifoldManifold, s0, manifold_sphere, rd(0.8, 1.1), 12);
  NEW(ManifoldManifold, b, manifold_translate, s0, rd(0.3, 0.6), rd(0.7, 0.9), rd(1.0, 1.3));
  ManifoldOpType ops[3] = {MANIFOLD_ADD, MANIFOLD_SUBTRACT, MANIFOLD_INTERSECT};
  OpType pops[3] = {OpType::Add, OpType::Subtract, OpType::Intersect};
  for (int i = 0; i < 3; ++i) {
    Case t("boolean", "boolean batch_boolean op " + std::to_string(i));
    NEW(ManifoldManifold, r, manifold_boolean, a, b, ops[i]);
    cmpM(t, "boolean", r, a.cpp().Boolean(b.cpp(), pops[i]));
    NEW(ManifoldManifold, r2, manifold_boolean, b, a, ops[i]);
    cmpM(t, "boolean(b,a)", r2, b.cpp().Boolean(a.cpp(), pops[i]));
    NEW(ManifoldManifoldVec, v, manifold_manifold_vec, (size_t)2);
    C(manifold_manifold_vec_set)(v, 0, a);
    C(manifold_manifold_vec_set)(v, 1, b);
    C(manifold_manifold_vec_reserve)(v, 5);
    t.eqi("vec length", C(manifold_manifold_vec_length)(v), 2);
    NEW(ManifoldManifold, r3, manifold_batch_boolean, v, ops[i]);
    cmpM(t, "batch_boolean", r3, Manifold::BatchBoolean({a.cpp(), b.cpp()}, pops[i]));
  }
  {
    Case t("boolean", "union difference intersection");
    NEW(ManifoldManifold, u, manifold_union, a, b);
    cmpM(t, "union", u, a.cpp() + b.cpp());
    NEW(ManifoldManifold, d, manifold_difference, a, b);
    cmpM(t, "difference", d, a.cpp() - b.cpp());
    NEW(ManifoldManifold, d2, manifold_difference, b, a);
    cmpM(t, "difference(b,a)", d2, b.cpp() - a.cpp());
    NEW(ManifoldManifold, x, manifold_intersection, a, b);
    cmpM(t, "intersection", x, a.cpp() ^ b.cpp());
  }
  {
    Case t("boolean", "split split_by_plane trim_by_plane");
    Obj<ManifoldManifold> f, s;
    ManifoldManifoldPair pr = C(manifold_split)(f.mem(), s.mem(), a, b);
    f.set(pr.first);
    s.set(pr.second);
    auto pp = a.cpp().Split(b.cpp());
    cmpM(t, "split.first", f, pp.first);
    cmpM(t, "split.second", s, pp.second);
    double nx = rd(0.1, 0.3), ny = rd(0.4, 0.6), nz = rd(0.7, 0.9), off = rd(0.2, 0.8);
    Obj<ManifoldManifold> f2, s2;
    ManifoldManifoldPair pr2 = C(manifold_split_by_plane)(f2.mem(), s2.mem(), a, nx, ny, nz, off);
    f2.set(pr2.first);
    s2.set(pr2.second);
    auto pp2 = a.cpp().SplitByPlane(vec3(nx, ny, nz), off);
    cmpM(t, "split_by_plane.first", f2, pp2.first);
    cmpM(t, "split_by_plane.second", s2, pp2.second);
    NEW(ManifoldManifold, tr, manifold_trim_by_plane, a, nx, ny, nz, off);
    cmpM(t, "trim_by_plane", tr, a.cpp().TrimByPlane(vec3(nx, ny, nz), off));
  }
  {
    Case t("hull", "hull batch_hull minkowski_sum minkowski_difference");
    NEW(ManifoldManifold, u, manifold_union, a, b);
    NEW(ManifoldManifold, h, manifold_hull, u);
    cmpM(t, "hull", h, u.cpp().Hull());
    NEW(ManifoldManifoldVec, v, manifold_manifold_empty_vec);
    C(manifold_manifold_vec_push_back)(v, a);
    C(manifold_manifold_vec_push_back)(v, b);
    NEW(ManifoldManifold, bh, manifold_batch_hull, v);
    cmpM(t, "batch_hull", bh, Manifold::Hull(std::vector<Manifold>{a.cpp(), b.cpp()}));
    NEW(ManifoldManifold, sm, manifold_cube, 0.2, 0.3, 0.4, 1);
    NEW(ManifoldManifold, te, manifold_tetrahedron);
    NEW(ManifoldManifold, ms, manifold_minkowski_sum, te, sm);
    cmpM(t, "minkowski_sum", ms, te.cpp().MinkowskiSum(sm.cpp()));
    NEW(ManifoldManifold, md, manifold_minkowski_difference, a, sm);
    cmpM(t, "minkowski_difference", md, a.cpp().MinkowskiDifference(sm.cpp()));
    NEW(ManifoldManifold, md2, manifold_minkowski_sum, sm, te);
    cmpM(t, "minkowski_sum(sm,te)", md2, sm.cpp().MinkowskiSum(te.cpp()));
  }
}

static void testTransforms() {
  NEW(ManifoldManifold, c0, manifold_cylinder, rd(1, 2), rd(0.5, 0.9), rd(1.1, 1.5), 7, 0);
  NEW(ManifoldManifold, c1, manifold_cube, 0.5, 0.7, 0.9, 0);
  NEW(ManifoldManifold, a, manifold_union, c0, c1);
  const Manifold& pa = a.cpp();
  {
    Case t("transform", "translate rotate scale mirror transform");
    double x = rd(0.1, 0.9), y = rd(1.1, 1.9), z = rd(2.1, 2.9);
    NEW(ManifoldManifold, tr, manifold_translate, a, x, y, z);
    cmpM(t, "translate", tr, pa.Translate(vec3(x, y, z)));
    double rx = rd(5, 25), ry = rd(30, 50), rz = rd(60, 85);
    NEW(ManifoldManifold, ro, manifold_rotate, a, rx, ry, rz);
    cmpM(t, "rotate", ro, pa.Rotate(rx, ry, rz));
    NEW(ManifoldManifold, sc, manifold_scale, a, x, y, z);
    cmpM(t, "scale", sc, pa.Scale(vec3(x, y, z)));
    NEW(ManifoldManifold, mi, manifold_mirror, a, x, y, z);
    cmpM(t, "mirror", mi, pa.Mirror(vec3(x, y, z)));
    double m[12];
    for (int i = 0; i < 12; ++i) m[i] = rd(-1, 1) + (i % 4 == i / 3 ? 1.5 : 0);
    NEW(ManifoldManifold, tf, manifold_transform, a, m[0], m[1], m[2], m[3], m[4], m[5], m[6], m[7], m[8], m[9], m[10], m[11]);
    cmpM(t, "transform", tf, pa.Transform(mat3x4({m[0], m[1], m[2]}, {m[3], m[4], m[5]}, {m[6], m[7], m[8]}, {m[9], m[10], m[11]})));
  }
  {
    Case t("callback", "warp set_properties (context)");
    Ctx k = newCtx();
    g_expectCtx = &k;
    NEW(ManifoldManifold, w, manifold_warp, a, warp3, (void*)&k);
    cmpM(t, "warp", w, pa.Warp([&](vec3& v) { v = vec3(v.x + k.a * v.y, v.y * k.b, v.z + k.c); }));
    long c1n = k.calls;
    t.ok(c1n > 0, "warp callback never ran");
    int np = 3;
    NEW(ManifoldManifold, sp, manifold_set_properties, a, np, propFn, (void*)&k);
    cmpM(t, "set_properties", sp, pa.SetProperties(np, [&](double* n, vec3 p, const double*) { n[0] = p.x * k.a; n[1] = p.y + k.b; n[2] = p.z - p.x * k.c; }));
    t.eqi("num_prop", C(manifold_num_prop)(sp), sp.cpp().NumProp());
    t.eqi("num_prop_vert", C(manifold_num_prop_vert)(sp), sp.cpp().NumPropVert());
    t.ok(k.calls > c1n, "set_properties callback never ran");
    t.ok(k.bad == 0, "callback received a different context pointer " + std::to_string(k.bad) + " times");
    g_expectCtx = nullptr;
  }
  {
    Case t("refine", "refine refine_to_length refine_to_tolerance set_tolerance simplify as_original");
    int n = isz(2, 3);
    NEW(ManifoldManifold, r, manifold_refine, c1, n);
    cmpM(t, "refine", r, c1.cpp().Refine(n));
    double len = rd(0.3, 0.5);
    NEW(ManifoldManifold, rl, manifold_refine_to_length, c1, len);
    cmpM(t, "refine_to_length", rl, c1.cpp().RefineToLength(len));
    double tol = rd(0.01, 0.05);
    NEW(ManifoldManifold, sph, manifold_sphere, 1.0, 8);
    NEW(ManifoldManifold, rt, manifold_refine_to_tolerance, sph, tol);
    cmpM(t, "refine_to_tolerance", rt, sph.cpp().RefineToTolerance(tol));
    NEW(ManifoldManifold, st, manifold_set_tolerance, a, tol);
    cmpM(t, "set_tolerance", st, pa.SetTolerance(tol));
    t.eqd("get_tolerance", C(manifold_get_tolerance)(st), st.cpp().GetTolerance());
    NEW(ManifoldManifold, si, manifold_simplify, rl, tol);
    cmpM(t, "simplify", si, rl.cpp().Simplify(tol));
    NEW(ManifoldManifold, ao, manifold_as_original, a);
    t.ok(C(manifold_original_id)(ao) >= 0, "as_original has no id");
    t.eqi("original_id", C(manifold_original_id)(ao), ao.cpp().OriginalID());
    t.eqi("original_id of a union", C(manifold_original_id)(a), pa.OriginalID());
  }
  {
    Case t("smooth", "smooth_by_normals smooth_out calculate_normals calculate_curvature");
    double ang = rd(40, 70);
    int nidx = 0;
    NEW(ManifoldManifold, cn, manifold_calculate_normals, c0, nidx, ang);
    cmpM(t, "calculate_normals", cn, c0.cpp().CalculateNormals(nidx, ang));
    NEW(ManifoldManifold, sbn, manifold_smooth_by_normals, cn, nidx);
    cmpM(t, "smooth_by_normals", sbn, cn.cpp().SmoothByNormals(nidx));
    double msa = rd(30, 60), msm = rd(0.1, 0.4);
    NEW(ManifoldManifold, so, manifold_smooth_out, c0, msa, msm);
    cmpM(t, "smooth_out", so, c0.cpp().SmoothOut(msa, msm));
    NEW(ManifoldManifold, so2, manifold_refine, so, 2);
    cmpM(t, "refine(smooth_out)", so2, so.cpp().Refine(2));
    int gi = 1, mi = 0;
    NEW(ManifoldManifold, cc, manifold_calculate_curvature, c0, gi, mi);
    cmpM(t, "calculate_curvature", cc, c0.cpp().CalculateCurvature(gi, mi));
    NEW(ManifoldMeshGL, g32, manifold_get_meshgl_w_normals, cn, 0);
    Case t2("meshgl", "get_meshgl_w_normals get_meshgl64_w_normals");
    t2.ok(meshDiff(readC32(g32, t2), cn.cpp().GetMeshGL(0), false).empty(), "get_meshgl_w_normals differs");
    NEW(ManifoldMeshGL64, g64, manifold_get_meshgl64_w_normals, cn, 0);
    t2.ok(meshDiff(readC64(g64, t2), cn.cpp().GetMeshGL64(0), false).empty(), "get_meshgl64_w_normals differs");
  }
}

static void testQueries() {
  NEW(ManifoldManifold, c0, manifold_cube, rd(1, 1.5), rd(1.6, 2), rd(2.1, 2.6), 0);
  NEW(ManifoldManifold, s0, manifold_sphere, rd(0.4, 0.6), 8);
  NEW(ManifoldManifold, s1, manifold_translate, s0, 0.6, 0.9, 1.2);
  NEW(ManifoldManifold, a, manifold_difference, c0, s1);
  const Manifold& pa = a.cpp();
  {
    Case t("query", "volume surface_area num_* genus epsilon tolerance bounding_box status is_empty");
    t.eqd("volume", C(manifold_volume)(a), pa.Volume());
    t.eqd("surface_area", C(manifold_surface_area)(a), pa.SurfaceArea());
    t.eqi("num_vert", C(manifold_num_vert)(a), pa.NumVert());
    t.eqi("num_edge", C(manifold_num_edge)(a), pa.NumEdge());
    t.eqi("num_tri", C(manifold_num_tri)(a), pa.NumTri());
    t.eqi("num_prop", C(manifold_num_prop)(a), pa.NumProp());
    t.eqi("num_prop_vert", C(manifold_num_prop_vert)(a), pa.NumPropVert());
    t.eqi("genus", C(manifold_genus)(a), pa.Genus());
    t.eqd("epsilon", C(manifold_epsilon)(a), pa.GetEpsilon());
    t.eqd("get_tolerance", C(manifold_get_tolerance)(a), pa.GetTolerance());
    t.eqi("status", C(manifold_status)(a), expectCode(pa.Status()));
    t.eqi("is_empty", C(manifold_is_empty)(a), pa.IsEmpty());
    t.eqi("original_id", C(manifold_original_id)(c0), c0.cpp().OriginalID());
    NEW(ManifoldBox, bb, manifold_bounding_box, a);
    Box pb = pa.BoundingBox();
    t.ok(v3eq(C(manifold_box_min)(bb), pb.min) && v3eq(C(manifold_box_max)(bb), pb.max), "bounding_box differs");
    uint32_t n = (uint32_t)isz(2, 9);
    uint32_t r1 = C(manifold_reserve_ids)(n);
    uint32_t r2 = Manifold::ReserveIDs(n);
    t.eqi("reserve_ids advances by n", r2 - r1, n);
  }
  {
    Case t("query", "min_gap ray_cast winding_number");
    NEW(ManifoldManifold, far, manifold_translate, s0, 4.0, 0.3, 0.2);
    double sl = rd(5, 9);
    t.eqd("min_gap", C(manifold_min_gap)(a, far, sl), pa.MinGap(far.cpp(), sl));
    t.eqd("min_gap(far,a)", C(manifold_min_gap)(far, a, sl * 0.9), far.cpp().MinGap(pa, sl * 0.9));
    double ox = -1.0, oy = rd(0.2, 0.5), oz = rd(0.3, 0.7), ex = 5.0, ey = rd(0.6, 0.9), ez = rd(1.0, 1.4);
    {
      NEW(ManifoldRayHitVec, hv0, manifold_ray_cast, a, ex, ey, ez, ox, oy, oz);   // reversed ray: different hits
      std::vector<RayHit> ph0 = pa.RayCast(vec3(ex, ey, ez), vec3(ox, oy, oz));
      t.eqi("ray_hit_vec_length (reversed)", C(manifold_ray_hit_vec_length)(hv0), ph0.size());
      if (!ph0.empty() && C(manifold_ray_hit_vec_length)(hv0) > 0)
        t.ok(C(manifold_ray_hit_vec_get)(hv0, 0).face_id == ph0[0].faceID, "reversed ray first hit differs");
    }
    NEW(ManifoldRayHitVec, hv, manifold_ray_cast, a, ox, oy, oz, ex, ey, ez);
    std::vector<RayHit> ph = pa.RayCast(vec3(ox, oy, oz), vec3(ex, ey, ez));
    t.eqi("ray_hit_vec_length", C(manifold_ray_hit_vec_length)(hv), ph.size());
    t.ok(!ph.empty(), "ray misses (test is vacuous)");
    for (size_t i = 0; i < ph.size() && i < C(manifold_ray_hit_vec_length)(hv); ++i) {
      ManifoldRayHit h = C(manifold_ray_hit_vec_get)(hv, i);
      t.ok(h.face_id == ph[i].faceID && bits(h.distance) == bits(ph[i].distance) && v3eq(h.position, ph[i].position) && v3eq(h.normal, ph[i].normal),
           "ray hit " + std::to_string(i) + " differs");
    }
    for (int i = 0; i < 4; ++i) {
      double x = rd(-0.5, 2), y = rd(-0.5, 2.5), z = rd(-0.5, 3);
      t.eqi("winding_number", C(manifold_winding_number)(a, x, y, z), pa.WindingNumber({vec3(x, y, z)})[0]);
    }
  }
}

// tetrahedron mesh data with an extra property channel
struct RawMesh {
  std::vector<float> vp;
  std::vector<uint32_t> tv;
  size_t nProp, nVert, nTri;
};
static RawMesh rawFrom(const Manifold& m) {
  MeshGL g = m.GetMeshGL();
  return {g.vertProperties, g.triVerts, (size_t)g.numProp, (size_t)g.NumVert(), (size_t)g.NumTri()};
}
template <class T> static T* exact(const std::vector<T>& v) {
  T* p = (T*)malloc(v.size() * sizeof(T) + (v.empty() ? 1 : 0));
  if (!v.empty()) memcpy(p, v.data(), v.size() * sizeof(T));
  return p;
}

static void testMeshGL() {
  Manifold src = Manifold::Cube(vec3(rd(1, 2), rd(2, 3), rd(3, 4))).SetProperties(4, [](double* n, vec3 p, const double*) { n[0] = p.x + 2 * p.y; });
  RawMesh rm = rawFrom(src);
  {
    Case t("meshgl", "meshgl meshgl_w_tangents meshgl_w_options of_meshgl accessors copy merge");
    float* vp = exact(rm.vp);
    uint32_t* tv = exact(rm.tv);
    NEW(ManifoldMeshGL, mg, manifold_meshgl, vp, rm.nVert, rm.nProp, tv, rm.nTri);
    MeshGL ref;
    ref.numProp = rm.nProp;
    ref.vertProperties = rm.vp;
    ref.triVerts = rm.tv;
    t.ok(meshDiff(readC32(mg, t), ref, true).empty(), "meshgl: " + meshDiff(readC32(mg, t), ref, true));
    t.eqi("meshgl_num_vert", C(manifold_meshgl_num_vert)(mg), ref.NumVert());
    t.eqi("meshgl_num_tri", C(manifold_meshgl_num_tri)(mg), ref.NumTri());
    NEW(ManifoldManifold, m, manifold_of_meshgl, mg);
    cmpM(t, "of_meshgl", m, Manifold(ref));
    // tangents: take them from a smoothed manifold
    Manifold sm = src.SmoothOut(rd(30, 60), rd(0.1, 0.3));
    MeshGL smg = sm.GetMeshGL();
    float* svp = exact(smg.vertProperties);
    uint32_t* stv = exact(smg.triVerts);
    float* ht = exact(smg.halfedgeTangent);
    NEW(ManifoldMeshGL, mt, manifold_meshgl_w_tangents, svp, (size_t)smg.NumVert(), (size_t)smg.numProp, stv, (size_t)smg.NumTri(), ht);
    MeshGL ref2;
    ref2.numProp = smg.numProp;
    ref2.vertProperties = smg.vertProperties;
    ref2.triVerts = smg.triVerts;
    ref2.halfedgeTangent = smg.halfedgeTangent;
    t.ok(meshDiff(readC32(mt, t), ref2, true).empty(), "meshgl_w_tangents: " + meshDiff(readC32(mt, t), ref2, true));
    // options: every optional array
    MeshGL full = (src + src.Translate(vec3(0.5, 0.25, 0.125))).GetMeshGL();
    float* fvp = exact(full.vertProperties);
    uint32_t* ftv = exact(full.triVerts);
    uint32_t* ri = exact(full.runIndex);
    uint32_t* ro = exact(full.runOriginalID);
    uint32_t* mf = exact(full.mergeFromVert);
    uint32_t* mt2 = exact(full.mergeToVert);
    ManifoldMeshGLOptions opt;
    opt.run_indices = ri;
    opt.run_indices_length = full.runIndex.size();
    opt.run_original_ids = ro;
    opt.run_original_ids_length = full.runOriginalID.size();
    opt.merge_from_vert = full.mergeFromVert.empty() ? nullptr : mf;
    opt.merge_to_vert = full.mergeToVert.empty() ? nullptr : mt2;
    opt.merge_verts_length = full.mergeFromVert.size();
    opt.halfedge_tangents = nullptr;
    NEW(ManifoldMeshGL, mo, manifold_meshgl_w_options, fvp, (size_t)full.NumVert(), (size_t)full.numProp, ftv, (size_t)full.NumTri(), &opt);
    MeshGL ref3;
    ref3.numProp = full.numProp;
    ref3.vertProperties = full.vertProperties;
    ref3.triVerts = full.triVerts;
    ref3.runIndex = full.runIndex;
    ref3.runOriginalID = full.runOriginalID;
    ref3.mergeFromVert = full.mergeFromVert;
    ref3.mergeToVert = full.mergeToVert;
    t.ok(meshDiff(readC32(mo, t), ref3, true).empty(), "meshgl_w_options: " + meshDiff(readC32(mo, t), ref3, true));
    t.ok(full.runIndex.size() >= 3 && full.runOriginalID.size() >= 2, "options test has a single run (weak)");
    t.eqi("meshgl_num_run", C(manifold_meshgl_num_run)(mo), ref3.NumRun());
    NEW(ManifoldMeshGL, gm, manifold_get_meshgl, m);
    MeshGL pg = m.cpp().GetMeshGL();
    t.ok(meshDiff(readC32(gm, t), pg, false).empty(), "get_meshgl differs");
    for (size_t r = 0; r < (size_t)pg.NumRun(); ++r) {
      t.eqi("meshgl_backside", C(manifold_meshgl_backside)(gm, r), pg.Backside(r));
      t.eqi("meshgl_has_normals", C(manifold_meshgl_has_normals)(gm, r), pg.HasNormals(r));
    }
    NEW(ManifoldMeshGL, cp, manifold_meshgl_copy, mo);
    t.ok(meshDiff(readC32(cp, t), ref3, true).empty(), "meshgl_copy differs");
    // merge: duplicate the vertices of a cube per triangle so that Merge() has work to do
    MeshGL un;
    un.numProp = 3;
    MeshGL cg = Manifold::Cube(vec3(1, 2, 3)).GetMeshGL();
    for (size_t i = 0; i < cg.triVerts.size(); ++i) {
      un.triVerts.push_back((uint32_t)i);
      for (int k = 0; k < 3; ++k) un.vertProperties.push_back(cg.vertProperties[cg.triVerts[i] * cg.numProp + k]);
    }
    float* uvp = exact(un.vertProperties);
    uint32_t* utv = exact(un.triVerts);
    NEW(ManifoldMeshGL, um, manifold_meshgl, uvp, (size_t)un.NumVert(), (size_t)3, utv, (size_t)un.NumTri());
    NEW(ManifoldMeshGL, mm, manifold_meshgl_merge, um);
    MeshGL pm = un;
    pm.Merge();
    t.ok(meshDiff(readC32(mm, t), pm, true).empty(), "meshgl_merge differs");
    t.ok(!pm.mergeFromVert.empty(), "merge did nothing (test is vacuous)");
    t.ok(meshDiff(readC32(um, t), un, true).empty(), "meshgl_merge modified its argument");
    for (void* p : {(void*)vp, (void*)tv, (void*)svp, (void*)stv, (void*)ht, (void*)fvp, (void*)ftv, (void*)ri, (void*)ro, (void*)mf, (void*)mt2, (void*)uvp, (void*)utv}) free(p);
  }
  {
    Case t("meshgl64", "meshgl64 meshgl64_w_tangents meshgl64_w_options of_meshgl64 accessors copy merge");
    MeshGL64 g = src.GetMeshGL64();
    double* vp = exact(g.vertProperties);
    uint64_t* tv = exact(g.triVerts);
    NEW(ManifoldMeshGL64, mg, manifold_meshgl64, vp, (size_t)g.NumVert(), (size_t)g.numProp, tv, (size_t)g.NumTri());
    MeshGL64 ref;
    ref.numProp = g.numProp;
    ref.vertProperties = g.vertProperties;
    ref.triVerts = g.triVerts;
    t.ok(meshDiff(readC64(mg, t), ref, true).empty(), "meshgl64: " + meshDiff(readC64(mg, t), ref, true));
    t.eqi("meshgl64_num_vert", C(manifold_meshgl64_num_vert)(mg), ref.NumVert());
    t.eqi("meshgl64_num_tri", C(manifold_meshgl64_num_tri)(mg), ref.NumTri());
    NEW(ManifoldManifold, m, manifold_of_meshgl64, mg);
    cmpM(t, "of_meshgl64", m, Manifold(ref));
    Manifold sm = src.SmoothOut(rd(30, 60), rd(0.1, 0.3));
    MeshGL64 smg = sm.GetMeshGL64();
    double* svp = exact(smg.vertProperties);
    uint64_t* stv = exact(smg.triVerts);
    double* ht = exact(smg.halfedgeTangent);
    NEW(ManifoldMeshGL64, mt, manifold_meshgl64_w_tangents, svp, (size_t)smg.NumVert(), (size_t)smg.numProp, stv, (size_t)smg.NumTri(), ht);
    MeshGL64 ref2;
    ref2.numProp = smg.numProp;
    ref2.vertProperties = smg.vertProperties;
    ref2.triVerts = smg.triVerts;
    ref2.halfedgeTangent = smg.halfedgeTangent;
    t.ok(meshDiff(readC64(mt, t), ref2, true).empty(), "meshgl64_w_tangents: " + meshDiff(readC64(mt, t), ref2, true));
    NEW(ManifoldManifold, mtm, manifold_of_meshgl64, mt);
    cmpM(t, "of_meshgl64(tangents)", mtm, Manifold(ref2));
    MeshGL64 full = (src + src.Translate(vec3(0.5, 0.25, 0.125))).GetMeshGL64();
    double* fvp = exact(full.vertProperties);
    uint64_t* ftv = exact(full.triVerts);
    uint64_t* ri = exact(full.runIndex);
    uint32_t* ro = exact(full.runOriginalID);
    uint64_t* mf = exact(full.mergeFromVert);
    uint64_t* mt2 = exact(full.mergeToVert);
    double* fht = exact(smg.halfedgeTangent);
    ManifoldMeshGL64Options opt;
    opt.run_indices = ri;
    opt.run_indices_length = full.runIndex.size();
    opt.run_original_ids = ro;
    opt.run_original_ids_length = full.runOriginalID.size();
    opt.merge_from_vert = full.mergeFromVert.empty() ? nullptr : mf;
    opt.merge_to_vert = full.mergeToVert.empty() ? nullptr : mt2;
    opt.merge_verts_length = full.mergeFromVert.size();
    opt.halfedge_tangents = nullptr;
    NEW(ManifoldMeshGL64, mo, manifold_meshgl64_w_options, fvp, (size_t)full.NumVert(), (size_t)full.numProp, ftv, (size_t)full.NumTri(), &opt);
    MeshGL64 ref3;
    ref3.numProp = full.numProp;
    ref3.vertProperties = full.vertProperties;
    ref3.triVerts = full.triVerts;
    ref3.runIndex = full.runIndex;
    ref3.runOriginalID = full.runOriginalID;
    ref3.mergeFromVert = full.mergeFromVert;
    ref3.mergeToVert = full.mergeToVert;
    t.ok(meshDiff(readC64(mo, t), ref3, true).empty(), "meshgl64_w_options: " + meshDiff(readC64(mo, t), ref3, true));
    // options with tangents only
    ManifoldMeshGL64Options opt2;
    memset(&opt2, 0, sizeof(opt2));
    opt2.halfedge_tangents = fht;
    NEW(ManifoldMeshGL64, mo2, manifold_meshgl64_w_options, svp, (size_t)smg.NumVert(), (size_t)smg.numProp, stv, (size_t)smg.NumTri(), &opt2);
    t.ok(meshDiff(readC64(mo2, t), ref2, true).empty(), "meshgl64_w_options(tangents): " + meshDiff(readC64(mo2, t), ref2, true));
    t.eqi("meshgl64_num_run", C(manifold_meshgl64_num_run)(mo), ref3.NumRun());
    NEW(ManifoldMeshGL64, gm, manifold_get_meshgl64, m);
    MeshGL64 pg = m.cpp().GetMeshGL64();
    for (size_t r = 0; r < (size_t)pg.NumRun(); ++r) {
      t.eqi("meshgl64_backside", C(manifold_meshgl64_backside)(gm, r), pg.Backside(r));
      t.eqi("meshgl64_has_normals", C(manifold_meshgl64_has_normals)(gm, r), pg.HasNormals(r));
    }
    NEW(ManifoldMeshGL64, cp, manifold_meshgl64_copy, mo);
    t.ok(meshDiff(readC64(cp, t), ref3, true).empty(), "meshgl64_copy differs");
    MeshGL64 un;
    un.numProp = 3;
    MeshGL64 cg = Manifold::Cube(vec3(1, 2, 3)).GetMeshGL64();
    for (size_t i = 0; i < cg.triVerts.size(); ++i) {
      un.triVerts.push_back(i);
      for (int k = 0; k < 3; ++k) un.vertProperties.push_back(cg.vertProperties[cg.triVerts[i] * cg.numProp + k]);
    }
    double* uvp = exact(un.vertProperties);
    uint64_t* utv = exact(un.triVerts);
    NEW(ManifoldMeshGL64, um, manifold_meshgl64, uvp, (size_t)un.NumVert(), (size_t)3, utv, (size_t)un.NumTri());
    NEW(ManifoldMeshGL64, mm, manifold_meshgl64_merge, um);
    MeshGL64 pm = un;
    pm.Merge();
    t.ok(meshDiff(readC64(mm, t), pm, true).empty(), "meshgl64_merge differs");
    for (void* p : {(void*)vp, (void*)tv, (void*)svp, (void*)stv, (void*)ht, (void*)fvp, (void*)ftv, (void*)ri, (void*)ro, (void*)mf, (void*)mt2, (void*)fht, (void*)uvp, (void*)utv}) free(p);
  }
  {
    Case t("smooth", "smooth smooth64 (sharpened edges)");
    MeshGL tg = Manifold::Tetrahedron().GetMeshGL();
    MeshGL64 tg64 = Manifold::Tetrahedron().GetMeshGL64();
    std::vector<size_t> he = {0, 4, 7};
    std::vector<double> sm = {rd(0, 0.3), rd(0.4, 0.6), rd(0.7, 1)};
    std::vector<Smoothness> ps;
    for (size_t i = 0; i < he.size(); ++i) ps.push_back({he[i], sm[i]});
    float* vp = exact(tg.vertProperties);
    uint32_t* tv = exact(tg.triVerts);
    size_t* hep = exact(he);
    double* smp = exact(sm);
    NEW(ManifoldMeshGL, mg, manifold_meshgl, vp, (size_t)tg.NumVert(), (size_t)tg.numProp, tv, (size_t)tg.NumTri());
    NEW(ManifoldManifold, s, manifold_smooth, mg, hep, smp, he.size());
    cmpM(t, "smooth", s, Manifold::Smooth(mg.cpp(), ps));
    NEW(ManifoldManifold, sr, manifold_refine, s, 3);
    cmpM(t, "refine(smooth)", sr, Manifold::Smooth(mg.cpp(), ps).Refine(3));
    double* vp64 = exact(tg64.vertProperties);
    uint64_t* tv64 = exact(tg64.triVerts);
    NEW(ManifoldMeshGL64, mg64, manifold_meshgl64, vp64, (size_t)tg64.NumVert(), (size_t)tg64.numProp, tv64, (size_t)tg64.NumTri());
    NEW(ManifoldManifold, s64, manifold_smooth64, mg64, hep, smp, he.size());
    cmpM(t, "smooth64", s64, Manifold::Smooth(mg64.cpp(), ps));
    // execution-context variants
    NEW(ManifoldExecutionContext, ec, manifold_execution_context);
    ExecutionContext pec;
    NEW(ManifoldManifold, es, manifold_execution_context_smooth, ec, mg, hep, smp, he.size());
    cmpM(t, "execution_context_smooth", es, pec.Smooth(mg.cpp(), ps));
    NEW(ManifoldManifold, es64, manifold_execution_context_smooth64, ec, mg64, hep, smp, he.size());
    cmpM(t, "execution_context_smooth64", es64, pec.Smooth(mg64.cpp(), ps));
    NEW(ManifoldManifold, em, manifold_execution_context_of_meshgl, ec, mg);
    cmpM(t, "execution_context_of_meshgl", em, pec.FromMeshGL(mg.cpp()));
    NEW(ManifoldManifold, em64, manifold_execution_context_of_meshgl64, ec, mg64);
    cmpM(t, "execution_context_of_meshgl64", em64, pec.FromMeshGL(mg64.cpp()));
    t.eqd("execution_context_progress", C(manifold_execution_context_progress)(ec), ec.cpp().Progress());
    for (void* p : {(void*)vp, (void*)tv, (void*)hep, (void*)smp, (void*)vp64, (void*)tv64}) free(p);
  }
}

static void testErrors() {
  // malformed MeshGL inputs: the C status code must be the C enumerator named like the C++ error
  Case t("error", "status codes of malformed meshes");
  MeshGL good = Manifold::Tetrahedron().GetMeshGL();
  auto run = [&](const char* what, MeshGL g, bool withMerge, bool withRun) {
    float* vp = exact(g.vertProperties);
    uint32_t* tv = exact(g.triVerts);
    uint32_t* mf = exact(g.mergeFromVert);
    uint32_t* mt = exact(g.mergeToVert);
    uint32_t* ri = exact(g.runIndex);
    uint32_t* ro = exact(g.runOriginalID);
    ManifoldMeshGLOptions opt;
    memset(&opt, 0, sizeof(opt));
    if (withMerge) {
      opt.merge_from_vert = mf;
      opt.merge_to_vert = mt;
      opt.merge_verts_length = g.mergeFromVert.size();
    }
    if (withRun) {
      opt.run_indices = ri;
      opt.run_indices_length = g.runIndex.size();
      opt.run_original_ids = ro;
      opt.run_original_ids_length = g.runOriginalID.size();
    }
    size_t nv = g.numProp ? g.vertProperties.size() / g.numProp : 0;
    NEW(ManifoldMeshGL, mg, manifold_meshgl_w_options, vp, nv, (size_t)g.numProp, tv, g.triVerts.size() / 3, &opt);
    NEW(ManifoldManifold, m, manifold_of_meshgl, mg);
    Manifold pm(mg.cpp());
    t.eqi(what, C(manifold_status)(m), expectCode(pm.Status()));
    t.ok(pm.Status() != Manifold::Error::NoError, std::string(what) + ": input was accepted (test is vacuous)");
    for (void* p : {(void*)vp, (void*)tv, (void*)mf, (void*)mt, (void*)ri, (void*)ro}) free(p);
  };
  {
    MeshGL g = good;
    g.vertProperties[4] = NAN;
    run("NonFiniteVertex", g, false, false);
  }
  {
    MeshGL g = good;
    g.triVerts.resize(g.triVerts.size() - 3);
    run("NotManifold", g, false, false);
  }
  {
    MeshGL g = good;
    g.triVerts[2] = 77;
    run("VertexOutOfBounds", g, false, false);
  }
  {
    MeshGL g = good;
    g.numProp = 2;
    g.vertProperties.resize(8);
    run("MissingPositionProperties", g, false, false);
  }
  {
    MeshGL g = good;
    g.mergeFromVert = {0, 1};
    g.mergeToVert = {2, 3};
    g.mergeToVert[1] = 99;
    run("MergeIndexOutOfBounds", g, true, false);
  }
  {
    MeshGL g = good;
    g.runIndex = {0, 3, 6, 12};
    g.runOriginalID = {1};
    run("RunIndexWrongLength", g, false, true);
  }
}

static void testCrossSection() {
  Polygons src = somePolys();
  CPolys cp(src);
  NEW(ManifoldCrossSection, a, manifold_cross_section_of_polygons, cp.ps);
  const CrossSection& pa = a.cpp();
  {
    Case t("cross", "empty copy of_simple_polygon of_polygons even_odd square circle");
    cmpCS(t, "of_polygons", a, CrossSection(src));
    NEW(ManifoldCrossSection, sp, manifold_cross_section_of_simple_polygon, *cp.sps[0]);
    cmpCS(t, "of_simple_polygon", sp, CrossSection(src[0]));
    NEW(ManifoldCrossSection, eo, manifold_cross_section_even_odd_polygons, cp.ps);
    cmpCS(t, "even_odd_polygons", eo, CrossSection::EvenOdd(src));
    NEW(ManifoldCrossSection, eos, manifold_cross_section_even_odd_simple_polygon, *cp.sps[0]);
    cmpCS(t, "even_odd_simple_polygon", eos, CrossSection::EvenOdd(src[0]));
    NEW(ManifoldCrossSection, e, manifold_cross_section_empty);
    t.eqi("empty is_empty", C(manifold_cross_section_is_empty)(e), CrossSection().IsEmpty());
    t.eqi("is_empty", C(manifold_cross_section_is_empty)(a), pa.IsEmpty());
    NEW(ManifoldCrossSection, c, manifold_cross_section_copy, a);
    cmpCS(t, "copy", c, CrossSection(pa));
    double x = rd(1, 2), y = rd(2.5, 3.5);
    int cen = isz(0, 1);
    NEW(ManifoldCrossSection, sq, manifold_cross_section_square, x, y, cen);
    cmpCS(t, "square", sq, CrossSection::Square(vec2(x, y), cen != 0));
    double r = rd(0.5, 1.5);
    int seg = isz(5, 19);
    NEW(ManifoldCrossSection, ci, manifold_cross_section_circle, r, seg);
    cmpCS(t, "circle", ci, CrossSection::Circle(r, seg));
    t.eqi("num_vert", C(manifold_cross_section_num_vert)(ci), CrossSection::Circle(r, seg).NumVert());
    t.eqi("num_contour", C(manifold_cross_section_num_contour)(a), pa.NumContour());
    NEW(ManifoldRect, bd, manifold_cross_section_bounds, a);
    Rect pr = pa.Bounds();
    t.ok(v2eq(C(manifold_rect_min)(bd), pr.min) && v2eq(C(manifold_rect_max)(bd), pr.max), "bounds differs");
    double tol = rd(0.001, 0.01);
    NEW(ManifoldCrossSection, st, manifold_cross_section_set_tolerance, a, tol);
    t.eqd("get_tolerance", C(manifold_cross_section_get_tolerance)(st), pa.SetTolerance(tol).GetTolerance());
    t.eqd("get_tolerance(a)", C(manifold_cross_section_get_tolerance)(a), pa.GetTolerance());
    cmpCS(t, "set_tolerance", st, pa.SetTolerance(tol));
  }
  NEW(ManifoldCrossSection, b0, manifold_cross_section_circle, rd(0.6, 0.9), 9);
  NEW(ManifoldCrossSection, b, manifold_cross_section_translate, b0, rd(0.8, 1.3), rd(0.2, 0.6));
  const CrossSection& pb = b.cpp();
  {
    Case t("cross", "boolean batch_boolean union difference intersection hull decompose vec");
    ManifoldOpType ops[3] = {MANIFOLD_ADD, MANIFOLD_SUBTRACT, MANIFOLD_INTERSECT};
    OpType pops[3] = {OpType::Add, OpType::Subtract, OpType::Intersect};
    NEW(ManifoldCrossSectionVec, v, manifold_cross_section_vec, (size_t)2);
    C(manifold_cross_section_vec_set)(v, 0, a);
    C(manifold_cross_section_vec_set)(v, 1, b);
    C(manifold_cross_section_vec_reserve)(v, 6);
    t.eqi("vec_length", C(manifold_cross_section_vec_length)(v), 2);
    for (int i = 0; i < 3; ++i) {
      NEW(ManifoldCrossSection, r, manifold_cross_section_boolean, a, b, ops[i]);
      cmpCS(t, "boolean", r, pa.Boolean(pb, pops[i]));
      NEW(ManifoldCrossSection, r2, manifold_cross_section_boolean, b, a, ops[i]);
      cmpCS(t, "boolean(b,a)", r2, pb.Boolean(pa, pops[i]));
      NEW(ManifoldCrossSection, r3, manifold_cross_section_batch_boolean, v, ops[i]);
      cmpCS(t, "batch_boolean", r3, CrossSection::BatchBoolean({pa, pb}, pops[i]));
    }
    NEW(ManifoldCrossSection, u, manifold_cross_section_union, a, b);
    cmpCS(t, "union", u, pa + pb);
    NEW(ManifoldCrossSection, d, manifold_cross_section_difference, a, b);
    cmpCS(t, "difference", d, pa - pb);
    NEW(ManifoldCrossSection, d2, manifold_cross_section_difference, b, a);
    cmpCS(t, "difference(b,a)", d2, pb - pa);
    NEW(ManifoldCrossSection, x, manifold_cross_section_intersection, a, b);
    cmpCS(t, "intersection", x, pa ^ pb);
    NEW(ManifoldCrossSection, h, manifold_cross_section_hull, u);
    cmpCS(t, "hull", h, u.cpp().Hull());
    NEW(ManifoldCrossSectionVec, ev, manifold_cross_section_empty_vec);
    C(manifold_cross_section_vec_push_back)(ev, a);
    C(manifold_cross_section_vec_push_back)(ev, b);
    NEW(ManifoldCrossSection, bh, manifold_cross_section_batch_hull, ev);
    cmpCS(t, "batch_hull", bh, CrossSection::Hull(std::vector<CrossSection>{pa, pb}));
    NEW(ManifoldCrossSection, hs, manifold_cross_section_hull_simple_polygon, *cp.sps[0]);
    cmpCS(t, "hull_simple_polygon", hs, CrossSection::Hull(src[0]));
    NEW(ManifoldCrossSection, hp, manifold_cross_section_hull_polygons, cp.ps);
    cmpCS(t, "hull_polygons", hp, CrossSection::Hull(src));
    NEW(ManifoldCrossSection, far, manifold_cross_section_translate, b0, 10.0, 3.0);
    NEW(ManifoldCrossSection, two, manifold_cross_section_union, a, far);
    NEW(ManifoldCrossSectionVec, dv, manifold_cross_section_decompose, two);
    std::vector<CrossSection> pd = two.cpp().Decompose();
    t.eqi("decompose length", C(manifold_cross_section_vec_length)(dv), pd.size());
    for (size_t i = 0; i < pd.size() && i < C(manifold_cross_section_vec_length)(dv); ++i) {
      NEW(ManifoldCrossSection, di, manifold_cross_section_vec_get, dv, i);
      cmpCS(t, "decompose[i]", di, pd[i]);
    }
  }
  {
    Case t("cross", "translate rotate scale mirror transform warp simplify");
    double x = rd(0.3, 0.9), y = rd(1.2, 1.9);
    NEW(ManifoldCrossSection, tr, manifold_cross_section_translate, a, x, y);
    cmpCS(t, "translate", tr, pa.Translate(vec2(x, y)));
    double deg = rd(10, 80);
    NEW(ManifoldCrossSection, ro, manifold_cross_section_rotate, a, deg);
    cmpCS(t, "rotate", ro, pa.Rotate(deg));
    NEW(ManifoldCrossSection, sc, manifold_cross_section_scale, a, x, y);
    cmpCS(t, "scale", sc, pa.Scale(vec2(x, y)));
    NEW(ManifoldCrossSection, mi, manifold_cross_section_mirror, a, x, y);
    cmpCS(t, "mirror", mi, pa.Mirror(vec2(x, y)));
    double m[6] = {rd(1, 1.5), rd(0.1, 0.3), rd(-0.4, -0.2), rd(0.7, 0.9), rd(2, 3), rd(-3, -2)};
    NEW(ManifoldCrossSection, tf, manifold_cross_section_transform, a, m[0], m[1], m[2], m[3], m[4], m[5]);
    cmpCS(t, "transform", tf, pa.Transform(mat2x3({m[0], m[1]}, {m[2], m[3]}, {m[4], m[5]})));
    Ctx k = newCtx();
    g_expectCtx = &k;
    NEW(ManifoldCrossSection, w, manifold_cross_section_warp_context, a, warp2, (void*)&k);
    cmpCS(t, "warp_context", w, pa.Warp([&](vec2& v) { v = vec2(v.x + k.a * v.y, v.y * k.b + k.c); }));
    t.ok(k.calls > 0, "warp callback never ran");
    t.ok(k.bad == 0, "warp callback received a different context pointer");
    g_expectCtx = nullptr;
    double tol = rd(0.01, 0.1);
    NEW(ManifoldCrossSection, si, manifold_cross_section_simplify, a, tol);
    cmpCS(t, "simplify", si, pa.Simplify(tol));
  }
  {
    ManifoldJoinType jts[4] = {MANIFOLD_JOIN_TYPE_SQUARE, MANIFOLD_JOIN_TYPE_ROUND, MANIFOLD_JOIN_TYPE_MITER, MANIFOLD_JOIN_TYPE_BEVEL};
    JoinType pj[4] = {JoinType::Square, JoinType::Round, JoinType::Miter, JoinType::Bevel};
    for (int i = 0; i < 4; ++i) {
      Case t("offset", "offset join type " + std::to_string(i));
      double delta = (rng.next() & 1) ? rd(0.1, 0.3) : -rd(0.05, 0.15), ml = rd(1.5, 3);
      int seg = isz(4, 12);
      NEW(ManifoldCrossSection, o, manifold_cross_section_offset, a, delta, jts[i], ml, seg);
      cmpCS(t, "offset", o, pa.Offset(delta, pj[i], ml, seg));
      // the four join types must give four different results on a concave input, otherwise the comparison is weak
    }
    Case t("offset", "join types are distinguishable");
    std::set<uint64_t> areas;
    for (int i = 0; i < 4; ++i) areas.insert(bits(pa.Offset(0.2, pj[i], 2.0, 6).Area()));
    t.ok(areas.size() == 4, "offset results coincide for different join types (weak test)");
  }
}

static void testBoxRect() {
  {
    Case t("box", "box helpers");
    double v[6] = {rd(-2, -1), rd(-4, -3), rd(-6, -5), rd(1, 2), rd(3, 4), rd(5, 6)};
    NEW(ManifoldBox, b, manifold_box, v[0], v[1], v[2], v[3], v[4], v[5]);
    Box pb(vec3(v[0], v[1], v[2]), vec3(v[3], v[4], v[5]));
    t.ok(v3eq(C(manifold_box_min)(b), pb.min), "box_min");
    t.ok(v3eq(C(manifold_box_max)(b), pb.max), "box_max");
    t.ok(v3eq(C(manifold_box_dimensions)(b), pb.Size()), "box_dimensions");
    t.ok(v3eq(C(manifold_box_center)(b), pb.Center()), "box_center");
    t.eqd("box_scale", C(manifold_box_scale)(b), pb.Scale());
    t.eqi("box_is_finite", C(manifold_box_is_finite)(b), pb.IsFinite());
    for (int i = 0; i < 6; ++i) {
      double x = rd(-3, 3), y = rd(-5, 5), z = rd(-7, 7);
      t.eqi("box_contains_pt", C(manifold_box_contains_pt)(b, x, y, z), pb.Contains(vec3(x, y, z)));
      t.eqi("box_does_overlap_pt", C(manifold_box_does_overlap_pt)(b, x, y, z), pb.DoesOverlap(vec3(x, y, z)));
    }
    NEW(ManifoldBox, s, manifold_box, v[0] * 0.5, v[1] * 0.5, v[2] * 0.5, v[3] * 0.5, v[4] * 0.5, v[5] * 0.5);
    t.eqi("box_contains_box", C(manifold_box_contains_box)(b, s), pb.Contains(s.cpp()));
    t.eqi("box_contains_box(s,b)", C(manifold_box_contains_box)(s, b), s.cpp().Contains(pb));
    t.ok(pb.Contains(s.cpp()) != s.cpp().Contains(pb), "containment test is symmetric (weak)");
    NEW(ManifoldBox, off, manifold_box_translate, s, 10.0, 0.5, 0.25);
    Box poff = s.cpp() + vec3(10.0, 0.5, 0.25);
    t.ok(v3eq(C(manifold_box_min)(off), poff.min) && v3eq(C(manifold_box_max)(off), poff.max), "box_translate");
    t.eqi("box_does_overlap_box", C(manifold_box_does_overlap_box)(b, off), pb.DoesOverlap(off.cpp()));
    t.eqi("box_does_overlap_box(b,s)", C(manifold_box_does_overlap_box)(b, s), pb.DoesOverlap(s.cpp()));
    NEW(ManifoldBox, un, manifold_box_union, b, off);
    Box pu = pb.Union(off.cpp());
    t.ok(v3eq(C(manifold_box_min)(un), pu.min) && v3eq(C(manifold_box_max)(un), pu.max), "box_union");
    double x = rd(0.5, 0.9), y = rd(1.5, 1.9), z = rd(2.5, 2.9);
    NEW(ManifoldBox, mu, manifold_box_mul, b, x, y, z);
    Box pm = pb * vec3(x, y, z);
    t.ok(v3eq(C(manifold_box_min)(mu), pm.min) && v3eq(C(manifold_box_max)(mu), pm.max), "box_mul");
    double m[12];
    for (int i = 0; i < 12; ++i) m[i] = rd(-1, 1) + (i % 4 == i / 3 ? 1.5 : 0);
    NEW(ManifoldBox, tf, manifold_box_transform, b, m[0], m[1], m[2], m[3], m[4], m[5], m[6], m[7], m[8], m[9], m[10], m[11]);
    Box pt = pb.Transform(mat3x4({m[0], m[1], m[2]}, {m[3], m[4], m[5]}, {m[6], m[7], m[8]}, {m[9], m[10], m[11]}));
    t.ok(v3eq(C(manifold_box_min)(tf), pt.min) && v3eq(C(manifold_box_max)(tf), pt.max), "box_transform");
    NEW(ManifoldBox, inc, manifold_box, v[0], v[1], v[2], v[3], v[4], v[5]);
    Box pinc = pb;
    C(manifold_box_include_pt)(inc, 9.0, -8.0, 7.5);
    pinc.Union(vec3(9.0, -8.0, 7.5));
    t.ok(v3eq(C(manifold_box_min)(inc), pinc.min) && v3eq(C(manifold_box_max)(inc), pinc.max), "box_include_pt");
  }
  {
    Case t("rect", "rect helpers");
    double v[4] = {rd(-2, -1), rd(-4, -3), rd(1, 2), rd(3, 4)};
    NEW(ManifoldRect, r, manifold_rect, v[0], v[1], v[2], v[3]);
    Rect pr(vec2(v[0], v[1]), vec2(v[2], v[3]));
    t.ok(v2eq(C(manifold_rect_min)(r), pr.min), "rect_min");
    t.ok(v2eq(C(manifold_rect_max)(r), pr.max), "rect_max");
    t.ok(v2eq(C(manifold_rect_dimensions)(r), pr.Size()), "rect_dimensions");
    t.ok(v2eq(C(manifold_rect_center)(r), pr.Center()), "rect_center");
    t.eqd("rect_scale", C(manifold_rect_scale)(r), pr.Scale());
    t.eqi("rect_is_finite", C(manifold_rect_is_finite)(r), pr.IsFinite());
    t.eqi("rect_is_empty", C(manifold_rect_is_empty)(r), pr.IsEmpty());
    for (int i = 0; i < 6; ++i) {
      double x = rd(-3, 3), y = rd(-5, 5);
      t.eqi("rect_contains_pt", C(manifold_rect_contains_pt)(r, x, y), pr.Contains(vec2(x, y)));
    }
    NEW(ManifoldRect, s, manifold_rect, v[0] * 0.5, v[1] * 0.5, v[2] * 0.5, v[3] * 0.5);
    t.eqi("rect_contains_rect", C(manifold_rect_contains_rect)(r, s), pr.Contains(s.cpp()));
    t.eqi("rect_contains_rect(s,r)", C(manifold_rect_contains_rect)(s, r), s.cpp().Contains(pr));
    NEW(ManifoldRect, off, manifold_rect_translate, s, 10.0, 0.5);
    Rect poff = s.cpp() + vec2(10.0, 0.5);
    t.ok(v2eq(C(manifold_rect_min)(off), poff.min) && v2eq(C(manifold_rect_max)(off), poff.max), "rect_translate");
    t.eqi("rect_does_overlap_rect", C(manifold_rect_does_overlap_rect)(r, off), pr.DoesOverlap(off.cpp()));
    t.eqi("rect_does_overlap_rect(r,s)", C(manifold_rect_does_overlap_rect)(r, s), pr.DoesOverlap(s.cpp()));
    NEW(ManifoldRect, un, manifold_rect_union, r, off);
    Rect pu = pr.Union(off.cpp());
    t.ok(v2eq(C(manifold_rect_min)(un), pu.min) && v2eq(C(manifold_rect_max)(un), pu.max), "rect_union");
    double x = rd(0.5, 0.9), y = rd(1.5, 1.9);
    NEW(ManifoldRect, mu, manifold_rect_mul, r, x, y);
    Rect pm = pr * vec2(x, y);
    t.ok(v2eq(C(manifold_rect_min)(mu), pm.min) && v2eq(C(manifold_rect_max)(mu), pm.max), "rect_mul");
    double m[6] = {rd(1, 1.5), rd(0.1, 0.3), rd(-0.4, -0.2), rd(0.7, 0.9), rd(2, 3), rd(-3, -2)};
    NEW(ManifoldRect, tf, manifold_rect_transform, r, m[0], m[1], m[2], m[3], m[4], m[5]);
    Rect pt = pr.Transform(mat2x3({m[0], m[1]}, {m[2], m[3]}, {m[4], m[5]}));
    t.ok(v2eq(C(manifold_rect_min)(tf), pt.min) && v2eq(C(manifold_rect_max)(tf), pt.max), "rect_transform");
    NEW(ManifoldRect, inc, manifold_rect, v[0], v[1], v[2], v[3]);
    Rect pinc = pr;
    C(manifold_rect_include_pt)(inc, 9.0, -8.0);
    pinc.Union(vec2(9.0, -8.0));
    t.ok(v2eq(C(manifold_rect_min)(inc), pinc.min) && v2eq(C(manifold_rect_max)(inc), pinc.max), "rect_include_pt");
  }
}

static void testContexts() {
  Case t("context", "execution_context cancel cancelled progress with_context level_set");
  NEW(ManifoldExecutionContext, ec, manifold_execution_context);
  t.eqi("cancelled (fresh)", C(manifold_execution_context_cancelled)(ec), ExecutionContext().Cancelled());
  t.eqd("progress (fresh)", C(manifold_execution_context_progress)(ec), ExecutionContext().Progress());
  NEW(ManifoldManifold, c, manifold_cube, 1.0, 2.0, 3.0, 0);
  NEW(ManifoldManifold, s, manifold_sphere, 1.2, 12);
  NEW(ManifoldManifold, d, manifold_difference, c, s);
  NEW(ManifoldManifold, wc, manifold_with_context, d, ec);
  ExecutionContext pec;
  cmpM(t, "with_context", wc, d.cpp().WithContext(pec));
  t.eqd("progress (after evaluation)", C(manifold_execution_context_progress)(ec), ec.cpp().Progress());
  Ctx k = newCtx();
  k.a = 1.0;
  g_expectCtx = &k;
  NEW(ManifoldBox, bx, manifold_box, -2.5, -1.5, -1.5, 2.5, 1.6, 1.7);
  double el = rd(0.4, 0.5);
  std::function<double(vec3)> f = [&](vec3 v) { return k.a - std::sqrt(v.x * v.x / 4 + v.y * v.y + v.z * v.z * k.b); };
  NEW(ManifoldManifold, ls, manifold_execution_context_level_set, ec, sdfBall, bx, el, 0.01, -1.0, (void*)&k);
  cmpM(t, "execution_context_level_set", ls, pec.LevelSet(f, bx.cpp(), el, 0.01, -1.0, true));
  NEW(ManifoldManifold, ls2, manifold_execution_context_level_set_seq, ec, sdfBall, bx, el, 0.01, -1.0, (void*)&k);
  cmpM(t, "execution_context_level_set_seq", ls2, pec.LevelSet(f, bx.cpp(), el, 0.01, -1.0, false));
  t.ok(k.calls > 0 && k.bad == 0, "sdf context: calls=" + std::to_string(k.calls) + " bad=" + std::to_string(k.bad));
  t.ok(C(manifold_num_tri)(ls) > 0, "level set empty (vacuous)");
  // cancellation: the code for Cancelled must come through
  NEW(ManifoldExecutionContext, ec2, manifold_execution_context);
  C(manifold_execution_context_cancel)(ec2);
  t.eqi("cancelled", C(manifold_execution_context_cancelled)(ec2), 1);
  NEW(ManifoldManifold, cl, manifold_execution_context_level_set, ec2, sdfBall, bx, el, 0.01, -1.0, (void*)&k);
  ExecutionContext pec2;
  pec2.Cancel();
  Manifold pcl = pec2.LevelSet(f, bx.cpp(), el, 0.01, -1.0, true);
  t.eqi("status after cancel", C(manifold_status)(cl), expectCode(pcl.Status()));
  t.ok(pcl.Status() == Manifold::Error::Cancelled, "cancel did not take effect (vacuous)");
  // ... through the sequential twin as well (the context must really be forwarded, not defaulted)
  NEW(ManifoldManifold, cls, manifold_execution_context_level_set_seq, ec2, sdfBall, bx, el, 0.01, -1.0, (void*)&k);
  Manifold pcls = pec2.LevelSet(f, bx.cpp(), el, 0.01, -1.0, false);
  t.eqi("status after cancel (seq)", C(manifold_status)(cls), expectCode(pcls.Status()));
  t.eqi("num_tri after cancel (seq)", (long)C(manifold_num_tri)(cls), (long)pcls.NumTri());
  g_expectCtx = nullptr;
}

static void testQualityAndObj() {
  {
    Case t("quality", "circular segment globals");
    double ang = rd(5, 20), len = rd(0.2, 0.8), r = rd(1, 5);
    C(manifold_set_min_circular_angle)(ang);
    C(manifold_set_min_circular_edge_length)(len);
    int c1 = C(manifold_get_circular_segments)(r);
    Quality::ResetToDefaults();
    Quality::SetMinCircularAngle(ang);
    Quality::SetMinCircularEdgeLength(len);
    t.eqi("get_circular_segments", c1, Quality::GetCircularSegments(r));
    // asymmetric: swapping the two setters' roles must show
    Quality::ResetToDefaults();
    Quality::SetMinCircularAngle(len);
    Quality::SetMinCircularEdgeLength(ang);
    t.ok(Quality::GetCircularSegments(r) != c1, "angle/length swap is not observable (weak)");
    int n = isz(7, 31);
    C(manifold_set_circular_segments)(n);
    t.eqi("set_circular_segments", C(manifold_get_circular_segments)(r), n);
    C(manifold_reset_to_circular_defaults)();
    int d1 = C(manifold_get_circular_segments)(r);
    Quality::ResetToDefaults();
    t.eqi("reset_to_circular_defaults", d1, Quality::GetCircularSegments(r));
  }
#ifndef MANIFOLD_NO_IOSTREAM
  {
    Case t("obj", "write_obj read_obj meshgl64_write_obj meshgl64_read_obj (callback context)");
    Ctx k = newCtx();
    g_expectCtx = &k;
    NEW(ManifoldManifold, c, manifold_cube, 1.25, 2.5, 3.75, 0);
    g_obj.clear();
    C(manifold_write_obj)(c, objSink, (void*)&k);
    std::stringstream ss;
    c.cpp().WriteOBJ(ss);
    t.ok(g_obj == ss.str() && !g_obj.empty(), "write_obj text differs");
    std::vector<char> txt(g_obj.begin(), g_obj.end());
    txt.push_back(0);
    NEW(ManifoldManifold, rb, manifold_read_obj, txt.data());
    std::istringstream is(g_obj);
    cmpM(t, "read_obj", rb, Manifold::ReadOBJ(is));
    NEW(ManifoldMeshGL64, mg, manifold_get_meshgl64, c);
    g_obj.clear();
    C(manifold_meshgl64_write_obj)(mg, objSink, (void*)&k);
    std::stringstream s2;
    WriteOBJ(s2, mg.cpp());
    t.ok(g_obj == s2.str() && !g_obj.empty(), "meshgl64_write_obj text differs");
    std::vector<char> txt2(g_obj.begin(), g_obj.end());
    txt2.push_back(0);
    NEW(ManifoldMeshGL64, rm, manifold_meshgl64_read_obj, txt2.data());
    std::istringstream is2(g_obj);
    t.ok(meshDiff(readC64(rm, t), ReadOBJ(is2), true).empty(), "meshgl64_read_obj differs");
    t.ok(k.calls == 2 && k.bad == 0, "obj callback context: calls=" + std::to_string(k.calls) + " bad=" + std::to_string(k.bad));
    g_expectCtx = nullptr;
  }
#endif
}

int main(int argc, char** argv) {
  if (argc > 1 && std::string(argv[1]) == "probe-empty-copy") {
    g_probeEmpty = true;
    Case t("probe", "array accessor on an empty array");
    NEW(ManifoldManifold, c, manifold_cube, 1.0, 2.0, 3.0, 0);
    NEW(ManifoldMeshGL64, mg, manifold_get_meshgl64, c);
    size_t n = manifold_meshgl64_tangent_length(mg);
    t.ok(n == 0, "tangent array not empty");
    grab<double>(n, [&](void* b) { return manifold_meshgl64_halfedge_tangent(b, mg); }, t, "meshgl64_halfedge_tangent");
    printf("PROBE survived\n");
    return 0;
  }
  int rounds = hz::thorough() ? 12 : 2;
  testSizes();
  for (int r = 0; r < rounds; ++r) {
    testPolygons();
    testConstructors();
    testLevelSet();
    testBooleans();
    testTransforms();
    testQueries();
    testMeshGL();
    testErrors();
    testCrossSection();
    testBoxRect();
    testContexts();
    testQualityAndObj();
  }
  {
    Case t("storage", "returned pointers and canaries");
    t.ok(g_ptrBad == 0, std::to_string(g_ptrBad) + " constructor wrappers did not return the storage they were given");
    t.ok(g_canaryBad == 0, std::to_string(g_canaryBad) + " objects wrote outside their manifold_X_size() bytes");
  }
  // lifecycle log -> Lean automaton + concrete machine (engine cbind): must be accepted and end clean
  {
    std::string req = "cbind life " + std::to_string(g_nextId);
    for (auto& s : g_life) req += " " + s;
    hz::emit("c" + std::to_string(g_cases++) + " lifecycle " + std::to_string(g_nextId) + " objects " + std::to_string(g_life.size()) + " ops", req, "accept clean", true);
  }
  printf("COVERED");
  for (auto& n : cov::hit) printf(" %s", n.c_str());
  printf("\n");
  printf("STATS cases=%d failed=%d checks=%d objects=%d lifeops=%zu wrappers=%zu lasthash=%s\n", g_cases, g_fail, g_checks, g_nextId, g_life.size(), cov::hit.size(), g_lastHash.c_str());
  return 0;
}
