// C02 correspondence + property harness (library variant "ser").
//
// boolean3.cpp is #included so that the anonymous-namespace kernels (Shadow01, Kernel02, Kernel11,
// Kernel12) can be called directly.  All external symbols of boolean3.o (Boolean3::Boolean3,
// Impl::PointWinding, Impl::RayCast) are therefore defined HERE and the archive member is never
// pulled in: the Booleans of parts (b) and (c) run the same kernels that part (a) ties to Lean.
//
//   c02_bool kern N          (a) kernel tie: Shadows/Interpolate/Intersect on scalar vectors and
//                                Shadow01/Kernel02/Kernel11/Kernel12 on candidate pairs of N operand
//                                pairs; REQ carries the inputs as IEEE-754 bit patterns, EXP the
//                                outputs; the Lean driver runs MV.Bool3 at `Float`
//   c02_bool lattice N       (b) N random lattice CSG programs (depth <= 6) vs voxel semantics
//   c02_bool pairs K         (b) all pairs of boxes with integer corners in [0,3]^3 x 3 ops
//                                (K = 0: exhaustive; K > 0: seeded sample of K pairs)
//   c02_bool general N       (c) N random pairs of eps-valid solids in general position
//   c02_bool replay EXPR     evaluate one lattice expression (used for known findings / replays)
//   c02_bool minimize EXPR   shrink a failing lattice expression
#include "boolean3.cpp"
//
#include <bitset>
#include <cstring>
#include <functional>
#include <memory>
#include <sstream>

#include "common.h"
#include "csg_tree.h"
#include "manifold/manifold.h"
using hz::Rng;
typedef long double LD;

// ------------------------------------------------------------------------------------------------ utilities
static std::string hx(double d) {
  if (std::isnan(d)) return "nan";
  uint64_t u; memcpy(&u, &d, 8); char b[24]; snprintf(b, sizeof b, "%016llx", (unsigned long long)u); return b;
}
static std::shared_ptr<const Manifold::Impl> implOf(const Manifold& m) {
  m.VerifForce();
  return std::static_pointer_cast<CsgLeafNode>(m.VerifRoot())->GetImpl();
}
static double rnd01(Rng& r) { return (double)(r.next() >> 11) / 9007199254740992.0; }
static double rndIn(Rng& r, double lo, double hi) { return lo + (hi - lo) * rnd01(r); }

// ------------------------------------------------------------------------------------------------ (a) kernel tie
static void meshStr(const Manifold::Impl& m, std::string& s) {
  const size_t nv = m.NumVert(), nt = m.NumTri();
  s += " M " + std::to_string(nv) + " " + std::to_string(nt);
  for (size_t i = 0; i < nv; i++) for (int k = 0; k < 3; k++) s += " " + hx(m.vertPos_[i][k]);
  for (size_t i = 0; i < nv; i++) for (int k = 0; k < 3; k++) s += " " + hx(m.vertNormal_[i][k]);
  for (size_t i = 0; i < nt; i++) for (int k = 0; k < 3; k++) s += " " + hx(m.faceNormal_[i][k]);
  for (size_t i = 0; i < 3 * nt; i++) s += " " + std::to_string(m.halfedge_.Start(i));
  for (size_t i = 0; i < 3 * nt; i++) s += " " + std::to_string(m.halfedge_.Pair(i));
}
template <bool e, bool f> static void q_a(const Manifold::Impl& A, const Manifold::Impl& B, int v, int h, std::string& o) {
  auto r = Shadow01<e, f>(v, h, B.halfedge_.Start(h), B.halfedge_.End(h), A, B);
  o += " " + std::to_string(r.first) + " " + hx(r.second[0]) + " " + hx(r.second[1]);
}
template <bool e, bool f> static void q_b(const Manifold::Impl& A, const Manifold::Impl& B, int v, int t, std::string& o) {
  Kernel02<e, f> k{A, B}; auto r = k(v, t); o += " " + std::to_string(r.first) + " " + hx(r.second);
}
template <bool e> static void q_c(const Manifold::Impl& P, const Manifold::Impl& Q, int p1, int q1, std::string& o) {
  Kernel11<e> k{P, Q}; auto r = k(p1, P.halfedge_.Start(p1), P.halfedge_.End(p1), q1, Q.halfedge_.Start(q1), Q.halfedge_.End(q1));
  o += " " + std::to_string(r.first); for (int i = 0; i < 4; i++) o += " " + hx(r.second[i]);
}
template <bool e, bool f> static void q_d(const Manifold::Impl& P, const Manifold::Impl& Q, int a1, int t, std::string& o, int* nz) {
  const Manifold::Impl& A = f ? P : Q; const Manifold::Impl& B = f ? Q : P;
  Kernel02<e, f> k02{A, B}; Kernel11<e> k11{P, Q}; Kernel12<e, f> k{A, B, k02, k11}; auto r = k(a1, t);
  if (r.first != 0) ++*nz;
  o += " " + std::to_string(r.first); for (int i = 0; i < 3; i++) o += " " + hx(r.second[i]);
}
struct KStats { long queries = 0, nonzero12 = 0, cases = 0; } kst;

static bool boxOverlap(const Box& a, const Box& b) { return a.DoesOverlap(b); }
static Box edgeBox(const Manifold::Impl& m, int h) { return Box(m.vertPos_[m.halfedge_.Start(h)], m.vertPos_[m.halfedge_.End(h)]); }
static Box triBox(const Manifold::Impl& m, int t) { Box b; for (int i = 0; i < 3; i++) b.Union(m.vertPos_[m.halfedge_.Start(3 * t + i)]); return b; }

static void kernelCase(const std::string& tag, const Manifold::Impl& P, const Manifold::Impl& Q, bool e, Rng& r, size_t cap) {
  if (P.IsEmpty() || Q.IsEmpty()) return;
  if (P.vertNormal_.size() != P.NumVert() || Q.vertNormal_.size() != Q.NumVert() || P.faceNormal_.size() != P.NumTri() || Q.faceNormal_.size() != Q.NumTri()) return;
  std::string req = std::string("bool3 kern ") + (e ? "1" : "0"); meshStr(P, req); meshStr(Q, req); req += " Q";
  std::string out; int nz = 0; size_t nq = 0;
  std::vector<int> fwdP, fwdQ;
  for (size_t h = 0; h < P.halfedge_.size(); h++) if (P.halfedge_.IsForward(h)) fwdP.push_back(h);
  for (size_t h = 0; h < Q.halfedge_.size(); h++) if (Q.halfedge_.IsForward(h)) fwdQ.push_back(h);
  const size_t total = 2 * fwdP.size() * Q.NumTri() + 2 * fwdQ.size() * P.NumTri();   // rough size of the k12 candidate space
  const bool all = total <= cap;
  auto want = [&](bool overlap) { if (all) return true; return overlap ? r.below(100) < 60 : r.below(100) < 2; };
  auto add = [&](const char* kind, int f, int i, int j) { req += std::string(" ") + kind + " " + std::to_string(f) + " " + std::to_string(i) + " " + std::to_string(j); nq++; };
  // d: Kernel12 forward (edges of P x faces of Q) and reverse (edges of Q x faces of P)
  for (int f = 1; f >= 0 && nq < cap; f--) {
    const Manifold::Impl& A = f ? P : Q; const Manifold::Impl& B = f ? Q : P; const auto& fw = f ? fwdP : fwdQ;
    for (int a1 : fw) for (size_t t = 0; t < B.NumTri() && nq < cap; t++) {
      if (!want(boxOverlap(edgeBox(A, a1), triBox(B, t)))) continue;
      add("d", f, a1, t);
      if (e) { if (f) q_d<true, true>(P, Q, a1, t, out, &nz); else q_d<true, false>(P, Q, a1, t, out, &nz); }
      else { if (f) q_d<false, true>(P, Q, a1, t, out, &nz); else q_d<false, false>(P, Q, a1, t, out, &nz); }
    }
  }
  const size_t cap2 = cap + cap / 2;
  // b: Kernel02 (vertex of A, face of B)
  for (int f = 1; f >= 0; f--) {
    const Manifold::Impl& A = f ? P : Q; const Manifold::Impl& B = f ? Q : P;
    for (size_t v = 0; v < A.NumVert(); v++) for (size_t t = 0; t < B.NumTri() && nq < cap2; t++) {
      Box tb = triBox(B, t); vec3 p = A.vertPos_[v]; bool ov = p.x >= tb.min.x && p.x <= tb.max.x && p.y >= tb.min.y && p.y <= tb.max.y;
      if (!(all || (ov ? r.below(100) < 40 : r.below(100) < 1))) continue;
      add("b", f, v, t);
      if (e) { if (f) q_b<true, true>(A, B, v, t, out); else q_b<true, false>(A, B, v, t, out); }
      else { if (f) q_b<false, true>(A, B, v, t, out); else q_b<false, false>(A, B, v, t, out); }
    }
  }
  const size_t cap3 = cap2 + cap / 2;
  // c: Kernel11 (edge of P, edge of Q)
  for (int p1 : fwdP) for (int q1 : fwdQ) {
    if (nq >= cap3) break;
    if (!(all || (boxOverlap(edgeBox(P, p1), edgeBox(Q, q1)) ? r.below(100) < 40 : r.below(100) < 1))) continue;
    add("c", 1, p1, q1);
    if (e) q_c<true>(P, Q, p1, q1, out); else q_c<false>(P, Q, p1, q1, out);
  }
  const size_t cap4 = cap3 + cap / 2;
  // a: Shadow01 (vertex of A, edge of B)
  for (int f = 1; f >= 0; f--) {
    const Manifold::Impl& A = f ? P : Q; const Manifold::Impl& B = f ? Q : P; const auto& fw = f ? fwdQ : fwdP;
    for (size_t v = 0; v < A.NumVert(); v++) for (int h : fw) {
      if (nq >= cap4) break;
      if (!(all || r.below(100) < 8)) continue;
      add("a", f, v, h);
      if (e) { if (f) q_a<true, true>(A, B, v, h, out); else q_a<true, false>(A, B, v, h, out); }
      else { if (f) q_a<false, true>(A, B, v, h, out); else q_a<false, false>(A, B, v, h, out); }
    }
  }
  kst.queries += nq; kst.nonzero12 += nz; kst.cases++;
  hz::emit(tag + " q=" + std::to_string(nq) + " x12nz=" + std::to_string(nz), req, out.empty() ? "" : out.substr(1), true);
}

static double oddDouble(Rng& r) {
  static const double sp[] = {0.0, -0.0, 1.0, -1.0, 0.5, 2.0, 3.0, 1e-300, -1e-300, 1e300, -1e300, 1e-17, 0.1, 0.2, 0.30000000000000004, 4.9e-324, 1.7976931348623157e308};
  int k = (int)r.below(10);
  if (k < 3) return sp[r.below(sizeof sp / sizeof sp[0])];
  if (k < 6) return (double)r.range(-3, 3);
  if (k < 8) return rndIn(r, -2, 2);
  return std::ldexp(rndIn(r, -1, 1), r.range(-60, 60));
}
static void scalarCases(Rng& r, int n) {
  // self test: the arithmetic the whole tie rests on (no FMA contraction, same rounding on both sides)
  {
    volatile double a = 0.1, b = 0.2, c = 0.3; volatile double t = a * b; double u = t + c; double w = a * b + c;
    if (hx(u) != hx(w) || hx(w) != "3fd47ae147ae147b") { printf("CASE selftest0 selftest\nREQ \nEXP \nPROP FAIL harness arithmetic is contracted or not IEEE double: a*b+c = %s\n", hx(w).c_str()); }
  }
  for (int i = 0; i < n; i++) {
    double a = oddDouble(r), b = oddDouble(r), c = oddDouble(r);
    std::string req = "bool3 selftest " + hx(a) + " " + hx(b) + " " + hx(c);
    std::string exp = hx(a * b + c) + " " + hx(a / b) + " " + hx(std::fabs(a - c)) + " " + hx(-a) + " " + (a < b ? "1" : "0") + " " + (a == b ? "1" : "0") + " " + (std::isfinite(a / b) ? "1" : "0");
    hz::emit("st" + std::to_string(i) + " selftest", req, exp, true);
  }
  for (int i = 0; i < n; i++) {
    double p = oddDouble(r), q = r.below(3) ? oddDouble(r) : p, d = oddDouble(r);
    hz::emit("sh" + std::to_string(i) + " shadows", "bool3 shadows " + hx(p) + " " + hx(q) + " " + hx(d), Shadows(p, q, d) ? "1" : "0", true);
  }
  for (int i = 0; i < n; i++) {
    vec3 aL, aR; double x;
    for (int k = 0; k < 3; k++) { aL[k] = oddDouble(r); aR[k] = r.below(5) ? oddDouble(r) : aL[k]; }
    x = r.below(3) == 0 ? aL.x : r.below(2) ? aR.x : aL.x + (aR.x - aL.x) * rnd01(r);
    vec2 y = Interpolate(aL, aR, x);
    std::string req = "bool3 interp"; for (int k = 0; k < 3; k++) req += " " + hx(aL[k]); for (int k = 0; k < 3; k++) req += " " + hx(aR[k]); req += " " + hx(x);
    hz::emit("ip" + std::to_string(i) + " interpolate", req, hx(y[0]) + " " + hx(y[1]), true);
  }
  for (int i = 0; i < n; i++) {
    vec3 v[4];
    for (int j = 0; j < 4; j++) for (int k = 0; k < 3; k++) v[j][k] = (j > 0 && r.below(6) == 0) ? v[j - 1][k] : oddDouble(r);
    vec4 y = Intersect(v[0], v[1], v[2], v[3]);
    std::string req = "bool3 isect"; for (int j = 0; j < 4; j++) for (int k = 0; k < 3; k++) req += " " + hx(v[j][k]);
    hz::emit("is" + std::to_string(i) + " intersect", req, hx(y[0]) + " " + hx(y[1]) + " " + hx(y[2]) + " " + hx(y[3]), true);
  }
}

// ------------------------------------------------------------------------------------------------ oracles on exported meshes
struct TriMesh { std::vector<std::array<LD, 3>> v; std::vector<std::array<int, 3>> t; };
static TriMesh exportMesh(const Manifold& m) {
  MeshGL64 g = m.GetMeshGL64(); TriMesh o; const size_t np = g.numProp;
  for (size_t i = 0; i < g.vertProperties.size() / np; i++) o.v.push_back({(LD)g.vertProperties[i * np], (LD)g.vertProperties[i * np + 1], (LD)g.vertProperties[i * np + 2]});
  for (size_t i = 0; i < g.triVerts.size() / 3; i++) o.t.push_back({(int)g.triVerts[3 * i], (int)g.triVerts[3 * i + 1], (int)g.triVerts[3 * i + 2]});
  return o;
}
// generalised winding number: sum of signed solid angles / 4 pi (van Oosterom-Strackee), long double
static LD solidWinding(const TriMesh& m, const LD p[3]) {
  LD tot = 0;
  for (auto& t : m.t) {
    LD a[3], b[3], c[3];
    for (int k = 0; k < 3; k++) { a[k] = m.v[t[0]][k] - p[k]; b[k] = m.v[t[1]][k] - p[k]; c[k] = m.v[t[2]][k] - p[k]; }
    LD la = sqrtl(a[0] * a[0] + a[1] * a[1] + a[2] * a[2]), lb = sqrtl(b[0] * b[0] + b[1] * b[1] + b[2] * b[2]), lc = sqrtl(c[0] * c[0] + c[1] * c[1] + c[2] * c[2]);
    LD num = a[0] * (b[1] * c[2] - b[2] * c[1]) - a[1] * (b[0] * c[2] - b[2] * c[0]) + a[2] * (b[0] * c[1] - b[1] * c[0]);
    LD ab = a[0] * b[0] + a[1] * b[1] + a[2] * b[2], ac = a[0] * c[0] + a[1] * c[1] + a[2] * c[2], bc = b[0] * c[0] + b[1] * c[1] + b[2] * c[2];
    LD den = la * lb * lc + ab * lc + ac * lb + bc * la;
    tot += 2 * atan2l(num, den);
  }
  return tot / (4 * acosl(-1.0L));
}
// ray parity (signed crossing count) along a fixed generic direction, long double
static int rayWinding(const TriMesh& m, const LD p[3]) {
  static const LD d[3] = {0.57731926535897931L, 0.31193846264338327L, 0.75349502884197169L};
  int w = 0;
  for (auto& t : m.t) {
    const auto &A = m.v[t[0]], &B = m.v[t[1]], &C = m.v[t[2]];
    LD e1[3], e2[3], s[3];
    for (int k = 0; k < 3; k++) { e1[k] = B[k] - A[k]; e2[k] = C[k] - A[k]; s[k] = p[k] - A[k]; }
    LD h[3] = {d[1] * e2[2] - d[2] * e2[1], d[2] * e2[0] - d[0] * e2[2], d[0] * e2[1] - d[1] * e2[0]};
    LD det = e1[0] * h[0] + e1[1] * h[1] + e1[2] * h[2];
    if (det == 0) continue;
    LD u = (s[0] * h[0] + s[1] * h[1] + s[2] * h[2]) / det; if (u < 0 || u > 1) continue;
    LD q[3] = {s[1] * e1[2] - s[2] * e1[1], s[2] * e1[0] - s[0] * e1[2], s[0] * e1[1] - s[1] * e1[0]};
    LD v = (d[0] * q[0] + d[1] * q[1] + d[2] * q[2]) / det; if (v < 0 || u + v > 1) continue;
    LD tt = (e2[0] * q[0] + e2[1] * q[1] + e2[2] * q[2]) / det; if (tt <= 0) continue;
    w += det > 0 ? -1 : 1;   // det > 0: the ray leaves through a front face
  }
  return w;
}
static LD dot3(const LD* a, const LD* b) { return a[0] * b[0] + a[1] * b[1] + a[2] * b[2]; }
// squared distance point - triangle (Ericson), long double
static LD distTri2(const LD p[3], const std::array<LD, 3>& A, const std::array<LD, 3>& B, const std::array<LD, 3>& C) {
  LD ab[3], ac[3], ap[3]; for (int k = 0; k < 3; k++) { ab[k] = B[k] - A[k]; ac[k] = C[k] - A[k]; ap[k] = p[k] - A[k]; }
  auto sq = [&](LD s, LD t) { LD d = 0; for (int k = 0; k < 3; k++) { LD x = A[k] + s * ab[k] + t * ac[k] - p[k]; d += x * x; } return d; };
  LD d1 = dot3(ab, ap), d2 = dot3(ac, ap); if (d1 <= 0 && d2 <= 0) return sq(0, 0);
  LD bp[3]; for (int k = 0; k < 3; k++) bp[k] = p[k] - B[k]; LD d3 = dot3(ab, bp), d4 = dot3(ac, bp); if (d3 >= 0 && d4 <= d3) return sq(1, 0);
  LD vc = d1 * d4 - d3 * d2; if (vc <= 0 && d1 >= 0 && d3 <= 0) return sq(d1 / (d1 - d3), 0);
  LD cp[3]; for (int k = 0; k < 3; k++) cp[k] = p[k] - C[k]; LD d5 = dot3(ab, cp), d6 = dot3(ac, cp); if (d6 >= 0 && d5 <= d6) return sq(0, 1);
  LD vb = d5 * d2 - d1 * d6; if (vb <= 0 && d2 >= 0 && d6 <= 0) return sq(0, d2 / (d2 - d6));
  LD va = d3 * d6 - d5 * d4; if (va <= 0 && (d4 - d3) >= 0 && (d5 - d6) >= 0) { LD w = (d4 - d3) / ((d4 - d3) + (d5 - d6)); return sq(1 - w, w); }
  LD den = 1 / (va + vb + vc); return sq(vb * den, vc * den);
}
static LD distMesh(const TriMesh& m, const LD p[3]) {
  LD best = 1e300L; for (auto& t : m.t) { LD d = distTri2(p, m.v[t[0]], m.v[t[1]], m.v[t[2]]); if (d < best) best = d; } return sqrtl(best);
}

// ------------------------------------------------------------------------------------------------ (b) lattice CSG
typedef std::bitset<512> Vox;   // voxel [x,x+1]x[y,y+1]x[z,z+1], x,y,z in [-2,6)
static int vidx(int x, int y, int z) { return (x + 2) + 8 * (y + 2) + 64 * (z + 2); }
struct Ex; typedef std::shared_ptr<Ex> ExP;
struct Ex { std::string k; int p[6] = {0, 0, 0, 0, 0, 0}; std::vector<ExP> c; };
static ExP mk(const std::string& k, std::vector<ExP> c = {}) { auto e = std::make_shared<Ex>(); e->k = k; e->c = std::move(c); return e; }
static ExP mkBox(int x0, int y0, int z0, int x1, int y1, int z1) { auto e = mk("b"); int p[6] = {x0, y0, z0, x1, y1, z1}; memcpy(e->p, p, sizeof p); return e; }
static std::string str(const ExP& e) {
  std::string s = e->k + "(";
  if (e->k == "b") { for (int i = 0; i < 6; i++) s += (i ? "," : "") + std::to_string(e->p[i]); return s + ")"; }
  if (e->k == "tr") s += std::to_string(e->p[0]) + "," + std::to_string(e->p[1]) + "," + std::to_string(e->p[2]) + ",";
  if (e->k == "fl") s += std::to_string(e->p[0]) + ",";
  for (size_t i = 0; i < e->c.size(); i++) s += (i ? "," : "") + str(e->c[i]);
  return s + ")";
}
static int size(const ExP& e) { int n = 1; for (auto& c : e->c) n += size(c); return n; }
static ExP parse(const std::string& s, size_t& i) {
  size_t j = s.find('(', i); if (j == std::string::npos) throw std::runtime_error("parse: ( expected");
  auto e = mk(s.substr(i, j - i)); i = j + 1;
  auto num = [&]() { size_t k = i; while (i < s.size() && (s[i] == '-' || isdigit((unsigned char)s[i]))) i++; if (k == i) throw std::runtime_error("parse: number expected"); int v = atoi(s.substr(k, i - k).c_str()); if (i < s.size() && s[i] == ',') i++; return v; };
  static const char* known[] = {"b", "add", "sub", "int", "tr", "fl", "s1", "s2", "badd", "bsub", "bint"};
  bool ok = false; for (auto k : known) ok = ok || e->k == k; if (!ok) throw std::runtime_error("parse: unknown operator " + e->k);
  if (e->k == "b") { for (int k = 0; k < 6; k++) e->p[k] = num(); }
  else { if (e->k == "tr") for (int k = 0; k < 3; k++) e->p[k] = num(); if (e->k == "fl") e->p[0] = num();
    while (i < s.size() && s[i] != ')') { e->c.push_back(parse(s, i)); if (i < s.size() && s[i] == ',') i++; } }
  if (i >= s.size() || s[i] != ')') throw std::runtime_error("parse: ) expected"); i++;
  return e;
}
static ExP parseAll(const std::string& s) { size_t i = 0; ExP e = parse(s, i); if (i != s.size()) throw std::runtime_error("parse: trailing text"); return e; }
static OpType opOf(const std::string& k) { return (k == "add" || k == "badd") ? OpType::Add : (k == "sub" || k == "bsub" || k == "s2") ? OpType::Subtract : OpType::Intersect; }
static Vox voxOp(OpType op, const Vox& a, const Vox& b) { return op == OpType::Add ? (a | b) : op == OpType::Subtract ? (a & ~b) : (a & b); }
// voxel semantics; ok=false when the solid leaves the [-2,6)^3 window
static Vox voxel(const ExP& e, bool& ok) {
  Vox v;
  if (e->k == "b") { for (int x = e->p[0]; x < e->p[3]; x++) for (int y = e->p[1]; y < e->p[4]; y++) for (int z = e->p[2]; z < e->p[5]; z++) { if (x < -2 || x >= 6 || y < -2 || y >= 6 || z < -2 || z >= 6) { ok = false; continue; } v[vidx(x, y, z)] = 1; } return v; }
  if (e->k == "tr" || e->k == "fl") {
    Vox a = voxel(e->c[0], ok);
    for (int x = -2; x < 6; x++) for (int y = -2; y < 6; y++) for (int z = -2; z < 6; z++) if (a[vidx(x, y, z)]) {
      int q[3] = {x, y, z};
      if (e->k == "tr") for (int k = 0; k < 3; k++) q[k] += e->p[k]; else q[e->p[0]] = 3 - q[e->p[0]];
      if (q[0] < -2 || q[0] >= 6 || q[1] < -2 || q[1] >= 6 || q[2] < -2 || q[2] >= 6) { ok = false; continue; }
      v[vidx(q[0], q[1], q[2])] = 1; }
    return v; }
  if (e->c.empty()) return v;                      // empty batch = empty solid
  v = voxel(e->c[0], ok);
  for (size_t i = 1; i < e->c.size(); i++) v = voxOp(opOf(e->k), v, voxel(e->c[i], ok));
  return v;
}
static Manifold real(const ExP& e, std::map<const Ex*, Manifold>& memo) {
  auto it = memo.find(e.get()); if (it != memo.end()) return it->second;
  Manifold m;
  if (e->k == "b") m = Manifold::Cube(vec3(e->p[3] - e->p[0], e->p[4] - e->p[1], e->p[5] - e->p[2])).Translate(vec3(e->p[0], e->p[1], e->p[2]));
  else if (e->k == "tr") m = real(e->c[0], memo).Translate(vec3(e->p[0], e->p[1], e->p[2]));
  else if (e->k == "fl") { vec3 s(1.0), t(0.0); s[e->p[0]] = -1; t[e->p[0]] = 4; m = real(e->c[0], memo).Scale(s).Translate(t); }
  else if (e->k == "add" || e->k == "sub" || e->k == "int") m = real(e->c[0], memo).Boolean(real(e->c[1], memo), opOf(e->k));
  else if (e->k == "s1") m = real(e->c[0], memo).Split(real(e->c[1], memo)).first;
  else if (e->k == "s2") m = real(e->c[0], memo).Split(real(e->c[1], memo)).second;
  else { std::vector<Manifold> v; for (auto& c : e->c) v.push_back(real(c, memo)); m = Manifold::BatchBoolean(v, opOf(e->k)); }
  memo[e.get()] = m; return m;
}
static std::vector<vec3> centres() { std::vector<vec3> p; for (int z = -2; z < 6; z++) for (int y = -2; y < 6; y++) for (int x = -2; x < 6; x++) p.push_back(vec3(x + 0.5, y + 0.5, z + 0.5)); return p; }
struct Verdict { bool ok = true, inWindow = true; std::string msg; double vol = 0; int count = 0; };
static Verdict check(const ExP& e, bool cross = true) {
  static const std::vector<vec3> pts = centres();
  Verdict r; bool win = true; Vox want = voxel(e, win); r.inWindow = win; r.count = (int)want.count();
  if (!win) return r;
  std::map<const Ex*, Manifold> memo; Manifold m; std::vector<int> w;
  try {
    m = real(e, memo);
    if (m.Status() != Manifold::Error::NoError) { r.ok = false; r.msg = "Status=" + std::to_string((int)m.Status()); return r; }
    r.vol = m.Volume();
    w = m.WindingNumber(pts);
  } catch (const std::exception& ex) { r.ok = false; r.msg = std::string("exception thrown by the evaluation: ") + ex.what(); return r; }
  int bad = -1, nbad = 0; for (int i = 0; i < 512; i++) if ((w[i] != 0) != (bool)want[i]) { if (bad < 0) bad = i; nbad++; }
  char buf[256];
  if (nbad) { r.ok = false; snprintf(buf, sizeof buf, "%d voxel centre(s) misclassified by WindingNumber, first (%g,%g,%g): result winding %d, voxel semantics %d; Volume=%.12g voxels=%d", nbad, pts[bad].x, pts[bad].y, pts[bad].z, w[bad], (int)want[bad], r.vol, r.count); r.msg = buf; return r; }
  if (std::fabs(r.vol - r.count) > 1e-9) { r.ok = false; snprintf(buf, sizeof buf, "Volume=%.12g but the voxel semantics has %d unit cubes", r.vol, r.count); r.msg = buf; return r; }
  if (cross) {
    TriMesh tm = exportMesh(m);
    for (int i = 0; i < 512; i++) { LD p[3] = {(LD)pts[i].x, (LD)pts[i].y, (LD)pts[i].z}; int rw = rayWinding(tm, p);
      if ((rw != 0) != (bool)want[i]) { r.ok = false; snprintf(buf, sizeof buf, "ray-parity oracle on the exported mesh: centre (%g,%g,%g) winding %d, voxel semantics %d", pts[i].x, pts[i].y, pts[i].z, rw, (int)want[i]); r.msg = buf; return r; } }
  }
  return r;
}
static bool fails(const ExP& e) { Verdict v = check(e, false); return v.inWindow && !v.ok; }
// all variants of e with one node replaced
static void variants(const ExP& e, const std::function<void(ExP)>& rebuild, std::vector<ExP>& out) {
  // replace this node by each child, or by the bounding box of its voxel set when that set is a box
  for (auto& c : e->c) rebuild(c);
  if (e->k != "b") { bool w = true; Vox v = voxel(e, w); if (w && v.any()) { int lo[3] = {9, 9, 9}, hi[3] = {-9, -9, -9};
      for (int x = -2; x < 6; x++) for (int y = -2; y < 6; y++) for (int z = -2; z < 6; z++) if (v[vidx(x, y, z)]) { int q[3] = {x, y, z}; for (int k = 0; k < 3; k++) { lo[k] = std::min(lo[k], q[k]); hi[k] = std::max(hi[k], q[k] + 1); } }
      if ((int)v.count() == (hi[0] - lo[0]) * (hi[1] - lo[1]) * (hi[2] - lo[2])) rebuild(mkBox(lo[0], lo[1], lo[2], hi[0], hi[1], hi[2])); } }
  if (e->k == "b") {   // smaller / lower boxes
    for (int k = 0; k < 3; k++) {
      if (e->p[k + 3] - e->p[k] > 1) { auto b = mkBox(e->p[0], e->p[1], e->p[2], e->p[3], e->p[4], e->p[5]); b->p[k + 3]--; rebuild(b); auto b2 = mkBox(e->p[0], e->p[1], e->p[2], e->p[3], e->p[4], e->p[5]); b2->p[k]++; rebuild(b2); }
    }
  }
  if (e->k == "tr") for (int k = 0; k < 3; k++) if (e->p[k] != 0) { auto t = mk("tr", e->c); memcpy(t->p, e->p, sizeof t->p); t->p[k] += e->p[k] > 0 ? -1 : 1; rebuild(t); }
  if (e->k == "s1") rebuild(mk("int", e->c));
  if (e->k == "s2") rebuild(mk("sub", e->c));
  if ((e->k == "badd" || e->k == "bsub" || e->k == "bint")) {
    if (e->c.size() == 2) rebuild(mk(e->k.substr(1), e->c));
    if (e->c.size() > 2) for (size_t i = 0; i < e->c.size(); i++) { auto cc = e->c; cc.erase(cc.begin() + i); rebuild(mk(e->k, cc)); }
  }
  for (size_t i = 0; i < e->c.size(); i++) {
    auto sub = [&, i](ExP r) { auto n = mk(e->k, e->c); memcpy(n->p, e->p, sizeof n->p); n->c[i] = r; rebuild(n); };
    variants(e->c[i], sub, out);
  }
}
static long weight(const ExP& e) {   // (nodes, total box volume, coordinate sum) lexicographic, as one number
  std::function<void(const ExP&, long&, long&)> go = [&](const ExP& x, long& vol, long& co) { if (x->k == "b") { vol += (long)(x->p[3] - x->p[0]) * (x->p[4] - x->p[1]) * (x->p[5] - x->p[2]); for (int k = 0; k < 6; k++) co += std::abs(x->p[k]); } if (x->k == "tr") for (int k = 0; k < 3; k++) co += 2 * std::abs(x->p[k]); if (x->k[0] == 's' && x->k != "sub") co += 1; if (x->k[0] == 'b' && x->k != "b") co += 1; for (auto& c : x->c) go(c, vol, co); };
  long vol = 0, co = 0; go(e, vol, co); return (long)size(e) * 100000000L + vol * 10000L + co;
}
static ExP translateAll(const ExP& e, int k, int d) {   // lattice translation of the whole expression (boxes move, flips keep their mirror plane: only used when no "fl")
  auto n = mk(e->k); memcpy(n->p, e->p, sizeof n->p); if (e->k == "b") { n->p[k] += d; n->p[k + 3] += d; } for (auto& c : e->c) n->c.push_back(translateAll(c, k, d)); return n;
}
static bool hasFlip(const ExP& e) { if (e->k == "fl") return true; for (auto& c : e->c) if (hasFlip(c)) return true; return false; }
static ExP minimize(ExP e, int& evals) {
  e = parseAll(str(e));   // un-share sub-expressions: the key must replay from its text
  if (!fails(e)) return nullptr;
  for (bool changed = true; changed;) {
    changed = false; std::vector<ExP> cand; variants(e, [&](ExP r) { cand.push_back(r); }, cand);
    { std::function<void(const ExP&)> subs = [&](const ExP& x) { for (auto& c : x->c) { cand.push_back(c); subs(c); } }; subs(e); }   // every sub-expression on its own
    if (!hasFlip(e)) for (int k = 0; k < 3; k++) cand.push_back(translateAll(e, k, -1));
    std::stable_sort(cand.begin(), cand.end(), [](const ExP& a, const ExP& b) { return weight(a) < weight(b); });
    for (auto& c : cand) { if (weight(c) >= weight(e)) break; evals++; bool w = true; voxel(c, w); if (!w) continue; bool neg = false; std::function<void(const ExP&)> chk = [&](const ExP& x) { if (x->k == "b") for (int k = 0; k < 3; k++) if (x->p[k] < 0) neg = true; for (auto& y : x->c) chk(y); }; chk(c); if (neg) continue;
      if (fails(c)) { e = c; changed = true; break; } }
  }
  return e;
}
static ExP genExpr(Rng& r, int depth, std::vector<ExP>& pool) {
  auto box = [&]() { int lo[3], hi[3]; for (int k = 0; k < 3; k++) { lo[k] = (int)r.below(4); hi[k] = lo[k] + 1 + (int)r.below(4 - lo[k]); } return mkBox(lo[0], lo[1], lo[2], hi[0], hi[1], hi[2]); };
  if (depth <= 0 || r.below(100) < 22) { if (!pool.empty() && r.below(100) < 25) return pool[r.below(pool.size())]; ExP b = box(); pool.push_back(b); return b; }
  int x = (int)r.below(100); ExP e;
  if (x < 55) { static const char* ops[] = {"add", "add", "sub", "sub", "int"}; e = mk(ops[r.below(5)], {genExpr(r, depth - 1, pool), genExpr(r, depth - 1, pool)}); }
  else if (x < 67) { e = mk("tr", {genExpr(r, depth - 1, pool)}); for (int k = 0; k < 3; k++) e->p[k] = r.range(-1, 1); }
  else if (x < 75) { e = mk("fl", {genExpr(r, depth - 1, pool)}); e->p[0] = (int)r.below(3); }
  else if (x < 87) { e = mk(r.below(2) ? "s1" : "s2", {genExpr(r, depth - 1, pool), genExpr(r, depth - 1, pool)}); }
  else { static const char* ops[] = {"badd", "badd", "bsub", "bint"}; e = mk(ops[r.below(4)]); int n = 2 + (int)r.below(3); for (int i = 0; i < n; i++) e->c.push_back(genExpr(r, depth - 1, pool)); }
  if (r.below(100) < 30) pool.push_back(e);   // whole copies: the same Manifold object may be used again
  return e;
}
static int nOps(const ExP& e) {   // number of Boolean operations the program executes
  int n = 0; if (e->k == "add" || e->k == "sub" || e->k == "int" || e->k == "s1" || e->k == "s2") n = 1; else if (e->k[0] == 'b' && e->k != "b") n = std::max(0, (int)e->c.size() - 1);
  for (auto& c : e->c) n += nOps(c); return n;
}
static void latticeCase(const std::string& tag, const ExP& e, bool cross = true) {
  Verdict v = check(e, cross);
  if (!v.inWindow) return;
  if (v.ok) { hz::emit(tag + " " + str(e), "", "", true); return; }
  int evals = 0; ExP m = minimize(e, evals); std::string key = m ? str(m) : str(e); Verdict vm = m ? check(m, true) : v;
  hz::emit(tag + " " + str(e), "", "", false, "MIN " + key + " OPS " + std::to_string(nOps(m ? m : e)) + " :: " + (m ? vm.msg : v.msg + " (fails only with shared sub-expressions; not minimised)") + " :: found as " + v.msg);
}

// ------------------------------------------------------------------------------------------------ (c) general position
static Manifold genericXf(Rng& r, const Manifold& m, double spread) {
  return m.Rotate(rndIn(r, -180, 180), rndIn(r, -180, 180), rndIn(r, -180, 180)).Scale(vec3(rndIn(r, 0.7, 1.3), rndIn(r, 0.7, 1.3), rndIn(r, 0.7, 1.3)))
      .Rotate(rndIn(r, -180, 180), rndIn(r, -180, 180), rndIn(r, -180, 180)).Translate(vec3(rndIn(r, -spread, spread), rndIn(r, -spread, spread), rndIn(r, -spread, spread)));
}
static Manifold genSolid(Rng& r, std::string& desc) {
  int k = (int)r.below(6); Manifold m;
  if (k == 0) { int s = 4 * r.range(1, 5); m = Manifold::Sphere(rndIn(r, 0.6, 1.2), s); desc = "sphere" + std::to_string(s); }
  else if (k == 1) { int s = r.range(3, 16); m = Manifold::Cylinder(rndIn(r, 0.8, 2.0), rndIn(r, 0.4, 1.0), rndIn(r, 0.3, 1.0), s, true); desc = "cyl" + std::to_string(s); }
  else if (k == 2) { m = Manifold::Cube(vec3(rndIn(r, 0.8, 2), rndIn(r, 0.8, 2), rndIn(r, 0.8, 2)), true); desc = "cube"; }
  else if (k == 3) { m = Manifold::Tetrahedron(); desc = "tet"; }
  else if (k == 4) { std::vector<vec3> p; int n = r.range(5, 14); for (int i = 0; i < n; i++) p.push_back(vec3(rndIn(r, -1, 1), rndIn(r, -1, 1), rndIn(r, -1, 1))); m = Manifold::Hull(p); desc = "hull" + std::to_string(n); }
  else { m = Manifold::Cube(vec3(1.6, 1.6, 1.6), true) - Manifold::Cylinder(3, 0.45, 0.45, r.range(5, 12), true).Rotate(rndIn(r, -20, 20), rndIn(r, -20, 20), 0); desc = "drilled"; }   // genus 1, non-convex
  return genericXf(r, m, 0.8);
}
static double relErr(double a, double b, double scale) { return std::fabs(a - b) / std::max(scale, 1e-300); }
static void generalCase1(const std::string& tag0, Rng& r);
// SplitByPlane / TrimByPlane on their own: solids AWAY from the origin, normals of any length (documented: "its length does not
// matter"), offsets from far below to far above the solid - including planes that miss the solid entirely, where the cutter must still
// cover (positive side) or avoid (negative side) the whole solid.  Oracle: exact side of the plane in long double x solid-angle winding.
static void planeCase1(const std::string& tag0, Rng& r) {
  std::string da; Manifold A0 = genSolid(r, da);
  if (A0.Status() != Manifold::Error::NoError || A0.IsEmpty()) return;
  const double far = r.below(4) == 0 ? rndIn(r, 0, 1) : rndIn(r, 2, 40);
  double dir[3] = {rndIn(r, -1, 1), rndIn(r, -1, 1), rndIn(r, -1, 1)}; double dl = std::sqrt(dir[0] * dir[0] + dir[1] * dir[1] + dir[2] * dir[2]); if (dl < 0.2) { dir[0] = 1; dir[1] = dir[2] = 0; dl = 1; }
  Manifold A = A0.Translate(vec3(dir[0], dir[1], dir[2]) * (far / dl));
  TriMesh ta = exportMesh(A); Box bb = A.BoundingBox(); vec3 cen = bb.Center(); const double diag = la::length(bb.Size());
  const double tol = std::max(A.GetTolerance(), implOf(A)->epsilon_); const LD margin = 10 * (LD)tol;
  std::vector<vec3> pts; std::vector<int> inA;
  for (int i = 0; i < 70; i++) {
    vec3 p = vec3(rndIn(r, bb.min.x - 0.1, bb.max.x + 0.1), rndIn(r, bb.min.y - 0.1, bb.max.y + 0.1), rndIn(r, bb.min.z - 0.1, bb.max.z + 0.1));
    LD q[3] = {(LD)p.x, (LD)p.y, (LD)p.z}; if (distMesh(ta, q) <= margin) continue;
    pts.push_back(p); inA.push_back(lroundl(solidWinding(ta, q)) != 0);
  }
  const double va = A.Volume();
  for (int k = 0; k < 5; k++) {
    // normal: towards the solid / random / axis; length anywhere in 1e-2..1e2 or exactly |centre|
    double n[3]; const int nk = (int)r.below(4); const double cl = la::length(cen);
    if (nk == 0 && cl > 0.1) { n[0] = cen.x / cl + rndIn(r, -0.1, 0.1); n[1] = cen.y / cl + rndIn(r, -0.1, 0.1); n[2] = cen.z / cl + rndIn(r, -0.1, 0.1); }
    else if (nk == 1) { int ax = (int)r.below(3); n[0] = n[1] = n[2] = 0; n[ax] = r.below(2) ? 1 : -1; }
    else { n[0] = rndIn(r, -1, 1); n[1] = rndIn(r, -1, 1); n[2] = rndIn(r, -1, 1); }
    double nl = std::sqrt(n[0] * n[0] + n[1] * n[1] + n[2] * n[2]); if (nl < 0.2) { n[0] = 1; n[1] = n[2] = 0; nl = 1; }
    const int lk = (int)r.below(5); const double len = lk == 0 ? 1.0 : lk == 1 ? std::max(cl, 0.5) : std::pow(10.0, rndIn(r, -2, 2));
    for (int j = 0; j < 3; j++) n[j] *= len / nl;
    nl = std::sqrt(n[0] * n[0] + n[1] * n[1] + n[2] * n[2]);
    const double proj = (cen.x * n[0] + cen.y * n[1] + cen.z * n[2]) / nl;   // signed distance of the bbox centre from the origin along the unit normal
    const int ok = (int)r.below(6);
    const double off = ok == 0 ? proj + rndIn(r, -0.3, 0.3) * diag : ok == 1 ? proj - rndIn(r, 0.6, 3) * diag : ok == 2 ? proj + rndIn(r, 0.6, 3) * diag
                     : ok == 3 ? (r.below(2) ? 1.0 : -1.0) : ok == 4 ? proj * rndIn(r, 0, 1) : rndIn(r, -2, 2);
    char tg[200]; snprintf(tg, sizeof tg, " plane%d n=(%.4g,%.4g,%.4g) off=%.6g far=%.3g", k, n[0], n[1], n[2], off, far);
    std::string tag = tag0 + " " + da + tg, fail; char buf[500];
    auto sbp = A.SplitByPlane(vec3(n[0], n[1], n[2]), off); Manifold trim = A.TrimByPlane(vec3(n[0], n[1], n[2]), off);
    if (sbp.first.Status() != Manifold::Error::NoError || sbp.second.Status() != Manifold::Error::NoError || trim.Status() != Manifold::Error::NoError) { hz::emit(tag, "", "", false, "SplitByPlane/TrimByPlane of a valid solid returned an error Status"); continue; }
    const Manifold* parts[3] = {&sbp.first, &sbp.second, &trim}; const char* names[3] = {"SplitByPlane.first", "SplitByPlane.second", "TrimByPlane"};
    int nPos = 0, nNeg = 0;
    for (int w = 0; w < 3 && fail.empty(); w++) {
      std::vector<int> wn = parts[w]->WindingNumber(pts); TriMesh tm = exportMesh(*parts[w]);
      for (size_t i = 0; i < pts.size(); i++) {
        const LD pd = ((LD)pts[i].x * n[0] + (LD)pts[i].y * n[1] + (LD)pts[i].z * n[2]) / nl - off;
        if (fabsl(pd) <= margin + 1e-9L * (1 + fabsl((LD)off))) continue;
        const int want = inA[i] && (w == 1 ? pd < 0 : pd > 0);
        if (w == 0 && inA[i]) { if (pd > 0) nPos++; else nNeg++; }
        LD q[3] = {(LD)pts[i].x, (LD)pts[i].y, (LD)pts[i].z}; const LD sw = tm.t.empty() ? 0 : solidWinding(tm, q);
        if ((wn[i] != 0) != (want != 0) || lroundl(sw) != want) { snprintf(buf, sizeof buf, "%s: point (%.17g,%.17g,%.17g) inA=%d signed distance to the plane %.6Lg: half-space part says %d, WindingNumber=%d, solid-angle winding of the exported part=%.6Lf", names[w], pts[i].x, pts[i].y, pts[i].z, inA[i], pd, want, wn[i], sw); fail = buf; break; }
      }
    }
    if (fail.empty() && relErr(sbp.first.Volume() + sbp.second.Volume(), va, std::fabs(va)) > 1e-7) { snprintf(buf, sizeof buf, "Vol(SplitByPlane parts) = Vol A: %.15g + %.15g vs %.15g", sbp.first.Volume(), sbp.second.Volume(), va); fail = buf; }
    if (fail.empty() && relErr(trim.Volume(), sbp.first.Volume(), std::fabs(va)) > 1e-7) { snprintf(buf, sizeof buf, "Vol(TrimByPlane) = Vol(SplitByPlane.first): %.15g vs %.15g", trim.Volume(), sbp.first.Volume()); fail = buf; }
    hz::emit(tag + " pts=" + std::to_string(pts.size()) + " pos=" + std::to_string(nPos) + " neg=" + std::to_string(nNeg), "", "", fail.empty(), fail);
  }
}
static void planeCase(const std::string& tag0, Rng& r) {
  try { planeCase1(tag0, r); } catch (const std::exception& ex) { hz::emit(tag0 + " exception", "", "", false, std::string("exception thrown by SplitByPlane/TrimByPlane of a valid solid: ") + ex.what()); }
}
static void generalCase(const std::string& tag0, Rng& r) {
  try { generalCase1(tag0, r); } catch (const std::exception& ex) { hz::emit(tag0 + " exception", "", "", false, std::string("exception thrown by a Boolean of two valid operands: ") + ex.what()); }
}
static void generalCase1(const std::string& tag0, Rng& r) {
  std::string da, db; Manifold A = genSolid(r, da), B = genSolid(r, db);
  std::string tag = tag0 + " " + da + "/" + db;
  if (A.Status() != Manifold::Error::NoError || B.Status() != Manifold::Error::NoError || A.IsEmpty() || B.IsEmpty()) { hz::emit(tag + " skipped-empty-operand", "", "", true); return; }
  Manifold R[3] = {A + B, A - B, A ^ B}; Manifold Rc[2] = {B + A, B ^ A}; auto sp = A.Split(B);
  double nrm[3] = {rndIn(r, -1, 1), rndIn(r, -1, 1), rndIn(r, -1, 1)}; double nl = std::sqrt(nrm[0] * nrm[0] + nrm[1] * nrm[1] + nrm[2] * nrm[2]); if (nl < 0.2) { nrm[0] = 1; nl = std::sqrt(nrm[0] * nrm[0] + nrm[1] * nrm[1] + nrm[2] * nrm[2]); }
  Box bb = A.BoundingBox(); vec3 cen = bb.Center(); double off = (cen.x * nrm[0] + cen.y * nrm[1] + cen.z * nrm[2]) / nl + rndIn(r, -0.3, 0.3);
  auto sbp = A.SplitByPlane(vec3(nrm[0], nrm[1], nrm[2]), off); Manifold trim = A.TrimByPlane(vec3(nrm[0], nrm[1], nrm[2]), off);
  std::vector<const Manifold*> all = {&R[0], &R[1], &R[2], &Rc[0], &Rc[1], &sp.first, &sp.second, &sbp.first, &sbp.second, &trim};
  for (auto m : all) if (m->Status() != Manifold::Error::NoError) { hz::emit(tag, "", "", false, "a Boolean of two valid operands returned Status " + std::to_string((int)m->Status())); return; }
  double tol = std::max({A.GetTolerance(), B.GetTolerance(), R[0].GetTolerance(), R[1].GetTolerance(), R[2].GetTolerance(), implOf(A)->epsilon_, implOf(B)->epsilon_});
  const LD margin = 10 * (LD)tol;
  TriMesh ta = exportMesh(A), tb = exportMesh(B);
  Box ub = A.BoundingBox().Union(B.BoundingBox()); vec3 lo = ub.min - vec3(0.1), hi = ub.max + vec3(0.1);
  vec3 ilo = la::max(A.BoundingBox().min, B.BoundingBox().min), ihi = la::min(A.BoundingBox().max, B.BoundingBox().max);
  const int N = 260; std::vector<vec3> pts; std::vector<int> inA, inB; std::vector<char> side; int nearSkipped = 0;
  for (int i = 0; i < N; i++) {
    vec3 p; if (i % 4 == 3 && !tb.v.empty()) { auto& v = tb.v[r.below(tb.v.size())]; p = vec3((double)v[0] + rndIn(r, -0.05, 0.05), (double)v[1] + rndIn(r, -0.05, 0.05), (double)v[2] + rndIn(r, -0.05, 0.05)); }   // near B's vertices
    else if (i % 4 == 1 && ilo.x < ihi.x && ilo.y < ihi.y && ilo.z < ihi.z) p = vec3(rndIn(r, ilo.x, ihi.x), rndIn(r, ilo.y, ihi.y), rndIn(r, ilo.z, ihi.z));   // where the bounding boxes overlap
    else p = vec3(rndIn(r, lo.x, hi.x), rndIn(r, lo.y, hi.y), rndIn(r, lo.z, hi.z));
    LD q[3] = {(LD)p.x, (LD)p.y, (LD)p.z};
    if (distMesh(ta, q) <= margin || distMesh(tb, q) <= margin) { nearSkipped++; continue; }
    LD wa = solidWinding(ta, q), wb = solidWinding(tb, q); long ia = lroundl(wa), ib = lroundl(wb);
    if (fabsl(wa - ia) > 1e-6L || fabsl(wb - ib) > 1e-6L) { hz::emit(tag, "", "", false, "exported operand is not a closed surface (non-integer solid-angle winding)"); return; }
    LD pd = ((LD)p.x * nrm[0] + (LD)p.y * nrm[1] + (LD)p.z * nrm[2]) / nl - off;
    pts.push_back(p); inA.push_back(ia != 0); inB.push_back(ib != 0); side.push_back(fabsl(pd) <= margin ? 0 : pd > 0 ? 1 : -1);
  }
  std::string fail; char buf[400];
  auto classify = [&](const Manifold& m, const char* name, std::function<int(size_t)> want) {
    if (!fail.empty()) return; std::vector<int> w = m.WindingNumber(pts); TriMesh tm = exportMesh(m);
    for (size_t i = 0; i < pts.size(); i++) { int e = want(i); if (e < 0) continue;
      LD q[3] = {(LD)pts[i].x, (LD)pts[i].y, (LD)pts[i].z}; LD sw = solidWinding(tm, q);
      if ((w[i] != 0) != (e != 0) || lroundl(sw) != e) { snprintf(buf, sizeof buf, "%s: point (%.17g,%.17g,%.17g) inA=%d inB=%d: set formula says %d, WindingNumber=%d, solid-angle winding of the exported result=%.6Lf (margin %.3Lg)", name, pts[i].x, pts[i].y, pts[i].z, inA[i], inB[i], e, w[i], sw, margin); fail = buf; return; } }
  };
  classify(R[0], "A+B", [&](size_t i) { return inA[i] | inB[i]; });
  classify(R[1], "A-B", [&](size_t i) { return inA[i] & !inB[i]; });
  classify(R[2], "A^B", [&](size_t i) { return inA[i] & inB[i]; });
  classify(Rc[0], "B+A", [&](size_t i) { return inA[i] | inB[i]; });
  classify(Rc[1], "B^A", [&](size_t i) { return inA[i] & inB[i]; });
  classify(sp.first, "Split.first", [&](size_t i) { return inA[i] & inB[i]; });
  classify(sp.second, "Split.second", [&](size_t i) { return inA[i] & !inB[i]; });
  classify(sbp.first, "SplitByPlane.first", [&](size_t i) { return side[i] == 0 ? -1 : (inA[i] && side[i] > 0); });
  classify(sbp.second, "SplitByPlane.second", [&](size_t i) { return side[i] == 0 ? -1 : (inA[i] && side[i] < 0); });
  classify(trim, "TrimByPlane", [&](size_t i) { return side[i] == 0 ? -1 : (inA[i] && side[i] > 0); });
  double va = A.Volume(), vb = B.Volume(), sc = std::fabs(va) + std::fabs(vb);
  auto vol = [&](const char* what, double lhs, double rhs) { if (fail.empty() && relErr(lhs, rhs, sc) > 1e-7) { snprintf(buf, sizeof buf, "%s: %.15g vs %.15g (relative to Vol A + Vol B = %.6g)", what, lhs, rhs, sc); fail = buf; } };
  vol("inclusion-exclusion Vol(A+B)+Vol(A^B) = Vol A + Vol B", R[0].Volume() + R[2].Volume(), va + vb);
  vol("Vol(A-B)+Vol(A^B) = Vol A", R[1].Volume() + R[2].Volume(), va);
  vol("Vol(A+B) = Vol(B+A)", R[0].Volume(), Rc[0].Volume());
  vol("Vol(A^B) = Vol(B^A)", R[2].Volume(), Rc[1].Volume());
  vol("Vol(Split.first) = Vol(A^B)", sp.first.Volume(), R[2].Volume());
  vol("Vol(Split.second) = Vol(A-B)", sp.second.Volume(), R[1].Volume());
  vol("Vol(SplitByPlane parts) = Vol A", sbp.first.Volume() + sbp.second.Volume(), va);
  vol("Vol(TrimByPlane) = Vol(SplitByPlane.first)", trim.Volume(), sbp.first.Volume());
  int nAB = 0, nA = 0, nB = 0; for (size_t i = 0; i < pts.size(); i++) { nAB += inA[i] && inB[i]; nA += inA[i] && !inB[i]; nB += !inA[i] && inB[i]; }
  hz::emit(tag + " pts=" + std::to_string(pts.size()) + " inAB=" + std::to_string(nAB) + " inAonly=" + std::to_string(nA) + " inBonly=" + std::to_string(nB) + " near=" + std::to_string(nearSkipped) + " volAB=" + std::to_string(R[2].Volume()), "", "", fail.empty(), fail);
}


// ------------------------------------------------------------------------------------------------ (d) many-operand unions
// Unions of N > 1000 operands (the evaluator reduces a flattened Add node in chunks of 1000 and composes
// bounding-box-disjoint operands without a Boolean): N pairwise disjoint axis-aligned pegs with generic sizes and
// positions standing in `np` thin plates that each cross every peg (so a plate is alone in its disjoint set),
// evaluated as BatchBoolean(Add) with the plates first / last / in the middle, as a += chain, and as the negative
// side of a subtraction.  The exact volume is known by inclusion-exclusion over boxes (pegs are disjoint, plates
// are disjoint, a peg meets a plate in a box) and every peg top / plate corner is a known interior point.
struct BoxD { double lo[3], hi[3]; };
static double volB(const BoxD& b) { return (b.hi[0] - b.lo[0]) * (b.hi[1] - b.lo[1]) * (b.hi[2] - b.lo[2]); }
static double volInter(const BoxD& a, const BoxD& b) { double v = 1; for (int k = 0; k < 3; k++) { double l = std::max(a.lo[k], b.lo[k]), h = std::min(a.hi[k], b.hi[k]); if (h <= l) return 0; v *= h - l; } return v; }
static Manifold solidOf(const BoxD& b) { return Manifold::Cube(vec3(b.hi[0] - b.lo[0], b.hi[1] - b.lo[1], b.hi[2] - b.lo[2])).Translate(vec3(b.lo[0], b.lo[1], b.lo[2])); }
static void bigBatchCase(const std::string& tag, Rng& r, int N, int np, int layout, int mode) {
  const int side = (int)std::ceil(std::sqrt((double)N)); const double W = 2.0 * side + 1;
  std::vector<BoxD> pegs, plates;
  for (int i = 0; i < N; i++) { BoxD b; double cx = 2.0 * (i % side) + rndIn(r, 0.3, 0.7), cy = 2.0 * (i / side) + rndIn(r, 0.3, 0.7), w = rndIn(r, 0.2, 0.5), d = rndIn(r, 0.2, 0.5);
    b.lo[0] = cx - w; b.hi[0] = cx + w; b.lo[1] = cy - d; b.hi[1] = cy + d; b.lo[2] = -rndIn(r, 0.5, 0.9); b.hi[2] = rndIn(r, 1.2, 1.9); pegs.push_back(b); }
  for (int j = 0; j < np; j++) { BoxD b; b.lo[0] = -1 - rndIn(r, 0, 0.3); b.lo[1] = -1 - rndIn(r, 0, 0.3); b.hi[0] = W + rndIn(r, 0, 0.3); b.hi[1] = W + rndIn(r, 0, 0.3);
    b.lo[2] = 0.4 * j + rndIn(r, 0.01, 0.05); b.hi[2] = b.lo[2] + rndIn(r, 0.1, 0.2); plates.push_back(b); }
  double want = 0; for (auto& b : pegs) want += volB(b); for (auto& q : plates) { want += volB(q); for (auto& b : pegs) want -= volInter(q, b); }
  std::vector<Manifold> ops; std::vector<Manifold> P, Q; for (auto& b : pegs) P.push_back(solidOf(b)); for (auto& q : plates) Q.push_back(solidOf(q));
  if (layout == 0) { ops = Q; ops.insert(ops.end(), P.begin(), P.end()); }
  else if (layout == 1) { ops = P; ops.insert(ops.end(), Q.begin(), Q.end()); }
  else { ops = P; for (auto& q : Q) ops.insert(ops.begin() + r.below(ops.size() + 1), q); }
  Manifold R; double wantR = want; std::string what;
  BoxD big; big.lo[0] = big.lo[1] = -3; big.hi[0] = big.hi[1] = W + 2; big.lo[2] = -2; big.hi[2] = 3;
  if (mode == 0) { R = Manifold::BatchBoolean(ops, OpType::Add); what = "BatchBoolean(Add)"; }
  else if (mode == 1) { R = ops[0]; for (size_t i = 1; i < ops.size(); i++) R += ops[i]; what = "+= chain"; }
  else if (mode == 2) { R = solidOf(big) - Manifold::BatchBoolean(ops, OpType::Add); wantR = volB(big) - want; what = "big - BatchBoolean(Add)"; }
  else { std::vector<Manifold> v = {solidOf(big)}; v.insert(v.end(), ops.begin(), ops.end()); R = Manifold::BatchBoolean(v, OpType::Subtract); wantR = volB(big) - want; what = "BatchBoolean(Subtract)"; }
  std::string fail; char buf[300];
  if (R.Status() != Manifold::Error::NoError) { snprintf(buf, sizeof buf, "%s of %d valid operands returned Status %d", what.c_str(), (int)ops.size(), (int)R.Status()); fail = buf; }
  double got = fail.empty() ? R.Volume() : 0;
  if (fail.empty() && std::fabs(got - wantR) > 1e-9 * std::max(1.0, std::fabs(wantR))) { snprintf(buf, sizeof buf, "%s of %d boxes: Volume=%.12g, inclusion-exclusion over the boxes gives %.12g", what.c_str(), (int)ops.size(), got, wantR); fail = buf; }
  if (fail.empty()) {   // interior points: the top of every 7th peg, the corner region of every plate
    std::vector<vec3> pts; std::vector<int> inside;
    for (size_t i = 0; i < pegs.size(); i += 7) { pts.push_back(vec3((pegs[i].lo[0] + pegs[i].hi[0]) / 2, (pegs[i].lo[1] + pegs[i].hi[1]) / 2, pegs[i].hi[2] - 0.05)); inside.push_back(1); }
    for (auto& q : plates) { pts.push_back(vec3(q.lo[0] + 0.1, q.lo[1] + 0.1, (q.lo[2] + q.hi[2]) / 2)); inside.push_back(1); pts.push_back(vec3(q.hi[0] - 0.1, q.hi[1] - 0.1, (q.lo[2] + q.hi[2]) / 2)); inside.push_back(1); }
    pts.push_back(vec3(-2.5, -2.5, 2.5)); inside.push_back(0);
    std::vector<int> w = R.WindingNumber(pts);
    for (size_t i = 0; i < pts.size() && fail.empty(); i++) { bool in = mode >= 2 ? !inside[i] : inside[i];   // (the far corner is inside `big`)
      if ((w[i] != 0) != in) { snprintf(buf, sizeof buf, "%s of %d boxes: point (%g,%g,%g) should be %s the result, WindingNumber=%d", what.c_str(), (int)ops.size(), pts[i].x, pts[i].y, pts[i].z, in ? "inside" : "outside", w[i]); fail = buf; } }
  }
  hz::emit(tag + " N=" + std::to_string(N) + " plates=" + std::to_string(np) + " layout=" + std::to_string(layout) + " mode=" + std::to_string(mode) + " tris=" + std::to_string(fail.empty() ? R.NumTri() : 0), "", "", fail.empty(), fail);
}

// ------------------------------------------------------------------------------------------------ operand pairs for the kernel tie
static void kernelPairs(Rng& r, int n) {
  for (int i = 0; i < n; i++) {
    Manifold A, B; std::string d; int kind = (int)r.below(10);
    auto lbox = [&]() { int lo[3], hi[3]; for (int k = 0; k < 3; k++) { lo[k] = (int)r.below(3); hi[k] = lo[k] + 1 + (int)r.below(3 - lo[k] + 1); } return Manifold::Cube(vec3(hi[0] - lo[0], hi[1] - lo[1], hi[2] - lo[2])).Translate(vec3(lo[0], lo[1], lo[2])); };
    if (kind < 3) { A = lbox(); B = lbox(); d = "lattice-boxes"; }                                            // touching faces / edges / vertices / copies
    else if (kind == 3) { A = lbox(); B = A; d = "identical-copy"; }
    else if (kind == 4) { A = lbox() + lbox(); B = lbox() - lbox().Translate(vec3(1, 0, 0)); d = "lattice-results"; }
    else if (kind == 5) { A = Manifold::Tetrahedron(); B = Manifold::Tetrahedron().Rotate(0, 0, 90).Translate(vec3(rndIn(r, -0.5, 0.5), 0, 0)); d = "tets"; }
    else if (kind == 6) { std::string x; A = genSolid(r, x); B = Manifold::Cube(vec3(1.0), true); d = "generic-vs-cube:" + x; }
    else if (kind == 7) { A = Manifold::Sphere(1.0, 8); B = Manifold::Sphere(1.0, 8).Translate(vec3(rndIn(r, -1, 1), rndIn(r, -1, 1), 0)); d = "spheres"; }
    else { std::string x, y; A = genSolid(r, x); B = genSolid(r, y); d = "generic:" + x + "/" + y; }
    std::shared_ptr<const Manifold::Impl> pa, pb;
    try { pa = implOf(A); pb = implOf(B); } catch (const std::exception& ex) { hz::emit("k" + std::to_string(i) + " kernel-operands " + d, "", "", false, std::string("exception while building the operands: ") + ex.what()); continue; }
    bool e = r.below(2);
    kernelCase("k" + std::to_string(i) + " kernel " + d + " expandP=" + std::to_string(e), *pa, *pb, e, r, 1400);
  }
}

int main(int argc, char** argv) {
  std::string mode = argc > 1 ? argv[1] : "";
  Rng r(hz::envSeed());
  if (mode == "kern") { int n = argc > 2 ? atoi(argv[2]) : 20; scalarCases(r, 60 + n); kernelPairs(r, n); printf("STATS kernel_queries=%ld kernel_cases=%ld x12_nonzero=%ld\n", kst.queries, kst.cases, kst.nonzero12); return 0; }
  if (mode == "lattice") { int n = argc > 2 ? atoi(argv[2]) : 100;
    for (int i = 0; i < n; i++) { std::vector<ExP> pool; ExP e = genExpr(r, 1 + (int)r.below(6), pool); if (e->k == "b") { i--; continue; } latticeCase("l" + std::to_string(i) + " lattice", e, i % 4 == 0); }
    return 0; }
  if (mode == "pairs") { long K = argc > 2 ? atol(argv[2]) : 0;
    std::vector<ExP> bs; for (int x0 = 0; x0 < 3; x0++) for (int x1 = x0 + 1; x1 <= 3; x1++) for (int y0 = 0; y0 < 3; y0++) for (int y1 = y0 + 1; y1 <= 3; y1++) for (int z0 = 0; z0 < 3; z0++) for (int z1 = z0 + 1; z1 <= 3; z1++) bs.push_back(mkBox(x0, y0, z0, x1, y1, z1));
    static const char* ops[] = {"add", "sub", "int"}; long n = 0, bad = 0;
    auto one = [&](size_t i, size_t j) { for (auto op : ops) { ExP e = mk(op, {bs[i], bs[j]}); n++; Verdict v = check(e, false); if (!v.ok) { bad++; latticeCase("p" + std::to_string(n) + " boxpair", e); } } };
    if (K == 0) { for (size_t i = 0; i < bs.size(); i++) for (size_t j = 0; j < bs.size(); j++) one(i, j); }
    else for (long k = 0; k < K; k++) one(r.below(bs.size()), r.below(bs.size()));
    hz::emit("pairs boxpair-summary evaluated=" + std::to_string(n) + " failed=" + std::to_string(bad) + (K == 0 ? " exhaustive" : " sampled"), "", "", true);
    printf("STATS boxpairs=%ld boxpair_failures=%ld boxpairs_exhaustive=%d\n", n, bad, K == 0 ? 1 : 0); return 0; }
  if (mode == "triples") {   // every program op1(A, op2(B,C)) and op1(op2(B,C), A) over the 27 boxes with corners in [0,2]^3
    std::vector<ExP> bs; for (int x0 = 0; x0 < 2; x0++) for (int x1 = x0 + 1; x1 <= 2; x1++) for (int y0 = 0; y0 < 2; y0++) for (int y1 = y0 + 1; y1 <= 2; y1++) for (int z0 = 0; z0 < 2; z0++) for (int z1 = z0 + 1; z1 <= 2; z1++) bs.push_back(mkBox(x0, y0, z0, x1, y1, z1));
    static const char* ops[] = {"add", "sub", "int"}; long n = 0, bad = 0; long K = argc > 2 ? atol(argv[2]) : 0;
    auto one = [&](size_t a, size_t b, size_t c) { for (auto o1 : ops) for (auto o2 : ops) for (int sw = 0; sw < 2; sw++) { ExP in = mk(o2, {bs[b], bs[c]}); ExP e = sw ? mk(o1, {in, bs[a]}) : mk(o1, {bs[a], in}); n++; Verdict v = check(e, false); if (!v.ok) { bad++; latticeCase("t" + std::to_string(n) + " triple", e); } } };
    if (K == 0) { for (size_t a = 0; a < bs.size(); a++) for (size_t b = 0; b < bs.size(); b++) for (size_t c = 0; c < bs.size(); c++) one(a, b, c); }
    else for (long k = 0; k < K; k++) one(r.below(bs.size()), r.below(bs.size()), r.below(bs.size()));
    hz::emit("triples triple-summary evaluated=" + std::to_string(n) + " failed=" + std::to_string(bad) + (K == 0 ? " exhaustive" : " sampled"), "", "", true);
    printf("STATS triples=%ld triple_failures=%ld triples_exhaustive=%d\n", n, bad, K == 0 ? 1 : 0); return 0; }
  if (mode == "general") { int n = argc > 2 ? atoi(argv[2]) : 20; for (int i = 0; i < n; i++) generalCase("g" + std::to_string(i) + " general", r); for (int i = 0; i < n; i++) planeCase("p" + std::to_string(i) + " plane", r); return 0; }
  if (mode == "bigbatch") {   // c02_bool bigbatch <level>   (0 quick, 1 thorough)  | c02_bool bigbatch N np layout mode
    if (argc > 5) { bigBatchCase("g0 bigbatch", r, atoi(argv[2]), atoi(argv[3]), atoi(argv[4]), atoi(argv[5])); return 0; }
    int level = argc > 2 ? atoi(argv[2]) : 0; int k = 0;
    std::vector<int> Ns = level ? std::vector<int>{150, 998, 999, 1000, 1001, 1100, 2001, 2300} : std::vector<int>{998, 1001, 1100};
    for (int N : Ns) for (int mode = 0; mode < 4; mode++) { if (!level && mode == 3 && N != 1100) continue;
      int layout = (k + mode) % 3, np = 1 + (k % 2); if (mode == 1 && N > 1200 && !level) continue;
      bigBatchCase("g" + std::to_string(k++) + " bigbatch", r, N, np, layout, mode); }
    return 0; }
  if (mode == "replay" && argc > 2) { ExP e = parseAll(argv[2]); Verdict v = check(e, true); if (!v.inWindow) { hz::emit("r0 replay " + std::string(argv[2]), "", "", true, "outside-window"); return 0; }
    hz::emit("r0 replay " + std::string(argv[2]), "", "", v.ok, v.ok ? "" : "MIN " + std::string(argv[2]) + " OPS " + std::to_string(nOps(e)) + " :: " + v.msg); return 0; }
  if (mode == "inspect" && argc > 2) {   // per sub-expression: mesh size, off-lattice vertices, volume vs voxel count (diagnosis of a finding)
    ExP e = parseAll(argv[2]); std::map<const Ex*, Manifold> memo; real(e, memo);
    std::function<void(const ExP&)> go = [&](const ExP& x) { for (auto& c : x->c) go(c); bool w = true; Vox v = voxel(x, w); Manifold m = memo[x.get()]; MeshGL64 g = m.GetMeshGL64(); int off = 0; std::string offs;
      for (size_t i = 0; i < g.vertProperties.size() / g.numProp; i++) { bool o = false; for (int k = 0; k < 3; k++) { double c = g.vertProperties[i * g.numProp + k]; if (c != std::floor(c)) o = true; } if (o) { off++; char b[96]; snprintf(b, sizeof b, " (%.6g,%.6g,%.6g)", g.vertProperties[i * g.numProp], g.vertProperties[i * g.numProp + 1], g.vertProperties[i * g.numProp + 2]); if (off <= 4) offs += b; } }
      printf("NODE %s : verts=%zu tris=%zu offLattice=%d%s genus=%d volume=%.12g voxels=%d\n", str(x).c_str(), (size_t)m.NumVert(), (size_t)m.NumTri(), off, offs.c_str(), m.Genus(), m.Volume(), (int)v.count()); };
    go(e); return 0; }
  if (mode == "minimize" && argc > 2) { ExP e = parseAll(argv[2]); latticeCase("m0 minimize", e); return 0; }
  fprintf(stderr, "usage: c02_bool kern|lattice|pairs|general|bigbatch|replay|minimize ...\n"); return 2;
}
