// C06: several client threads use shared (lazy) Manifolds / CrossSections / ExecutionContexts.
//
// usage: c06_threads <ncases> [mode] [only-case]
//   mode "trace" (default): every case builds, from a seed, a pool of shared objects (3-5 primitive
//   Manifolds, some with a pending transform; 3-7 lazy expressions over them: Booleans of earlier
//   entries, transformed copies sharing impl_, plain copies sharing pNode_; 4-9 CrossSections with
//   pending transforms; one ExecutionContext per thread) and 2-8 thread programs, and runs them
//     (S) serially on an identically rebuilt pool, cancellation disabled     -> reference answers
//     (C) concurrently on std::threads with the verif::Sync hook family recording every lock /
//         unlock / guarded-field access / fetch_add                          -> answers + trace
//   and emits one CASE block:
//     REQ  sync <nthreads> <nevents> (<kind> <t> <a> <b>)*      the trace for the Lean monitors
//     EXP  hb=ok ls=ok ids=ok once=ok events=<nevents>           (what the monitors must say)
//     PROP ok | FAIL ...   serial equivalence (see the comment in main()), reserved ID ranges pairwise
//          disjoint, Progress() of a context evaluated by ONE thread (polled / cancelled by the others)
//          within [0,1] and 1 after an uncancelled evaluation, no hook event from an unknown thread.
//   mode "tsan": only (C), three times per case, without installing the recording hook (its atomic
//     sequence counter would order the threads for ThreadSanitizer); used in a -fsanitize=thread build
//     to search for a failing schedule. Prints "TSANRUN <case>" per case.
//   mode "serialdiff": diagnostic - prints the answers on which two serial orders disagree.
//   Optional 3rd argument: only run the case with that index (replay; the schedule is the OS's).
//
// Trace events (kind t a b): 0 acq t lock mode | 1 rel t lock 0 | 2 rd t var guard+1 | 3 wr t var guard+1
//   | 4 fadd t old n.  acq modes: 0 std::mutex, 1 recursive guard, 2 scoped_lock member, 3 token (thread
//   start / join), 4 cannot be contended (see encodeTrace).  lock = 16*objectId + lockClass, var =
//   16*objectId + field (SyncField of /repo/src/verif_hooks.h); object ids are fresh per lifetime (an
//   `alloc` event renames the address).  Thread 0 is the main thread: it builds the pool, starts and joins
//   the workers, destroys the pool.  Atomic accesses (ctx_, cancel flag, counters) are counted, not sent.
#include <algorithm>
#include <atomic>
#include <cmath>
#include <cstring>
#include <map>
#include <sstream>
#include <thread>
#include <unordered_map>

#include "common.h"
#include "manifold/cross_section.h"
#include "manifold/manifold.h"
#include "verif_hooks.h"

using namespace manifold;
namespace vh = manifold::verif;

// ------------------------------------------------------------------ recorder
struct Rec { uint64_t seq; int kind; uintptr_t obj; int field; uint64_t aux; int tid; };
static std::atomic<uint64_t> gSeq{0};
static std::atomic<bool> gRecording{false};
static std::atomic<uint64_t> gForeign{0};
thread_local std::vector<Rec>* tBuf = nullptr;
thread_local int tTid = -1;
// cancellation injected from the IsCancelled hook (deterministic per thread)
thread_local int tCountdown = 0;
thread_local ExecutionContext* tCancelCtx = nullptr;
static bool gCancelEnabled = false;

static void record(int kind, const void* obj, int field, uint64_t aux) {
  if (!gRecording.load(std::memory_order_relaxed)) return;
  if (!tBuf) { gForeign.fetch_add(1); return; }
  tBuf->push_back({gSeq.fetch_add(1), kind, (uintptr_t)obj, field, aux, tTid});
}
enum { kTokAcq = 100, kTokRel = 101 };

// ------------------------------------------------------------------ hashing
struct Fnv {
  uint64_t h = 1469598103934665603ull;
  void bytes(const void* p, size_t n) { const unsigned char* c = (const unsigned char*)p; for (size_t i = 0; i < n; i++) { h ^= c[i]; h *= 1099511628211ull; } }
  template <typename T> void val(T v) { bytes(&v, sizeof(T)); }
};
static uint64_t bitsOf(double d) { uint64_t u; memcpy(&u, &d, 8); return u; }
// Full export, independent of the values of the process-global mesh IDs: every run hashed on its own
// (triangles in order, each as three position triples), the run hashes sorted.
static uint64_t hashExport(const Manifold& m) {
  MeshGL64 g = m.GetMeshGL64();
  // one hash per triangle: its three corner positions (bit patterns), rotated so that the smallest
  // corner comes first (orientation kept); the triangle hashes are sorted
  std::vector<uint64_t> tris;
  for (size_t t = 0; t < g.NumTri(); t++) {
    uint64_t c[3][3];
    for (int k = 0; k < 3; k++) for (int d = 0; d < 3; d++) c[k][d] = bitsOf(g.vertProperties[g.triVerts[3 * t + k] * g.numProp + d]);
    int first = 0;
    for (int k = 1; k < 3; k++) if (std::lexicographical_compare(c[k], c[k] + 3, c[first], c[first] + 3)) first = k;
    Fnv f;
    for (int k = 0; k < 3; k++) for (int d = 0; d < 3; d++) f.val<uint64_t>(c[(first + k) % 3][d]);
    tris.push_back(f.h);
  }
  std::sort(tris.begin(), tris.end());
  Fnv f;
  f.val<uint64_t>(g.NumTri());
  for (uint64_t h : tris) f.val<uint64_t>(h);
  return f.h;
}
static uint64_t hashPolys(const Polygons& ps) {
  Fnv f; f.val<uint64_t>(ps.size());
  for (auto& p : ps) { f.val<uint64_t>(p.size()); for (auto& v : p) { f.val<uint64_t>(bitsOf(v.x)); f.val<uint64_t>(bitsOf(v.y)); } }
  return f.h;
}

// ------------------------------------------------------------------ object pool
struct Pool {
  size_t nPrim = 0;   // m[0..nPrim) are leaves (possibly with a pending transform), the rest lazy expressions
  std::vector<Manifold> m;
  std::vector<CrossSection> cs;
  std::vector<ExecutionContext> ctx;
};
// Generic position: sizes, offsets and angles are arbitrary doubles, so that no two faces of different
// operands are coplanar (the behaviour of Booleans on coincident faces is the business of C02, not of C06).
static double grid(hz::Rng& r, int lo, int hi) { return lo * 0.25 + (hi - lo) * 0.25 * ((r.next() >> 11) * (1.0 / 9007199254740992.0)); }
static vec3 gvec(hz::Rng& r) { return vec3(grid(r, -4, 4), grid(r, -4, 4), grid(r, -4, 4)); }
static Manifold prim(hz::Rng& r) {
  switch (r.below(4)) {
    case 0: return Manifold::Cube(vec3(1 + grid(r, 0, 6), 1 + grid(r, 0, 6), 1 + grid(r, 0, 6)), r.below(2));
    case 1: return Manifold::Tetrahedron().Scale(vec3(1 + grid(r, 0, 4)));
    case 2: return Manifold::Cylinder(1 + grid(r, 0, 4), 1, 0.5 + grid(r, 0, 2), 4 + 2 * r.below(3));
    default: return Manifold::Cube(vec3(2, 2, 2), true).Rotate(grid(r, 0, 360), grid(r, 0, 100), grid(r, 0, 360));
  }
}
static Manifold combine(const Manifold& a, const Manifold& b, int op) {
  return op == 0 ? a + b : op == 1 ? a - b : (a ^ b);
}
static Pool buildPool(uint64_t seed, int& nLazy) {
  hz::Rng r(seed);
  Pool p;
  const int nPrim = 3 + r.below(3);
  for (int i = 0; i < nPrim; i++) {
    Manifold a = prim(r);
    a = a.Rotate(grid(r, 0, 40), grid(r, 0, 40), grid(r, 0, 40));
    if (r.below(3)) a = a.Translate(gvec(r));  // a leaf with a pending (lazily realised) transform
    p.m.push_back(a);
  }
  p.nPrim = p.m.size();
  nLazy = 0;
  const int nExpr = 3 + r.below(5);
  for (int i = 0; i < nExpr; i++) {
    const size_t n = p.m.size();
    const size_t a = r.below(n), b = r.below(n);
    switch (r.below(5)) {
      case 0: case 1: p.m.push_back(combine(p.m[a], p.m[b].Translate(gvec(r) * 0.5), r.below(3))); break;
      case 2: p.m.push_back(p.m[a].Translate(gvec(r))); break;              // shares impl_ of an op node
      case 3: p.m.push_back(Manifold(p.m[a])); break;                       // copy: same pNode_, own mutex
      default: p.m.push_back(combine(combine(p.m[a], p.m[b].Translate(gvec(r) * 0.5), r.below(3)), p.m[r.below(n)].Rotate(0, 0, 31.5).Translate(gvec(r) * 0.25), r.below(3))); break;
    }
    nLazy++;
  }
  const int nCs = 3 + r.below(3);
  for (int i = 0; i < nCs; i++) {
    CrossSection c = r.below(2) ? CrossSection::Square(vec2(1 + grid(r, 0, 6), 1 + grid(r, 0, 6)), r.below(2))
                                : CrossSection::Circle(1 + grid(r, 0, 4), 4 + 2 * r.below(4));
    if (r.below(4)) c = c.Translate(vec2(grid(r, -4, 4), grid(r, -4, 4)));  // pending transform
    if (r.below(3) == 0) c = c.Scale(vec2(1 + grid(r, 0, 4), 1 + grid(r, 0, 4)));
    p.cs.push_back(c);
  }
  const size_t n0 = p.cs.size();
  for (size_t i = 0; i + 1 < n0 && i < 3; i++) {
    CrossSection c = r.below(2) ? p.cs[i] + p.cs[i + 1] : p.cs[i] - p.cs[i + 1].Translate(vec2(0.25, 0.5));
    p.cs.push_back(r.below(2) ? c.Rotate(90) : c);
  }
  for (int i = 0; i < 8; i++) p.ctx.emplace_back();   // ctx[t]: the context thread t evaluates through
  return p;
}

// ------------------------------------------------------------------ thread programs
enum OpCode { QUERY, EXPORT, COPYQ, ASSIGN, DERIVE, DERIVE_LOCAL, DERIVE_CTX, STATUS_CTX, POLL, CANCEL, RESERVE, DROP, NOEVAL,
              CS_QUERY, CS_COPY, CS_ASSIGN, CS_DERIVE, CS_BATCH, CS_MISC, N_OPCODES };
static const char* opName[] = {"query", "export", "copyq", "assign", "derive", "derive_local", "derive_ctx", "status_ctx", "poll", "cancel",
                               "reserve", "drop", "noeval", "cs_query", "cs_copy", "cs_assign", "cs_derive", "cs_batch", "cs_misc"};
struct Op { int code; int a, b, c, d; vec3 v; };
// status: Manifold::Error of the object looked at (-1: none). `exact`: the value cannot depend on the order in
// which a serial execution forces shared lazy sub-expressions / draws mesh IDs (leaf-only operands, cross-sections,
// counters), so it must equal the serial answer bit for bit. Otherwise `inv` holds invariants of the SOLID that
// every evaluation order must agree on: volume, surface area, bounding box, genus, emptiness (cross-sections built
// from an operand with a pending transform - applied once composed, or after the operand was materialised: the
// rounding differs - : area, bounds, contour count, emptiness).
struct Answer { int status = -1; bool exact = true; std::vector<uint64_t> val; std::vector<double> inv; };
struct ThreadOut { std::vector<Answer> ans; std::vector<std::pair<uint32_t, uint32_t>> ids; std::vector<uint64_t> start; std::string err; };
static std::atomic<uint64_t> gTicket{0};

static std::vector<Op> genProgram(hz::Rng& r, const Pool& p, bool cancelCase, bool csHeavy, int len, int nThreads) {
  std::vector<Op> prog;
  for (int i = 0; i < len; i++) {
    Op o{};
    int roll = r.below(100);
    if (csHeavy) {
      o.code = roll < 25 ? CS_QUERY : roll < 40 ? CS_COPY : roll < 50 ? CS_ASSIGN : roll < 70 ? CS_DERIVE : roll < 80 ? CS_BATCH : roll < 92 ? CS_MISC : RESERVE;
    } else {
      o.code = roll < 14 ? QUERY : roll < 24 ? EXPORT : roll < 32 ? COPYQ : roll < 40 ? ASSIGN : roll < 54 ? DERIVE : roll < 60 ? DERIVE_LOCAL
             : roll < 70 ? DERIVE_CTX : roll < 78 ? STATUS_CTX : roll < 82 ? POLL : roll < 88 ? RESERVE : roll < 91 ? DROP : roll < 95 ? NOEVAL
             : roll < 98 ? CS_DERIVE : CS_QUERY;
      if (cancelCase && r.below(8) == 0) o.code = CANCEL;
    }
    const bool isCs = o.code >= CS_QUERY;
    const size_t n = isCs ? p.cs.size() : p.m.size();
    o.a = r.below(n); o.b = r.below(n); o.c = r.below(8); o.d = r.below(nThreads);
    o.v = gvec(r) * 0.5;
    // a third of the DERIVEs: the union of a pool LEAF, used as it is (pending transform not yet realised, frame transform = identity),
    // with a far-away operand: bounding boxes are disjoint, so the union takes the CsgLeafNode::Compose path on the shared leaf object
    // while other threads make their first queries on that very leaf
    if (o.code == DERIVE && r.below(3) == 0) { o.a = r.below(p.nPrim); o.c = 0; o.v = vec3(40, 40, 40) + gvec(r); }
    if (o.code == RESERVE) o.c = r.below(6);
    if (o.code == DERIVE_CTX || o.code == STATUS_CTX) o.c = cancelCase ? (int)r.below(12) : 0;   // countdown to Cancel() (0: never)
    prog.push_back(o);
  }
  // all threads leave the start barrier together: open with a burst of ReserveIDs so that the fetch_adds collide
  Op storm{}; storm.code = RESERVE; storm.b = -80; storm.c = (int)r.below(6);
  prog.insert(prog.begin(), storm);
  return prog;
}

static void solidInv(Answer& a, const Manifold& m) {
  a.exact = false;
  a.inv.push_back(m.Volume()); a.inv.push_back(m.SurfaceArea());
  Box b = m.BoundingBox();
  for (int k = 0; k < 3; k++) { a.inv.push_back(b.min[k]); a.inv.push_back(b.max[k]); }
  a.inv.push_back(m.Genus()); a.inv.push_back(m.IsEmpty());
}
static void lookM(Answer& a, const Manifold& m, int q) {
  switch (q % 8) {
    case 0: a.val.push_back(m.NumVert()); break;
    case 1: a.val.push_back(m.NumTri()); break;
    case 2: a.val.push_back(m.NumEdge()); break;
    case 3: a.val.push_back(m.IsEmpty()); break;
    case 4: a.val.push_back((uint64_t)(int64_t)m.Genus()); break;
    case 5: { Box b = m.BoundingBox(); for (int k = 0; k < 3; k++) { a.val.push_back(bitsOf(b.min[k])); a.val.push_back(bitsOf(b.max[k])); } break; }
    case 6: a.val.push_back(bitsOf(m.GetTolerance())); a.val.push_back(bitsOf(m.GetEpsilon())); break;
    default: a.val.push_back(m.NumPropVert()); a.val.push_back(m.NumProp()); break;
  }
  a.status = (int)m.Status();
}
static void csInv(Answer& a, const CrossSection& c) {
  a.exact = false;
  Rect b = c.Bounds();
  a.inv = {0.0, c.Area(), b.min.x, b.max.x, b.min.y, b.max.y, 0.0, 0.0, (double)c.NumContour(), (double)c.IsEmpty()};
}
static void lookCs(Answer& a, const CrossSection& c, int q) {
  switch (q % 7) {
    case 0: a.val.push_back(c.NumVert()); break;
    case 1: a.val.push_back(c.NumContour()); break;
    case 2: a.val.push_back(bitsOf(c.Area())); break;
    case 3: a.val.push_back(bitsOf(c.GetTolerance())); break;
    case 4: { Rect b = c.Bounds(); a.val.push_back(bitsOf(b.min.x)); a.val.push_back(bitsOf(b.min.y)); a.val.push_back(bitsOf(b.max.x)); a.val.push_back(bitsOf(b.max.y)); break; }
    case 5: a.val.push_back(c.IsEmpty()); break;
    default: a.val.push_back(hashPolys(c.ToPolygons())); break;
  }
  a.status = -1;
}

struct Runner {
  Manifold local;           // thread-private, may hold expressions over shared sub-expressions
  Manifold pending;         // built, never evaluated, dropped
  CrossSection localCs;
  bool localExact = true;   // `local` was built from leaves only
};
// One operation of thread t (its own evaluation context is p.ctx[t]).
static void stepOp(const Op& o, int t, Pool& p, Runner& R, ThreadOut& out) {
  Answer a;
  Manifold& local = R.local; Manifold& pending = R.pending; CrossSection& localCs = R.localCs;
  const bool leafA = (size_t)o.a < p.nPrim, leafB = (size_t)o.b < p.nPrim;
  try {
    switch (o.code) {
      case QUERY: lookM(a, p.m[o.a], o.c); if (!leafA) solidInv(a, p.m[o.a]); break;
      case EXPORT: a.val.push_back(hashExport(p.m[o.a])); a.status = (int)p.m[o.a].Status(); if (!leafA) solidInv(a, p.m[o.a]); break;
      case COPYQ: { Manifold c = p.m[o.a]; lookM(a, c, o.c); if (!leafA) solidInv(a, c); break; }
      case ASSIGN: local = p.m[o.a]; R.localExact = leafA; lookM(a, local, o.c); if (!leafA) solidInv(a, local); break;
      case DERIVE: local = combine(p.m[o.a], p.m[o.b].Translate(o.v), o.c % 3); R.localExact = false; lookM(a, local, 1); a.val.push_back(hashExport(local)); solidInv(a, local); break;
      case DERIVE_LOCAL: local = combine(local, p.m[o.a].Translate(o.v * 0.7), o.c % 3); R.localExact = false; lookM(a, local, 0); a.val.push_back(hashExport(local)); solidInv(a, local); break;
      case DERIVE_CTX: {
        tCountdown = gCancelEnabled ? o.c : 0; tCancelCtx = &p.ctx[t];
        Manifold r = combine(p.m[o.a], p.m[o.b].Translate(o.v), o.b % 3).WithContext(p.ctx[t]);
        a.status = (int)r.Status();
        tCountdown = 0;
        a.val.push_back(r.NumTri()); a.val.push_back(hashExport(r)); solidInv(a, r);
        const double pr = p.ctx[t].Progress();
        if (a.status != (int)Manifold::Error::Cancelled && pr != 1.0) out.err += " progress-after-uncancelled-evaluation-not-1";
        break; }
      case STATUS_CTX: {
        tCountdown = gCancelEnabled ? o.c : 0; tCancelCtx = &p.ctx[t];
        (void)p.m[o.a].WithContext(p.ctx[t]).Status();
        tCountdown = 0;
        a.val.push_back(p.m[o.a].NumTri());
        a.status = (int)p.m[o.a].Status();
        if (!leafA) solidInv(a, p.m[o.a]);
        break; }
      case POLL: {
        // o.d: any thread's context; Progress() of a context that a single thread evaluates through stays in [0,1]
        const double pr = p.ctx[o.d].Progress(); (void)p.ctx[o.d].Cancelled();
        if (!(pr >= 0.0 && pr <= 1.0)) out.err += " progress-out-of-range";
        break; }
      case CANCEL: if (gCancelEnabled) p.ctx[o.d].Cancel(); break;
      case RESERVE: {   // b < 0: the opening storm, a burst of -b reservations
        const int burst = o.code == RESERVE && o.b < 0 ? -o.b : 1;
        for (int k = 0; k < burst; k++) { const uint32_t n = (o.c + k) % 6; const uint32_t first = Manifold::ReserveIDs(n); out.ids.push_back({first, n}); }
        break; }
      case DROP: local = Manifold(); pending = Manifold(); R.localExact = true; break;
      case NOEVAL: pending = combine(combine(p.m[o.a], p.m[o.b].Translate(o.v), o.c % 3), local, (o.c / 3) % 3); break;
      case CS_QUERY: lookCs(a, p.cs[o.a], o.c); break;
      case CS_COPY: { CrossSection c = p.cs[o.a]; lookCs(a, c, o.c); break; }
      case CS_ASSIGN: localCs = p.cs[o.a]; lookCs(a, localCs, o.c); break;
      case CS_DERIVE: {
        CrossSection tr = p.cs[o.b].Translate(vec2(o.v.x, o.v.y));
        localCs = (o.c % 3 == 0) ? p.cs[o.a] + tr : (o.c % 3 == 1) ? p.cs[o.a] - tr : (p.cs[o.a] ^ tr);
        lookCs(a, localCs, 6); lookCs(a, localCs, 3); csInv(a, localCs); break; }
      case CS_BATCH: {
        std::vector<CrossSection> v{p.cs[o.a], p.cs[o.b], localCs};
        localCs = (o.c % 2) ? CrossSection::BatchBoolean(v, (OpType)(o.c % 3)) : CrossSection::Hull(v);
        lookCs(a, localCs, 6); lookCs(a, localCs, 3); csInv(a, localCs); break; }
      case CS_MISC: {
        switch (o.c % 4) {
          case 0: localCs = p.cs[o.a].Offset(0.25, CrossSection::JoinType::Miter); break;
          case 1: localCs = p.cs[o.a].Simplify(0); break;
          case 2: { auto d = p.cs[o.a].Decompose(); localCs = d.empty() ? CrossSection() : d[0]; a.val.push_back(d.size()); break; }
          default: localCs = p.cs[o.a].SetTolerance(0.125); break;
        }
        lookCs(a, localCs, 6); lookCs(a, localCs, 3); break; }
    }
    (void)leafB;
  } catch (const std::exception& e) {
    out.err += std::string(" exception:") + e.what();
  }
  out.ans.push_back(a);
}
static void runProgram(const std::vector<Op>& prog, int t, Pool& p, ThreadOut& out, uint64_t yieldSeed) {
  hz::Rng yr(yieldSeed);
  Runner R;
  for (const Op& o : prog) {
    if (yieldSeed > 1 && yr.below(3) == 0) std::this_thread::yield();
    out.start.push_back(gTicket.fetch_add(1, std::memory_order_relaxed));
    stepOp(o, t, p, R, out);
  }
}

// ------------------------------------------------------------------ one case
struct CaseSpec { uint64_t poolSeed; int nThreads; bool cancelCase; bool csHeavy; std::vector<std::vector<Op>> progs; std::string kind; };

// A serial execution: the operations of all threads one at a time, in the given order of (thread, index)
// pairs (program order kept inside every thread), on a freshly rebuilt pool, cancellation disabled.
typedef std::vector<std::pair<int, int>> OpOrder;
static OpOrder threadMajor(const CaseSpec& cs, bool reverse) {
  OpOrder o;
  for (int k = 0; k < cs.nThreads; k++) { const int t = reverse ? cs.nThreads - 1 - k : k; for (size_t i = 0; i < cs.progs[t].size(); i++) o.push_back({t, (int)i}); }
  return o;
}
static std::vector<ThreadOut> runSerial(const CaseSpec& cs, const OpOrder& order) {
  int nl; Pool p = buildPool(cs.poolSeed, nl);
  gCancelEnabled = false;
  std::vector<ThreadOut> outs(cs.nThreads);
  std::vector<Runner> R(cs.nThreads);
  for (auto& ti : order) stepOp(cs.progs[ti.first][ti.second], ti.first, p, R[ti.first], outs[ti.first]);
  return outs;
}
static std::vector<ThreadOut> runConcurrent(const CaseSpec& cs, bool recordTrace, std::vector<Rec>& trace, uint64_t yieldSeed) {
  std::vector<std::vector<Rec>> bufs(cs.nThreads + 1);
  gSeq = 0; gForeign = 0;
  tBuf = &bufs[0]; tTid = 0;
  if (recordTrace) gRecording = true;
  std::vector<ThreadOut> outs(cs.nThreads);
  {
    int nl; Pool p = buildPool(cs.poolSeed, nl);
    gCancelEnabled = cs.cancelCase;
    std::atomic<int> ready{0};
    std::atomic<bool> go{false};
    record(kTokRel, (const void*)(uintptr_t)1, 0, 0);   // start token
    std::vector<std::thread> ths;
    for (int t = 0; t < cs.nThreads; t++) {
      ths.emplace_back([&, t]() {
        tBuf = &bufs[t + 1]; tTid = t + 1;
        bufs[t + 1].reserve(1 << 14);
        ready.fetch_add(1);
        while (!go.load()) {}
        record(kTokAcq, (const void*)(uintptr_t)1, 0, 0);
        runProgram(cs.progs[t], t, p, outs[t], yieldSeed ? yieldSeed + 7919 * t : 1);
        record(kTokRel, (const void*)(uintptr_t)(2 + t), 0, 0);
        tBuf = nullptr;
      });
    }
    while (ready.load() < cs.nThreads) {}
    go = true;
    for (int t = 0; t < cs.nThreads; t++) { ths[t].join(); record(kTokAcq, (const void*)(uintptr_t)(2 + t), 0, 0); }
    // the pool is destroyed here by the main thread, after the joins (recorded too)
  }
  gRecording = false;
  tBuf = nullptr;
  trace.clear();
  for (auto& b : bufs) trace.insert(trace.end(), b.begin(), b.end());
  std::sort(trace.begin(), trace.end(), [](const Rec& a, const Rec& b) { return a.seq < b.seq; });
  return outs;
}

static int lockClassOfField(int f) {
  switch (f) {
    case vh::kFieldPNode: return vh::kFieldPNode;
    case vh::kFieldLeafImpl: case vh::kFieldLeafXform: return vh::kFieldLeafImpl;
    case vh::kFieldOpImpl: case vh::kFieldOpCache: return vh::kFieldOpImpl;
    case vh::kFieldCsPaths: case vh::kFieldCsXform: case vh::kFieldCsTol: return vh::kFieldCsPaths;
    default: return 0;
  }
}

// Rename addresses (fresh id per lifetime) and print the Lean request.
static std::string encodeTrace(const std::vector<Rec>& trace, int nThreads, size_t& nEvents, std::map<std::string, uint64_t>& stats) {
  std::unordered_map<uintptr_t, uint64_t> cur;
  uint64_t next = 1000;   // ids below 1000: tokens
  auto idOf = [&](uintptr_t a) { auto it = cur.find(a); if (it != cur.end()) return it->second; return cur[a] = next++; };
  std::unordered_map<uint64_t, int> lockCls;   // object id -> class seen at its last acquisition
  // A lock that the acquiring thread itself created inside its current outermost critical section and
  // that no other thread has touched (the mutex of a local temporary, e.g. `transformed` in
  // CrossSection::Transform) cannot be contended: mode 4, exempt from the rank rule.
  struct LockInfo { int allocTid = -1; uint64_t allocAt = 0; bool foreign = false; };
  std::unordered_map<uint64_t, LockInfo> linfo;
  std::vector<int> depth(nThreads + 1, 0);
  std::vector<uint64_t> owned(nThreads + 1, 0);
  std::vector<uint64_t> outerAt(nThreads + 1, 0);
  std::ostringstream os;
  nEvents = 0;
  uint64_t pos = 0;
  const bool raw = getenv("C06_RAW") != nullptr;
  for (const Rec& r : trace) {
    pos++;
    if (raw) fprintf(stderr, "RAW ev=%zu seq=%llu t=%d kind=%d obj=%llx field=%d aux=%llx\n", nEvents, (unsigned long long)r.seq, r.tid, r.kind, (unsigned long long)r.obj, r.field, (unsigned long long)r.aux);
    switch (r.kind) {
      case vh::kSyncAlloc: { cur[r.obj] = next++; LockInfo li; li.allocTid = r.tid; li.allocAt = pos; linfo[cur[r.obj]] = li; stats["alloc"]++; break; }
      case vh::kSyncLock: case vh::kSyncLock2: {
        const uint64_t id = idOf(r.obj); lockCls[id] = r.field;
        int mode = r.kind == vh::kSyncLock2 ? 2 : (r.field == vh::kFieldOpImpl ? 1 : 0);
        LockInfo& li = linfo[id];
        if (li.allocTid != r.tid) li.foreign = true;
        if (mode == 0 && depth[r.tid] > 0 && !li.foreign && li.allocTid == r.tid && li.allocAt > outerAt[r.tid]) mode = 4;
        if (mode == 1 && owned[r.tid] == id) { mode = 4; stats["guard_owned"]++; }   // ~CsgOpNode: sole owner of impl_ and its mutex
        owned[r.tid] = 0;
        if (depth[r.tid]++ == 0) outerAt[r.tid] = pos;
        os << " 0 " << r.tid << ' ' << (id * 16 + r.field) << ' ' << mode; nEvents++;
        stats[mode == 2 ? "lock2" : mode == 1 ? "guard" : mode == 4 ? "lock_private" : "lock"]++; break; }
      case vh::kSyncOwned: owned[r.tid] = idOf(r.obj); break;
      case vh::kSyncUnlock: { const uint64_t id = idOf(r.obj); if (depth[r.tid] > 0) depth[r.tid]--; os << " 1 " << r.tid << ' ' << (id * 16 + lockCls[id]) << " 0"; nEvents++; break; }
      case vh::kSyncRead: case vh::kSyncWrite: {
        const uint64_t x = idOf(r.obj) * 16 + r.field;
        const uint64_t g = r.aux ? (idOf((uintptr_t)r.aux) * 16 + lockClassOfField(r.field) + 1) : 0;
        os << (r.kind == vh::kSyncRead ? " 2 " : " 3 ") << r.tid << ' ' << x << ' ' << g; nEvents++;
        stats[std::string(r.kind == vh::kSyncRead ? "rd" : "wr") + (g ? "G" : "U") + std::to_string(r.field)]++; break; }
      case vh::kSyncFetchAdd: os << " 4 " << r.tid << ' ' << (r.aux >> 32) << ' ' << (r.aux & 0xffffffffu); nEvents++; stats["fadd"]++; break;
      case kTokRel: os << " 1 " << r.tid << ' ' << (r.obj * 16) << " 0"; nEvents++; break;
      case kTokAcq: os << " 0 " << r.tid << ' ' << (r.obj * 16) << " 3"; nEvents++; break;
      default: stats["atomic"]++; break;   // aload / astore / arelaxed: atomics never race and are given no ordering power
    }
  }
  std::ostringstream head;
  head << "sync " << (nThreads + 1) << ' ' << nEvents << os.str();
  return head.str();
}

int main(int argc, char** argv) {
  const int nCases = argc > 1 ? atoi(argv[1]) : 10;
  const std::string mode = argc > 2 ? argv[2] : "trace";
  const int only = argc > 3 ? atoi(argv[3]) : -1;
  const bool tsan = mode == "tsan";
  if (!tsan) vh::hooks().onSync = record;
  vh::hooks().onCancelCheck = [](void*) {
    if (tCountdown > 0 && --tCountdown == 0 && tCancelCtx) tCancelCtx->Cancel();
  };
  hz::Rng r(hz::envSeed());
  std::map<std::string, uint64_t> stats;
  std::map<std::string, uint64_t> opHist;
  uint64_t totalEvents = 0, lazyShared = 0, cancelledAnswers = 0, answers = 0, orderSensitive = 0, serialRuns = 0, exactAnswers = 0, sameSolidOnly = 0;
  for (int ci = 0; ci < nCases; ci++) {
    CaseSpec cs;
    cs.poolSeed = r.next() | 1;
    const int roll = r.below(10);
    cs.cancelCase = roll >= 7;
    cs.csHeavy = roll == 5 || roll == 6;
    cs.nThreads = 2 + r.below(7);
    cs.kind = cs.cancelCase ? "cancel" : cs.csHeavy ? "cross" : "plain";
    {
      int nl; Pool probe = buildPool(cs.poolSeed, nl); lazyShared += nl;
      const int len = hz::thorough() ? 6 + r.below(12) : 4 + r.below(8);
      for (int t = 0; t < cs.nThreads; t++) cs.progs.push_back(genProgram(r, probe, cs.cancelCase, cs.csHeavy, len, cs.nThreads));
    }
    const uint64_t yieldSeed = r.next() | 1;
    if (only >= 0 && ci != only) continue;
    for (auto& pg : cs.progs) for (auto& o : pg) opHist[opName[o.code]]++;
    std::ostringstream tag;
    tag << "c" << ci << ' ' << cs.kind << " threads=" << cs.nThreads << " pool=" << cs.poolSeed;
    if (tsan) {
      std::vector<Rec> trace;
      for (int rep = 0; rep < 3; rep++) runConcurrent(cs, false, trace, yieldSeed + rep);
      printf("TSANRUN %s\n", tag.str().c_str());
      fflush(stdout);
      continue;
    }
    std::vector<ThreadOut> ref = runSerial(cs, threadMajor(cs, false));
    if (mode == "serialdiff") {
      std::vector<ThreadOut> rev = runSerial(cs, threadMajor(cs, true));
      for (int t = 0; t < cs.nThreads; t++) for (size_t i = 0; i < ref[t].ans.size(); i++)
        if (ref[t].ans[i].val != rev[t].ans[i].val || ref[t].ans[i].status != rev[t].ans[i].status)
          printf("SERIALDIFF %s thread %d op %zu %s: [%s] vs [%s]\n", tag.str().c_str(), t, i, opName[cs.progs[t][i].code], hz::join(ref[t].ans[i].val).c_str(), hz::join(rev[t].ans[i].val).c_str());
      continue;
    }
    std::vector<Rec> trace;
    std::vector<ThreadOut> con = runConcurrent(cs, true, trace, yieldSeed);
    // ---- property oracle
    std::string fail;
    std::vector<std::pair<uint32_t, uint32_t>> ids;
    // Serial executions: 0 = thread programs one after the other; 1 = in reverse thread order; 2 = the
    // operations in the order in which the concurrent run STARTED them. An `exact` answer must equal the
    // forward serial answer bit for bit. Any other answer (its mesh depends on the order in which a serial
    // execution forces the shared sub-expressions and draws mesh IDs) must equal the answer of one of the
    // three serial executions, or describe the same solid as the forward one: same status, emptiness and
    // genus, volume / area / bounding box equal to 1e-9 relative.
    std::map<int, std::vector<ThreadOut>> serial;
    serial[0] = ref;
    auto serialRun = [&](int kind) -> const std::vector<ThreadOut>& {
      auto it = serial.find(kind);
      if (it == serial.end()) {
        OpOrder ord;
        if (kind == 1) ord = threadMajor(cs, true);
        else {
          std::vector<std::pair<uint64_t, std::pair<int, int>>> byStart;
          for (int t = 0; t < cs.nThreads; t++) for (size_t i = 0; i < con[t].start.size(); i++) byStart.push_back({con[t].start[i], {t, (int)i}});
          std::sort(byStart.begin(), byStart.end());
          for (auto& e : byStart) ord.push_back(e.second);
        }
        it = serial.emplace(kind, runSerial(cs, ord)).first; serialRuns++;
      }
      return it->second;
    };
    auto sameSolid = [](const Answer& a, const Answer& b) {
      if (a.status != b.status || a.inv.size() != b.inv.size() || a.inv.empty()) return false;
      double scale = 1.0;
      for (size_t k = 2; k < 8; k++) scale = std::max(scale, std::fabs(b.inv[k]));
      for (size_t k = 0; k < a.inv.size(); k++) {
        const double tol = k == 0 ? 1e-9 * scale * scale * scale : k == 1 ? 1e-9 * scale * scale : k < 8 ? 1e-9 * scale : 0.0;
        const bool bothInf = std::isinf(a.inv[k]) && a.inv[k] == b.inv[k];
        if (!bothInf && !(std::fabs(a.inv[k] - b.inv[k]) <= tol)) return false;
      }
      return true;
    };
    for (int t = 0; t < cs.nThreads && fail.empty(); t++) {
      if (!con[t].err.empty()) fail = "thread " + std::to_string(t) + con[t].err;
      else if (!ref[t].err.empty()) fail = "serial run: thread " + std::to_string(t) + ref[t].err;
      else if (con[t].ans.size() != ref[t].ans.size()) fail = "thread " + std::to_string(t) + " answered " + std::to_string(con[t].ans.size()) + " operations, serial " + std::to_string(ref[t].ans.size());
      for (size_t i = 0; i < con[t].ans.size() && fail.empty(); i++) {
        const Answer& a = con[t].ans[i];
        const Answer& b = ref[t].ans[i];
        answers++;
        if (cs.cancelCase && a.status == (int)Manifold::Error::Cancelled) { cancelledAnswers++; continue; }
        if (a.status == b.status && a.val == b.val) { if (a.exact) exactAnswers++; continue; }
        bool matched = false;
        if (!a.exact) {
          for (int kind : {1, 2}) {
            const Answer& c = serialRun(kind)[t].ans[i];
            if (a.status == c.status && a.val == c.val) { matched = true; orderSensitive++; break; }
          }
          if (!matched && sameSolid(a, b)) { matched = true; sameSolidOnly++; }
        }
        if (matched) continue;
        std::ostringstream m;
        m << "thread " << t << " op " << i << " (" << opName[cs.progs[t][i].code] << " a=" << cs.progs[t][i].a << " b=" << cs.progs[t][i].b << " c=" << cs.progs[t][i].c
          << (a.exact ? ", order-independent" : "") << ") answered status " << a.status << " [" << hz::join(a.val) << "]";
        if (!a.exact) { m << " solid("; for (double d : a.inv) m << d << ' '; m << ")"; }
        m << "; the serial execution gives status " << b.status << " [" << hz::join(b.val) << "]";
        if (!a.exact) { m << " solid("; for (double d : b.inv) m << d << ' '; m << ")"; }
        fail = m.str();
      }
      ids.insert(ids.end(), con[t].ids.begin(), con[t].ids.end());
    }
    std::sort(ids.begin(), ids.end());
    for (size_t i = 0; i + 1 < ids.size() && fail.empty(); i++) {
      if (ids[i].second == 0) continue;
      for (size_t j = i + 1; j < ids.size(); j++) {
        if (ids[j].second == 0) continue;
        if ((uint64_t)ids[i].first + ids[i].second > ids[j].first) fail = "ReserveIDs ranges overlap: [" + std::to_string(ids[i].first) + "+" + std::to_string(ids[i].second) + ") and [" + std::to_string(ids[j].first) + "+" + std::to_string(ids[j].second) + ")";
        break;
      }
    }
    if (fail.empty() && gForeign.load()) fail = "tie broken: " + std::to_string(gForeign.load()) + " hook events from threads the harness did not start";
    size_t nEvents = 0;
    const std::string req = encodeTrace(trace, cs.nThreads, nEvents, stats);
    totalEvents += nEvents;
    hz::emit(tag.str(), req, "hb=ok ls=ok ids=ok once=ok events=" + std::to_string(nEvents), fail.empty(), fail);
  }
  printf("STATS cases=%d events=%llu answers=%llu exact_class_equal=%llu cancelled_answers=%llu matched_other_serial_order=%llu same_solid_only=%llu extra_serial_runs=%llu lazy_shared=%llu", nCases, (unsigned long long)totalEvents,
         (unsigned long long)answers, (unsigned long long)exactAnswers, (unsigned long long)cancelledAnswers, (unsigned long long)orderSensitive, (unsigned long long)sameSolidOnly, (unsigned long long)serialRuns, (unsigned long long)lazyShared);
  for (auto& kv : stats) printf(" ev_%s=%llu", kv.first.c_str(), (unsigned long long)kv.second);
  for (auto& kv : opHist) printf(" op_%s=%llu", kv.first.c_str(), (unsigned long long)kv.second);
  printf("\n");
  return 0;
}
