// C14 correspondence harness: the real Collider (src/collider.h, private members opened)
// versus the Lean model on integer-lattice boxes; every query is also compared with the
// brute-force overlap scan (the property itself).  Compiled against virtual TBB so that the
// parallel construction paths (n > 1e4) run their loops in seeded orders.
#include "tbb/vtbb_core.h"
#define private public
#include "collider.h"
#undef private
#include <sstream>
#include <limits>
#include "common.h"
using namespace manifold;
using hz::Rng;

static void pb(std::ostringstream& o, const Box& b) {
  o << " " << (long)b.min.x << " " << (long)b.min.y << " " << (long)b.min.z << " " << (long)b.max.x << " " << (long)b.max.y << " " << (long)b.max.z;
}
static Box rbox(Rng& r, int R, int off = 0) {
  vec3 p((int)r.below(R) - off, (int)r.below(R) - off, (int)r.below(R) - off), q((int)r.below(R) - off, (int)r.below(R) - off, (int)r.below(R) - off);
  return Box(p, q);
}

struct Case { std::vector<uint32_t> codes; std::vector<Box> bb; };

static void runCase(const std::string& tag, Rng& r, const Case& cs, int mode, int R) {
  const int n = (int)cs.codes.size();
  Vec<Box> vb(cs.bb); Vec<uint32_t> vm(cs.codes);
  Collider col(vb.cview(), vm.cview());
  std::ostringstream in, out; std::string propMsg; bool ok = true;
  auto codes = [&](const char* op) { in << "collider " << op << " " << n; for (auto c : cs.codes) in << " " << c; };
  if (mode == 0) {
    codes("tree");
    bool f = true;
    for (auto& p : col.internalChildren_) { out << (f ? "" : " ") << p.first << " " << p.second; f = false; }
    out << " ;"; for (int p : col.nodeParent_) out << " " << p;
  } else if (mode == 1) {
    codes("boxes"); in << " ;"; for (auto& b : cs.bb) pb(in, b);
    bool f = true;
    for (int k = 0; k < n - 1; k++) { Box b = col.nodeBBox_[2 * k + 1]; std::ostringstream t; pb(t, b); out << (f ? t.str().substr(1) : t.str()); f = false; }
  } else {
    // 2: box query, 3: point query, 4: transform then box query, 5: update then box query
    const bool self = r.below(2); const bool pt = mode == 3;
    int nq = self ? n : 1 + (int)r.below(6);
    const char* op = mode == 2 ? "query" : mode == 3 ? "pquery" : mode == 4 ? "tquery" : "uquery";
    codes(op); in << " ;"; for (auto& b : cs.bb) pb(in, b); in << " ;";
    std::vector<Box> cur = cs.bb;
    if (mode == 4) {
      int perm[3] = {0, 1, 2}; for (int i = 3; i > 1; --i) std::swap(perm[i - 1], perm[r.below(i)]);
      mat3x4 m(0.0); long M[3][4] = {{0}};
      for (int row = 0; row < 3; row++) { int sc = (int)r.below(5) - 2; if (sc == 0) sc = 3; M[row][perm[row]] = sc; M[row][3] = (int)r.below(11) - 5; }
      for (int row = 0; row < 3; row++) for (int c = 0; c < 4; c++) { m[c][row] = M[row][c]; in << " " << M[row][c]; }
      col.Transform(m); for (auto& b : cur) b = b.Transform(m);
      in << " ;";
    } else if (mode == 5) {
      for (auto& b : cur) { b = rbox(r, R); pb(in, b); }
      Vec<Box> nb(cur); col.UpdateBoxes(nb.cview());
      in << " ;";
    }
    in << " " << (self ? 1 : 0) << " ;";
    std::vector<std::vector<int>> res(nq);
    auto rec = [&](int q, int l) { res[q].push_back(l); };
    auto rc = MakeSimpleRecorder(rec);
    if (pt) {
      Vec<vec3> qs;
      for (int i = 0; i < nq; i++) { vec3 p((int)r.below(R), (int)r.below(R), (int)r.below(R)); if (self) p = cur[i].min; qs.push_back(p); in << " " << (long)p.x << " " << (long)p.y << " " << (long)p.z; }
      if (self) col.Collisions<true, vec3>(rc, qs.cview(), false); else col.Collisions<false, vec3>(rc, qs.cview(), false);
      for (int i = 0; i < nq; i++) { std::vector<int> br; for (int l = 0; l < n; l++) if (cur[l].DoesOverlap(qs[i]) && (!self || l != i)) br.push_back(l);
        auto g = res[i]; std::sort(g.begin(), g.end()); if (g != br) { ok = false; propMsg = "point query " + std::to_string(i) + " != brute-force overlap scan"; } }
    } else {
      Vec<Box> qs;
      for (int i = 0; i < nq; i++) { Box b = rbox(r, 3 * R, R); if (self) b = cur[i]; qs.push_back(b); pb(in, b); }
      if (self) col.Collisions<true, Box>(rc, qs.cview(), false); else col.Collisions<false, Box>(rc, qs.cview(), false);
      for (int i = 0; i < nq; i++) { std::vector<int> br; for (int l = 0; l < n; l++) if (cur[l].DoesOverlap(qs[i]) && (!self || l != i)) br.push_back(l);
        auto g = res[i]; std::sort(g.begin(), g.end()); if (g != br) { ok = false; propMsg = "box query " + std::to_string(i) + " != brute-force overlap scan (" + op + ")"; } }
    }
    for (int i = 0; i < nq; i++) { if (i) out << " ; "; out << res[i].size(); for (int l : res[i]) out << " " << l; }
  }
  hz::emit(tag, in.str(), out.str(), ok, propMsg);
}

// Query boxes with infinite coordinates (half-spaces, slabs, the padded boxes MinGap builds for an
// infinite search length) are outside the Int-coordinate model; they are checked against the
// brute-force closed-interval scan only.
static void runUnbounded(const std::string& tag, Rng& r, const Case& cs) {
  const int n = (int)cs.codes.size(); const double inf = std::numeric_limits<double>::infinity();
  Vec<Box> vb(cs.bb); Vec<uint32_t> vm(cs.codes); Collider col(vb.cview(), vm.cview());
  Vec<Box> qs; const int nq = 6;
  for (int i = 0; i < nq; i++) { Box b; b.min = vec3(-inf); b.max = vec3(inf);
    for (int k = 0; k < 3; k++) { int c = (int)r.below(4); double v = (double)r.below(20); if (c == 0) b.min[k] = v; else if (c == 1) b.max[k] = v; else if (c == 2) { b.min[k] = v; b.max[k] = v + r.below(5); } }
    qs.push_back(b); }
  std::vector<std::vector<int>> res(nq); auto rec = [&](int q, int l) { res[q].push_back(l); }; auto rc = MakeSimpleRecorder(rec);
  col.Collisions<false, Box>(rc, qs.cview(), false);
  bool ok = true; std::string msg;
  for (int i = 0; i < nq; i++) { std::vector<int> br; for (int l = 0; l < n; l++) if (cs.bb[l].DoesOverlap(qs[i])) br.push_back(l); auto g = res[i]; std::sort(g.begin(), g.end());
    if (g != br) { ok = false; msg = "unbounded query box " + std::to_string(i) + " reports " + std::to_string(g.size()) + " leaves, brute force finds " + std::to_string(br.size()); } }
  hz::emit(tag, "", "", ok, msg);
}

int main(int argc, char** argv) {
  uint64_t seed = hz::envSeed(); Rng r(seed);
  int T = argc > 1 ? atoi(argv[1]) : 400;
  bool exhaustive = argc > 2 && atoi(argv[2]);
  for (int t = 0; t < T; t++) {
    tbb::vt::seed(seed * 7919 + t);
    int n = 2 + (int)r.below(t % 6 == 0 ? 600 : 12);
    if (t % 97 == 5) n = 10002 + (int)r.below(3000);   // parallel construction paths
    int kinds = (int)r.below(5);
    Case cs; cs.codes.resize(n); cs.bb.resize(n);
    for (auto& c : cs.codes) c = kinds == 0 ? r.below(3) : kinds == 1 ? r.below(50) : kinds == 2 ? (uint32_t)(r.next() & 0x3fffffff) : kinds == 3 ? 7 : (uint32_t)(r.next());
    std::sort(cs.codes.begin(), cs.codes.end());
    int R = 1 + (int)r.below(20);
    for (auto& b : cs.bb) { b = rbox(r, R); if (r.below(7) == 0) b = cs.bb[0]; }
    if (r.below(9) == 0) for (auto& b : cs.bb) b = cs.bb[0];          // degenerate: all boxes identical
    if (t % 10 == 3 && n < 5000) runUnbounded("u" + std::to_string(t) + " unbounded n=" + std::to_string(n), r, cs);
    int mode = n > 5000 ? (int)r.below(3) : t % 6;
    runCase("c" + std::to_string(t) + " " + (mode == 0 ? "tree" : mode == 1 ? "boxes" : mode == 2 ? "query" : mode == 3 ? "pquery" : mode == 4 ? "tquery" : "uquery") + " n=" + std::to_string(n), r, cs, mode, R);
  }
  if (exhaustive) {
    // all non-decreasing code arrays over {0,1,2} for n <= 7; boxes over a 2-point lattice, queries over all lattice boxes
    int id = 0;
    for (int n = 2; n <= 7; n++) {
      std::vector<int> c(n, 0);
      while (true) {
        bool sorted = true; for (int i = 1; i < n; i++) if (c[i - 1] > c[i]) sorted = false;
        if (sorted) {
          Case cs; cs.codes.assign(c.begin(), c.end()); cs.bb.resize(n);
          for (int v = 0; v < 3; v++) { for (auto& b : cs.bb) b = rbox(r, 3); runCase("x" + std::to_string(id++) + " " + (v == 0 ? "tree" : v == 1 ? "query" : "pquery") + " n=" + std::to_string(n), r, cs, v == 0 ? 0 : v == 1 ? 2 : 3, 3); }
        }
        int k = n - 1; while (k >= 0 && c[k] == 2) c[k--] = 0; if (k < 0) break; c[k]++;
      }
    }
  }
  printf("STATS calls=%zu leaves=%zu\n", tbb::vt::ctl().calls, tbb::vt::ctl().leaves);
  return 0;
}
