// C16 harness: Hull is the convex hull; MinkowskiSum / MinkowskiDifference are dilation / erosion.
//
//   c16_hull <nHull> <nMink>        env VERIF_SEED, VERIF_TIER, C16_PLANS=<file with the model's decision table>
//
// Hull cases (kind hull-*): the REAL Manifold::Hull (points / one manifold / several manifolds) on lattice
// clouds (integer coordinates in [-32,32], optionally times 2^-k: exact in double, and far coarser than
// QuickHull's epsilon 1e-7*scale) with duplicates, collinear, coplanar, clustered, slab, cube-surface and
// few-point inputs.  REQ = `hull check <input> <output mesh>`: the exact Lean certificate checker decides;
// EXP is what the harness expects from the construction (rank) and the library's own counts.  A second,
// independent statistical check closes the checker's recorded gap per run: lattice points strictly inside /
// outside the face half-spaces must have winding number 1 / 0 in the output mesh.
// General-float clouds and manifolds with irrational vertices (kind hullf-*) use a long-double oracle with the
// allowance 2e-7*scale (QuickHull's own epsilon is 1e-7*scale, quickhull.cpp:30,238,817).
//
// Minkowski cases (kind sum-XY / diff-XY, X,Y in {c,n} = IsConvex of A,B): operands from small families
// (boxes, low-poly spheres, cylinders, hulls of random points; L, U, notch, plus, frame (genus 1), bar pair),
// randomly rotated, scaled (0.2..4) and placed; B always has the origin inside with a margin, A is anywhere.
//   (tie)      flags (IsConvex, IsEmpty, the origin test) -> the MODEL's plan (table produced by mvdriver) ->
//              reference composition built here from public Hull + BatchBoolean exactly as the plan's
//              denotation (MV.C16.planDen) says; the real result must agree with it in volume and on random
//              points classified by winding number (points closer than the margin to either surface skipped)
//   (clauses)  a+b inside the sum for interior a, b (incl. b = 0: A inside the sum); no interior point of the
//              sum farther from A than max|vertex of B|; difference inside A; p-b inside A for sampled b
//   (independent reference) x is in A+B iff A meets x-B: decided with the library's own Boolean
//              (Volume(A ^ (x-B)) > 0 => inside) and MinGap (> margin => outside); p is in the erosion iff
//              p-B stays inside A: Volume((p-B) - A) > 0 => outside, MinGap(p-B, Box-A) > margin => inside
//   every result mesh goes through `mesh check` (closed oriented 2-manifold, verified checker).
// Timeouts are not violations: a case that exceeds its budget is reported as `inconclusive`.
#include <algorithm>
#include <array>
#include <chrono>
#include <cmath>
#include <cstring>
#include <fstream>
#include <map>
#include <set>
#include <sstream>
#include <string>
#include <vector>
#define private public
#include "manifold/manifold.h"
#undef private
#include "impl.h"
#include "csg_tree.h"
#include "common.h"

using namespace manifold;
typedef long double ld;
typedef std::array<ld, 3> V3;

static hz::Rng* R;
static double urand() { return (double)(R->next() >> 11) / 9007199254740992.0; }
static double urange(double a, double b) { return a + (b - a) * urand(); }
static std::map<std::string, long> stats;

// ------------------------------------------------------------------ long-double mesh oracles
struct TMesh {
  std::vector<V3> v;
  std::vector<std::array<int, 3>> t;
  V3 lo, hi;
};
static TMesh toMesh(const Manifold& m) {
  TMesh r;
  MeshGL64 g = m.GetMeshGL64();
  size_t nv = g.NumVert();
  r.v.resize(nv);
  for (size_t i = 0; i < nv; i++) r.v[i] = {(ld)g.vertProperties[i * g.numProp], (ld)g.vertProperties[i * g.numProp + 1], (ld)g.vertProperties[i * g.numProp + 2]};
  std::vector<size_t> merge(nv);
  for (size_t i = 0; i < nv; i++) merge[i] = i;
  for (size_t i = 0; i < g.mergeFromVert.size(); i++) merge[g.mergeFromVert[i]] = g.mergeToVert[i];
  for (size_t i = 0; i < g.NumTri(); i++) r.t.push_back({(int)merge[g.triVerts[3 * i]], (int)merge[g.triVerts[3 * i + 1]], (int)merge[g.triVerts[3 * i + 2]]});
  r.lo = {1e300L, 1e300L, 1e300L}; r.hi = {-1e300L, -1e300L, -1e300L};
  for (auto& p : r.v) for (int k = 0; k < 3; k++) { r.lo[k] = std::min(r.lo[k], p[k]); r.hi[k] = std::max(r.hi[k], p[k]); }
  return r;
}
static V3 sub(const V3& a, const V3& b) { return {a[0] - b[0], a[1] - b[1], a[2] - b[2]}; }
static V3 add(const V3& a, const V3& b) { return {a[0] + b[0], a[1] + b[1], a[2] + b[2]}; }
static V3 mul(const V3& a, ld s) { return {a[0] * s, a[1] * s, a[2] * s}; }
static ld dot(const V3& a, const V3& b) { return a[0] * b[0] + a[1] * b[1] + a[2] * b[2]; }
static V3 cross(const V3& a, const V3& b) { return {a[1] * b[2] - a[2] * b[1], a[2] * b[0] - a[0] * b[2], a[0] * b[1] - a[1] * b[0]}; }
static ld norm(const V3& a) { return sqrtl(dot(a, a)); }
// winding number by solid angles (Van Oosterom & Strackee)
static ld winding(const TMesh& m, const V3& p) {
  ld w = 0;
  for (auto& t : m.t) {
    V3 a = sub(m.v[t[0]], p), b = sub(m.v[t[1]], p), c = sub(m.v[t[2]], p);
    ld la = norm(a), lb = norm(b), lc = norm(c);
    ld num = dot(a, cross(b, c));
    ld den = la * lb * lc + dot(a, b) * lc + dot(b, c) * la + dot(c, a) * lb;
    w += 2 * atan2l(num, den);
  }
  return w / (4 * 3.14159265358979323846264338327950288L);
}
static ld distTri(const V3& p, const V3& a, const V3& b, const V3& c) {
  // Ericson, closest point on triangle
  V3 ab = sub(b, a), ac = sub(c, a), ap = sub(p, a);
  ld d1 = dot(ab, ap), d2 = dot(ac, ap);
  if (d1 <= 0 && d2 <= 0) return norm(ap);
  V3 bp = sub(p, b);
  ld d3 = dot(ab, bp), d4 = dot(ac, bp);
  if (d3 >= 0 && d4 <= d3) return norm(bp);
  ld vc = d1 * d4 - d3 * d2;
  if (vc <= 0 && d1 >= 0 && d3 <= 0) { ld v = d1 / (d1 - d3); return norm(sub(ap, mul(ab, v))); }
  V3 cp = sub(p, c);
  ld d5 = dot(ab, cp), d6 = dot(ac, cp);
  if (d6 >= 0 && d5 <= d6) return norm(cp);
  ld vb = d5 * d2 - d1 * d6;
  if (vb <= 0 && d2 >= 0 && d6 <= 0) { ld w = d2 / (d2 - d6); return norm(sub(ap, mul(ac, w))); }
  ld va = d3 * d6 - d5 * d4;
  if (va <= 0 && (d4 - d3) >= 0 && (d5 - d6) >= 0) { ld w = (d4 - d3) / ((d4 - d3) + (d5 - d6)); return norm(sub(bp, mul(sub(c, b), w))); }
  V3 n = cross(ab, ac);
  ld nn = norm(n);
  if (nn == 0) return std::min(norm(ap), std::min(norm(bp), norm(cp)));
  return fabsl(dot(n, ap)) / nn;
}
static ld distSurf(const TMesh& m, const V3& p) {
  ld d = 1e300L;
  for (auto& t : m.t) d = std::min(d, distTri(p, m.v[t[0]], m.v[t[1]], m.v[t[2]]));
  return d;
}
static bool inside(const TMesh& m, const V3& p) { return m.t.empty() ? false : winding(m, p) > 0.5L; }
static V3 randIn(const V3& lo, const V3& hi, double pad) {
  V3 p;
  for (int k = 0; k < 3; k++) { ld e = (hi[k] - lo[k]) * pad; p[k] = lo[k] - e + (hi[k] - lo[k] + 2 * e) * urand(); }
  return p;
}
// interior points of m at distance >= margin from its surface
static std::vector<V3> interiorSamples(const TMesh& m, int want, ld margin, int tries = 400) {
  std::vector<V3> out;
  if (m.t.empty()) return out;
  for (int i = 0; i < tries && (int)out.size() < want; i++) {
    V3 p = randIn(m.lo, m.hi, 0.0);
    if (distSurf(m, p) < margin) continue;
    if (inside(m, p)) out.push_back(p);
  }
  return out;
}
static vec3 toVec(const V3& p) { return vec3((double)p[0], (double)p[1], (double)p[2]); }

// ------------------------------------------------------------------ mesh -> `mesh check` case
static void emitMeshCase(const std::string& id, const std::string& kind, const Manifold& m) {
  MeshGL64 g = m.GetMeshGL64();
  std::ostringstream req;
  size_t nv = g.NumVert(), nt = g.NumTri();
  bool merged = !g.mergeFromVert.empty();
  req << "mesh " << (merged ? "checkmerge " : "check ") << nv << " " << nt;
  for (size_t i = 0; i < 3 * nt; i++) req << " " << g.triVerts[i];
  if (merged) {
    req << " " << g.mergeFromVert.size();
    for (auto x : g.mergeFromVert) req << " " << x;
    for (auto x : g.mergeToVert) req << " " << x;
  }
  std::ostringstream exp;
  exp << "ok genus " << m.Genus() << " edges " << 3 * nt / 2 << " verts " << m.NumVert();
  hz::emit(id + " mesh-" + kind + " nv=" + std::to_string(nv) + " nt=" + std::to_string(nt), req.str(), exp.str(), true);
  stats["meshes"]++;
}

// ================================================================== HULL
typedef std::array<long, 3> I3;
static long orientI(const I3& a, const I3& b, const I3& c, const I3& p) {
  long ux = b[0] - a[0], uy = b[1] - a[1], uz = b[2] - a[2], vx = c[0] - a[0], vy = c[1] - a[1], vz = c[2] - a[2];
  long nx = uy * vz - uz * vy, ny = uz * vx - ux * vz, nz = ux * vy - uy * vx;
  return nx * (p[0] - a[0]) + ny * (p[1] - a[1]) + nz * (p[2] - a[2]);
}
static int rankI(const std::vector<I3>& pts) {
  if (pts.empty()) return 0;
  const I3& p0 = pts[0];
  size_t i1 = 0, i2 = 0;
  for (size_t i = 1; i < pts.size() && !i1; i++) if (pts[i] != p0) i1 = i;
  if (!i1) return 1;
  for (size_t i = 1; i < pts.size() && !i2; i++) {
    long ux = pts[i1][0] - p0[0], uy = pts[i1][1] - p0[1], uz = pts[i1][2] - p0[2], vx = pts[i][0] - p0[0], vy = pts[i][1] - p0[1], vz = pts[i][2] - p0[2];
    if (uy * vz - uz * vy != 0 || uz * vx - ux * vz != 0 || ux * vy - uy * vx != 0) i2 = i;
  }
  if (!i2) return 2;
  for (size_t i = 1; i < pts.size(); i++) if (orientI(p0, pts[i1], pts[i2], pts[i]) != 0) return 4;
  return 3;
}
static I3 irand(int r) { return {R->range(-r, r), R->range(-r, r), R->range(-r, r)}; }

struct Cloud { std::string kind; std::vector<I3> pts; };
static Cloud genCloud(int which) {
  Cloud c;
  int r = 2 + (int)R->below(31);
  auto dup = [&](std::vector<I3>& p) { size_t n = p.size(); for (size_t i = 0; i < n / 3 + 1 && n; i++) p.push_back(p[R->below(n)]); };
  auto shuffle = [&](std::vector<I3>& p) { for (size_t i = p.size(); i > 1; i--) std::swap(p[i - 1], p[R->below(i)]); };
  switch (which % 14) {
    case 0: { c.kind = "lattice"; int n = 5 + (int)R->below(200); int rr = 1 + (int)R->below(6); for (int i = 0; i < n; i++) c.pts.push_back(irand(rr)); break; }   // dense small lattice: many duplicates/coplanar
    case 1: { c.kind = "random"; int n = 4 + (int)R->below(300); for (int i = 0; i < n; i++) c.pts.push_back(irand(r)); break; }
    case 2: { c.kind = "coplanar"; I3 o = irand(8), u = irand(3), v = irand(3); int n = 3 + (int)R->below(60); for (int i = 0; i < n; i++) { long a = R->range(-4, 4), b = R->range(-4, 4); c.pts.push_back({o[0] + a * u[0] + b * v[0], o[1] + a * u[1] + b * v[1], o[2] + a * u[2] + b * v[2]}); } break; }
    case 3: { c.kind = "collinear"; I3 o = irand(8), u = irand(3); int n = 2 + (int)R->below(30); for (int i = 0; i < n; i++) { long a = R->range(-7, 7); c.pts.push_back({o[0] + a * u[0], o[1] + a * u[1], o[2] + a * u[2]}); } break; }
    case 4: { c.kind = "single"; I3 o = irand(20); int n = 1 + (int)R->below(12); for (int i = 0; i < n; i++) c.pts.push_back(o); break; }
    case 5: { c.kind = "few"; int n = (int)R->below(5); for (int i = 0; i < n; i++) c.pts.push_back(irand(5)); break; }
    case 6: { c.kind = "clustered"; int k = 4 + (int)R->below(5); std::vector<I3> ctr; for (int i = 0; i < k; i++) ctr.push_back(irand(28)); int n = 20 + (int)R->below(200); for (int i = 0; i < n; i++) { I3 q = ctr[R->below(k)], d = irand(2); c.pts.push_back({q[0] + d[0], q[1] + d[1], q[2] + d[2]}); } break; }
    case 7: { c.kind = "cubesurface"; int s = 1 + (int)R->below(5); for (int x = -s; x <= s; x++) for (int y = -s; y <= s; y++) for (int z = -s; z <= s; z++) if (std::abs(x) == s || std::abs(y) == s || std::abs(z) == s || R->below(4) == 0) c.pts.push_back({x, y, z}); break; }   // every face carries many coplanar points
    case 8: { c.kind = "slab"; int n = 8 + (int)R->below(150); for (int i = 0; i < n; i++) c.pts.push_back({R->range(-30, 30), R->range(-30, 30), R->range(0, 1)}); break; }
    case 9: { c.kind = "sphere"; int n = 10 + (int)R->below(250); int rad = 8 + (int)R->below(24); for (int i = 0; i < n; i++) { double z = urange(-1, 1), ph = urange(0, 6.283185307179586), s = sqrt(1 - z * z); c.pts.push_back({lround(rad * s * cos(ph)), lround(rad * s * sin(ph)), lround(rad * z)}); } for (int i = 0; i < n / 4; i++) c.pts.push_back(irand(rad / 2)); break; }
    case 10: { c.kind = "coplanar+1"; I3 o = irand(8), u = irand(3), v = irand(3); int n = 3 + (int)R->below(60); for (int i = 0; i < n; i++) { long a = R->range(-4, 4), b = R->range(-4, 4); c.pts.push_back({o[0] + a * u[0] + b * v[0], o[1] + a * u[1] + b * v[1], o[2] + a * u[2] + b * v[2]}); } c.pts.push_back(irand(12)); break; }
    case 11: { c.kind = "prism"; int n = 3 + (int)R->below(9); int h = 1 + (int)R->below(20); for (int i = 0; i < n; i++) { I3 q = {R->range(-20, 20), R->range(-20, 20), 0}; c.pts.push_back(q); c.pts.push_back({q[0], q[1], h}); if (R->below(2)) c.pts.push_back({q[0], q[1], h / 2}); } break; }
    case 12: { c.kind = "octa+interior"; int s = 2 + (int)R->below(20); c.pts = {{s, 0, 0}, {-s, 0, 0}, {0, s, 0}, {0, -s, 0}, {0, 0, s}, {0, 0, -s}}; int n = (int)R->below(80); for (int i = 0; i < n; i++) { I3 q = irand(s); if (std::abs(q[0]) + std::abs(q[1]) + std::abs(q[2]) <= s) c.pts.push_back(q); } break; }
    default: { c.kind = "tetra+face"; c.pts = {{0, 0, 0}, {12, 0, 0}, {0, 12, 0}, {0, 0, 12}}; int n = (int)R->below(40); for (int i = 0; i < n; i++) { long a = R->range(0, 12), b = R->range(0, 12 - a); int f = (int)R->below(4); c.pts.push_back(f == 0 ? I3{a, b, 0} : f == 1 ? I3{a, 0, b} : f == 2 ? I3{0, a, b} : I3{a, b, 12 - a - b}); } break; }
  }
  if (R->below(2)) dup(c.pts);
  shuffle(c.pts);
  return c;
}

// emit one exact hull case: input lattice points (coordinates = int * 2^-k), output of the real Hull
static void hullExactCase(const std::string& id, const std::string& kind, const std::vector<I3>& pts, int k, const Manifold& h, const std::string& how) {
  int rank = rankI(pts);
  MeshGL64 g = h.GetMeshGL64();
  size_t nv = g.NumVert(), nt = g.NumTri();
  bool ok = true;
  std::string msg;
  if (h.Status() != Manifold::Error::NoError) { ok = false; msg = "hull-status: Hull returned status " + std::to_string((int)h.Status()); }
  std::vector<I3> vs(nv);
  for (size_t i = 0; i < nv && ok; i++) for (int c = 0; c < 3; c++) {
    double x = std::ldexp(g.vertProperties[i * g.numProp + c], k);
    if (x != std::floor(x) || std::fabs(x) > 1e15) { ok = false; msg = "hull-vertex-not-input: output vertex " + std::to_string(i) + " is not a lattice point"; break; }
    vs[i][c] = (long)x;
  }
  if (!g.mergeFromVert.empty() && ok) { ok = false; msg = "hull-merge-vectors: a hull without properties exports merge vectors"; }
  std::ostringstream req, exp;
  req << "hull check " << pts.size();
  for (auto& p : pts) req << " " << p[0] << " " << p[1] << " " << p[2];
  req << " " << nv;
  for (auto& p : vs) req << " " << p[0] << " " << p[1] << " " << p[2];
  req << " " << nt;
  for (size_t i = 0; i < 3 * nt; i++) req << " " << g.triVerts[i];
  bool empty = h.IsEmpty();
  if (empty) {
    exp << "rank " << rank << " | empty";
    if (rank == 4 && ok) { ok = false; msg = "hull-empty-with-volume: the points span a volume and Hull returned an empty manifold"; }
  } else if (rank == 4) {
    long flat = 0;
    if (ok) for (size_t i = 0; i < nt; i++) {
      const I3 &a = vs[g.triVerts[3 * i]], &b = vs[g.triVerts[3 * i + 1]], &c = vs[g.triVerts[3 * i + 2]];
      long ux = b[0] - a[0], uy = b[1] - a[1], uz = b[2] - a[2], vx = c[0] - a[0], vy = c[1] - a[1], vz = c[2] - a[2];
      if (uy * vz - uz * vy == 0 && uz * vx - ux * vz == 0 && ux * vy - uy * vx == 0) flat++;
    }
    stats["hull_flat_faces"] += flat;
    exp << "rank 4 | ok genus 0 verts " << h.NumVert() << " tris " << h.NumTri() << " flat " << flat;
    if (ok && (h.Genus() != 0)) { ok = false; msg = "hull-genus: Genus() = " + std::to_string(h.Genus()); }
    if (ok && !(h.Volume() > 0)) { ok = false; msg = "hull-volume: Volume() is not positive"; }
    // statistical closure of the checker's gap: strictly inside all half-spaces <=> winding number 1
    if (ok) {
      TMesh tm;
      for (auto& p : vs) tm.v.push_back({(ld)p[0], (ld)p[1], (ld)p[2]});
      for (size_t i = 0; i < nt; i++) tm.t.push_back({(int)g.triVerts[3 * i], (int)g.triVerts[3 * i + 1], (int)g.triVerts[3 * i + 2]});
      I3 lo = vs[0], hi = vs[0];
      for (auto& p : vs) for (int c = 0; c < 3; c++) { lo[c] = std::min(lo[c], p[c]); hi[c] = std::max(hi[c], p[c]); }
      int tested = 0;
      for (int s = 0; s < 40 && ok; s++) {
        I3 q = {R->range((int)lo[0] - 1, (int)hi[0] + 1), R->range((int)lo[1] - 1, (int)hi[1] + 1), R->range((int)lo[2] - 1, (int)hi[2] + 1)};
        long mx = -1; bool onPlane = false;
        for (auto& t : tm.t) { long o = orientI(vs[t[0]], vs[t[1]], vs[t[2]], q); if (o == 0) onPlane = true; mx = std::max(mx, o); }
        if (onPlane) continue;
        tested++;
        ld w = winding(tm, {(ld)q[0], (ld)q[1], (ld)q[2]});
        bool in = w > 0.5L;
        if (in != (mx < 0) || fabsl(w - (in ? 1 : 0)) > 1e-6L) { ok = false; msg = "hull-not-polytope: lattice point (" + std::to_string(q[0]) + "," + std::to_string(q[1]) + "," + std::to_string(q[2]) + ") half-space test and winding number disagree"; }
      }
      stats["hull_gap_points"] += tested;
    }
  } else {
    exp << "rank " << rank << " | flat 1 verts " << h.NumVert() << " tris " << h.NumTri();
    if (ok) { ok = false; msg = "hull-degenerate-not-empty: the points span no volume (affine rank " + std::to_string(rank) + ") and Hull returned a non-empty manifold (" + std::to_string(h.NumVert()) + " verts, " + std::to_string(h.NumTri()) + " tris, volume " + std::to_string(h.Volume()) + ")"; }
    {  // weaker than the property (which wants an empty result): at least no volume.  Signed volume of a flat mesh is 0 up to rounding.
      double sc = 0;
      for (auto& p : pts) for (int c = 0; c < 3; c++) sc = std::max(sc, std::ldexp((double)std::labs(p[c]), -k));
      if (std::fabs(h.Volume()) > 1e-9 * sc * sc * sc) { std::ostringstream s; s << "hull-degenerate-has-volume: the points span no volume but the result has volume " << h.Volume(); ok = false; msg = s.str(); }
    }
  }
  std::ostringstream tag;
  tag << id << " hull-" << kind << " " << how << " n=" << pts.size() << " rank=" << rank << " k=" << k << " nv=" << nv << " nt=" << nt;
  hz::emit(tag.str(), req.str(), exp.str(), ok, msg);
  stats["hull_rank" + std::to_string(rank)]++;
}

static std::vector<vec3> toPts(const std::vector<I3>& p, int k) {
  std::vector<vec3> r;
  for (auto& q : p) r.push_back(vec3(std::ldexp((double)q[0], -k), std::ldexp((double)q[1], -k), std::ldexp((double)q[2], -k)));
  return r;
}

static void hullCases(int n) {
  for (int i = 0; i < n; i++) {
    Cloud c = genCloud(i);
    int k = R->below(3) == 0 ? (int)R->below(12) : 0;
    std::string id = "h" + std::to_string(i);
    hullExactCase(id, c.kind, c.pts, k, Manifold::Hull(toPts(c.pts, k)), "points");
  }
  // Hull of a manifold / of several manifolds with lattice vertices (no Booleans: Compose keeps coordinates exact)
  for (int i = 0; i < std::max(4, n / 6); i++) {
    int nb = 1 + (int)R->below(4);
    std::vector<Manifold> parts;
    std::vector<I3> pts;
    for (int b = 0; b < nb; b++) {
      I3 lo = irand(10);
      I3 sz = {1 + (long)R->below(8), 1 + (long)R->below(8), 1 + (long)R->below(8)};
      Manifold m;
      if (R->below(3) == 0) {
        m = Manifold::Tetrahedron().Scale(vec3((double)sz[0])).Translate(vec3((double)lo[0], (double)lo[1], (double)lo[2]));
      } else {
        m = Manifold::Cube(vec3((double)sz[0], (double)sz[1], (double)sz[2])).Translate(vec3((double)lo[0], (double)lo[1], (double)lo[2]));
      }
      parts.push_back(m);
    }
    bool several = R->below(2);
    Manifold h = several ? Manifold::Hull(parts) : Manifold::Compose(parts).Hull();
    Manifold all = Manifold::Compose(parts);
    MeshGL64 g = all.GetMeshGL64();
    bool lattice = true;
    for (size_t v = 0; v < g.NumVert(); v++) {
      I3 q;
      for (int c = 0; c < 3; c++) { double x = g.vertProperties[v * g.numProp + c]; if (x != std::floor(x)) lattice = false; q[c] = (long)x; }
      pts.push_back(q);
    }
    if (!lattice) continue;
    hullExactCase("hm" + std::to_string(i), several ? "manifolds" : "manifold", pts, 0, h, several ? "Hull(vector<Manifold>)" : "Manifold::Hull()");
  }
}

// general floats: long-double oracle with QuickHull's epsilon
static void hullFloatCase(const std::string& id, const std::string& kind, const std::vector<vec3>& pts, const Manifold& h, double capsuleRad = 0) {
  bool ok = true; std::string msg;
  double scale = 0;
  for (auto& p : pts) scale = std::max(scale, std::max(std::fabs(p.x), std::max(std::fabs(p.y), std::fabs(p.z))));
  ld allow = 2e-7L * scale;
  TMesh tm = toMesh(h);
  if (h.Status() != Manifold::Error::NoError || h.IsEmpty()) { ok = false; msg = "hullf-empty: Hull of a cloud with volume is empty or in error"; }
  if (ok && h.Genus() != 0) { ok = false; msg = "hullf-genus: genus " + std::to_string(h.Genus()); }
  // vertices are input points (bit-identical)
  std::set<std::array<double, 3>> in;
  for (auto& p : pts) in.insert({p.x, p.y, p.z});
  for (size_t i = 0; i < tm.v.size() && ok; i++) if (!in.count({(double)tm.v[i][0], (double)tm.v[i][1], (double)tm.v[i][2]})) { ok = false; msg = "hullf-vertex-not-input: output vertex " + std::to_string(i) + " is not an input point"; }
  // every input point within `allow` of the inner side of every face plane; every edge convex up to `allow`
  ld worst = 0;
  for (auto& t : tm.t) {
    if (!ok) break;
    V3 a = tm.v[t[0]], n = cross(sub(tm.v[t[1]], a), sub(tm.v[t[2]], a));
    ld nn = norm(n);
    if (nn == 0) continue;   // needle faces carry no half-space
    for (auto& p : pts) {
      ld d = dot(n, sub(V3{(ld)p.x, (ld)p.y, (ld)p.z}, a)) / nn;
      worst = std::max(worst, d);
      if (d > allow) { ok = false; std::ostringstream s;
        // known finding (known_findings.txt): on thin capsules QuickHull drops input points of the end caps; a lost point can be at most one cap radius outside the hull of the others
        if (capsuleRad > 0 && d <= (ld)capsuleRad) s << "hull-thin-capsule-drops-points: Hull of two round clusters of radius " << capsuleRad << " far apart leaves an input point " << (double)d << " outside a face plane, allowance " << (double)allow;
        else s << "hullf-point-outside: an input point is " << (double)d << " outside a face plane, allowance " << (double)allow;
        msg = s.str(); break; }
    }
  }
  std::ostringstream tag;
  tag << id << " hullf-" << kind << " n=" << pts.size() << " nv=" << tm.v.size() << " nt=" << tm.t.size() << " worst=" << (double)worst << " allow=" << (double)allow;
  hz::emit(tag.str(), "", "", ok, msg);
  if (ok) emitMeshCase(id, "hullf", h);
  stats["hullf"]++;
}
static void hullFloatCases(int n) {
  {  // the recorded instance of the thin-capsule finding, every run: two Sphere(1e-4, 16) one unit apart
    std::vector<Manifold> ms{Manifold::Sphere(1e-4, 16), Manifold::Sphere(1e-4, 16).Translate(vec3(1, 0, 0))}; std::vector<vec3> pts;
    for (auto& m : ms) { MeshGL64 g = m.GetMeshGL64(); for (size_t v = 0; v < g.NumVert(); v++) pts.push_back(vec3(g.vertProperties[v * g.numProp], g.vertProperties[v * g.numProp + 1], g.vertProperties[v * g.numProp + 2])); }
    hullFloatCase("hfc", "capsule-fixed", pts, Manifold::Hull(ms), 1e-4);
  }
  for (int i = 0; i < n; i++) {
    std::vector<vec3> pts; std::string kind; Manifold h; double capRad = 0;
    int which = i % 8;
    if (which == 7) {   // thin capsules: two small round solids far apart (the base triangle of the initial tetrahedron is a sliver, its un-normalised normal is tiny)
      kind = "capsule"; double rad = pow(10, urange(-5, -1)); capRad = rad; double len = pow(10, urange(-0.5, 1.5)); int seg = 4 * (1 + (int)R->below(8));
      double c1 = cos(urange(0, 3.14)), s1 = sqrt(1 - c1 * c1); bool axis = R->below(2) == 0; vec3 dir = axis ? vec3(1, 0, 0) : vec3(c1, s1 * 0.6, s1 * 0.8);
      std::vector<Manifold> ms{Manifold::Sphere(rad, seg), Manifold::Sphere(rad * urange(0.5, 1), seg).Translate(dir * len)};
      for (auto& m : ms) { MeshGL64 g = m.GetMeshGL64(); for (size_t v = 0; v < g.NumVert(); v++) pts.push_back(vec3(g.vertProperties[v * g.numProp], g.vertProperties[v * g.numProp + 1], g.vertProperties[v * g.numProp + 2])); }
      h = R->below(2) ? Manifold::Hull(ms) : Manifold::Hull(pts); }
    else if (which == 5) {   // slender but three-dimensional: thousands of epsilons thick, aspect 1e2..1e5 (the collinear-fallback decision of setupInitialTetrahedron)
      kind = "needle"; int m = 8 + (int)R->below(60); double len = pow(10, urange(-1, 2)), a = len * pow(10, urange(-5, -2));
      double c1 = cos(urange(0, 3.14)), s1 = sqrt(1 - c1 * c1), c2 = cos(urange(0, 3.14)), s2 = sqrt(1 - c2 * c2); bool axis = R->below(3) == 0;
      for (int j = 0; j < m; j++) { double x = urange(0, len), y = urange(-a, a), z = urange(-a, a); if (j < 8) { x = (j & 1) ? len : 0; y = (j & 2) ? a : -a; z = (j & 4) ? a : -a; }
        if (axis) pts.push_back(vec3(x, y, z)); else { double x1 = c1 * x - s1 * y, y1 = s1 * x + c1 * y; pts.push_back(vec3(x1, c2 * y1 - s2 * z, s2 * y1 + c2 * z)); } }
      h = Manifold::Hull(pts); }
    else if (which == 6) {   // small absolute scale, moderate aspect: thresholds that mix epsilon and epsilon^2 are not scale-invariant
      kind = "tiny"; int m = 8 + (int)R->below(60); double s = pow(10, urange(-9, -4)), ax = urange(2, 20), ay = urange(1, 3);
      for (int j = 0; j < m; j++) { double x = urange(-1, 1), y = urange(-1, 1), z = urange(-1, 1); if (j < 8) { x = (j & 1) ? 1 : -1; y = (j & 2) ? 1 : -1; z = (j & 4) ? 1 : -1; } pts.push_back(vec3(s * ax * x, s * ay * y, s * z)); }
      h = Manifold::Hull(pts); }
    else if (which == 0) { kind = "random"; int m = 8 + (int)R->below(400); double s = pow(10, urange(-3, 3)); for (int j = 0; j < m; j++) pts.push_back(vec3(urange(-s, s), urange(-s, s), urange(-s, s))); h = Manifold::Hull(pts); }
    else if (which == 1) { kind = "onsphere"; int m = 8 + (int)R->below(400); double s = pow(10, urange(-2, 2)); for (int j = 0; j < m; j++) { double z = urange(-1, 1), ph = urange(0, 6.283185307179586), q = sqrt(1 - z * z); pts.push_back(vec3(s * q * cos(ph), s * q * sin(ph), s * z)); } h = Manifold::Hull(pts); }
    else if (which == 2) { kind = "clustered"; int kc = 4 + (int)R->below(5); std::vector<vec3> c; for (int j = 0; j < kc; j++) c.push_back(vec3(urange(-5, 5), urange(-5, 5), urange(-5, 5))); int m = 30 + (int)R->below(300); for (int j = 0; j < m; j++) { vec3 q = c[R->below(kc)]; pts.push_back(q + vec3(urange(-1e-3, 1e-3), urange(-1e-3, 1e-3), urange(-1e-3, 1e-3))); } h = Manifold::Hull(pts); }
    else if (which == 3) { kind = "manifold"; Manifold s = Manifold::Sphere(urange(0.5, 2), 4 * (1 + (int)R->below(6))).Rotate(urange(0, 90), urange(0, 90), urange(0, 90)) + Manifold::Cube(vec3(urange(0.5, 3), urange(0.5, 3), urange(0.5, 3)), true).Rotate(urange(0, 90), urange(0, 90), 0).Translate(vec3(urange(-2, 2), urange(-2, 2), urange(-2, 2))); MeshGL64 g = s.GetMeshGL64(); for (size_t v = 0; v < g.NumVert(); v++) pts.push_back(vec3(g.vertProperties[v * g.numProp], g.vertProperties[v * g.numProp + 1], g.vertProperties[v * g.numProp + 2])); h = s.Hull(); }
    else { kind = "manifolds"; std::vector<Manifold> ms; int m = 2 + (int)R->below(3); for (int j = 0; j < m; j++) ms.push_back(Manifold::Cylinder(urange(0.5, 2), urange(0.3, 1), urange(0.1, 1), 5 + (int)R->below(12)).Rotate(urange(0, 180), urange(0, 180), 0).Translate(vec3(urange(-3, 3), urange(-3, 3), urange(-3, 3)))); for (auto& s : ms) { MeshGL64 g = s.GetMeshGL64(); for (size_t v = 0; v < g.NumVert(); v++) pts.push_back(vec3(g.vertProperties[v * g.numProp], g.vertProperties[v * g.numProp + 1], g.vertProperties[v * g.numProp + 2])); } h = Manifold::Hull(ms); }
    hullFloatCase("hf" + std::to_string(i), kind, pts, h, capRad);
  }
}

// ================================================================== MINKOWSKI
static std::map<std::string, std::array<int, 5>> plans;   // "0100011" -> swapped early base pieces subtract
static void loadPlans() {
  const char* f = getenv("C16_PLANS");
  if (!f) { fprintf(stderr, "C16_PLANS not set\n"); exit(3); }
  std::ifstream in(f);
  std::string bits; std::array<int, 5> c;
  while (in >> bits >> c[0] >> c[1] >> c[2] >> c[3] >> c[4]) plans[bits] = c;
  if (plans.size() != 128) { fprintf(stderr, "C16_PLANS: %zu rows, expected 128\n", plans.size()); exit(3); }
}

static Manifold convexShape(int which, std::string& name) {
  switch (which % 8) {
    case 6: { name = "cornertet"; const double a = urange(0.6, 1.6), b = urange(0.6, 1.6), c = urange(0.6, 1.6); return Manifold::Hull({vec3(0, 0, 0), vec3(a, 0, 0), vec3(0, b, 0), vec3(0, 0, c)}); }   // lopsided: the bounding-box centre is OUTSIDE the solid
    case 7: { name = "wedge"; const double a = urange(1.5, 2.5), b = urange(0.2, 0.5); return Manifold::Hull({vec3(0, 0, 0), vec3(a, 0, 0), vec3(0, b, 0), vec3(0, 0, b), vec3(a, 0.3 * b, 0.3 * b), vec3(0.2 * a, b, b)}); }
    case 0: name = "box"; return Manifold::Cube(vec3(urange(0.4, 1.6), urange(0.4, 1.6), urange(0.4, 1.6)), true);
    case 1: name = "sphere"; return Manifold::Sphere(urange(0.4, 0.9), 4 * (1 + (int)R->below(2)));
    case 2: name = "tet"; return Manifold::Tetrahedron().Scale(vec3(urange(0.4, 0.9)));
    case 3: name = "cyl"; return Manifold::Cylinder(urange(0.5, 1.5), urange(0.3, 0.8), urange(0.3, 0.8), 5 + (int)R->below(4), true);
    case 4: { name = "hull"; std::vector<vec3> p; int n = 6 + (int)R->below(8); for (int i = 0; i < n; i++) p.push_back(vec3(urange(-0.8, 0.8), urange(-0.8, 0.8), urange(-0.8, 0.8))); return Manifold::Hull(p); }
    default: name = "slab"; return Manifold::Cube(vec3(urange(1.0, 2.0), urange(1.0, 2.0), urange(0.15, 0.3)), true);
  }
}
static Manifold nonConvexShape(int which, std::string& name) {
  switch (which % 7) {
    case 0: name = "L"; return Manifold::Cube(vec3(2, 2, 1)) - Manifold::Cube(vec3(1, 1, 2)).Translate(vec3(1, 1, -0.5));
    case 1: name = "U"; return Manifold::Cube(vec3(3, 2, 1)) - Manifold::Cube(vec3(1, 1.5, 2)).Translate(vec3(1, 0.5, -0.5));
    case 2: name = "notch"; return Manifold::Cube(vec3(1.5, 1.5, 1.5), true) - Manifold::Cube(vec3(0.6, 0.6, 3), true).Translate(vec3(0.75, 0.75, 0));
    case 3: name = "plus"; return Manifold::Cube(vec3(3, 1, 1), true) + Manifold::Cube(vec3(1, 3, 1), true);
    case 4: name = "frame"; return Manifold::Cube(vec3(2, 2, 0.6), true) - Manifold::Cube(vec3(1, 1, 2), true);   // genus 1
    case 5: name = "dent"; return Manifold::Cube(vec3(1.6, 1.6, 1.6), true) - Manifold::Tetrahedron().Scale(vec3(0.5)).Translate(vec3(0, 0, 0.9));
    default: name = "tetdiff"; { Manifold t = Manifold::Tetrahedron(); return t - t.Rotate(0, 0, 90).Translate(vec3(1)); }
  }
}
static const std::shared_ptr<const Manifold::Impl> implOf(const Manifold& m) { return m.GetCsgLeafNode().GetImpl(); }
static bool originTest(const Manifold::Impl& b) {   // the test of minkowski.cpp, same expression
  bool in = true;
  for (size_t tri = 0; tri < b.NumTri(); ++tri) {
    const vec3 v = b.vertPos_[b.halfedge_.Start(3 * tri)];
    if (linalg::dot(b.faceNormal_[tri], v) < 0) in = false;
  }
  return in;
}
static Manifold unionAll(std::vector<Manifold> v) {
  if (v.empty()) return Manifold();
  return Manifold::BatchBoolean(v, OpType::Add);
}
// reference composition = MV.C16.planDen of the model's plan, built from public Hull + BatchBoolean
static Manifold reference(const std::array<int, 5>& plan, const Manifold& A0, const Manifold& B0, std::string& desc) {
  const Manifold& A = plan[0] ? B0 : A0;
  const Manifold& B = plan[0] ? A0 : B0;
  auto ia = implOf(A), ib = implOf(B);
  std::ostringstream d;
  d << (plan[0] ? "swap " : "") << "early" << plan[1] << " base" << plan[2] << " pieces" << plan[3] << (plan[4] ? " subtract" : " add");
  desc = d.str();
  if (plan[1] == 1) return A;
  if (plan[1] == 2) return B;
  std::vector<vec3> va(ia->vertPos_.begin(), ia->vertPos_.end()), vb(ib->vertPos_.begin(), ib->vertPos_.end());
  Manifold base;
  bool hasBase = plan[2] != 0;
  if (plan[2] == 1) base = A;
  if (plan[2] == 2) { vec3 c(0.0); for (auto& v : vb) c += v; c /= (double)vb.size(); base = A.Translate(c); }
  std::vector<Manifold> pieces;
  auto corner = [](const Manifold::Impl& m, size_t tri, int i) { return m.vertPos_[m.halfedge_.Start(3 * tri + i)]; };
  if (plan[3] == 1) {
    std::vector<vec3> s;
    for (auto& a : va) for (auto& b : vb) s.push_back(b + a);
    pieces.push_back(Manifold::Hull(s));
  } else if (plan[3] == 2) {
    std::vector<Manifold> hs;
    for (size_t t = 0; t < ia->NumTri(); t++) {
      std::vector<vec3> s;
      for (int i = 0; i < 3; i++) { vec3 a = corner(*ia, t, i); for (auto& b : vb) s.push_back(b + a); }
      hs.push_back(Manifold::Hull(s));
    }
    pieces.push_back(unionAll(hs));
  } else if (plan[3] >= 3) {
    std::vector<Manifold> hs;
    for (size_t ta = 0; ta < ia->NumTri(); ta++) for (size_t tb = 0; tb < ib->NumTri(); tb++) {
      std::vector<vec3> s;
      for (int i = 0; i < 3; i++) for (int j = 0; j < 3; j++) s.push_back(corner(*ia, ta, i) + corner(*ib, tb, j));
      Manifold h = Manifold::Hull(s);
      if (!h.IsEmpty() && h.Volume() > 0) hs.push_back(h);   // flat hulls (coplanar pair) add nothing to a regularised union
      if (hs.size() >= 400) { Manifold u = unionAll(hs); hs.clear(); hs.push_back(u); }
    }
    if (!hs.empty()) pieces.push_back(unionAll(hs));
    int c = plan[3] - 3;
    std::vector<Manifold> cp;
    if (c & 1) for (auto& v : va) cp.push_back(B.Translate(v));
    if (c & 2) for (auto& w : vb) cp.push_back(A.Translate(w));
    if (!cp.empty()) pieces.push_back(unionAll(cp));
  }
  Manifold sweep = unionAll(pieces);
  if (plan[4]) return hasBase ? base - sweep : Manifold();
  if (!hasBase) return sweep;
  return base + sweep;
}

struct Operand { Manifold m; std::string name; bool convexByConstruction; };
static Manifold randomRot(const Manifold& m, bool convex) {
  // a general rotation makes IsConvex() say false for most convex shapes with coplanar triangles (their normals stop being
  // bit-identical), which is worth testing but must not crowd out the convex branches
  int w = (int)R->below(convex ? 6 : 4);
  if (w >= 4) w -= 4;
  if (w == 0) return m;
  if (w == 1) return m.Rotate(90.0 * R->below(4), 90.0 * R->below(4), 90.0 * R->below(4));
  return m.Rotate(urange(0, 360), urange(0, 360), urange(0, 360));
}
static double now() { return std::chrono::duration<double>(std::chrono::steady_clock::now().time_since_epoch()).count(); }

static bool gLopsided = false;
static void minkCase(int idx, bool inset, bool wantAConvex, bool wantBConvex) {
  std::string na, nb;
  Manifold A = gLopsided ? convexShape(6 + (int)R->below(2), na) : wantAConvex ? convexShape((int)R->below(8), na) : nonConvexShape((int)R->below(7), na);
  Manifold B = wantBConvex ? convexShape((int)R->below(8), nb) : nonConvexShape((int)R->below(7), nb);
  static const double scales[] = {0.2, 0.5, 1.0, 2.0, 4.0};
  double sa = scales[R->below(4)], sb = scales[R->below(5)];
  if (!inset && R->below(2)) sb = sa * urange(0.05, 0.3);   // B small against A's features: concavities of A survive in the sum
  if (inset) { sa = scales[1 + R->below(3)] * 1.5; sb = scales[R->below(2)] * urange(0.3, 1.0); }   // erosion: mostly B smaller than A, sometimes larger
  if (inset && R->below(3) == 0) sb = sa * urange(1.5, 3);   // B larger than A: the erosion is (nearly) empty
  A = randomRot(A, wantAConvex).Scale(vec3(sa));
  B = randomRot(B, wantBConvex).Scale(vec3(sb));
  // place B with the origin inside, with a margin
  TMesh tb0 = toMesh(B);
  ld sizeB = norm(sub(tb0.hi, tb0.lo));
  std::vector<V3> q = interiorSamples(tb0, 1, 0.04L * sizeB, 2000);
  if (q.empty()) { stats["skipped_noInterior"]++; return; }
  B = B.Translate(-toVec(q[0]));
  // place A: centred on the origin, or anywhere
  int place = gLopsided ? 1 : (int)R->below(3);
  if (place == 0) { Box bb = A.BoundingBox(); A = A.Translate(-bb.Center()); }
  else A = A.Translate(vec3(urange(-4, 4), urange(-4, 4), urange(-4, 4)));
  A = A.AsOriginal(); B = B.AsOriginal();
  auto ia = implOf(A), ib = implOf(B);
  bool aC = ia->IsConvex(), bC = ib->IsConvex();
  if (!wantAConvex && !wantBConvex && ia->NumTri() * ib->NumTri() > (hz::thorough() ? 6000u : 2500u)) { stats["skipped_tooBig"]++; return; }
  std::string bits;
  bits += inset ? '1' : '0'; bits += aC ? '1' : '0'; bits += bC ? '1' : '0'; bits += A.IsEmpty() ? '1' : '0'; bits += B.IsEmpty() ? '1' : '0';
  bits += originTest(*ia) ? '1' : '0'; bits += originTest(*ib) ? '1' : '0';
  std::array<int, 5> plan = plans.at(bits);
  std::string kind = std::string(inset ? "diff-" : "sum-") + (aC ? "c" : "n") + (bC ? "c" : "n");
  std::ostringstream tag;
  tag << "m" << idx << " " << kind << " A=" << na << "*" << sa << "(" << ia->NumTri() << "t,place" << place << ") B=" << nb << "*" << sb << "(" << ib->NumTri() << "t) flags=" << bits;
  double t0 = now();
  Manifold Rr = inset ? A.MinkowskiDifference(B) : A.MinkowskiSum(B);
  bool ok = true; std::string msg;
  if (Rr.Status() != Manifold::Error::NoError) { ok = false; msg = "minkowski-status: result status " + std::to_string((int)Rr.Status()); }
  TMesh ta = toMesh(A), tb = toMesh(B), tr = toMesh(Rr);
  ld sizeA = norm(sub(ta.hi, ta.lo));
  ld scale = std::max(sizeA, (ld)norm(sub(tb.hi, tb.lo)));
  ld margin = 0.01L * std::min(sizeA, (ld)sizeB);           // >> tolerance (1e-12 * scale), classification distance
  ld reach = 0;
  for (auto& v : tb.v) reach = std::max(reach, norm(v));
  int tested = 0;
  auto fail = [&](const std::string& m) { if (ok) { ok = false; msg = m; } };
  auto pstr = [](const V3& p) { std::ostringstream s; s.precision(17); s << "(" << (double)p[0] << "," << (double)p[1] << "," << (double)p[2] << ")"; return s.str(); };
  // ---------------- tie: reference composition of the model's plan
  std::string desc;
  Manifold Ref = reference(plan, A, B, desc);
  TMesh tf = toMesh(Ref);
  {
    double vr = Rr.Volume(), vf = Ref.Volume();
    // Both solids are unions of up to thousands of QuickHull results whose faces are placed only to QuickHull's own
    // epsilon (~1e-7 * scale, quickhull.cpp:30,238,817) and which overlap in nearly coincident faces; measured on the
    // unchanged tree the two volumes agree to a few 1e-6 relative (worst seen 4.6e-6 on a 512-hull non-convex pair).
    // The volume comparison is a coarse sanity test (1e-4 relative); the point classification below carries the clause.
    const double volAllow = 1e-4 * (1e-2 + std::fabs(vf));
    if (std::fabs(vr - vf) > volAllow) {
      // Arbitrate with the definition before blaming the real code: the reference is itself a union of up to thousands of hulls with
      // massively coplanar faces (for axis-aligned operands: the coincident regime of the C02 known finding) and can be the wrong one.
      // Every piece of the symmetric difference gets an interior point x judged by  x in A+B <=> A meets x-B  (sum), resp.
      // x in A-B => x+B inside A  (difference; only soundness is a clause of the property).
      const double s3 = (double)(scale * scale * scale);
      Manifold negB = B.Scale(vec3(-1.0));
      int realWrong = 0, refWrong = 0, undecided = 0; std::string where;
      for (int side = 0; side < 2; side++) {
        Manifold dd = side == 0 ? Ref - Rr : Rr - Ref;     // side 0: in the reference only; side 1: in the real result only
        for (auto& piece : dd.Decompose()) {
          if (piece.Volume() < 0.05 * volAllow) continue;
          TMesh tp = toMesh(piece);
          std::vector<V3> q = interiorSamples(tp, 1, 0, 4000);
          if (q.empty()) { undecided++; continue; }
          const V3 x = q[0];
          if ((!tr.t.empty() && distSurf(tr, x) < 1e-6L * scale) || (!tf.t.empty() && distSurf(tf, x) < 1e-6L * scale)) { undecided++; continue; }
          bool inReal = !tr.t.empty() && inside(tr, x);
          int truth = -1;   // 1: x belongs to the defined set, 0: it does not, -1: too close to call
          if (!inset) { Manifold xB = negB.Translate(toVec(x)); double vol = (A ^ xB).Volume(); if (vol > 1e-9 * s3) truth = 1; else if (vol == 0 && A.MinGap(xB, 1e-3 * (double)scale) > 1e-6 * (double)scale) truth = 0; }
          else { double vol = (B.Translate(toVec(x)) - A).Volume(); if (vol > 1e-9 * s3) truth = 0; else truth = -1; if (vol == 0 && !inReal) truth = 2; }   // 2: missing from an erosion: completeness is not a clause
          if (truth == -1) { undecided++; continue; }
          if (truth == 2) { refWrong++; continue; }
          if ((truth == 1) != inReal) { realWrong++; if (where.empty()) where = pstr(x) + (truth == 1 ? " belongs to the defined set but is outside the real result" : " does not belong to the defined set but is inside the real result"); }
          else refWrong++;
        }
      }
      std::ostringstream s; s.precision(12);
      if (realWrong) { s << "dispatch-volume: real result has volume " << vr << ", the composition the model's plan describes (" << desc << ") has " << vf << "; by the definition the REAL result is wrong: " << where; fail(s.str()); }
      else if (refWrong && !undecided) stats["reference_union_wrong_real_right"]++;
      else { s << "dispatch-volume: real result has volume " << vr << ", the composition the model's plan describes (" << desc << ") has " << vf << " and the definition could not decide " << undecided << " piece(s) of their difference"; fail(s.str()); }
    }
    V3 lo, hi;
    for (int k = 0; k < 3; k++) { lo[k] = std::min(tr.t.empty() ? tf.lo[k] : tr.lo[k], tf.t.empty() ? tr.lo[k] : tf.lo[k]); hi[k] = std::max(tr.t.empty() ? tf.hi[k] : tr.hi[k], tf.t.empty() ? tr.hi[k] : tf.hi[k]); }
    if (!(tr.t.empty() && tf.t.empty()))
      for (int s = 0; s < 40 && ok; s++) {
        V3 x = randIn(lo, hi, 0.05);
        if ((!tr.t.empty() && distSurf(tr, x) < margin) || (!tf.t.empty() && distSurf(tf, x) < margin)) continue;
        tested++;
        if (inside(tr, x) != inside(tf, x)) fail("dispatch-point: point " + pstr(x) + " is classified differently by the real result and by the composition of the model's plan (" + desc + ")");
      }
  }
  // ---------------- property clauses + independent reference
  std::vector<V3> as = interiorSamples(ta, 8, margin), bs = interiorSamples(tb, 6, margin);
  bs.push_back({0, 0, 0});
  for (auto& v : tb.v) { V3 b = mul(v, 0.97L); if (distSurf(tb, b) >= margin * 0.5L && inside(tb, b)) bs.push_back(b); if (bs.size() > 14) break; }
  if (!inset) {
    for (auto& a : as) for (auto& b : bs) {
      if (!ok) break;
      V3 x = add(a, b);
      if (tr.t.empty()) { fail("sum-missing-a+b: the sum is empty"); break; }
      if (distSurf(tr, x) < margin * 0.1L) continue;
      tested++;
      if (!inside(tr, x)) fail("sum-missing-a+b: a=" + pstr(a) + " in A, b=" + pstr(b) + " in B, a+b=" + pstr(x) + " is outside MinkowskiSum(A,B)");
    }
    std::vector<V3> xs = interiorSamples(tr, 25, margin);
    for (auto& x : xs) {
      if (!ok) break;
      ld d = inside(ta, x) ? 0 : distSurf(ta, x);
      tested++;
      if (d > reach + 10 * margin * 0.001L + 1e-9L * scale) { std::ostringstream s; s.precision(12); s << "sum-beyond-reach: point " << pstr(x) << " of MinkowskiSum(A,B) is " << (double)d << " from A, the reach of B is " << (double)reach; fail(s.str()); }
    }
    // independent reference: x in A+B  <=>  A meets x-B
    Manifold negB = B.Scale(vec3(-1.0));
    V3 lo = tr.t.empty() ? ta.lo : tr.lo, hi = tr.t.empty() ? ta.hi : tr.hi;
    for (int k = 0; k < 3; k++) { lo[k] = std::min(lo[k], ta.lo[k] - reach); hi[k] = std::max(hi[k], ta.hi[k] + reach); }
    int budget = hz::thorough() ? 60 : 24;
    for (int s = 0; s < budget && ok; s++) {
      V3 x = randIn(lo, hi, 0.02);
      if (!tr.t.empty() && distSurf(tr, x) < margin) continue;
      Manifold xB = negB.Translate(toVec(x));
      double vol = (A ^ xB).Volume();
      bool in = inside(tr, x);
      if (vol > 1e-9 * (double)(scale * scale * scale)) { tested++; if (!in) fail("sum-hollow: A meets x-B (common volume " + std::to_string(vol) + ") so x=" + pstr(x) + " is in A+B, but it is outside MinkowskiSum(A,B)"); }
      else if (vol == 0 && A.MinGap(xB, (double)(2 * margin)) >= (double)margin) { tested++; if (in) fail("sum-excess: A and x-B are more than " + std::to_string((double)margin) + " apart so x=" + pstr(x) + " is not in A+B, but it is inside MinkowskiSum(A,B)"); }
    }
  } else {
    std::vector<V3> ps = interiorSamples(tr, 12, margin);
    for (auto& p : ps) {
      if (!ok) break;
      if (distSurf(ta, p) >= margin * 0.1L) { tested++; if (!inside(ta, p)) fail("diff-outside-A: point " + pstr(p) + " of MinkowskiDifference(A,B) is outside A"); }
      for (auto& b : bs) {
        V3 x = sub(p, b);
        if (distSurf(ta, x) < margin * 0.1L) continue;
        tested++;
        if (!inside(ta, x)) { fail("diff-p-b-outside-A: p=" + pstr(p) + " in MinkowskiDifference(A,B), b=" + pstr(b) + " in B, p-b=" + pstr(x) + " is outside A"); break; }
      }
    }
    // independent reference: p in erosion  <=>  p-B inside A
    Manifold negB = B.Scale(vec3(-1.0));
    Box bb = A.BoundingBox();
    vec3 pad(std::max((double)reach, 1e-3) * 2 + 1);
    Manifold shell = Manifold::Cube(bb.Size() + 2.0 * pad).Translate(bb.min - pad) - A;   // complement of A inside a big box
    int budget = hz::thorough() ? 60 : 24;
    for (int s = 0; s < budget && ok; s++) {
      V3 p = randIn(ta.lo, ta.hi, 0.02);
      if (!tr.t.empty() && distSurf(tr, p) < margin) continue;
      Manifold pB = negB.Translate(toVec(p));
      double out = (pB - A).Volume();
      bool in = inside(tr, p);
      if (out > 1e-9 * (double)(scale * scale * scale)) { tested++; if (in) fail("diff-excess: p-B sticks out of A (volume " + std::to_string(out) + " outside) but p=" + pstr(p) + " is inside MinkowskiDifference(A,B)"); }
      else if (out == 0 && pB.MinGap(shell, (double)(2 * margin)) >= (double)margin) { tested++; if (!in) fail("diff-missing: p-B is inside A with clearance " + std::to_string((double)margin) + " but p=" + pstr(p) + " is outside MinkowskiDifference(A,B)"); }
    }
  }
  double dt = now() - t0;
  tag << " plan=[" << desc << "] nt=" << tr.t.size() << " vol=" << Rr.Volume() << " tested=" << tested << " t=" << (int)(dt * 1000) << "ms";
  hz::emit(tag.str(), "hull plan " + std::string() + bits[0] + " " + bits[1] + " " + bits[2] + " " + bits[3] + " " + bits[4] + " " + bits[5] + " " + bits[6],
           "plan " + std::to_string(plan[0]) + " " + std::to_string(plan[1]) + " " + std::to_string(plan[2]) + " " + std::to_string(plan[3]) + " " + std::to_string(plan[4]), ok, msg);
  stats["mink_points"] += tested;
  stats[kind]++;
  if (ok && !Rr.IsEmpty()) emitMeshCase("m" + std::to_string(idx), kind, Rr);
}

// the known shapes of the design round and the three repaired cases, always run
static void fixedCases() {
  auto Lshape = [](double s) { return (Manifold::Cube(vec3(2, 2, 1)) - Manifold::Cube(vec3(1, 1, 2)).Translate(vec3(1, 1, -0.5))).Translate(vec3(-0.5, -0.5, -0.5)).Scale(vec3(s)); };
  auto Notched = [](double s) { return (Manifold::Cube(vec3(1, 1, 1), true) - Manifold::Cube(vec3(0.4, 0.4, 2), true).Translate(vec3(0.5, 0.5, 0))).Scale(vec3(s)); };
  struct F { const char* name; Manifold a, b; bool inset; double vol; };
  std::vector<F> fs = {
      {"L0.2+notched4", Lshape(0.2), Notched(4), false, -1},
      {"notched4+L0.2", Notched(4), Lshape(0.2), false, -1},
      {"cubeAt10+L1", Manifold::Cube(vec3(0.1)).Translate(vec3(10, 0, 0)), Lshape(1.0), false, -1},
      {"cube4-L0.2", Manifold::Cube(vec3(4), true), Lshape(0.2), true, 3.6 * 3.6 * 3.8},
      {"cubeAt10-L1", Manifold::Cube(vec3(0.1)).Translate(vec3(10, 0, 0)), Lshape(1.0), true, 0},
      {"L0.2-notched4", Lshape(0.2), Notched(4), true, 0},
      {"empty-cube", Manifold(), Manifold::Cube(vec3(1), true), true, 0},
  };
  int i = 0;
  for (auto& f : fs) {
    Manifold r = f.inset ? f.a.MinkowskiDifference(f.b) : f.a.MinkowskiSum(f.b);
    Manifold r2 = f.inset ? r : f.b.MinkowskiSum(f.a);
    bool ok = true; std::string msg;
    std::ostringstream s; s.precision(10);
    if (!f.inset && std::fabs(r.Volume() - r2.Volume()) > 1e-6 * (1 + r.Volume())) { ok = false; s << "sum-not-commutative: MinkowskiSum(A,B) has volume " << r.Volume() << ", MinkowskiSum(B,A) has " << r2.Volume() << " (" << f.name << ")"; msg = s.str(); }
    if (ok && f.vol >= 0 && std::fabs(r.Volume() - f.vol) > 1e-6) { ok = false; s << "diff-fixed-volume: " << f.name << " has volume " << r.Volume() << ", the erosion has " << f.vol; msg = s.str(); }
    std::ostringstream tag; tag << "f" << i++ << " fixed-" << (f.inset ? "diff" : "sum") << " " << f.name << " vol=" << r.Volume();
    hz::emit(tag.str(), "", "", ok, msg);
  }
}

int main(int argc, char** argv) {
  int nHull = argc > 1 ? atoi(argv[1]) : 60, nMink = argc > 2 ? atoi(argv[2]) : 30;
  hz::Rng rng(hz::envSeed());
  R = &rng;
  loadPlans();
  const char* only = getenv("C16_ONLY");
  std::string o = std::string(" ") + (only ? only : "hull hullf fixed mink") + " ";
  if (o.find(" hull ") != std::string::npos) hullCases(nHull);
  if (o.find(" hullf ") != std::string::npos) hullFloatCases(std::max(14, nHull));
  if (o.find(" fixed ") != std::string::npos) fixedCases();
  if (o.find(" mink ") != std::string::npos) {
    double tEnd = now() + (hz::thorough() ? 900 : 75);
    for (int i = 0; i < nMink; i++) {
      if (now() > tEnd) { stats["mink_budget_stop_at"] = i; break; }
      int w = i % 8;
      // every 6th pair: the sum of a LOPSIDED convex A placed away from the origin with a non-convex B (after the swap the
      // structuring operand neither contains the origin nor its own bounding-box centre)
      gLopsided = (i % 6 == 5);
      if (gLopsided) minkCase(i, false, true, false); else
      minkCase(i, w >= 4, (w & 1) != 0, (w & 2) != 0);
      gLopsided = false;
    }
  }
  printf("STATS");
  for (auto& kv : stats) printf(" %s=%ld", kv.first.c_str(), kv.second);
  printf("\n");
  return 0;
}
