// A tiny interpreter for programs over the public Manifold API, shared by the end-to-end
// harnesses (C01, C05, C04, …).  A program is a list of text steps so that a failing case
// can be written to a replay file, shrunk line by line and re-executed exactly.
//
//   <op> <nsrc> <src…> <nargs> <arg…>          (args printed with %.17g)
//
// Every step appends its result object(s) to the pool; sources are pool indices.
#pragma once
#include <array>
#include <cmath>
#include <cstring>
#include <functional>
#include <sstream>
#include <string>
#include <vector>
#include "manifold/manifold.h"
#include "common.h"

namespace ap {
using namespace manifold;

struct Step { std::string op; std::vector<int> src; std::vector<double> arg; };
inline std::string show(const Step& s) {
  std::ostringstream o; o << s.op << " " << s.src.size(); for (int x : s.src) o << " " << x;
  o << " " << s.arg.size(); char buf[40]; for (double a : s.arg) { snprintf(buf, sizeof buf, "%.17g", a); o << " " << buf; }
  return o.str();
}
inline bool parse(const std::string& line, Step& s) {
  std::istringstream in(line); size_t n; s = Step();
  if (!(in >> s.op >> n)) return false; s.src.resize(n); for (auto& x : s.src) if (!(in >> x)) return false;
  if (!(in >> n)) return false; s.arg.resize(n); for (auto& a : s.arg) if (!(in >> a)) return false;
  return true;
}

// FNV-1a over raw bytes
struct Hash { uint64_t h = 1469598103934665603ull; void add(const void* p, size_t n) { const unsigned char* c = (const unsigned char*)p; for (size_t i = 0; i < n; i++) { h ^= c[i]; h *= 1099511628211ull; } }
  template <typename T> void vec(const std::vector<T>& v) { size_t n = v.size(); add(&n, sizeof n); if (n) add(v.data(), n * sizeof(T)); } };
inline uint64_t hashMesh(const MeshGL64& m) {
  Hash h; h.add(&m.numProp, sizeof m.numProp); h.vec(m.vertProperties); h.vec(m.triVerts); h.vec(m.mergeFromVert); h.vec(m.mergeToVert);
  h.vec(m.runIndex); h.vec(m.runOriginalID); h.vec(m.runTransform); h.vec(m.faceID); h.vec(m.halfedgeTangent); h.add(&m.tolerance, sizeof m.tolerance);
  return h.h;
}
// everything observable about a Manifold, bit for bit
inline uint64_t observe(const Manifold& m) {
  Hash h; uint64_t e = hashMesh(m.GetMeshGL64()); h.add(&e, sizeof e);
  size_t a[5] = {m.NumVert(), m.NumEdge(), m.NumTri(), m.NumProp(), m.NumPropVert()}; h.add(a, sizeof a);
  Box b = m.BoundingBox(); h.add(&b, sizeof b); double t = m.GetTolerance(); h.add(&t, sizeof t);
  int st = (int)m.Status(); h.add(&st, sizeof st); int id = m.OriginalID(); h.add(&id, sizeof id); int g = m.Genus(); h.add(&g, sizeof g);
  return h.h;
}

inline Polygons cannedPoly(int k) {
  switch (k % 5) {
    case 0: return {{{0, 0}, {2, 0}, {2, 1}, {0, 1}}};
    case 1: return {{{0, 0}, {3, 0}, {3, 3}, {0, 3}}, {{1, 1}, {1, 2}, {2, 2}, {2, 1}}};
    case 2: return {{{1, 0}, {2, 0}, {2, 2}, {1, 2}}};                       // off-axis for Revolve
    case 3: return {{{0, 0}, {2, 0}, {1, 1}, {2, 2}, {0, 2}}};               // concave
    default: return {{{-1, -1}, {1, -1}, {1, 1}, {-1, 1}}, {{3, 0}, {4, 0}, {4, 1}, {3, 1}}};  // two outers, one crossing the axis
  }
}

struct Limits { size_t maxTri = 6000; };

// Executes one step; results are appended to `pool`.  Never throws for in-domain arguments;
// an operand that is too large for the requested op is passed through unchanged (keeps
// programs cheap and deterministic).
inline void exec(const Step& s, std::vector<Manifold>& pool, const Limits& lim = Limits()) {
  auto S = [&](int i) -> const Manifold& { return pool.at(s.src.at(i)); };
  auto A = [&](int i) { return s.arg.at(i); };
  auto small = [&](const Manifold& m, size_t f = 1) { return m.NumTri() * f <= lim.maxTri; };
  const std::string& op = s.op;
  if (op == "cube") pool.push_back(Manifold::Cube({A(0), A(1), A(2)}, A(3) != 0));
  else if (op == "sphere") pool.push_back(Manifold::Sphere(A(0), (int)A(1)));
  else if (op == "cyl") pool.push_back(Manifold::Cylinder(A(0), A(1), A(2), (int)A(3), A(4) != 0));
  else if (op == "tet") pool.push_back(Manifold::Tetrahedron());
  else if (op == "tets") for (int i = 0; i < (int)A(0); i++) pool.push_back(Manifold::Tetrahedron());
  else if (op == "extrude") pool.push_back(Manifold::Extrude(cannedPoly((int)A(0)), A(1), (int)A(2), A(3), {A(4), A(5)}));
  else if (op == "revolve") pool.push_back(Manifold::Revolve(cannedPoly((int)A(0)), (int)A(1), A(2)));
  else if (op == "levelset") {
    int kind = (int)A(0); double R = A(1);
    auto sdf = [kind, R](vec3 p) { return kind == 0 ? R - la::length(p) : std::min(R - la::length(p - vec3(0.4, 0, 0)), 0.3 - std::fabs(p.z)); };
    pool.push_back(Manifold::LevelSet(sdf, Box(vec3(-R - 0.5), vec3(R + 0.5)), A(2)));
  }
  else if (op == "importslices") {
    // k "orange wedge" solids sharing the two poles BY INDEX: the pole-to-pole edge is used by 2k
    // triangles and both poles have k*n+1 neighbours (valid oriented input, not 2-manifold);
    // the triangle order (seeded) decides how the importer pairs the sheets
    const int k = (int)A(0), n = (int)A(1); hz::Rng r((uint64_t)A(2));
    MeshGL64 g; g.numProp = 3; auto V = [&](double x, double y, double z) { g.vertProperties.insert(g.vertProperties.end(), {x, y, z}); return (uint64_t)(g.vertProperties.size() / 3 - 1); };
    const uint64_t v = V(0, 0, 1), w = V(0, 0, -1); std::vector<std::array<uint64_t, 3>> tris;
    for (int j = 0; j < k; j++) { std::vector<uint64_t> a;
      for (int i = 0; i < n; i++) { double th = (j + (i + 1.0) / (n + 1.0)) * 2 * 3.14159265358979323846 / k; a.push_back(V(std::cos(th), std::sin(th), 0)); }
      tris.push_back({a[0], v, w}); tris.push_back({v, a[n - 1], w});
      for (int i = 0; i + 1 < n; i++) { tris.push_back({v, a[i], a[i + 1]}); tris.push_back({w, a[i + 1], a[i]}); } }
    for (size_t i = tris.size(); i > 1; --i) std::swap(tris[i - 1], tris[r.below(i)]);
    for (auto& t : tris) for (auto x : t) g.triVerts.push_back(x);
    pool.push_back(Manifold(g));
  }
  else if (op == "importglued") {
    // tetrahedra / cubes glued at a shared vertex or edge by index (directed edges repeat)
    const int kind = (int)A(0), copies = 2 + (int)A(1) % 3; hz::Rng r((uint64_t)A(2));
    MeshGL64 g; g.numProp = 3; auto V = [&](double x, double y, double z) { g.vertProperties.insert(g.vertProperties.end(), {x, y, z}); return (uint64_t)(g.vertProperties.size() / 3 - 1); };
    const uint64_t p = V(0, 0, 0), q = V(0, 0, 1); std::vector<std::array<uint64_t, 3>> tris;
    for (int c = 0; c < copies; c++) { double th = c * 2 * 3.14159265358979323846 / copies, th2 = th + 0.9;
      uint64_t a = V(std::cos(th), std::sin(th), 0.2), b = V(std::cos(th2), std::sin(th2), 0.8), e0 = kind == 0 ? q : V(0.1 * std::cos(th), 0.1 * std::sin(th), 1);
      // tetrahedron (p, e0, a, b): shares the edge p-q (kind 0) or only the vertex p (kind 1)
      tris.push_back({p, a, e0}); tris.push_back({p, e0, b}); tris.push_back({p, b, a}); tris.push_back({e0, a, b}); }
    for (size_t i = tris.size(); i > 1; --i) std::swap(tris[i - 1], tris[r.below(i)]);
    for (auto& t : tris) for (auto x : t) g.triVerts.push_back(x);
    pool.push_back(Manifold(g));
  }
  else if (op == "import") pool.push_back(Manifold(S(0).GetMeshGL64()));
  else if (op == "import32") pool.push_back(Manifold(S(0).GetMeshGL()));
  else if (op == "copy") pool.push_back(S(0));
  else if (op == "add") pool.push_back(S(0) + S(1));
  else if (op == "sub") pool.push_back(S(0) - S(1));
  else if (op == "int") pool.push_back(S(0) ^ S(1));
  else if (op == "batch") { std::vector<Manifold> v; for (size_t i = 0; i < s.src.size(); i++) v.push_back(S(i)); pool.push_back(Manifold::BatchBoolean(v, (OpType)(int)A(0))); }
  else if (op == "split") { auto pr = S(0).Split(S(1)); pool.push_back(pr.first); pool.push_back(pr.second); }
  else if (op == "splitplane") { auto pr = S(0).SplitByPlane({A(0), A(1), A(2)}, A(3)); pool.push_back(pr.first); pool.push_back(pr.second); }
  else if (op == "trim") pool.push_back(S(0).TrimByPlane({A(0), A(1), A(2)}, A(3)));
  else if (op == "translate") pool.push_back(S(0).Translate({A(0), A(1), A(2)}));
  else if (op == "rotate") pool.push_back(S(0).Rotate(A(0), A(1), A(2)));
  else if (op == "scale") pool.push_back(S(0).Scale({A(0), A(1), A(2)}));
  else if (op == "mirror") pool.push_back(S(0).Mirror({A(0), A(1), A(2)}));
  else if (op == "farunion") {
    // union of operands moved far apart (pairwise disjoint bounding boxes: the Compose fast path), each under a still-pending transform;
    // bit i of A(1) = operand i is reflected (Mirror / negative Scale), A(0) = 0: chained +, 1: BatchBoolean(Add), 2: Manifold::Compose
    std::vector<Manifold> v; const int mask = (int)A(1);
    for (size_t i = 0; i < s.src.size(); i++) { Manifold x = S(i); if (!small(x)) { x = Manifold::Cube({1, 1, 1}); }
      Box b = x.BoundingBox(); const double ext = x.IsEmpty() ? 1.0 : std::max({b.Size().x, b.Size().y, b.Size().z, 1e-3});
      if (mask >> i & 1) x = (i % 2) ? x.Scale({1, -1, 1}) : x.Mirror({1, 0.3, 0.2});
      v.push_back(x.Translate({(double)(i + 1) * (4 * ext + 100), 0.0, 0.0})); }
    if ((int)A(0) == 0) { Manifold u = v[0]; for (size_t i = 1; i < v.size(); i++) u = u + v[i]; pool.push_back(u); }
    else if ((int)A(0) == 1) pool.push_back(Manifold::BatchBoolean(v, OpType::Add));
    else pool.push_back(Manifold::Compose(v));
  }
  else if (op == "transform") { mat3x4 m; for (int c = 0; c < 4; c++) for (int r = 0; r < 3; r++) m[c][r] = A(c * 3 + r); pool.push_back(S(0).Transform(m)); }
  else if (op == "warp") { double k = A(0); pool.push_back(S(0).Warp([k](vec3& v) { v.z += k * v.x * v.x; v.x += 0.5 * k * v.y; })); }
  else if (op == "hull") pool.push_back(S(0).Hull());
  else if (op == "hull2") pool.push_back(Manifold::Hull({S(0), S(1)}));
  else if (op == "hullpts") { hz::Rng r((uint64_t)A(0)); int n = (int)A(1), kind = (int)A(2); std::vector<vec3> pts;
    for (int i = 0; i < n; i++) { vec3 p((double)r.below(5), (double)r.below(5), kind == 1 ? 0.0 : (double)r.below(5)); if (kind == 2) p.y = p.x; if (kind == 3) p = p * 0.37 + vec3(0.1 * (double)r.below(3)); pts.push_back(p); }
    pool.push_back(Manifold::Hull(pts)); }
  else if (op == "minksum") pool.push_back(small(S(0), 40) && small(S(1), 40) ? S(0).MinkowskiSum(S(1)) : S(0));
  else if (op == "minkdiff") pool.push_back(small(S(0), 40) && small(S(1), 40) ? S(0).MinkowskiDifference(S(1)) : S(0));
  else if (op == "smoothout") pool.push_back(S(0).SmoothOut(A(0), A(1)));
  else if (op == "calcnormals") pool.push_back(S(0).CalculateNormals((int)A(0), A(1)));
  else if (op == "smoothbynormals") { const Manifold& m = S(0); pool.push_back((int)m.NumProp() >= (int)A(0) + 3 ? m.SmoothByNormals((int)A(0)) : m); }
  else if (op == "refine") pool.push_back(small(S(0), (size_t)(A(0) * A(0))) ? S(0).Refine((int)A(0)) : S(0));
  else if (op == "refinelen") pool.push_back(small(S(0), 8) ? S(0).RefineToLength(A(0)) : S(0));
  else if (op == "refinetol") pool.push_back(small(S(0), 8) ? S(0).RefineToTolerance(A(0)) : S(0));
  else if (op == "simplify") pool.push_back(S(0).Simplify(A(0)));
  else if (op == "settol") pool.push_back(S(0).SetTolerance(A(0)));
  else if (op == "decompose") { auto v = S(0).Decompose(); for (size_t i = 0; i < v.size() && i < 3; i++) pool.push_back(v[i]); if (v.empty()) pool.push_back(S(0)); }
  else if (op == "asoriginal") pool.push_back(S(0).AsOriginal());
  else if (op == "calccurv") pool.push_back(S(0).CalculateCurvature((int)A(0), (int)A(1)));
  else if (op == "setprops") { int np = (int)A(0); pool.push_back(S(0).SetProperties(np, [np](double* o, vec3 p, const double*) { for (int i = 0; i < np; i++) o[i] = p.x * (i + 1) + p.y - 0.5 * p.z * i; })); }
  else pool.push_back(Manifold());
}

// ----------------------------------------------------------------------------------- generator
struct Gen {
  hz::Rng& r; int nobj = 0; bool lattice;
  Gen(hz::Rng& r_, bool lat) : r(r_), lattice(lat) {}
  double coord(int span = 3) { return lattice || r.below(3) ? (double)((int)r.below(2 * span + 1) - span) : ((int)r.below(2001) - 1000) * 0.001 * span; }
  double pos(int span = 3) { return lattice || r.below(3) ? (double)(1 + r.below(span)) : 0.2 + r.below(1000) * 0.001 * span; }
  int pick() { return (int)r.below(nobj); }
  Step prim() {
    Step s;
    switch (r.below(lattice ? 2 : 8)) {
      case 0: case 1: s.op = "cube"; s.arg = {pos(), pos(), pos(), (double)r.below(2)}; break;
      case 2: s.op = "sphere"; s.arg = {pos(2), (double)(4 * (1 + r.below(5)))}; break;
      case 3: s.op = "cyl"; s.arg = {pos(), pos(2), r.below(3) ? -1.0 : (r.below(2) ? 0.0 : pos(2)), (double)(3 + r.below(20)), (double)r.below(2)}; break;
      case 4: s.op = "tet"; break;
      case 5: s.op = "extrude"; s.arg = {(double)r.below(5), pos(), (double)r.below(4), r.below(2) ? 0.0 : 30.0 * r.below(6), r.below(4) ? 1.0 : (r.below(2) ? 0.0 : 0.5), 1.0}; if (s.arg[4] == 0) s.arg[5] = 0; break;
      case 6: s.op = "revolve"; s.arg = {(double)r.below(5), (double)(3 + r.below(14)), r.below(2) ? 360.0 : 40.0 + 40 * r.below(7)}; break;
      default: s.op = "levelset"; s.arg = {(double)r.below(2), 1.0, 0.25 + 0.05 * r.below(4)}; break;
    }
    if (r.below(7) == 0) { if (r.below(2)) { s.op = "importslices"; s.arg = {(double)(2 + r.below(2)), (double)(2 + r.below(r.below(2) ? 6 : 38)), (double)r.below(100000)}; }
      else { s.op = "importglued"; s.arg = {(double)r.below(2), (double)r.below(3), (double)r.below(100000)}; } s.src.clear(); }
    return s;
  }
  Step next() {
    if (nobj == 0 || r.below(5) == 0) { nobj += 1; return prim(); }
    Step s; int k = (int)r.below(100);
    auto one = [&](const char* op) { s.op = op; s.src = {pick()}; };
    auto two = [&](const char* op) { s.op = op; s.src = {pick(), pick()}; };
    int made = 1;
    if (k < 30) { two(k < 12 ? "add" : k < 22 ? "sub" : "int"); if (r.below(6) == 0) s.src[1] = s.src[0]; }
    else if (k < 32 && r.below(2)) { s.op = "farunion"; int n = 2 + (int)r.below(3); for (int i = 0; i < n; i++) s.src.push_back(pick()); s.arg = {(double)r.below(3), (double)r.below(1 << n)}; }
    else if (k < 34) { s.op = "batch"; int n = 2 + (int)r.below(4); for (int i = 0; i < n; i++) s.src.push_back(pick()); s.arg = {(double)(r.below(2) ? 0 : 2)}; }
    else if (k < 37) { two("split"); made = 2; }
    else if (k < 40) { one("splitplane"); s.arg = {coord(1), coord(1), r.below(2) ? 1.0 : coord(1), coord(2)}; made = 2; }
    else if (k < 42) { one("trim"); s.arg = {coord(1), coord(1), r.below(2) ? 1.0 : coord(1), coord(2)}; }
    else if (k < 52) { one("translate"); s.arg = {coord(), coord(), coord()}; }
    else if (k < 56) { one("rotate"); s.arg = {r.below(2) ? 90.0 * r.below(4) : coord(180), r.below(2) ? 0.0 : 90.0 * r.below(4), r.below(2) ? 0.0 : coord(180)}; }
    else if (k < 59) { one("scale"); s.arg = {pos(), pos(), pos()}; if (r.below(4) == 0) s.arg[r.below(3)] *= -1; }
    else if (k < 61) { one("mirror"); s.arg = {coord(1), coord(1), 1.0}; }
    else if (k < 63) { one("warp"); s.arg = {0.01 * (1 + r.below(9))}; }
    else if (k < 66) { one("import"); if (r.below(3) == 0) s.op = "import32"; }
    else if (k < 68) one("copy");
    else if (k < 71) one("hull");
    else if (k < 72) two("hull2");
    else if (k < 74) { s.op = "hullpts"; s.arg = {(double)r.below(100000), (double)(r.below(30)), (double)r.below(4)}; }
    else if (k < 76 && !lattice) two(r.below(2) ? "minksum" : "minkdiff");
    else if (k < 79) { one("smoothout"); s.arg = {r.below(2) ? 52.5 : 10.0 * r.below(18), r.below(2) ? 0.0 : 0.1 * r.below(10)}; }
    else if (k < 81) { one("calcnormals"); s.arg = {0.0, r.below(2) ? 52.5 : 20.0 * r.below(9)}; }
    else if (k < 82) { one("smoothbynormals"); s.arg = {0.0}; }
    else if (k < 86) { one("refine"); s.arg = {(double)(1 + r.below(4))}; }
    else if (k < 88) { one("refinelen"); s.arg = {0.3 + 0.2 * r.below(8)}; }
    else if (k < 89) { one("refinetol"); s.arg = {0.01 * (1 + r.below(20))}; }
    else if (k < 92) { one("simplify"); s.arg = {r.below(2) ? 0.0 : 0.001 * (1 + r.below(100))}; }
    else if (k < 94) { one("settol"); s.arg = {0.0001 * (1 + r.below(1000))}; }
    else if (k < 96) { one("decompose"); made = 1; /* 1..3 results: counted by the caller */ }
    else if (k < 97) one("asoriginal");
    else if (k < 98) { one("calccurv"); s.arg = {0.0, 1.0}; }
    else { one("setprops"); s.arg = {(double)(1 + r.below(4))}; }
    if (s.op.empty()) { one("copy"); }
    (void)made;
    return s;
  }
};
}  // namespace ap
