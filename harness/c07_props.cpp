// C07b: tie of the property-interpolation model (lean/MV/Model/PropInterp.lean) to the real code.
//
// Part A - `GetBarycentric` (src/shared.h, free inline function, called directly) against
//   `mvdriver propinterp bary`, bit for bit, on random / near-vertex / near-edge / degenerate /
//   tolerance-sized triangles at scales 1e-6 .. 1e6 (and a few non-finite inputs).
//   PROP (long double, on the real output): finite inputs give a finite result unless the point is within
//   tolerance of all three edge lines of a non-degenerate triangle (the case theorem
//   MV.C07b.barycentric_sum_one excludes: the function returns 0/0 there); the weights sum to 1; a point
//   clearly within tolerance of exactly one vertex gets the unit vector; a point clearly within tolerance of an
//   edge line (and of no vertex) of a clearly non-degenerate triangle gets weight exactly 0 there; the
//   weights reproduce the projection of the point up to tol * L / h_min.
//
// Part B - `CreateProperties` (anonymous namespace of src/boolean_result.cpp) through the hook
//   `verif::hooks().onCreateProps`: every Boolean of a small random program over user meshes with property
//   seams / partial seams / mixed channel counts / vertex normals dumps the function's inputs and its
//   outputs; `mvdriver propinterp create` must reproduce the sizes of the two propMissIdx tables, the
//   property index of every corner, the barycentric table and every property row, bit for bit.
//   PROP (long double, on the real output, independent of the model): every corner's row is, channel by
//   channel, the interpolation of ITS OWN source triangle's rows with ITS OWN barycentric weights
//   (tolerance: 1e-9 relative, plus the spread of the three source values times the weight difference when
//   the row was made for another corner sharing the key); exactly 0 for channels the source lacks; channels
//   0..2 negated for subtracted Q triangles with normals; the weights reproduce the output position.
#include "progs.h"
#include "shared.h"
#include "verif_hooks.h"
using namespace pg;

static std::string hx(double d) {
  if (d != d) return "nan";
  char b[20]; snprintf(b, sizeof b, "%016llx", (unsigned long long)bits(d)); return b;
}
struct L3 { ld x, y, z; };
static L3 operator-(L3 a, L3 b) { return {a.x - b.x, a.y - b.y, a.z - b.z}; }
static L3 operator+(L3 a, L3 b) { return {a.x + b.x, a.y + b.y, a.z + b.z}; }
static L3 operator*(L3 a, ld s) { return {a.x * s, a.y * s, a.z * s}; }
static L3 lcross(L3 a, L3 b) { return {a.y * b.z - a.z * b.y, a.z * b.x - a.x * b.z, a.x * b.y - a.y * b.x}; }
static ld ldot(L3 a, L3 b) { return a.x * b.x + a.y * b.y + a.z * b.z; }
static ld lnorm(L3 a) { return sqrtl(ldot(a, a)); }
static L3 L(vec3 v) { return {v.x, v.y, v.z}; }
static bool fin(vec3 v) { return std::isfinite(v.x) && std::isfinite(v.y) && std::isfinite(v.z); }

struct AStats { long n = 0, unit = 0, point = 0, line = 0, tri = 0, edgeSnap = 0, twoSnap = 0, allSnapNaN = 0, nonfiniteIn = 0; };

// ------------------------------------------------------------------ Part A
static std::string baryOracle(vec3 v, const mat3& T, double tol, vec3 r, AStats& st) {
  if (!fin(v) || !fin(T[0]) || !fin(T[1]) || !fin(T[2]) || !std::isfinite(tol)) { st.nonfiniteIn++; return ""; }
  const L3 p = L(v), t[3] = {L(T[0]), L(T[1]), L(T[2])};
  const L3 e[3] = {t[2] - t[1], t[0] - t[2], t[1] - t[0]};
  const ld d2[3] = {ldot(e[0], e[0]), ldot(e[1], e[1]), ldot(e[2], e[2])};
  const ld dL = std::max({d2[0], d2[1], d2[2]});
  const L3 n = lcross(e[0], e[1]); const ld area2 = ldot(n, n); const ld tol2 = (ld)tol * tol;
  ld dv2[3]; for (int i = 0; i < 3; i++) dv2[i] = ldot(p - t[i], p - t[i]);
  // squared distance to the three edge lines, with the relative accuracy the DOUBLE evaluation of
  // |e x w|^2 can be trusted to (cancellation when the point is far from the line's anchor compared to its distance)
  ld dl2[3], mg[3];
  for (int i = 0; i < 3; i++) { L3 w = p - t[(i + 1) % 3]; L3 c = lcross(e[i], w); ld a2v = ldot(c, c); dl2[i] = d2[i] > 0 ? a2v / d2[i] : 0;
    mg[i] = 1e-6L + (a2v > 0 ? 1e-14L * sqrtl(d2[i] * ldot(w, w) / a2v) : 1.0L); }
  const ld lo = 1 - 1e-6L, hi = 1 + 1e-6L;
  int nearV = 0, firstV = -1; bool vClear = true;
  for (int i = 0; i < 3; i++) { if (dv2[i] < tol2 * hi) { nearV++; if (firstV < 0) firstV = i; if (!(dv2[i] < tol2 * lo)) vClear = false; } }
  const bool isUnit = (r.x == 1) + (r.y == 1) + (r.z == 1) == 1 && (r.x == 0) + (r.y == 0) + (r.z == 0) == 2;
  if (nearV > 0) {
    if (nearV == 1 && vClear) { st.unit++; if (!(isUnit && r[firstV] == 1)) return "point within tolerance of vertex " + std::to_string(firstV) + " did not get the unit vector"; }
    return "";
  }
  if (!fin(r)) {
    // only legitimate in the regime "within tolerance of all three edge lines"
    bool all = area2 > 0; for (int i = 0; i < 3; i++) if (!(dl2[i] < tol2 * (1 + mg[i]))) all = false;
    if (all) { st.allSnapNaN++; return ""; }
    if (dL < tol2 * hi || dL == 0) return "";   // point-sized triangle at the decision boundary / zero triangle with tol 0 (0/0 on the line branch)
    return "non-finite barycentric weights for finite inputs";
  }
  const ld sum = (ld)r.x + r.y + r.z;
  if (fabsl(sum - 1) > 1e-9L) return "weights sum to " + std::to_string((double)sum);
  if (dL < tol2 * lo) { st.point++; if (!(r.x == 1 && r.y == 0 && r.z == 0)) return "point-sized triangle did not return (1,0,0)"; return ""; }
  if (area2 > dL * tol2 * hi) {
    st.tri++;
    int snapped = 0;
    for (int i = 0; i < 3; i++) {
      const bool within = mg[i] < 0.5L && dl2[i] < tol2 * (1 - mg[i]), outside = mg[i] < 0.5L && dl2[i] > tol2 * (1 + mg[i]);
      if (within && r[i] != 0) return "point within tolerance of edge " + std::to_string(i) + " has weight " + std::to_string(r[i]) + " there";
      if (r[i] == 0 && !outside) snapped++;
    }
    if (snapped == 1) st.edgeSnap++; if (snapped == 2) st.twoSnap++;
    if (snapped >= 2) return "";
    // reconstruction: sum r_i t_i is the projection of p, up to tol * L / h_min (edge snapping moves it along a ray)
    const ld z = ldot(p - t[0], n) / area2; const L3 proj = p - n * z;
    const L3 rec = t[0] * (ld)r.x + t[1] * (ld)r.y + t[2] * (ld)r.z;
    const ld hmin = sqrtl(area2 / dL), Lmax = sqrtl(dL);
    const ld reach = Lmax + lnorm(rec - t[0]) + lnorm(p - t[0]);   // snapping moves the point along a ray from the opposite vertex: by (distance to the edge line) * |ray| / altitude
    const ld allow = (snapped ? 3 * fabsl((ld)tol) * reach / hmin : 0) + 1e-9L * (Lmax + lnorm(p - t[0])) * (Lmax / hmin);
    if (lnorm(rec - proj) > allow) { char b[160]; snprintf(b, sizeof b, "weights reproduce a point %.3Le away from the projection (allowed %.3Le)", lnorm(rec - proj), allow); return b; }
  } else if (area2 < dL * tol2 * lo && dL > tol2 * hi) {
    st.line++;
    int ls = d2[0] > d2[1] && d2[0] > d2[2] ? 0 : d2[1] > d2[2] ? 1 : 2;
    if (d2[ls] > std::max({d2[(ls + 1) % 3], d2[(ls + 2) % 3]}) * hi && r[ls] != 0) return "sliver: weight of the vertex opposite the long side is not 0";
  }
  return "";
}

static vec3 rv(Rng& r, double s) { return vec3(sym(r, s), sym(r, s), sym(r, s)); }

static void partA(Rng& r, int N, AStats& st) {
  for (int c = 0; c < N; c++) {
    const double scale = std::pow(10.0, (double)r.range(-6, 6));
    mat3 T; for (int i = 0; i < 3; i++) T[i] = rv(r, scale);
    double tol = scale * std::pow(10.0, (double)r.range(-12, -3)); vec3 v; std::string kind;
    auto inTri = [&]() { double a = unit(r), b = unit(r); if (a + b > 1) { a = 1 - a; b = 1 - b; } return T[0] * (1 - a - b) + T[1] * a + T[2] * b; };
    auto nrm = [&]() { vec3 n = la::cross(T[1] - T[0], T[2] - T[0]); double l = la::length(n); return l > 0 ? n / l : vec3(0, 0, 1); };
    static const double F[] = {0.0, 0.3, 0.9, 0.999999, 1.0, 1.000001, 1.1, 2.0, 10.0};
    switch (c % 8) {
      case 0: kind = "random"; v = inTri() + nrm() * sym(r, 1.0) * tol * (r.below(2) ? 1.0 : 1e3); break;
      case 1: { kind = "nearvert"; int i = (int)r.below(3); vec3 d = rv(r, 1.0); double l = la::length(d); if (l == 0) d = vec3(1, 0, 0), l = 1; v = T[i] + d / l * (tol * F[r.below(9)]); break; }
      case 2: { kind = "nearedge"; int i = (int)r.below(3); double a = unit(r); vec3 A = T[(i + 1) % 3], B = T[(i + 2) % 3]; vec3 e = B - A; vec3 q = A + e * a;
        vec3 d = la::cross(e, rv(r, 1.0)); double l = la::length(d); if (!(l > 0)) d = nrm(), l = 1; v = q + d / l * (tol * F[r.below(9)]); break; }
      case 3: {  // degenerate: coincident / collinear vertices
        int m = (int)r.below(4);
        if (m == 0) { kind = "degenerate-point"; T[1] = T[0] + rv(r, tol * 0.3); T[2] = T[0] + rv(r, tol * 0.3); v = T[0] + rv(r, tol * 3); }
        else if (m == 1) { kind = "degenerate-dup"; T[(int)r.below(3)] = T[(int)r.below(3)]; v = inTri(); }
        else if (m == 2) { kind = "degenerate-line"; double a = sym(r, 2.0); T[2] = T[0] + (T[1] - T[0]) * a + rv(r, tol * F[r.below(9)] * 0.5); v = T[0] + (T[1] - T[0]) * sym(r, 1.5) + rv(r, tol * 5); }
        else { kind = "degenerate-zero"; T[1] = T[0]; T[2] = T[0]; v = r.below(2) ? T[0] : T[0] + rv(r, scale); if (r.below(2)) tol = 0; }
        break; }
      case 4: {  // triangle of tolerance size: several edge tests fire at once
        kind = "tolsized"; tol = scale * 1e-3; double sz = tol * (0.5 + 4 * unit(r));
        T[1] = T[0] + rv(r, sz); T[2] = T[0] + rv(r, sz);
        v = r.below(2) ? (T[0] + T[1] + T[2]) / 3.0 + rv(r, tol * 0.2) : inTri(); break; }
      case 5: { kind = "axis"; // axis-aligned right triangles with exact coordinates: exact ties in the comparisons
        double s = scale; T[0] = vec3(0, 0, 0); T[1] = vec3(s, 0, 0); T[2] = vec3(0, s, 0); if (r.below(2)) T[2] = vec3(s, s, 0);
        tol = s * (r.below(2) ? 0.25 : 1.0 / 1024); int g = 8; v = vec3(s * (double)r.range(-1, g + 1) / g, s * (double)r.range(-1, g + 1) / g, r.below(3) ? 0.0 : tol * F[r.below(9)]); break; }
      case 6: { kind = "vertex"; v = T[(int)r.below(3)]; if (r.below(3) == 0) tol = 0; break; }
      default: {
        kind = "special"; v = inTri();
        int m = (int)r.below(5); const double inf = std::numeric_limits<double>::infinity(), nan = std::numeric_limits<double>::quiet_NaN();
        if (m == 0) tol = 0; else if (m == 1) tol = -tol; else if (m == 2) v[(int)r.below(3)] = r.below(2) ? inf : nan; else if (m == 3) T[(int)r.below(3)][(int)r.below(3)] = r.below(2) ? -inf : nan; else tol = scale * 10;
        break; }
    }
    const vec3 res = GetBarycentric(v, T, tol);
    std::string req = "propinterp bary " + hx(tol);
    for (int i = 0; i < 3; i++) req += " " + hx(v[i]);
    for (int j = 0; j < 3; j++) for (int i = 0; i < 3; i++) req += " " + hx(T[j][i]);
    st.n++;
    std::string msg = baryOracle(v, T, tol, res, st);
    hz::emit("A" + std::to_string(c) + " bary-" + kind, req, hx(res.x) + " " + hx(res.y) + " " + hx(res.z), msg.empty(), msg);
  }
}

// ------------------------------------------------------------------ Part B
struct BStats { long calls = 0, dumped = 0, tooBig = 0, corners = 0, retained = 0, edge = 0, interior = 0, noProp = 0, shared = 0, sharedOtherTri = 0, sharedInteriorOtherTri = 0,
  zeroFill = 0, negated = 0, mixedNumProp = 0, rows = 0, skipped = 0; ld maxShareDiff = 0; };
static BStats bs; static int caseNo = 0; static std::string curDesc; static size_t maxHe = 6000;

static std::string dumpSrc(const Manifold::Impl& m) {
  const int np = (int)m.NumProp(); const size_t nHe = m.halfedge_.size();
  std::string s = "S " + std::to_string(np) + " " + std::to_string(m.NumPropVert()) + " " + std::to_string(nHe) + " " + std::to_string(m.NumVert()) + " " + std::to_string(m.properties_.size());
  for (size_t h = 0; h < nHe; h++) { int p = np > 0 ? m.halfedge_.Prop((int)h) : 0; s += " " + std::to_string(p < 0 ? 0 : p); }
  for (size_t h = 0; h < nHe; h++) { int v = m.halfedge_.Start((int)h); s += " " + std::to_string(v < 0 ? 0 : v); }
  for (size_t v = 0; v < m.NumVert(); v++) for (int i = 0; i < 3; i++) s += " " + hx(m.vertPos_[v][i]);
  for (size_t i = 0; i < m.properties_.size(); i++) s += " " + hx(m.properties_[i]);
  return s;
}

static void onCreateProps(const void* pR, const void* pP, const void* pQ, bool invertQ, const double* bary, size_t nBary, size_t miss0, size_t miss1) {
  const Manifold::Impl& R = *(const Manifold::Impl*)pR; const Manifold::Impl& P = *(const Manifold::Impl*)pP; const Manifold::Impl& Q = *(const Manifold::Impl*)pQ;
  bs.calls++;
  if (R.halfedge_.size() > maxHe || P.halfedge_.size() > 2 * maxHe || Q.halfedge_.size() > 2 * maxHe) { bs.tooBig++; return; }
  const int npP = (int)P.NumProp(), npQ = (int)Q.NumProp(), np = std::max(npP, npQ); const size_t nT = R.NumTri();
  if (npP != npQ) bs.mixedNumProp++;
  std::string req = "propinterp create " + std::string(invertQ ? "1" : "0") + " " + hx(R.epsilon_) + " " + dumpSrc(P) + " " + dumpSrc(Q) + " R " + std::to_string(R.NumVert());
  for (size_t v = 0; v < R.NumVert(); v++) for (int i = 0; i < 3; i++) req += " " + hx(R.vertPos_[v][i]);
  req += " " + std::to_string(nT);
  std::string outIdx, outBary, msg; bool first = true;
  // group corners by property vertex for the oracle
  struct CornerInfo { size_t tri; int i; bool pq; int face; };
  std::map<int, std::vector<CornerInfo>> byProp;
  for (size_t t = 0; t < nT; t++) {
    const TriRef ref = R.meshRelation_.triRef[t]; const bool PQ = ref.meshID == 0; const bool skip = R.halfedge_.Start(3 * t) < 0;
    const bool hn = !PQ && Manifold::Impl::TriHasNormals(Q.meshRelation_, ref.faceID);
    if (skip) { req += " -1 -1 -1"; bs.skipped++; } else for (int i = 0; i < 3; i++) req += " " + std::to_string(R.halfedge_.Start(3 * t + i));
    req += std::string(PQ ? " 1 " : " 0 ") + std::to_string(ref.faceID) + (hn ? " 1" : " 0");
    if (skip) continue;
    for (int i = 0; i < 3; i++) {
      const size_t h = 3 * t + i;
      if (!first) { outIdx += ' '; outBary += ' '; } first = false;
      outIdx += std::to_string(R.halfedge_.Prop((int)h));
      outBary += hx(bary[3 * h]) + " " + hx(bary[3 * h + 1]) + " " + hx(bary[3 * h + 2]);
      byProp[R.halfedge_.Prop((int)h)].push_back({t, i, PQ, ref.faceID});
    }
  }
  std::string rows; for (size_t i = 0; i < R.properties_.size(); i++) { if (i) rows += ' '; rows += hx(R.properties_[i]); }
  std::string exp = std::to_string(miss0) + " " + std::to_string(miss1) + " 0 | " + outIdx + " | " + outBary + " | " + rows;
  // ---- oracle on the real output
  const size_t nRows = np > 0 ? R.properties_.size() / np : 0; bs.rows += nRows;
  auto fail = [&](const std::string& m) { if (msg.empty()) msg = m; };
  if (nBary != R.halfedge_.size()) fail("barycentric table has the wrong size");
  for (auto& kv : byProp) {
    const int pv = kv.first;
    if (pv < 0 || (size_t)pv >= nRows) { fail("corner with property index " + std::to_string(pv) + " outside the " + std::to_string(nRows) + " rows"); continue; }
    if (kv.second.size() > 1) bs.shared += kv.second.size() - 1;
    for (size_t k = 0; k < kv.second.size(); k++) {
      const CornerInfo& c = kv.second[k]; const size_t h = 3 * c.tri + c.i; bs.corners++;
      const Manifold::Impl& S = c.pq ? P : Q; const int onp = c.pq ? npP : npQ;
      const ld u[3] = {bary[3 * h], bary[3 * h + 1], bary[3 * h + 2]};
      const bool isRet = (u[0] == 1) || (u[1] == 1 && u[0] != 1) || (u[2] == 1);
      if (onp == 0) bs.noProp++; else if (u[0] == 1 || u[1] == 1 || u[2] == 1) bs.retained++; else if (u[0] == 0 || u[1] == 0 || u[2] == 0) bs.edge++; else bs.interior++;
      (void)isRet;
      if (k > 0 && (c.pq != kv.second[0].pq)) fail("corners of P and of Q share property vertex " + std::to_string(pv));
      if (k > 0 && c.face != kv.second[0].face) { bs.sharedOtherTri++; if (onp > 0 && u[0] != 1 && u[1] != 1 && u[2] != 1 && u[0] != 0 && u[1] != 0 && u[2] != 0) bs.sharedInteriorOtherTri++; }
      // the weights reproduce the position of the output vertex (only for clearly non-degenerate source triangles)
      L3 tp[3]; for (int j = 0; j < 3; j++) tp[j] = L(S.vertPos_[S.halfedge_.Start(3 * c.face + j)]);
      const L3 pos = L(R.vertPos_[R.halfedge_.Start((int)h)]);
      const L3 n = lcross(tp[1] - tp[0], tp[2] - tp[0]); const ld a2 = ldot(n, n);
      const ld Lm = std::max({lnorm(tp[1] - tp[0]), lnorm(tp[2] - tp[1]), lnorm(tp[0] - tp[2])}); const ld eps = R.epsilon_;
      if (!(std::isfinite((double)u[0]) && std::isfinite((double)u[1]) && std::isfinite((double)u[2]))) { fail("non-finite barycentric weights at tri " + std::to_string(c.tri) + " corner " + std::to_string(c.i)); continue; }
      if (a2 > 0 && sqrtl(a2) / Lm > 100 * eps) {
        const L3 rec = tp[0] * u[0] + tp[1] * u[1] + tp[2] * u[2]; const ld hmin = sqrtl(a2) / Lm;
        const ld allow = 4 * eps * Lm / hmin + 1e-9L * Lm;
        if (lnorm(rec - pos) > allow) { char b[200]; snprintf(b, sizeof b, "tri %zu corner %d: weights place the vertex %.3Le from its position (allowed %.3Le)", c.tri, c.i, lnorm(rec - pos), allow); fail(b); }
      }
      const bool negate = !c.pq && invertQ && onp >= 3 && Manifold::Impl::TriHasNormals(Q.meshRelation_, c.face);
      // weights the row was made with: those of the first corner that has this property vertex
      const CornerInfo& c0 = kv.second[0]; const size_t h0 = 3 * c0.tri + c0.i;
      ld du = 0; for (int j = 0; j < 3; j++) du = std::max(du, fabsl((ld)bary[3 * h0 + j] - u[j]));
      for (int p = 0; p < np; p++) {
        const double got = R.properties_[(size_t)pv * np + p];
        if (p >= onp) { bs.zeroFill++; if (!(got == 0.0)) { fail("channel " + std::to_string(p) + " of property vertex " + std::to_string(pv) + " is not 0 though the source has " + std::to_string(onp) + " channels"); } continue; }
        ld s[3]; for (int j = 0; j < 3; j++) s[j] = S.properties_[(size_t)onp * S.halfedge_.Prop(3 * c.face + j) + p];
        ld want = u[0] * s[0] + u[1] * s[1] + u[2] * s[2]; if (negate && p < 3) { want = -want; bs.negated++; }
        const ld mag = std::max<ld>({1.0L, fabsl(s[0]), fabsl(s[1]), fabsl(s[2])});
        // a corner that re-uses a row made for another corner with the same key: same key => same source property vertices (retained / edge)
        // with weights that differ by rounding only; interior keys of different source triangles are reported by their actual difference
        const ld spread = std::max({s[0], s[1], s[2]}) - std::min({s[0], s[1], s[2]});
        const ld allow = 1e-9L * mag + (k > 0 ? 3 * du * spread : 0);
        if (k > 0) bs.maxShareDiff = std::max(bs.maxShareDiff, fabsl(got - want) / mag);
        if (fabsl(got - want) > allow) {
          char b[300]; snprintf(b, sizeof b, "tri %zu corner %d (%s triangle %d) channel %d: row %d has %.17g but its own source triangle interpolates to %.17Lg%s", c.tri, c.i, c.pq ? "P" : "Q", c.face, p, pv, got, want,
                                k > 0 ? " (row shared with another corner)" : "");
          fail(b);
        }
        // retained corner: the value is the source value itself
        for (int j = 0; j < 3; j++) if (k == 0 && u[j] == 1 && (j == 0 || u[0] != 1) && u[(j + 1) % 3] == 0 && u[(j + 2) % 3] == 0 && std::isfinite((double)s[0]) && std::isfinite((double)s[1]) && std::isfinite((double)s[2])) {
          const double src = S.properties_[(size_t)onp * S.halfedge_.Prop(3 * c.face + j) + p];
          if (!(got == (negate && p < 3 ? -src : src))) fail("retained corner does not carry its source value exactly");
        }
      }
    }
  }
  bs.dumped++;
  std::string tag = "B" + std::to_string(caseNo++) + " create-" + (invertQ ? "sub" : "addint") + (npP != npQ ? "-mixed" : "") + " tris=" + std::to_string(nT) + " numProp=" + std::to_string(npP) + "/" + std::to_string(npQ) + " rows=" + std::to_string(nRows) + " :: " + curDesc;
  hz::emit(tag, req, exp, msg.empty(), msg);
}

static Manifold operand(Rng& r, std::string& d, bool wantNormals) {
  Manifold shape = primitive(r, d); Manifold m = shape;
  int mode = (int)r.below(8);   // 0: bare primitive (no channels), 1-2: any user mesh, 3-7: seam focus
  if (mode > 0) { UserMesh um = userMesh(r, shape, d, mode >= 3); if (um.valid) m = Manifold(um.g); }
  if (wantNormals) { m = m.CalculateNormals(0, 30 + 60 * unit(r)); d += ".normals"; }
  return m;
}

static void partB(Rng& r, int N) {
  manifold::verif::hooks().onCreateProps = onCreateProps;
  for (int c = 0; c < N; c++) {
    std::string d;
    const bool normals = r.below(3) == 0;
    d += "a="; Manifold a = randomTransform(r, operand(r, d, normals && r.below(2)), d);
    d += " b="; Manifold b = randomTransform(r, operand(r, d, normals), d);
    const OpType op = normals && r.below(2) ? OpType::Subtract : (OpType)r.below(3);
    d += op == OpType::Add ? " ;add" : op == OpType::Subtract ? " ;sub" : " ;int";
    curDesc = d + " [1]";
    Manifold r1 = a.Boolean(b, op); r1.NumTri();
    if (r.below(2)) {   // the result (mixed relations, mixed normals) as an operand of a second Boolean
      std::string d2 = d + " c="; Manifold c3 = randomTransform(r, operand(r, d2, r.below(3) == 0), d2);
      const bool resultIsQ = r.below(2); const OpType op2 = r.below(2) ? OpType::Subtract : (OpType)r.below(3);
      d2 += std::string(resultIsQ ? " ;c" : " ;r") + (op2 == OpType::Add ? "+" : op2 == OpType::Subtract ? "-" : "^") + (resultIsQ ? "r" : "c");
      curDesc = d2 + " [2]";
      Manifold r2 = resultIsQ ? c3.Boolean(r1, op2) : r1.Boolean(c3, op2); r2.NumTri();
    }
  }
  manifold::verif::hooks().onCreateProps = nullptr;
}

int main(int argc, char** argv) {
  Rng r(hz::envSeed());
  const int NA = argc > 1 ? atoi(argv[1]) : 4000, NB = argc > 2 ? atoi(argv[2]) : 60;
  if (argc > 3) maxHe = (size_t)atol(argv[3]);
  AStats as; partA(r, NA, as);
  partB(r, NB);
  printf("STATS baryCases=%ld unitChecked=%ld pointTri=%ld lineTri=%ld triBranch=%ld oneEdgeSnapped=%ld twoEdgesSnapped=%ld allEdgesSnappedNaN=%ld nonfiniteInputs=%ld "
         "createCalls=%ld dumped=%ld tooBig=%ld corners=%ld retained=%ld edge=%ld interior=%ld noPropSource=%ld sharedCorners=%ld sharedAcrossSourceTris=%ld sharedInteriorAcrossSourceTris=%ld "
         "zeroFilledValues=%ld negatedValues=%ld mixedNumPropCalls=%ld rows=%ld collapsedTris=%ld maxSharedRelDiff=%.3Le\n",
         as.n, as.unit, as.point, as.line, as.tri, as.edgeSnap, as.twoSnap, as.allSnapNaN, as.nonfiniteIn,
         bs.calls, bs.dumped, bs.tooBig, bs.corners, bs.retained, bs.edge, bs.interior, bs.noProp, bs.shared, bs.sharedOtherTri, bs.sharedInteriorOtherTri,
         bs.zeroFill, bs.negated, bs.mixedNumProp, bs.rows, bs.skipped, bs.maxShareDiff);
  return 0;
}
