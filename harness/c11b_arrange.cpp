// C11b harness: the event / status machine of the 2-D sweep (SweepPass::Run / ProcessEvent / TestPair / SplitAt /
// PendingAdd of boolean2_sweep.cpp) against the Lean model MV/Model/Arrange2.lean.
//
// The REAL SweepPass is driven (CollectArrangement / CollectThenMeasure / a SweepPass seeded by hand, all reached by
// including the source file, and the library's own passes behind the public CrossSection API); the MANIFOLD_VERIF
// hook `onSweep2` records per event the status before / after the re-insertion / at exit, lo hi k, the Side of every
// status edge, every TestPair(i, j) call with the two edges and every SplitAt(idx, q).  One CASE per pass:
//   REQ  = the Seed calls + the answers of the three floating-point kernels (YAtX comparisons, cross-product signs,
//          constructed crossing points) on exactly the arguments the recorded run applied them to, all coordinates
//          replaced by their ranks (one monotone renumbering per axis);
//   EXP  = the recorded run in the format the Lean driver prints (`arr2 run`, see lean/Driver/Arrange2.lean);
//   PROP = oracles on the real run: events strictly increasing, GradientLess a strict weak order on every re-inserted
//          block and the block sorted, status drained; for arrangement passes driven here additionally: no two output
//          pieces cross properly (beyond a margin) and the signed ray-crossing number of the output equals that of
//          the input at sample points away from the edges.
// usage: c11b_arrange <nCases> [replay-kind replay-id]
#include <algorithm>
#include <cmath>
#include <cstdint>
#include <cstdlib>
#include <cstring>
#include <functional>
#include <limits>
#include <map>
#include <set>
#include <string>
#include <tuple>
#include <utility>
#include <vector>

#include "manifold/cross_section.h"
#include "manifold/optional_assert.h"
#include "boolean2.h"
#include "shared.h"
#include "verif_hooks.h"
#include "common.h"
#define SweepWinding c11b_harness_copy_of_SweepWinding
#define private public
#include "boolean2_sweep.cpp"
#undef private
#undef SweepWinding

using namespace manifold;
using hz::Rng;
typedef long double LD;

struct Runaway {};
struct Rec { int kind; const void* pass; std::vector<int64_t> vi; std::vector<double> vp; };
static std::vector<Rec> gLog;
static bool gRecord = false;

static long sPasses = 0, sEvents = 0, sTests = 0, sTestsGuarded = 0, sCross = 0, sOnInt = 0, sErase = 0, sBehind = 0, sMaxStatus = 0,
            sTipTop = 0, sTipBottom = 0, sTipMid = 0, sTipBelowAll = 0, sTipAboveAll = 0, sInsBottom = 0, sInsTop = 0, sForced = 0, sMaxK = 0,
            sVertical = 0, sSamples = 0, sPairTests = 0, sLibPasses = 0, sWindPasses = 0, sSkippedBig = 0, sRunaway = 0;

struct P2 { double x, y; };
static bool lexLess(P2 a, P2 b) { return a.x < b.x || (a.x == b.x && a.y < b.y); }
static bool eq(P2 a, P2 b) { return a.x == b.x && a.y == b.y; }

struct Ranks {
  std::map<double, int> xs, ys;
  void add(const std::vector<double>& vp) { for (size_t i = 0; i + 1 < vp.size(); i += 2) { xs[vp[i]]; ys[vp[i + 1]]; } }
  void finish() { int i = 0; for (auto& kv : xs) kv.second = i++; i = 0; for (auto& kv : ys) kv.second = i++; }
  std::string pt(double x, double y) const { return std::to_string(xs.at(x)) + " " + std::to_string(ys.at(y)); }
  std::string pt(P2 p) const { return pt(p.x, p.y); }
};

static int sgnCmp(double a, double b) { return a < b ? -1 : a > b ? 1 : a == b ? 0 : 2; }

struct SeedEdge { P2 a, b; int64_t m; };

// ------------------------------------------------------------------------------------------------ one pass -> one case
// `seeds`: the Seed calls (empty: take the pending_ dump of the kSweepRun record). `log` = records of one pass.
static void emitPass(const std::string& tag, const std::vector<Rec>& log, std::vector<SeedEdge> seeds, bool ok, std::string msg) {
  if (log.empty() || log.front().kind != verif::kSweepRun || log.back().kind != verif::kSweepRunEnd) {
    hz::emit(tag, "", "", false, "hook trace of the pass is incomplete (" + std::to_string(log.size()) + " records)");
    return;
  }
  sPasses++;
  const Rec& run = log.front();
  const int mode = (int)run.vi[0], rule = (int)run.vi[1];
  if (mode == 1) sWindPasses++;
  if (seeds.empty())
    for (int64_t i = 0; i < run.vi[2]; i++) seeds.push_back({{run.vp[4 * i], run.vp[4 * i + 1]}, {run.vp[4 * i + 2], run.vp[4 * i + 3]}, run.vi[3 + i]});
  Ranks rk;
  for (auto& r : log) rk.add(r.vp);
  for (auto& s : seeds) rk.add({s.a.x, s.a.y, s.b.x, s.b.y});
  rk.finish();

  std::set<std::string> Y, G, X;
  auto addY = [&](P2 lo, P2 hi, P2 v) { Y.insert(rk.pt(lo) + " " + rk.pt(hi) + " " + rk.pt(v) + " " + std::to_string(sgnCmp(YAtX(vec2(lo.x, lo.y), vec2(hi.x, hi.y), v.x), v.y))); };
  auto addOnInterior = [&](P2 v, P2 a, P2 b) {
    P2 lo = lexLess(a, b) ? a : b, hi = lexLess(a, b) ? b : a;
    if (eq(v, lo) || eq(v, hi) || lo.x == hi.x || v.x < lo.x || v.x > hi.x) return;
    addY(lo, hi, v);
  };
  std::string exp;
  int nEvents = 0;
  bool ahead = true;
  P2 prevP{0, 0}; bool havePrev = false;
  P2 curP{0, 0};
  std::string evHead, evMid, evCalls, evTested;
  size_t lastN = 0, lastEv = 0, lastPend = 0;
  for (size_t ri = 1; ri + 1 < log.size(); ri++) {
    const Rec& r = log[ri];
    switch (r.kind) {
      case verif::kSweepEventBegin: {
        nEvents++; sEvents++;
        curP = {r.vp[0], r.vp[1]};
        /* with a crossing constructed behind the sweep the queue goes back: counted as behind=, not a failure */ if (havePrev && !lexLess(prevP, curP) && ahead && ok) { ok = false; char b[200]; snprintf(b, sizeof b, "event (%.17g,%.17g) processed after (%.17g,%.17g): not in lexicographic order", curP.x, curP.y, prevP.x, prevP.y); msg = b; }
        prevP = curP; havePrev = true;
        int64_t n = r.vi[0];
        sMaxStatus = std::max<long>(sMaxStatus, (long)n);
        for (int64_t i = 0; i < n; i++) {
          P2 l{r.vp[2 + 4 * i], r.vp[3 + 4 * i]}, rr{r.vp[4 + 4 * i], r.vp[5 + 4 * i]};
          if (eq(rr, curP) || l.x == rr.x) continue;
          P2 lo = lexLess(l, rr) ? l : rr, hi = lexLess(l, rr) ? rr : l;
          if (curP.x < lo.x || curP.x > hi.x) continue;
          addY(lo, hi, curP);
        }
        evHead = rk.pt(curP);
        evCalls.clear(); evTested.clear();
        break;
      }
      case verif::kSweepEventMid: {
        int64_t lo = r.vi[0], hi = r.vi[1], k = r.vi[2], nOld = r.vi[3];
        std::string cls;
        bool forced = false;
        for (int64_t i = 0; i < nOld; i++) { cls += (char)('0' + r.vi[4 + i]); if (i >= lo && i < hi && r.vi[4 + i] != 3) forced = true; }
        if (forced) sForced++;
        int64_t n = r.vi[4 + nOld];
        std::string seqs;
        std::vector<SweepEdge> st;
        for (int64_t i = 0; i < n; i++) {
          seqs += (i ? " " : "") + std::to_string((long long)r.vi[5 + nOld + 2 * i]);
          st.push_back({vec2(r.vp[4 * i], r.vp[4 * i + 1]), vec2(r.vp[4 * i + 2], r.vp[4 * i + 3]), r.vi[6 + nOld + 2 * i], (uint64_t)r.vi[5 + nOld + 2 * i]});
          if (st.back().l.x == st.back().r.x && i >= lo && i < lo + k) sVertical++;
        }
        sMaxK = std::max<long>(sMaxK, (long)k);
        const bool removedAny = hi > lo;
        if (mode == 0) {
          if (k == 0 && removedAny) {
            if (n == 0) {}
            else if (lo == 0) sTipBelowAll++;
            else if (lo == n) sTipAboveAll++;
            else if (lo + 1 == n) sTipTop++;
            else if (lo == 1) sTipBottom++;
            else sTipMid++;
          }
          if (k > 0 && lo == 0 && lo + k < n) sInsBottom++;
          if (k > 0 && lo > 0 && lo + k == n) sInsTop++;
        }
        // the re-inserted block: cross-product signs for every ordered pair, and the strict-weak-order oracle on the real comparator
        for (int64_t i = lo; i < lo + k; i++)
          for (int64_t j = lo; j < lo + k; j++) {
            if (i == j) continue;
            const SweepEdge &a = st[i], &b = st[j];
            if (a.l.x != a.r.x && b.l.x != b.r.x) {
              const double c = la::cross(a.r - a.l, b.r - b.l);
              G.insert(rk.pt(a.l.x, a.l.y) + " " + rk.pt(a.r.x, a.r.y) + " " + rk.pt(b.l.x, b.l.y) + " " + rk.pt(b.r.x, b.r.y) + " " + std::to_string(c > 0 ? 1 : c < 0 ? -1 : 0));
            }
            const bool ab = SweepPass::GradientLess(a, b), ba = SweepPass::GradientLess(b, a);
            if (ab == ba && ok) { ok = false; msg = "GradientLess is not a strict total order on the edges leaving an event (seq " + std::to_string((long long)a.seq) + "," + std::to_string((long long)b.seq) + ")"; }
            if (i < j && ba && ok) { ok = false; msg = "re-inserted block not sorted by GradientLess (seq " + std::to_string((long long)a.seq) + " before " + std::to_string((long long)b.seq) + ")"; }
            if (k <= 24)
              for (int64_t l = lo; l < lo + k; l++)
                if (l != i && l != j && ab && SweepPass::GradientLess(b, st[l]) && !SweepPass::GradientLess(a, st[l]) && ok) { ok = false; msg = "GradientLess is not transitive on the edges leaving an event"; }
          }
        evMid = std::to_string((long long)lo) + " " + std::to_string((long long)hi) + " " + std::to_string((long long)k) + " : " + (cls.empty() ? "-" : cls) + " : " + (seqs.empty() ? "-" : seqs);
        break;
      }
      case verif::kSweepTestPair: {
        sTests++;
        evCalls += (evCalls.empty() ? "" : " ") + std::to_string((long long)r.vi[0]) + " " + std::to_string((long long)r.vi[1]);
        if (r.vi.size() >= 4) {
          sTestsGuarded++;
          evTested += (evTested.empty() ? "" : " ") + std::to_string((long long)r.vi[2]) + " " + std::to_string((long long)r.vi[3]);
          P2 al{r.vp[0], r.vp[1]}, ar{r.vp[2], r.vp[3]}, bl{r.vp[4], r.vp[5]}, br{r.vp[6], r.vp[7]};
          addOnInterior(br, al, ar);
          addOnInterior(ar, bl, br);
          // the outcome: two SplitAt records with one q = a constructed crossing; one = an OnInterior split
          size_t s = ri + 1; int nsplit = 0; P2 q{0, 0}; bool same = true;
          while (s < log.size() && log[s].kind == verif::kSweepSplit) { P2 qq{log[s].vp[0], log[s].vp[1]}; if (nsplit && !eq(q, qq)) same = false; q = qq; nsplit++; s++; }
          if (nsplit == 2 && same) {
            sCross++;
            X.insert(rk.pt(al) + " " + rk.pt(ar) + " " + rk.pt(bl) + " " + rk.pt(br) + " " + rk.pt(q));
            if (!lexLess(curP, q)) { ahead = false; sBehind++; }
            if (eq(q, al) || eq(q, bl)) sErase++;
          } else if (nsplit == 1) sOnInt++;
          else if (nsplit != 0 && ok) { ok = false; msg = "unexpected SplitAt pattern after TestPair"; }
        }
        break;
      }
      case verif::kSweepSplit: break;
      case verif::kSweepEventEnd: {
        int64_t n = r.vi[0];
        std::string dump;
        for (int64_t i = 0; i < n; i++)
          dump += (i ? " " : "") + std::to_string((long long)r.vi[1 + 2 * i]) + " " + rk.pt(r.vp[4 * i], r.vp[4 * i + 1]) + " " + rk.pt(r.vp[4 * i + 2], r.vp[4 * i + 3]) + " " + std::to_string((long long)r.vi[2 + 2 * i]);
        lastN = (size_t)n; lastEv = (size_t)r.vi[1 + 2 * n]; lastPend = (size_t)r.vi[2 + 2 * n];
        exp += " # " + evHead + " : " + evMid + " : " + (evCalls.empty() ? "-" : evCalls) + " : " + (evTested.empty() ? "-" : evTested) + " : " + (dump.empty() ? "-" : dump) + " : " +
               std::to_string(lastEv) + " " + std::to_string(lastPend);
        break;
      }
      default: break;
    }
  }
  const bool drained = lastN == 0 && lastEv == 0 && lastPend == 0;
  if (!drained && ok) { ok = false; msg = "the sweep left live edges after draining"; }
  // out_ before the vertical merge, and the merge done by the REAL MergeVerticals1D on a copy
  const Rec& end = log.back();
  PolySet2 outRaw;
  std::string outS;
  for (int64_t i = 0; i < end.vi[0]; i++) {
    outRaw.emplace(std::make_pair(vec2(end.vp[4 * i], end.vp[4 * i + 1]), vec2(end.vp[4 * i + 2], end.vp[4 * i + 3])), end.vi[1 + i]);
    outS += (i ? " ; " : "") + rk.pt(end.vp[4 * i], end.vp[4 * i + 1]) + " " + rk.pt(end.vp[4 * i + 2], end.vp[4 * i + 3]) + " " + std::to_string((long long)end.vi[1 + i]);
  }
  PolySet2 merged = outRaw;
  MergeVerticals1D(merged);
  std::string mergedS; bool first = true;
  for (auto& kv : merged) { mergedS += (first ? "" : " ; ") + rk.pt(kv.first.first.x, kv.first.first.y) + " " + rk.pt(kv.first.second.x, kv.first.second.y) + " " + std::to_string((long long)kv.second); first = false; }
  exp = std::string(ahead ? "1" : "0") + " " + (drained ? "1" : "0") + " " + std::to_string(nEvents) + exp + " # out " + (outS.empty() ? "empty" : outS) + " # merged " + (mergedS.empty() ? "empty" : mergedS);

  std::string req = std::string("arr2 run ") + (mode == 0 ? "arr " : "wind ") + (rule == 0 ? "add" : rule == 1 ? "intersect" : "evenodd") + " " + std::to_string(nEvents + 1) + " |";
  for (size_t i = 0; i < seeds.size(); i++) req += std::string(i ? " ; " : " ") + rk.pt(seeds[i].a) + " " + rk.pt(seeds[i].b) + " " + std::to_string((long long)seeds[i].m);
  auto sect = [&](const std::set<std::string>& S) { req += " |"; bool f = true; for (auto& s : S) { req += (f ? " " : " ; ") + s; f = false; } };
  sect(Y); sect(G); sect(X);
  if (!ok && seeds.size() <= 60) {  // the concrete input of a failing oracle: the Seed calls with their coordinates
    msg += " seeds=";
    char b[200];
    for (auto& s : seeds) { snprintf(b, sizeof b, "[(%.17g,%.17g)->(%.17g,%.17g) m=%lld]", s.a.x, s.a.y, s.b.x, s.b.y, (long long)s.m); msg += b; }
    msg += std::string(" rule=") + (rule == 0 ? "Add" : rule == 1 ? "Intersect" : "EvenOdd") + (mode == 0 ? " mode=Arrangement" : " mode=Winding");
  }
  hz::emit(tag + " ev=" + std::to_string(nEvents) + " seeds=" + std::to_string(seeds.size()), req, exp, ok, msg);
}

// ------------------------------------------------------------------------------------------------ oracles on an arrangement
static LD orientLD(P2 a, P2 b, P2 c) { return ((LD)b.x - a.x) * ((LD)c.y - a.y) - ((LD)b.y - a.y) * ((LD)c.x - a.x); }
static LD lenLD(P2 a, P2 b) { return hypotl((LD)b.x - a.x, (LD)b.y - a.y); }
static LD distSeg(LD px, LD py, P2 a, P2 b) {
  LD dx = (LD)b.x - a.x, dy = (LD)b.y - a.y, l2 = dx * dx + dy * dy;
  LD t = l2 > 0 ? ((px - a.x) * dx + (py - a.y) * dy) / l2 : 0;
  t = t < 0 ? 0 : t > 1 ? 1 : t;
  LD qx = a.x + t * dx - px, qy = a.y + t * dy - py;
  return sqrtl(qx * qx + qy * qy);
}
struct ME { P2 a, b; int64_t m; };
static std::vector<ME> chainOf(const PolySet2& ps) { std::vector<ME> v; for (auto& kv : ps) v.push_back({{kv.first.first.x, kv.first.first.y}, {kv.first.second.x, kv.first.second.y}, kv.second}); return v; }
// signed number of crossings of the ray from (px,py) towards +x (Sunday's half-open rule), with multiplicities
static long long rayNumber(const std::vector<ME>& es, LD px, LD py) {
  long long w = 0;
  for (auto& e : es) {
    bool ua = (LD)e.a.y <= py, ub = (LD)e.b.y <= py;
    if (ua == ub) continue;
    LD cr = ((LD)e.b.x - e.a.x) * (py - e.a.y) - ((LD)e.b.y - e.a.y) * (px - e.a.x);
    if (ua) { if (cr > 0) w += e.m; } else { if (cr < 0) w -= e.m; }
  }
  return w;
}
static std::string arrangementOracle(Rng& r, const std::vector<ME>& in, const std::vector<ME>& out, double scale) {
  const LD margin = 1e-7L * scale;
  // (a) no two output pieces cross properly, every endpoint farther than `margin` from the other piece's line
  for (size_t i = 0; i < out.size(); i++)
    for (size_t j = i + 1; j < out.size(); j++) {
      const ME &e = out[i], &f = out[j];
      if (std::max(e.a.x, e.b.x) < std::min(f.a.x, f.b.x) || std::max(f.a.x, f.b.x) < std::min(e.a.x, e.b.x)) continue;
      if (std::max(e.a.y, e.b.y) < std::min(f.a.y, f.b.y) || std::max(f.a.y, f.b.y) < std::min(e.a.y, e.b.y)) continue;
      sPairTests++;
      LD o1 = orientLD(e.a, e.b, f.a), o2 = orientLD(e.a, e.b, f.b), o3 = orientLD(f.a, f.b, e.a), o4 = orientLD(f.a, f.b, e.b);
      LD le = lenLD(e.a, e.b), lf = lenLD(f.a, f.b);
      if (fabsl(o1) <= margin * le || fabsl(o2) <= margin * le || fabsl(o3) <= margin * lf || fabsl(o4) <= margin * lf) continue;
      if ((o1 > 0) != (o2 > 0) && (o3 > 0) != (o4 > 0)) {
        char b[400];
        snprintf(b, sizeof b, "arrangement pieces cross: (%.17g,%.17g)-(%.17g,%.17g) x (%.17g,%.17g)-(%.17g,%.17g)", e.a.x, e.a.y, e.b.x, e.b.y, f.a.x, f.a.y, f.b.x, f.b.y);
        return b;
      }
    }
  // (b) the signed ray-crossing number is preserved at points away from every edge
  double x0 = 1e300, x1 = -1e300, y0 = 1e300, y1 = -1e300;
  for (auto& e : in) for (P2 p : {e.a, e.b}) { x0 = std::min(x0, p.x); x1 = std::max(x1, p.x); y0 = std::min(y0, p.y); y1 = std::max(y1, p.y); }
  if (!(x1 >= x0)) return "";
  std::vector<std::pair<LD, LD>> pts;
  for (int i = 0; i < 60; i++) pts.push_back({x0 - 0.05 * scale + (x1 - x0 + 0.1 * scale) * (r.below(1000001) / 1e6), y0 - 0.05 * scale + (y1 - y0 + 0.1 * scale) * (r.below(1000001) / 1e6)});
  for (auto& e : out) {
    LD len = lenLD(e.a, e.b); if (!(len > 0)) continue;
    LD t = 0.2L + 0.6L * (r.below(1001) / 1000.0L), mx = e.a.x + t * ((LD)e.b.x - e.a.x), my = e.a.y + t * ((LD)e.b.y - e.a.y), nx = -((LD)e.b.y - e.a.y) / len, ny = ((LD)e.b.x - e.a.x) / len;
    for (LD d : {(LD)(1e-5 * scale), (LD)(1e-2 * scale)}) { pts.push_back({mx + d * nx, my + d * ny}); pts.push_back({mx - d * nx, my - d * ny}); }
  }
  for (auto& pt : pts) {
    bool near = false;
    for (auto& e : in) if (distSeg(pt.first, pt.second, e.a, e.b) < margin) { near = true; break; }
    if (!near) for (auto& e : out) if (distSeg(pt.first, pt.second, e.a, e.b) < margin) { near = true; break; }
    if (near) continue;
    sSamples++;
    long long wi = rayNumber(in, pt.first, pt.second), wo = rayNumber(out, pt.first, pt.second);
    if (wi != wo) { char b[300]; snprintf(b, sizeof b, "ray-crossing number at (%.17Lg,%.17Lg): input %lld, arrangement %lld", pt.first, pt.second, wi, wo); return b; }
  }
  return "";
}

// ------------------------------------------------------------------------------------------------ generators
static void addSeg(PolySet2& ps, double ax, double ay, double bx, double by, int64_t m) { PolySetAdd(ps, vec2(ax, ay), vec2(bx, by), m); }
static void addLoop(PolySet2& ps, const std::vector<vec2>& l, int64_t m) { for (size_t i = 0; i < l.size(); i++) PolySetAdd(ps, l[i], l[(i + 1) % l.size()], m); }

static PolySet2 genScene(Rng& r, std::string& kind, double& scale) {
  PolySet2 ps; scale = 10;
  int k = (int)r.below(9);
  auto rnd = [&](double lo, double hi) { return lo + (hi - lo) * (r.below(1000001) / 1e6); };
  switch (k) {
    case 0: {  // random segments on a small lattice: shared endpoints, verticals, collinear overlaps, lattice and off-lattice crossings
      kind = "lattice";
      int n = 3 + (int)r.below(14), G = 3 + (int)r.below(5);
      for (int i = 0; i < n; i++) addSeg(ps, r.range(0, G), r.range(0, G), r.range(0, G), r.range(0, G), r.below(4) ? 1 : r.range(-2, 2));
      scale = G;
      break;
    }
    case 1: {  // lattice rectangles and their copies
      kind = "rects";
      int n = 2 + (int)r.below(5);
      for (int i = 0; i < n; i++) { int x0 = r.range(0, 6), y0 = r.range(0, 6), x1 = r.range(x0 + 1, 8), y1 = r.range(y0 + 1, 8); addLoop(ps, {vec2(x0, y0), vec2(x1, y0), vec2(x1, y1), vec2(x0, y1)}, r.below(4) ? 1 : -1); }
      scale = 8;
      break;
    }
    case 2: case 3: case 4: {  // rails with a tip (two edges ending, none starting) below / between / above them; neighbouring rails cross beyond the tip
      int where = k - 2;  // 0: gap above the bottom rail, 1: a middle gap, 2: the gap under the top-most rail
      kind = where == 0 ? "tipbottom" : where == 1 ? "tipmid" : "tiptop";
      int nr = 2 + (int)r.below(5);
      if (where == 1 && nr < 4) nr = 4;
      int gap = where == 0 ? 0 : where == 2 ? nr - 2 : 1 + (int)r.below(nr - 3);
      double x0 = rnd(-2, 2);
      std::vector<double> c(nr), s(nr);
      // ordinates at x0 strictly increasing with spacing >= 1; slopes random but rails `gap` and `gap+1` converge to cross at xc in (x0+0.5, 9)
      double y = rnd(-3, 3);
      for (int i = 0; i < nr; i++) { c[i] = y; y += rnd(1.0, 2.0); s[i] = rnd(-0.05, 0.05); }
      double xc = x0 + rnd(0.5, 6.0), dy = c[gap + 1] - c[gap];
      s[gap] = s[gap + 1] + dy / (xc - x0);  // lower rail rises to meet the upper one at xc
      // make sure no rail crosses another before x0 (left end -10): order at x=-10 must be the same; adjust by using small slopes except the converging pair
      for (int i = 0; i < nr; i++) addSeg(ps, -10, c[i] + s[i] * (-10 - x0), 10, c[i] + s[i] * (10 - x0), r.below(3) ? 1 : -1);
      // the tip: a thin triangle strictly between rails gap and gap+1 at x0
      double ty = c[gap] + dy * rnd(0.3, 0.7), h = dy * 0.1, w = rnd(0.2, 1.0);
      addLoop(ps, {vec2(x0 - w, ty - h), vec2(x0, ty), vec2(x0 - w, ty + h)}, 1);
      if (r.below(2)) for (int i = 0, n = (int)r.below(4); i < n; i++) addSeg(ps, rnd(-9, 9), rnd(-8, 12), rnd(-9, 9), rnd(-8, 12), 1);
      scale = 20;
      break;
    }
    case 5: {  // near-concurrent crossings: lines through (almost) one point
      kind = "nearconc";
      int n = 3 + (int)r.below(7); double pert = std::pow(10.0, -(double)r.range(3, 15));
      for (int i = 0; i < n; i++) {
        double a = M_PI * (i + 0.5 * rnd(0, 1)) / n + 0.01, cx = pert * rnd(-1, 1), cy = pert * rnd(-1, 1);
        addSeg(ps, cx - 5 * cos(a), cy - 5 * sin(a), cx + 5 * cos(a), cy + 5 * sin(a), r.below(2) ? 1 : -1);
      }
      if (r.below(2)) addSeg(ps, 0, -6, 0, 6, 1);  // a vertical through the cluster
      scale = 10;
      break;
    }
    case 6: {  // random segments with real coordinates
      kind = "random";
      int n = 3 + (int)r.below(16);
      for (int i = 0; i < n; i++) addSeg(ps, rnd(-5, 5), rnd(-5, 5), rnd(-5, 5), rnd(-5, 5), r.below(3) ? 1 : -2);
      scale = 10;
      break;
    }
    case 7: {  // stars / bow-ties sharing vertices, a few verticals
      kind = "loops";
      int m = 1 + (int)r.below(3);
      for (int i = 0; i < m; i++) {
        int n = 5 + (int)r.below(5), kk = 2; double ph = rnd(0, 6.28), cx = rnd(-1, 1), cy = rnd(-1, 1), rad = rnd(2, 4);
        std::vector<vec2> l; for (int j = 0; j < n; j++) { double a = ph + 2 * M_PI * ((j * kk) % n) / n; l.push_back(vec2(cx + rad * cos(a), cy + rad * sin(a))); }
        addLoop(ps, l, r.below(3) ? 1 : -1);
      }
      addLoop(ps, {vec2(-1, -3), vec2(1, -3), vec2(1, 3), vec2(-1, 3)}, 1);
      scale = 10;
      break;
    }
    default: {  // a fan of edges ending at one point from the left and starting from it to the right, between two long rails (insertion at bottom / top)
      kind = "fan";
      int nin = (int)r.below(4), nout = (int)r.below(4);
      bool lower = r.below(2), upper = r.below(2);
      for (int i = 0; i < nin; i++) addSeg(ps, -3 - rnd(0, 2), rnd(-3, 3), 0, 0, 1);
      for (int i = 0; i < nout; i++) addSeg(ps, 0, 0, 3 + rnd(0, 2), rnd(-6, 6), 1);
      if (r.below(3) == 0) addSeg(ps, 0, 0, 0, 2, 1);
      if (lower) addSeg(ps, -6, -4, 6, rnd(-4, 4), 1);
      if (upper) addSeg(ps, -6, 4, 6, rnd(-4, 4), 1);
      scale = 12;
    }
  }
  return ps;
}

static std::vector<Rec> takeLog() { std::vector<Rec> l; l.swap(gLog); return l; }
// split a log holding several passes (kSweepRun … kSweepRunEnd each)
static std::vector<std::vector<Rec>> splitPasses(std::vector<Rec> log) {
  std::vector<std::vector<Rec>> out;
  for (auto& r : log) { if (r.kind == verif::kSweepRun) out.emplace_back(); if (!out.empty()) out.back().push_back(std::move(r)); }
  return out;
}

static void directCaseBody(Rng& r, int id);
static void directCase(Rng& r, int id) {
  try { directCaseBody(r, id); }
  catch (const Runaway&) {
    gRecord = false; gLog.clear(); sRunaway++;
    hz::emit("arr-" + std::to_string(id) + " runaway", "", "", false, "the sweep did not terminate within 400000 trace records (direct case " + std::to_string(id) + " of this seed)");
  }
}
static void directCaseBody(Rng& r, int id) {
  std::string kind; double scale;
  PolySet2 arr = genScene(r, kind, scale);
  MergeVerticals1D(arr);  // as SweepWinding does before seeding
  const WindRule rules[3] = {WindRule::Add, WindRule::Intersect, WindRule::EvenOdd};
  WindRule rule = rules[r.below(3)];
  std::vector<ME> in = chainOf(arr);
  int variant = (int)r.below(3);
  std::string tag = "arr-" + std::to_string(id) + " " + kind + " n=" + std::to_string(arr.size());
  if (variant == 0) {  // the real CollectArrangement
    gLog.clear(); gRecord = true;
    PolySet2 out = CollectArrangement(arr, rule);
    gRecord = false;
    auto passes = splitPasses(takeLog());
    std::string msg = arrangementOracle(r, in, chainOf(out), scale);
    if (passes.size() != 1) { hz::emit(tag, "", "", false, "expected one pass"); return; }
    emitPass(tag + " via=collect", passes[0], {}, msg.empty(), msg);
  } else if (variant == 1) {  // a SweepPass seeded by hand: shuffled Seed calls, reversed edges, cancelling extras, split multiplicities
    std::vector<SeedEdge> seeds;
    for (auto& kv : arr) {
      P2 a{kv.first.first.x, kv.first.first.y}, b{kv.first.second.x, kv.first.second.y};
      int64_t m = kv.second;
      int how = (int)r.below(5);
      if (how == 0) { seeds.push_back({b, a, -m}); }
      else if (how == 1) { seeds.push_back({a, b, m + 2}); seeds.push_back({b, a, 2}); }
      else if (how == 2) { seeds.push_back({a, b, 5}); seeds.push_back({a, b, m - 5}); }
      else seeds.push_back({a, b, m});
      if (r.below(8) == 0) { seeds.push_back({a, b, 3}); seeds.push_back({a, b, -3}); }  // emplace then erase: the events stay
      if (r.below(12) == 0) seeds.push_back({a, a, 1});
      if (r.below(12) == 0) seeds.push_back({a, b, 0});
    }
    for (size_t i = seeds.size(); i > 1; i--) std::swap(seeds[i - 1], seeds[r.below(i)]);
    SweepPass pass(rule, SweepMode::Arrangement);
    for (auto& s : seeds) pass.Seed(vec2(s.a.x, s.a.y), vec2(s.b.x, s.b.y), s.m);
    gLog.clear(); gRecord = true;
    pass.Run();
    gRecord = false;
    auto passes = splitPasses(takeLog());
    std::string msg = arrangementOracle(r, in, chainOf(pass.Out()), scale);
    if (passes.size() != 1) { hz::emit(tag, "", "", false, "expected one pass"); return; }
    emitPass(tag + " via=seed", passes[0], seeds, msg.empty(), msg);
  } else {  // both passes: CollectThenMeasure (the winding pass replays the block rule without adjacency tests)
    gLog.clear(); gRecord = true;
    PolySet2 out = CollectThenMeasure(arr, rule);
    gRecord = false;
    auto passes = splitPasses(takeLog());
    if (passes.size() != 2) { hz::emit(tag, "", "", false, "expected two passes"); return; }
    emitPass(tag + " via=measure-arr", passes[0], {}, true, "");
    // oracle on the winding pass output: emitted multiplicities are +-1 (the fill indicator's coboundary)
    bool ok = true; std::string msg;
    for (auto& kv : out) if (kv.second < -2 || kv.second > 2) { ok = false; msg = "winding pass emitted multiplicity " + std::to_string((long long)kv.second); }
    emitPass("wind-" + std::to_string(id) + " " + kind + "-wind n=" + std::to_string(arr.size()) + " via=measure-wind", passes[1], {}, ok, msg);
  }
}

// the library's own passes behind the public API
static void libCaseBody(Rng& r, int id);
static void libCase(Rng& r, int id) {
  try { libCaseBody(r, id); }
  catch (const Runaway&) {
    gRecord = false; gLog.clear(); sRunaway++;
    hz::emit("lib-" + std::to_string(id) + " runaway", "", "", false, "a sweep under CrossSection::Boolean did not terminate within 400000 trace records (lib case " + std::to_string(id) + " of this seed)");
  }
}
static void libCaseBody(Rng& r, int id) {
  auto rnd = [&](double lo, double hi) { return lo + (hi - lo) * (r.below(1000001) / 1e6); };
  int k = (int)r.below(4);
  Polygons a, b;
  std::string kind;
  auto star = [&](double cx, double cy, double rad, int n, int kk) { SimplePolygon p; double ph = rnd(0, 6.28); for (int i = 0; i < n; i++) { double t = ph + 2 * M_PI * ((i * kk) % n) / n; p.push_back(vec2(cx + rad * cos(t), cy + rad * sin(t))); } return p; };
  if (k == 0) { kind = "libstar"; a.push_back(star(0, 0, 2, 5 + (int)r.below(4), 2)); b.push_back(star(0.3, 0.1, 2, 7, 3)); }
  else if (k == 1) { kind = "librects"; for (int i = 0; i < 3; i++) { int x0 = r.range(0, 5), y0 = r.range(0, 5), x1 = r.range(x0 + 1, 7), y1 = r.range(y0 + 1, 7); (i < 2 ? a : b).push_back({vec2(x0, y0), vec2(x1, y0), vec2(x1, y1), vec2(x0, y1)}); } }
  else if (k == 2) {  // the scene of the seeded change: a tip under the top-most edge, the two neighbours crossing beyond it
    kind = "libtip";
    double e = rnd(-0.2, 0.2);
    a.push_back({vec2(1, -0.5 + e), vec2(5, 0), vec2(1, 0.5 + e)});
    a.push_back({vec2(-2, -6), vec2(12, -1.2 + e), vec2(-2, -1)});
    b.push_back({vec2(-3, -8), vec2(14, -2), vec2(-3, 2.5 + e)});
  } else { kind = "libdiscs"; a.push_back(star(0, 0, 2, 8 + (int)r.below(8), 1)); b.push_back(star(1, 0.5, 2, 6 + (int)r.below(8), 1)); a.push_back(star(-1, 0.5, 1.5, 9, 1)); }
  int o = (int)r.below(3); OpType op = o == 0 ? OpType::Add : o == 1 ? OpType::Subtract : OpType::Intersect;
  gLog.clear(); gRecord = true;
  CrossSection A(a), B(b);
  CrossSection C = A.Boolean(B, op);
  (void)C.NumVert();
  gRecord = false;
  auto passes = splitPasses(takeLog());
  int pi = 0;
  for (auto& p : passes) {
    if (p.size() > 6000) { sSkippedBig++; continue; }
    sLibPasses++;
    emitPass("lib-" + std::to_string(id) + "-" + std::to_string(pi++) + " " + kind + (p.front().vi[0] == 0 ? "-arr" : "-wind") + " op=" + std::to_string(o), p, {}, true, "");
  }
}

int main(int argc, char** argv) {
  uint64_t seed = hz::envSeed();
  int nCases = argc > 1 ? atoi(argv[1]) : 200;
  int nLib = argc > 2 ? atoi(argv[2]) : nCases / 10;
  verif::hooks().onSweep2 = [](int kind, const void* pass, const std::vector<int64_t>& vi, const std::vector<double>& vp) {
    if (!gRecord) return;
    // a sweep over a few dozen segments that produces this many trace records is not terminating
    if (gLog.size() > 400000) { gRecord = false; throw Runaway(); }
    gLog.push_back({kind, pass, vi, vp});
  };
  { Rng r(seed + 4000037); for (int i = 0; i < nCases; i++) directCase(r, i); }
  { Rng r(seed + 5000011); for (int i = 0; i < nLib; i++) libCase(r, i); }
  printf("STATS passes=%ld windpasses=%ld libpasses=%ld events=%ld testpair=%ld testpair_guarded=%ld crossings=%ld oninterior=%ld erase=%ld behind=%ld maxstatus=%ld maxk=%ld "
         "tip_top=%ld tip_bottom=%ld tip_mid=%ld tip_belowall=%ld tip_aboveall=%ld ins_bottom=%ld ins_top=%ld forced=%ld vertical=%ld samples=%ld pairtests=%ld skippedbig=%ld runaway=%ld\n",
         sPasses, sWindPasses, sLibPasses, sEvents, sTests, sTestsGuarded, sCross, sOnInt, sErase, sBehind, sMaxStatus, sMaxK, sTipTop, sTipBottom, sTipMid, sTipBelowAll, sTipAboveAll,
         sInsBottom, sInsTop, sForced, sVertical, sSamples, sPairTests, sSkippedBig, sRunaway);
  return 0;
}
