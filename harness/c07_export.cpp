// C07 correspondence + provenance harness.
// For every random API program (progs.h) the result's Impl is dumped as the request
//   export all <isOriginal> <hasProp> | triRef | meshIDtransform | halfedges | payload hashes …
// and the real GetMeshGL64 as the expected answer (runIndex, runOriginalID, runFlags,
// runTransform bit patterns, faceID, triVerts, payload hashes of every output vertex,
// mergeFromVert, mergeToVert, tangent hashes).  A second case per program asks
// `mesh checkmerge` (verified checker, MV.C01a.checkMeshEx_iff) about the exported triangles and
// merge vectors; its expected answer is `ok genus <Genus()> edges <NumEdge()>`.
// PROP = geometric provenance oracle in long double, against the registered SOURCE meshes:
//   every output triangle names (run original ID, run transform, face ID) a non-empty source
//   face; its three vertices lie within 10*tolerance of the plane of the transformed face; its
//   normal agrees with the transformed face normal (opposite for back-side runs); when the
//   source's field is affine across the face (own face ID per source triangle, or channels built
//   affine in position) every property value equals the interpolated source value at that
//   position (within 1e-9 relative + |grad| * 10 * tolerance), and is exactly 0 for channels the
//   source lacks.
#include "progs.h"
using namespace pg;

struct V3 { ld x, y, z; };
static V3 operator-(V3 a, V3 b) { return {a.x - b.x, a.y - b.y, a.z - b.z}; }
static V3 cross(V3 a, V3 b) { return {a.y * b.z - a.z * b.y, a.z * b.x - a.x * b.z, a.x * b.y - a.y * b.x}; }
static ld dot(V3 a, V3 b) { return a.x * b.x + a.y * b.y + a.z * b.z; }
static ld norm(V3 a) { return sqrtl(dot(a, a)); }

struct Oracle { long tris = 0, propChecked = 0, propSkipped = 0, orientChecked = 0, backTris = 0, zeroChan = 0, unknownSrc = 0; };

static std::string provenance(const MeshGL64& g, const Registry& reg, Oracle& st) {
  const size_t np = g.numProp; const int kOut = (int)np - 3;
  const ld tol = g.tolerance;
  for (size_t run = 0; run < g.runOriginalID.size(); run++) {
    const size_t t0 = g.runIndex[run] / 3, t1 = g.runIndex[run + 1] / 3;
    if (t0 == t1) continue;
    auto it = reg.src.find(g.runOriginalID[run]);
    if (it == reg.src.end()) { st.unknownSrc++; return "run " + std::to_string(run) + " names original " + std::to_string(g.runOriginalID[run]) + " which no input of the program has"; }
    const Source& S = it->second;
    ld M[12]; if (g.runTransform.empty()) { ld I[12] = {1, 0, 0, 0, 1, 0, 0, 0, 1, 0, 0, 0}; for (int k = 0; k < 12; k++) M[k] = I[k]; } else for (int k = 0; k < 12; k++) M[k] = g.runTransform[12 * run + k];
    auto xf = [&](const std::array<double, 3>& p) { return V3{M[0] * p[0] + M[3] * p[1] + M[6] * p[2] + M[9], M[1] * p[0] + M[4] * p[1] + M[7] * p[2] + M[10], M[2] * p[0] + M[5] * p[1] + M[8] * p[2] + M[11]}; };
    const ld det = M[0] * (M[4] * M[8] - M[7] * M[5]) - M[3] * (M[1] * M[8] - M[7] * M[2]) + M[6] * (M[1] * M[5] - M[4] * M[2]);
    const bool back = g.runFlags.size() > run && (g.runFlags[run] & 1);
    // the source triangles in world coordinates
    std::vector<std::array<V3, 3>> SW(S.tris.size());
    for (size_t k = 0; k < S.tris.size(); k++) for (int i = 0; i < 3; i++) SW[k][i] = xf(S.pos[S.tris[k][i]]);
    const ld sgn0 = (det < 0 ? -1.0L : 1.0L) * (back ? -1.0L : 1.0L);
    struct Group { ld area = -1; size_t tri = 0; std::vector<size_t> members; };
    std::map<uint64_t, Group> groups;  // coplanar-group label -> its triangles (sources without user face IDs)
    for (size_t t = t0; t < t1; t++) {
      st.tris++; if (back) st.backTris++;
      V3 P[3]; for (int i = 0; i < 3; i++) { size_t v = g.triVerts[3 * t + i]; P[i] = {g.vertProperties[np * v], g.vertProperties[np * v + 1], g.vertProperties[np * v + 2]}; }
      int ref = -1; V3 W[3];
      if (S.userFace) {
        // the face ID is the user's: it must name a face of the source
        auto fi = S.byFace.find(g.faceID[t]);
        if (fi == S.byFace.end()) return "tri " + std::to_string(t) + " names face " + std::to_string(g.faceID[t]) + " which original " + std::to_string(g.runOriginalID[run]) + " does not have";
        ld best = -1;  // reference triangle of the face: the one of largest area
        for (int k : fi->second) { ld ar = norm(cross(SW[k][1] - SW[k][0], SW[k][2] - SW[k][0])); if (ar > best) { best = ar; ref = k; } }
      } else {
        // the face ID is the library's coplanar-group label (Refine renumbers it): the triangle must lie in the
        // plane of SOME face of the source, with the right orientation, and the whole group in one plane
        V3 N0 = cross(P[1] - P[0], P[2] - P[0]); ld e0 = std::max({norm(P[1] - P[0]), norm(P[2] - P[1]), norm(P[0] - P[2])}); bool orient = norm(N0) > 100 * tol * e0 && norm(N0) > 0;
        // source triangles that are slivers at tolerance scale define no plane
        auto fit = [&](int k) { V3 nn = cross(SW[k][1] - SW[k][0], SW[k][2] - SW[k][0]); ld l = norm(nn); ld ek = std::max({norm(SW[k][1] - SW[k][0]), norm(SW[k][2] - SW[k][1]), norm(SW[k][0] - SW[k][2])}); if (!(l > 1e6 * tol * ek)) return (ld)INFINITY; ld dmax = 0; for (int i = 0; i < 3; i++) dmax = std::max(dmax, fabsl(dot(P[i] - SW[k][0], nn)) / l); if (orient && sgn0 * dot(N0, nn) <= 0) return (ld)INFINITY; return dmax; };
        ld best = INFINITY; for (size_t k = 0; k < SW.size(); k++) { ld d = fit((int)k); if (d < best) { best = d; ref = (int)k; } }
        if (!(best <= 10 * tol)) { char b[220]; snprintf(b, sizeof b, "tri %zu (coplanar group %llu) lies in the plane of no face of original %u with the required orientation (closest %.3Le, tolerance %.3Le)", t, (unsigned long long)g.faceID[t], g.runOriginalID[run], best, tol); return b; }
        // all triangles carrying one coplanar-group label lie in one plane: that of the group's largest triangle
        auto& grp = groups[g.faceID[t]]; ld ar = norm(N0);
        if (ar > grp.area) { grp.area = ar; grp.tri = t; }
        grp.members.push_back(t);
      }
      for (int i = 0; i < 3; i++) W[i] = SW[ref][i];
      V3 n = cross(W[1] - W[0], W[2] - W[0]); ld nl = norm(n);
      if (!(nl > 0)) continue;  // degenerate source face: no plane to compare with
      const ld sgn = sgn0;
      for (int i = 0; i < 3; i++) {
        ld dist = fabsl(dot(P[i] - W[0], n)) / nl;
        if (dist > 10 * tol) { char b[200]; snprintf(b, sizeof b, "tri %zu corner %d is %.3Le from the plane of face %llu of original %u (tolerance %.3Le)", t, i, dist, (unsigned long long)g.faceID[t], g.runOriginalID[run], tol); return b; }
      }
      V3 N = cross(P[1] - P[0], P[2] - P[0]); ld Nl = norm(N);
      ld e = std::max({norm(P[1] - P[0]), norm(P[2] - P[1]), norm(P[0] - P[2])});
      if (Nl > 100 * tol * e && Nl > 0) {  // orientation is only defined for triangles that are not slivers at tolerance scale
        st.orientChecked++;
        if (sgn * dot(N, n) <= 0) { char b[200]; snprintf(b, sizeof b, "tri %zu is oriented against face %llu of original %u (backSide=%d det=%.3Lg)", t, (unsigned long long)g.faceID[t], g.runOriginalID[run], (int)back, det); return b; }
      }
      if (kOut == 0) continue;
      // channels the source lacks are exactly zero
      for (int i = 0; i < 3; i++) for (int j = S.numProp; j < kOut; j++) { st.zeroChan++; double v = g.vertProperties[np * g.triVerts[3 * t + i] + 3 + j]; if (v != 0.0) { char b[200]; snprintf(b, sizeof b, "tri %zu corner %d channel %d = %.17g but original %u has only %d channels", t, i, j, v, g.runOriginalID[run], S.numProp); return b; } }
      if (!((S.userFace && S.ownFace) || S.affine) || S.numProp == 0) { st.propSkipped++; continue; }
      // barycentric coordinates of P[i] in the (transformed) reference triangle
      V3 e0 = W[1] - W[0], e1 = W[2] - W[0]; ld d00 = dot(e0, e0), d01 = dot(e0, e1), d11 = dot(e1, e1), den = d00 * d11 - d01 * d01;
      if (!(den > 0)) { st.propSkipped++; continue; }
      ld alt = nl / std::max({norm(e0), norm(e1), norm(W[2] - W[1])});  // smallest altitude
      st.propChecked++;
      for (int i = 0; i < 3; i++) {
        V3 w = P[i] - W[0]; ld d20 = dot(w, e0), d21 = dot(w, e1);
        ld b1 = (d11 * d20 - d01 * d21) / den, b2 = (d00 * d21 - d01 * d20) / den, b0 = 1 - b1 - b2;
        if (S.userFace && S.ownFace) { ld slack = 10 * tol / alt + 1e-9L; if (b0 < -slack || b1 < -slack || b2 < -slack) { char b[200]; snprintf(b, sizeof b, "tri %zu corner %d lies outside source triangle (face %llu of original %u): barycentric %.3Lg %.3Lg %.3Lg", t, i, (unsigned long long)g.faceID[t], g.runOriginalID[run], b0, b1, b2); return b; } }
        for (int j = 0; j < S.numProp && j < kOut; j++) {
          ld s0 = S.props[(size_t)S.tris[ref][0] * S.numProp + j], s1 = S.props[(size_t)S.tris[ref][1] * S.numProp + j], s2 = S.props[(size_t)S.tris[ref][2] * S.numProp + j];
          ld want = b0 * s0 + b1 * s1 + b2 * s2;
          ld grad = (std::max({s0, s1, s2}) - std::min({s0, s1, s2})) / alt;
          ld allow = 1e-9L * std::max<ld>({1.0L, fabsl(s0), fabsl(s1), fabsl(s2)}) + grad * 10 * tol * 2;
          ld got = g.vertProperties[np * g.triVerts[3 * t + i] + 3 + j];
          if (fabsl(got - want) > allow && getenv("C07_DEBUG")) fprintf(stderr, "DEBUG tri %zu corner %d P=(%.6Lf %.6Lf %.6Lf) bary=(%.4Lf %.4Lf %.4Lf) src corner values=(%.4Lf %.4Lf %.4Lf) got %.6Lf ref=%d srcTri verts %llu %llu %llu\n", t, i, P[i].x, P[i].y, P[i].z, b0, b1, b2, s0, s1, s2, got, ref, (unsigned long long)S.tris[ref][0], (unsigned long long)S.tris[ref][1], (unsigned long long)S.tris[ref][2]);
          if (fabsl(got - want) > allow) { char b[260]; snprintf(b, sizeof b, "tri %zu corner %d channel %d = %.17Lg but the source field (face %llu of original %u) interpolates to %.17Lg (allowed %.3Le)", t, i, j, got, (unsigned long long)g.faceID[t], g.runOriginalID[run], want, allow); return b; }
        }
      }
    }
    for (auto& kv : groups) {
      const Group& G = kv.second; V3 Q[3];
      for (int i = 0; i < 3; i++) { size_t v = g.triVerts[3 * G.tri + i]; Q[i] = {g.vertProperties[np * v], g.vertProperties[np * v + 1], g.vertProperties[np * v + 2]}; }
      V3 nn = cross(Q[1] - Q[0], Q[2] - Q[0]); ld l = norm(nn); ld e = std::max({norm(Q[1] - Q[0]), norm(Q[2] - Q[1]), norm(Q[0] - Q[2])});
      if (!(l > 1e6 * tol * e)) continue;  // a group of slivers defines no plane
      for (size_t t : G.members) for (int i = 0; i < 3; i++) {
        size_t v = g.triVerts[3 * t + i]; V3 p = {g.vertProperties[np * v], g.vertProperties[np * v + 1], g.vertProperties[np * v + 2]};
        ld dist = fabsl(dot(p - Q[0], nn)) / l;
        if (dist > 10 * tol) { char b[220]; snprintf(b, sizeof b, "coplanar group %llu of original %u (run %zu) is not planar: tri %zu corner %d is %.3Le from the plane of its largest triangle %zu (tolerance %.3Le)", (unsigned long long)kv.first, g.runOriginalID[run], run, t, i, dist, G.tri, tol); return b; }
      }
    }
  }
  return "";
}

// The run clauses of C07, checked directly on the real output against the real relation table:
// contiguous cover (runIndex from 0 to 3*numTri, non-decreasing, multiples of 3, one longer than
// runOriginalID), non-empty runs sorted by original ID, empty runs last, one run per relation of
// meshIDtransform (an instance that contributes no triangle still trails as an empty run) and the same
// multiset of original IDs.
static std::string runClauses(const MeshGL64& g, const Manifold::Impl& impl) {
  const size_t nR = g.runOriginalID.size();
  if (g.runIndex.size() != nR + 1) return "runIndex is not one longer than runOriginalID";
  if (g.runIndex.front() != 0 || g.runIndex.back() != g.triVerts.size()) return "runs do not cover the triangles";
  for (size_t k = 0; k < nR; k++) { if (g.runIndex[k] > g.runIndex[k + 1]) return "runIndex decreases"; if (g.runIndex[k] % 3) return "runIndex not a multiple of 3"; }
  bool seenEmpty = false; int64_t last = -1;
  for (size_t k = 0; k < nR; k++) {
    const bool empty = g.runIndex[k] == g.runIndex[k + 1];
    if (empty) { seenEmpty = true; continue; }
    if (seenEmpty) return "a non-empty run follows an empty run";
    if ((int64_t)g.runOriginalID[k] < last) return "runs-unsorted: run " + std::to_string(k) + " has original ID " + std::to_string(g.runOriginalID[k]) + " after " + std::to_string(last);
    last = g.runOriginalID[k];
  }
  if (g.NumTri() > 0) {
    std::vector<uint32_t> a(g.runOriginalID.begin(), g.runOriginalID.end()), b;
    for (const auto& kv : impl.meshRelation_.meshIDtransform) b.push_back((uint32_t)kv.second.originalID);
    std::sort(a.begin(), a.end()); std::sort(b.begin(), b.end());
    if (a != b) return "runs-vs-relations: " + std::to_string(a.size()) + " runs for " + std::to_string(b.size()) + " instances in meshIDtransform (every instance, also one without triangles, must have exactly one run)";
  }
  return "";
}

int main(int argc, char** argv) {
  Rng r(hz::envSeed());
  const int T = argc > 1 ? atoi(argv[1]) : 120;
  Registry reg; GenOpts o; Oracle st; long nonEmpty = 0, multiRun = 0, withProps = 0, withMerge = 0, emptyRuns = 0, backRuns = 0;
  for (int t = 0; t < T; t++) {
    o.seamRefine = getenv("C07_FOCUS") ? true : t % 8 == 5;   // every 8th program: partial property seams + Refine(2)
    Prog P = randomProgram(r, reg, o);
    const Manifold& m = P.result;
    auto impl = implOf(m);
    MeshGL64 g = m.GetMeshGL64();
    std::string kind = m.Status() != Manifold::Error::NoError ? "error" : g.NumTri() == 0 ? "empty" : g.runOriginalID.size() > 1 ? "multirun" : "onerun";
    std::string tag = std::to_string(t) + " " + kind + " tris=" + std::to_string((uint64_t)g.NumTri()) + " runs=" + std::to_string(g.runOriginalID.size()) + " numProp=" + std::to_string((uint64_t)g.numProp) + " merges=" + std::to_string(g.mergeFromVert.size()) + " :: " + P.desc;
    std::string msg = m.Status() == Manifold::Error::NoError ? runClauses(g, *impl) : "";
    if (msg.empty() && m.Status() == Manifold::Error::NoError) msg = provenance(g, reg, st);
    if (!msg.empty() && getenv("C07_DEBUG")) { for (size_t q = 0; q < P.trace.size(); q++) { Oracle st2; MeshGL64 gq = P.trace[q].GetMeshGL64(); std::string mq = P.trace[q].Status() == Manifold::Error::NoError ? provenance(gq, reg, st2) : "error"; fprintf(stderr, "TRACE case %d pool[%zu] tris=%zu : %s\n", t, q, (size_t)gq.NumTri(), mq.c_str());
        if (getenv("C07_AT")) { double X, Y, Z; sscanf(getenv("C07_AT"), "%lf,%lf,%lf", &X, &Y, &Z); const size_t np = gq.numProp;
          for (size_t tt = 0; tt < gq.NumTri(); tt++) for (int i = 0; i < 3; i++) { size_t v = gq.triVerts[3 * tt + i]; double dx = gq.vertProperties[np * v] - X, dy = gq.vertProperties[np * v + 1] - Y, dz = gq.vertProperties[np * v + 2] - Z;
            if (dx * dx + dy * dy + dz * dz < 1e-10 && np > 3) { size_t run = 0; while (run + 1 < gq.runIndex.size() && gq.runIndex[run + 1] <= 3 * tt) run++; fprintf(stderr, "   AT pool[%zu] tri %zu corner %d propvert %zu ch0=%.4f face %llu orig %u\n", q, tt, i, v, gq.vertProperties[np * v + 3], (unsigned long long)gq.faceID[tt], gq.runOriginalID[run]); } } }
      } }
    if (!msg.empty() && getenv("C07_PAIRS")) {
      for (size_t i = 0; i < P.trace.size(); i++) for (size_t j = 0; j < P.trace.size(); j++) { if (i == j) continue;
        for (int clean = 1; clean >= 0; clean--) { ManifoldParams().cleanupTriangles = clean; Manifold rr = P.trace[i] - P.trace[j]; Oracle st2; MeshGL64 gq = rr.GetMeshGL64(); std::string mq = provenance(gq, reg, st2); ManifoldParams().cleanupTriangles = true;
          if (!mq.empty() || clean == 0) fprintf(stderr, "PAIR case %d pool[%zu]-pool[%zu] cleanup=%d tris=%zu : %s\n", t, i, j, clean, (size_t)gq.NumTri(), mq.substr(0, 90).c_str()); if (mq.empty()) break; } } }
    // classification of a property-value failure by the history of the program (keys of known_findings.txt)
    const bool propMsg = msg.find("interpolates to") != std::string::npos || msg.find("lies outside source triangle") != std::string::npos;
    const bool zeroMsg = msg.find("has only") != std::string::npos && msg.find("channels") != std::string::npos;
    const bool geomMsg = zeroMsg || msg.find("lies in the plane of no face") != std::string::npos || msg.find("from the plane of face") != std::string::npos || msg.find("is oriented against") != std::string::npos || msg.find("is not planar") != std::string::npos;
    if ((propMsg || geomMsg) && (P.desc.find("(self)") != std::string::npos || P.desc.find("(coincident)") != std::string::npos)) msg = "coincident-boolean: " + msg;
    hz::emit(tag, exportRequest(*impl), exportAnswer(g, normalsRewritten(*impl)), msg.empty(), msg);
    if (g.NumTri() > 0) {
      nonEmpty++; if (g.runOriginalID.size() > 1) multiRun++; if (g.numProp > 3) withProps++; if (!g.mergeFromVert.empty()) withMerge++;
      for (size_t k = 0; k < g.runOriginalID.size(); k++) { if (g.runIndex[k] == g.runIndex[k + 1]) emptyRuns++; if (g.runFlags[k] & 1) backRuns++; }
      hz::emit(std::to_string(t) + " checkmerge " + kind, checkMergeRequest(g), "ok genus " + std::to_string(m.Genus()) + " edges " + std::to_string(m.NumEdge()) + " verts " + std::to_string(m.NumVert()), true);
    }
  }
  printf("STATS programs=%d nonEmpty=%ld multiRun=%ld withProps=%ld withMerge=%ld emptyRuns=%ld backSideRuns=%ld oracleTris=%ld backSideTris=%ld orientChecked=%ld propTrisChecked=%ld propTrisSkipped=%ld zeroChannelValues=%ld sources=%zu\n",
         T, nonEmpty, multiRun, withProps, withMerge, emptyRuns, backRuns, st.tris, st.backTris, st.orientChecked, st.propChecked, st.propSkipped, st.zeroChan, reg.src.size());
  return 0;
}
