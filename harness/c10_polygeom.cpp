// C10b correspondence harness: the GEOMETRIC decisions of src/polygon.cpp versus the Lean model
// MV/Model/PolyGeom.lean run at Float, compared as IEEE bit patterns / exact verdicts.
// polygon.cpp is #included (with `private` opened) so that the anonymous-namespace functions
// IsConvex / TriangulateConvex and the private members of EarClip / EarClip::Vert (IsShort, Interior,
// InsideEdge, IsConvex, IsReflex, InterpY2X, EarCost, FindCloserBridge (first guess), Initialize, ClipIfDegenerate,
// BuildVertCollider) are called DIRECTLY: no re-implementation on the harness side.  libmanifold.a
// supplies tree2d / hooks; its own polygon.o is not pulled in (every symbol is defined here).
//
// Modes (argv[2]):  0 = ccw + isconvex + strip + precision,  1 = EarClip vertex predicates.
// Property oracles (long double, independent of the model) on every isconvex case:
//   (a) IsConvex accepted  =>  after dropping exactly repeated vertices no corner turns right by
//       more than 1e-9 relative (the statement the seeded `det <= 0 -> det < 0` change breaks);
//   (b) for rings known to be simple: IsConvex accepted => every TriangulateConvex triangle has
//       signed area >= -1e-9 relative, and the areas sum to the shoelace area.
#include <algorithm>
#include <array>
#include <atomic>
#include <cmath>
#include <cstddef>
#include <cstring>
#include <functional>
#include <iomanip>
#include <iostream>
#include <limits>
#include <map>
#include <memory>
#include <memory_resource>
#include <optional>
#include <set>
#include <sstream>
#include <unordered_map>
#include <utility>
#include <vector>
#include "manifold/polygon.h"
#include "manifold/manifold.h"
#include "manifold/optional_assert.h"
#include "parallel.h"
#include "polygon_internal.h"
#include "tree2d.h"
#include "utils.h"
#include "verif_hooks.h"
#include "common.h"
#define private public
#define protected public
#include "polygon.cpp"
#undef private
#undef protected
using namespace manifold;
using hz::Rng;

static std::string bits(double x) {
  if (std::isnan(x)) return "nan";
  uint64_t u; memcpy(&u, &x, 8); char b[20]; snprintf(b, sizeof b, "%016llx", (unsigned long long)u); return b;
}
static std::string pt(vec2 p) { return bits(p.x) + " " + bits(p.y); }
static std::map<std::string, long> gStats;

// ---- ring generators ---------------------------------------------------------------------
static SimplePolygon regular(Rng& r, int n, double rad) { SimplePolygon p; double ph = r.below(1000) * 0.00628; for (int i = 0; i < n; i++) { double a = ph + 2 * M_PI * i / n; p.push_back({rad * cos(a), rad * sin(a)}); } return p; }
static SimplePolygon star(Rng& r, int n, double rad, double jag) { SimplePolygon p; double ph = r.below(1000) * 0.00628; for (int i = 0; i < n; i++) { double a = ph + 2 * M_PI * i / n; double rr = rad * (1.0 - jag * (r.below(1000) / 1000.0)); p.push_back({rr * cos(a), rr * sin(a)}); } return p; }
// convex lattice polygon (exact arithmetic: collinear midpoints are exactly collinear)
static SimplePolygon latticeConvex(Rng& r) {
  static const int oct[8][2] = {{4, 0}, {7, 2}, {8, 5}, {6, 8}, {3, 9}, {0, 7}, {-1, 4}, {1, 1}};
  SimplePolygon p; int s = 1 + (int)r.below(3); for (int i = 0; i < 8; i++) if (r.below(4) || p.size() + (8 - i) <= 3) p.push_back({(double)oct[i][0] * s, (double)oct[i][1] * s});
  if (p.size() < 3) { p.clear(); for (int i = 0; i < 8; i += 2) p.push_back({(double)oct[i][0], (double)oct[i][1]}); }
  return p;
}
static SimplePolygon latticeL(Rng& r) { double a = 2 + (double)r.below(5), b = 1 + (double)r.below((size_t)a - 1); return {{0, 0}, {a, 0}, {a, b}, {b, b}, {b, a}, {0, a}}; }
static SimplePolygon latticeRandom(Rng& r, int n) { SimplePolygon p; for (int i = 0; i < n; i++) p.push_back({(double)r.below(5), (double)r.below(5)}); return p; }
enum Deco { DUP = 1, MID = 2, SPIKE = 4, NEAR = 8, TRIPLE = 16 };
// decorations; returns false if the ring may no longer be simple
static bool decorate(Rng& r, SimplePolygon& p, int deco, double tol) {
  SimplePolygon q; const size_t n = p.size(); bool simple = true;
  for (size_t i = 0; i < n; i++) {
    vec2 a = p[(i + n - 1) % n], b = p[i], c = p[(i + 1) % n];
    const double cr = (b.x - a.x) * (c.y - b.y) - (b.y - a.y) * (c.x - b.x);
    q.push_back(b);
    if ((deco & DUP) && (r.below(3) == 0 || (cr < 0 && r.below(4)))) { q.push_back(b); gStats[cr < 0 ? "dupReflex" : "dupConvex"]++; if ((deco & TRIPLE) && r.below(2)) { q.push_back(b); gStats["dupTriple"]++; } }
    if ((deco & SPIKE) && r.below(6) == 0) { q.push_back({b.x + (c.y - b.y) * 0.25, b.y - (c.x - b.x) * 0.25}); q.push_back(b); simple = false; gStats["spike"]++; }
    if ((deco & MID) && r.below(3) == 0) { vec2 m = {(b.x + c.x) / 2, (b.y + c.y) / 2}; gStats["collinear"]++;
      if ((deco & NEAR) && tol > 0) { static const double f[] = {-4, -2, -1.01, -1, -0.99, -0.5, -0.25, 0.25, 0.5, 0.99, 1, 1.01, 2, 4}; double k = f[r.below(14)]; double len = std::hypot(c.x - b.x, c.y - b.y); if (len > 0) { m.x += k * tol * (c.y - b.y) / len; m.y -= k * tol * (c.x - b.x) / len; } gStats["nearTol"]++; }
      q.push_back(m); if ((deco & DUP) && r.below(4) == 0) q.push_back(m); }
  }
  p = q; return simple;
}
struct Gen { Polygons polys; bool simple; std::string kind; double sc; };
static Gen genSet(Rng& r) {
  Gen g; g.simple = true; int k = (int)r.below(10); SimplePolygon p; bool lattice = false;
  switch (k) {
    case 0: p = regular(r, 3 + (int)r.below(10), 10); g.kind = "regular"; break;
    case 1: p = star(r, 3 + (int)r.below(12), 10, 0.45); g.kind = "star"; break;
    case 2: p = latticeConvex(r); lattice = true; g.kind = "latconvex"; break;
    case 3: p = latticeL(r); lattice = true; g.kind = "latL"; break;
    case 4: p = latticeRandom(r, 3 + (int)r.below(6)); lattice = true; g.simple = false; g.kind = "latrandom"; break;
    case 5: { vec2 a = {(double)r.below(9) - 4.0, (double)r.below(9) - 4.0}; int n = 1 + (int)r.below(6); for (int i = 0; i < n; i++) p.push_back(a); g.kind = "allequal"; break; }
    case 6: p = regular(r, 3 + (int)r.below(6), 10); g.kind = "regular"; break;
    case 7: p = latticeConvex(r); lattice = true; g.kind = "latconvex"; break;
    case 8: { int n = (int)r.below(3); for (int i = 0; i < n; i++) p.push_back({(double)r.below(5), (double)r.below(5)}); g.kind = "tiny"; g.simple = false; break; }
    default: p = star(r, 3 + (int)r.below(8), 10, 0.2); g.kind = "star"; break;
  }
  // scale: power of two on lattice rings (exactness preserved) or 10^k with a rotation
  double sc; if (lattice || r.below(3) == 0) { sc = std::ldexp(1.0, (int)r.below(41) - 20); for (auto& v : p) v = {v.x * sc, v.y * sc}; if (r.below(2)) { double tx = sc * ((double)r.below(17) - 8), ty = sc * ((double)r.below(17) - 8); for (auto& v : p) v = {v.x + tx, v.y + ty}; } }
  else { sc = std::pow(10.0, (int)r.below(13) - 6); double th = r.below(1000) * 0.00628, tx = (r.below(2001) - 1000.0) * sc * 0.01, ty = (r.below(2001) - 1000.0) * sc * 0.01; for (auto& v : p) { double x = v.x, y = v.y; v = {sc * (x * cos(th) - y * sin(th)) + tx, sc * (x * sin(th) + y * cos(th)) + ty}; } }
  g.sc = sc;
  int deco = 0; if (r.below(2)) deco |= DUP; if (r.below(3) == 0) deco |= TRIPLE; if (r.below(2)) deco |= MID; if (r.below(4) == 0) deco |= NEAR; if (r.below(6) == 0) deco |= SPIKE;
  if (k == 5 || k == 8) deco = 0;
  if (!decorate(r, p, deco, 1e-8 * sc * 10)) g.simple = false;
  if (deco & NEAR) g.simple = false;   // a pushed-in midpoint is a genuine reflex corner: fine for (a), excluded from (b)
  g.polys.push_back(p);
  if (r.below(5) == 0) { SimplePolygon q = regular(r, 3 + (int)r.below(5), 3 * sc); for (auto& v : q) v.x += 40 * sc; g.polys.push_back(q); g.kind += "+2nd"; }
  if (r.below(25) == 0) { auto& q = g.polys[0]; if (!q.empty()) { static const double bad[] = {NAN, INFINITY, -INFINITY, 1e308, -1e308, 5e-324, -0.0}; auto& v = q[r.below(q.size())]; (r.below(2) ? v.x : v.y) = bad[r.below(7)]; g.kind += "+nonfinite"; g.simple = false; } }
  return g;
}
static PolygonsIdx indexed(const Polygons& polys, std::vector<vec2>* flat = nullptr) {
  PolygonsIdx pi; int id = 0; for (auto& p : polys) { SimplePolygonIdx q; for (auto& v : p) { q.push_back({v, id++}); if (flat) flat->push_back(v); } pi.push_back(q); } return pi;
}
static double pickEps(Rng& r, double sc) {
  switch (r.below(8)) { case 0: return 0; case 1: return 1e-12 * sc; case 2: return 1e-8 * sc * 10; case 3: return 1e-5 * sc; case 4: return sc; case 5: return -1; case 6: return 1e-8 * sc * 10; default: return 1e-10 * sc; }
}

// ---- mode 0 ------------------------------------------------------------------------------
static void modeConvex(Rng& r, int T) {
  for (int t = 0; t < T; t++) {
    Gen g = genSet(r); std::vector<vec2> flat; PolygonsIdx pi = indexed(g.polys, &flat);
    double eps = pickEps(r, g.sc); if (r.below(40) == 0) eps = NAN;
    gStats["kind_" + g.kind]++;
    // --- isconvex
    const bool verdict = IsConvex(pi, eps);
    gStats[verdict ? "accepted" : "rejected"]++;
    std::ostringstream rq; rq << "polygeom isconvexv " << bits(eps); for (auto& p : g.polys) { rq << " R"; for (auto& v : p) rq << " " << pt(v); }
    bool ok = true; std::string msg;
    bool finite = true; for (auto& v : flat) if (!std::isfinite(v.x) || !std::isfinite(v.y)) finite = false;
    if (verdict && finite) {
      for (auto& p : g.polys) {   // oracle (a)
        SimplePolygon d; for (auto& v : p) if (d.empty() || !(d.back().x == v.x && d.back().y == v.y)) d.push_back(v);
        while (d.size() > 1 && d.back().x == d[0].x && d.back().y == d[0].y) d.pop_back();
        const size_t n = d.size(); if (n < 3) continue;
        for (size_t i = 0; i < n; i++) { vec2 a = d[(i + n - 1) % n], b = d[i], c = d[(i + 1) % n];
          long double e1x = (long double)b.x - a.x, e1y = (long double)b.y - a.y, e2x = (long double)c.x - b.x, e2y = (long double)c.y - b.y;
          long double cr = e1x * e2y - e1y * e2x, l1 = sqrtl(e1x * e1x + e1y * e1y), l2 = sqrtl(e2x * e2x + e2y * e2y);
          if (cr < -1e-9L * l1 * l2) { ok = false; msg = "IsConvex accepted a ring with a corner turning right (corner " + std::to_string(i) + " of the de-duplicated ring)"; } }
      }
      if (g.simple) {             // oracle (b)
        auto tris = TriangulateConvex(pi).Triangles(); long double sum = 0, absum = 0, polyA = 0;
        for (auto& p : g.polys) for (size_t i = 0; i < p.size(); i++) { auto u = p[i], v = p[(i + 1) % p.size()]; polyA += (long double)u.x * v.y - (long double)v.x * u.y; }
        for (auto& tr : tris) { vec2 a = flat[tr[0]], b = flat[tr[1]], c = flat[tr[2]]; long double ar = ((long double)b.x - a.x) * ((long double)c.y - a.y) - ((long double)b.y - a.y) * ((long double)c.x - a.x); sum += ar; absum += fabsl(ar);
          if (ar < -1e-9L * g.sc * g.sc * 100) { ok = false; msg = "TriangulateConvex emitted a clockwise triangle on an accepted simple ring"; } }
        if (fabsl(sum - polyA) > 1e-9L * (fabsl(polyA) + absum) + 1e-300L) { ok = false; msg = "strip triangle areas do not sum to the ring area"; }
        gStats["oracle_b"]++;
      }
    }
    hz::emit("v" + std::to_string(t) + " isconvex " + g.kind + (verdict ? " accepted" : " rejected"), rq.str(), verdict ? "1" : "0", ok, msg);
    // --- strip (only meaningful where the code may call it: every contour >= 3 vertices, or no contour)
    bool sizesOk = true; for (auto& p : g.polys) if (p.size() < 3) sizesOk = false;
    if (sizesOk) {
      auto tris = TriangulateConvex(pi).Triangles();
      std::ostringstream sq, ex; sq << "polygeom strip"; int id = 0; for (auto& p : g.polys) { sq << " R"; for (size_t i = 0; i < p.size(); i++) sq << " " << id++; }
      ex << "tris"; bool f = true; for (auto& tr : tris) { ex << (f ? " " : " , ") << tr[0] << " " << tr[1] << " " << tr[2]; f = false; }
      size_t want = 0; for (auto& p : g.polys) want += p.size() - 2;
      hz::emit("v" + std::to_string(t) + " strip " + g.kind, sq.str(), ex.str(), tris.size() == want, "TriangulateConvex: triangle count is not sum(n-2)");
    }
    // --- ccw on triples of the set (incl. repeated points) at several tolerances
    if (flat.size() >= 1) for (int q = 0; q < 3; q++) {
      vec2 a = flat[r.below(flat.size())], b = flat[r.below(flat.size())], c = flat[r.below(flat.size())];
      if (r.below(3) == 0) { double k = std::ldexp(1.0, -(int)r.below(60)); c = {a.x + (b.x - a.x) * 2 + k * g.sc * (b.y - a.y), a.y + (b.y - a.y) * 2 - k * g.sc * (b.x - a.x)}; }
      double tol = pickEps(r, g.sc); if (tol < 0) tol = -tol * 1e-9 * g.sc; if (r.below(30) == 0) tol = r.below(2) ? NAN : INFINITY;
      const int c1 = CCW(a, b, c, tol), c2 = CCW(b, c, a, tol), c3 = CCW(a, c, b, tol);
      std::string m2; bool pk = true;
      // antisymmetry under a swap of the last two points is exact in IEEE arithmetic (v1, v2 swap: area negates, base2 is a max of the same two numbers)
      bool tame = std::isfinite(tol); for (vec2 w : {a, b, c}) if (!(std::fabs(w.x) < 1e150 && std::fabs(w.y) < 1e150)) tame = false;   // NaN/inf/overflow: CCW answers -1 for both orders (area NaN), the model agrees
      if (tame && c3 != -c1) { pk = false; m2 = "CCW(p0,p2,p1) != -CCW(p0,p1,p2)"; }
      (void)c2;
      hz::emit("v" + std::to_string(t) + " ccw " + std::to_string(c1), "polygeom ccw " + pt(a) + " " + pt(b) + " " + pt(c) + " " + bits(tol), std::to_string(c1), pk, m2);
    }
    // --- the working epsilon of EarClip (Reset + Initialize, l.702)
    { EarClip<> ec; ec.Reset(eps); ec.polygon_.reserve(flat.size() + 2 * pi.size()); ec.Initialize(pi); double got = ec.GetPrecision();
      std::ostringstream pq; pq << "polygeom precision " << bits(eps); for (auto& v : flat) pq << " " << pt(v);
      hz::emit("v" + std::to_string(t) + " precision " + (eps < 0 ? "derived" : "given"), pq.str(), bits(got), true); }
  }
}

// ---- mode 1: EarClip vertex predicates ----------------------------------------------------
static void modeVerts(Rng& r, int T) {
  for (int t = 0; t < T; t++) {
    Gen g = genSet(r);
    // sometimes add a clockwise hole-like ring far to the right, and a second contour sharing the plane
    if (r.below(3) == 0) { SimplePolygon h = star(r, 3 + (int)r.below(6), 2 * g.sc, 0.3); std::reverse(h.begin(), h.end()); for (auto& v : h) { v.x += 0.5 * g.sc; v.y += 0.5 * g.sc; } g.polys.push_back(h); g.kind += "+hole"; }
    std::vector<vec2> flat; PolygonsIdx pi = indexed(g.polys, &flat);
    bool finite = true; for (auto& v : flat) if (!std::isfinite(v.x) || !std::isfinite(v.y)) finite = false;
    double eps = pickEps(r, g.sc);
    EarClip<> ec; ec.Reset(eps);
    size_t numVert = 0; for (auto& p : pi) numVert += p.size();
    ec.polygon_.reserve(numVert + 2 * pi.size());
    ec.Initialize(pi);
    const bool clipFirst = r.below(2) == 0;
    if (clipFirst) for (auto v = ec.polygon_.begin(); v != ec.polygon_.end(); ++v) ec.ClipIfDegenerate(v);
    eps = ec.epsilon_;
    const int N = (int)ec.polygon_.size(); if (N == 0) continue;
    auto ix = [&](EarClip<>::VertItr it) { return (int)(it - ec.polygon_.begin()); };
    std::ostringstream rq; rq << "polygeom verts " << bits(eps) << " " << N;
    for (auto& v : ec.polygon_) rq << " " << pt(v.pos) << " " << ix(v.left) << " " << ix(v.right) << " " << pt(v.rightDir) << " " << v.mesh_idx;
    rq << " Q"; std::ostringstream ex; bool first = true; auto sep = [&]() { if (!first) ex << " "; first = false; };
    std::vector<int> live; for (int i = 0; i < N; i++) if (!EarClip<>::Clipped(ec.polygon_.begin() + i)) live.push_back(i);
    gStats["verts"] += N; gStats["clippedVerts"] += N - (int)live.size(); gStats["kind_" + g.kind]++;
    for (int i = 0; i < N; i++) { rq << " clipped " << i; sep(); ex << (EarClip<>::Clipped(ec.polygon_.begin() + i) ? 1 : 0); }
    for (int i : live) {
      auto v = ec.polygon_.begin() + i;
      rq << " short " << i; sep(); ex << (v->IsShort(eps) ? 1 : 0);
      rq << " convex " << i; sep(); ex << (v->IsConvex(2 * eps) ? 1 : 0);
      rq << " degen " << i; sep(); ex << ((v->IsShort(eps) || (CCW(v->left->pos, v->pos, v->right->pos, eps) == 0 && la::dot(v->left->pos - v->pos, v->right->pos - v->pos) > 0)) ? 1 : 0);
      if (finite) { rq << " reflex " << i; sep(); bool b = v->IsReflex(eps); ex << (b ? 1 : 0); gStats[b ? "reflex1" : "reflex0"]++; }
      { vec2 q = flat[r.below(flat.size())]; if (r.below(2)) { q.x += (r.below(3) - 1.0) * eps * 0.7; q.y += (r.below(3) - 1.0) * eps * 0.7; }
        rq << " interior " << i << " " << pt(q); sep(); ex << v->Interior(q, eps); }
      { vec2 s = flat[r.below(flat.size())]; if (r.below(2)) s.y += (r.below(5) - 2.0) * eps * 0.6; int ot = (int)r.below(3) - 1;
        rq << " interp " << i << " " << pt(s) << " " << ot; sep(); ex << bits(v->InterpY2X(s, ot, eps)); }
      if (finite) for (int q = 0; q < 2; q++) { int tl = (int)r.below(2); int tail = live[r.below(live.size())];
        rq << " inside " << i << " " << tail << " " << tl; sep(); bool b = v->InsideEdge(ec.polygon_.begin() + tail, eps, tl); ex << (b ? 1 : 0); gStats[b ? "inside1" : "inside0"]++; }
    }
    // EarCost on every ring of >= 3 live vertices, with the real collider of that ring
    if (finite) {
      std::vector<char> seen(N, 0);
      for (int s : live) if (!seen[s]) {
        std::vector<int> ring; int v = s; do { ring.push_back(v); seen[v] = 1; v = ix(ec.polygon_[v].right); } while (v != s && (int)ring.size() <= N);
        if (ring.size() < 3) continue;
        ec.BuildVertCollider(ec.polygon_.begin() + s);
        for (int i : ring) { rq << " earcost " << i; sep(); double c = ec.polygon_[i].EarCost(eps, ec.collider_); ex << bits(c == 0 ? 0.0 : c);   /* sign of a zero maximum = k-d tree report order of tied candidates; not observable */ gStats[c < -eps ? "earValid" : "earInvalid"]++; }
      }
    }
    hz::emit("e" + std::to_string(t) + " verts " + g.kind + (clipFirst ? " clipped" : " initial"), rq.str(), ex.str(), true);
    // FindCloserBridge's first guess (l.807-815): with outers_ empty the CheckVert fold does not run, the call returns that guess
    if (finite && live.size() >= 2) for (int q = 0; q < 3; q++) {
      auto st = ec.polygon_.begin() + live[r.below(live.size())]; auto ed = ec.polygon_.begin() + live[r.below(live.size())];
      if (ed->right == ed) continue;
      ec.outers_.clear(); auto got = ec.FindCloserBridge(st, ed);
      hz::emit("e" + std::to_string(t) + " bridge " + g.kind, "polygeom bridge " + pt(st->pos) + " " + pt(ed->pos) + " " + pt(ed->right->pos), got == ed->right ? "1" : "0", got == ed->right || got == ed, "FindCloserBridge without outers returned neither edge nor edge->right");
    }
  }
}

int main(int argc, char** argv) {
  Rng r(hz::envSeed() * 2 + 11);
  int T = argc > 1 ? atoi(argv[1]) : 200; int mode = argc > 2 ? atoi(argv[2]) : 0;
  if (mode == 0) modeConvex(r, T); else modeVerts(r, T);
  printf("STATS"); for (auto& kv : gStats) printf(" %s=%ld", kv.first.c_str(), kv.second); printf("\n");
  return 0;
}
