import MV.Model.Par
import MV.Proof.ParScan
import MV.Props.C13a
