import MV.Model.Par
import MV.Proof.ParScan
import MV.Proof.ParSort
import MV.Props.C13a
import MV.Props.C13b
