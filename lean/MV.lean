import MV.Model.Par
