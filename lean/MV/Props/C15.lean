/-
Property C15 — cancellation is all-or-nothing at every point; progress is monotone, ends at 1.

  "If Cancel() takes effect at any moment of an evaluation observed through an ExecutionContext
   (Status of a deferred tree, Refine*, Hull, Minkowski*, FromMeshGL, Smooth, LevelSet), the call
   returns either the complete result identical to an uncancelled run or an empty Manifold with
   Error::Cancelled that stays Cancelled; no partially built mesh escapes, already evaluated operands
   are untouched, and rebuilding the expression from them with a fresh context gives the correct
   result. During one evaluation Progress() never decreases, never exceeds 1, and equals 1 after an
   uncancelled completion; a cancelled context short-circuits every later evaluation through it."

Model: MV/Model/Progress.lean. Generated facts: MV/Gen/Phases.lean (regenerated from the working tree by
tools/extract_phases.py on every run of the check).

What is proved here, for ALL interleavings / expressions / check positions:
* the generated constants and site counts agree, the stores are in the coded order, `ADVANCE_PHASE_OR_RETURN`
  tests before it credits, `GetCsgLeafNode` tops up on completion             (`decide` over MV.Gen.Phases)
* every non-cancelled return of `Boolean3::Result` publishes exactly `kPhasesPerBoolean`; a static
  factory that completes publishes exactly its constant, a cancelled one strictly less
* `progress_monotone_le_one`  : every interleaving of the evaluating thread's atomic counter updates with an
  observer's two loads, under the reset discipline stated at the theorem
* `tree_reductions_eq_leaves_minus_one`, `dag_reductions_le_leaves_minus_one`, `progress_one_at_end`
  (trees: also for the pinned code; DAGs: only with the `fix:` — the 5-node counterexample is an `example`)
* `cancel_all_or_nothing` : for every check index `k`, on one Impl (post-loop check discipline) and on an
  expression (poisoned caches): complete-and-identical or Cancelled; sticky; a fresh context re-evaluates
* `monitor_sound` : what the driver's acceptance of a real counter stream implies

NOT proved (checked by fault enumeration on the real code, harness/c15_cancel.cpp): that the C++ functions
have the shape of the model — in particular that every ctx-aware loop of the library IS followed by a check
before its output is consumed (`guarded` is a hypothesis here), that results are bit-identical, and that
operands are untouched. The number and the positions of the checks inside an operation are arbitrary in the
model, so the theorems cover every `k`; the tie to the code is the enumeration of every `k` on real programs.
-/
import MV.Proof.Progress
import MV.Model.CancelSites

namespace MV.Progress.C15
open MV.Progress MV.Gen.Phases

/-! ## 1. the generated tables -/

/-- `kPhasesPer*` equal the number of sites that credit one phase each. -/
theorem phase_sites_match :
    resultPhaseSites = kPhasesPerBoolean ∧
    meshCtorAdvanceSites = kPhasesPerFromMesh ∧
    kPhasesPerFromMesh + createTangentsAdvanceSites = kPhasesPerSmooth ∧
    createLevelSetAdvanceSites = kPhasesPerLevelSet := by decide

/-- Both resets store the numerators before the denominators (the coded order of the model). -/
theorem reset_order_numerators_first (b t : Nat) :
    resetOfOrder resetOrderCsg b t = resetCoded b t ∧ resetOfOrder resetOrderFactory b t = resetCoded b t := by
  constructor <;> rfl

/-- `ADVANCE_PHASE_OR_RETURN` tests the flag, then credits exactly one phase; `phase()` credits then tests and
`PhaseBalance` tops up to the constant unless cancelled; `GetCsgLeafNode` tops the numerators up after an
uncancelled `ToLeafNode` (the `fix:` for defect 2 — `false` on the pinned tree, where this theorem fails). -/
theorem credit_discipline :
    advanceChecksBeforeCredit = true ∧ advanceCredit = 1 ∧ phaseCreditsBeforeCheck = true ∧
    balanceTopsUpToK = true ∧ csgTopsUpOnCompletion = true := by decide

example : resetCoded 3 33 = [.stDoneB 0, .stDoneP 0, .stTotalB 3, .stTotalP 33] := rfl

/-! ## 2. one Boolean, one static factory -/

/-- Every non-cancelled return path of `Boolean3::Result` publishes exactly `kPhasesPerBoolean` phases
(an early return can have passed at most all the sites); a cancelled one at most that. -/
theorem boolean_publishes_exactly_k (p : ResultPath) :
    (∀ j, p = .early j → j ≤ resultPhaseSites → published resultPhaseSites kPhasesPerBoolean p = kPhasesPerBoolean) ∧
    (p = .full → published resultPhaseSites kPhasesPerBoolean p = kPhasesPerBoolean) ∧
    (∀ j, p = .cancelled j → j ≤ resultPhaseSites → published resultPhaseSites kPhasesPerBoolean p ≤ kPhasesPerBoolean) := by
  have h := phase_sites_match.1
  refine ⟨?_, ?_, ?_⟩
  · intro j hp hj; subst hp; simp only [published]; omega
  · intro hp; subst hp; simp only [published]; exact h
  · intro j hp hj; subst hp; simp only [published]; omega

example : published resultPhaseSites kPhasesPerBoolean (.early 1) = 11 := by decide

/-- the same statement shows why the counts must match: with one site more than the constant the full path
publishes 12 of 11 -/
example : published 12 11 .full = 12 := rfl

/-- A static factory that completes has `donePhases = totalPhases`; one cancelled at its `i`-th phase boundary
has strictly less ("credit is published only after a phase completes"). For each of the three factories. -/
theorem factory_progress (i : Nat) :
    factoryRun meshCtorAdvanceSites advanceChecksBeforeCredit none = (kPhasesPerFromMesh, false) ∧
    factoryRun (meshCtorAdvanceSites + createTangentsAdvanceSites) advanceChecksBeforeCredit none = (kPhasesPerSmooth, false) ∧
    factoryRun createLevelSetAdvanceSites advanceChecksBeforeCredit none = (kPhasesPerLevelSet, false) ∧
    (∀ sites, (factoryRun sites advanceChecksBeforeCredit (some i)).2 = true →
      (factoryRun sites advanceChecksBeforeCredit (some i)).1 < sites) := by
  refine ⟨by decide, by decide, by decide, ?_⟩
  intro sites h
  have hc : advanceChecksBeforeCredit = true := by decide
  rw [hc] at h ⊢
  simp only [factoryRun] at h ⊢
  by_cases hi : 1 ≤ i ∧ i ≤ sites
  · rw [if_pos hi]; simp only [if_true]; omega
  · rw [if_neg hi] at h; simp at h

/-- the mutation "credit before the cancel test": a run cancelled at the last boundary shows 100 % -/
example : factoryRun 6 false (some 6) = (6, true) := by decide
example : factoryRun 6 true (some 6) = (5, true) := by decide

/-! ## 3. interleavings of counter updates with observer reads -/

/-- **Progress() is monotone and never exceeds 1, for every interleaving.**

Setting: one evaluating thread performing atomic operations on the four counters, one observer thread whose
`Progress()` is two separate relaxed loads (`totalPhases`, then `donePhases`); `evs` is ANY interleaving of the
two, and `St.run {} evs = some s` says the evaluating thread kept the reset discipline of the code:
a reset is the four stores in the coded order `doneBooleans, donePhases, totalBooleans, totalPhases`
(`reset_order_numerators_first`), and between two resets the phases credited stay within the denominator
(`csg_credits_within_budget`, `factory_progress`), optionally ending with the top-up.
Then
* every value returned is `≤ 1`, except possibly for an observer that slept, between its two loads, through a
  denominator store AND a later positive credit (`dirty`) — for that reader no store order can help;
* two values whose loads all lie inside the same evaluation (after its reset completed and before the next one
  began: `clean`, same `gen`) are ordered like the reads. -/
theorem progress_monotone_le_one (evs : List Ev) (s : St) (h : St.run {} evs = some s) :
    (∀ o ∈ s.log, o.dirty = false → fracLe o.frac (1, 1)) ∧
    s.log.Pairwise (fun newer older =>
      older.clean = true → newer.clean = true → older.gen = newer.gen → fracLe older.frac newer.frac) := by
  have inv := run_inv evs inv_init h
  constructor
  · intro o ho hd
    have := inv.logLe o ho hd
    unfold fracLe Obs.frac
    split <;> simp only <;> omega
  · refine inv.logMono.imp ?_
    intro newer older hR hc hn hg
    obtain ⟨ht, hdn⟩ := hR hc hn hg
    unfold fracLe Obs.frac
    rw [ht]
    split
    · simp
    · simp only
      exact Nat.mul_le_mul_right _ hdn

/-- at every micro step of a disciplined run the numerator is within the denominator -/
theorem done_le_total_always (evs : List Ev) (s : St) (h : St.run {} evs = some s) :
    s.c.donePhases ≤ s.c.totalPhases := done_le_total (run_inv evs inv_init h)

/-- non-vacuity: a context reused for a second evaluation, the observer reading inside the reset window
(0/22, the "may briefly read 0") and across it (22/22 → 0/11 → 4/11) -/
example :
    (St.run {} ((resetCoded 2 22).map .w ++ [.w (.addDoneP 22), .loadTotal, .loadDone,
        .w (.stDoneB 0), .w (.stDoneP 0), .loadTotal, .w (.stTotalB 1), .loadDone, .w (.stTotalP 11),
        .loadTotal, .loadDone, .w (.addDoneP 4), .loadTotal, .loadDone])).map
      (fun s => s.log.reverse.map (fun o => (o.done, o.total, o.clean))) =
    some [(22, 22, true), (0, 22, false), (0, 11, true), (4, 11, true)] := by decide

/-- the mutation "totals stored before dones": an observer reading between the two pairs of stores sees
22/11 although no credit happened between its loads -/
example :
    rawObserve { totalPhases := 22, donePhases := 22, totalBooleans := 2, doneBooleans := 2 } none
      ([.w (.stTotalB 1), .w (.stTotalP 11), .loadTotal, .loadDone, .w (.stDoneB 0), .w (.stDoneP 0)]) = [(22, 11)] := by
  decide

/-- the discipline rejects that order -/
example : St.run { c := { totalPhases := 22, donePhases := 22 }, ph := .run 0 } ((resetSwapped 1 11).map .w) = none := by
  decide

/-! ## 4. the reduction count -/

/-- `BatchBoolean` on `k` operands performs exactly `k - 1` `SimpleBoolean`s, whatever the heap order. -/
theorem batchBoolean_reductions (k : Nat) : batchBooleanCount k = k - 1 := batchBooleanCount_eq k

/-- `BatchUnion` on `n` children is credited exactly `n - 1` reductions for every sequence of partitions into
pairwise-disjoint sets (`Compose` of a set of size `s` credits `s - 1`, the sets are then `BatchBoolean`ed). -/
theorem batchUnion_reductions (n : Nat) (rounds : List (List Nat)) (c : Nat)
    (h : batchUnionCredits n rounds = some c) : c = n - 1 := batchUnionCredits_eq rounds n c h

example : batchUnionCredits 7 [[3, 2, 1, 1]] = some 6 := by decide

/-- **A tree with `n` leaves is reduced by exactly `n - 1` leaf reductions**, whatever the grouping: every
collapse annotation (`use_count`-dependent), every operation mix, negative-list routing of `Subtract`
included. -/
theorem tree_reductions_eq_leaves_minus_one (t : Csg) (memo : List Nat) (o : Out)
    (hw : t.wf = true) (ht : t.isTree = true) (h : t.evalRoot memo = some o) :
    o.credits + 1 = t.numLeaves memo := by
  cases t with
  | leaf => simp only [Csg.evalRoot, Option.some.injEq] at h; subst h; simp [Csg.numLeaves]
  | node op col share kids =>
    simp only [Csg.isTree, Bool.and_eq_true, Option.isNone_iff_eq_none] at ht
    obtain ⟨hs, htk⟩ := ht
    subst hs
    simp only [Csg.wf, Bool.and_eq_true, decide_eq_true_eq] at hw
    simp only [Csg.evalRoot, Bool.false_eq_true, if_false] at h
    cases hk : kids.eval op true true memo with
    | none => simp [hk] at h
    | some ok =>
      simp only [hk] at h
      cases hf : finalizeCredits op ok.pos ok.neg with
      | none => simp [hf] at h
      | some f =>
        simp only [hf, Option.some.injEq] at h
        subst h
        obtain ⟨sp, hpos⟩ := Kids.eval_spec kids op true true memo ok hw.2 hk
        have hfin := finalize_spec (hpos (Or.inl rfl) hw.1) hf
        have := (sp.eq htk).1
        simp only [Csg.numLeaves]
        omega

/-- **On a DAG the reductions performed are at most the unfolded count** (`NumLeaves` walks the unfolded
expression, evaluation reduces a shared `impl_` once): the numerators never pass the denominators. -/
theorem dag_reductions_le_leaves_minus_one (t : Csg) (memo : List Nat) (o : Out)
    (hw : t.wf = true) (h : t.evalRoot memo = some o) :
    o.credits + 1 ≤ t.numLeaves memo := by
  cases t with
  | leaf => simp only [Csg.evalRoot, Option.some.injEq] at h; subst h; simp [Csg.numLeaves]
  | node op col share kids =>
    have hw' := hw
    simp only [Csg.wf, Bool.and_eq_true, decide_eq_true_eq] at hw'
    have hpos := Csg.numLeaves_pos _ memo hw
    have fin : ∀ (ok : Out) (f : Nat), kids.eval op true true memo = some ok →
        finalizeCredits op ok.pos ok.neg = some f →
        (Csg.node op col share kids).numLeaves memo = kids.numLeaves memo →
        ok.credits + f + 1 ≤ (Csg.node op col share kids).numLeaves memo := by
      intro ok f hk hf hnl
      obtain ⟨sp, hp⟩ := Kids.eval_spec kids op true true memo ok hw'.2 hk
      have hfin := finalize_spec (hp (Or.inl rfl) hw'.1) hf
      have hle := sp.le
      rw [hnl]
      omega
    unfold Csg.evalRoot at h
    cases share with
    | none =>
      simp only [Bool.false_eq_true, if_false] at h
      cases hk : kids.eval op true true memo with
      | none => simp [hk] at h
      | some ok =>
        simp only [hk] at h
        cases hf : finalizeCredits op ok.pos ok.neg with
        | none => simp [hf] at h
        | some f =>
          simp only [hf, Option.some.injEq] at h
          subst h
          exact fin ok f hk hf (by simp [Csg.numLeaves])
    | some id =>
      by_cases hm : id ∈ memo
      · simp only [hm, decide_true, if_true, Option.some.injEq] at h
        subst h
        simpa using hpos
      · simp only [hm, decide_false, Bool.false_eq_true, if_false] at h
        cases hk : kids.eval op true true memo with
        | none => simp [hk] at h
        | some ok =>
          simp only [hk] at h
          cases hf : finalizeCredits op ok.pos ok.neg with
          | none => simp [hf] at h
          | some f =>
            simp only [hf, Option.some.injEq] at h
            subst h
            exact fin ok f hk hf (by simp [Csg.numLeaves, hm])

/-- the phases credited by an uncancelled evaluation fit the denominator set by `GetCsgLeafNode`
(this is the budget of the discipline in `progress_monotone_le_one`) -/
theorem csg_credits_within_budget (K : Nat) (t : Csg) (memo : List Nat) (o : Out)
    (hw : t.wf = true) (h : t.evalRoot memo = some o) :
    o.credits * K ≤ (t.numLeaves memo - 1) * K :=
  Nat.mul_le_mul_right K (by have := dag_reductions_le_leaves_minus_one t memo o hw h; omega)

/-- **Progress() equals 1 after an uncancelled completion**: for trees already on the pinned code, for
every expression (DAGs included) on the code with the top-up. Both counter pairs. -/
theorem progress_one_at_end (K : Nat) (topUp : Bool) (t : Csg) (memo : List Nat) (dP tP dB tB : Nat)
    (hw : t.wf = true) (hshape : t.isTree = true ∨ topUp = true)
    (h : csgFinalCounters K topUp memo t = some (dP, tP, dB, tB)) : dP = tP ∧ dB = tB := by
  unfold csgFinalCounters at h
  cases he : t.evalRoot memo with
  | none => simp [he] at h
  | some o =>
    simp only [he] at h
    cases topUp with
    | true =>
      simp only [if_true, Option.some.injEq, Prod.mk.injEq] at h
      obtain ⟨h1, h2, h3, h4⟩ := h
      omega
    | false =>
      have ht : t.isTree = true := by rcases hshape with h1 | h1 <;> simp_all
      have := tree_reductions_eq_leaves_minus_one t memo o hw ht he
      have hp : 0 < t.numLeaves memo := by omega
      simp only [Bool.false_eq_true, if_false, hp, if_true, Option.some.injEq, Prod.mk.injEq] at h
      obtain ⟨h1, h2, h3, h4⟩ := h
      have : o.credits = t.numLeaves memo - 1 := by omega
      subst h1 h2 h3 h4
      rw [this]
      exact ⟨rfl, rfl⟩

/-- the instance for the code as it is now: with the generated `csgTopsUpOnCompletion`, for DAGs too -/
theorem progress_one_at_end_dag (t : Csg) (memo : List Nat) (dP tP dB tB : Nat) (hw : t.wf = true)
    (h : csgFinalCounters kPhasesPerBoolean csgTopsUpOnCompletion memo t = some (dP, tP, dB, tB)) :
    dP = tP ∧ dB = tB :=
  progress_one_at_end _ _ t memo dP tP dB tB hw (Or.inr credit_discipline.2.2.2.2) h

/-- and the numerators stay within the denominators until then, top-up or not -/
theorem csg_done_le_total (K : Nat) (t : Csg) (memo : List Nat) (o : Out) (hw : t.wf = true)
    (h : t.evalRoot memo = some o) :
    o.credits * K ≤ (if 0 < t.numLeaves memo then t.numLeaves memo - 1 else 0) * K := by
  have := dag_reductions_le_leaves_minus_one t memo o hw h
  have hp : 0 < t.numLeaves memo := by omega
  simp only [hp, if_true]
  exact Nat.mul_le_mul_right K (by omega)

/-- **the DAG counterexample on the pinned code** (DESIGN.md section 7, defect 2):
`s = (a+b)-c ; root = s + s.Translate(..).Rotate(..)` : `NumLeaves` = 6, so `totalPhases = 5·11`, but `s` is
evaluated once: `donePhases = 3·11`, `Progress()` ends at 0.6 -/
example : dagExample.wf = true ∧ dagExample.numLeaves [] = 6 ∧
    csgFinalCounters 11 false [] dagExample = some (33, 55, 3, 5) := by decide +kernel

/-- the same expression with the top-up -/
example : csgFinalCounters 11 true [] dagExample = some (55, 55, 5, 5) := by decide +kernel

/-- non-vacuity of the tree theorem: `(a + b) - (c + d) - e` with and without collapsing -/
example :
    let t (col : Bool) : Csg := .node .subtract false none
      (.cons (.node .subtract col none (.cons (.node .add col none (.cons .leaf (.cons .leaf .nil)))
        (.cons (.node .add col none (.cons .leaf (.cons .leaf .nil))) .nil))) (.cons .leaf .nil))
    (t true).wf = true ∧ (t true).isTree = true ∧ ((t true).evalRoot []).map (·.credits) = some 4 ∧
    ((t false).evalRoot []).map (·.credits) = some 4 ∧ (t true).numLeaves [] = 5 := by decide +kernel

/-! ## 5. cancellation -/

/-- **all-or-nothing on one Impl, for every check index**: if every ctx-aware loop is followed by a later
check (`guarded`, the invariant written at src/sort.cpp:243), then for every fuel — i.e. Cancel() taking effect
at the `k`-th check for every `k`, or never — the operation returns `Cancelled` or exactly the value of the
uncancelled run; that value never contains a cut-short loop. -/
theorem cancel_all_or_nothing (p : List Stmt) (hg : guarded p = true) (f : Fuel) (b : Built)
    (hb : b.partialOutput = false) :
    ((exec p f b).1 = .cancelled ∨ (exec p f b).1 = (exec p none b).1) ∧
    ∃ b', (exec p none b).1 = .value b' ∧ b'.partialOutput = false := by
  refine ⟨exec_all_or_nothing p hg f b, ?_⟩
  obtain ⟨b', h1, h2⟩ := exec_none_not_partial p b
  exact ⟨b', h1, by rw [h2, hb]⟩

/-- `SortGeometry`-like body inside `Refine` as on the pinned tree (no check after the last loop): a cancel
at the 2nd check lets a partial mesh out with status NoError — found on the real code, repaired by a `fix:` -/
example :
    let refinePinned : List Stmt := [.work 0, .check, .loop 1 3, .work 2]
    guarded refinePinned = false ∧
    (exec refinePinned (some 1) {}).1 = .value { items := [2, 1, 0], partialOutput := true } := by decide

/-- with the post-loop check: cancelled at every `k ≤ 4`, complete afterwards -/
example :
    let refineFixed : List Stmt := [.work 0, .check, .loop 1 3, .check, .work 2]
    guarded refineFixed = true ∧ checksOf refineFixed = 5 ∧
    (List.range 5).all (fun k => (exec refineFixed (some k) {}).1 = .cancelled) = true ∧
    (exec refineFixed (some 5) {}).1 = (exec refineFixed none {}).1 := by decide

/-- **all-or-nothing on an expression, for every check index.** For an expression without poisoned nodes
whose `done` marks are truthful (in particular a freshly built one), and every fuel:
* not cancelled ⇒ the final state of every node is the one of the uncancelled run, everything evaluated;
* cancelled ⇒ the flag is set, the root's `cache_` is poisoned, and `done` still marks only completely
  evaluated sub-expressions (poisoning touches nodes on the stack only). -/
theorem cancel_all_or_nothing_tree (t : CTree) (f : Fuel) (hc : t.clean = true) (hd : t.doneClosed = true) :
    ((t.eval f).1 = false → (t.eval f).2.2 = (t.eval none).2.2 ∧ (t.eval f).2.2.allDone = true) ∧
    ((t.eval f).1 = true → (t.eval f).2.1 = some 0 ∧ (t.eval f).2.2.cacheOf = .cancelled ∧
      (t.eval f).2.2.doneClosed = true) :=
  ⟨(CTree.eval_spec t f hc hd).1, (CTree.eval_spec t f hc hd).2.1⟩

/-- **Cancelled stays Cancelled**: a poisoned expression returns Cancelled through every context, fresh ones
included, without doing anything. -/
theorem cancelled_stays_cancelled (t : CTree) (h : t.cacheOf = .cancelled) (f : Fuel) :
    t.eval f = (true, f, t) := by
  cases t with
  | leaf => simp [CTree.cacheOf] at h
  | node c n kids => simp only [CTree.cacheOf] at h; subst h; simp [CTree.eval]

mutual
theorem rebuild_fresh : ∀ t : CTree, t.rebuild.clean = true ∧ t.rebuild.doneClosed = true
  | .leaf => by simp [CTree.rebuild, CTree.clean, CTree.doneClosed]
  | .node c n kids => by
    have := rebuild_fresh_kids kids
    simp [CTree.rebuild, CTree.clean, CTree.doneClosed, this.1, this.2]
theorem rebuild_fresh_kids : ∀ ks : CKids, ks.rebuild.clean = true ∧ ks.rebuild.doneClosed = true
  | .nil => by simp [CKids.rebuild, CKids.clean, CKids.doneClosed]
  | .cons t ks => by
    have h1 := rebuild_fresh t
    have h2 := rebuild_fresh_kids ks
    simp [CKids.rebuild, CKids.clean, CKids.doneClosed, h1.1, h1.2, h2.1, h2.2]
end

/-- **A fresh context re-evaluates correctly**: the expression rebuilt from its leaves, and every
sub-expression handle of the cancelled one that is not poisoned, evaluate completely when never cancelled. -/
theorem fresh_context_reevaluates (t : CTree) :
    ((t.rebuild.eval none).1 = false ∧ (t.rebuild.eval none).2.2.allDone = true) ∧
    (t.clean = true → t.doneClosed = true → (t.eval none).1 = false ∧ (t.eval none).2.2.allDone = true) := by
  have key : ∀ u : CTree, u.clean = true → u.doneClosed = true →
      (u.eval none).1 = false ∧ (u.eval none).2.2.allDone = true := by
    intro u hc hd
    obtain ⟨h1, _, h3, _⟩ := CTree.eval_spec u none hc hd
    exact ⟨h3, (h1 h3).2⟩
  exact ⟨key _ (rebuild_fresh t).1 (rebuild_fresh t).2, key t⟩

/-- non-vacuity: `(x + y) + z` with 2, 3 and 1 inner checks; cancel at the 5th check poisons the root and
the node being finalized, leaves the finished node `done`, and the rebuilt expression evaluates -/
example :
    let t : CTree := .node .empty 1 (.cons (.node .empty 2 .nil) (.cons (.node .empty 3 .nil) .nil))
    t.clean = true ∧ t.doneClosed = true ∧
    t.eval (some 4) = (true, some 0, .node .cancelled 1 (.cons (.node .done 2 .nil) (.cons (.node .cancelled 3 .nil) .nil))) ∧
    (t.eval (some 9)).1 = false ∧ (t.eval (some 8)).1 = true ∧
    ((t.eval (some 4)).2.2.rebuild.eval none).1 = false := by decide

/-! ## 6. the trace monitor -/

/-- adjacent elements of a list are related -/
def Adjacent {α : Type} (R : α → α → Prop) : List α → Prop
  | [] => True
  | [_] => True
  | a :: b :: rest => R a b ∧ Adjacent R (b :: rest)

theorem chainOk_sound (m : Mode) : ∀ l : List Sample, chainOk m l = true →
    (∀ s ∈ l, s.ok m = true) ∧
    Adjacent (fun a b => a.stepOk m b = true ∨ (m = .multi ∧ a.resetOk b = true)) l
  | [], _ => by simp [Adjacent]
  | [a], h => by simp only [chainOk] at h; simp [Adjacent, h]
  | a :: b :: rest, h => by
    simp only [chainOk, Bool.and_eq_true, Bool.or_eq_true, decide_eq_true_eq] at h
    obtain ⟨⟨ha, hab⟩, hr⟩ := h
    obtain ⟨h1, h2⟩ := chainOk_sound m (b :: rest) hr
    refine ⟨?_, hab, h2⟩
    intro s hs
    simp only [List.mem_cons] at hs
    rcases hs with rfl | hs
    · exact ha
    · exact h1 s (by simpa using hs)

theorem Sample.ok_le_one {m : Mode} {s : Sample} (h : s.ok m = true) : fracLe s.frac (1, 1) := by
  simp only [Sample.ok, Bool.and_eq_true, decide_eq_true_eq] at h
  unfold fracLe Sample.frac
  split <;> simp only <;> omega

theorem Sample.stepOk_mono {m : Mode} {a b : Sample} (h : a.stepOk m b = true) : fracLe a.frac b.frac := by
  simp only [Sample.stepOk, Bool.and_eq_true, decide_eq_true_eq] at h
  obtain ⟨⟨⟨⟨ht, _⟩, hd⟩, _⟩, _⟩ := h
  unfold fracLe Sample.frac
  rw [ht]
  split
  · simp
  · simp only; exact Nat.mul_le_mul_right _ hd

theorem adjacent_pairwise {α : Type} {R : α → α → Prop} (htr : ∀ a b c, R a b → R b c → R a c) :
    ∀ l : List α, Adjacent R l → l.Pairwise R
  | [], _ => List.Pairwise.nil
  | [a], _ => by simp
  | a :: b :: rest, h => by
    obtain ⟨hab, hr⟩ := h
    have ih := adjacent_pairwise htr (b :: rest) hr
    refine List.pairwise_cons.mpr ⟨?_, ih⟩
    intro c hc
    rw [List.pairwise_cons] at ih
    simp only [List.mem_cons] at hc
    rcases hc with rfl | hc
    · exact hab
    · exact htr a b c hab (ih.1 c hc)

theorem adjacent_imp {α : Type} {R S : α → α → Prop} (himp : ∀ a b, R a b → S a b) :
    ∀ l : List α, Adjacent R l → Adjacent S l
  | [], _ => trivial
  | [_], _ => trivial
  | a :: b :: rest, h => ⟨himp a b h.1, adjacent_imp himp (b :: rest) h.2⟩

/-- **Soundness of the monitor.** If `progressMonitor` accepts the segments recorded from one context
(each: the counters sampled at every `IsCancelled` check of one eager call, in order, and after it returned), then
in every call
1. every sampled `Progress()` is `≤ 1`;
2. consecutive samples never decrease, except at a step where a new evaluation began inside a Minkowski call
   (`multi`; the counters were reset); in every other kind of call ALL samples are ordered, not only neighbours;
3. a call that was not cancelled ends with `Progress() = 1` exactly (`donePhases = totalPhases`) and
   `doneBooleans = totalBooleans`; a cancelled static factory ends strictly below 1;
and 4. once a call returned Cancelled every later call through the context did. -/
theorem monitor_sound (gs : List Segment) (h : progressMonitor gs = true) :
    (∀ g ∈ gs,
      (∀ s ∈ g.all, fracLe s.frac (1, 1)) ∧
      Adjacent (fun a b => fracLe a.frac b.frac ∨ (g.mode = .multi ∧ a.resetOk b = true)) g.all ∧
      (g.mode ≠ .multi → g.all.Pairwise (fun a b => fracLe a.frac b.frac)) ∧
      (g.cancelled = false → g.last.dP = g.last.tP ∧ g.last.dB = g.last.tB ∧ g.last.frac.1 = g.last.frac.2) ∧
      (g.cancelled = true → g.mode.factoryTotal.isSome = true → g.last.dP < g.last.tP)) ∧
    suffixCancelled gs = true := by
  simp only [progressMonitor, Bool.and_eq_true, List.all_eq_true] at h
  refine ⟨?_, h.2⟩
  intro g hg
  have hacc := h.1 g hg
  simp only [Segment.accept, Bool.and_eq_true] at hacc
  obtain ⟨hch, hend⟩ := hacc
  obtain ⟨hok, hadj⟩ := chainOk_sound g.mode g.all hch
  refine ⟨fun s hs => Sample.ok_le_one (hok s hs), ?_, ?_, ?_, ?_⟩
  · exact adjacent_imp (fun a b hab => hab.imp Sample.stepOk_mono id) _ hadj
  · intro hm
    -- same denominator and ordered numerators is transitive
    have hadj' : Adjacent (fun a b : Sample => a.tP = b.tP ∧ a.dP ≤ b.dP) g.all := by
      refine adjacent_imp (fun a b hab => ?_) _ hadj
      rcases hab with hs | ⟨hmm, _⟩
      · simp only [Sample.stepOk, Bool.and_eq_true, decide_eq_true_eq] at hs
        exact ⟨hs.1.1.1.1, hs.1.1.2⟩
      · exact absurd hmm hm
    have hp := adjacent_pairwise (R := fun a b : Sample => a.tP = b.tP ∧ a.dP ≤ b.dP)
      (fun a b c h1 h2 => ⟨h1.1.trans h2.1, Nat.le_trans h1.2 h2.2⟩) _ hadj'
    refine hp.imp ?_
    intro a b hab
    unfold fracLe Sample.frac
    rw [hab.1]
    split
    · simp
    · simp only; exact Nat.mul_le_mul_right _ hab.2
  · intro hc
    simp only [Segment.endOk, hc, Bool.false_eq_true, if_false, Bool.and_eq_true, decide_eq_true_eq] at hend
    refine ⟨hend.1, hend.2, ?_⟩
    unfold Sample.frac
    split
    · rfl
    · exact hend.1
  · intro hc hf
    simp only [Segment.endOk, hc, if_true] at hend
    cases hft : g.mode.factoryTotal with
    | none => simp [hft] at hf
    | some k => simpa [hft] using hend

/-- non-vacuity: the stream of `s + s.Translate(..)` on the repaired code is accepted, the pinned one
(ending at 33/55) is rejected, a decrease is rejected, a cancelled factory at 6/6 is rejected -/
example :
    progressMonitor [{ mode := .tree, obs := [⟨0, 55, 0, 5⟩, ⟨11, 55, 1, 5⟩, ⟨33, 55, 3, 5⟩], cancelled := false, last := ⟨55, 55, 5, 5⟩ }] = true ∧
    progressMonitor [{ mode := .tree, obs := [⟨0, 55, 0, 5⟩, ⟨11, 55, 1, 5⟩, ⟨33, 55, 3, 5⟩], cancelled := false, last := ⟨33, 55, 3, 5⟩ }] = false ∧
    progressMonitor [{ mode := .tree, obs := [⟨11, 55, 1, 5⟩, ⟨10, 55, 1, 5⟩], cancelled := true, last := ⟨10, 55, 1, 5⟩ }] = false ∧
    progressMonitor [{ mode := .fromMesh, obs := [⟨0, 6, 0, 0⟩, ⟨5, 6, 0, 0⟩], cancelled := true, last := ⟨6, 6, 0, 0⟩ }] = false ∧
    progressMonitor [{ mode := .multi, obs := [⟨0, 0, 0, 0⟩, ⟨0, 11, 0, 1⟩, ⟨11, 11, 1, 1⟩, ⟨0, 22, 0, 2⟩], cancelled := false, last := ⟨22, 22, 2, 2⟩ }] = true := by
  decide

/-! ## 6. the cancellation discipline of the source (regenerated on every run) -/

section sites
open MV.CancelSites MV.Gen.CancelSites

/-- the syntactic discipline implies the hypothesis `guarded` of `cancel_all_or_nothing` for the
translated program: every item that can leave partial state behind has a later check -/
theorem mem_check_toStmts (rest : List Item) (hr : Item.check ∈ rest) : Stmt.check ∈ toStmts rest := by
  induction rest with
  | nil => cases hr
  | cons x xs ih =>
    rcases List.mem_cons.mp hr with h | h
    · subst h; simp [toStmts]
    · have := ih h
      cases x with
      | check => simp [toStmts]
      | loop => simp [toStmts, this]
      | work => simp [toStmts, this]
      | call c =>
        simp only [toStmts]
        split <;> simp [this]

theorem contains_check_toStmts (rest : List Item) (hr : rest.contains .check = true) :
    (toStmts rest).contains Stmt.check = true := by
  have : Item.check ∈ rest := by simpa using hr
  simpa using mem_check_toStmts rest this

theorem bodyOk_guarded (items : List Item) (h : bodyOk items = true) : guarded (toStmts items) = true := by
  induction items with
  | nil => rfl
  | cons it rest ih =>
    simp only [bodyOk, Bool.and_eq_true] at h
    obtain ⟨h1, h2⟩ := h
    have ihr := ih h2
    cases it with
    | loop =>
      have h1' : rest.contains .check = true := by simpa [needsCheck] using h1
      simp only [toStmts, guarded, Bool.and_eq_true]
      exact ⟨contains_check_toStmts rest h1', ihr⟩
    | call c =>
      simp only [toStmts]
      cases hv : valueCallees.contains c with
      | true =>
        simpa [guarded] using ihr
      | false =>
        have hnc : needsCheck (Item.call c) = true := by
          show (!valueCallees.contains c) = true
          rw [hv]; rfl
        have h1' : rest.contains .check = true := by rw [hnc] at h1; simpa using h1
        simp only [Bool.false_eq_true, if_false, guarded, Bool.and_eq_true]
        exact ⟨contains_check_toStmts rest h1', ihr⟩
    | check => simpa [toStmts, guarded] using ihr
    | work => simpa [toStmts, guarded] using ihr

/-- **the discipline holds for every function of the current source**: each context-aware loop and each
call of an in-place helper is followed by a later `IsCancelled` check in the same function, except in the
reviewed tail helpers, all of which are called (so their call sites carry the obligation).  Kernel
evaluation over the GENERATED table. -/
theorem cancel_sites_guarded : fns.all fnOk = true ∧ tailLive fns = true := by decide +kernel

/-- hence `cancel_all_or_nothing` applies to the program of every function of the source that is not a reviewed tail helper or entry-checked producer: for
every cancellation point it returns Cancelled or exactly the uncancelled value, never a cut-short loop -/
theorem source_functions_all_or_nothing (f : Fn) (hf : f ∈ fns) (ht : exempt f = false)
    (fuel : Fuel) (b : Built) (hb : b.partialOutput = false) :
    ((exec (toStmts f.body) fuel b).1 = .cancelled ∨ (exec (toStmts f.body) fuel b).1 = (exec (toStmts f.body) none b).1) ∧
    ∃ b', (exec (toStmts f.body) none b).1 = .value b' ∧ b'.partialOutput = false := by
  have hall := cancel_sites_guarded.1
  have hok : fnOk f = true := List.all_eq_true.mp hall f hf
  have hb' : bodyOk f.body = true := by
    simp only [exempt, Bool.or_eq_false_iff] at ht
    simp only [fnOk, fnOkIn, Bool.or_eq_true] at hok
    rcases hok with (h | h) | h
    · rw [ht.1] at h; cases h
    · exact h
    · exfalso
      have hn := ht.2
      rw [List.any_eq_false] at hn
      obtain ⟨p, hp, hq⟩ := List.any_eq_true.mp h
      have := hn p hp
      simp only [Bool.and_eq_true] at hq
      simp [hq.1] at this
  exact cancel_all_or_nothing _ (bodyOk_guarded _ hb') fuel b hb

/-- non-vacuity and sensitivity: `SortGeometry` is in the table and guarded; the shape of the repaired
Refine defect (`SortGeometry(ctx)` as the last context-aware item, no check behind it) is rejected -/
example : fns.any (fun f => f.name == "SortGeometry" && bodyOk f.body) = true := by decide +kernel
example : bodyOk [.work, .check, .work, .call "SortGeometry", .work] = false := by decide
example : bodyOk [.work, .check, .work, .call "SortGeometry", .check, .work] = true := by decide

end sites

end MV.Progress.C15
