/-
Property C06 — shared Manifolds / CrossSections may be used from many threads: no data race, no
deadlock, the answers of a serial execution.

What is proved here, for ALL traces / schedules / numbers of threads:

* `monitor_sound`        a synchronisation trace accepted by the vector-clock monitor `hbAccept` (the
                         function the compiled driver runs on every trace recorded from the real library)
                         has no two conflicting accesses unordered by happens-before;
* `lockset_sound`        the lock-set discipline (mutexes exclusive, every access to a variable made while
                         holding that variable's one guard) implies the same race freedom;
* `lazy_eval_linearizable`  every interleaving of any number of threads forcing the same lazy op node
                         through the lock protocol of `GetCsgLeafNode` / `ToLeafNode`: every thread
                         returns the serial value, every handle that was forced holds that leaf, the
                         Boolean is executed at most once (exactly once as soon as one thread is done);
* `lazy_eval_no_deadlock`, `lazy_eval_mutex`  the same machine never deadlocks and its locks exclude;
* `two_lock_no_deadlock`, `two_lock_mutex`    `std::scoped_lock(a, b)` as libstdc++ implements it
                         (lock one, try the other, back off) next to single `lock_guard`s: no deadlock for
                         any lock pairs (also `a,b` against `b,a`), mutual exclusion;
* `rank_no_deadlock`     nested blocking acquisitions that respect a rank cannot deadlock (the monitor
                         `lsAccept` checks the rank rule pNodeMutex_/pathsMutex_ < op-node guard <
                         leaf mutex_ on every real trace);
* `reserveIDs_disjoint`, `reserveIDs_cover`   `fetch_add` hands out pairwise disjoint, gap-free ID
                         ranges whatever the order in which the threads reach the counter; `idsAccept`
                         (run on the real trace) decides exactly that disjointness.

The driver's verdict functions are tied to the hypotheses of these theorems by
`hbFirstBad_none_iff` / `lsFirstBad_none_iff`.

NOT proved (gap, stated): the happens-before relation is sequentially-consistent interleaving
semantics with release/acquire edges of mutexes only (atomics are given no ordering power: an
under-approximation, the monitor can only be too strict); the thread programs of the lazy-evaluation
machine are a transliteration of the root-node path of `ToLeafNode` (one shared op node; nested
shared nodes repeat the same protocol one guard at a time), not a translation of the whole evaluator;
that the recorded trace is complete relies on the hook inventory (ASSUMPTIONS of checks/c06.py).
-/
import MV.Proof.SyncHB
import MV.Proof.SyncLockset
import MV.Proof.LazyEval
import MV.Proof.TwoLock

namespace MV.C06
open MV.Sync

/-- **Soundness of the happens-before monitor** that runs on every recorded trace. -/
theorem monitor_sound (n : Nat) (tr : List Ev) (h : hbAccept n tr = true) : RaceFree tr :=
  hbAccept_sound n tr h

example : RaceFree [.acq 0 7 0, .wr 0 5 8, .rel 0 7, .acq 1 7 0, .wr 1 5 8, .rel 1 7] :=
  monitor_sound 2 _ (by decide)

/-- the unguarded `cache_` read of `NumLeaves` against the guarded publication in `ToLeafNode`
(the defect found on the pinned tree), as a trace: rejected -/
example : hbAccept 3 [.wr 0 6 0, .rel 0 16, .acq 1 16 3, .acq 2 16 3,
    .rd 1 6 0, .acq 2 85 1, .wr 2 6 86, .rel 2 85] = false := by decide

/-- **Lock-set discipline is sound.** -/
theorem lockset_sound (rank : Nat → Nat) (guard : Nat → Nat) (tr : List Ev)
    (hls : lsAccept rank tr = true) (hg : allGuarded guard tr = true) : RaceFree tr :=
  MV.Sync.lockset_sound rank guard tr hls hg

example : RaceFree [.acq 0 7 0, .wr 0 3 8, .rel 0 7, .acq 1 7 0, .rd 1 3 8, .rel 1 7] :=
  lockset_sound (fun _ => 0) (fun _ => 7) _ (by decide) (by decide)

/-- the driver prints `hb=ok` exactly when `hbAccept` holds -/
theorem hbFirstBad_none_iff (n : Nat) (s : HbSt) (tr : List Ev) :
    hbFirstBad n s tr = none ↔ (hbRun n s tr).isSome = true := by
  induction tr generalizing s with
  | nil => simp [hbFirstBad, hbRun]
  | cons e es ih =>
    simp only [hbFirstBad, hbRun]
    cases h : hbStep n s e with
    | none => simp
    | some s' => simpa using ih s'

/-- the driver prints `ls=ok` exactly when `lsAccept` holds -/
theorem lsFirstBad_none_iff (rank : Nat → Nat) (h : Held) (i : Nat) (tr : List Ev) :
    lsFirstBad rank h i tr = none ↔ (lsRun rank h tr).isSome = true := by
  induction tr generalizing h i with
  | nil => simp [lsFirstBad, lsRun]
  | cons e es ih =>
    simp only [lsFirstBad, lsRun]
    cases hs : lsStep rank h e with
    | none => simp
    | some h' => simpa using ih h' (i + 1)

/-- **Lazy evaluation is linearizable**: for every schedule of every number of threads (each thread
`t` forcing through its handle `hd t`; handles may be shared or be copies), in every reachable
state: answers are the serial value `T V`, forced handles hold that leaf, the Boolean ran at most
once, and a finished thread has the value, a leaf `pNode_`, and the Boolean ran exactly once. -/
theorem lazy_eval_linearizable (V : Nat) (T : Nat → Nat) (hd : Nat → Nat) (sched : List Nat) :
    let s := MV.LazyEval.run V T hd MV.LazyEval.init sched
    (∀ t v, (s.th t).res = some v → v = T V) ∧
    (∀ h v, s.pnode h = .leaf v → v = T V ∧ s.cache = some (T V)) ∧
    s.evals ≤ 1 ∧
    (∀ t, (s.th t).pc = 10 →
      (s.th t).res = some (T V) ∧ s.pnode (hd t) = .leaf (T V) ∧ s.evals = 1) := by
  have h := MV.LazyEval.run_inv V T hd sched
  exact ⟨h.1, h.2.1, h.2.2.1, h.2.2.2.2.2⟩

/-- three threads, two of them sharing a handle, round-robin: all finish with the serial value -/
example :
    let s := MV.LazyEval.run 7 (· + 100) (· % 2) MV.LazyEval.init
      ((List.range 60).map (· % 3))
    (s.th 0).pc = 10 ∧ (s.th 1).pc = 10 ∧ (s.th 2).pc = 10 ∧ s.evals = 1 ∧
      (s.th 2).res = some 107 := by decide +kernel

theorem lazy_eval_no_deadlock (V : Nat) (T : Nat → Nat) (hd : Nat → Nat) (sched : List Nat) (t : Nat) :
    let s := MV.LazyEval.run V T hd MV.LazyEval.init sched
    (s.th t).pc ≠ 10 → MV.LazyEval.enabled hd s t = false →
    ∃ u, u ≠ t ∧ MV.LazyEval.enabled hd s u = true ∧ 1 ≤ (s.th u).pc ∧ (s.th u).pc < 10 :=
  MV.LazyEval.run_no_deadlock V T hd sched t

theorem lazy_eval_mutex (V : Nat) (T : Nat → Nat) (hd : Nat → Nat) (sched : List Nat) :
    let s := MV.LazyEval.run V T hd MV.LazyEval.init sched
    (∀ t u, t ≠ u → (s.th t).pc ∈ [3, 5, 7] → (s.th u).pc ∈ [3, 5, 7] → False) ∧
    (∀ t u, t ≠ u → hd t = hd u → 1 ≤ (s.th t).pc → (s.th t).pc ≤ 9 →
      1 ≤ (s.th u).pc → (s.th u).pc ≤ 9 → False) :=
  MV.LazyEval.run_mutex V T hd sched

/-- **`std::scoped_lock` over two mutexes never deadlocks**, for any number of threads, any pairs
of locks and every interleaving: a thread that is stuck waits for a thread that can move. -/
theorem two_lock_no_deadlock (prog : Nat → MV.TwoLock.Prog)
    (hne : ∀ t a b, prog t = .two a b → a ≠ b) (sched : List Nat) (t : Nat) :
    let s := MV.TwoLock.run prog MV.TwoLock.init sched
    (s.th t).pc ≠ .fin → MV.TwoLock.enabled prog s t = false →
    ∃ u, u ≠ t ∧ MV.TwoLock.enabled prog s u = true ∧
      ((s.th u).pc = .first ∨ (s.th u).pc = .crit) :=
  MV.TwoLock.two_lock_progress prog hne sched t

theorem two_lock_mutex (prog : Nat → MV.TwoLock.Prog)
    (hne : ∀ t a b, prog t = .two a b → a ≠ b) (sched : List Nat) (t u : Nat) (htu : t ≠ u) :
    let s := MV.TwoLock.run prog MV.TwoLock.init sched
    (s.th t).pc = .crit → (s.th u).pc = .crit →
    ∀ l, l ∈ MV.TwoLock.locksOf (prog t) → l ∈ MV.TwoLock.locksOf (prog u) → False :=
  MV.TwoLock.two_lock_mutex prog hne sched t u htu

/-- `x = y` on one thread against `y = x` on another: after the schedule 0,1,0,1 thread 1 is inside
its critical section and thread 0 has backed off (it holds nothing) -/
example :
    let prog : Nat → MV.TwoLock.Prog := fun t => if t = 0 then .two 0 1 else .two 1 0
    let s := MV.TwoLock.run prog MV.TwoLock.init [0, 1, 0, 1]
    (s.th 1).pc = .crit ∧ (s.th 0).pc = .idle ∧ s.owner 0 = some 1 ∧ s.owner 1 = some 1 := by
  decide

/-- **Ranked nesting cannot deadlock.** -/
theorem rank_no_deadlock (rank : Nat → Nat) (ths : List MV.LockOrder.TSt)
    (hwait : ∀ th ∈ ths, ∀ l, th.wait = some l → ∃ th' ∈ ths, l ∈ th'.held)
    (hrank : ∀ th ∈ ths, ∀ l, th.wait = some l → ∀ h ∈ th.held, rank h < rank l)
    (hsome : ∃ th ∈ ths, th.wait ≠ none) :
    ∃ th ∈ ths, th.wait = none ∧ th.held ≠ [] :=
  MV.LockOrder.rank_no_deadlock rank ths hwait hrank hsome

example : ∃ th ∈ [(⟨[0], some 1⟩ : MV.LockOrder.TSt), ⟨[1, 2], none⟩], th.wait = none ∧ th.held ≠ [] :=
  rank_no_deadlock id _ (by simp) (by simp) (by simp)

/-- **Reserved ID ranges are disjoint** for every order in which the `fetch_add`s of all threads
reach the counter. -/
theorem reserveIDs_disjoint (c : Nat) (ns : List Nat) : rangesDisjoint (reserveAll c ns) = true :=
  reserveAll_disjoint c ns

/-- … and what `rangesDisjoint` (hence `idsAccept` on a real trace) decides is disjointness. -/
theorem idsAccept_iff (tr : List Ev) :
    idsAccept tr = true ↔ (faddRanges tr).Pairwise
      (fun p q => ∀ id, p.1 ≤ id → id < p.1 + p.2 → q.1 ≤ id → id < q.1 + q.2 → False) :=
  rangesDisjoint_iff (faddRanges tr)

theorem reserveIDs_cover (c : Nat) (ns : List Nat) (id : Nat) (h1 : c ≤ id) (h2 : id < c + ns.sum) :
    ∃ p ∈ reserveAll c ns, p.1 ≤ id ∧ id < p.1 + p.2 :=
  reserveAll_cover c ns id h1 h2

example : reserveAll 1 [3, 0, 2, 5] = [(1, 3), (4, 0), (4, 2), (6, 5)] ∧
    rangesDisjoint (reserveAll 1 [3, 0, 2, 5]) = true ∧ rangesDisjoint [(1, 3), (3, 1)] = false := by
  decide

end MV.C06
