import MV.Proof.IngestSafe
/-!
# Property C09 — malformed input gives an error Status, never undefined behaviour

Statements about the executable model `MV/Model/Ingest.lean` (the validation ladder and loops of
`Manifold::Impl::Impl(const MeshGLP&)`, `MeshGL::Merge()`, the numeric-argument guards, the status
algebra of the deriving operations).  In the model every C++ array access and every division is a
checked primitive; `R.Safe r` says none of them failed.

* `ingest_total_safe`     for ALL inputs the repaired constructor reaches no unchecked access
* `ingest_ok_inv`         and what it hands to `CreateHalfedges`/`SortGeometry` is well-formed
* `ingest_error_sound`    each `Error` is returned exactly under its condition, first match wins
* `merge_total_safe`      the same for `MeshGL::Merge()`
* `status_sticky`         every program that consumes an errored operand is errored
* `pinned_*`              on the tree BEFORE the repairs the safety statement is false: concrete inputs
* argument guards          `channel_reads_safe`, `levelSet_guard_sound`, `grid_index_fits`

Not carried by theorems (checked by the sanitizer run only): `CreateHalfedges` on unbalanced input
(its model is proved free of out-of-range accesses for balanced input in C01a), everything after
`IsManifold()` in the constructor, the bodies of the deriving operations.
-/
namespace MV.Ingest
open MV.Mesh

/-! ## the constructor -/

theorem numVertOf_fixed (s : MeshShape) :
    numVertOf Guards.fixed s = .ok (if s.numProp = 0 then 0 else s.nVertProp / s.numProp) := by
  unfold numVertOf cdiv
  by_cases h : s.numProp = 0 <;> simp [Guards.fixed, h]

/-- **No undefined behaviour in `Manifold(MeshGL)`**: for every input whatsoever — any lengths, any
index values, any run table, any flags — the repaired constructor performs no out-of-bounds read or
write, no division by zero and no read of an uninitialised `triRef`, from its first line to the call
of `CreateHalfedges` and in the first reads `IsManifold`/`SortFaces` make of its output. -/
theorem ingest_total_safe (s : MeshShape) : (ingest Guards.fixed s).Safe := by
  unfold ingest
  rw [numVertOf_fixed]
  simp only [bind_ok]
  apply safe_bind (ladder_safe _ _ _)
  intro _ hl
  have F := ladder_facts hl
  have hnp : s.numProp ≠ 0 := by have := F.numProp; omega
  have bp := buildProp2vert_inv s (if s.numProp = 0 then 0 else s.nVertProp / s.numProp) F.mergeLen
  apply safe_bind bp.1
  intro p hp
  simp only [hnp, ↓reduceIte] at hp ⊢
  rw [copyVerts_ok s (by omega)]
  simp only [bind_ok]
  rw [copyTangents_ok s]
  simp only [bind_ok]
  have rl := runLoop_inv s F.faceID F.transform F.runTable
  apply safe_bind rl.1
  intro tr htr
  have hcov := rl.2 tr htr
  have hpok : P2VOk (s.nVertProp / s.numProp) p := by
    have := bp.2 p (by simpa [hnp] using hp); simpa [hnp] using this
  have tl := forRange_inv (fun _ k => KeptOk (s.nVertProp / s.numProp) k)
    (triStep Guards.fixed s (s.nVertProp / s.numProp) p tr) (numTriOf s) 0 ⟨#[], #[], #[], #[]⟩
    ⟨rfl, rfl, by simp, by simp⟩
    (fun i k _ hi hk => triStep_inv s _ p tr i k (by omega) hpok hcov hk)
  apply safe_bind tl.1
  intro kept _
  unfold ingestTail
  split
  · simp [Guards.fixed]
  · simp [Guards.fixed]

/-- non-vacuity: a tetrahedron goes through, and so does a mesh with every optional vector set -/
example : ingest Guards.fixed ⟨3, 12, true, #[2,0,1, 0,3,1, 2,3,0, 3,2,1], #[], #[], #[], 0, 0, true, 0, 0, true⟩ matches .ok _ := by
  decide

/-- **Well-formed hand-over**: when the ladder lets an input through, every triangle given to
`CreateHalfedges` has its three (merged) indices below `NumVert()` — the size of `vertPos_`, which is
what the bucketed path of `CreateHalfedges`, `CalculateBBox`, `SortVerts` index with — is not
degenerate, the number of triangles is even (so `CreateHalfedges` writes every halfedge it pairs),
`numProp ≥ 3`, and `halfedgeTangent_` is empty or has exactly three entries per kept triangle. -/
theorem ingest_ok_inv (s : MeshShape) (r : Ingested) (h : ingest Guards.fixed s = .ok r) :
    3 ≤ s.numProp ∧ r.numVert = s.nVertProp / s.numProp ∧
    (∀ t ∈ r.kept.triVert.toList, TriInRange r.numVert t ∧ TriNondeg t) ∧
    (∀ t ∈ r.kept.triProp.toList, TriInRange r.numVert t) ∧
    r.kept.triVert.size % 2 = 0 ∧ r.kept.triVert.size ≤ numTriOf s + 0 * r.numVert ∧
    (r.nTang = 0 ∨ r.nTang = 3 * r.kept.triVert.size) := by
  unfold ingest at h
  rw [numVertOf_fixed] at h
  simp only [bind_ok] at h
  obtain ⟨_, hl, h⟩ := bind_eq_ok h
  have F := ladder_facts hl
  have hnp : s.numProp ≠ 0 := by have := F.numProp; omega
  simp only [hnp, ↓reduceIte] at h hl
  obtain ⟨p, hp, h⟩ := bind_eq_ok h
  rw [copyVerts_ok s (by omega)] at h
  simp only [bind_ok] at h
  rw [copyTangents_ok s] at h
  simp only [bind_ok] at h
  obtain ⟨tr, htr, h⟩ := bind_eq_ok h
  obtain ⟨kept, hkept, h⟩ := bind_eq_ok h
  have bp := buildProp2vert_inv s (s.nVertProp / s.numProp) F.mergeLen
  have hpok := bp.2 p hp
  have hcov := (runLoop_inv s F.faceID F.transform F.runTable).2 tr htr
  have tl := forRange_inv (fun i k => KeptOk (s.nVertProp / s.numProp) k ∧ k.triVert.size ≤ i)
    (triStep Guards.fixed s (s.nVertProp / s.numProp) p tr) (numTriOf s) 0 ⟨#[], #[], #[], #[]⟩
    ⟨⟨rfl, rfl, by simp, by simp⟩, by simp⟩
    (fun i k _ hi hk => by
      have := triStep_inv s _ p tr i k (by omega) hpok hcov hk.1
      refine ⟨this.1, fun k' hk' => ⟨this.2 k' hk', ?_⟩⟩
      exact Nat.le_trans (triStep_size hk') (by omega))
  have hk := tl.2 kept hkept
  unfold ingestTail at h
  split at h
  · simp [Guards.fixed, fail] at h
  · rename_i heven
    simp only [Guards.fixed, ↓reduceIte] at h
    cases h
    refine ⟨F.numProp, rfl, hk.1.2.2.1, hk.1.2.2.2, (by show kept.triVert.size % 2 = 0; omega), by simpa using hk.2, ?_⟩
    by_cases hz : s.nTangent = 0 <;> simp [hz]

/-! ## error codes -/

/-- **Each error under its condition, first match in source order.**  The straight-line part of the
ladder is the list `rungs`: the constructor returns the error of the first rung whose condition
holds, and proceeds to the loops iff none holds.  (The two loop rungs follow.) -/
theorem ingest_error_sound (g : Guards) (s : MeshShape) (nv : Nat) :
    (∀ e, ladder g s nv = .err e ↔ firstMatch (rungs g s nv) = some e) ∧
    (ladder g s nv = .ok () ↔ ∀ p ∈ rungs g s nv, p.1 = false) := by
  constructor
  · intro e
    unfold ladder
    split
    · rename_i e' he; simp [fail, he]
    · rename_i hn; simp [hn]
  · constructor
    · exact ladder_ok
    · intro h
      unfold ladder
      have : firstMatch (rungs g s nv) = none := by
        generalize rungs g s nv = l at h
        induction l with
        | nil => rfl
        | cons a t ih =>
          obtain ⟨c, e⟩ := a
          have hc : c = false := h (c, e) (List.mem_cons_self ..)
          subst hc
          simp only [firstMatch, Bool.false_eq_true, ↓reduceIte]
          exact ih (fun p hp => h p (List.mem_cons_of_mem _ hp))
      rw [this]

/-- the order of the rungs, spelled out for the repaired tree (a change of order or of a condition
in the model breaks this `rfl`; a change in the C++ breaks the correspondence run) -/
example (s : MeshShape) (nv : Nat) : (rungs Guards.fixed s nv).map (·.2) =
    [.noError, .notManifold, .missingPositionProperties, .mergeVectorsDifferentLengths, .transformWrongLength,
     .runIndexWrongLength, .runIndexWrongLength, .faceIDWrongLength, .invalidTangents, .nonFiniteVertex,
     .invalidConstruction, .invalidConstruction] := rfl

/-- `MergeIndexOutOfBounds` is returned only if some merge entry is out of range: if all entries are
in range the merge loop completes. -/
theorem mergeIndex_error_sound (s : MeshShape) (nv : Nat) (hlen : s.mergeFrom.size = s.mergeTo.size)
    (hall : ∀ i (h : i < s.mergeFrom.size), s.mergeFrom[i] < nv ∧ s.mergeTo[i]'(hlen ▸ h) < nv) :
    ∃ p, buildProp2vert Guards.fixed s nv = .ok p := by
  unfold buildProp2vert
  split
  · exact ⟨_, rfl⟩
  · have := forRange_total (fun _ p => P2V nv p) (mergeStep Guards.fixed s nv) s.mergeFrom.size 0
      (Array.range nv) (p2v_init nv)
      (fun i p _ hi hp => by
        have hi' : i < s.mergeFrom.size := by omega
        obtain ⟨h1, h2⟩ := hall i hi'
        unfold mergeStep
        simp only [monad_bind, rd_safe 381 s.mergeFrom i hi', rd_safe 382 s.mergeTo i (hlen ▸ hi'), bind_ok, castIdx_fixed]
        have hc : ¬ (s.mergeFrom[i] ≥ nv ∨ s.mergeTo[i]'(hlen ▸ hi') ≥ nv) := by omega
        simp only [hc, ↓reduceIte]
        have hf : s.mergeFrom[i] < p.size := by rw [hp.1]; exact h1
        rw [wr_safe 387 p _ _ hf]
        exact ⟨_, rfl, p2v_set hp h2⟩)
    obtain ⟨p, hp, _⟩ := this
    exact ⟨p, hp⟩

/-- and conversely an out-of-range entry makes one iteration return `MergeIndexOutOfBounds` -/
theorem mergeStep_error (s : MeshShape) (nv i : Nat) (p : Array Nat) (hi : i < s.mergeFrom.size)
    (hlen : s.mergeFrom.size = s.mergeTo.size)
    (hbad : s.mergeFrom[i] ≥ nv ∨ s.mergeTo[i]'(hlen ▸ hi) ≥ nv) :
    mergeStep Guards.fixed s nv i p = .err .mergeIndexOutOfBounds := by
  unfold mergeStep
  simp only [monad_bind, rd_safe 381 s.mergeFrom i hi, rd_safe 382 s.mergeTo i (hlen ▸ hi), bind_ok, castIdx_fixed]
  simp only [hbad, ↓reduceIte, fail]

/-- a corner returns `VertexOutOfBounds` exactly when its index is `≥ NumVert()` (compared at full
width: patch 09) -/
theorem corner_error_iff (s : MeshShape) (nv : Nat) (p : Array Nat) (k : Nat) (hk : k < s.triVerts.size)
    (hp : P2VOk nv p) :
    corner Guards.fixed s nv p k = .err .vertexOutOfBounds ↔ s.triVerts[k] ≥ nv := by
  unfold corner
  simp only [monad_bind, rd_safe 479 s.triVerts k hk, bind_ok, castIdx_fixed]
  by_cases hv : s.triVerts[k] ≥ nv
  · simp [hv, fail]
  · simp only [hv, ↓reduceIte, iff_false]
    by_cases hz : p.size = 0
    · simp [hz]
    · have hP : P2V nv p := by cases hp with
        | inl h0 => exact absurd h0 hz
        | inr h1 => exact h1
      have hlt : s.triVerts[k] < p.size := by rw [hP.1]; omega
      simp [hz, rd_safe 485 p _ hlt]

/-! ## the tree before the repairs: the safety statement is false -/

/-- a tetrahedron with the given optional vectors -/
def tetShape (numProp : Nat) (runIndex : Array Nat) (nRunID nTangent : Nat) : MeshShape :=
  ⟨numProp, 12, true, #[2,0,1, 0,3,1, 2,3,0, 3,2,1], #[], #[], runIndex, nRunID, 0, true, 0, nTangent, true⟩

/-- `numProp = 0`: `NumVert()` divides by zero (mesh.h:104) — SIGFPE on the pinned tree -/
theorem pinned_numProp_zero : ingest Guards.pinned (tetShape 0 #[] 0 0) = .fault (.divZero 104) := by decide
/-- a `runIndex` entry beyond `triVerts`: write past `triRef` (impl.h:444) -/
theorem pinned_runIndex_value : ingest Guards.pinned (tetShape 3 #[0, 6, 3000] 2 0) = .fault (.oob 444) := by decide
/-- three `runOriginalID`s and no `runIndex`: read past `runIndex` (impl.h:442) -/
theorem pinned_runIndex_length : ingest Guards.pinned (tetShape 3 #[] 3 0) = .fault (.oob 442) := by decide
/-- runs that do not cover all triangles: `triRef` copied uninitialised (impl.h:495) -/
theorem pinned_runs_uncovered : ingest Guards.pinned (tetShape 3 #[0, 6] 1 0) = .fault (.uninit 495) := by decide
/-- a `halfedgeTangent` of the wrong length: read past it while sorting faces (sort.cpp:72) -/
theorem pinned_tangent_length : ingest Guards.pinned (tetShape 3 #[] 0 8) = .fault (.oob 72) := by decide
/-- an odd number of kept triangles: `IsManifold` reads a halfedge nobody wrote (properties.cpp:91) -/
theorem pinned_odd_triangles :
    ingest Guards.pinned ⟨3, 15, true, #[2,4,1, 0,1,1, 0,0,2, 0,0,4, 4,2,2], #[], #[], #[], 0, 0, true, 0, 0, true⟩ =
      .fault (.uninit 91) := by decide
/-- a 64-bit index that truncates into range is accepted by the pinned tree and rejected after patch 09 -/
theorem pinned_truncation :
    (ingest Guards.pinned ⟨3, 12, true, #[2,0,1, 0,3,1, 2,3,0, 3,2,4294967297], #[], #[], #[], 0, 0, true, 0, 0, true⟩ matches .ok _) ∧
    ingest Guards.fixed ⟨3, 12, true, #[2,0,1, 0,3,1, 2,3,0, 3,2,4294967297], #[], #[], #[], 0, 0, true, 0, 0, true⟩ =
      .err .vertexOutOfBounds := by decide
/-- the same inputs on the repaired tree -/
example : ingest Guards.fixed (tetShape 0 #[] 0 0) = .err .notManifold ∧
    ingest Guards.fixed (tetShape 3 #[0, 6, 3000] 2 0) = .err .runIndexWrongLength ∧
    ingest Guards.fixed (tetShape 3 #[] 3 0) = .err .runIndexWrongLength ∧
    ingest Guards.fixed (tetShape 3 #[0, 6] 1 0) = .err .runIndexWrongLength ∧
    ingest Guards.fixed (tetShape 3 #[] 0 8) = .err .invalidTangents := by decide

/-! ## `MeshGL::Merge()` -/

theorem mergeGuard_facts {s : MeshShape} (h : mergeGuard s = true) :
    3 ≤ s.numProp ∧ s.mergeFrom.size = s.mergeTo.size ∧
    (∀ i (hi : i < s.triVerts.size), s.triVerts[i] < s.nVertProp / s.numProp) ∧
    (∀ i (hi : i < s.mergeFrom.size), s.mergeFrom[i] < s.nVertProp / s.numProp) ∧
    (∀ i (hi : i < s.mergeTo.size), s.mergeTo[i] < s.nVertProp / s.numProp) := by
  unfold mergeGuard at h
  simp only [Bool.and_eq_true, decide_eq_true_eq, beq_iff_eq, List.all_eq_true, Array.mem_toList_iff] at h
  exact ⟨h.1.1.1.1, h.1.1.1.2, fun i hi => h.1.1.2 _ (Array.getElem_mem hi), fun i hi => h.1.2 _ (Array.getElem_mem hi),
    fun i hi => h.2 _ (Array.getElem_mem hi)⟩

/-- **No undefined behaviour in `MeshGL::Merge()`** (patch 04): for every input the guarded function
reaches no out-of-bounds access and no division by zero — in the merge table, in the edge loop, in
the position reads of every vertex that can be open, and in the union-find calls. -/
theorem merge_total_safe (s : MeshShape) : (mergeRun true Guards.fixed s).Safe := by
  unfold mergeRun
  by_cases hg : mergeGuard s = true
  · obtain ⟨hnp, hlen, htv, hmf, hmt⟩ := mergeGuard_facts hg
    have hnp0 : s.numProp ≠ 0 := by omega
    simp only [hg, Bool.not_true, Bool.and_false, Bool.false_eq_true, ↓reduceIte, monad_bind, numVertOf_fixed, hnp0, bind_ok]
    have ml := forRange_inv (fun _ m => P2V (s.nVertProp / s.numProp) m) (mmStep s) s.mergeFrom.size 0
      (Array.range (s.nVertProp / s.numProp)) (p2v_init _)
      (fun i m _ hi hm => by
        have hi' : i < s.mergeFrom.size := by omega
        unfold mmStep
        simp only [monad_bind, rd_safe 85 s.mergeFrom i hi', rd_safe 85 s.mergeTo i (hlen ▸ hi'), bind_ok]
        have hf : s.mergeFrom[i] < m.size := by rw [hm.1]; exact hmf i hi'
        rw [wr_safe 85 m _ _ hf]
        exact ⟨safe_ok _, fun m' e => by cases e; exact p2v_set hm (hmt i (hlen ▸ hi'))⟩)
    apply safe_bind ml.1
    intro m hm
    have hM := ml.2 m hm
    have corners : forRange (mmCorner s (s.nVertProp / s.numProp) m) 0 (3 * numTriOf s) () = .ok () := by
      apply forRange_unit_safe
      intro k _ hk
      have hk' : k < s.triVerts.size := by unfold numTriOf at hk; omega
      unfold mmCorner
      have h1 : s.triVerts[k] < m.size := by rw [hM.1]; exact htv k hk'
      simp only [monad_bind, rd_safe 95 s.triVerts k hk', rd_safe 95 m _ h1, bind_ok]
      have hv : m[s.triVerts[k]] < s.nVertProp / s.numProp := hM.2 _ h1
      rw [chk_safe 181 _ _ (stride_lt hv (by omega)), bind_ok, chk_safe 204 _ _ hv]
    rw [corners]
    simp only [bind_ok]
    have unites : forRange (mmUnite s (s.nVertProp / s.numProp)) 0 s.mergeFrom.size () = .ok () := by
      apply forRange_unit_safe
      intro i _ hi
      have hi' : i < s.mergeFrom.size := by omega
      unfold mmUnite
      simp only [monad_bind, rd_safe 210 s.mergeFrom i hi', rd_safe 211 s.mergeTo i (hlen ▸ hi'), bind_ok]
      rw [chk_safe 210 _ _ (hmf i hi'), bind_ok, chk_safe 211 _ _ (hmt i (hlen ▸ hi'))]
    rw [unites]
    exact safe_ok _
  · simp [hg]

/-- on the pinned tree `Merge()` indexed with unchecked merge and triangle indices (sort.cpp:85, 95) -/
theorem pinned_merge_faults :
    mergeRun false Guards.pinned ⟨3, 12, true, #[2,0,1, 0,3,1, 2,3,0, 3,2,1], #[77], #[1], #[], 0, 0, true, 0, 0, true⟩ = .fault (.oob 85) ∧
    mergeRun false Guards.pinned ⟨3, 12, true, #[2,0,1, 0,3,1, 2,3,0, 3,2,9], #[], #[], #[], 0, 0, true, 0, 0, true⟩ = .fault (.oob 95) := by
  decide

example : mergeRun true Guards.fixed ⟨3, 12, true, #[2,0,1, 0,3,1, 2,3,0, 3,2,1], #[], #[], #[], 0, 0, true, 0, 0, true⟩ = .ok true := by decide

/-! ## status algebra -/

theorem stati_ne_nil (p : Prog) : p.stati ≠ [] := by
  induction p with
  | leaf st => simp [Prog.stati]
  | un own p ih => simpa [Prog.stati] using ih
  | bin a b iha ihb =>
    obtain ⟨x, xs, hx⟩ := List.exists_cons_of_ne_nil iha
    simp only [Prog.stati, hx, List.flatMap_cons]
    by_cases h : x ≠ .noError
    · simp [h]
    · simp only [h, ↓reduceIte]
      intro hc
      exact ihb (List.append_eq_nil_iff.mp hc).1
  | par a b iha ihb =>
    obtain ⟨x, xs, hx⟩ := List.exists_cons_of_ne_nil iha
    obtain ⟨y, ys, hy⟩ := List.exists_cons_of_ne_nil ihb
    simp only [Prog.stati]
    intro hc
    have h1 := List.append_eq_nil_iff.mp hc
    have h2 := List.append_eq_nil_iff.mp h1.1
    have ha : ∀ e ∈ a.stati, e = .noError := by
      intro e he
      by_cases hne : e = .noError
      · exact hne
      · have : e ∈ errsOf a.stati := by simp [errsOf, he, hne]
        rw [h2.2] at this; cases this
    have hb : ∀ e ∈ b.stati, e = .noError := by
      intro e he
      by_cases hne : e = .noError
      · exact hne
      · have : e ∈ errsOf b.stati := by simp [errsOf, he, hne]
        rw [h1.2] at this; cases this
    have hxa : x = .noError := ha x (by simp [hx])
    have hyb : y = .noError := hb y (by simp [hy])
    have h3 : (a.stati.contains .noError && b.stati.contains .noError) = true := by
      simp [hx, hy, hxa, hyb]
    rw [if_pos h3] at h2
    cases h2.1

/-- **A non-NoError Status survives every consuming operation**: whatever program of deriving
operations (unary methods with or without their own argument errors, Booleans, Split, n-ary
Booleans / Compose / Hull in any evaluation order) is applied, if it consumes at least one errored
operand, then every status the implementation may report for the result is an error, and there is
such a status.  By induction over programs. -/
theorem status_sticky (p : Prog) (h : p.hasError = true) : p.stati ≠ [] ∧ ∀ e ∈ p.stati, e ≠ .noError := by
  refine ⟨stati_ne_nil p, ?_⟩
  induction p with
  | leaf st =>
    intro e he
    simp only [Prog.stati, List.mem_singleton] at he
    subst he
    simpa [Prog.hasError] using h
  | un own p ih =>
    intro e he
    simp only [Prog.stati, List.mem_map] at he
    obtain ⟨e', he', rfl⟩ := he
    have := ih (by simpa [Prog.hasError] using h) e' he'
    simp only [ne_eq, this, not_false_eq_true, ↓reduceIte]
  | bin a b iha ihb =>
    intro e he
    simp only [Prog.stati, List.mem_flatMap] at he
    obtain ⟨ea, hea, he⟩ := he
    by_cases hne : ea ≠ .noError
    · rw [if_pos hne, List.mem_singleton] at he
      subst he; exact hne
    · rw [if_neg hne] at he
      have hna : a.hasError = false := by
        cases hc : a.hasError with
        | false => rfl
        | true => exact absurd (iha hc ea hea) hne
      have hb : b.hasError = true := by simpa [Prog.hasError, hna] using h
      exact ihb hb e he
  | par a b iha ihb =>
    intro e he
    simp only [Prog.stati, List.mem_append] at he
    rcases he with (he | he) | he
    · -- `noError` is offered only when both operands may be clean
      split at he
      · rename_i hc
        simp only [Bool.and_eq_true, List.contains_iff_mem] at hc
        simp only [Prog.hasError, Bool.or_eq_true] at h
        cases h with
        | inl ha => exact absurd rfl (iha ha _ hc.1)
        | inr hb => exact absurd rfl (ihb hb _ hc.2)
      · cases he
    · simp only [errsOf, List.mem_filter, decide_eq_true_eq] at he; exact he.2
    · simp only [errsOf, List.mem_filter, decide_eq_true_eq] at he; exact he.2

/-- non-vacuity: `(good + errored.Translate(..)).Refine(2)` with a `VertexOutOfBounds` leaf, and an
n-ary Boolean of two differently errored operands -/
example : (Prog.un .noError (.par (.leaf .noError) (.un .noError (.leaf .vertexOutOfBounds)))).stati = [.vertexOutOfBounds] := by decide
example : (Prog.par (.leaf .faceIDWrongLength) (.leaf .notManifold)).stati = [.faceIDWrongLength, .notManifold] := by decide

/-- a unary operation reports exactly its operand's error, never its own, on an errored operand -/
theorem status_unary_exact (own st : Err) (h : st ≠ .noError) : (Prog.un own (.leaf st)).stati = [st] := by
  simp [Prog.stati, h]

/-! ## numeric-argument guards -/

/-- patch 06, `SmoothByNormals(normalIdx)`: when the guard accepts the channel, the three reads of
`GetNormal` are inside `properties_` for every property vertex. -/
theorem channel_reads_safe (numProp numPropVert : Nat) (normalIdx : Int) (prop : Nat)
    (hg : channelOk normalIdx 3 numProp = true) (hp : prop < numPropVert) :
    getNormalReads numProp numPropVert normalIdx prop = .ok () := by
  unfold channelOk at hg
  simp only [Bool.and_eq_true, decide_eq_true_eq] at hg
  unfold getNormalReads
  have : ¬ normalIdx < 0 := by omega
  simp only [this, ↓reduceIte]
  apply forRange_unit_safe
  intro i _ hi
  apply chk_safe
  have h1 : numProp * (prop + 1) ≤ numProp * numPropVert := Nat.mul_le_mul_left _ hp
  have h2 : numProp * (prop + 1) = numProp * prop + numProp := Nat.mul_succ _ _
  have h3 : prop * numProp = numProp * prop := Nat.mul_comm _ _
  omega

/-- without the guard (pinned tree): `Sphere.SmoothByNormals(0)` with `NumProp() = 0`, and a negative channel -/
example : getNormalReads 0 10 0 0 = .fault (.oob 273) := by decide
example : getNormalReads 3 10 (-1) 0 = .fault (.oob 273) := by decide
example : channelOk 0 3 0 = false ∧ channelOk (-1) 3 3 = false ∧ channelOk 3 3 5 = false ∧ channelOk 2 3 5 = true := by decide

/-- patch 05, `LevelSet`: the guard lets through exactly a positive finite `edgeLength`, finite bounds
with non-negative extent, and fewer than `2^20` cells per axis -/
theorem levelSet_guard_sound (edge : FC) (bf : Bool) (dims : List FC) (big : List Bool) :
    levelSetGuard edge bf dims big = none ↔
      edge = .pos ∧ bf = true ∧ (∀ d ∈ dims, d = .pos ∨ d = .zero) ∧ (∀ b ∈ big, b = false) := by
  unfold levelSetGuard
  constructor
  · intro h
    split at h
    · cases h
    · rename_i hc
      simp only [Bool.or_eq_true, bne_iff_ne, ne_eq, Bool.not_eq_true', List.any_eq_true, Bool.and_eq_true, id_eq,
        not_or, not_exists, not_and] at hc
      obtain ⟨⟨⟨h1, h2⟩, h3⟩, h4⟩ := hc
      refine ⟨by simpa using h1, by simpa using h2, ?_, ?_⟩
      · intro d hd
        have := h3 d hd
        by_cases hp : d = .pos
        · exact Or.inl hp
        · right; simpa using this hp
      · intro b hb; simpa using h4 b hb
  · rintro ⟨rfl, rfl, h3, h4⟩
    have hd : dims.any (fun d => d != .pos && d != .zero) = false := by
      rw [List.any_eq_false]
      intro d hd
      rcases h3 d hd with rfl | rfl <;> simp
    have hb : big.any id = false := by
      rw [List.any_eq_false]
      intro b hb; simp [h4 b hb]
    simp [hd, hb]

theorem ceilLog2_le (n : Nat) (h : n < 2 ^ 20) : ceilLog2 (n + 3) ≤ 21 := by
  unfold ceilLog2
  have : ¬ n + 3 ≤ 1 := by omega
  simp only [this, ↓reduceIte]
  have hlt : (n + 3 - 1).log2 < 21 := (Nat.log2_lt (by omega)).mpr (by omega)
  omega

/-- with fewer than `2^20` cells per axis the grid index `EncodeIndex(gridSize + 2, 1)` uses at most
64 bits and no shift amount reaches 64 (the pinned tree shifted by 65 for `edgeLength < 0`) -/
theorem grid_index_fits (nx ny nz : Nat) (hx : nx < 2 ^ 20) (hy : ny < 2 ^ 20) (hz : nz < 2 ^ 20) :
    encodeShift nx ny nz ≤ 64 ∧ 1 + ceilLog2 (nz + 3) + ceilLog2 (ny + 3) < 64 := by
  have := ceilLog2_le nx hx
  have := ceilLog2_le ny hy
  have := ceilLog2_le nz hz
  unfold encodeShift
  omega

example : encodeShift 6 6 6 = 13 := by decide

end MV.Ingest
