/-
C04 — every normaliser erases the schedule.  All statements hold for every arrangement the
scheduler can produce (any permutation of the same multiset / any order of the increments).
-/
import MV.Model.Determ
import MV.Model.DetermSites
import MV.Proof.ParSort
import MV.Props.C13a
import MV.Props.C13b
namespace MV.Determ.C04
open MV.Par MV.Determ

variable {α : Type}

/-- two permutations of each other with at most one element per key class are sorted to the
same list: the sort key is injective, so the stable sort is canonical -/
theorem sort_perm_canonical {lt : α → α → Bool} (sw : StrictWeak lt) {l₁ l₂ : List α}
    (hp : l₁.Perm l₂) (hinj : ∀ a, (l₁.filter (cls lt a)).length ≤ 1) :
    stableSort lt l₁ = stableSort lt l₂ := by
  apply sorted_unique_of_cls sw _ _ (stableSort_sorted sw _) (stableSort_sorted sw _)
  intro a
  rw [stableSort_stable sw l₁ a, stableSort_stable sw l₂ a]
  have hpf : (l₁.filter (cls lt a)).Perm (l₂.filter (cls lt a)) := hp.filter _
  have h1 := hinj a
  have h2 : (l₂.filter (cls lt a)).length ≤ 1 := by rw [← hpf.length_eq]; exact h1
  match hl1 : l₁.filter (cls lt a), hl2 : l₂.filter (cls lt a) with
  | [], [] => rfl
  | [], y :: t => rw [hl1, hl2] at hpf; exact absurd hpf.length_eq (by simp)
  | x :: s, [] => rw [hl1, hl2] at hpf; exact absurd hpf.length_eq (by simp)
  | [x], [y] =>
    rw [hl1, hl2] at hpf
    have := hpf.mem_iff (a := x)
    simp at this
    rw [this]
  | x :: x' :: s, _ => rw [hl1] at h1; simp at h1
  | _, y :: y' :: t => rw [hl2] at h2; simp at h2

/-- Kernel12Recorder / EdgePos / AddNewEdgeVerts: whatever worker recorded what, and in
whatever order the per-worker lists are combined, the sorted result is the same, provided no
two recorded items share a key (collision pairs (edge, face) are distinct by construction) -/
theorem collectThenSort_schedule_free {lt : α → α → Bool} (sw : StrictWeak lt)
    {w₁ w₂ : List (List α)} (hp : w₁.flatten.Perm w₂.flatten)
    (hinj : ∀ a, (w₁.flatten.filter (cls lt a)).length ≤ 1) :
    collectThenSort lt w₁ = collectThenSort lt w₂ :=
  sort_perm_canonical sw hp hinj

theorem natLt_cls (a x : Nat) : cls natLt a x = (x == a) := by
  simp only [cls, natLt]
  by_cases h1 : x < a <;> by_cases h2 : a < x <;> simp [h1, h2] <;> omega

theorem filter_cls_natLt_le_one {l : List Nat} (hnd : l.Nodup) (a : Nat) :
    (l.filter (cls natLt a)).length ≤ 1 := by
  have : cls natLt a = fun x => x == a := funext (natLt_cls a)
  rw [this, ← List.countP_eq_length_filter]
  have := (List.nodup_iff_count.mp hnd) a
  simpa [List.count] using this

example : collectThenSort natLt [[5, 1], [3]] = collectThenSort natLt [[3], [1], [5]] := by
  apply collectThenSort_schedule_free strictWeak_natLt
  · decide
  · exact filter_cls_natLt_le_one (by decide)

/-- FlagStore::run_par equals the sequential ascending filter for every distribution of the
flagged indices over workers and every combine order (each index is flagged once). -/
theorem flagStore_eq_seq (n : Nat) (flag : Nat → Bool) (w : List (List Nat))
    (hp : w.flatten.Perm (flagSeq n flag)) : flagStore w = flagSeq n flag := by
  unfold flagStore
  have hs : (flagSeq n flag).Pairwise (· ≤ ·) := by
    unfold flagSeq
    apply List.Pairwise.filter
    exact (List.pairwise_lt_range (n := n)).imp (fun h => Nat.le_of_lt h)
  exact (eq_stableSort_natLt hs hp.symm).symm

example : flagStore [[4, 0], [], [2]] = flagSeq 5 (fun i => i % 2 == 0) := by
  apply flagStore_eq_seq; decide

/-! integer atomic counters: order-free -/

theorem getD_set_counter (c : List Int) (i k : Nat) (v : Int) (hi : i < c.length) :
    (c.set i v).getD k 0 = if k = i then v else c.getD k 0 := by
  by_cases h : k = i
  · subst h; simp [List.getD, hi]
  · simp [List.getD, h, Ne.symm h]

theorem atomicCounters_go (incs : List (Nat × Int)) (c : List Int)
    (hb : ∀ i ∈ incs, i.1 < c.length) (k : Nat) :
    (incs.foldl (fun c i => c.set i.1 (c.getD i.1 0 + i.2)) c).getD k 0
      = c.getD k 0 + counterSpec incs k := by
  induction incs generalizing c with
  | nil => simp [counterSpec]
  | cons i rest ih =>
    have hi : i.1 < c.length := hb i (List.mem_cons_self ..)
    rw [List.foldl_cons, ih _ (by
      intro j hj; rw [List.length_set]; exact hb j (List.mem_cons_of_mem _ hj))]
    rw [getD_set_counter _ _ _ _ hi]
    unfold counterSpec
    by_cases h : k = i.1
    · subst h; simp [List.filter_cons]; omega
    · have : (i.1 == k) = false := by simpa using Ne.symm h
      simp [List.filter_cons, this, h]

theorem perm_sum_int {l l' : List Int} (h : l.Perm l') : l.sum = l'.sum := by
  induction h with
  | nil => rfl
  | cons x _ ih => simp [ih]
  | swap x y l => simp; omega
  | trans _ _ ih1 ih2 => exact ih1.trans ih2

/-- final value of every counter is the sum of its increments — in particular independent of
the order in which the `fetch_add`s happened -/
theorem atomic_int_counters_order_free (n : Nat) (incs incs' : List (Nat × Int))
    (hp : incs.Perm incs') (hb : ∀ i ∈ incs, i.1 < n) (k : Nat) :
    (atomicCounters n incs).getD k 0 = (atomicCounters n incs').getD k 0 := by
  unfold atomicCounters
  rw [atomicCounters_go incs _ (by simpa using hb), atomicCounters_go incs' _ (by
    intro i hi; simpa using hb i (hp.mem_iff.mpr hi))]
  congr 1
  unfold counterSpec
  exact perm_sum_int ((hp.filter _).map _)

example : (atomicCounters 3 [(0, 1), (2, 1), (0, 1)]).getD 0 0
        = (atomicCounters 3 [(2, 1), (0, 1), (0, 1)]).getD 0 0 :=
  atomic_int_counters_order_free 3 _ _ (by decide) (by decide) 0

/-- reductions: for an associative–commutative operation with `init` an identity every TBB
reduction tree gives the left fold (instances: NaN-skipping min/max, `&&`, integer `+`) —
this is `parReduce_eq_foldl` of C13 -/
theorem reduce_tree_irrelevant {f : α → α → α} {init : α} {t t' : Sched} {xs : List α}
    (hassoc : ∀ a b c, f (f a b) c = f a (f b c)) (hid : ∀ a b, f a (f init b) = f a b)
    (hv : t.Valid xs.length) (hv' : t'.Valid xs.length) :
    parReduce f init t xs = parReduce f init t' xs := by
  rw [parReduce_eq_foldl hassoc hid hv, parReduce_eq_foldl hassoc hid hv']

/-- BatchBoolean: with serial numbers the (size, serial) keys are pairwise distinct, so the pop
order is a function of the multiset of keys only -/
theorem batchBoolean_serial_deterministic (xs ys : List (Nat × Nat)) (hp : xs.Perm ys)
    (hserial : (xs.map Prod.snd).Nodup) : heapPopOrder xs = heapPopOrder ys := by
  have sw : StrictWeak (fun (a b : Nat × Nat) => decide (a.1 < b.1 ∨ (a.1 = b.1 ∧ a.2 < b.2))) := by
    refine ⟨?_, ?_⟩
    · intro a b h; simp at h ⊢; omega
    · intro a b c h1 h2; simp at h1 h2 ⊢; omega
  apply sort_perm_canonical sw hp
  intro a
  -- two elements of the same class have the same (size, serial), impossible for distinct serials
  have hcls : ∀ x, cls (fun (a b : Nat × Nat) => decide (a.1 < b.1 ∨ (a.1 = b.1 ∧ a.2 < b.2))) a x = true → x = a := by
    intro x hx; simp [cls] at hx
    have : x.1 = a.1 ∧ x.2 = a.2 := by omega
    exact Prod.ext this.1 this.2
  generalize hP : cls (fun (a b : Nat × Nat) => decide (a.1 < b.1 ∨ (a.1 = b.1 ∧ a.2 < b.2))) a = P at hcls
  match hl : xs.filter P with
  | [] => simp
  | [_] => simp
  | x :: y :: rest =>
    exfalso
    have hx : x ∈ xs.filter P := by rw [hl]; simp
    have hy : y ∈ xs.filter P := by rw [hl]; simp
    have ex := hcls x (List.mem_filter.mp hx).2
    have ey := hcls y (List.mem_filter.mp hy).2
    have hsub : (x :: y :: rest).Sublist xs := by rw [← hl]; exact List.filter_sublist
    have hnd : ((x :: y :: rest).map Prod.snd).Nodup := hserial.sublist (hsub.map _)
    rw [ex, ey] at hnd
    simp at hnd

/-! ### The inventory of schedule-sensitive sites (regenerated from the source on every run) -/

/-- every `AtomicAdd` / `fetch_add` / `compare_exchange` / `tbb::combinable` / `concurrent_map` /
`tbb::task_group` site of src/*.cpp, src/*.h is in the reviewed table, and the side condition of
its class holds for what the translator read at the site: integer counters and slot cursors are
integral, floating-point accumulations and cursors without a normaliser run only in loops whose
policy is `ExecutionPolicy::Seq`.  Proved by kernel evaluation over the GENERATED table. -/
theorem all_sites_classified : MV.Gen.Atomics.sites.all Sites.siteOk = true := by decide +kernel

/-- no stale line in the reviewed table -/
theorem reviewed_sites_live : Sites.reviewedLive MV.Gen.Atomics.sites = true := by decide +kernel

/-- the float rule is not vacuous: a parallel floating accumulation is rejected, the same site in
a sequential loop is accepted (this was defect 9: `CalculateCurvature`) -/
example : Sites.siteOk ⟨"properties.cpp", "CurvatureAngles", "atomicAdd", "area[vert] , area3", "double", ["auto"]⟩ = false := by decide +kernel
example : Sites.siteOk ⟨"properties.cpp", "CurvatureAngles", "atomicAdd", "area[vert] , area3", "double", ["Seq"]⟩ = true := by decide +kernel
example : Sites.siteOk ⟨"impl.cpp", "Manifold::Impl::Foo", "atomicAdd", "x[i] , 1", "int", ["auto"]⟩ = false := by decide +kernel

end MV.Determ.C04
