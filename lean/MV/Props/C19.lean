import MV.Proof.Partition
import MV.Proof.PartitionCheck
import MV.Proof.PartitionTabT5
import MV.Proof.PartitionTabT6
import MV.Proof.PartitionTabT7
import MV.Proof.PartitionTabT8
import MV.Proof.PartitionTabQ3
import MV.Proof.PartitionTabQ4
/-!
# C19 — refinement keeps the surface; simplification only removes redundancy

Model: `MV/Model/Partition.lean` (`Partition::GetPartition`, `GetCachedPartition`, `PartitionQuad`,
`PartitionFan`, `Reindex` of src/subdivision.cpp:31-380; the exclusive scans and the triangle
assembly of `Manifold::Impl::Subdivide`, subdivision.cpp:564-669; the scalar logic of
`SetTolerance` / `Simplify` / `SetEpsilon`).  Checker: `MV/Model/PartitionCheck.lean`.

What is proved here
* for ALL inputs: `GetPartition` sorts a triangle's divisions descending by a recorded permutation
  and rotates a quad's to its lexicographically least rotation (`getPartition_sorts_tri`,
  `getPartition_rotates_quad`); the exclusive-scan offsets of `Subdivide` give pairwise disjoint
  index ranges that cover exactly the new vertices (`edge_offsets_disjoint_cover`); `PartitionFan`
  produces exactly the fan (`fan_valid`); a pattern accepted by the checker satisfies the `Prop`
  statement `PatternValid` (`checker_sound`) and therefore has `b + 2i - 2` triangles
  (`count_from_euler`); `SetTolerance` reports `max t epsilon` and `epsilon ≤ tolerance` is
  preserved by `SetTolerance`, `Simplify`, `SetEpsilon` (`tolerance_floor`).
* exhaustively up to the bound (the property's own quantifier), by kernel evaluation of the verified
  checker on the model with the integer-exact count decisions: every triangle pattern with
  divisions `1..8` in any order and every quad pattern with divisions `1..4` is valid
  (`partition_valid_tri_upto`, `partition_valid_quad_upto`), and `Refine(n)`'s pattern has `n²`
  triangles for `n ≤ 8` (`refine_count_upto`).

NOT proved (stated, not hidden): validity of the patterns beyond the bounds (the recursion of
`PartitionQuad` is only evaluated, not reasoned about; beyond the bound the harness's oracle and the
driver's run of the same checker cover sampled tuples up to 200); that `Dec.float` (the C++'s
`double` expressions) equals `Dec.exact` — checked by the driver on every tuple of the tables on
every run, false from 22 divisions on (ties of `round(lerp(..))`), which is why the tables are
about `Dec.exact`; that `PatternValid` implies a geometric tiling (degree argument: positively
oriented triangles whose boundary is the outer cycle and whose areas add up to the whole);
`Reindex` is modelled and tied but its injectivity / edge agreement is an oracle of the harness,
not a theorem; tangent interpolation (`InterpTri`), `SimplifyTopology2`'s geometry.
-/
namespace MV.C19
open MV.Partition

/-! ## `GetPartition` (all inputs) -/

/-- subdivision.cpp:53-65.  For every division triple the cache key is sorted descending, is the
input read through the recorded permutation `idx`, and `idx` is a permutation of `{0,1,2}`. -/
theorem getPartition_sorts_tri (d : I4) (h0 : d.a ≠ 0) (h3 : d.d = 0) (dec : Dec) :
    let p := getPartition dec d
    p.sorted.a ≥ p.sorted.b ∧ p.sorted.b ≥ p.sorted.c ∧ p.sorted.d = 0 ∧ p.idx.d = 3 ∧ isPerm3 p.idx ∧
    p.sorted.a = d.get p.idx.a.toNat ∧ p.sorted.b = d.get p.idx.b.toNat ∧ p.sorted.c = d.get p.idx.c.toNat := by
  have hs := sortTri_spec d
  have hq : ∀ n : I4, (getCachedPartition dec n).sorted = n := by
    intro n; unfold getCachedPartition; split <;> rfl
  have h0' : (d.a == 0) = false := by simpa using h0
  have h3' : (d.d == 0) = true := by simpa using h3
  simp only [getPartition, h0', sortDivisions, h3', Bool.false_eq_true, ↓reduceIte, hq]
  rw [h3] at hs
  exact hs

example : (getPartition Dec.exact ⟨2, 5, 3, 0⟩).sorted = ⟨5, 3, 2, 0⟩ ∧ (getPartition Dec.exact ⟨2, 5, 3, 0⟩).idx = ⟨1, 2, 0, 3⟩ := by
  decide +kernel

/-- subdivision.cpp:67-85.  For every quad the cache key is the rotation of the input that starts
at a lexicographically least pair `(d[i], d[i+1])`, and `idx` records that rotation. -/
theorem getPartition_rotates_quad (d : I4) (h0 : d.a ≠ 0) (h3 : d.d ≠ 0) (dec : Dec) :
    let p := getPartition dec d
    let m := quadMinIdx d
    m < 4 ∧ p.sorted = ⟨d.get ((0 + m) % 4), d.get ((1 + m) % 4), d.get ((2 + m) % 4), d.get ((3 + m) % 4)⟩ ∧
    p.idx = ⟨Int.ofNat ((0 + m) % 4), Int.ofNat ((1 + m) % 4), Int.ofNat ((2 + m) % 4), Int.ofNat ((3 + m) % 4)⟩ ∧
    ∀ i, i < 4 → d.get m < d.get i ∨ (d.get m = d.get i ∧ d.get ((m + 1) % 4) ≤ d.get ((i + 1) % 4)) := by
  have hq : ∀ n : I4, (getCachedPartition dec n).sorted = n := by
    intro n; unfold getCachedPartition; split <;> rfl
  have h0' : (d.a == 0) = false := by simpa using h0
  have h3' : (d.d == 0) = false := by simpa using h3
  simp only [getPartition, h0', sortDivisions, h3', Bool.false_eq_true, ↓reduceIte, hq]
  exact ⟨quadMinIdx_lt d, rfl, rfl, fun i hi => quadMinIdx_min d i hi⟩

example : (getPartition Dec.exact ⟨3, 2, 4, 2⟩).sorted = ⟨2, 3, 2, 4⟩ ∧ (getPartition Dec.exact ⟨3, 2, 4, 2⟩).idx = ⟨3, 0, 1, 2⟩ := by
  decide +kernel

/-! ## `Subdivide`'s exclusive scans (all inputs) -/

/-- subdivision.cpp:564-569 and 609-622.  With `offset = exclusive_scan(added, init)`, entry `i` owns the
indices `offset[i] … offset[i] + added[i] - 1`.  For non-negative `added` (the code clamps with
`std::max(0, …)`): different entries own disjoint ranges, every owned index lies in
`[init, init + Σ added)`, and every index of that interval is owned — the ranges tile exactly the
new vertices.  (Used with `init = numVert` for the edge vertices and `init = numVert + Σ edgeAdded`
for the interior vertices.) -/
theorem edge_offsets_disjoint_cover (init : Int) (added : List Int) (hnn : ∀ x ∈ added, 0 ≤ x) :
    (exclusiveScan init added).length = added.length ∧
    (∀ i j v, i < added.length → j < added.length → ownsIdx init added i v → ownsIdx init added j v → i = j) ∧
    (∀ i v, i < added.length → ownsIdx init added i v → init ≤ v ∧ v < init + sumL added) ∧
    (∀ v, init ≤ v → v < init + sumL added → ∃ i, i < added.length ∧ ownsIdx init added i v) :=
  ⟨exclusiveScan_length init added,
   fun i j v hi hj h1 h2 => scan_disjoint init added hnn i j hi hj v h1 h2,
   fun i v hi h => scan_within init added hnn i hi v h,
   fun v h0 h1 => scan_cover init added v h0 h1⟩

example : exclusiveScan 8 [2, 0, 3] = [8, 10, 10] ∧ ownsIdx 8 [2, 0, 3] 2 11 := by
  refine ⟨by decide, ?_⟩
  unfold ownsIdx
  decide

/-! ## `PartitionFan` (all sizes) -/

/-- subdivision.cpp:249-258.  For every `added ≥ 0` the fan consists of exactly the `added + 1`
triangles `(chain j, chain (j+1), c2)` along the chain `c0, off, …, off+added-1, c1`; no vertex
is created. -/
theorem fan_valid (s : QState) (c0 c1 c2 added off : Int) :
    (partitionFan s c0 c1 c2 added off).tris.reverse = s.tris.reverse ++ fanTris c0 c1 c2 off added.toNat ∧
    (fanTris c0 c1 c2 off added.toNat).length = added.toNat + 1 ∧
    (partitionFan s c0 c1 c2 added off).nV = s.nV ∧ (partitionFan s c0 c1 c2 added off).ok = s.ok :=
  ⟨(partitionFan_tris s c0 c1 c2 added off).1, fanTris_length .., (partitionFan_tris s c0 c1 c2 added off).2.1,
   (partitionFan_tris s c0 c1 c2 added off).2.2⟩

example : fanTris 0 1 2 3 2 = [(0, 3, 2), (3, 4, 2), (4, 1, 2)] := by decide

/-! ## The checker is sound; triangle count (all patterns) -/

/-- `checkPart p = true` implies the `Prop`-level validity: indices in range, no degenerate
triangle, every directed edge at most once, the boundary is the subdivided outer cycle in order,
every other edge paired, every vertex referenced, Euler characteristic 1; barycentrics convex,
boundary vertices at the exact fractions, every sub-triangle positively oriented, areas adding
up to the whole — all in exact rational arithmetic. -/
theorem checker_sound (p : Part) (h : checkPart p = true) : PatternValid p := checkPart_sound p h

/-- A valid pattern with `b` boundary vertices and `i` interior vertices has `b + 2 i - 2`
triangles. -/
theorem count_from_euler (p : Part) (h : PatternValid p) (b i : Nat) (hb : (boundaryCycle p.sorted).length = b)
    (hi : p.nV = b + i) : p.tris.length + 2 = b + 2 * i :=
  MV.Partition.count_from_euler p.sorted p.nV p.tris h.topo b i hb hi

/-- Uniform `n` on a triangle: `3 n` boundary vertices; with `i` interior vertices the pattern has
`3 n + 2 i - 2` triangles (`= n²` when `i = (n-1)(n-2)/2`). -/
theorem count_uniform (n : Nat) (hn : 1 ≤ n) (p : Part) (hs : p.sorted = ⟨Int.ofNat n, Int.ofNat n, Int.ofNat n, 0⟩)
    (h : PatternValid p) (i : Nat) (hi : p.nV = 3 * n + i) : p.tris.length + 2 = 3 * n + 2 * i := by
  have hb := boundaryCycle_length_tri n n n hn hn hn
  rw [← hs] at hb
  exact count_from_euler p h (3 * n) i (by omega) hi

example : PatternValid (getCachedPartition Dec.exact ⟨3, 3, 3, 0⟩) := checker_sound _ (by decide +kernel)

/-! ## Exhaustive tables (bounded, kernel-evaluated) -/

theorem checkPart_idx (p : Part) (t : I4) : checkPart { p with idx := t } = checkPart p := rfl

theorem getPartition_eq (dec : Dec) (d : I4) (h : d.a ≠ 0) :
    getPartition dec d = { getCachedPartition dec (sortDivisions d).1 with idx := (sortDivisions d).2 } := by
  have h0' : (d.a == 0) = false := by simpa using h
  simp [getPartition, h0']

/-- every sorted triple up to 8 lies in one of the four table chunks -/
theorem tri_chunks_cover :
    (sortedTriples 8).all (fun n => (sortedTriplesFrom 0 5 ++ sortedTriplesFrom 5 6 ++ sortedTriplesFrom 6 7 ++
      sortedTriplesFrom 7 8).contains n) = true := by decide +kernel

/-- sorting any triple with entries `1..8` lands in the table -/
theorem tri_sort_lands : (allTriples 8).all (fun d => (sortedTriples 8).contains (sortDivisions d).1) = true := by
  decide +kernel

theorem quad_sort_lands :
    (allQuads 4).all (fun d => (canonQuads 3 ++ (canonQuads 4).filter fun d => decide (d.b = 4 ∨ d.c = 4 ∨ d.d = 4)).contains
      (sortDivisions d).1) = true := by decide +kernel

theorem mem_allTriples (N : Nat) (a b c : Int) (ha : 1 ≤ a ∧ a ≤ N) (hb : 1 ≤ b ∧ b ≤ N) (hc : 1 ≤ c ∧ c ≤ N) :
    (⟨a, b, c, 0⟩ : I4) ∈ allTriples N := by
  simp only [allTriples, List.mem_flatMap, List.mem_map, List.mem_range]
  refine ⟨(a - 1).toNat, by omega, (b - 1).toNat, by omega, (c - 1).toNat, by omega, ?_⟩
  simp only [I4.mk.injEq, Int.ofNat_eq_natCast, and_true]
  omega

theorem mem_allQuads (N : Nat) (a b c e : Int) (ha : 1 ≤ a ∧ a ≤ N) (hb : 1 ≤ b ∧ b ≤ N) (hc : 1 ≤ c ∧ c ≤ N)
    (he : 1 ≤ e ∧ e ≤ N) : (⟨a, b, c, e⟩ : I4) ∈ allQuads N := by
  simp only [allQuads, List.mem_flatMap, List.mem_map, List.mem_range]
  refine ⟨(a - 1).toNat, by omega, (b - 1).toNat, by omega, (c - 1).toNat, by omega, (e - 1).toNat, by omega, ?_⟩
  simp only [I4.mk.injEq, Int.ofNat_eq_natCast]
  omega

/-- **Every triangle pattern with divisions `1..8`, in any order, is valid** (model with the
integer-exact decisions, which the driver confirms equal to the C++'s `double` decisions on every
one of these tuples on every run). -/
theorem partition_valid_tri_upto (a b c : Int) (ha : 1 ≤ a ∧ a ≤ 8) (hb : 1 ≤ b ∧ b ≤ 8) (hc : 1 ≤ c ∧ c ≤ 8) :
    PatternValid (getPartition Dec.exact ⟨a, b, c, 0⟩) := by
  apply checker_sound
  have hmem := mem_allTriples 8 a b c ha hb hc
  rw [getPartition_eq _ _ (by simp; omega), checkPart_idx]
  have h1 := List.all_eq_true.mp tri_sort_lands _ hmem
  have h1' : (sortDivisions ⟨a, b, c, 0⟩).1 ∈ sortedTriples 8 := by simpa using h1
  have h2 := List.all_eq_true.mp tri_chunks_cover _ h1'
  simp only [List.contains_eq_mem, List.mem_append, decide_eq_true_eq] at h2
  rcases h2 with ((h2 | h2) | h2) | h2
  · exact List.all_eq_true.mp tab_t5 _ h2
  · exact List.all_eq_true.mp tab_t6 _ h2
  · exact List.all_eq_true.mp tab_t7 _ h2
  · exact List.all_eq_true.mp tab_t8 _ h2

example : PatternValid (getPartition Dec.exact ⟨3, 7, 2, 0⟩) := partition_valid_tri_upto 3 7 2 (by omega) (by omega) (by omega)

/-- **Every quad pattern with divisions `1..4` is valid.** -/
theorem partition_valid_quad_upto (a b c e : Int) (ha : 1 ≤ a ∧ a ≤ 4) (hb : 1 ≤ b ∧ b ≤ 4) (hc : 1 ≤ c ∧ c ≤ 4)
    (he : 1 ≤ e ∧ e ≤ 4) : PatternValid (getPartition Dec.exact ⟨a, b, c, e⟩) := by
  apply checker_sound
  have hmem := mem_allQuads 4 a b c e ha hb hc he
  rw [getPartition_eq _ _ (by simp; omega), checkPart_idx]
  have h1 := List.all_eq_true.mp quad_sort_lands _ hmem
  simp only [List.contains_eq_mem, List.mem_append, decide_eq_true_eq] at h1
  rcases h1 with h1 | h1
  · exact List.all_eq_true.mp tab_q3 _ h1
  · exact List.all_eq_true.mp tab_q4 _ h1

example : PatternValid (getPartition Dec.exact ⟨4, 1, 3, 2⟩) :=
  partition_valid_quad_upto 4 1 3 2 (by omega) (by omega) (by omega) (by omega)

/-- `Refine(n)` splits every triangle into exactly `n²` (`n ≤ 8`; for larger `n` the harness counts). -/
theorem refine_count_upto :
    (List.range 8).all (fun k => (getPartition Dec.exact ⟨Int.ofNat (k + 1), Int.ofNat (k + 1), Int.ofNat (k + 1), 0⟩).tris.length
      == (k + 1) * (k + 1)) = true := by decide +kernel

/-! ## Tolerance floor (all values of a linear order) -/

/-- src/manifold.cpp:393-435, src/impl.cpp:677-684.  On a state with `epsilon ≤ tolerance`:
`SetTolerance t` reports `max t epsilon`, leaves epsilon alone and keeps `epsilon ≤ tolerance`
(simplifying exactly when the tolerance grew); `Simplify` leaves the state alone and simplifies at
`max tolerance t`; `SetEpsilon` re-establishes `epsilon ≤ tolerance` from ANY state and never
lowers the tolerance.  `α` is any linear order whose `<` is the comparison the code uses (doubles
without NaN). -/
theorem tolerance_floor {α : Type} [LinearOrder α] [TScalar α] (hlt : ∀ a b : α, TScalar.lt a b = decide (a < b))
    (s : TolState α) (t : α) :
    (s.epsilon ≤ s.tolerance →
      (setTolerance s t).1.tolerance = max t s.epsilon ∧ (setTolerance s t).1.epsilon = s.epsilon ∧
      (setTolerance s t).1.epsilon ≤ (setTolerance s t).1.tolerance ∧ ((setTolerance s t).2 = true ↔ s.tolerance < t)) ∧
    (∀ z, (simplifyTol s t z).2 = s ∧ s.tolerance ≤ (simplifyTol s t z).1) ∧
    (∀ e f, (setEpsilon s e f).epsilon = e ∧ (setEpsilon s e f).epsilon ≤ (setEpsilon s e f).tolerance ∧
      s.tolerance ≤ (setEpsilon s e f).tolerance) :=
  ⟨fun h => setTolerance_spec hlt s t h,
   fun z => ⟨(simplifyTol_spec hlt s t z).1, (simplifyTol_spec hlt s t z).2.2⟩,
   fun e f => setEpsilon_spec hlt s e f⟩

example : (setTolerance (⟨3, 5⟩ : TolState Int) 1).1.tolerance = 3 ∧ (setTolerance (⟨3, 5⟩ : TolState Int) 9).1.tolerance = 9 := by
  decide

end MV.C19
