import MV.Proof.CrossOpsHull
import MV.Proof.CrossOpsSimplify
import MV.Proof.CrossOpsDecompose
import MV.Proof.CrossOpsJoin
import Mathlib.Tactic.NormNum
/-!
# C12 — Offset, Hull, Decompose and Simplify of CrossSections mean what they say

Model: MV/Model/CrossOps.lean — ONE `Scalar`-polymorphic definition per C++ function of
`src/cross_section.cpp` (HullBacktrack, HullImpl, SimplifyRing) and `src/boolean2_offset.cpp`
(DecomposeByContainment with Summarize/BoxInside/PointInRing/RingInside, UnitFromScaled,
OutwardNormal, MiterPoint, AppendSquareJoin, AppendRoundJoin, OffsetContour).  The compiled driver
runs these definitions at `Float` against the real functions (bit-exact, harness/c12_crossops.cpp);
the theorems below are about THE SAME definitions at the instance `fieldScalar F` of an arbitrary
linearly ordered field `F` (exact arithmetic: what the code computes when no operation rounds).
All statements quantify over ALL inputs (all point lists, all rings and tolerances, all polygon
lists and — for `decomposeIdx` — all outcomes of the geometric tests, all unit normals and deltas).

What is NOT proved here (decided per run by the oracles of the harness on the real outputs only):

`offset_distance_partial` — "for a regularised cross-section A, finite delta and round joins with
  `segments` chords per turn, a point p is in `Offset(A, delta)` if `sdist(p, A) ≤ delta − chord`
  and only if `sdist(p, A) ≤ delta + chord`, `chord = |delta|(1 − cos(π/segments))`; for every join
  type `Offset(A, delta) ⊇ A ⊕ (edges swept by delta along their normals)` and
  `Offset(A, delta) ⊆ {sdist ≤ L|delta|}` with `L` the miter limit".  This needs real analysis over
  arcs and the winding-number semantics of the final `ApplyFillRule(Add)` (property C11's sweep);
  the per-corner facts it rests on ARE proved below (`miter_on_both_offsets`, `miter_within_limit`,
  `square_cap_*`, `round_on_circle`, `bevel_on_offset`).
`offset_monotone_partial` — "`delta₁ ≤ delta₂ ⇒ Offset(A, delta₁) ⊆ Offset(A, delta₂)`" (up to the
  chordal error for round joins).  Same reason.
Rounding: the hull and deviation predicates are evaluated in floating point by the code; the
theorems are exact-arithmetic statements (the harness checks integer-lattice inputs, where the
double computation is exact, exactly, and double inputs with a rounding allowance).
-/
namespace MV.CrossOps.C12
open MV.CrossOps

section Field
variable {F : Type} [Field F] [LinearOrder F] [IsStrictOrderedRing F]

/-! ## Hull: `HullImpl` returns the convex hull of the points -/

/-- **hull_vertices_subset**: every vertex of the hull is an input point. -/
theorem hull_vertices_subset (pts : List (V2 F)) : ∀ v ∈ hullImpl pts, v ∈ pts :=
  hull_subset pts

/-- **hull_contains_all**: every input point is on the inner (left) side of, or on, every edge of
the returned ring (edges taken cyclically). -/
theorem hull_contains_all (pts : List (V2 F)) :
    ∀ e ∈ cyclicPairs (hullImpl pts), ∀ q ∈ pts, 0 ≤ orient e.1 e.2 q :=
  hull_contains pts

/-- **hull_convex**: a returned ring with at least 3 vertices (the only kind `CrossSection::Hull`
keeps) turns STRICTLY left at every vertex, cyclically — the `CCW(…) <= 0` pop removes collinear
and duplicate points, so the ring is the list of extreme points in counter-clockwise order. -/
theorem hull_convex (pts : List (V2 F)) (h3 : 3 ≤ (hullImpl pts).length) :
    ∀ t ∈ cyclicTriples (hullImpl pts), 0 < orient t.1 t.2.1 t.2.2 :=
  hull_strictly_convex pts h3

/-- the public entry point: empty, or a strictly convex counter-clockwise ring of input points that
contains every input point. -/
theorem hull_public (pts : List (V2 F)) :
    hullPublic pts = [] ∨
    (3 ≤ (hullPublic pts).length ∧ (∀ v ∈ hullPublic pts, v ∈ pts) ∧
     (∀ e ∈ cyclicPairs (hullPublic pts), ∀ q ∈ pts, 0 ≤ orient e.1 e.2 q) ∧
     (∀ t ∈ cyclicTriples (hullPublic pts), 0 < orient t.1 t.2.1 t.2.2)) := by
  unfold hullPublic
  by_cases h : (hullImpl pts).length < 3
  · left; simp [h]
  · right
    simp only [h, if_false]
    exact ⟨by omega, hull_subset pts, hull_contains pts, hull_strictly_convex pts (by omega)⟩

end Field

/-- non-vacuity: six points of the 3×3 lattice (two of them not extreme); the hull is the square -/
def hullEx : List (V2 ℚ) := [⟨0, 0⟩, ⟨0, 2⟩, ⟨1, 0⟩, ⟨1, 1⟩, ⟨2, 0⟩, ⟨2, 2⟩]

theorem hullEx_eq : hullImpl hullEx = [⟨0, 0⟩, ⟨2, 0⟩, ⟨2, 2⟩, ⟨0, 2⟩] := by
  have hs : hullEx.mergeSort lexLe = hullEx := List.mergeSort_of_pairwise (by decide)
  rw [hullImpl_eq hullEx (by decide), hs]
  norm_num [hullEx, chain, hullPush, hullBacktrack, ccw_zero, orient]

example : (⟨2, 2⟩ : V2 ℚ) ∈ hullEx := hull_vertices_subset hullEx ⟨2, 2⟩ (by rw [hullEx_eq]; simp)
example : 0 ≤ orient (⟨0, 0⟩ : V2 ℚ) ⟨2, 0⟩ ⟨1, 1⟩ :=
  hull_contains_all hullEx (⟨0, 0⟩, ⟨2, 0⟩) (by rw [hullEx_eq]; simp [cyclicPairs]) ⟨1, 1⟩ (by simp [hullEx])
example : 0 < orient (⟨2, 0⟩ : V2 ℚ) ⟨2, 2⟩ ⟨0, 2⟩ :=
  hull_convex hullEx (by rw [hullEx_eq]; decide) (⟨2, 0⟩, ⟨2, 2⟩, ⟨0, 2⟩) (by rw [hullEx_eq]; simp [cyclicTriples])
example : 3 ≤ (hullPublic hullEx).length := by
  unfold hullPublic; rw [hullEx_eq]; decide

/-! ## Simplify: `SimplifyRing` only deletes vertices and stops only when the tolerance is met -/

/-- **simplify_sublist**: the returned ring is an in-order sublist of the input ring (no rotation, no
new or moved vertex) — for EVERY scalar type, `Float` included. -/
theorem simplify_sublist {α : Type} [Scalar α] (ring : List (V2 α)) (tol : α) :
    (simplifyRing ring tol).Sublist ring :=
  MV.CrossOps.simplify_sublist ring tol

example : (simplifyRing exRing (1 / 2)).Sublist exRing := simplify_sublist _ _
example : simplifyRing exRing (1 / 2) = [⟨0, 0⟩, ⟨2, 0⟩, ⟨2, 2⟩, ⟨0, 2⟩] := exRing_simplified

section Field
variable {F : Type} [Field F] [LinearOrder F] [IsStrictOrderedRing F]

omit [IsStrictOrderedRing F] in
/-- **simplify_exit** (state level, the heap invariant "every live vertex has a current-stamp entry
carrying its current deviation"): at exit either at most 3 vertices are alive or EVERY live vertex is
at squared distance `≥ tol²` from the line through its current neighbours in the linked ring. -/
theorem simplify_exit (ring : List (V2 F)) (tol : F) (h : 3 < ring.length) :
    (simplifyFinal ring tol).numAlive ≤ 3 ∨
    ∀ i < ring.length, (simplifyFinal ring tol).alive i = true →
      tol * tol ≤ deviation2 (fun i => ring.getD i V2.zero) (simplifyFinal ring tol).prev
        (simplifyFinal ring tol).next i :=
  MV.CrossOps.simplify_exit ring tol h

omit [IsStrictOrderedRing F] in
/-- **simplify_exit_ring** (the property as worded): the returned ring has at most 3 vertices, or no
vertex of it is closer than `tol` to the line through its two neighbours IN THE RETURNED RING
(`dev2pts a b c` = squared distance of `b` from line `a c`, exactly the code's formula; the linked
list at exit is the cyclic adjacency of the survivors, `simplify_linked`). -/
theorem simplify_exit_ring (ring : List (V2 F)) (tol : F) (h : 3 < ring.length) :
    (simplifyRing ring tol).length ≤ 3 ∨
      ∀ t ∈ cyclicTriples (simplifyRing ring tol), tol * tol ≤ dev2pts t.1 t.2.1 t.2.2 :=
  MV.CrossOps.simplify_exit_ring ring tol h

omit [IsStrictOrderedRing F] in
/-- a ring with more than 3 vertices never drops below 3 -/
theorem simplify_keeps_three (ring : List (V2 F)) (tol : F) (h : 3 < ring.length) :
    3 ≤ (simplifyRing ring tol).length := by
  unfold simplifyRing
  rw [List.length_map, simplifyKept_length ring tol h]
  exact (simplify_count ring tol h).2

end Field

/-- rings of at most 3 vertices are returned unchanged (every scalar type) -/
theorem simplify_small {α : Type} [Scalar α] (ring : List (V2 α)) (tol : α) (h : ring.length ≤ 3) :
    simplifyRing ring tol = ring := by
  unfold simplifyRing simplifyKept
  rw [if_pos h]
  exact map_getD_range ring V2.zero

example : 3 < exRing.length := by decide
example : 3 ≤ (simplifyRing exRing (1 / 2)).length := simplify_keeps_three _ _ (by decide)
/-- the `break` exit on a concrete ring: the collinear vertex is dropped, the corners stay -/
example : simplifyKept exRing (1 / 2) = [0, 2, 3, 4] := exRing_kept
example : simplifyRing ([⟨0, 0⟩, ⟨1, 0⟩, ⟨0, 1⟩] : List (V2 ℚ)) 5 = [⟨0, 0⟩, ⟨1, 0⟩, ⟨0, 1⟩] :=
  simplify_small _ _ (by decide)

/-! ## Decompose: `DecomposeByContainment` partitions the rings -/

/-- **decompose_partition_any_geometry**: for EVERY outcome of the geometric tests (`parent` = the
smallest containing ring found, `isNeg`/`isPos` = the sign tests on the areas — arbitrary functions
here), every positive ring seeds exactly one component, in increasing order, as its first ring; the
other rings of a component are non-positive rings whose walk up the parents ended at that seed; no
ring index occurs twice (each hole is attached to at most one component); no ring is invented; and
any additive weight (area) of the components sums to the weight of the placed rings. -/
theorem decompose_partition_any_geometry (parent : Nat → Option Nat) (isNeg isPos : Nat → Bool) (n : Nat) :
    (decomposeIdx parent isNeg isPos n).map List.head? = ((List.range n).filter isPos).map some ∧
    (∀ c ∈ decomposeIdx parent isNeg isPos n, ∀ p, c.head? = some p → ∀ i ∈ c.tail,
      i < n ∧ isPos i = false ∧ holeTarget parent isNeg isPos n i = some p) ∧
    (decomposeIdx parent isNeg isPos n).flatten.Nodup ∧
    (decomposeIdx parent isNeg isPos n).flatten.Subperm (List.range n) ∧
    (∀ {M : Type} [AddCommMonoid M] (area : Nat → M),
      ((decomposeIdx parent isNeg isPos n).map fun c => (c.map area).sum).sum =
        ((decomposeIdx parent isNeg isPos n).flatten.map area).sum) :=
  ⟨decompose_heads _ _ _ _, decompose_tails _ _ _ _, decompose_nodup _ _ _ _, decompose_subperm _ _ _ _,
    fun area => decompose_area_sum _ _ _ _ area⟩

example : decomposeIdx (fun i => if i = 1 ∨ i = 2 then some 0 else none) (fun i => decide (i = 1 ∨ i = 2))
    (fun i => decide (i = 0 ∨ i = 3)) 4 = [[0, 1, 2], [3]] := by decide

section Field
variable {F : Type} [Field F] [LinearOrder F] [IsStrictOrderedRing F]

omit [IsStrictOrderedRing F] in
/-- **decompose_partition**: the whole `DecomposeByContainment` in exact arithmetic (parents computed
by the model's own `parentOf` from `BoxInside`/`RingInside`): the kept rings are the input rings that
pass the size/sliver filter; components are seeded by the positive kept rings; holes are attached to
at most one component; exactly the positive rings and the holes with a positive ancestor are placed;
areas add up; and when no hole is orphaned (every regularised input: each hole lies in an outline)
the components are a PARTITION of the kept rings (multiset preserved) with the total area preserved. -/
theorem decompose_partition (epsOf : F → F) (polys : List (List (V2 F))) :
    let rings := (decompose epsOf polys).1
    let comps := (decompose epsOf polys).2
    let n := rings.length
    let target := holeTarget (dParent epsOf polys) (dNeg epsOf polys) (dPos epsOf polys) n
    rings = polys.filter (keepRing epsOf) ∧
    comps.map List.head? = ((List.range n).filter (dPos epsOf polys)).map some ∧
    (∀ c ∈ comps, ∀ p, c.head? = some p → ∀ i ∈ c.tail,
      i < n ∧ dPos epsOf polys i = false ∧ target i = some p) ∧
    comps.flatten.Nodup ∧
    (∀ i, i ∈ comps.flatten ↔ i < n ∧ (dPos epsOf polys i = true ∨ (target i).isSome = true)) ∧
    (∀ {M : Type} [AddCommMonoid M] (area : Nat → M),
      (comps.map fun c => (c.map area).sum).sum = (comps.flatten.map area).sum) ∧
    ((∀ i, i < n → dPos epsOf polys i = false → (target i).isSome = true) →
      comps.flatten.Perm (List.range n) ∧
      ∀ {M : Type} [AddCommMonoid M] (area : Nat → M),
        (comps.map fun c => (c.map area).sum).sum = ((List.range n).map area).sum) :=
  MV.CrossOps.decompose_partition epsOf polys

/-- the two sign tests of the code (`area > 0` seeds, `area < 0` is walked through) are exclusive, and
with a non-negative epsilon every kept ring passes exactly one of them -/
theorem decompose_signs (epsOf : F → F) (heps : ∀ x, 0 ≤ epsOf x) (polys : List (List (V2 F))) (i : Nat)
    (hi : i < (polys.filter (keepRing epsOf)).length) :
    (dNeg epsOf polys i = true ∨ dPos epsOf polys i = true) ∧
    ¬ (dNeg epsOf polys i = true ∧ dPos epsOf polys i = true) :=
  ⟨decompose_kept_signed epsOf heps polys i hi, dNeg_dPos_exclusive epsOf polys i⟩

end Field

/-- non-vacuity: a 4×4 square with a 2×2 hole, `eps = 0`: one component holding both rings -/
example : (decompose (fun _ => (0 : ℚ))
    [[⟨0, 0⟩, ⟨4, 0⟩, ⟨4, 4⟩, ⟨0, 4⟩], [⟨1, 1⟩, ⟨1, 3⟩, ⟨3, 3⟩, ⟨3, 1⟩]]).2 = [[0, 1]] := by decide +kernel

/-! ## Offset joins: the points `OffsetContour` pushes at a corner -/

section Field
variable {F : Type} [Field F] [LinearOrder F] [IsStrictOrderedRing F]

/-- **miter_on_both_offsets**: for unit normals with `1 + nP·nN > 0` the miter point lies on the offset
line of the previous edge AND on the offset line of the next edge. -/
theorem miter_on_both_offsets (V nP nN : V2 F) (delta : F) (hP : dot nP nP = 1) (hN : dot nN nN = 1)
    (hd : 0 < 1 + dot nP nN) :
    dot ((miterPoint V nP nN delta).sub V) nP = delta ∧ dot ((miterPoint V nP nN delta).sub V) nN = delta :=
  MV.CrossOps.miter_on_both_offsets V nP nN delta hP hN hd

/-- **miter_within_limit**: whenever the code takes the miter branch (`2/L² − 1 ≤ nP·nN`, exact
arithmetic: tie tolerance 0) the miter point is within `L·|delta|` of the vertex. -/
theorem miter_within_limit (V nP nN : V2 F) (delta L : F) (hP : dot nP nP = 1) (hN : dot nN nN = 1)
    (hL : 0 < L) (hbr : 2 / (L * L) - 1 ≤ dot nP nN) (hd : 0 < 1 + dot nP nN) :
    dot ((miterPoint V nP nN delta).sub V) ((miterPoint V nP nN delta).sub V) ≤ (L * delta) ^ 2 :=
  MV.CrossOps.miter_within_limit V nP nN delta L hP hN hL hbr hd

/-- the same from the code's own Boolean guard, with its tie tolerance and `kMinMiterDenom` -/
theorem miter_branch (V nP nN : V2 F) (delta L tie md : F) (hP : dot nP nP = 1)
    (hN : dot nN nN = 1) (hmd : 0 < md)
    (hbr : (Scalar.lt (Scalar.add (dot nP nN) tie)
        (Scalar.sub (Scalar.div two (Scalar.mul L L)) Scalar.one) ||
      Scalar.lt (Scalar.add Scalar.one (dot nP nN)) md) = false) :
    dot ((miterPoint V nP nN delta).sub V) nP = delta ∧
    dot ((miterPoint V nP nN delta).sub V) nN = delta ∧
    dot ((miterPoint V nP nN delta).sub V) ((miterPoint V nP nN delta).sub V) ≤ 2 * delta ^ 2 / md ∧
    (tie < 2 / (L * L) →
      dot ((miterPoint V nP nN delta).sub V) ((miterPoint V nP nN delta).sub V) ≤
        2 * delta ^ 2 / (2 / (L * L) - tie)) :=
  miter_branch_spec V nP nN delta L tie md hP hN hmd hbr

/-- **square_cap_within_limit**: both points of a square cap (unit bisector `b`, `c = cosHalf ≥ 0`,
`s = sinHalf`, half-width `|delta|·s/(1+c)` as the code computes it) lie on the tangent to the circle
of radius `|delta|` at the bisector and within `√2·|delta| ≤ L·|delta|` of the vertex, for every valid
miter limit `L ≥ 2`. -/
theorem square_cap_within_limit (V b : V2 F) (delta c s L : F) (hb : dot b b = 1) (hc : 0 ≤ c)
    (hcs : s ^ 2 = 1 - c ^ 2) (hL : 2 ≤ L) :
    ∀ P ∈ squareCap V b delta (|delta| * s / (1 + c)),
      dot (P.sub V) b = delta ∧ dot (P.sub V) (P.sub V) ≤ (L * delta) ^ 2 := by
  intro P hP
  exact ⟨(squareCap_spec V b delta _ hb P hP).1, squareCap_within_limit V b delta c s L hb hc hcs hL P hP⟩

/-- **square_cap_on_offsets**: the first cap point lies on the previous edge's offset line (and the
second on the next edge's, `squareCap_on_next_offset`) at a convex corner. -/
theorem square_cap_on_prev_offset (V b nP : V2 F) (delta c s : F) (hb : dot b b = 1) (hP : dot nP nP = 1)
    (hc : dot b nP = c) (hc1 : 0 < 1 + c) (hcs : s ^ 2 = 1 - c ^ 2)
    (hx : cross b nP = -(if 0 ≤ delta then 1 else -1) * s) :
    dot (((squareCap V b delta (|delta| * s / (1 + c))).headD V).sub V) nP = delta :=
  squareCap_on_prev_offset V b nP delta c s hb hP hc hc1 hcs hx

/-- **round_on_circle**: every sampled point of a round join is at distance exactly `|delta|` from the
vertex (a true rotation of a unit normal). -/
theorem round_on_circle (V nP : V2 F) (delta : F) (rots : List (F × F)) (hP : dot nP nP = 1)
    (hrot : ∀ cs ∈ rots, cs.1 ^ 2 + cs.2 ^ 2 = 1) :
    ∀ P ∈ roundJoin V nP delta rots, dot (P.sub V) (P.sub V) = delta ^ 2 :=
  MV.CrossOps.round_on_circle V nP delta rots hP hrot

/-- **bevel_on_offset**: the two endpoints every join starts and ends with (`endPrev`, `startNext`; all
there is to a bevel join and to a concave corner) lie on their edge's offset line at distance `|delta|`. -/
theorem bevel_on_offset (V n : V2 F) (delta : F) (hn : dot n n = 1) :
    dot ((V.add (V2.smul delta n)).sub V) n = delta ∧
    dot ((V.add (V2.smul delta n)).sub V) ((V.add (V2.smul delta n)).sub V) = delta ^ 2 :=
  endpoint_on_offset V n delta hn

omit [IsStrictOrderedRing F] in
/-- `ValidMiterLimit` never returns less than 2 -/
theorem miter_limit_valid (m : F) : 2 ≤ validMiterLimit m := validMiterLimit_ge m

end Field

/-- non-vacuity: the right-angle corner with normals (1,0), (0,1), delta = 2: miter point (2,2) -/
example : dot ((miterPoint (⟨0, 0⟩ : V2 ℚ) ⟨1, 0⟩ ⟨0, 1⟩ 2).sub ⟨0, 0⟩) ⟨1, 0⟩ = 2 :=
  (miter_on_both_offsets _ _ _ _ (by simp) (by simp) (by simp)).1
example : dot ((miterPoint (⟨0, 0⟩ : V2 ℚ) ⟨1, 0⟩ ⟨0, 1⟩ 2).sub ⟨0, 0⟩)
    ((miterPoint (⟨0, 0⟩ : V2 ℚ) ⟨1, 0⟩ ⟨0, 1⟩ 2).sub ⟨0, 0⟩) ≤ ((2 : ℚ) * 2) ^ 2 :=
  miter_within_limit _ _ _ _ 2 (by simp) (by simp) (by decide) (by simp; decide +kernel) (by simp)
example : ∀ P ∈ squareCap (⟨0, 0⟩ : V2 ℚ) ⟨1, 0⟩ 2 (|2| * (4 / 5) / (1 + 3 / 5)),
    dot (P.sub ⟨0, 0⟩) ⟨1, 0⟩ = 2 ∧ dot (P.sub ⟨0, 0⟩) (P.sub ⟨0, 0⟩) ≤ ((2 : ℚ) * 2) ^ 2 :=
  square_cap_within_limit _ _ _ (3 / 5) (4 / 5) 2 (by simp) (by decide +kernel) (by decide +kernel) (by decide)
example : ∀ P ∈ roundJoin (⟨1, 1⟩ : V2 ℚ) ⟨4 / 5, 3 / 5⟩ 2 [(3 / 5, 4 / 5), (1, 0)],
    dot (P.sub ⟨1, 1⟩) (P.sub ⟨1, 1⟩) = 2 ^ 2 :=
  round_on_circle _ _ _ _ (by simp; decide +kernel) (by simp; decide +kernel)
example : dot (((⟨1, 1⟩ : V2 ℚ).add (V2.smul 2 ⟨4 / 5, 3 / 5⟩)).sub ⟨1, 1⟩) ⟨4 / 5, 3 / 5⟩ = 2 :=
  (bevel_on_offset _ _ _ (by simp; decide +kernel)).1
example : validMiterLimit (1 : ℚ) = 2 := by decide +kernel

end MV.CrossOps.C12
