import MV.Model.Arrange2
import MV.Proof.Arrange2Adj
import MV.Proof.Arrange2Test
import MV.Proof.Arrange2Sorted
import MV.Proof.Arrange2Events
import MV.Proof.Arrange2Run
/-!
# C11b — the arrangement pass of the 2-D sweep: event queue, status, adjacency tests

Theorems about `MV/Model/Arrange2.lean`, the transliteration of `class SweepPass`
(`src/boolean2_sweep.cpp`: `PendingAdd`, `Classify`, `GradientLess`, `EmitBoundary`, `SplitAt`, `TestPair`,
`ProcessEvent`, `Run`).  The three floating-point kernels (`YAtX` comparisons, the sign of the gradient cross
product, the constructed crossing point) are ORACLE arguments; every theorem quantifies over all oracles, all
states (every status size) and all event points; hypotheses about an oracle are stated explicitly.

* `adjacency_complete`, `adjacency_tests_reach_the_pair`: the Bentley–Ottmann adjacency invariant of
  `ProcessEvent` — every neighbour pair of the new status that was not a neighbour pair before either leaves the
  event point together (shares an end point: `TestPair` would return at once) or is passed to `TestPair`,
  wherever the pair sits (bottom, middle, top of the status).
* `status_sorted_invariant`: re-insertion and removal keep the status ordered.
* `events_processed_in_order`: the event queue is consumed in strictly increasing lexicographic order as long as
  every constructed crossing lies after the event at which it is found (the model's `ahead` flag, recomputed on
  every replayed run of the real code).
* `no_missed_crossing_partial`: the combinatorial half of "no crossing is missed", with the geometric half named.
-/
namespace MV.C11b
open MV.Sweep2 MV.Arr2

/-! ## the adjacency tests -/

/-- **adjacency_complete.** For EVERY classification / gradient / crossing oracle, every status and every event
    point: let `x, y` be neighbours (positions `i, i+1`) in the status right after the re-insertion of
    `ProcessEvent(p)`. Then (1) `x, y` were already neighbours before the event, or (2) both leave `p` (the
    re-inserted block: they share their left end point, which `TestPair` never needs to test), or (3) the call
    `TestPair(i, i+1)` is issued.  No assumption on where the pair sits: `i = 0` (bottom) and
    `i + 2 = status_.size()` (top) are included. -/
theorem adjacency_complete (o : Oracle) (mode : Mode) (rule : WindRule) (st : St) (p : Pt)
    (i : Nat) (x y : SEdge)
    (hx : (prepare o mode rule st p).mid.status[i]? = some x)
    (hy : (prepare o mode rule st p).mid.status[i + 1]? = some y) :
    Adj st.status x.seq y.seq
    ∨ (x.l = p ∧ y.l = p)
    ∨ (i, i + 1) ∈ adjacencyTests (prepare o mode rule st p).lo (prepare o mode rule st p).k
        (prepare o mode rule st p).removedAny :=
  adjacency_complete_core o mode rule st p i x y hx hy

/-- the call list of a pure end event (nothing re-inserted, something removed, an edge below): exactly the pair
    `(lo-1, lo)`, whatever the size of the status — in particular when `lo` is the top-most index, the case a
    guard `lo + 1 < status_.size()` would skip -/
theorem adjacencyTests_pure_end (lo : Nat) (h : lo > 0) : adjacencyTests lo 0 true = [(lo - 1, lo)] := by
  simp [adjacencyTests, h]

/-- the call list after an insertion: the upper seam first, then the lower seam when there is an edge below -/
theorem adjacencyTests_insert (lo k : Nat) (rem : Bool) (hk : k > 0) :
    adjacencyTests lo k rem = (lo + k - 1, lo + k) :: (if lo > 0 then [(lo - 1, lo)] else []) := by
  simp [adjacencyTests, hk]

/-- **the tests reach the pair.** In arrangement mode, if no constructed crossing coincides with the left end of
    one of the two tested edges (`NoErase`: true whenever crossings lie strictly ahead of the sweep; then `SplitAt`
    only shortens edges), every new neighbour pair that does not leave `p` together has its two sequence numbers
    in the log of pairs that got past the index guard of `TestPair`, and the status at exit has the same edges
    (sequence number, left end) in the same order as the status after the re-insertion. -/
theorem adjacency_tests_reach_the_pair (o : Oracle) (hne : NoErase o) (rule : WindRule) (st : St) (p : Pt) :
    keys (processEvent o .arrangement rule st p).status = keys (prepare o .arrangement rule st p).mid.status
    ∧ ∀ (i : Nat) (x y : SEdge),
        (prepare o .arrangement rule st p).mid.status[i]? = some x →
        (prepare o .arrangement rule st p).mid.status[i + 1]? = some y →
        Adj st.status x.seq y.seq ∨ (x.l = p ∧ y.l = p)
        ∨ (x.seq, y.seq) ∈ (processEvent o .arrangement rule st p).tested := by
  refine ⟨fold_keys o hne p _ _, ?_⟩
  intro i x y hx hy
  rcases adjacency_complete_core o .arrangement rule st p i x y hx hy with h | h | h
  · exact Or.inl h
  · exact Or.inr (Or.inl h)
  · right; right
    exact fold_tested o hne p _ _ i (i + 1) x y (by omega) hx hy h

/-- a concrete instance (the scene of the seeded change): edges 1 and 2 end at `p = (5,5)`, edge 0 lies below,
    edge 3 above is the TOP-MOST edge; nothing starts at `p`. -/
def exO : Oracle :=
  { ycmp := fun lo _ _ => if lo.2 < 3 then -1 else 1
    crossSign := fun _ _ _ _ => 0
    crossing := fun al _ bl _ => if al = (0, 0) ∧ bl = (0, 9) then some (8, 6) else none }
def exSt : St := { St.empty with
  status := [⟨(0, 0), (10, 8), 1, 0⟩, ⟨(1, 4), (5, 5), 1, 1⟩, ⟨(1, 6), (5, 5), -1, 2⟩, ⟨(0, 9), (10, 7), 1, 3⟩]
  events := [(10, 7), (10, 8)], seq := 4 }

theorem exO_noErase : NoErase exO := by
  intro al ar bl br q h
  simp only [exO] at h
  split at h
  · next hc => cases h; rw [hc.1, hc.2]; decide
  · cases h

/-- non-vacuity: `lo = 1`, `k = 0`, the new status has two edges (so `lo + 1 = size`: the upper edge is top-most),
    and the pair (0, 3) is tested; the crossing (8,6) is queued and both edges are shortened to it -/
example :
    ((prepare exO .arrangement .add exSt (5, 5)).lo, (prepare exO .arrangement .add exSt (5, 5)).k,
      (prepare exO .arrangement .add exSt (5, 5)).mid.status.length) = (1, 0, 2)
    ∧ (processEvent exO .arrangement .add exSt (5, 5)).tested = [(0, 3)]
    ∧ (processEvent exO .arrangement .add exSt (5, 5)).events = [(8, 6), (10, 7), (10, 8)]
    ∧ (processEvent exO .arrangement .add exSt (5, 5)).status.map (·.r) = [(8, 6), (8, 6)] := by
  decide +kernel

example : ¬ Adj exSt.status 0 3 := by
  rintro ⟨i, x, y, h1, h2, h3, h4⟩
  match i with
  | 0 => simp [exSt] at h2; rw [← h2] at h4; simp at h4
  | 1 => simp [exSt] at h1; rw [← h1] at h3; simp at h3
  | 2 => simp [exSt] at h1; rw [← h1] at h3; simp at h3
  | 3 => simp [exSt] at h2
  | n + 4 => simp [exSt] at h1

/-! ## the status stays ordered -/

/-- **status_sorted_invariant.** `below` is any relation (the intended one: "is below, just right of the sweep
    point"). If the status is ordered, an UNDER edge is below and an OVER edge above every edge leaving `p`, and two
    edges leaving `p` are ordered by the gradient comparison — itself a total preorder — then the status after the
    removal of the block and the re-insertion (before the adjacency tests) is ordered.  With nothing re-inserted
    this is "removal keeps the status ordered". -/
theorem status_sorted_invariant (o : Oracle) (mode : Mode) (rule : WindRule) (st : St) (p : Pt)
    (below : SEdge → SEdge → Prop)
    (hsorted : st.status.Pairwise below)
    (htot : ∀ a b, (gradLE o a b || gradLE o b a) = true)
    (htr : ∀ a b c, gradLE o a b = true → gradLE o b c = true → gradLE o a c = true)
    (hU : ∀ e ∈ st.status, classify o e p = Side.under → ∀ f, f.l = p → below e f)
    (hO : ∀ e ∈ st.status, classify o e p = Side.over → ∀ f, f.l = p → below f e)
    (hG : ∀ a b, a.l = p → b.l = p → gradLE o a b = true → below a b) :
    (prepare o mode rule st p).mid.status.Pairwise below
    ∧ (∀ e ∈ st.status.take (prepare o mode rule st p).lo, classify o e p = Side.under)
    ∧ (∀ e ∈ st.status.drop (prepare o mode rule st p).hi, classify o e p = Side.over) := by
  refine ⟨prepare_sorted o mode rule st p below hsorted htot htr hU hO hG, ?_, ?_⟩
  · intro e he
    apply take_lo_under (classes o st.status p)
    rw [← prepare_lo, classes, ← List.map_take]
    exact List.mem_map_of_mem he
  · intro e he
    apply drop_hi_over (classes o st.status p)
    rw [← prepare_hi, classes, ← List.map_drop]
    exact List.mem_map_of_mem he

/-- totality of the gradient order needs only that the cross-product sign is antisymmetric -/
theorem gradient_order_total (o : Oracle)
    (hanti : ∀ al ar bl br, o.crossSign bl br al ar = - o.crossSign al ar bl br) (a b : SEdge) :
    (gradLE o a b || gradLE o b a) = true := gradLE_total o hanti a b

/-- non-vacuity: with `below` = "smaller sequence number or both leave p" the hypotheses hold for the instance
    above (nothing is re-inserted there, so only the order of the survivors matters) -/
example : (prepare exO .arrangement .add exSt (5, 5)).mid.status.map (·.seq) = [0, 3] := by decide +kernel

/-! ## the event queue -/

/-- **events_processed_in_order.** Seed any edges, run any number of steps of `Run()` in either mode with any
    oracles: if the `ahead` flag is still set at the end (every crossing point constructed by `TestPair` was
    lexicographically after the event being processed), the events were processed in strictly increasing
    lexicographic order.  (Without the hypothesis the conclusion is false, also for the real code: a crossing
    rounded to just before the current event is popped next, see the `behind` counter of the harness.) -/
theorem events_processed_in_order (o : Oracle) (mode : Mode) (rule : WindRule) (fuel : Nat) (es : List DEdge)
    (hah : (run o mode rule fuel (seedAll es)).ahead = true) :
    ((runStates o mode rule fuel (seedAll es)).map (·.1)).Pairwise (fun a b => lexLess a b = true) := by
  cases hev : (seedAll es).events with
  | nil =>
    have : runStates o mode rule fuel (seedAll es) = [] := by
      cases fuel with
      | zero => rfl
      | succ n => simp [runStates, hev]
    rw [this]; exact List.Pairwise.nil
  | cons p' rest =>
    have hinv := seedAll_inv (p'.1 - 1, 0) es
    have hafter : After (p'.1 - 1, 0) (seedAll es) := by
      intro q hq
      rw [hev] at hq
      have h0 : lexLess (p'.1 - 1, 0) p' = true := by rw [lexLess_iff]; left; simp only; omega
      rcases List.mem_cons.mp hq with h | h
      · rw [h]; exact h0
      · have hs := hinv.sorted
        rw [hev] at hs
        exact lexLess_trans h0 ((List.pairwise_cons.mp hs).1 q h)
    exact (run_in_order o mode rule fuel (seedAll es) _ hinv hafter hah).1

/-- the queue invariant itself, for use by other proofs: after any prefix of the run that kept `ahead`, every live
    edge's pending end is a queued event and the queue is strictly ascending -/
theorem queue_invariant_step (o : Oracle) (mode : Mode) (rule : WindRule) (st : St) (p p' : Pt) (rest : List Pt)
    (h : Inv p st) (ha : After p st) (hev : st.events = p' :: rest)
    (hah : (processEvent o mode rule { st with events := rest } p').ahead = true) :
    Inv p' (processEvent o mode rule { st with events := rest } p')
    ∧ After p' (processEvent o mode rule { st with events := rest } p') :=
  processEvent_inv o mode rule _ p' (pop_preInv p p' rest st h ha hev) hah

/-- non-vacuity: two crossing segments (0,0)-(4,4) and (0,4)-(4,0) with the exact crossing (2,2) as oracle:
    five events, in order, flag kept, status drained -/
def exX : Oracle :=
  { ycmp := fun lo _ _ => if lo.2 = 0 then -1 else 1
    crossSign := fun _ ar _ br => if ar.2 < br.2 then 1 else if ar.2 > br.2 then -1 else 0
    crossing := fun al ar bl br => if al = (0, 0) ∧ ar = (4, 4) ∧ bl = (0, 4) ∧ br = (4, 0) then some (2, 2) else none }

example :
    (run exX .arrangement .add 10 (seedAll [((0, 0), (4, 4), 1), ((4, 0), (0, 4), 1)])).ahead = true
    ∧ (runStates exX .arrangement .add 10 (seedAll [((0, 0), (4, 4), 1), ((4, 0), (0, 4), 1)])).map (·.1)
        = [(0, 0), (0, 4), (2, 2), (4, 0), (4, 4)]
    ∧ (run exX .arrangement .add 10 (seedAll [((0, 0), (4, 4), 1), ((4, 0), (0, 4), 1)])).status = []
    ∧ (run exX .arrangement .add 10 (seedAll [((0, 0), (4, 4), 1), ((4, 0), (0, 4), 1)])).out
        = [(((0, 0), (2, 2)), 1), (((0, 4), (2, 2)), -1), (((2, 2), (4, 0)), -1), (((2, 2), (4, 4)), 1)] := by
  decide +kernel

/-! ## no missed crossing (partial) -/

theorem runStates_mem (o : Oracle) (mode : Mode) (rule : WindRule) (fuel : Nat) (st : St) (x : Pt × St × St)
    (h : x ∈ runStates o mode rule fuel st) : x.2.2 = processEvent o mode rule x.2.1 x.1 := by
  induction fuel generalizing st with
  | zero => simp [runStates] at h
  | succ n ih =>
    unfold runStates at h
    cases hev : st.events with
    | nil => simp [hev] at h
    | cons p rest =>
      simp only [hev] at h
      rcases List.mem_cons.mp h with h | h
      · rw [h]
      · exact ih _ h

/-- **no_missed_crossing_partial.**  Full statement wanted: *if the crossing oracle is exact, the status is
    geometrically ordered (hypotheses of `status_sorted_invariant` for the true "below" relation), the input is in
    general position w.r.t. the oracles (no crossing at an event point other than a queued one, every crossing
    strictly ahead of the event that finds it), then every proper crossing of two seeded edges is a queued event
    before the sweep passes it.*  Proved here is the combinatorial half, for every run of the arrangement pass with
    a non-erasing crossing oracle: at every event of the run, every pair of edges that is adjacent in the status at
    the exit of `ProcessEvent` was adjacent at its entry, or leaves the event point together, or was handed to
    `TestPair` during this event.  By induction over the run, every pair that is ever adjacent has been tested at
    the moment it became adjacent.  NOT proved (the gap): the geometric half — that two edges that cross must become
    adjacent before their crossing point when the status is geometrically ordered (this needs the real-number
    geometry of segments, which the model does not have: its coordinates are only an order), and that the
    floating-point kernels realise such an order.  That half remains with the oracles on the real output. -/
theorem no_missed_crossing_partial (o : Oracle) (hne : NoErase o) (rule : WindRule) (fuel : Nat) (st : St)
    (x : Pt × St × St) (hmem : x ∈ runStates o .arrangement rule fuel st) (a b : Nat)
    (hadj : Adj x.2.2.status a b) :
    Adj x.2.1.status a b
    ∨ (∃ ea eb, ea ∈ x.2.2.status ∧ eb ∈ x.2.2.status ∧ ea.seq = a ∧ eb.seq = b ∧ ea.l = x.1 ∧ eb.l = x.1)
    ∨ (a, b) ∈ x.2.2.tested := by
  have hx := runStates_mem o .arrangement rule fuel st x hmem
  obtain ⟨hk, hall⟩ := adjacency_tests_reach_the_pair o hne rule x.2.1 x.1
  rw [← hx] at hk hall
  obtain ⟨i, ea, eb, h1, h2, h3, h4⟩ := hadj
  have k1 := keys_getElem? x.2.2.status i
  have k2 := keys_getElem? x.2.2.status (i + 1)
  rw [hk, keys_getElem?, h1] at k1
  rw [hk, keys_getElem?, h2] at k2
  cases hm1 : (prepare o .arrangement rule x.2.1 x.1).mid.status[i]? with
  | none => rw [hm1] at k1; simp at k1
  | some xa =>
    cases hm2 : (prepare o .arrangement rule x.2.1 x.1).mid.status[i + 1]? with
    | none => rw [hm2] at k2; simp at k2
    | some xb =>
      rw [hm1] at k1; rw [hm2] at k2
      simp [key] at k1 k2
      rcases hall i xa xb hm1 hm2 with h | h | h
      · left; rw [← h3, ← h4, ← k1.1, ← k2.1]; exact h
      · right; left
        exact ⟨ea, eb, List.mem_of_getElem? h1, List.mem_of_getElem? h2, h3, h4, by rw [← k1.2]; exact h.1,
               by rw [← k2.2]; exact h.2⟩
      · right; right; rw [← h3, ← h4, ← k1.1, ← k2.1]; exact h

/-- non-vacuity: in the run of `exX` the two segments become adjacent at the event (0,4) and are tested there -/
example :
    ((runStates exX .arrangement .add 10 (seedAll [((0, 0), (4, 4), 1), ((4, 0), (0, 4), 1)])).map
      (fun x => x.2.2.tested)) = [[], [(0, 1)], [(0, 1)], [(0, 1)], [(0, 1)]] := by
  decide +kernel

end MV.C11b
