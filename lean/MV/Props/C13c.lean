/-
Property C13c.  "Concurrent unite/find on the union-find structure yields the partition a
sequential run over the same pairs yields, and concurrent inserts into the hash table leave
every inserted key retrievable with its value unless the table reports Full."

Models: MV/Model/Dsu.lean (DisjointSets, /repo/src/disjoint_sets.h) and MV/Model/HashT.lean
(HashTableD, /repo/src/hashtable.h): small-step machines, one step = one atomic memory
operation, sequentially consistent, any number of threads, every schedule.  "Reachable" =
reached from the initial state by SOME schedule, so a theorem about all reachable states is
a theorem about every interleaving.

Findings worth reporting (all proved or exhibited below):
* (I1) holds with the key order "rank ascending, then id DESCENDING" (on a rank tie `unite`
  links the root with the LARGER id under the smaller one).
* Path halving under concurrency does NOT replace the parent by a current ancestor in
  general, only by a former ancestor: an element of the same class with a strictly larger
  key (`Ext.word`); that is enough for (I1)/(I2).
* (I3) "rank-0 roots have no children" is NOT an invariant of reachable states: it is
  violated between the link CAS and the rank CAS (`dsu_I3_transient_violation`).  It holds
  with exactly that exception (`Inv3.child`) and therefore at quiescence
  (`quiescent_noChild0`), which is what `connectedComponents` needs.  The "retry when rank
  is 0" rule contributes nothing to this: after a successful link the retried loop finds
  both ids in one tree and returns; the rank CAS can only fail when the target is no longer
  a rank-0 root.
* Hash table: needs `key ≠ kOpen` (`MV.HashT.kOpen_key_breaks_exclusion`), and quiescence
  for the VALUE (a lookup racing with the claimer's plain store reads the initial value).
-/
import MV.Proof.DsuI3
import MV.Proof.DsuStarted
import MV.Proof.DsuTrail
import MV.Proof.DsuSeq
import MV.Proof.HashT

namespace MV.C13c

open MV.Dsu

/-! # Union-find -/

/-- reachable from the initial state of `DisjointSets(n)` with thread programs `progs` -/
def DsuReachable (n : Nat) (progs : List (List Op)) (s : State) : Prop :=
  ∃ sched : List (Nat × Bool), exec (init n progs) sched = s

theorem run_fst (s : State) (sched : List (Nat × Bool)) : (run s sched).1 = exec s sched := by
  induction sched generalizing s with
  | nil => rfl
  | cons e rest ih => obtain ⟨tid, sp⟩ := e; simp only [run, exec]; exact ih _

/-- all `unite` argument pairs of all thread programs -/
def allUnitePairs (progs : List (List Op)) : List (Nat × Nat) := (progs.map unitePairs).flatten

/-- THEOREM `dsu_inv_reachable`.  In every reachable state (any number of threads, any
programs with arguments `< n`, any schedule, any pattern of spurious weak-CAS failures):

* `Inv.mem.klt`  (I1) every parent link `i → p`, `p ≠ i`, strictly increases the key:
  `rank i < rank p ∨ (rank i = rank p ∧ p < i)`; hence the parent graph is a forest and
  following parents from any `i` reaches a root within `n` steps (`root_spec`,
  `findSeq_spec`).
* `Inv.mem.edge`, `Inv.mem.uroot`  (I2) parent links stay inside the classes of
  `Conn s.links` (`s.links` = ghost list of the `(id1,id2)` of the successful link CASes)
  and each class contains at most one root; equivalently (`root_eq_iff`)
  `root a = root b ↔ Conn s.links a b`.
* `Inv.thr` the thread-local facts (e.g. at the link CAS: `id1 ≠ id2`, the ranks read are
  lower bounds, `(r1,id1) < (r2,id2)`; in `unite a b`: `{id1,id2}` are in the classes of
  `{a,b}`; results of completed operations are in the right class).
* `Inv3` (I3) with its one exception (see the header).
* `LinksSub`: every link lies inside the equivalence closure of the programs' `unite` pairs.

The two-state facts ("ranks never decrease, a non-root's word changes only by path
halving, classes only grow") are `dsu_step_mono`; "every successful link CAS joins the
classes of the arguments of its `unite`" is `dsu_link_joins`. -/
theorem dsu_inv_reachable {n : Nat} {progs : List (List Op)} {s : State}
    (hp : ProgsOk n progs) (hr : DsuReachable n progs s) :
    Inv n s ∧ Inv3 n s ∧ LinksSub s ∧ allPairs s = allUnitePairs progs := by
  obtain ⟨sched, rfl⟩ := hr
  have h0 := init_inv n progs hp
  exact ⟨exec_inv h0 sched, exec_inv3 h0 (init_inv3 n progs) sched,
    exec_linksSub h0 (init_linksSub n progs) sched,
    (exec_allPairs _ sched).trans (init_allPairs n progs)⟩

/-- (I2) in the form asked for: the partition induced by "same root" equals the equivalence
closure of the pairs whose link CAS has succeeded so far. -/
theorem dsu_same_root_iff_links {n : Nat} {progs : List (List Op)} {s : State}
    (hp : ProgsOk n progs) (hr : DsuReachable n progs s) {a b : Nat} (ha : a < n) (hb : b < n) :
    root s.mem a = root s.mem b ↔ Conn s.links a b :=
  root_eq_iff (dsu_inv_reachable hp hr).1.mem ha hb

/-- the parent graph is a forest: from every element, following parent links reaches a root
of its class in at most `n` steps (`root` uses fuel `n`) -/
theorem dsu_root_reached {n : Nat} {progs : List (List Op)} {s : State}
    (hp : ProgsOk n progs) (hr : DsuReachable n progs s) {i : Nat} (hi : i < n) :
    root s.mem i < n ∧ par s.mem (root s.mem i) = root s.mem i ∧ Conn s.links i (root s.mem i) :=
  root_spec (dsu_inv_reachable hp hr).1.mem hi

/-- two-state part of the invariant, for one step of any thread from a reachable state:
ranks never decrease; a non-root stays a non-root with the same rank; its word is unchanged
or its parent is replaced by an element of the same class with a strictly larger key;
classes only grow. -/
theorem dsu_step_mono {n : Nat} {progs : List (List Op)} {s : State}
    (hp : ProgsOk n progs) (hr : DsuReachable n progs s) (tid : Nat) (sp : Bool) :
    Ext s.mem (step s tid sp).1.mem s.links (step s tid sp).1.links :=
  (step_inv2 (dsu_inv_reachable hp hr).1 tid sp).2

/-- every successful link CAS `(i, j)` is performed by a thread inside some `unite a b` and
joins the classes of `a` and `b`: `{i, j}` lie in the classes of `{a, b}`. -/
theorem dsu_link_joins {n : Nat} {progs : List (List Op)} {s : State}
    (hp : ProgsOk n progs) (hr : DsuReachable n progs s) (tid : Nat) (sp : Bool) {i j : Nat}
    (hl : (step s tid sp).1.links = (i, j) :: s.links) :
    ∃ t a b, s.thr[tid]? = some t ∧ t.curOp = some (.unite a b) ∧ t.pc = .uLink ∧
      ((Conn s.links i a ∧ Conn s.links j b) ∨ (Conn s.links i b ∧ Conn s.links j a)) := by
  have hI := (dsu_inv_reachable hp hr).1
  have hne : ∀ (l : List (Nat × Nat)) x, x :: l ≠ l := fun l x h => by
    have := congrArg List.length h; simp at this
  cases hget : s.thr[tid]? with
  | none => rw [step_idle (.inl hget)] at hl; exact (hne _ _ hl.symm).elim
  | some t =>
    cases hfin : t.finished with
    | true => rw [step_idle (.inr ⟨t, hget, hfin⟩)] at hl; exact (hne _ _ hl.symm).elim
    | false =>
      obtain ⟨op, hc⟩ : ∃ op, t.curOp = some op := by
        unfold Thr.finished at hfin
        cases h : t.curOp with
        | none => rw [h] at hfin; cases hfin
        | some op => exact ⟨op, rfl⟩
      obtain ⟨w, ok, _, _, _, hcases⟩ := step_desc (sp := sp) hget hfin
      rcases hcases with ⟨_, _, hk, _⟩ | ⟨_, _, _, _, hk⟩ | ⟨_, hpc, _, _, hk⟩ | ⟨_, _, _, _, hk⟩
      · rw [hk] at hl; exact (hne _ _ hl.symm).elim
      · rw [hk] at hl; exact (hne _ _ hl.symm).elim
      · rw [hk] at hl
        have e := (List.cons.inj hl).1
        obtain ⟨a, b, rfl, _, _, ua, _⟩ := ((hI.thr tid t hget).cur op hc).getUnite
          (by rw [hpc]; exact fun h => h) (by rw [hpc]; exact fun h => by cases h)
        have e1 : t.id1 = i := congrArg Prod.fst e
        have e2 : t.id2 = j := congrArg Prod.snd e
        exact ⟨t, a, b, rfl, hc, hpc, e1 ▸ e2 ▸ ua⟩
      · rw [hk] at hl; exact (hne _ _ hl.symm).elim

/-- Intermediate states (the non-quiescent form of "concurrent = sequential"): the classes
of the links made so far contain the closure of the COMPLETED `unite` pairs and are
contained in the closure of the STARTED ones (completed or in progress); with
`dsu_same_root_iff_links` this sandwiches the "same root" partition. -/
theorem dsu_links_between {n : Nat} {progs : List (List Op)} {s : State}
    (hp : ProgsOk n progs) (hr : DsuReachable n progs s) (a b : Nat) :
    (Conn (donePairs s) a b → Conn s.links a b) ∧
    (Conn s.links a b → Conn (startedPairs s) a b) := by
  obtain ⟨sched, rfl⟩ := hr
  have h0 := init_inv n progs hp
  have hI := exec_inv h0 sched
  have hS : LinksStarted (exec (init n progs) sched) :=
    exec_linksStarted h0 (fun a b h => by cases h) sched
  exact ⟨fun c => c.of_sub (fun _ _ h => done_sub_links hI h), fun c => c.of_sub hS⟩

/-- `findImpl` is wait-free (termination of `find` under arbitrary interference): in every
reachable state, a thread inside a `findImpl` call has performed fewer than `n` iterations
of its loop in this call (`trail` = ghost list of the previous values of `id`, one per
iteration; they are distinct non-roots forming a strictly increasing chain in the key
order).  Each iteration is at most 4 atomic steps, so a call takes at most `4(n-1)+1` of
the thread's own steps.  (`unite`/`same` are only lock-free: their outer loops retry when
another thread's link wins.) -/
theorem dsu_find_wait_free {n : Nat} {progs : List (List Op)} {s : State}
    (hp : ProgsOk n progs) (hr : DsuReachable n progs s) {tid : Nat} {t : Thr}
    (ht : s.thr[tid]? = some t) (hfin : t.finished = false) (hpc : FindPc t.pc) :
    t.trail.length < n ∧ Chain n s.mem t.trail t.id := by
  obtain ⟨sched, rfl⟩ := hr
  have h0 := init_inv n progs hp
  have hT := exec_trailInv h0 (init_trailInv n progs) sched
  exact ⟨trail_length_lt (exec_inv h0 sched) hT ht hfin hpc, (hT tid t ht hfin).chain hpc⟩

/-- THEOREM `dsu_quiescent_partition`.  When all threads have finished their programs, with
`U` = all `unite` pairs of all programs:
* `root a = root b` iff `(a,b)` is in the equivalence closure of `U`, iff the sequential
  reference `seqPartition n U` gives `a` and `b` the same label;
* `connectedComponents` returns `k` and a labelling with values in `0..k-1`, each value
  used, inducing exactly that partition. -/
theorem dsu_quiescent_partition {n : Nat} {progs : List (List Op)} {s : State}
    (hp : ProgsOk n progs) (hr : DsuReachable n progs s) (hq : quiescent s = true) :
    (∀ a b, a < n → b < n →
      ((root s.mem a = root s.mem b ↔ Conn (allUnitePairs progs) a b) ∧
       ((seqPartition n (allUnitePairs progs)).getD a 0 =
          (seqPartition n (allUnitePairs progs)).getD b 0 ↔ Conn (allUnitePairs progs) a b) ∧
       ((connectedComponents s.mem).2.getD a 0 = (connectedComponents s.mem).2.getD b 0 ↔
          Conn (allUnitePairs progs) a b))) ∧
    (connectedComponents s.mem).2.length = n ∧
    (∀ a, a < n → (connectedComponents s.mem).2.getD a 0 < (connectedComponents s.mem).1) ∧
    (∀ l, l < (connectedComponents s.mem).1 →
      ∃ a, a < n ∧ (connectedComponents s.mem).2.getD a 0 = l) := by
  obtain ⟨hI, h3, hL, hU⟩ := dsu_inv_reachable hp hr
  have hconn : ∀ a b, Conn s.links a b ↔ Conn (allUnitePairs progs) a b := fun a b => by
    rw [← hU]; exact quiescent_conn_iff hI hL hq a b
  obtain ⟨c1, c2, c3, c4⟩ := connectedComponents_spec hI.mem (quiescent_noChild0 h3 hq)
  have hbound : ∀ p, p ∈ allUnitePairs progs → p.1 < n ∧ p.2 < n := by
    intro p hpm
    unfold allUnitePairs at hpm
    obtain ⟨l, hl, hpl⟩ := List.mem_flatten.1 hpm
    obtain ⟨prog, hprog, rfl⟩ := List.mem_map.1 hl
    unfold unitePairs at hpl
    obtain ⟨op, hop, hsome⟩ := List.mem_filterMap.1 hpl
    have := hp prog hprog op hop
    cases op <;> simp at hsome
    subst hsome; exact this
  refine ⟨fun a b ha hb => ⟨?_, ?_, ?_⟩, c1, c2, c3⟩
  · exact (root_eq_iff hI.mem ha hb).trans (hconn a b)
  · exact (seqPartition_spec n _ hbound).2 a b ha hb
  · exact (c4 a b ha hb).trans (hconn a b)

/-- the sequential reference is canonical: `seqPartition n U` labels `i` with the least
element of its class -/
theorem dsu_seqPartition_least {n : Nat} {progs : List (List Op)} (hp : ProgsOk n progs)
    {i : Nat} (hi : i < n) :
    Conn (allUnitePairs progs) i ((seqPartition n (allUnitePairs progs)).getD i 0) ∧
    ∀ j, j < n → Conn (allUnitePairs progs) i j →
      (seqPartition n (allUnitePairs progs)).getD i 0 ≤ j := by
  refine seqPartition_least n _ ?_ hi
  intro p hpm
  unfold allUnitePairs at hpm
  obtain ⟨l, hl, hpl⟩ := List.mem_flatten.1 hpm
  obtain ⟨prog, hprog, rfl⟩ := List.mem_map.1 hl
  unfold unitePairs at hpl
  obtain ⟨op, hop, hsome⟩ := List.mem_filterMap.1 hpl
  have := hp prog hprog op hop
  cases op <;> simp at hsome
  subst hsome; exact this

/-- THEOREM `dsu_find_sound` (the weaker of the two forms asked for, but for EVERY reachable
state, not only the final one): once a `find a` has completed with result `r`, `r < n`
... and `r` is in the class of `a` with respect to the links made so far -- in particular at
the moment of completion -- and, classes only growing, in every later state and in the
final partition.  NOT proved: that `r` was a root of that class at some moment during the
call (true: the last load saw `parent(r) = r`; stating it needs a history variable). -/
theorem dsu_find_sound {n : Nat} {progs : List (List Op)} {s : State}
    (hp : ProgsOk n progs) (hr : DsuReachable n progs s) {tid : Nat} {t : Thr} {j a r : Nat}
    (ht : s.thr[tid]? = some t) (hop : t.prog[j]? = some (.find a))
    (hres : t.results[j]? = some r) :
    Conn s.links a r ∧ Conn (allUnitePairs progs) a r := by
  obtain ⟨hI, _, hL, hU⟩ := dsu_inv_reachable hp hr
  have h : Conn s.links a r := (hI.thr tid t ht).base.resOk j _ r hop hres
  exact ⟨h, hU ▸ h.of_sub hL⟩

/-- a completed `unite a b` has put `a` and `b` in one class and returned an element of it;
a completed `same a b` that returned true had `a`, `b` in one class -/
theorem dsu_unite_same_sound {n : Nat} {progs : List (List Op)} {s : State}
    (hp : ProgsOk n progs) (hr : DsuReachable n progs s) {tid : Nat} {t : Thr} {j a b r : Nat}
    (ht : s.thr[tid]? = some t) (hres : t.results[j]? = some r) :
    (t.prog[j]? = some (.unite a b) → Conn s.links a b ∧ Conn s.links a r) ∧
    (t.prog[j]? = some (.same a b) → (r = 1 → Conn s.links a b) ∧ r ≤ 1) := by
  have hI := (dsu_inv_reachable hp hr).1
  exact ⟨fun hop => (hI.thr tid t ht).base.resOk j _ r hop hres,
    fun hop => (hI.thr tid t ht).base.resOk j _ r hop hres⟩

/-! ## non-vacuity: concrete 2-thread executions -/

/-- thread 0: `unite 0 1; find 3`, thread 1: `unite 1 2`, on 4 elements -/
def exProgs : List (List Op) := [[.unite 0 1, .find 3], [.unite 1 2]]

/-- thread 1 wins the race for element 1; thread 0's link CAS fails, it retries and links
root 0 under root 1 -/
def exSched : List (Nat × Bool) :=
  [0, 1, 1, 0, 0, 0, 1, 1, 1, 1, 0, 0, 0, 0, 0, 0, 0].map (·, false)

def exFinal : State := exec (init 4 exProgs) exSched
/-- after 11 steps: thread 1 done, thread 0 has just failed its link CAS -/
def exMid : State := exec (init 4 exProgs) (exSched.take 11)

theorem exProgs_ok : ProgsOk 4 exProgs := by
  intro p hp op hop
  simp only [exProgs, List.mem_cons, List.not_mem_nil, or_false] at hp
  rcases hp with rfl | rfl <;> simp at hop <;> rcases hop with rfl | rfl <;> simp [Op.Ok]

example : exMid.mem.map Word.pack = [0, 2 ^ 32 + 1, 1, 3] ∧ exMid.links = [(2, 1)] ∧
    quiescent exMid = false ∧ exMid.thr.map (·.pc) = [.fLoadP, .uRankCas] ∧
    exMid.thr.map (·.results) = [[], [1]] := by decide
example : Inv 4 exMid := (dsu_inv_reachable exProgs_ok ⟨exSched.take 11, rfl⟩).1

example : exFinal.mem.map Word.pack = [1, 2 ^ 32 + 1, 1, 3] ∧ exFinal.links = [(0, 1), (2, 1)] ∧
    quiescent exFinal = true ∧ exFinal.thr.map (·.results) = [[1, 3], [1]] := by decide
example : connectedComponents exFinal.mem = (2, [0, 0, 0, 1]) := by decide
example : seqPartition 4 (allUnitePairs exProgs) = [0, 0, 0, 3] := by decide
example : (List.range 4).map (root exFinal.mem) = [1, 1, 1, 3] := by decide
example := dsu_quiescent_partition exProgs_ok ⟨exSched, rfl⟩ (by decide)
example : Conn exFinal.links 3 3 ∧ Conn (allUnitePairs exProgs) 3 3 :=
  dsu_find_sound (s := exFinal) (tid := 0) (j := 1) exProgs_ok ⟨exSched, rfl⟩ rfl rfl rfl

/-- path halving with a spurious failure: one thread builds the chain 3 → 2 → 0 and then
`find 3`: the first weak CAS fails spuriously (`true`), so 3 keeps parent 2 -/
def exHalve : List (Nat × Bool) := (List.replicate 18 (0, false)) ++ [(0, false), (0, false), (0, false), (0, true)]
example : (exec (init 4 [[.unite 0 1, .unite 2 3, .unite 0 2, .find 3]]) exHalve).mem.map Word.pack
    = [2 * 2 ^ 32 + 0, 0, 2 ^ 32 + 0, 2] := by decide
example : (exec (init 4 [[.unite 0 1, .unite 2 3, .unite 0 2, .find 3]])
      (exHalve.dropLast ++ [(0, false)])).mem.map Word.pack
    = [2 * 2 ^ 32 + 0, 0, 2 ^ 32 + 0, 0] := by decide

/-- the same run stopped just before the (spuriously failing) CAS: `find 3` has not yet
completed an iteration; one step after the CAS it has: trail = [3], id = 0 -/
example : ((exec (init 4 [[.unite 0 1, .unite 2 3, .unite 0 2, .find 3]]) exHalve).thr.map
    fun t => (t.trail, t.id, t.pc)) = [([3], 0, .fLoadP)] := by decide

/-- (I3) is NOT an invariant: after the link CAS of `unite 0 1` and before its rank CAS,
element 0 is a rank-0 root with child 1. -/
theorem dsu_I3_transient_violation :
    ∃ s, DsuReachable 2 [[.unite 0 1]] s ∧ ¬ NoChild0 2 s.mem := by
  refine ⟨exec (init 2 [[.unite 0 1]]) (List.replicate 5 (0, false)), ⟨_, rfl⟩, ?_⟩
  intro h
  have := h 0 1 (by decide) (by decide) (by decide) (by decide) (by decide)
  exact absurd this (by decide)

/-! # Hash table -/

open MV.HashT in
/-- THEOREM `hash_inv_reachable` (see MV/Proof/HashT.lean for the fields of `Inv`): sizes,
`used + #threads between CAS and fetch_add = #claimed slots`, per-thread probe prefix
(`Fresh`), slot ownership (`Own`: one claimer per slot, value written once by the claimer). -/
theorem hash_inv_reachable {cfg : Cfg} {progs : List (List MV.HashT.Op)} {s : MV.HashT.State}
    (hk : KeysOK progs) (hr : MV.HashT.Reachable cfg progs s) : MV.HashT.Inv cfg s :=
  MV.HashT.hash_inv_reachable hk hr

open MV.HashT in
/-- THEOREM `hash_insert_retrievable`: in every reachable quiescent state, every completed
`ins key val` that did not return `full` is found by `lookup`, in the slot its result names,
with the value of the `ins key v` that claimed the slot (its own if it is the claimer). -/
theorem hash_insert_retrievable {cfg : Cfg} {progs : List (List MV.HashT.Op)} {s : MV.HashT.State}
    (hk : KeysOK progs) (hr : MV.HashT.Reachable cfg progs s) (hq : MV.HashT.quiescent s = true)
    {t n key val : Nat} {r : Res}
    (hop : opOf progs t n = some (.ins key val)) (hres : s.res t n = some r) (hnf : r ≠ .full) :
    ∃ i v, lookup cfg s.keys s.vals key = some (i, v) ∧
      (∃ t2 n2, opOf progs t2 n2 = some (.ins key v) ∧ s.res t2 n2 = some (.inserted i)) ∧
      (r = .inserted i ∨ r = .present i) ∧
      (∀ i', r = .inserted i' → i' = i ∧ v = val) :=
  MV.HashT.hash_insert_retrievable hk hr hq hop hres hnf

open MV.HashT in
/-- the property's wording: either some Insert observed `Full()` or every inserted key is
retrievable with a value some Insert wrote for it -/
theorem hash_full_or_all_found {cfg : Cfg} {progs : List (List MV.HashT.Op)} {s : MV.HashT.State}
    (hk : KeysOK progs) (hr : MV.HashT.Reachable cfg progs s) (hq : MV.HashT.quiescent s = true) :
    (∃ t n, s.res t n = some .full) ∨
    (∀ t n key val, opOf progs t n = some (.ins key val) →
      ∃ i v, lookup cfg s.keys s.vals key = some (i, v) ∧
        ∃ t2 n2, opOf progs t2 n2 = some (.ins key v) ∧ s.res t2 n2 = some (.inserted i)) :=
  MV.HashT.hash_full_or_all_found hk hr hq

open MV.HashT in
/-- a claimed key slot never changes -/
theorem hash_no_two_keys {cfg : Cfg} {progs : List (List MV.HashT.Op)} {s : MV.HashT.State}
    (hr : MV.HashT.Reachable cfg progs s) (sched : List Nat) (i : Nat)
    (h : s.keys.getD i kOpen ≠ kOpen) :
    (MV.HashT.run cfg s sched).1.keys.getD i kOpen = s.keys.getD i kOpen :=
  MV.HashT.hash_no_two_keys hr sched i h

open MV.HashT in
/-- at quiescence `used_` = number of claimed slots -/
theorem hash_used_eq_claimed {cfg : Cfg} {progs : List (List MV.HashT.Op)} {s : MV.HashT.State}
    (hk : KeysOK progs) (hr : MV.HashT.Reachable cfg progs s) (hq : MV.HashT.quiescent s = true) :
    s.used = claimed s.keys :=
  MV.HashT.hash_used_eq_claimed hk hr hq

open MV.HashT in
/-- no two plain value stores of one execution hit the same slot (no write-write race) -/
theorem hash_store_once {cfg : Cfg} {progs : List (List MV.HashT.Op)} (hk : KeysOK progs)
    (sched1 sched2 : List Nat) (tid1 tid2 : Nat) :
    let sA := (MV.HashT.run cfg (MV.HashT.init cfg progs) sched1).1
    let stA := MV.HashT.step cfg sA tid1
    let sB := (MV.HashT.run cfg stA.1 sched2).1
    let stB := MV.HashT.step cfg sB tid2
    stA.2.kind = .vstore → stB.2.kind = .vstore → stA.2.index ≠ stB.2.index :=
  MV.HashT.hash_store_once hk sched1 sched2 tid1 tid2

/- non-vacuity (more examples, incl. `Full()` observed and the stale read, in
MV/Proof/HashT.lean): two threads insert the same key 1 with different values, and key 5
collides with it -/
open MV.HashT in
example : sEx.keys = [kOpen, 1, 5, kOpen] ∧ sEx.vals = [0, 20, 50, 0] ∧ sEx.used = 2 ∧
    MV.HashT.quiescent sEx = true ∧ lookup cfgEx sEx.keys sEx.vals 1 = some (1, 20) := by decide
open MV.HashT in
example := hash_full_or_all_found (cfg := cfgEx) (progs := progsEx) (s := sEx) (by decide)
  ⟨schedEx, rfl⟩ (by decide)

end MV.C13c
