import MV.Proof.PolyGeomField
/-!
Property C10 (Triangulate is a correct triangulation), deepening C10b: the GEOMETRIC gate of the
`allowConvex` fast path and the strip it guards, about the executable definitions of
MV/Model/PolyGeom.lean (run at `Float` against src/polygon.cpp bit for bit by
harness/c10_polygeom.cpp) instantiated at `Option F`, `F` any linearly ordered field, `none` = NaN.

* `isConvex_accepts_iff`   the loop with its early return, NaN path included, as a statement about all corners
* `isConvex_sound`         accepted and not all vertices equal  =>  no zero-length edge, EVERY corner turns
                           strictly left (`orient > 0`), and a corner folding back by more than a right angle
                           has a normalised determinant of at least epsilon
* `isConvex_rejects_reflex`   a corner that turns right or is straight (`orient <= 0`) is rejected; this covers
                           zero-length edges: `isConvex_rejects_duplicated_vertex` is the statement broken by
                           the seeded change `det <= 0 -> det < 0` (`seeded_change_accepts_duplicated_reflex`
                           exhibits the ring that the changed test accepts)
* `isConvex_all_equal_accepted`   the one NaN escape of the real code: a contour whose vertices all coincide is
                           accepted (every determinant is NaN); its strip triangles are all degenerate
* `strip_increasing`, `strip_length`   TriangulateConvex emits n-2 triangles (i, j, k) with i < j < k < n
* `convex_strip_area`      for EVERY ring the doubled signed areas of the strip triangles sum to the shoelace sum
* `convex_strip_ccw_partial`   on a ring in convex position every strip triangle is CCW or degenerate
* `ccw_eq`, `ccw_antisymm`, `ccw_sign`, `ccw_cyclic_zero`, `ccw_cyclic_nonopposite`, `ccw_not_cyclic`
* `delaunayCost_le`, `isShort_iff`, `vertIsConvex_iff`
-/
set_option linter.unusedSectionVars false
namespace MV.PolyGeom
open MV.CrossOps

section Convex
variable {F : Type} [Field F] [LinearOrder F] [IsStrictOrderedRing F] [HasSqrt F]

/-- the cyclic successor index -/
def csucc (n v : Nat) : Nat := if v + 1 < n then v + 1 else 0

/-- the edge leaving vertex `v` of the ring `q 0 … q (n-1)` -/
def edgeF (q : Nat → V2 F) (n v : Nat) : V2 F := vsubF (q (csucc n v)) (q v)
/-- the edge arriving at vertex `v` -/
def prevF (q : Nat → V2 F) (n v : Nat) : V2 F := edgeF q n (cpred n v)

/-- what `IsConvex` demands of the corner with arriving edge `a` and leaving edge `b`: nothing when `a`
is zero-length (NaN path), otherwise a strict left turn, and — when the corner folds back
(`dot < 0`) — a normalised determinant `cross / |a|` of at least `eps` -/
def CornerOK (eps : F) (a b : V2 F) : Prop :=
  len2F a = 0 ∨ (0 < crossF a b ∧ (dotF a b < 0 → eps * lenF a ≤ crossF a b))

theorem icReject_normalize (eps : F) (a b : V2 F) :
    icReject (some eps) (normalize (lift a)) (lift b) = false ↔ CornerOK eps a b := by
  rw [normalize_lift]
  by_cases h0 : len2F a = 0
  · simp [h0, icReject_nan, CornerOK]
  · have hs := lenF_pos h0
    rw [if_neg h0, icReject_lift, crossF_div, dotF_div]
    simp only [CornerOK, h0, false_or, Bool.or_eq_false_iff, decide_eq_false_iff_not, Bool.and_eq_false_iff,
      not_le, not_lt]
    have e1 : 0 < crossF a b / lenF a ↔ 0 < crossF a b := by
      constructor
      · intro h; have := mul_pos h hs; rwa [div_mul_cancel₀ _ (ne_of_gt hs)] at this
      · intro h; exact div_pos h hs
    have e3 : dotF a b / lenF a < 0 ↔ dotF a b < 0 := by
      constructor
      · intro h; have := mul_neg_of_neg_of_pos h hs; rwa [div_mul_cancel₀ _ (ne_of_gt hs)] at this
      · intro h; exact div_neg_of_neg_of_pos h hs
    constructor
    · rintro ⟨h1, h2⟩
      have hc := e1.1 h1
      refine ⟨hc, fun hd => ?_⟩
      rcases h2 with h2 | h2
      · rw [abs_of_pos h1] at h2
        have := mul_le_mul_of_nonneg_right h2 (le_of_lt hs)
        rwa [div_mul_cancel₀ _ (ne_of_gt hs)] at this
      · exact absurd (e3.2 hd) (not_lt.2 h2)
    · rintro ⟨hc, h2⟩
      have h1 := e1.2 hc
      refine ⟨h1, ?_⟩
      by_cases hd : dotF a b < 0
      · left
        rw [abs_of_pos h1, le_div_iff₀ hs]
        exact h2 hd
      · right
        exact not_lt.1 (fun h => hd (e3.1 h))

theorem icEdge_lift (q : Nat → V2 F) (n v : Nat) (hv : v < n) :
    icEdge (fun i => lift (q i)) n ((lift (q 0)).sub (lift (q (n - 1)))) v = lift (edgeF q n v) := by
  unfold icEdge edgeF csucc
  by_cases h : v + 1 < n
  · simp [h]
  · have hvn : v = n - 1 := by omega
    rw [if_neg h, if_neg h, sub_lift, hvn]

theorem icLast_lift (q : Nat → V2 F) (n v : Nat) (hv : v < n) :
    icLast (fun i => lift (q i)) n ((lift (q 0)).sub (lift (q (n - 1)))) v = normalize (lift (prevF q n v)) := by
  unfold icLast prevF cpred
  by_cases h0 : v = 0
  · subst h0
    have : edgeF q n (n - 1) = vsubF (q 0) (q (n - 1)) := by
      unfold edgeF csucc; rw [if_neg (by omega)]
    simp [this]
  · rw [if_neg h0, if_neg h0, icEdge_lift q n (v - 1) (by omega)]

/-- **the loop of `IsConvex` on a finite contour, NaN path included**: the contour is accepted exactly when
it has at least three vertices and every corner satisfies `CornerOK` -/
theorem isConvex_accepts_iff (eps : F) (q : Nat → V2 F) (n : Nat) :
    isConvexFn (some eps) (fun i => lift (q i)) n = true ↔
      3 ≤ n ∧ ∀ v, v < n → CornerOK eps (prevF q n v) (edgeF q n v) := by
  rw [isConvexFn_iff]
  constructor
  · rintro ⟨h3, h⟩
    refine ⟨h3, fun v hv => ?_⟩
    have := h v hv
    rw [icLast_lift q n v hv, icEdge_lift q n v hv] at this
    exact (icReject_normalize eps _ _).1 this
  · rintro ⟨h3, h⟩
    refine ⟨h3, fun v hv => ?_⟩
    show icReject (some eps) (icLast (fun i => lift (q i)) n ((lift (q 0)).sub (lift (q (n - 1)))) v)
      (icEdge (fun i => lift (q i)) n ((lift (q 0)).sub (lift (q (n - 1)))) v) = false
    rw [icLast_lift q n v hv, icEdge_lift q n v hv]
    exact (icReject_normalize eps _ _).2 (h v hv)

omit [HasSqrt F] in
theorem crossF_zero_right (a b : V2 F) (h : len2F b = 0) : crossF a b = 0 := by
  obtain ⟨h1, h2⟩ := (len2F_eq_zero_iff b).1 h
  simp [crossF, h1, h2]

/-- **isConvex_sound**: an accepted contour that does not consist of one repeated point has no
zero-length edge, every corner turns STRICTLY left, and where a corner folds back (`dot < 0`) its
normalised determinant is at least `eps`.  (No sign hypothesis on `eps` is needed.) -/
theorem isConvex_sound (eps : F) (q : Nat → V2 F) (n : Nat)
    (hacc : isConvexFn (some eps) (fun i => lift (q i)) n = true)
    (hne : ∃ u, u < n ∧ len2F (edgeF q n u) ≠ 0) :
    ∀ v, v < n → len2F (edgeF q n v) ≠ 0 ∧ 0 < crossF (prevF q n v) (edgeF q n v) ∧
      (dotF (prevF q n v) (edgeF q n v) < 0 → eps * lenF (prevF q n v) ≤ crossF (prevF q n v) (edgeF q n v)) := by
  obtain ⟨h3, hc⟩ := (isConvex_accepts_iff eps q n).1 hacc
  -- no zero-length edge: otherwise one follows a non-zero edge, and that corner has det = 0
  have hall : ∀ w, w < n → len2F (edgeF q n w) ≠ 0 := by
    intro w hw hz
    obtain ⟨v, hv, hp, hz'⟩ := exists_cyclic_drop (P := fun i => len2F (edgeF q n i) ≠ 0) hne ⟨w, hw, by simpa using hz⟩
    have hz'' : len2F (edgeF q n v) = 0 := by simpa using hz'
    rcases hc v hv with h | ⟨h, _⟩
    · exact hp h
    · rw [crossF_zero_right _ _ hz''] at h; exact lt_irrefl _ h
  intro v hv
  have hprev : len2F (prevF q n v) ≠ 0 := by
    unfold prevF cpred
    by_cases h0 : v = 0
    · rw [if_pos h0]; exact hall _ (by omega)
    · rw [if_neg h0]; exact hall _ (by omega)
  rcases hc v hv with h | ⟨h1, h2⟩
  · exact absurd h hprev
  · exact ⟨hall v hv, h1, h2⟩

/-- **isConvex_rejects_reflex**: a contour (not one repeated point) with a corner that turns right or is
straight — `cross(arriving edge, leaving edge) <= 0`, which includes every corner at a zero-length
edge — is rejected, wherever the corner sits relative to zero-length edges and NaN `lastEdge`s. -/
theorem isConvex_rejects_reflex (eps : F) (q : Nat → V2 F) (n : Nat)
    (hne : ∃ u, u < n ∧ len2F (edgeF q n u) ≠ 0)
    (hv : ∃ v, v < n ∧ crossF (prevF q n v) (edgeF q n v) ≤ 0) :
    isConvexFn (some eps) (fun i => lift (q i)) n = false := by
  cases hacc : isConvexFn (some eps) (fun i => lift (q i)) n
  · rfl
  · obtain ⟨v, hvn, hle⟩ := hv
    exact absurd (isConvex_sound eps q n hacc hne v hvn).2.1 (not_lt.2 hle)

/-- **the statement the seeded change breaks**: an exactly duplicated vertex (`q (w+1) = q w`, cyclically)
makes `IsConvex` reject the contour, whatever the turn at the duplicated corner -/
theorem isConvex_rejects_duplicated_vertex (eps : F) (q : Nat → V2 F) (n : Nat)
    (hne : ∃ u, u < n ∧ len2F (edgeF q n u) ≠ 0)
    (hdup : ∃ w, w < n ∧ q (csucc n w) = q w) :
    isConvexFn (some eps) (fun i => lift (q i)) n = false := by
  obtain ⟨w, hw, he⟩ := hdup
  refine isConvex_rejects_reflex eps q n hne ⟨w, hw, ?_⟩
  have : len2F (edgeF q n w) = 0 := by simp [edgeF, he, vsubF, len2F]
  rw [crossF_zero_right _ _ this]

/-- the one NaN escape: a contour of `n >= 3` coinciding points is ACCEPTED (all determinants NaN).
The comment at polygon.cpp l.195-197 ("that zero-length edge will also get tested non-normalized and
will trip det == 0") does not hold here; harmless for C10: all strip triangles are degenerate. -/
theorem isConvex_all_equal_accepted (eps : F) (q : Nat → V2 F) (n : Nat) (h3 : 3 ≤ n)
    (heq : ∀ i, i < n → q i = q 0) :
    isConvexFn (some eps) (fun i => lift (q i)) n = true := by
  rw [isConvex_accepts_iff]
  refine ⟨h3, fun v hv => Or.inl ?_⟩
  have hz : ∀ w, w < n → len2F (edgeF q n w) = 0 := by
    intro w hw
    have h1 : q (csucc n w) = q 0 := heq _ (by unfold csucc; split <;> omega)
    simp [edgeF, h1, heq w hw, vsubF, len2F]
  unfold prevF cpred
  split <;> exact hz _ (by omega)

omit [HasSqrt F] in
/-- the determinant `IsConvex` looks at is the orientation of three consecutive vertices -/
theorem corner_orient (q : Nat → V2 F) (n v : Nat) (hv : v < n) :
    crossF (prevF q n v) (edgeF q n v) = orient (q (cpred n v)) (q v) (q (csucc n v)) := by
  have : csucc n (cpred n v) = v := by unfold csucc cpred; split <;> split <;> omega
  simp only [prevF, edgeF, this, crossF, vsubF, orient]
  ring

/-! ### non-vacuity of the `IsConvex` theorems (over ℚ; the normaliser is any function positive on the
positives — MV/Proof/PolyGeomReal.lean supplies the real square root over ℝ) -/

end Convex

instance ratSqrtForExamples : HasSqrt ℚ where
  sqrt x := if 0 < x then x + 1 else 0
  sqrt_pos x h := by simp [h]; linarith
  sqrt_zero := by simp

/-- the unit square, counter-clockwise -/
def exSquare : Nat → V2 ℚ := fun i => [⟨0, 0⟩, ⟨1, 0⟩, ⟨1, 1⟩, ⟨0, 1⟩].getD i ⟨0, 0⟩
/-- an L-shape whose reflex corner `(1,1)` is an exactly duplicated vertex (the seeded change's input) -/
def exDupL : Nat → V2 ℚ := fun i => [⟨0, 0⟩, ⟨2, 0⟩, ⟨2, 1⟩, ⟨1, 1⟩, ⟨1, 1⟩, ⟨1, 2⟩, ⟨0, 2⟩].getD i ⟨0, 0⟩

-- the square is accepted (hypotheses of `isConvex_sound` are satisfiable) …
example : isConvexFn (some (1 / 1000 : ℚ)) (fun i => lift (exSquare i)) 4 = true := by
  rw [isConvex_accepts_iff]
  refine ⟨by omega, fun v hv => Or.inr ?_⟩
  have : v = 0 ∨ v = 1 ∨ v = 2 ∨ v = 3 := by omega
  rcases this with h | h | h | h <;> subst h <;>
    norm_num [prevF, edgeF, cpred, csucc, exSquare, vsubF, crossF, dotF]
example : ∃ u, u < 4 ∧ len2F (edgeF exSquare 4 u) ≠ 0 :=
  ⟨0, by omega, by norm_num [edgeF, csucc, exSquare, vsubF, len2F]⟩
-- … and the L-shape with the duplicated reflex corner meets the hypotheses of `isConvex_rejects_duplicated_vertex`
example : isConvexFn (some (1 / 1000 : ℚ)) (fun i => lift (exDupL i)) 7 = false :=
  isConvex_rejects_duplicated_vertex _ _ _
    ⟨0, by omega, by norm_num [edgeF, csucc, exDupL, vsubF, len2F]⟩
    ⟨3, by omega, by simp [csucc, exDupL]⟩
-- a triangle of three coinciding points is accepted
example : isConvexFn (some (0 : ℚ)) (fun _ => lift (⟨5, 7⟩ : V2 ℚ)) 3 = true :=
  isConvex_all_equal_accepted _ _ _ (by omega) (fun _ _ => rfl)

/-! ### the seeded change -/
section Seeded
variable {α : Type} [ScalarSqrt α]
/-- `IsConvex`'s corner test with the seeded change `det <= 0 -> det < 0` -/
def icRejectSeeded (eps : α) (lastEdge edge : V2 α) : Bool :=
  let det := cross lastEdge edge
  Scalar.lt det Scalar.zero || (Scalar.lt (Scalar.abs det) eps && Scalar.lt (dot lastEdge edge) Scalar.zero)
def icLoopSeeded (eps : α) (p : Nat → V2 α) (n : Nat) (firstEdge : V2 α) : Nat → Nat → V2 α → Bool
  | 0, _, _ => true
  | fuel + 1, v, lastEdge =>
    let edge := icEdge p n firstEdge v
    if icRejectSeeded eps lastEdge edge then false
    else icLoopSeeded eps p n firstEdge fuel (v + 1) (normalize edge)
def isConvexFnSeeded (eps : α) (p : Nat → V2 α) (n : Nat) : Bool :=
  if n < 3 then false
  else icLoopSeeded eps p n ((p 0).sub (p (n - 1))) n 0 (normalize ((p 0).sub (p (n - 1))))
end Seeded

/-- with the seeded change the L-shape with the duplicated reflex corner is ACCEPTED (the zero-length
edge's `det = 0` no longer rejects, and the next corner's `det` is NaN): the theorem
`isConvex_rejects_duplicated_vertex` is exactly what that change falsifies -/
theorem seeded_change_accepts_duplicated_reflex :
    isConvexFnSeeded (some (1 / 1000 : ℚ)) (fun i => lift (exDupL i)) 7 = true := by
  simp [isConvexFnSeeded, icLoopSeeded, icEdge, exDupL, icRejectSeeded, normalize, length, V2.divs, V2.sub,
    dot, cross, lift, HasSqrt.sqrt]
  norm_num

section Convex2
variable {F : Type} [Field F] [LinearOrder F] [IsStrictOrderedRing F]

/-! ## TriangulateConvex -/

/-- every strip triangle has strictly increasing positions inside `[i, k]` -/
theorem stripLoop_increasing : ∀ fuel i k right t, t ∈ stripLoop fuel i k right →
    i ≤ t.1 ∧ t.1 < t.2.1 ∧ t.2.1 < t.2.2 ∧ t.2.2 ≤ k := by
  intro fuel
  induction fuel with
  | zero => intro i k right t h; simp [stripLoop] at h
  | succ f ih =>
    intro i k right t h
    simp only [stripLoop] at h
    split at h
    · rcases List.mem_cons.1 h with h | h
      · subst h; cases right <;> simp <;> omega
      · have := ih _ _ _ _ h
        cases right <;> simp at this <;> omega
    · simp at h

/-- **strip_increasing**: `TriangulateConvex` on a contour of `n` vertices emits triangles `(i, j, k)` with
`i < j < k < n` (so they inherit the orientation of the ring's vertex order) -/
theorem strip_increasing (n : Nat) (t : Nat × Nat × Nat) (h : t ∈ stripFn n) (hn : 1 ≤ n) :
    t.1 < t.2.1 ∧ t.2.1 < t.2.2 ∧ t.2.2 < n := by
  have := stripLoop_increasing _ _ _ _ _ h
  omega

theorem stripLoop_length : ∀ fuel m i right, m ≤ fuel → (stripLoop fuel i (i + m) right).length = m - 1 := by
  intro fuel
  induction fuel with
  | zero => intro m i right h; have : m = 0 := by omega
            subst this; simp [stripLoop]
  | succ f ih =>
    intro m i right h
    simp only [stripLoop]
    split
    · rename_i hlt
      cases right
      · have e : (i + m - 1) = i + (m - 1) := by omega
        simp only [Bool.false_eq_true, if_false, List.length_cons, e, Bool.not_false]
        rw [ih (m - 1) i true (by omega)]; omega
      · have e : i + m = (i + 1) + (m - 1) := by omega
        simp only [if_true, List.length_cons, Bool.not_true]
        rw [e, ih (m - 1) (i + 1) false (by omega)]; omega
    · simp; omega

/-- **strip_length**: exactly `n - 2` triangles per contour (the count clause of C10 on the fast path) -/
theorem strip_length (n : Nat) : (stripFn n).length = n - 2 := by
  unfold stripFn
  have := stripLoop_length n (n - 1) 0 true (by omega)
  simp only [Nat.zero_add] at this
  rw [this]; omega

/-- the open path sum `sum_{t<m} cross(q(i+t), q(i+t+1))` -/
def pathSum (q : Nat → V2 F) (i : Nat) : Nat → F
  | 0 => 0
  | m + 1 => pathSum q i m + crossF (q (i + m)) (q (i + m + 1))

theorem pathSum_front (q : Nat → V2 F) : ∀ m i, pathSum q i (m + 1) = crossF (q i) (q (i + 1)) + pathSum q (i + 1) m := by
  intro m
  induction m with
  | zero => intro i; simp [pathSum]
  | succ m ih =>
    intro i
    rw [pathSum, ih i, pathSum]
    have e1 : i + 1 + m = i + (m + 1) := by omega
    have e2 : i + 1 + m + 1 = i + (m + 1) + 1 := by omega
    rw [e1]; ring

/-- the shoelace sum (twice the signed area) of the ring `q 0 … q (n-1)` -/
def shoelace (q : Nat → V2 F) (n : Nat) : F := pathSum q 0 (n - 1) + crossF (q (n - 1)) (q 0)

/-- doubled signed areas of a list of index triangles -/
def triSum (q : Nat → V2 F) (ts : List (Nat × Nat × Nat)) : F :=
  (ts.map fun t => orient (q t.1) (q t.2.1) (q t.2.2)).sum

theorem stripLoop_area (q : Nat → V2 F) : ∀ fuel m i right, m ≤ fuel →
    triSum q (stripLoop fuel i (i + m) right) = pathSum q i m + crossF (q (i + m)) (q i) := by
  intro fuel
  induction fuel with
  | zero =>
    intro m i right h
    have : m = 0 := by omega
    subst this; simp [stripLoop, triSum, pathSum, crossF]; ring
  | succ f ih =>
    intro m i right h
    simp only [stripLoop]
    split
    · rename_i hlt
      obtain ⟨m', rfl⟩ : ∃ m', m = m' + 2 := ⟨m - 2, by omega⟩
      cases right
      · have e : (i + (m' + 2) - 1) = i + (m' + 1) := by omega
        simp only [Bool.false_eq_true, if_false, Bool.not_false, e, triSum, List.map_cons, List.sum_cons]
        have := ih (m' + 1) i true (by omega)
        simp only [triSum] at this
        rw [this]
        have e2 : i + (m' + 2) = i + (m' + 1) + 1 := by omega
        rw [show pathSum q i (m' + 2) = pathSum q i (m' + 1) + crossF (q (i + (m' + 1))) (q (i + (m' + 1) + 1)) from rfl, e2]
        simp only [orient, crossF]; ring
      · have e : i + (m' + 2) = (i + 1) + (m' + 1) := by omega
        simp only [if_true, Bool.not_true, triSum, List.map_cons, List.sum_cons]
        have := ih (m' + 1) (i + 1) false (by omega)
        simp only [triSum] at this
        rw [e, this, ← e, pathSum_front q (m' + 1) i]
        simp only [orient, crossF]; ring
    · rename_i hge
      have hm : m = 0 ∨ m = 1 := by omega
      rcases hm with rfl | rfl
      · simp [triSum, pathSum, crossF]; ring
      · simp [triSum, pathSum, crossF]; ring

/-- **convex_strip_area**: for EVERY ring (convex or not, any `n >= 1`) the doubled signed areas of the
triangles emitted by `TriangulateConvex` telescope to the shoelace sum of the ring: the strip covers the
polygon's signed area exactly -/
theorem convex_strip_area (q : Nat → V2 F) (n : Nat) (hn : 1 ≤ n) :
    triSum q (stripFn n) = shoelace q n := by
  unfold stripFn shoelace
  have := stripLoop_area q n (n - 1) 0 true (by omega)
  simpa using this

/-- the ring is in convex position, counter-clockwise -/
def ConvexPos (q : Nat → V2 F) (n : Nat) : Prop :=
  ∀ a b c, a < b → b < c → c < n → 0 ≤ orient (q a) (q b) (q c)

/-- **convex_strip_ccw_partial**: on a ring in convex position every strip triangle is counter-clockwise or
degenerate.  PARTIAL: the full statement is "`isConvexFn` accepts a SIMPLE ring => every strip triangle is
CCW-or-degenerate"; `isConvex_sound` gives that every corner turns strictly left, but the step from
locally convex + simple to `ConvexPos` (a turning-number argument; `IsConvex` "does not check for
overlaps", a pentagram is locally convex) is not proved here.  It is checked per run on the real outputs by
oracle (b) of harness/c10_polygeom.cpp and by the geometric oracle of harness/c10_earclip.cpp. -/
theorem convex_strip_ccw_partial (q : Nat → V2 F) (n : Nat) (hn : 1 ≤ n) (hc : ConvexPos q n) :
    ∀ t, t ∈ stripFn n → 0 ≤ orient (q t.1) (q t.2.1) (q t.2.2) := by
  intro t ht
  obtain ⟨h1, h2, h3⟩ := strip_increasing n t ht hn
  exact hc _ _ _ h1 h2 h3

example : stripFn 6 = [(0, 1, 5), (1, 4, 5), (1, 2, 4), (2, 3, 4)] := by decide
example : ConvexPos exSquare 4 := by
  intro a b c h1 h2 h3
  have : (a = 0 ∧ b = 1 ∧ c = 2) ∨ (a = 0 ∧ b = 1 ∧ c = 3) ∨ (a = 0 ∧ b = 2 ∧ c = 3) ∨ (a = 1 ∧ b = 2 ∧ c = 3) := by omega
  rcases this with ⟨rfl, rfl, rfl⟩ | ⟨rfl, rfl, rfl⟩ | ⟨rfl, rfl, rfl⟩ | ⟨rfl, rfl, rfl⟩ <;>
    norm_num [exSquare, orient]
example : triSum exSquare (stripFn 4) = 2 := by
  rw [convex_strip_area _ _ (by omega)]; norm_num [shoelace, pathSum, crossF, exSquare]

/-! ## CCW (utils.h) at exact arithmetic, any tolerance -/

/-- `CCW` in exact arithmetic: 0 iff `4 * orient^2 <= max(|p1-p0|^2, |p2-p0|^2) * tol^2`, else the sign of `orient` -/
theorem ccw_eq (p0 p1 p2 : V2 F) (tol : F) :
    ccw p0 p1 p2 tol =
      if orient p0 p1 p2 * orient p0 p1 p2 * 4 ≤
          max ((p1.x - p0.x) * (p1.x - p0.x) + (p1.y - p0.y) * (p1.y - p0.y))
              ((p2.x - p0.x) * (p2.x - p0.x) + (p2.y - p0.y) * (p2.y - p0.y)) * tol * tol
      then 0 else if 0 < orient p0 p1 p2 then 1 else -1 := by
  have harea : (p1.sub p0).x * (p2.sub p0).y - (p1.sub p0).y * (p2.sub p0).x = orient p0 p1 p2 := by
    simp [V2.sub, orient]
  simp only [ccw, sc_mul, sc_sub, sc_le, sc_lt, sc_zero, four_eq, harea, decide_eq_true_eq, dot_eq, lmax_eq]
  simp only [V2.sub]
  split_ifs <;> rfl

theorem ccw_base_nonneg (p0 p1 p2 : V2 F) (tol : F) :
    0 ≤ max ((p1.x - p0.x) * (p1.x - p0.x) + (p1.y - p0.y) * (p1.y - p0.y))
            ((p2.x - p0.x) * (p2.x - p0.x) + (p2.y - p0.y) * (p2.y - p0.y)) * tol * tol := by
  have h1 : 0 ≤ max ((p1.x - p0.x) * (p1.x - p0.x) + (p1.y - p0.y) * (p1.y - p0.y))
            ((p2.x - p0.x) * (p2.x - p0.x) + (p2.y - p0.y) * (p2.y - p0.y)) :=
    le_max_of_le_left (by nlinarith [mul_self_nonneg (p1.x - p0.x), mul_self_nonneg (p1.y - p0.y)])
  rw [mul_assoc]; exact mul_nonneg h1 (mul_self_nonneg tol)

omit [IsStrictOrderedRing F] in
theorem orient_swap (p0 p1 p2 : V2 F) : orient p0 p2 p1 = - orient p0 p1 p2 := by
  simp only [orient]; ring
omit [IsStrictOrderedRing F] in
theorem orient_cyclic (p0 p1 p2 : V2 F) : orient p1 p2 p0 = orient p0 p1 p2 := by
  simp only [orient]; ring

/-- **ccw_antisymm**: swapping the last two points negates the verdict, at every tolerance -/
theorem ccw_antisymm (p0 p1 p2 : V2 F) (tol : F) : ccw p0 p2 p1 tol = - ccw p0 p1 p2 tol := by
  rw [ccw_eq, ccw_eq, orient_swap, max_comm]
  have e : -orient p0 p1 p2 * -orient p0 p1 p2 * 4 = orient p0 p1 p2 * orient p0 p1 p2 * 4 := by ring
  rw [e]
  split
  · simp
  · rename_i hbig
    by_cases hp : 0 < orient p0 p1 p2
    · have : ¬ 0 < -orient p0 p1 p2 := by linarith
      simp [hp, this]
    · have hne : orient p0 p1 p2 ≠ 0 := by
        intro h0; apply hbig; rw [h0]; simpa using ccw_base_nonneg p0 p1 p2 tol
      have : 0 < -orient p0 p1 p2 := by
        rcases lt_or_gt_of_ne hne with h | h
        · linarith
        · exact absurd h hp
      simp [hp, this]

/-- **ccw_sign**: a non-zero verdict is the sign of the exact orientation -/
theorem ccw_sign (p0 p1 p2 : V2 F) (tol : F) :
    (ccw p0 p1 p2 tol = 1 → 0 < orient p0 p1 p2) ∧ (ccw p0 p1 p2 tol = -1 → orient p0 p1 p2 ≤ 0) := by
  rw [ccw_eq]
  constructor
  · intro h; split at h
    · simp at h
    · split at h
      · assumption
      · simp at h
  · intro h; split at h
    · simp at h
    · split at h
      · simp at h
      · exact not_lt.1 ‹_›

/-- **ccw_cyclic_zero**: at tolerance 0 the verdict is invariant under cyclic rotation of the points -/
theorem ccw_cyclic_zero (p0 p1 p2 : V2 F) : ccw p1 p2 p0 (0 : F) = ccw p0 p1 p2 (0 : F) := by
  rw [ccw_zero, ccw_zero, orient_cyclic]

/-- **ccw_cyclic_nonopposite**: at a positive tolerance the verdict is NOT cyclic (the base length is
measured from `p0`, see `ccw_not_cyclic`), but two rotations never give opposite non-zero verdicts -/
theorem ccw_cyclic_nonopposite (p0 p1 p2 : V2 F) (tol : F) (h : ccw p0 p1 p2 tol = 1) :
    ccw p1 p2 p0 tol ≠ -1 := by
  intro h2
  have a := (ccw_sign p0 p1 p2 tol).1 h
  have b := (ccw_sign p1 p2 p0 tol).2 h2
  rw [orient_cyclic] at b
  exact absurd a (not_lt.2 b)

/-- `CCW` with a tolerance is not invariant under rotation of its arguments -/
theorem ccw_not_cyclic :
    ccw (⟨0, 0⟩ : V2 ℚ) ⟨10, 0⟩ ⟨10, 1⟩ (399 / 200) = 0 ∧ ccw (⟨10, 0⟩ : V2 ℚ) ⟨10, 1⟩ ⟨0, 0⟩ (399 / 200) = 1 := by
  constructor <;> rw [ccw_eq] <;> norm_num [orient]

example : ccw (⟨0, 0⟩ : V2 ℚ) ⟨0, 1⟩ ⟨1, 0⟩ (1 / 10) = - ccw (⟨0, 0⟩ : V2 ℚ) ⟨1, 0⟩ ⟨0, 1⟩ (1 / 10) := ccw_antisymm _ _ _ _
example : ccw (⟨0, 0⟩ : V2 ℚ) ⟨1, 0⟩ ⟨0, 1⟩ (1 / 10) = 1 := by rw [ccw_eq]; norm_num [orient]

end Convex2

/-! ## EarClip vertex predicates at exact arithmetic -/
section Ear
variable {F : Type} [Field F] [LinearOrder F] [IsStrictOrderedRing F] [HasSqrt F]

/-- the exact instance with a square root, for the ear predicates -/
instance fieldScalarSqrt : ScalarSqrt F := { fieldScalar F with sqrt := HasSqrt.sqrt }

/-- **delaunayCost_le**: with a non-negative `scale` (`4 / |openSide|^2`) the Delaunay cost is at most
`-epsilon`: it can reorder ears but never makes a valid ear look invalid (`cost > epsilon`) -/
theorem delaunayCost_le (diff : V2 F) (scale eps : F) (hs : 0 ≤ scale) :
    delaunayCost diff scale eps ≤ -eps := by
  have : delaunayCost diff scale eps = -eps - scale * (diff.x * diff.x + diff.y * diff.y) := by
    simp [delaunayCost]
  rw [this]
  have : 0 ≤ scale * (diff.x * diff.x + diff.y * diff.y) :=
    mul_nonneg hs (by nlinarith [mul_self_nonneg diff.x, mul_self_nonneg diff.y])
  linarith

/-- **isShort_iff**: `IsShort` holds exactly when the edge to the right neighbour is shorter than `eps / 2` -/
theorem isShort_iff (vs : Verts F) (i : Nat) (eps : F) :
    isShort vs i eps = true ↔
      (((vs.pos (vs.right i)).x - (vs.pos i).x) * ((vs.pos (vs.right i)).x - (vs.pos i).x)
        + ((vs.pos (vs.right i)).y - (vs.pos i).y) * ((vs.pos (vs.right i)).y - (vs.pos i).y)) * 4 < eps * eps := by
  simp [isShort, V2.sub]

theorem foldl_ge {β : Type} (step : F → β → F) (h : ∀ x t, x ≤ step x t) :
    ∀ (l : List β) (init : F), init ≤ l.foldl step init := by
  intro l
  induction l with
  | nil => intro init; exact le_refl _
  | cons t l ih => intro init; exact le_trans (h init t) (ih _)

/-- **earCost_ge_base**: the cost of an ear is never below its own sharpness term
`dot(left.rightDir, rightDir) - 1 - epsilon`; candidates can only raise it -/
theorem earCost_ge_base (vs : Verts F) (i : Nat) (eps : F) (cands : List Nat) :
    dotF (vs.rightDir (vs.left i)) (vs.rightDir i) - 1 - eps ≤ earCost vs i eps cands := by
  have key : ∀ (x c : F), x ≤ (if Scalar.lt x c = true then c else x) := by
    intro x c
    by_cases h : Scalar.lt x c = true
    · rw [if_pos h]; exact le_of_lt (of_decide_eq_true h)
    · rw [if_neg h]
  unfold earCost
  simp only []
  split
  · simp [dotF]
  · refine le_trans (le_of_eq ?_) (foldl_ge _ ?_ cands _)
    · simp [dotF]
    · intro x t
      split
      · exact key _ _
      · exact le_refl _

end Ear

example : delaunayCost (⟨3, 4⟩ : V2 ℚ) 2 (1 / 10) ≤ -(1 / 10) := delaunayCost_le _ _ _ (by norm_num)

end MV.PolyGeom
