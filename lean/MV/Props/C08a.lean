import MV.Proof.ExportVerts
import MV.Props.C01a
/-!
# C08 (part a) — MeshGL export and re-import is lossless: vertices, merge vectors, tangents

Theorems about `MV.Export` (the transliteration of `GetMeshGLImpl`); tied to the C++ by
`checks/c08.py` / `checks/c07.py` (`mvdriver export all` reproduces the integer fields of the real
`GetMeshGL64` from the dumped `Impl` state).

* `exportVerts_eq_spec`       the array transliteration computes the flat-list specification
* `merge_restores`            the merge vectors alone restore the internal position-vertex
                              triangle list (up to an injective renaming), hence manifoldness
                              (`merge_restores_manifold`, `merge_restores_checkmerge`)
* `tangent_follows_triangle`  FIXED exporter: tangent of (new tri, corner) = internal tangent of
                              (triNew2Old[new tri], corner); FALSE on the pinned tree (the
                              `example`s at the end), restored by patches/fix_C08_tangents.diff
-/
namespace MV.C08
open MV.Export MV.Mesh List

variable {τ : Type}

/-! ## the array exporter computes the flat-list specification -/

/-- `exportVerts` (bins per position vertex + `vert2idx`, as in the C++) and `exportVertsSpec`
(one flat list of emitted (vert, prop) pairs) produce the same output, for corners whose
position vertex is in range. -/
theorem exportVerts_eq_spec (numVert : Nat) (corners : List (Nat × Nat))
    (h : ∀ c ∈ corners, c.1 < numVert) :
    let s := exportVerts numVert corners
    let sp := exportVertsSpec corners
    s.out.toList = sp.out ∧ s.triVerts.toList = sp.triVerts ∧
    s.mergeFrom.toList = sp.merges.map (·.1) ∧ s.mergeTo.toList = sp.merges.map (·.2) := by
  have r := refines_export numVert corners h
  exact ⟨r.out, r.tri, r.mf, r.mt⟩

/-- non-vacuity: position vertex 0 carries three property vertices (output vertices 0, 3, 5; 3 and
5 are merged to 0), vertex 1 two (1 and 4), and the corner (2,2) is reused -/
example : exportVertsSpec [(0,0),(1,1),(2,2),(0,3),(2,2),(1,4),(0,5)] =
    ⟨[(0,0),(1,1),(2,2),(0,3),(1,4),(0,5)], [0,1,2,3,2,4,5], [(3,0),(4,1),(5,0)]⟩ := by decide
example : let s := exportVerts 3 [(0,0),(1,1),(2,2),(0,3),(2,2),(1,4),(0,5)]
    s.out.toList = [(0,0),(1,1),(2,2),(0,3),(1,4),(0,5)] ∧ s.triVerts.toList = [0,1,2,3,2,4,5] ∧
    s.mergeFrom.toList = [3,4,5] ∧ s.mergeTo.toList = [0,1,0] :=
  exportVerts_eq_spec 3 _ (by decide)

/-! ## merge vectors restore the internal triangles -/

/-- triangles of a flat index list (3 per triangle) -/
def trisOfFlat : List Nat → List Tri
  | a :: b :: c :: l => (a, b, c) :: trisOfFlat l
  | _ => []

/-- MERGE RESTORES.  Let `corners` be the (position vertex, property vertex) pairs of the
halfedges in export order.  Reading the exported `triVerts` through `mergeFrom → mergeTo`
(`mergeFun`: what the importer's `prop2vert` and `MeshGL::Merge` do) gives exactly the internal
position-vertex indices renamed by `f v := first output index of position vertex v`, and `f` is
injective on the position vertices that occur; every exported index is `< out.length`. -/
theorem merge_restores (corners : List (Nat × Nat)) :
    let sp := exportVertsSpec corners
    let mf := sp.merges.map (·.1)
    let mt := sp.merges.map (·.2)
    ∃ f : Nat → Nat,
      (∀ u v, u ∈ corners.map (·.1) → v ∈ corners.map (·.1) → f u = f v → u = v) ∧
      (∀ v ∈ corners.map (·.1), f v < sp.out.length) ∧
      sp.triVerts.length = corners.length ∧
      (∀ i ∈ sp.triVerts, i < sp.out.length) ∧
      sp.triVerts.map (mergeFun mf mt) = corners.map (fun c => f c.1) := by
  have hinv := specInv_export corners
  exact ⟨firstIdx corners, fun u v hu hv => firstIdx_inj corners hu hv,
    fun v hv => firstIdx_lt corners hv, hinv.length, hinv.lt, triVerts_mergeFun corners⟩

/-- non-vacuity: on the sample, the merged indices are `f = (0 ↦ 0, 1 ↦ 1, 2 ↦ 2)` of the position
vertices -/
example : let sp := exportVertsSpec [(0,0),(1,1),(2,2),(0,3),(2,2),(1,4),(0,5)]
    sp.triVerts.map (mergeFun (sp.merges.map (·.1)) (sp.merges.map (·.2))) = [0,1,2,0,2,1,0] := by
  decide

/-! ### triangles of a flat list -/

theorem trisOfFlat_map (g : Nat → Nat) : ∀ l : List Nat,
    trisOfFlat (l.map g) = (trisOfFlat l).map (mapTri g)
  | [] => rfl
  | [_] => rfl
  | [_, _] => rfl
  | a :: b :: c :: l => by
    simp only [map_cons, trisOfFlat, trisOfFlat_map g l]; rfl

theorem mem_of_used_trisOfFlat : ∀ (l : List Nat) (v : Nat), Used (trisOfFlat l) v → v ∈ l
  | [], v, h | [_], v, h | [_, _], v, h => by
    obtain ⟨t, ht, _⟩ := h
    simp [trisOfFlat] at ht
  | a :: b :: c :: l, v, h => by
    obtain ⟨t, ht, hv⟩ := h
    simp only [trisOfFlat, mem_cons] at ht
    rcases ht with rfl | ht
    · simp only [triVerts, mem_cons, not_mem_nil, or_false] at hv
      simp only [mem_cons]
      rcases hv with h | h | h
      · exact .inl h
      · exact .inr (.inl h)
      · exact .inr (.inr (.inl h))
    · have := mem_of_used_trisOfFlat l v ⟨t, ht, hv⟩
      simp only [mem_cons]
      exact .inr (.inr (.inr this))

theorem used_trisOfFlat_of_mem : ∀ (l : List Nat) (v : Nat), l.length % 3 = 0 → v ∈ l →
    Used (trisOfFlat l) v
  | [], v, _, h => by simp at h
  | [_], v, hl, _ => by simp at hl
  | [_, _], v, hl, _ => by simp at hl
  | a :: b :: c :: l, v, hl, h => by
    simp only [mem_cons] at h
    have hmem : (a, b, c) ∈ trisOfFlat (a :: b :: c :: l) := by simp [trisOfFlat]
    rcases h with rfl | rfl | rfl | h
    · exact ⟨_, hmem, by simp [triVerts]⟩
    · exact ⟨_, hmem, by simp [triVerts]⟩
    · exact ⟨_, hmem, by simp [triVerts]⟩
    · have hl' : l.length % 3 = 0 := by simp only [length_cons] at hl; omega
      obtain ⟨t, ht, hv⟩ := used_trisOfFlat_of_mem l v hl' h
      exact ⟨t, by simp only [trisOfFlat, mem_cons]; exact .inr ht, hv⟩

/-- the exported triangles read through the merge vectors are the internal position-vertex
triangles renamed by `firstIdx` -/
theorem merged_eq (corners : List (Nat × Nat)) :
    let sp := exportVertsSpec corners
    applyMerge (sp.merges.map (·.1)) (sp.merges.map (·.2)) (trisOfFlat sp.triVerts)
      = (trisOfFlat (corners.map (·.1))).map (mapTri (firstIdx corners)) := by
  intro sp
  rw [MV.Mesh.applyMerge_eq, ← trisOfFlat_map, ← trisOfFlat_map, triVerts_mergeFun corners,
    map_map]
  rfl

/-- Hence manifoldness is restored by the merge vectors alone: if the internal position-vertex
triangle list `ts` (the triangles of `corners.map (·.1)`) is closed and oriented (which it is for
every `Impl`, C01), then the exported triangles read through the merge vectors, compacted by ANY
renumbering `c` that is injective on the surviving indices and onto `[0, nV')`, are a
`Closed2Manifold nV'`.  (`closed2Manifold_relabel` of C01a does the work.) -/
theorem merge_restores_manifold (corners : List (Nat × Nat)) (c : Nat → Nat) (nV' : Nat)
    (hclosed : ClosedOriented (trisOfFlat (corners.map (·.1)))) :
    let sp := exportVertsSpec corners
    let merged := applyMerge (sp.merges.map (·.1)) (sp.merges.map (·.2)) (trisOfFlat sp.triVerts)
    (∀ u v, Used merged u → Used merged v → c u = c v → u = v) →
    (∀ v, Used merged v → c v < nV') →
    (∀ w, w < nV' → ∃ v, Used merged v ∧ c v = w) →
    Closed2Manifold nV' (merged.map (mapTri c)) := by
  intro sp merged hinj hlt hsurj
  have hm : merged = (trisOfFlat (corners.map (·.1))).map (mapTri (firstIdx corners)) :=
    merged_eq corners
  have hmem : ∀ v, Used (trisOfFlat (corners.map (·.1))) v → v ∈ corners.map (·.1) :=
    mem_of_used_trisOfFlat _
  have hu : ∀ v, Used (trisOfFlat (corners.map (·.1))) v → Used merged (firstIdx corners v) := by
    intro v hv; rw [hm]; exact used_map.2 ⟨v, hv, rfl⟩
  have hmap : merged.map (mapTri c)
      = (trisOfFlat (corners.map (·.1))).map (mapTri fun v => c (firstIdx corners v)) := by
    rw [hm, map_map]; rfl
  rw [hmap]
  refine (MV.C01a.closed2Manifold_relabel _ nV' _ ?_ ?_ ?_).2 hclosed
  · intro u v hu' hv' h
    exact firstIdx_inj corners (hmem u hu') (hmem v hv') (hinj _ _ (hu u hu') (hu v hv') h)
  · intro v hv; exact hlt _ (hu v hv)
  · intro w hw
    obtain ⟨v', hv', rfl⟩ := hsurj w hw
    rw [hm] at hv'
    obtain ⟨v, hv, rfl⟩ := used_map.1 hv'
    exact ⟨v, hv, rfl⟩

/-- a tetrahedron whose position vertex 2 carries two property vertices (20 and 21): the export
has 5 output vertices, output vertex 4 is merged to 2 -/
def splitTetra : List (Nat × Nat) :=
  [(0,0),(2,20),(1,10), (0,0),(1,10),(3,30), (1,10),(2,21),(3,30), (2,21),(0,0),(3,30)]

example : (exportVertsSpec splitTetra).merges = [(4, 1)] := by decide
example : trisOfFlat (exportVertsSpec splitTetra).triVerts
    = [(0, 1, 2), (0, 2, 3), (2, 4, 3), (4, 0, 3)] := by decide
/-- non-vacuity of `merge_restores_manifold`: output vertices 0,1,2,3 survive (4 is merged to 1) -/
example : Closed2Manifold 4
    ((applyMerge ((exportVertsSpec splitTetra).merges.map (·.1))
      ((exportVertsSpec splitTetra).merges.map (·.2))
      (trisOfFlat (exportVertsSpec splitTetra).triVerts)).map (mapTri id)) := by
  refine merge_restores_manifold splitTetra id 4 (by decide) ?_ ?_ ?_
  · intro u v _ _ h; exact h
  · have : ∀ t ∈ applyMerge ((exportVertsSpec splitTetra).merges.map (·.1))
        ((exportVertsSpec splitTetra).merges.map (·.2))
        (trisOfFlat (exportVertsSpec splitTetra).triVerts), ∀ v ∈ triVerts t, id v < 4 := by decide
    rintro v ⟨t, ht, hv⟩; exact this t ht v hv
  · have : ∀ w, w < 4 → ∃ t ∈ applyMerge ((exportVertsSpec splitTetra).merges.map (·.1))
        ((exportVertsSpec splitTetra).merges.map (·.2))
        (trisOfFlat (exportVertsSpec splitTetra).triVerts), w ∈ triVerts t := by decide
    intro w hw
    obtain ⟨t, ht, hv⟩ := this w hw
    exact ⟨w, ⟨t, ht, hv⟩, rfl⟩

/-- … and the oracle the harness applies to the real export (`mesh checkmerge`: `checkMeshEx`
with the merged-from vertices exempt from the "referenced" clause) accepts the model's output
whenever the internal mesh is a closed 2-manifold over `nV` position vertices.

CORRECTED STATEMENT: the hypothesis `hlen : corners.length % 3 = 0` (the corner list consists of
whole triangles; true for `cornersOf`) was added.  Without it the statement is false: a trailing
corner with a fresh position vertex is emitted as an output vertex that is neither referenced by a
triangle (`trisOfFlat` drops the incomplete triple) nor in `mergeFrom`; see
`merge_restores_checkmerge_needs_len` below. -/
theorem merge_restores_checkmerge (nV : Nat) (corners : List (Nat × Nat))
    (hlen : corners.length % 3 = 0)
    (hclosed : Closed2Manifold nV (trisOfFlat (corners.map (·.1)))) :
    let sp := exportVertsSpec corners
    let mf := sp.merges.map (·.1)
    checkMeshEx sp.out.length (fun v => mf.contains v)
      (applyMerge mf (sp.merges.map (·.2)) (trisOfFlat sp.triVerts)) = .ok () := by
  intro sp mf
  rw [MV.C01a.checkMeshEx_iff]
  have hm := merged_eq corners
  simp only [] at hm
  rw [hm]
  have hmem : ∀ v, Used (trisOfFlat (corners.map (·.1))) v → v ∈ corners.map (·.1) :=
    mem_of_used_trisOfFlat _
  have hco := closedOriented_map_of_injOn (firstIdx corners) (trisOfFlat (corners.map (·.1)))
    (fun u v hu hv h => firstIdx_inj corners (hmem u hu) (hmem v hv) h) hclosed.closedOriented
  refine ⟨?_, hco.1, hco.2.1, hco.2.2, ?_⟩
  · intro t ht
    obtain ⟨t0, ht0, rfl⟩ := mem_map.1 ht
    have hv : ∀ v ∈ triVerts t0, firstIdx corners v < sp.out.length := fun v hv =>
      firstIdx_lt corners (hmem v ⟨t0, ht0, hv⟩)
    exact ⟨hv _ (by simp [triVerts]), hv _ (by simp [triVerts]), hv _ (by simp [triVerts])⟩
  · intro v hv hex
    have hnm : v ∉ mf := by
      intro h
      have h1 : mf.contains v = true := by simpa using h
      have h2 : mf.contains v = false := hex
      rw [h1] at h2; cases h2
    obtain ⟨c, hc, rfl⟩ := not_mergeFrom corners hv hnm
    have hused := used_trisOfFlat_of_mem (corners.map (·.1)) c.1 (by simpa using hlen)
      (mem_map.2 ⟨c, hc, rfl⟩)
    exact used_map.2 ⟨c.1, hused, rfl⟩

/-- non-vacuity: the split tetrahedron -/
example : checkMeshEx 5 (fun v => [4].contains v)
    (applyMerge [4] [1] [(0, 1, 2), (0, 2, 3), (2, 4, 3), (4, 0, 3)]) = .ok () :=
  merge_restores_checkmerge 4 splitTetra (by decide) (by decide)

/-- COUNTEREXAMPLE to the statement without `corners.length % 3 = 0`: a tetrahedron followed by
one stray corner of a fresh position vertex 7.  The hypothesis `Closed2Manifold 4 …` holds (the
stray corner is dropped by `trisOfFlat`), but output vertex 4 is unreferenced and not merged. -/
theorem merge_restores_checkmerge_needs_len :
    let corners : List (Nat × Nat) :=
      [(0,0),(2,0),(1,0), (0,0),(1,0),(3,0), (1,0),(2,0),(3,0), (2,0),(0,0),(3,0), (7,0)]
    let sp := exportVertsSpec corners
    let mf := sp.merges.map (·.1)
    Closed2Manifold 4 (trisOfFlat (corners.map (·.1))) ∧
    checkMeshEx sp.out.length (fun v => mf.contains v)
      (applyMerge mf (sp.merges.map (·.2)) (trisOfFlat sp.triVerts)) ≠ .ok () := by
  intro corners sp mf
  refine ⟨by decide, fun h => ?_⟩
  exact absurd ((MV.C01a.checkMeshEx_iff _ _ _).1 h) (by decide)

/-! ## tangents -/

/-- FIXED exporter: the tangent exported for halfedge `3*new+i` is the internal tangent of
halfedge `3*triNew2Old[new]+i` -/
theorem tangent_follows_triangle (dflt : τ) (tang : Array τ) (order : List Nat) (new i : Nat)
    (hn : new < order.length) (hi : i < 3) :
    (exportTangents dflt tang order)[3 * new + i]? = some (tang.getD (3 * order[new] + i) dflt) := by
  induction order generalizing new with
  | nil => simp at hn
  | cons o order ih =>
    simp only [exportTangents, flatMap_cons] at ih ⊢
    cases new with
    | zero =>
      obtain rfl | rfl | rfl : i = 0 ∨ i = 1 ∨ i = 2 := by omega
      all_goals simp
    | succ n =>
      have hn' : n < order.length := by simpa using hn
      have h3 : 3 * (n + 1) + i = (3 * n + i) + 3 := by omega
      rw [h3, getElem?_append_right (by simp)]
      simp only [length_cons, length_nil, Nat.add_sub_cancel, getElem_cons_succ]
      exact ih n hn'

/-- non-vacuity: two triangles exported in the order `[1, 0]` -/
example : (exportTangents 0 #[10, 11, 12, 13, 14, 15] [1, 0])[3 * 0 + 2]? = some 15 :=
  tangent_follows_triangle 0 #[10, 11, 12, 13, 14, 15] [1, 0] 0 2 (by decide) (by decide)

/-- the exporter's whole tangent loop: a full tangent array (`halfedgeTangent_.size() = 3 * numTri`)
follows the triangles; an empty one is exported empty -/
theorem tangent_follows_triangle_fixed (dflt : τ) (tang : Array τ) (order : List Nat) (new i : Nat)
    (hsz : tang.size = 3 * order.length) (hn : new < order.length) (hi : i < 3) :
    (exportTangentsFixed dflt tang order)[3 * new + i]? = some (tang.getD (3 * order[new] + i) dflt) := by
  simp only [exportTangentsFixed, hsz, if_true]
  exact tangent_follows_triangle dflt tang order new i hn hi

theorem tangents_empty (dflt : τ) (order : List Nat) : exportTangentsFixed dflt #[] order = [] := by
  unfold exportTangentsFixed
  split
  · rename_i h
    have : order = [] := by
      cases order with
      | nil => rfl
      | cons a l => simp at h
    subst this; rfl
  · rfl

example : exportTangentsFixed 0 #[10, 11, 12, 13, 14, 15] [1, 0] = [13, 14, 15, 10, 11, 12] := by decide

/-- with it, "the same tangent on every directed edge": the exported (corner, tangent) pairs are
the internal ones in the new triangle order -/
theorem tangents_zip_corners (dflt : τ) (tang : Array τ) (he : Array (Nat × Nat)) (order : List Nat) :
    (cornersOf he order).zip (exportTangents dflt tang order) =
      order.flatMap fun old => [0, 1, 2].map fun i => (he.getD (3 * old + i) (0, 0), tang.getD (3 * old + i) dflt) := by
  induction order with
  | nil => rfl
  | cons o order ih =>
    simp only [cornersOf, exportTangents, flatMap_cons] at ih ⊢
    rw [zip_append (by simp), ih]
    rfl

example : (cornersOf #[(0,0),(1,1),(2,2),(0,3),(2,2),(1,4)] [1, 0]).zip
      (exportTangents 0 #[10, 11, 12, 13, 14, 15] [1, 0])
    = [((0,3),13), ((2,2),14), ((1,4),15), ((0,0),10), ((1,1),11), ((2,2),12)] := by decide

/-! ## the pinned tree violates `tangent_follows_triangle` (defect 5 of DESIGN.md §7)

Two triangles from two instances, internal (Morton) order `[instance 6 of original 2, instance 5 of
original 1]`: the exporter sorts them into two runs, `triNew2Old = [1, 0]`.  The pinned exporter
copies `halfedgeTangent_` in internal order, so exported halfedge 0 (corner 0 of internal
triangle 1) carries the tangent of internal halfedge 0 instead of internal halfedge 3. -/

def pinnedRefs : List TriRef := [⟨6, 2, -1, 0⟩, ⟨5, 1, -1, 1⟩]
def pinnedRel : RelMap Nat := [(5, ⟨1, 50, false, false⟩), (6, ⟨2, 60, false, false⟩)]
/-- tangent payload of internal halfedge `h` is `10 + h` -/
def pinnedTang : Array Nat := #[10, 11, 12, 13, 14, 15]

theorem pinned_order : (exportRuns false 0 pinnedRefs pinnedRel).triNew2Old = [1, 0] := by
  simp [exportRuns, sortIdx, pinnedRefs, List.zipIdx, List.mergeSort,
    List.MergeSort.Internal.splitInTwo, List.splitAt, List.splitAt.go, runLE]

/-- two runs -/
example : (exportRuns false 0 pinnedRefs pinnedRel).runIndex = [0, 3, 6] := by
  simp [exportRuns, sortIdx, pinnedRefs, pinnedRel, List.zipIdx, List.mergeSort,
    List.MergeSort.Internal.splitInTwo, List.splitAt, List.splitAt.go, runLE, RunTable.runIndex,
    runsFrom, RelMap.lookup, RelMap.erase]

/-- PINNED behaviour: the statement of `tangent_follows_triangle` fails at `new = 0, i = 0` -/
theorem pinned_tangents_counterexample :
    ¬ ∀ (new i : Nat) (hn : new < [1, 0].length), i < 3 →
      (exportTangentsPinned pinnedTang [1, 0])[3 * new + i]? =
        some (pinnedTang.getD (3 * [1, 0][new] + i) 0) := by
  intro h
  exact absurd (h 0 0 (by decide) (by decide)) (by decide)

/-- what the pinned exporter writes, and what the fixed exporter writes -/
example : exportTangentsPinned pinnedTang [1, 0] = [10, 11, 12, 13, 14, 15] := by decide
example : exportTangents 0 pinnedTang [1, 0] = [13, 14, 15, 10, 11, 12] := by decide

end MV.C08
