/-
Property C14, 2-D half:

  "The 2D edge-pair broad phase and the polygon k-d tree likewise return exactly the
   boxes/points a brute-force scan would."

Model: MV/Model/Broad2.lean — line-by-line transliterations of `CollectIntersectionPairs`
(both branches), `BVHBuildFromBoxes`, `BVHCollisions` (boolean2.cpp / boolean2.h) and of
`BuildTwoDTree` / `QueryTwoDTree` (tree2d.cpp / tree2d.h).  Coordinates are `Int`.

All theorems hold for ALL inputs of the stated shape: any number of boxes/points (including 0
and 1), any ties in `min.x`, any Morton codes `< 2^32` (all equal is legal), identical and
degenerate boxes, duplicate points, ties on the split coordinate, any query rectangle.  The
only geometric hypothesis is in `xsweep_pairs_exact`: every box has `min.x ≤ max.x`
(`xsweep_needs_valid` shows it cannot be dropped; `BoxOf2DEdge` with `eps ≥ 0` guarantees it;
`xsweep_pairs_general` is the statement without it).

Sections: 1 x-sorted sweep, 2 BVH branch, 3 polygon k-d tree, 4 `MergeVerts` candidate sweep.
-/
import MV.Proof.Broad2Sweep
import MV.Proof.Broad2Bvh
import MV.Proof.Broad2Kd
import MV.Proof.MergeSweep
import Mathlib.Tactic.Linarith

namespace MV.Broad2.C14b
open MV.Broad2 MV.Collider

/-! ## 1. the x-sorted sweep (`CollectIntersectionPairs` without a BVH) -/

theorem xsweepPairs_eq (boxes : Array Box2) (skip : Nat → Nat → Bool) :
    xsweepPairs boxes skip =
      emit boxes.size (outerG (xbrk boxes) (xkeep boxes skip) (sweepOrder boxes)) := by
  unfold xsweepPairs emit
  rw [sweepOuter_eq]

/-- **xsweep_pairs_general** (no hypothesis at all).  The emitted list is strictly increasing
in the lexicographic order (hence duplicate-free), and `(a, b)` is emitted iff `a < b < n`, the
closed y-intervals overlap, and for the one of the two that is sorted first (`e`, the other
being `l`): `box_l.min.x ≤ box_e.max.x` and `¬ skip e l`.  The `break` loses nothing: the proof
(`mem_innerG`) uses that `order` is sorted by `min.x`, so once `bj.min.x > bi.max.x` holds it
holds for every later `j`. -/
theorem xsweep_pairs_general (boxes : Array Box2) (skip : Nat → Nat → Bool) :
    (xsweepPairs boxes skip).Pairwise pairLt ∧
    ∀ a b, (a, b) ∈ xsweepPairs boxes skip ↔
      (a < b ∧ b < boxes.size ∧ yov boxes a b = true ∧
        ((precedes boxes a b ∧ (boxAt boxes b).minX ≤ (boxAt boxes a).maxX ∧ skip a b = false) ∨
         (precedes boxes b a ∧ (boxAt boxes a).minX ≤ (boxAt boxes b).maxX ∧ skip b a = false))) := by
  rw [xsweepPairs_eq]
  have hnd := nodup_outerG (xbrk boxes) (xkeep boxes skip) _ (sweepOrder_nodup boxes)
  have hmem := mem_outerG (keep := xkeep boxes skip) (xbrk_mono boxes) _ (sweepOrder_key boxes)
  have hlt : ∀ p ∈ outerG (xbrk boxes) (xkeep boxes skip) (sweepOrder boxes), p.1 < boxes.size := by
    intro p hp
    exact (sweepOrder_mem boxes _).mp (outerG_mem_both _ _ _ p hp).1
  refine ⟨emit_sorted hnd, ?_⟩
  intro a b
  rw [mem_emit hlt, hmem]
  constructor
  · rintro ⟨i, j, hbf, hb, hk, e⟩
    have hi := (sweepOrder_mem boxes i).mp hbf.mem.1
    have hj := (sweepOrder_mem boxes j).mp hbf.mem.2
    have hne := before_ne (sweepOrder_nodup boxes) hbf
    have hp := (before_sweepOrder boxes hi hj hne).mp hbf
    simp only [xbrk, decide_eq_false_iff_not] at hb
    simp only [xkeep, Bool.and_eq_true, Bool.not_eq_true'] at hk
    simp only [Prod.mk.injEq] at e
    by_cases hij : i < j
    · have ea : a = i := by omega
      have eb : b = j := by omega
      subst ea; subst eb
      exact ⟨hij, hj, hk.1, Or.inl ⟨hp, by omega, hk.2⟩⟩
    · have ea : a = j := by omega
      have eb : b = i := by omega
      subst ea; subst eb
      refine ⟨by omega, hi, ?_, Or.inr ⟨hp, by omega, hk.2⟩⟩
      rw [yov_comm]; exact hk.1
  · rintro ⟨hab, hb, hy, h⟩
    rcases h with ⟨hp, hx, hs⟩ | ⟨hp, hx, hs⟩
    · refine ⟨a, b, (before_sweepOrder boxes (by omega) hb (by omega)).mpr hp, ?_, ?_, ?_⟩
      · simp only [xbrk, decide_eq_false_iff_not]; omega
      · simp only [xkeep, Bool.and_eq_true, Bool.not_eq_true']; exact ⟨hy, hs⟩
      · simp only [Prod.mk.injEq]; omega
    · refine ⟨b, a, (before_sweepOrder boxes hb (by omega) (by omega)).mpr hp, ?_, ?_, ?_⟩
      · simp only [xbrk, decide_eq_false_iff_not]; omega
      · simp only [xkeep, Bool.and_eq_true, Bool.not_eq_true']
        rw [yov_comm]; exact ⟨hy, hs⟩
      · simp only [Prod.mk.injEq]; omega

/-- **xsweep_pairs_exact.**  For every box array with `min.x ≤ max.x` (any ties in `min.x`,
identical boxes, zero-width boxes) and every symmetric filter, the list emitted by the no-BVH
branch of `CollectIntersectionPairs` is strictly lexicographically increasing — so it is
duplicate-free and sorted — and contains `(i, j)` iff `i < j < n`, the two boxes overlap under
`Box2::DoesOverlap` (closed intervals in x AND y) and the pair is not filtered. -/
theorem xsweep_pairs_exact (boxes : Array Box2) (skip : Nat → Nat → Bool)
    (hsym : ∀ a b, skip a b = skip b a)
    (hval : ∀ i, i < boxes.size → (boxAt boxes i).minX ≤ (boxAt boxes i).maxX) :
    (xsweepPairs boxes skip).Pairwise pairLt ∧ (xsweepPairs boxes skip).Nodup ∧
    ∀ i j, (i, j) ∈ xsweepPairs boxes skip ↔
      (i < j ∧ j < boxes.size ∧ (boxAt boxes i).doesOverlap (boxAt boxes j) = true ∧
        skip i j = false) := by
  obtain ⟨h1, h2⟩ := xsweep_pairs_general boxes skip
  refine ⟨h1, nodup_of_pairwise_pairLt h1, ?_⟩
  intro i j
  rw [h2 i j]
  constructor
  · rintro ⟨hij, hj, hy, h⟩
    have vi := hval i (by omega)
    have vj := hval j hj
    simp only [yov, Bool.and_eq_true, decide_eq_true_eq] at hy
    refine ⟨hij, hj, ?_, ?_⟩
    · simp only [Box2.doesOverlap, Bool.and_eq_true, decide_eq_true_eq]
      rcases h with ⟨hp, hx, _⟩ | ⟨hp, hx, _⟩
      · unfold precedes minXof at hp; omega
      · unfold precedes minXof at hp; omega
    · rcases h with ⟨_, _, hs⟩ | ⟨_, _, hs⟩
      · exact hs
      · rw [hsym]; exact hs
  · rintro ⟨hij, hj, ho, hs⟩
    simp only [Box2.doesOverlap, Bool.and_eq_true, decide_eq_true_eq] at ho
    refine ⟨hij, hj, ?_, ?_⟩
    · simp only [yov, Bool.and_eq_true, decide_eq_true_eq]; omega
    · by_cases hp : precedes boxes i j
      · exact Or.inl ⟨hp, by omega, hs⟩
      · refine Or.inr ⟨?_, by omega, by rw [hsym]; exact hs⟩
        unfold precedes minXof at hp ⊢; omega

/-- the running example: identical boxes, ties in `min.x`, a zero-width and a point box -/
def exBoxes : Array Box2 :=
  #[⟨0, 0, 2, 2⟩, ⟨1, 1, 3, 3⟩, ⟨0, 0, 2, 2⟩, ⟨3, 0, 4, 1⟩, ⟨2, 2, 2, 2⟩, ⟨0, 5, 0, 9⟩]

theorem exBoxes_valid : ∀ i, i < exBoxes.size → (boxAt exBoxes i).minX ≤ (boxAt exBoxes i).maxX := by
  intro i hi
  have : i < 6 := hi
  match i, this with
  | 0, _ | 1, _ | 2, _ | 3, _ | 4, _ | 5, _ => decide

-- the hypotheses are met, and the list is not empty:
example : (0, 2) ∈ xsweepPairs exBoxes (fun _ _ => false) ∧
    (1, 3) ∈ xsweepPairs exBoxes (fun _ _ => false) ∧
    (0, 3) ∉ xsweepPairs exBoxes (fun _ _ => false) := by
  have h := (xsweep_pairs_exact exBoxes (fun _ _ => false) (fun _ _ => rfl) exBoxes_valid).2.2
  refine ⟨(h 0 2).mpr (by decide), (h 1 3).mpr (by decide), fun hc => ?_⟩
  have := (h 0 3).mp hc
  revert this; decide
#guard xsweepPairs exBoxes (fun _ _ => false) =
  [(0, 1), (0, 2), (0, 4), (1, 2), (1, 3), (1, 4), (2, 4)]
#guard xsweepPairs exBoxes (fun a b => (a, b) == (2, 0) || (a, b) == (0, 2)) =
  [(0, 1), (0, 4), (1, 2), (1, 3), (1, 4), (2, 4)]

/-- The hypothesis `min.x ≤ max.x` cannot be dropped: with an inverted second box the sweep
emits `(0, 1)` although `Box2::DoesOverlap` is false (the sweep never tests
`bi.min.x ≤ bj.max.x`; sortedness implies it only for valid `bj`). -/
theorem xsweep_needs_valid :
    let boxes : Array Box2 := #[⟨0, 0, 5, 0⟩, ⟨3, 0, -2, 0⟩]
    (0, 1) ∈ xsweepPairs boxes (fun _ _ => false) ∧
    (boxAt boxes 0).doesOverlap (boxAt boxes 1) = false := by
  intro boxes
  refine ⟨((xsweep_pairs_general boxes _).2 0 1).mpr ?_, by decide⟩
  decide

/-! ## 2. the BVH branch (`BVHBuildFromBoxes` + `BVHCollisions` + `CollectIntersectionPairs`)

Derived from the 3-D theorems: `bvh2Build_wf` (MV/Proof/Broad2Bvh.lean) shows that the arrays
built from the stably code-sorted leaves pass the decidable checks `wfTree` (by
`createRadixTree_wf`, the core of `C14.radixTree_wf`) and, after embedding every 2-D box as the
3-D box with `z = [0,0]`, `unionBoxes` (the recursive `buildNode` is proved to fill every
internal cell with the union of its children: `buildNode_spec`); `C14.query_iff_overlap_of_wf`
(`findCollision_of_wf`) then gives the exactness of every traversal.  Nothing is re-proved for
`Box2`. -/

/-- **`BVHBuildFromBoxes` builds a well-formed collider** (`n ≥ 2`): see `bvh2Build_wf`. -/
theorem bvh2_build_wf (codes : Array Nat) (boxes : Array Box2)
    (hc : ∀ i, i < boxes.size → codes.getD i 0 < 2 ^ 32) (hn : boxes.size < 2 ^ 32)
    (h2 : 2 ≤ boxes.size) :
    ∃ nb, bvh2Build codes boxes = some ⟨nb, (createRadixTree (sortedMorton codes boxes.size)).1,
        (leafOrder codes boxes.size).toArray⟩ ∧
      (leafOrder codes boxes.size).Perm (List.range boxes.size) ∧
      (leafOrder codes boxes.size).Pairwise (fun a b => codes.getD a 0 ≤ codes.getD b 0) ∧
      wfTree (createRadixTree (sortedMorton codes boxes.size)).1
        (createRadixTree (sortedMorton codes boxes.size)).2 boxes.size = true ∧
      unionBoxes (createRadixTree (sortedMorton codes boxes.size)).1 (nb.map Box2.embed)
        ((leafBoxes codes boxes).map Box2.embed) boxes.size = true := by
  obtain ⟨nb, h1, h2', h3⟩ := bvh2Build_wf codes boxes hc hn h2
  exact ⟨nb, h1, leafOrder_perm _ _, leafOrder_sorted _ _, h2', h3⟩

/-- **bvh2_query_exact**: one `BVHCollisions` traversal reports leaf `l` iff the box of
`leafToOrig[l]` overlaps the query (closed intervals), each once; `some` = within fuel and the
64-entry stack. -/
theorem bvh2_query_exact (codes : Array Nat) (boxes : Array Box2)
    (hc : ∀ i, i < boxes.size → codes.getD i 0 < 2 ^ 32) (hn : boxes.size < 2 ^ 32)
    (h2 : 2 ≤ boxes.size) {bvh : BVH} (hb : bvh2Build codes boxes = some bvh) (q : Box2) :
    ∃ out, bvh2Query bvh q = some out ∧ out.toList.Nodup ∧
      ∀ leaf, leaf ∈ out.toList ↔
        (leaf < boxes.size ∧ (boxAt boxes (bvh.leafToOrig.getD leaf 0)).doesOverlap q = true) := by
  obtain ⟨out, h1, h2', h3⟩ := bvh2Query_spec codes boxes hc hn h2 hb q
  obtain ⟨nb, e, _, _⟩ := bvh2Build_wf codes boxes hc hn h2
  rw [e] at hb
  simp only [Option.some.injEq] at hb
  subst hb
  refine ⟨out, h1, h2', ?_⟩
  intro leaf
  rw [h3 leaf, leafToOrig_getD]

/-- **bvh2_pairs_exact.**  For every box array (no validity hypothesis), every code array
(`< 2^32`, any multiset, all equal included) and every filter, `BVHBuildFromBoxes` followed by the
BVH branch of `CollectIntersectionPairs` (every edge box queried, `qi < li` kept, filter,
`RadixSortPairs`) succeeds within all guards (fuel, 64-entry traversal stack, array bounds) and
emits a strictly lexicographically increasing — hence sorted and duplicate-free — list that
contains `(i, j)` iff `i < j < n`, the boxes overlap under `Box2::DoesOverlap` and the pair is
not filtered (`skip i j` is only ever evaluated with `i < j`). -/
theorem bvh2_pairs_exact (codes : Array Nat) (boxes : Array Box2) (skip : Nat → Nat → Bool)
    (hc : ∀ i, i < boxes.size → codes.getD i 0 < 2 ^ 32) (hn : boxes.size < 2 ^ 32) :
    ∃ bvh ps, bvh2Build codes boxes = some bvh ∧ bvh2Pairs bvh boxes skip = some ps ∧
      ps.Pairwise pairLt ∧ ps.Nodup ∧
      ∀ i j, (i, j) ∈ ps ↔
        (i < j ∧ j < boxes.size ∧ (boxAt boxes i).doesOverlap (boxAt boxes j) = true ∧
          skip i j = false) := by
  by_cases h2 : 2 ≤ boxes.size
  · obtain ⟨bvh, ps, h1, h2', h3, h4⟩ := bvh2Pairs_spec_ge2 codes boxes skip hc hn h2
    exact ⟨bvh, ps, h1, h2', h3, nodup_of_pairwise_pairLt h3, h4⟩
  · by_cases h0 : boxes.size = 0
    · refine ⟨⟨#[], #[], #[]⟩, [], ?_, ?_, List.Pairwise.nil, List.nodup_nil, ?_⟩
      · rw [bvh2Build_unfold, if_pos h0]
      · simp [bvh2Pairs, bvh2Raw, h0, collectAll, radixSortPairs]
      · intro i j; simp only [List.not_mem_nil, false_iff]; omega
    · have h1 : boxes.size = 1 := by omega
      have hch : (createRadixTree (sortedMorton codes boxes.size)).1.size = 0 := by
        simp [createRadixTree, createRadixTreeOrd, sortedMorton_size, h1]
      refine ⟨⟨leafCells boxes (leafOrder codes boxes.size),
        (createRadixTree (sortedMorton codes boxes.size)).1, (leafOrder codes boxes.size).toArray⟩,
        [], ?_, ?_, List.Pairwise.nil, List.nodup_nil, ?_⟩
      · rw [bvh2Build_unfold, if_neg h0, if_neg (by omega)]
      · exact bvh2Pairs_empty _ _ _ hch
      · intro i j; simp only [List.not_mem_nil, false_iff]; omega

/-- two strictly increasing lists with the same members are equal -/
theorem eq_of_pairLt_of_mem {l1 l2 : List (Nat × Nat)} (h1 : l1.Pairwise pairLt)
    (h2 : l2.Pairwise pairLt) (h : ∀ i j, (i, j) ∈ l1 ↔ (i, j) ∈ l2) : l1 = l2 := by
  apply List.Perm.eq_of_pairwise (le := pairLt) _ h1 h2
  · rw [List.perm_ext_iff_of_nodup (nodup_of_pairwise_pairLt h1) (nodup_of_pairwise_pairLt h2)]
    intro p; exact h p.1 p.2
  · intro a b _ _ hab hba
    unfold pairLt at hab hba
    omega

/-- **The two branches of `CollectIntersectionPairs` agree** (valid boxes, symmetric filter):
the 1024-edge switch does not change the emitted list. -/
theorem bvh2_eq_xsweep (codes : Array Nat) (boxes : Array Box2) (skip : Nat → Nat → Bool)
    (hc : ∀ i, i < boxes.size → codes.getD i 0 < 2 ^ 32) (hn : boxes.size < 2 ^ 32)
    (hsym : ∀ a b, skip a b = skip b a)
    (hval : ∀ i, i < boxes.size → (boxAt boxes i).minX ≤ (boxAt boxes i).maxX) :
    ∃ bvh, bvh2Build codes boxes = some bvh ∧
      bvh2Pairs bvh boxes skip = some (xsweepPairs boxes skip) := by
  obtain ⟨bvh, ps, h1, h2, h3, _, h5⟩ := bvh2_pairs_exact codes boxes skip hc hn
  obtain ⟨g1, _, g3⟩ := xsweep_pairs_exact boxes skip hsym hval
  refine ⟨bvh, h1, ?_⟩
  rw [h2, eq_of_pairLt_of_mem h3 g1 (fun i j => by rw [h5, g3])]

/-- Morton codes with ties (all of `exBoxes`' codes are drawn from two values) -/
def exCodes : Array Nat := #[5, 1, 5, 9, 1, 5]

example : ∃ bvh, bvh2Build exCodes exBoxes = some bvh ∧
    bvh2Pairs bvh exBoxes (fun _ _ => false) = some (xsweepPairs exBoxes (fun _ _ => false)) :=
  bvh2_eq_xsweep exCodes exBoxes _ (by decide) (by decide) (fun _ _ => rfl) exBoxes_valid
#guard (bvh2Build exCodes exBoxes).map (·.leafToOrig) == some #[1, 4, 0, 2, 5, 3]
#guard (bvh2Build exCodes exBoxes).bind (fun b => bvh2Pairs b exBoxes (fun _ _ => false)) ==
  some [(0, 1), (0, 2), (0, 4), (1, 2), (1, 3), (1, 4), (2, 4)]
-- a single box: no internal node, nothing is ever reported (as in the C++: `bvh.Empty()`)
#guard (bvh2Build #[7] #[⟨0, 0, 1, 1⟩]).bind (fun b => bvh2Pairs b #[⟨0, 0, 1, 1⟩] (fun _ _ => false)) == some []

/-! ## 3. the polygon k-d tree (`BuildTwoDTree` / `QueryTwoDTree`) -/

/-- **kdtree_build_invariant** (the key invariant).  `BuildTwoDTree` permutes the points; for
more than 8 points the result satisfies `KD true`: at every level `ℓ` (x for even, y for odd) the
array is `l ++ m :: r` with `m` at index `size/2`, every point of `l` has coordinate `≤` that of
`m` and every point of `r` has coordinate `≥` that of `m` — with a stable sort and duplicate
coordinates, points EQUAL to the median on the split axis sit on both sides — and `l`, `r`
satisfy the invariant for level `ℓ+1`. -/
theorem kdtree_build_invariant (pts : List PolyVert) :
    (buildTwoDTree pts).Perm pts ∧ (8 < pts.length → KD true (buildTwoDTree pts)) :=
  ⟨buildTwoDTree_perm pts, fun h => buildTwoDTree_kd pts h⟩

/-- the closed `DoesOverlap` prune is what makes ties harmless: a conceptual rectangle that
contains a point of `r` overlaps `r`, so a subtree holding a reported point is never skipped -/
theorem kdtree_prune_sound {c : CRect} {r : Rect} {p : PolyVert} (hc : InRect c p)
    (hr : r.contains p = true) : c.doesOverlap r = true := overlap_of_mem hc hr

/-- **kdtree_query_exact.**  For every point list (duplicates, ties on the split coordinate,
all points identical, …) and every rectangle (degenerate or inverted included), after
`BuildTwoDTree` the query `QueryTwoDTree` reports exactly the points contained in the closed
rectangle, each exactly once: the reported list is a permutation of (= equal as a multiset to)
`pts.filter r.contains`.  `some` says that the loop ends within its fuel and never pushes onto a
full 64-entry stack; the hypothesis is the bound implied by the depth: a view of more than 8
points is halved per level and each level holds at most one stack entry, so 64 entries suffice
as long as `n < 9 · 2^64` (vacuous for any real input; beyond it the C++ would overrun
`rectStack`). -/
theorem kdtree_query_exact (pts : List PolyVert) (r : Rect) (hn : pts.length < 9 * 2 ^ 64) :
    ∃ out, queryTwoDTree (buildTwoDTree pts) r = some out ∧
      out.Perm (pts.filter r.contains) := by
  have hp := buildTwoDTree_perm pts
  obtain ⟨out, h1, h2⟩ := queryTwoDTree_spec (buildTwoDTree pts) r
    (by rw [hp.length_eq]; exact hn)
    (fun h => buildTwoDTree_kd pts (by rw [hp.length_eq] at h; exact h))
  exact ⟨out, h1, h2.trans (hp.filter _)⟩

/-- each point inside the rectangle is reported exactly once, each point outside never
(the multiset statement spelled out with `count`) -/
theorem kdtree_query_count (pts : List PolyVert) (r : Rect) (hn : pts.length < 9 * 2 ^ 64) :
    ∃ out, queryTwoDTree (buildTwoDTree pts) r = some out ∧
      ∀ p, out.count p = if r.contains p then pts.count p else 0 := by
  obtain ⟨out, h1, h2⟩ := kdtree_query_exact pts r hn
  refine ⟨out, h1, fun p => ?_⟩
  rw [h2.count_eq]
  split
  · rename_i h
    exact List.count_filter h
  · rename_i h
    rw [List.count_eq_zero]
    intro hm
    rw [List.mem_filter] at hm
    exact h hm.2

/-- the traversal works on ANY array satisfying the invariant, not only on the one the build
produces -/
theorem kdtree_query_of_invariant (tree : List PolyVert) (r : Rect)
    (hn : tree.length < 9 * 2 ^ 64) (hkd : 8 < tree.length → KD true tree) :
    ∃ out, queryTwoDTree tree r = some out ∧ out.Perm (tree.filter r.contains) :=
  queryTwoDTree_spec tree r hn hkd

/-- 20 points on a 3×2 lattice: every coordinate value is shared by several points, so every
median has ties on both sides -/
def exPts : List PolyVert := (List.range 20).map fun i => ⟨((i * 7) % 3 : Nat), ((i * 3) % 2 : Nat), i⟩

example : ∃ out, queryTwoDTree (buildTwoDTree exPts) ⟨1, 0, 1, 1⟩ = some out ∧
    out.Perm (exPts.filter (Rect.contains ⟨1, 0, 1, 1⟩)) :=
  kdtree_query_exact exPts _ (by decide)
#guard ((buildTwoDTree exPts).map (·.idx)) ==
  [0, 6, 12, 18, 4, 3, 9, 15, 1, 7, 10, 16, 2, 8, 14, 13, 19, 5, 11, 17]
#guard ((queryTwoDTree (buildTwoDTree exPts) ⟨1, 0, 1, 1⟩).map (·.map (·.idx))) ==
  some [10, 4, 1, 7, 13, 16, 19]
#guard ((exPts.filter (Rect.contains ⟨1, 0, 1, 1⟩)).map (·.idx)) == [1, 4, 7, 10, 13, 16, 19]

/-! ## 4. the candidate sweep of `MergeVerts` (same pattern as the x-sweep)

Model MV/Model/MergeSweep.lean.  The candidate list is internal to `MergeVerts`, so the tie to the
C++ is the result oracle of harness/c14_broad2.cpp only (clusters = components of the
`distance ≤ eps` graph found by an all-pairs scan). -/

/-- **merge_candidates_exact.**  For every vertex array and every threshold (`2·eps`), both
branches of the candidate search of `MergeVerts` (all-pairs below 32 vertices, the x-sorted sweep
with early `break` from 32 on) produce the strictly lexicographically increasing list of exactly
the pairs `i < j` with `|x_i − x_j| ≤ thresh` and `|y_i − y_j| ≤ thresh`. -/
theorem merge_candidates_exact (pts : Array (Int × Int)) (thresh : Int) :
    (mergeCandidates pts thresh).Pairwise pairLt ∧
    ∀ i j, (i, j) ∈ mergeCandidates pts thresh ↔ (i < j ∧ j < pts.size ∧
      iabs (ptX pts i - ptX pts j) ≤ thresh ∧ iabs (ptY pts i - ptY pts j) ≤ thresh) := by
  unfold mergeCandidates
  split
  · exact mergeBrute_spec pts thresh
  · exact mergeSweep_spec pts thresh

/-- … hence no pair within distance `eps` is lost by the broad phase (`thresh = 2·eps`,
`eps ≥ 0`): every edge of the "distance ≤ eps" graph is a candidate. -/
theorem merge_candidates_cover (pts : Array (Int × Int)) (eps : Int) (he : 0 ≤ eps) (i j : Nat)
    (hij : i < j) (hj : j < pts.size)
    (hd : (ptX pts i - ptX pts j) * (ptX pts i - ptX pts j) +
      (ptY pts i - ptY pts j) * (ptY pts i - ptY pts j) ≤ eps * eps) :
    (i, j) ∈ mergeCandidates pts (2 * eps) := by
  rw [(merge_candidates_exact pts (2 * eps)).2]
  refine ⟨hij, hj, ?_, ?_⟩
  · rw [iabs_le]
    constructor <;> nlinarith [mul_self_nonneg (ptY pts i - ptY pts j)]
  · rw [iabs_le]
    constructor <;> nlinarith [mul_self_nonneg (ptX pts i - ptX pts j)]

example : (0, 2) ∈ mergeCandidates #[(0, 0), (5, 5), (1, 0)] 2 :=
  merge_candidates_cover _ 1 (by decide) 0 2 (by decide) (by decide) (by decide)
#guard mergeCandidates #[(0, 0), (5, 5), (1, 0), (0, 0)] 2 == [(0, 2), (0, 3), (2, 3)]

end MV.Broad2.C14b
