import MV.Proof.ExportRuns
import MV.Proof.ExportRuns2
import MV.Proof.ExportIds
/-!
# C07 — provenance: the run table of the exported mesh

"Runs are contiguous, cover all triangles, are sorted by original ID (originals that contribute
no triangle trail as empty runs), and distinct instances of one original keep their own
transforms."

The theorems are about `MV.Export.exportRuns` (the transliteration of the run part of
`GetMeshGLImpl`, /repo/src/impl.h:565-636) and about the mesh-ID bookkeeping that feeds it
(`IncrementMeshIDs`, the Boolean's `offsetQ` shift, `Compose`'s `i * snapshot` offsets).
They are tied to the C++ by `checks/c07.py`: the harness dumps the exporter's inputs of the real
`Impl` and the real `GetMeshGL64` integer fields, `mvdriver export all …` must reproduce them.

The geometric half of C07 (triangle within tolerance of the transformed source face, property
values = interpolated source field) is an oracle in the harness, not a theorem.
-/
namespace MV.C07
open MV.Export List

variable {τ : Type}


/-- the concrete instance used by the non-vacuity examples: two instances (meshIDs 5, 6) of two
originals (2, 1), and a relation (7) no triangle uses -/
def exRefs : List TriRef := [⟨5, 2, -1, 0⟩, ⟨6, 1, -1, 1⟩, ⟨5, 2, 3, 2⟩, ⟨6, 1, -1, 3⟩]
def exMap : RelMap Nat := [(5, ⟨2, 50, false, false⟩), (6, ⟨1, 60, true, false⟩), (7, ⟨1, 70, false, true⟩)]

theorem exRefs_hid : ∀ r ∈ exRefs, r.meshID ≠ -1 := by simp [exRefs]
theorem exMap_sorted : RelMap.Sorted exMap := by simp [RelMap.Sorted, exMap]
theorem ex_consistent : Consistent exRefs exMap := by
  simp [Consistent, exRefs, exMap, RelMap.lookup]

/-! ## runs are contiguous, cover all triangles, and are homogeneous -/

/-- RUNS PARTITION THE TRIANGLES (any input, original or not; the only hypothesis is that no
triangle carries the sentinel `lastID = -1` as its meshID).
* `triNew2Old` is a permutation of `0..n-1` and `sorted` is `refs` read through it;
* `runIndex` has one entry more than `runOriginalID`, starts at 0, ends at `3n`, is
  non-decreasing, all entries are multiples of 3: run `k` is the contiguous block
  `[runIndex[k]/3, runIndex[k+1]/3)` and the blocks tile `0..n-1`;
* every triangle of run `k` has the meshID that opened run `k`;
* the vertex loop, which walks `for run, for tri in run`, visits `0,1,…,n-1` in order. -/
theorem runs_partition (isOriginal : Bool) (idT : τ) (refs : List TriRef) (m : RelMap τ)
    (hid : ∀ r ∈ refs, r.meshID ≠ -1) :
    let rt := exportRuns isOriginal idT refs m
    rt.triNew2Old ~ List.range refs.length ∧
    rt.sorted.length = refs.length ∧
    (∀ t, t < refs.length → rt.sorted[t]? = refs[rt.triNew2Old.getD t 0]?) ∧
    rt.runIndex.length = rt.runOriginalID.length + 1 ∧
    rt.runIndex.head? = some 0 ∧ rt.runIndex.getLast? = some (3 * refs.length) ∧
    rt.runIndex.Pairwise (· ≤ ·) ∧ (∀ x ∈ rt.runIndex, 3 ∣ x) ∧
    (∀ k t r, k < rt.runMeshID.length → rt.runIndex.getD k 0 ≤ 3 * t →
      3 * t < rt.runIndex.getD (k + 1) 0 → rt.sorted[t]? = some r →
      rt.runMeshID[k]? = some r.meshID) ∧
    runOrder rt.runIndex = List.range refs.length := by
  intro rt
  obtain ⟨hp, hh⟩ := exportRuns_starts isOriginal idT refs m hid
  have hri : rt.runIndex = (rt.runs.map (·.start) ++ [refs.length]).map (3 * ·) := runIndex_eq rt
  refine ⟨sortIdx_snd_perm _ _, sortedOf_length _ _, sorted_getElem?_eq _ _, ?_, ?_, ?_, ?_, ?_, ?_, ?_⟩
  · simp [RunTable.runIndex, RunTable.runOriginalID]
  · rw [hri, head?_map, hh]; rfl
  · simp [RunTable.runIndex, rt, exportRuns_numTri]
  · rw [hri]
    exact pairwise_map.2 (hp.imp (fun h => by omega))
  · intro x hx
    rw [hri] at hx
    obtain ⟨y, _, rfl⟩ := mem_map.1 hx
    exact Nat.dvd_mul_right 3 y
  · intro k t r hk h1 h2 hr
    exact exportRuns_cover isOriginal idT refs m k t r
      (by simpa [RunTable.runMeshID] using hk) h1 h2 hr
  · rw [hri]
    cases hS : rt.runs.map (·.start) ++ [refs.length] with
    | nil => simp at hS
    | cons a l =>
      rw [hS] at hp hh
      simp only [head?_cons, Option.some.injEq] at hh
      subst hh
      rw [runOrder_map3 l 0 hp, range_eq_range']
      congr 1
      have hl : (rt.runs.map (·.start) ++ [refs.length]).getLast? = some refs.length := by simp
      rw [hS, getLast?_cons] at hl
      simp only [Option.some.injEq] at hl
      omega

/-- non-vacuity: the hypothesis holds for a concrete mixed input (sorted and unsorted export) -/
example := runs_partition false (0 : Nat) exRefs exMap exRefs_hid
example := runs_partition true (0 : Nat) exRefs exMap exRefs_hid

/-! ## runs are sorted; empty runs trail; every instance keeps its own relation -/

/-- RUNS ARE SORTED (non-original export of a consistent relation table with ascending keys).
There is a `p` (the number of non-empty runs) such that
* runs `0..p-1` are non-empty, runs `p..` are empty and start at `3n` (empty runs last);
* the non-empty runs are STRICTLY increasing in (originalID, meshID): in particular
  `runOriginalID` is non-decreasing over them and every instance (meshID) has exactly one run;
* their meshIDs are exactly the meshIDs that occur on triangles;
* EVERY run (empty or not) carries the relation stored under its own meshID — distinct instances
  of one original keep their own transform/backSide/hasNormals, nothing is defaulted;
* the empty runs are exactly the relations no triangle uses, one each, in key order. -/
theorem runs_sorted (idT : τ) (refs : List TriRef) (m : RelMap τ)
    (hm : RelMap.Sorted m) (hid : ∀ r ∈ refs, r.meshID ≠ -1) (hc : Consistent refs m) :
    let rt := exportRuns false idT refs m
    ∃ p, p ≤ rt.runs.length ∧
      (∀ k, k < p → rt.runIndex.getD k 0 < rt.runIndex.getD (k + 1) 0) ∧
      (∀ k, p ≤ k → k < rt.runs.length → rt.runIndex.getD k 0 = 3 * refs.length) ∧
      (rt.runs.take p).Pairwise RunKeyLT ∧
      (rt.runOriginalID.take p).Pairwise (· ≤ ·) ∧
      (rt.runMeshID.take p).Nodup ∧
      (∀ id, id ∈ rt.runMeshID.take p ↔ id ∈ refs.map (·.meshID)) ∧
      (∀ run ∈ rt.runs, RelMap.lookup m run.meshID = some run.rel) ∧
      (rt.runs.drop p).map (fun r => (r.meshID, r.rel)) =
        m.filter (fun kv => !(refs.map (·.meshID)).contains kv.1) := by
  intro rt
  have hruns : rt.runs = (loopOf false idT refs m).1 ++
      (loopOf false idT refs m).2.map fun kv => (⟨refs.length, kv.1, kv.2⟩ : Run τ) := rfl
  have hst := runsFrom_start (Rel.dflt idT) (sortedOf false refs) 0 (-1) m
  have hb : ∀ run ∈ (loopOf false idT refs m).1, run.start < refs.length := fun run hr => by
    have := (hst.1 run hr).2.1
    rwa [Nat.zero_add, sortedOf_length] at this
  have htake : rt.runs.take (loopOf false idT refs m).1.length = (loopOf false idT refs m).1 := by
    rw [hruns, take_left']; rfl
  have hdrop : rt.runs.drop (loopOf false idT refs m).1.length =
      (loopOf false idT refs m).2.map fun kv => (⟨refs.length, kv.1, kv.2⟩ : Run τ) := by
    rw [hruns, drop_left']; rfl
  have hkey := loop_pairwise_key idT refs m hid hc
  refine ⟨(loopOf false idT refs m).1.length, by rw [hruns, length_append]; omega,
    ?_, ?_, ?_, ?_, ?_, ?_, ?_, ?_⟩
  · intro k hk
    rw [runIndex_getD _ _ (by rw [hruns, length_append]; omega),
      runIndex_getD _ _ (by rw [hruns, length_append]; omega)]
    simp only [rt, exportRuns_numTri, exportRuns_nxt]
    have : nxt (loopOf false idT refs m).1 k refs.length <
        nxt (loopOf false idT refs m).1 (k + 1) refs.length := nxt_strict hst.2 hb hk
    omega
  · intro k hk hk'
    rw [runIndex_getD _ _ (Nat.le_of_lt hk')]
    simp only [rt, exportRuns_numTri, exportRuns_nxt]
    rw [nxt_of_ge hk]
  · rw [htake]; exact hkey
  · rw [RunTable.runOriginalID, ← map_take, htake]
    refine pairwise_map.2 (hkey.imp ?_)
    intro a b h
    rcases h with h | ⟨h, _⟩ <;> omega
  · rw [RunTable.runMeshID, ← map_take, htake]
    exact loop_meshIDs_nodup idT refs m hid hc
  · intro id
    rw [RunTable.runMeshID, ← map_take, htake]
    exact loop_mem_meshIDs idT refs m false hid id
  · intro run hr
    rw [hruns] at hr
    rcases mem_append.1 hr with hr | hr
    · obtain ⟨_, _, _, h, _⟩ := loop_run_spec idT refs m hid hc run hr
      exact h
    · obtain ⟨kv, hkv, rfl⟩ := mem_map.1 hr
      rw [loop_snd idT refs m false hid] at hkv
      exact RelMap.lookup_eq_some_of_mem m kv.1 kv.2 hm (mem_filter.1 hkv).1
  · rw [hdrop, map_map, ← loop_snd idT refs m false hid]
    exact map_id' _

/-- non-vacuity: a consistent state with two non-empty runs and one trailing empty run -/
example := runs_sorted (0 : Nat) exRefs exMap exMap_sorted exRefs_hid ex_consistent

/-! ## IncrementMeshIDs -/

/-- `IncrementMeshIDs` renumbers the keys by a strictly monotone bijection onto
`[next, next + size)`; the new table is sorted and stores the same relations under the new keys. -/
theorem increment_bijective_monotone (m : RelMap τ) (next : Int) (hm : RelMap.Sorted m) :
    let t := old2new m next
    (∀ a b, a ∈ m.keys → b ∈ m.keys → (a < b ↔ old2newAt t a < old2newAt t b)) ∧
    (∀ a ∈ m.keys, next ≤ old2newAt t a ∧ old2newAt t a < next + m.length) ∧
    (∀ j : Nat, j < m.length → ∃ a ∈ m.keys, old2newAt t a = next + j) ∧
    RelMap.Sorted (incrementKeys m next) ∧
    (∀ a ∈ m.keys, RelMap.lookup (incrementKeys m next) (old2newAt t a) = RelMap.lookup m a) := by
  exact increment_bijective_monotone' m next hm

example := increment_bijective_monotone exMap 100 exMap_sorted

/-- consequently the run sort key order of any two triangles is unchanged by `IncrementMeshIDs`
(the exported run order does not depend on when the IDs were last incremented) -/
theorem increment_preserves_runLE (m : RelMap τ) (next : Int) (hm : RelMap.Sorted m)
    (a b : TriRef) (ha : a.meshID ∈ m.keys) (hb : b.meshID ∈ m.keys) :
    let t := old2new m next
    runLE { a with meshID := old2newAt t a.meshID } { b with meshID := old2newAt t b.meshID } = runLE a b := by
  exact increment_preserves_runLE' m next hm a b ha hb

example := increment_preserves_runLE exMap 100 exMap_sorted ⟨7, 1, 0, 0⟩ ⟨6, 1, 3, 3⟩
  (by simp [exMap, RelMap.keys]) (by simp [exMap, RelMap.keys])

/-! ## Boolean: Q's IDs are shifted past P's -/

/-- If every key of P is below the counter value `offsetQ` and Q's keys are non-negative, then
`UpdateReference` overwrites nothing: the result is P's table followed by Q's shifted table
(backSide xor-ed with `invertQ` on Q only). -/
theorem offsetQ_disjoint (mP mQ : RelMap τ) (offsetQ : Int) (invertQ : Bool)
    (hP : RelMap.Sorted mP) (hQ : RelMap.Sorted mQ)
    (hPlt : ∀ k ∈ mP.keys, k < offsetQ) (hQge : ∀ k ∈ mQ.keys, 0 ≤ k) :
    let m := updateReference mP mQ offsetQ invertQ
    m = mP ++ mQ.map (fun kv => (kv.1 + offsetQ, { kv.2 with backSide := xor kv.2.backSide invertQ })) ∧
    RelMap.Sorted m ∧
    (∀ k ∈ mP.keys, RelMap.lookup m k = RelMap.lookup mP k) ∧
    (∀ k ∈ mQ.keys, RelMap.lookup m (k + offsetQ) =
      (RelMap.lookup mQ k).map fun r => { r with backSide := xor r.backSide invertQ }) := by
  exact offsetQ_disjoint' mP mQ offsetQ invertQ hP hQ hPlt hQge

example := offsetQ_disjoint exMap ([(0, ⟨5, 50, false, false⟩), (1, ⟨6, 60, true, true⟩)] : RelMap Nat) 8 true
  exMap_sorted (by simp [RelMap.Sorted]) (by simp [exMap, RelMap.keys]) (by simp [RelMap.keys])

/-! ## Compose: node `i` is shifted by `i * snapshot` -/

/-- If every key of every node is in `[0, snapshot)`, the shifted tables are pairwise disjoint:
the combined table is their concatenation, and node `i`'s relation `k` is found at
`k + i * snapshot`. -/
theorem compose_offsets_disjoint (ms : List (RelMap τ)) (snapshot : Int)
    (hs : ∀ m ∈ ms, RelMap.Sorted m) (hk : ∀ m ∈ ms, ∀ k ∈ m.keys, 0 ≤ k ∧ k < snapshot) :
    let c := composeRelations ms snapshot
    c = ms.zipIdx.flatMap (fun mi => mi.1.map fun kv => (kv.1 + mi.2 * snapshot, kv.2)) ∧
    RelMap.Sorted c ∧
    (∀ (i : Nat) mi k, ms[i]? = some mi → k ∈ mi.keys →
      RelMap.lookup c (k + (i : Int) * snapshot) = RelMap.lookup mi k) := by
  exact compose_offsets_disjoint' ms snapshot hs hk

example := compose_offsets_disjoint
  ([[(0, ⟨0, 10, false, false⟩), (3, ⟨2, 30, true, false⟩)], [],
    [(1, ⟨5, 50, false, false⟩), (2, ⟨6, 60, true, true⟩)]] : List (RelMap Nat)) 4
  (by simp [RelMap.Sorted])
  (by
    intro m hm k hk
    simp only [List.mem_cons, List.not_mem_nil, or_false] at hm
    rcases hm with rfl | rfl | rfl <;> simp [RelMap.keys] at hk <;> omega)

end MV.C07
