import MV.Proof.PropInterpBary
import MV.Proof.PropInterpDedup
/-!
# C07b — the property-interpolation half of C07

"… each of its vertex property values equals the source's interpolated property field at that
position whenever that field is affine across the face … and zero for channels the source lacks."

The theorems are about `MV.PropInterp.getBarycentric` (transliteration of `GetBarycentric`,
/repo/src/shared.h:150-196) and `MV.PropInterp.createProperties` / `runCorners` / `cornerStep`
(transliteration of `Barycentric` and `CreateProperties`, /repo/src/boolean_result.cpp:586-735).
`checks/c07.py` runs THE SAME definitions at `Float` against the real functions, bit for bit
(`harness/c07_props.cpp`: `GetBarycentric` called directly, `CreateProperties` observed through the
hook `onCreateProps`).

* arithmetic theorems (`barycentric_*`, `interp_*`, `retained_corner_exact`): at any linearly ordered
  field `F` (instance `fieldScalar F`: every operation exact);
* combinatorial theorems (`createProperties_*`, `zero_fill`): for EVERY `Scalar`, `Float` included.

What is NOT here: rounding (the `Float` run is tied to the code, not to the field theorems), and the
property paths of `CollapseEdge` / `SwapEdge` (edge_op.cpp), which stay oracle-only.
-/
namespace MV.C07b
open MV.PropInterp

section Barycentric
variable {F : Type} [Field F] [LinearOrder F] [IsStrictOrderedRing F]

omit [IsStrictOrderedRing F] in
/-- SNAP TO A VERTEX: a point within tolerance of a vertex (squared distance, as the code
computes it, below `tol²`) gets exactly the unit vector of the FIRST such vertex. -/
theorem barycentric_snap_vertex (v t0 t1 t2 : V3 F) (tol : F) :
    (dist2 v t0 < tol * tol → getBarycentric v t0 t1 t2 tol = ⟨1, 0, 0⟩) ∧
    (¬ dist2 v t0 < tol * tol → dist2 v t1 < tol * tol →
      getBarycentric v t0 t1 t2 tol = ⟨0, 1, 0⟩) ∧
    (¬ dist2 v t0 < tol * tol → ¬ dist2 v t1 < tol * tol → dist2 v t2 < tol * tol →
      getBarycentric v t0 t1 t2 tol = ⟨0, 0, 1⟩) := by
  refine ⟨fun h => ?_, fun h0 h => ?_, fun h0 h1 h => ?_⟩
  · exact gb_vert0 v t0 t1 t2 tol (by simpa using h)
  · exact gb_vert1 v t0 t1 t2 tol (by simpa using h0) (by simpa using h)
  · exact gb_vert2 v t0 t1 t2 tol (by simpa using h0) (by simpa using h1) (by simpa using h)

/-- non-vacuity: the point (1/10, 0, 0) is within 1/2 of the first vertex of a unit right triangle -/
example : getBarycentric (⟨1/10, 0, 0⟩ : V3 ℚ) ⟨0, 0, 0⟩ ⟨1, 0, 0⟩ ⟨0, 1, 0⟩ (1/2) = ⟨1, 0, 0⟩ :=
  (barycentric_snap_vertex _ _ _ _ _).1 (by norm_num [dist2])

omit [IsStrictOrderedRing F] in
/-- every input falls in exactly one of the branches of `GetBarycentric` -/
theorem branches (v t0 t1 t2 : V3 F) (tol : F) :
    (∃ i, i < 3 ∧ getBarycentric v t0 t1 t2 tol = unitV i) ∨
    (NoVertex v t0 t1 t2 tol ∧ getBarycentric v t0 t1 t2 tol = ⟨1, 0, 0⟩) ∨
    TriBranch v t0 t1 t2 tol ∨
    (NoVertex v t0 t1 t2 tol ∧ ∃ alpha : F,
      getBarycentric v t0 t1 t2 tol = ⟨0, 1 - alpha, alpha⟩ ∨
      getBarycentric v t0 t1 t2 tol = ⟨alpha, 0, 1 - alpha⟩ ∨
      getBarycentric v t0 t1 t2 tol = ⟨1 - alpha, alpha, 0⟩) := by
  cases h0 : Scalar.lt (dist2 v t0) (Scalar.mul tol tol) with
  | true => exact Or.inl ⟨0, by omega, gb_vert0 v t0 t1 t2 tol h0⟩
  | false =>
    cases h1 : Scalar.lt (dist2 v t1) (Scalar.mul tol tol) with
    | true => exact Or.inl ⟨1, by omega, gb_vert1 v t0 t1 t2 tol h0 h1⟩
    | false =>
      cases h2 : Scalar.lt (dist2 v t2) (Scalar.mul tol tol) with
      | true => exact Or.inl ⟨2, by omega, gb_vert2 v t0 t1 t2 tol h0 h1 h2⟩
      | false =>
        have hv : NoVertex v t0 t1 t2 tol := ⟨h0, h1, h2⟩
        cases hp : Scalar.lt (dLong t0 t1 t2) (Scalar.mul tol tol) with
        | true => exact Or.inr (Or.inl ⟨hv, gb_point v t0 t1 t2 tol hv hp⟩)
        | false =>
          cases ht : Scalar.lt (Scalar.mul (dLong t0 t1 t2) (Scalar.mul tol tol)) (area2of t0 t1 t2) with
          | true => exact Or.inr (Or.inr (Or.inl ⟨hv, hp, ht⟩))
          | false => exact Or.inr (Or.inr (Or.inr ⟨hv, gb_line v t0 t1 t2 tol hv hp ht⟩))

/-- THE WEIGHTS SUM TO ONE — for ALL inputs (degenerate triangles, any tolerance) with exactly one
exception, which is real (see `barycentric_all_snapped_exists`): the triangle branch is taken and
all three edge tests fire; the code then divides 0 by 0 in every component (`⟨0,0,0⟩` in a field,
`NaN` at `Float`).  In particular the sum is 1 whenever at most two edge tests fire. -/
theorem barycentric_sum_one (v t0 t1 t2 : V3 F) (tol : F) :
    (getBarycentric v t0 t1 t2 tol).x + (getBarycentric v t0 t1 t2 tol).y +
        (getBarycentric v t0 t1 t2 tol).z = 1 ∨
    (TriBranch v t0 t1 t2 tol ∧ AllSnapped v t0 t1 t2 tol ∧
      getBarycentric v t0 t1 t2 tol = ⟨0, 0, 0⟩) := by
  rcases branches v t0 t1 t2 tol with ⟨i, hi, h⟩ | ⟨_, h⟩ | h | ⟨_, alpha, h | h | h⟩
  · left
    rw [h]
    have : i = 0 ∨ i = 1 ∨ i = 2 := by omega
    rcases this with rfl | rfl | rfl <;> simp [unitV]
  · left; rw [h]; simp
  · by_cases ha : AllSnapped v t0 t1 t2 tol
    · exact Or.inr ⟨h, ha, (tri_all_snapped v t0 t1 t2 tol h ha).1⟩
    · exact Or.inl (tri_sum_one v t0 t1 t2 tol h ha)
  · left; rw [h]; ring
  · left; rw [h]; ring
  · left; rw [h]; ring

/-- the exception of `barycentric_sum_one` is inhabited by a NON-DEGENERATE triangle and a point
within tolerance of no vertex: triangle (0,0,0) (4,0,0) (2,3,0), point (2,1,0), tolerance 3/2
(the point is 1, 4/√13, 4/√13 from the three edge lines, 2 or more from the vertices; the smallest
altitude is 3).  The harness observes `NaN` from the real function in this regime. -/
theorem barycentric_all_snapped_exists :
    TriBranch (⟨2, 1, 0⟩ : V3 ℚ) ⟨0, 0, 0⟩ ⟨4, 0, 0⟩ ⟨2, 3, 0⟩ (3/2) ∧
    AllSnapped (⟨2, 1, 0⟩ : V3 ℚ) ⟨0, 0, 0⟩ ⟨4, 0, 0⟩ ⟨2, 3, 0⟩ (3/2) := by
  refine ⟨⟨⟨?_, ?_, ?_⟩, ?_, ?_⟩, ?_, ?_, ?_⟩
  · norm_num [dist2]
  · norm_num [dist2]
  · norm_num [dist2]
  · norm_num [dLong, d2of, longSide, V3.get]
  · norm_num [dLong, d2of, longSide, V3.get, area2of, crossPof]
  · norm_num [Snap0, A0, d2of]
  · norm_num [Snap1, A1, d2of]
  · norm_num [Snap2, A2, d2of]

/-- SNAP TO AN EDGE: in the triangle branch, a point within tolerance of the line of edge `i`
(`|edges[i] × (v − triPos[i+1])|² < |edges[i]|² tol²`) gets weight EXACTLY 0 for the opposite
vertex `i`, and the other two weights sum to 1 (unless all three edge tests fire). -/
theorem barycentric_snap_edge (v t0 t1 t2 : V3 F) (tol : F) (h : TriBranch v t0 t1 t2 tol)
    (hn : ¬ AllSnapped v t0 t1 t2 tol) :
    let r := getBarycentric v t0 t1 t2 tol
    (Snap0 v t0 t1 t2 tol → r.x = 0 ∧ r.y + r.z = 1) ∧
    (Snap1 v t0 t1 t2 tol → r.y = 0 ∧ r.x + r.z = 1) ∧
    (Snap2 v t0 t1 t2 tol → r.z = 0 ∧ r.x + r.y = 1) := by
  intro r
  have hsum : r.x + r.y + r.z = 1 := tri_sum_one v t0 t1 t2 tol h hn
  have hr : r = _ := gb_tri_field v t0 t1 t2 tol h
  refine ⟨fun s => ?_, fun s => ?_, fun s => ?_⟩
  · have : r.x = 0 := by rw [hr]; simp only; rw [raw_x, if_pos s, zero_div]
    exact ⟨this, by linarith⟩
  · have : r.y = 0 := by rw [hr]; simp only; rw [raw_y, if_pos s, zero_div]
    exact ⟨this, by linarith⟩
  · have : r.z = 0 := by rw [hr]; simp only; rw [raw_z, if_pos s, zero_div]
    exact ⟨this, by linarith⟩

/-- non-vacuity: (1/2, 1/100, 0) is within 1/10 of the edge y = 0 of the unit right triangle -/
example : (getBarycentric (⟨1/2, 1/100, 0⟩ : V3 ℚ) ⟨0, 0, 0⟩ ⟨1, 0, 0⟩ ⟨0, 1, 0⟩ (1/10)).z = 0 := by
  have hT : TriBranch (⟨1/2, 1/100, 0⟩ : V3 ℚ) ⟨0, 0, 0⟩ ⟨1, 0, 0⟩ ⟨0, 1, 0⟩ (1/10) := by
    refine ⟨⟨?_, ?_, ?_⟩, ?_, ?_⟩
    · norm_num [dist2]
    · norm_num [dist2]
    · norm_num [dist2]
    · norm_num [dLong, d2of, longSide, V3.get]
    · norm_num [dLong, d2of, longSide, V3.get, area2of, crossPof]
  have hN : ¬ AllSnapped (⟨1/2, 1/100, 0⟩ : V3 ℚ) ⟨0, 0, 0⟩ ⟨1, 0, 0⟩ ⟨0, 1, 0⟩ (1/10) := by
    intro h; have := h.1; norm_num [Snap0, A0, d2of] at this
  exact ((barycentric_snap_edge _ _ _ _ _ hT hN).2.2 (by norm_num [Snap2, A2, d2of])).1

/-- two edge tests firing (but not the third): the point is a RETAINED VERTEX — the unit vector
of the vertex where the two edges meet -/
theorem barycentric_two_edges_unit (v t0 t1 t2 : V3 F) (tol : F) (h : TriBranch v t0 t1 t2 tol) :
    (Snap0 v t0 t1 t2 tol → Snap1 v t0 t1 t2 tol → ¬ Snap2 v t0 t1 t2 tol →
      getBarycentric v t0 t1 t2 tol = ⟨0, 0, 1⟩) ∧
    (Snap0 v t0 t1 t2 tol → ¬ Snap1 v t0 t1 t2 tol → Snap2 v t0 t1 t2 tol →
      getBarycentric v t0 t1 t2 tol = ⟨0, 1, 0⟩) ∧
    (¬ Snap0 v t0 t1 t2 tol → Snap1 v t0 t1 t2 tol → Snap2 v t0 t1 t2 tol →
      getBarycentric v t0 t1 t2 tol = ⟨1, 0, 0⟩) := by
  refine ⟨fun s0 s1 s2 => ?_, fun s0 s1 s2 => ?_, fun s0 s1 s2 => ?_⟩
  all_goals
    have hn : ¬ AllSnapped v t0 t1 t2 tol := fun ha => by
      first | exact s2 ha.2.2 | exact s1 ha.2.1 | exact s0 ha.1
    have hs := rawSum_ne_zero v t0 t1 t2 tol h hn
    rw [gb_tri_field v t0 t1 t2 tol h]
    unfold rawSum at hs ⊢
    rw [raw_x, raw_y, raw_z] at hs ⊢
    simp only [s0, s1, s2, if_true, if_false, zero_add, add_zero, zero_div] at hs ⊢
    rw [div_self hs]

/-- RECONSTRUCTION (triangle branch, no edge test fires): the weights are `Uᵢ / area2` and place
the point at the orthogonal projection of `v` onto the plane of the triangle:
`Σ rᵢ tᵢ = v − (ζ / area2) · crossP`, `ζ = (v − t0)·crossP`. -/
theorem barycentric_reconstruct (v t0 t1 t2 : V3 F) (tol : F) (h : TriBranch v t0 t1 t2 tol)
    (s0 : ¬ Snap0 v t0 t1 t2 tol) (s1 : ¬ Snap1 v t0 t1 t2 tol) (s2 : ¬ Snap2 v t0 t1 t2 tol) :
    let r := getBarycentric v t0 t1 t2 tol
    let k := zeta v t0 t1 t2 / area2of t0 t1 t2
    r.x * t0.x + r.y * t1.x + r.z * t2.x = v.x - k * (crossPof t0 t1 t2).x ∧
    r.x * t0.y + r.y * t1.y + r.z * t2.y = v.y - k * (crossPof t0 t1 t2).y ∧
    r.x * t0.z + r.y * t1.z + r.z * t2.z = v.z - k * (crossPof t0 t1 t2).z := by
  intro r k
  have f := triFacts v t0 t1 t2 tol h
  have ha : area2of t0 t1 t2 ≠ 0 := ne_of_gt f.a_pos
  have hr : r = _ := gb_tri_field v t0 t1 t2 tol h
  have hsum : rawSum v t0 t1 t2 tol = area2of t0 t1 t2 := by
    unfold rawSum; rw [raw_x, raw_y, raw_z, if_neg s0, if_neg s1, if_neg s2]; exact U_sum v t0 t1 t2
  obtain ⟨hx, hy, hz⟩ := U_reconstruct v t0 t1 t2
  rw [hr]
  simp only [hsum, k]
  rw [raw_x, raw_y, raw_z, if_neg s0, if_neg s1, if_neg s2]
  refine ⟨?_, ?_, ?_⟩
  · field_simp; linear_combination hx
  · field_simp; linear_combination hy
  · field_simp; linear_combination hz

/-- an affine field `f(p) = a·p + b` -/
def affine (a : V3 F) (b : F) (p : V3 F) : F := a.x * p.x + a.y * p.y + a.z * p.z + b

omit [LinearOrder F] [IsStrictOrderedRing F] in
/-- interpolation with weights summing to 1 commutes with affine fields:
`dot(uvw, f(corners)) = f(Σ uvwᵢ cornerᵢ)` — the interpolated value is the field's value at the
point the weights reconstruct (snapped or not) -/
theorem interp_affine_commutes (a : V3 F) (b : F) (r t0 t1 t2 : V3 F) (hs : r.x + r.y + r.z = 1) :
    r.x * affine a b t0 + r.y * affine a b t1 + r.z * affine a b t2 =
      affine a b ⟨r.x * t0.x + r.y * t1.x + r.z * t2.x, r.x * t0.y + r.y * t1.y + r.z * t2.y,
        r.x * t0.z + r.y * t1.z + r.z * t2.z⟩ := by
  simp only [affine]
  linear_combination b * hs

/-- INTERPOLATION OF AN AFFINE FIELD IS EXACT (un-snapped interior case): for `f(p) = a·p + b`
sampled at the corners, `dot(uvw, f(corners)) = f(v) − (ζ / area2) (a·crossP)`; in particular
`= f(v)` for a point in the plane of the triangle (`ζ = 0`).  `dot` is the model's `la::dot`. -/
theorem interp_affine_exact (a : V3 F) (b : F) (v t0 t1 t2 : V3 F) (tol : F)
    (h : TriBranch v t0 t1 t2 tol)
    (s0 : ¬ Snap0 v t0 t1 t2 tol) (s1 : ¬ Snap1 v t0 t1 t2 tol) (s2 : ¬ Snap2 v t0 t1 t2 tol) :
    dot (getBarycentric v t0 t1 t2 tol) ⟨affine a b t0, affine a b t1, affine a b t2⟩ =
      affine a b v - zeta v t0 t1 t2 / area2of t0 t1 t2 * dot a (crossPof t0 t1 t2) ∧
    (zeta v t0 t1 t2 = 0 →
      dot (getBarycentric v t0 t1 t2 tol) ⟨affine a b t0, affine a b t1, affine a b t2⟩ =
        affine a b v) := by
  have hn : ¬ AllSnapped v t0 t1 t2 tol := fun ha => s0 ha.1
  have hsum := tri_sum_one v t0 t1 t2 tol h hn
  obtain ⟨hx, hy, hz⟩ := barycentric_reconstruct v t0 t1 t2 tol h s0 s1 s2
  have hc := interp_affine_commutes a b (getBarycentric v t0 t1 t2 tol) t0 t1 t2 hsum
  have main : dot (getBarycentric v t0 t1 t2 tol) ⟨affine a b t0, affine a b t1, affine a b t2⟩ =
      affine a b v - zeta v t0 t1 t2 / area2of t0 t1 t2 * dot a (crossPof t0 t1 t2) := by
    rw [dot_eq]
    simp only
    rw [hc]
    simp only [affine, dot_eq] at hx hy hz ⊢
    rw [hx, hy, hz]
    ring
  refine ⟨main, fun hz0 => ?_⟩
  rw [main, hz0]; simp

/-- non-vacuity: an interior point of the unit right triangle, in its plane, far from the edges -/
example : dot (getBarycentric (⟨1/4, 1/4, 0⟩ : V3 ℚ) ⟨0, 0, 0⟩ ⟨1, 0, 0⟩ ⟨0, 1, 0⟩ (1/100))
    ⟨affine ⟨2, 3, 5⟩ 7 ⟨0, 0, 0⟩, affine ⟨2, 3, 5⟩ 7 ⟨1, 0, 0⟩, affine ⟨2, 3, 5⟩ 7 ⟨0, 1, 0⟩⟩ =
    affine ⟨2, 3, 5⟩ 7 (⟨1/4, 1/4, 0⟩ : V3 ℚ) := by
  refine (interp_affine_exact ⟨2, 3, 5⟩ 7 _ _ _ _ _ ⟨⟨?_, ?_, ?_⟩, ?_, ?_⟩ ?_ ?_ ?_).2 ?_
  · norm_num [dist2]
  · norm_num [dist2]
  · norm_num [dist2]
  · norm_num [dLong, d2of, longSide, V3.get]
  · norm_num [dLong, d2of, longSide, V3.get, area2of, crossPof]
  · norm_num [Snap0, A0, d2of]
  · norm_num [Snap1, A1, d2of]
  · norm_num [Snap2, A2, d2of]
  · norm_num [zeta, crossPof]

end Barycentric

/-! ## `CreateProperties`: the de-duplication never merges what the key distinguishes -/
section Create
variable {α : Type} [Scalar α]

/-- KEYS ARE SOUND AND COMPLETE (every `Scalar`; hypothesis: every corner's vertex is a vertex of
the output, `vert ≠ NumVert()`): two output corners get the same property vertex IF AND ONLY IF
their keys `(PQ, idMiss | vert, propVert | min | -1, max | -1)` are equal. -/
theorem createProperties_keys_sound (P Q : Src α) (invertQ : Bool) (idMiss : Nat)
    (cs : List (Corner α)) (hv : ∀ c ∈ cs, c.vert ≠ idMiss) (m n : Nat) (c c' : Corner α)
    (hm : cs[m]? = some c) (hn : cs[n]? = some c') :
    let st := runCorners P Q invertQ idMiss cs
    (∃ i, st.out[m]? = some i ∧ st.out[n]? = some i) ↔
      cornerKey P Q idMiss c = cornerKey P Q idMiss c' := by
  intro st
  have inv := inv_run P Q invertQ idMiss cs hv
  obtain ⟨i, hi, hfi⟩ := inv.seen m c hm
  obtain ⟨j, hj, hfj⟩ := inv.seen n c' hn
  have wc := cornerKey_wf P Q idMiss c (hv c (List.mem_of_getElem? hm))
  have wc' := cornerKey_wf P Q idMiss c' (hv c' (List.mem_of_getElem? hn))
  constructor
  · rintro ⟨k, hk1, hk2⟩
    have e1 : i = k := by
      have : st.out[m]? = some i := hi
      rw [this] at hk1; exact Option.some.inj hk1
    have e2 : j = k := by
      have : st.out[n]? = some j := hj
      rw [this] at hk2; exact Option.some.inj hk2
    subst e1; subst e2
    exact inv.inj _ _ _ wc wc' hfi hfj
  · intro he
    rw [he] at hfi
    rw [hfi] at hfj
    have : i = j := Option.some.inj hfj
    subst this
    exact ⟨i, hi, hj⟩

/-- what equal keys mean, case by case (both corners' vertices are output vertices): the corners
agree on the operand `PQ`, and, when that operand has property channels,
* a RETAINED corner (some `uvw[j] == 1`) only meets retained corners with the SAME source
  property vertex;
* an EDGE corner (no 1, some 0) only meets edge corners at the SAME output vertex with the same
  UNORDERED pair of source property vertices;
* an INTERIOR corner only meets interior corners at the SAME output vertex — the key does NOT
  contain the source triangle (see the module doc of the check: such merges across different
  source triangles are counted by the harness on the real code). -/
theorem key_eq_meaning (P Q : Src α) (idMiss : Nat) (c c' : Corner α) (hv : c.vert ≠ idMiss)
    (hv' : c'.vert ≠ idMiss) (he : cornerKey P Q idMiss c = cornerKey P Q idMiss c') :
    c.pq = c'.pq ∧
    (0 < (srcOf P Q c.pq).numProp →
      match classify c.uvw with
      | .retained j => ∃ j', classify c'.uvw = .retained j' ∧
          (srcOf P Q c.pq).propAt c.face j = (srcOf P Q c.pq).propAt c'.face j'
      | .edge j => ∃ j', classify c'.uvw = .edge j' ∧ c.vert = c'.vert ∧
          min ((srcOf P Q c.pq).propAt c.face (next3 j)) ((srcOf P Q c.pq).propAt c.face (prev3 j)) =
            min ((srcOf P Q c.pq).propAt c'.face (next3 j')) ((srcOf P Q c.pq).propAt c'.face (prev3 j')) ∧
          max ((srcOf P Q c.pq).propAt c.face (next3 j)) ((srcOf P Q c.pq).propAt c.face (prev3 j)) =
            max ((srcOf P Q c.pq).propAt c'.face (next3 j')) ((srcOf P Q c.pq).propAt c'.face (prev3 j'))
      | .interior => classify c'.uvw = .interior ∧ c.vert = c'.vert) := by
  have hpq : c.pq = c'.pq := by
    have := congrArg Key.x he
    unfold cornerKey at this
    simp only at this
    split at this <;> split at this <;> (try split at this) <;> (try split at this) <;> simpa using this
  refine ⟨hpq, fun hp => ?_⟩
  have hp' : 0 < (srcOf P Q c'.pq).numProp := hpq ▸ hp
  unfold cornerKey at he
  simp only [gt_iff_lt, hp, hp', if_true] at he
  rw [← hpq] at he
  cases hc : classify c.uvw with
  | retained j =>
    rw [hc] at he
    cases hc' : classify c'.uvw with
    | retained j' =>
      rw [hc'] at he
      simp only [Key.mk.injEq, Int.ofNat_eq_natCast, Int.natCast_inj, true_and, and_true] at he
      exact ⟨j', rfl, he⟩
    | edge j' =>
      rw [hc'] at he
      simp only [Key.mk.injEq] at he
      exact absurd he.2.1.symm hv'
    | interior =>
      rw [hc'] at he
      simp only [Key.mk.injEq] at he
      exact absurd he.2.1.symm hv'
  | edge j =>
    rw [hc] at he
    cases hc' : classify c'.uvw with
    | retained j' =>
      rw [hc'] at he
      simp only [Key.mk.injEq] at he
      exact absurd he.2.1 hv
    | edge j' =>
      rw [hc'] at he
      simp only [Key.mk.injEq, Int.ofNat_eq_natCast, Int.natCast_inj, true_and] at he
      exact ⟨j', rfl, he.1, he.2.1, he.2.2⟩
    | interior =>
      rw [hc'] at he
      simp only [Key.mk.injEq, Int.ofNat_eq_natCast] at he
      omega
  | interior =>
    rw [hc] at he
    cases hc' : classify c'.uvw with
    | retained j' =>
      rw [hc'] at he
      simp only [Key.mk.injEq] at he
      exact absurd he.2.1 hv
    | edge j' =>
      rw [hc'] at he
      simp only [Key.mk.injEq, Int.ofNat_eq_natCast] at he
      omega
    | interior =>
      rw [hc'] at he
      simp only [Key.mk.injEq, true_and, and_true] at he
      exact ⟨rfl, he⟩

/-- EVERY CORNER'S ROW (every `Scalar`): the property vertex of corner `n` is a valid row index, and
that row is `interpRow` — `dot(uvw, oldProps)` per channel, negated normals, zero fill — of the
FIRST corner `m ≤ n` carrying the same key, computed from THAT corner's own source triangle and
weights; for a corner that is the first with its key (`m = n`) it is its own interpolation. -/
theorem createProperties_rows (P Q : Src α) (invertQ : Bool) (idMiss : Nat)
    (cs : List (Corner α)) (hv : ∀ c ∈ cs, c.vert ≠ idMiss) (n : Nat) (c : Corner α)
    (hn : cs[n]? = some c) :
    let st := runCorners P Q invertQ idMiss cs
    ∃ i m c0, st.out[n]? = some i ∧ m ≤ n ∧ cs[m]? = some c0 ∧
      cornerKey P Q idMiss c0 = cornerKey P Q idMiss c ∧
      (∀ m' c', m' < m → cs[m']? = some c' → cornerKey P Q idMiss c' ≠ cornerKey P Q idMiss c) ∧
      st.rows[i]? = some (interpRow P Q invertQ (max P.numProp Q.numProp) c0) := by
  intro st
  have inv := inv_run P Q invertQ idMiss cs hv
  obtain ⟨i, hi, hfi⟩ := inv.seen n c hn
  have wc := cornerKey_wf P Q idMiss c (hv c (List.mem_of_getElem? hn))
  obtain ⟨m, c0, hm, hkey, hfirst, hrow, _⟩ := inv.first _ i wc hfi
  refine ⟨i, m, c0, hi, ?_, hm, hkey, hfirst, hrow⟩
  by_contra hlt
  exact hfirst n c (by omega) hn rfl

/-- ZERO FILL (every `Scalar`): channels the corner's source lacks are `Scalar.zero` (`+0.0`). -/
theorem zero_fill (P Q : Src α) (invertQ : Bool) (numProp : Nat) (c : Corner α) (p : Nat)
    (hp : p < numProp) (hs : (srcOf P Q c.pq).numProp ≤ p) :
    (interpRow P Q invertQ numProp c)[p]? = some Scalar.zero := by
  unfold interpRow
  simp only [List.getElem?_map, List.getElem?_range hp, Option.map_some]
  rw [if_neg (by omega)]

/-- … and through the de-duplication: the row an output corner points at has zeros in every channel
its source lacks (corners sharing a row share `PQ`, hence the source) -/
theorem zero_fill_corner (P Q : Src α) (invertQ : Bool) (idMiss : Nat)
    (cs : List (Corner α)) (hv : ∀ c ∈ cs, c.vert ≠ idMiss) (n : Nat) (c : Corner α)
    (hn : cs[n]? = some c) (p : Nat) (hp : p < max P.numProp Q.numProp)
    (hs : (srcOf P Q c.pq).numProp ≤ p) :
    let st := runCorners P Q invertQ idMiss cs
    ∃ i row, st.out[n]? = some i ∧ st.rows[i]? = some row ∧ row[p]? = some Scalar.zero := by
  intro st
  obtain ⟨i, m, c0, hi, _, hm, hkey, _, hrow⟩ := createProperties_rows P Q invertQ idMiss cs hv n c hn
  have hpq : c0.pq = c.pq :=
    (key_eq_meaning P Q idMiss c0 c (hv c0 (List.mem_of_getElem? hm)) (hv c (List.mem_of_getElem? hn)) hkey).1
  exact ⟨i, _, hi, hrow, zero_fill P Q invertQ _ c0 p hp (hpq ▸ hs)⟩

/-- the row length is `numProp = max(numPropP, numPropQ)` -/
theorem interpRow_length (P Q : Src α) (invertQ : Bool) (numProp : Nat) (c : Corner α) :
    (interpRow P Q invertQ numProp c).length = numProp := by
  simp [interpRow]

end Create

section Retained
variable {F : Type} [Field F] [LinearOrder F]

/-- RETAINED CORNER (exact arithmetic): with `uvw` the unit vector of corner `j`, every channel the
source has is the source row's value itself (negated for channels 0..2 of a subtracted Q triangle
with normals).  (At `Float`, `1·a + 0·b + 0·c` is `a` bit for bit for finite `b, c` up to the sign
of zero; the harness checks `==` on the real output.) -/
theorem retained_corner_exact (P Q : Src F) (invertQ : Bool) (numProp : Nat) (c : Corner F) (j : Nat)
    (hj : j < 3) (hu : c.uvw = unitV j) (p : Nat) (hp : p < numProp)
    (hs : p < (srcOf P Q c.pq).numProp) :
    (interpRow P Q invertQ numProp c)[p]? =
      let s := srcOf P Q c.pq
      let val := s.props.getD (s.numProp * s.propAt c.face j + p) 0
      some (if negateNormals Q invertQ c && decide (p < 3) then -val else val) := by
  unfold interpRow
  simp only [List.getElem?_map, List.getElem?_range hp, Option.map_some]
  rw [if_pos hs, hu]
  have : j = 0 ∨ j = 1 ∨ j = 2 := by omega
  rcases this with rfl | rfl | rfl <;> simp [unitV]

example : (interpRow (⟨1, 2, #[10, 20], #[0, 1, 1], #[0, 1, 2], #[]⟩ : Src ℚ) ⟨0, 0, #[], #[], #[], #[]⟩
    false 1 ⟨true, 0, false, 5, unitV 1⟩)[0]? = some 20 := by
  rw [retained_corner_exact _ _ _ _ _ 1 (by omega) rfl 0 (by omega) (by simp [srcOf])]
  simp [srcOf, Src.propAt, negateNormals]

end Retained

/-! ## non-vacuity of the de-duplication theorems: a concrete run -/

/-- P: one triangle with two channels and property vertices 0,1,2; Q: no channels.
Corners: a retained corner of P twice (same property vertex), an interior corner of P at output
vertex 7, a corner of Q (no channels) -/
def exP : Src Nat := ⟨2, 3, #[1, 2, 3, 4, 5, 6], #[0, 1, 2], #[0, 1, 2], #[]⟩
def exQ : Src Nat := ⟨0, 3, #[], #[0, 1, 2], #[0, 1, 2], #[]⟩
instance : Scalar Nat := ⟨0, 1, (· + ·), (· - ·), (· * ·), (· / ·), id, fun a b => decide (a < b), fun a b => a == b⟩
def exCorners : List (Corner Nat) :=
  [⟨true, 0, false, 3, ⟨0, 1, 0⟩⟩, ⟨true, 0, false, 3, ⟨0, 1, 0⟩⟩, ⟨true, 0, false, 7, ⟨2, 3, 4⟩⟩,
   ⟨false, 0, false, 7, ⟨2, 3, 4⟩⟩]
theorem exCorners_verts : ∀ c ∈ exCorners, c.vert ≠ 9 := by simp [exCorners]

example := createProperties_keys_sound exP exQ false 9 exCorners exCorners_verts 0 1 _ _ rfl rfl
example := createProperties_rows exP exQ false 9 exCorners exCorners_verts 2 _ rfl
example := zero_fill_corner exP exQ false 9 exCorners exCorners_verts 3 _ rfl 1 (by decide) (by decide)
/-- the run itself: corners 0 and 1 share row 0 (= source row 1), the interior corner gets row 1,
Q's corner row 2 (all zeros) -/
example : (runCorners exP exQ false 9 exCorners).out = #[0, 0, 1, 2] ∧
    (runCorners exP exQ false 9 exCorners).rows = #[[3, 4], [2 * 1 + 3 * 3 + 4 * 5, 2 * 2 + 3 * 4 + 4 * 6], [0, 0]] := by
  decide

end MV.C07b
