import MV.Model.HullCheck
import MV.Proof.HullCheck
import Mathlib.Analysis.Convex.Hull
import Mathlib.Analysis.Normed.Module.Basic
import Mathlib.Tactic.Ring
import Mathlib.Tactic.Linarith
/-!
# Property C16, Hull half — the certificate accepted by `MV.Hull.checkHull`

Anchors: /repo/src/manifold.cpp:1107-1152 (`Manifold::Hull` ×3), /repo/src/quickhull.cpp (`Impl::Hull`,
`QuickHull::buildMesh`) — QuickHull's control flow is NOT modelled; its OUTPUT is checked, exactly.

* `hullCheck_sound`      for ALL inputs: acceptance ⇒ (1) closed oriented 2-manifold over all output
                         vertices, (2) every output vertex is an input point, (3) in `ℝ³` the polytope
                         `⋂ faces {x | orient(face, x) ≤ 0}` is convex and contains the convex hull of the
                         input points, (4) the three corners of every face are input points lying ON its
                         plane: each face plane supports the hull of the input (zero-area faces are legal in
                         a Manifold, carry no half-space, and are counted by `flatCount`, not rejected).
* `hullCheck_complete`   conversely the checker accepts whenever (1)–(4) hold on the integer data.
* `hull_edges_convex`    the apex of the triangle across any edge is on or behind the plane: no concave edge.
* `affineRank_exact`     `affineRank pts = 4` iff four input points span a tetrahedron — the exact
                         hypothesis of the clause "empty when the points span no volume".
* `hullCheck_partial`    (gap, recorded) the full statement would be `solid bounded by the mesh = convexHull
                         input`.  (3) gives `convexHull input ⊆ polytope`; that a closed 2-manifold all of whose
                         faces lie on supporting planes BOUNDS that polytope is classical and not formalised.
-/
namespace MV.C16b
open MV.Hull MV.Mesh

abbrev R3 := ℝ × ℝ × ℝ

def toR (p : P3) : R3 := ((p.1 : ℝ), (p.2.1 : ℝ), (p.2.2 : ℝ))

/-- `MV.Hull.orient` over the reals -/
def orientR (a b c p : R3) : ℝ :=
  ((b.2.1 - a.2.1) * (c.2.2 - a.2.2) - (b.2.2 - a.2.2) * (c.2.1 - a.2.1)) * (p.1 - a.1) +
  ((b.2.2 - a.2.2) * (c.1 - a.1) - (b.1 - a.1) * (c.2.2 - a.2.2)) * (p.2.1 - a.2.1) +
  ((b.1 - a.1) * (c.2.1 - a.2.1) - (b.2.1 - a.2.1) * (c.1 - a.1)) * (p.2.2 - a.2.2)

theorem orientR_cast (a b c p : P3) : orientR (toR a) (toR b) (toR c) (toR p) = ((orient a b c p : Int) : ℝ) := by
  obtain ⟨a1, a2, a3⟩ := a; obtain ⟨b1, b2, b3⟩ := b; obtain ⟨c1, c2, c3⟩ := c; obtain ⟨p1, p2, p3⟩ := p
  simp only [orientR, toR, orient, normal, dot, cross, sub]
  push_cast; ring

/-- closed half-space behind the plane of the triangle `a b c` -/
def halfspace (a b c : R3) : Set R3 := {x | orientR a b c x ≤ 0}

theorem convex_halfspace (a b c : R3) : Convex ℝ (halfspace a b c) := by
  intro x hx y hy s t hs ht hst
  obtain rfl : t = 1 - s := by linarith
  have hlin : orientR a b c (s • x + (1 - s) • y) = s * orientR a b c x + (1 - s) * orientR a b c y := by
    simp only [orientR, Prod.fst_add, Prod.snd_add, Prod.smul_fst, Prod.smul_snd, smul_eq_mul]
    ring
  show orientR a b c (s • x + (1 - s) • y) ≤ 0
  rw [hlin]
  have h1 : s * orientR a b c x ≤ 0 := mul_nonpos_of_nonneg_of_nonpos hs hx
  have h2 : (1 - s) * orientR a b c y ≤ 0 := mul_nonpos_of_nonneg_of_nonpos ht hy
  linarith

/-- intersection of the half-spaces of all output triangles -/
def polytope (vs : Array P3) (ts : List Tri) : Set R3 :=
  ⋂ t ∈ ts, halfspace (toR (vpos vs t.1)) (toR (vpos vs t.2.1)) (toR (vpos vs t.2.2))

theorem convex_polytope (vs : Array P3) (ts : List Tri) : Convex ℝ (polytope vs ts) :=
  convex_iInter₂ fun _ _ => convex_halfspace _ _ _

/-- the input points as a subset of `ℝ³` -/
def cloud (pts : List P3) : Set R3 := toR '' {p | p ∈ pts}

/-- **Soundness of the hull certificate, for all inputs.** -/
theorem hullCheck_sound {pts : List P3} {vs : Array P3} {ts : List Tri}
    (h : checkHull pts vs ts = .ok ()) :
    Closed2Manifold vs.size ts ∧
    (∀ i, i < vs.size → vpos vs i ∈ pts) ∧
    Convex ℝ (polytope vs ts) ∧
    convexHull ℝ (cloud pts) ⊆ polytope vs ts ∧
    (∀ t ∈ ts,
      ∀ v ∈ triVerts t, toR (vpos vs v) ∈ cloud pts ∧
        orientR (toR (vpos vs t.1)) (toR (vpos vs t.2.1)) (toR (vpos vs t.2.2)) (toR (vpos vs v)) = 0) := by
  have c := checkHull_sound h
  refine ⟨c.manifold, c.verts_input, convex_polytope vs ts, ?_, ?_⟩
  · apply convexHull_min _ (convex_polytope vs ts)
    rintro _ ⟨p, hp, rfl⟩
    simp only [polytope, Set.mem_iInter]
    intro t ht
    show orientR _ _ _ _ ≤ 0
    rw [orientR_cast]
    exact_mod_cast c.inside t ht p hp
  · intro t ht v hv
    have hr := c.manifold.1 t ht
    have hc := orient_corner (vpos vs t.1) (vpos vs t.2.1) (vpos vs t.2.2)
    simp only [triVerts, List.mem_cons, List.not_mem_nil, or_false] at hv
    rcases hv with rfl | rfl | rfl
    · exact ⟨⟨_, c.verts_input _ hr.1, rfl⟩, by rw [orientR_cast, hc.1]; simp⟩
    · exact ⟨⟨_, c.verts_input _ hr.2.1, rfl⟩, by rw [orientR_cast, hc.2.1]; simp⟩
    · exact ⟨⟨_, c.verts_input _ hr.2.2, rfl⟩, by rw [orientR_cast, hc.2.2]; simp⟩

/-- non-vacuity: the unit tetrahedron with a duplicated corner, an interior point and a point on a
face is accepted (and its output is what `Hull` returns for it) -/
example : checkHull [(0, 0, 0), (4, 0, 0), (0, 4, 0), (0, 0, 4), (0, 0, 0), (1, 1, 1), (2, 2, 0)]
    #[(0, 0, 0), (4, 0, 0), (0, 4, 0), (0, 0, 4)] [(0, 2, 1), (0, 1, 3), (0, 3, 2), (1, 2, 3)] = .ok () :=
  (checkHull_iff _ _ _).mpr (by decide)

/-- the same mesh is rejected when a point outside is added to the input -/
example : checkHull [(0, 0, 0), (4, 0, 0), (0, 4, 0), (0, 0, 4), (3, 3, 3)]
    #[(0, 0, 0), (4, 0, 0), (0, 4, 0), (0, 0, 4)] [(0, 2, 1), (0, 1, 3), (0, 3, 2), (1, 2, 3)] ≠ .ok () :=
  fun h => absurd ((checkHull_iff _ _ _).mp h) (by decide)

/-- **Completeness**: the checker accepts every certificate (so a rejection always names a violated clause). -/
theorem hullCheck_complete {pts : List P3} {vs : Array P3} {ts : List Tri}
    (h : HullCert pts vs ts) : checkHull pts vs ts = .ok () := (checkHull_iff pts vs ts).mpr h

example : HullCert [(0, 0, 0), (4, 0, 0), (0, 4, 0), (0, 0, 4)]
    #[(0, 0, 0), (4, 0, 0), (0, 4, 0), (0, 0, 4)] [(0, 2, 1), (0, 1, 3), (0, 3, 2), (1, 2, 3)] :=
  by decide

/-- **No concave edge**: every vertex of an accepted mesh — in particular the apex of the triangle
across any edge — is on or behind the plane of every triangle. -/
theorem hull_edges_convex {pts : List P3} {vs : Array P3} {ts : List Tri}
    (h : checkHull pts vs ts = .ok ()) {t : Tri} (ht : t ∈ ts) {i : Nat} (hi : i < vs.size) :
    triOrient vs t (vpos vs i) ≤ 0 :=
  (checkHull_sound h).vertex_behind ht hi

example : triOrient #[(0, 0, 0), (4, 0, 0), (0, 4, 0), (0, 0, 4)] (1, 2, 3) (0, 0, 0) ≤ 0 := by decide

/-- **The decision "spans a volume" is exact.** -/
theorem affineRank_exact (pts : List P3) :
    affineRank pts = 4 ↔ ∃ a ∈ pts, ∃ b ∈ pts, ∃ c ∈ pts, ∃ d ∈ pts, orient a b c d ≠ 0 :=
  affineRank_four_iff pts

example : affineRank [(0, 0, 0), (0, 0, 0), (1, 0, 0), (2, 0, 0), (0, 3, 0), (5, 5, 0)] = 3 := by decide
example : affineRank [(0, 0, 0), (1, 0, 0), (2, 0, 0), (0, 3, 0), (5, 5, 1)] = 4 := by decide

/-- **Recorded gap (`_partial`).**  Full statement wanted: *the solid bounded by an accepted mesh is
`convexHull ℝ (cloud pts)`*.  Proved: the mesh is a closed oriented 2-manifold on input points, and
`convexHull (cloud of the mesh vertices) ⊆ convexHull (cloud pts) ⊆ polytope`.  Missing: a closed
2-manifold whose faces all lie on supporting planes of a convex body bounds exactly that polytope
(local ⇒ global convexity); the harness closes it per run with a volume comparison
(signed volume of the mesh = volume of the reference hull) and winding-number samples. -/
theorem hullCheck_partial {pts : List P3} {vs : Array P3} {ts : List Tri}
    (h : checkHull pts vs ts = .ok ()) :
    convexHull ℝ (toR '' {p | ∃ i, i < vs.size ∧ p = vpos vs i}) ⊆ convexHull ℝ (cloud pts) ∧
    convexHull ℝ (cloud pts) ⊆ polytope vs ts := by
  have s := hullCheck_sound h
  refine ⟨convexHull_mono ?_, s.2.2.2.1⟩
  rintro _ ⟨p, ⟨i, hi, rfl⟩, rfl⟩
  exact ⟨_, s.2.1 i hi, rfl⟩

example : (toR (1, 1, 1)) ∈ polytope #[(0, 0, 0), (4, 0, 0), (0, 4, 0), (0, 0, 4)] [(0, 2, 1), (0, 1, 3), (0, 3, 2), (1, 2, 3)] := by
  have h : checkHull [(0, 0, 0), (4, 0, 0), (0, 4, 0), (0, 0, 4), (1, 1, 1)]
    #[(0, 0, 0), (4, 0, 0), (0, 4, 0), (0, 0, 4)] [(0, 2, 1), (0, 1, 3), (0, 3, 2), (1, 2, 3)] = .ok () :=
    (checkHull_iff _ _ _).mpr (by decide)
  exact (hullCheck_sound h).2.2.2.1 (subset_convexHull ℝ _ ⟨(1, 1, 1), by simp, rfl⟩)

end MV.C16b
