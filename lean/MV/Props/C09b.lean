import MV.Props.C09
import MV.Props.C01a
import MV.Proof.HalfedgeGate
/-!
# C09b: the joint between C09 (malformed input gives an error, never undefined behaviour) and
# C01 (every Manifold is a closed oriented 2-manifold or an empty error)

After the validation ladder of `Impl(MeshGLP)` (C09, `MV.Ingest.ingest`) has accepted a MeshGL it
hands an ARBITRARY triangle soup to

    CreateHalfedges(triProp, triVert);                       // impl.h:532, impl.cpp:373-567
    if (!IsManifold()) { MakeEmpty(NotManifold); return; }   // impl.h:533, properties.cpp:76-111

The soup is only known to have indices below `NumVert()`, no triangle with a repeated vertex and an
even number of triangles (`MV.Ingest.ingest_ok_inv`); it may be unbalanced, have edges used 3 or 4
times, be oriented inconsistently.  The theorems below are about the checked transliteration
(`MV.Halfedge.createHalfedges`, `MV.Halfedge.isManifold`: every `x[k]` a checked primitive, every
`while (1)` with fuel) and hold for EVERY triangle list with an even number of triangles: they do
not even need the index bound or non-degeneracy (those matter for the ORDER the sort produces, not
for safety; nothing below depends on the order).

What the gate is: `IsManifold()` is `all_of(CheckHalfedges)` only.  The duplicate-edge test lives in
`Is2Manifold()`, which the constructor does not call, so `NoError` does NOT imply `NoDupEdge`: an
even-manifold (an undirected edge with four triangles whose directed copies pair up, e.g.
`MV.C01a.twoTetraEdge`) passes and is handed to `CleanupTopology()` (SplitPinchedVerts +
DedupeEdges, impl.h:544).  `gate_sound` therefore delivers `PairInv` (the hypothesis from which the
C01b theorems about the editing primitives start); `NoDupEdge` is an explicit extra hypothesis where
a closed 2-manifold is concluded.
-/
namespace MV.C09b
open MV.Mesh MV.Halfedge MV.Ingest List

/-- **CreateHalfedges is total and memory-safe on every even soup.**  No checked read / write
faults and no loop runs out of the fuel the entry point gives it:
* `search` (the `while (1)` over `k`, impl.cpp:460-496) gets `numHalfedge + 1 - k₀` and needs at most
  `numHalfedge - k₀` iterations;
* `outer` (impl.cpp:480-489) gets `numHalfedge + 2` and needs at most `|k - (i + numEdge)| + 1`;
* `stepA`/`stepB` (the two `do … while`, impl.cpp:481-487) get `numHalfedge + 2` each and need at
  most `|a - (i + numEdge)| + 1`, resp. `|b - a|`.
Moreover (`SoupResult`) `ids` ends as a permutation of `[0, numHalfedge)`, so the final pairing
writes every slot of `halfedge_` (left uninitialised by `resize_nofill`) exactly once; a removed
halfedge is a complete tombstone `(-1, -1, 0)`; a kept halfedge has the start / prop vertex of the
input and is paired, mutually, with another kept halfedge. -/
theorem createHalfedges_total_safe (ts : List Tri) (heven : ts.length % 2 = 0) :
    ∃ s o, removalState ts = .ok s ∧ createHalfedges ts = .ok o ∧ SoupResult ts s o :=
  createHalfedges_soup ts heven

/-- a tetrahedron with one face flipped: accepted by the ladder, not orientable as given -/
def flippedTetra : List Tri := [(0, 2, 1), (0, 1, 3), (1, 2, 3), (0, 2, 3)]
/-- three triangles around the edge {0,1} plus one more: an edge used three times -/
def tripleEdge : List Tri := [(0, 1, 2), (0, 1, 3), (0, 1, 4), (1, 0, 5)]
/-- every triangle ascending: all 12 halfedges... 8 forward, 4 backward -/
def allAscending : List Tri := [(0, 1, 2), (0, 1, 3), (0, 2, 3), (1, 2, 3)]

example : flippedTetra.length % 2 = 0 ∧ tripleEdge.length % 2 = 0 ∧ allAscending.length % 2 = 0 := by decide

/-- **IsManifold is memory-safe on whatever CreateHalfedges produced** (the three reads through
`pair`, properties.cpp:91-94, are guarded by nothing but `pair != -1`), and its verdict is exactly
`PairInv`. -/
theorem isManifold_total_safe (ts : List Tri) (heven : ts.length % 2 = 0) (o : Out)
    (hc : createHalfedges ts = .ok o) :
    ∃ b, isManifold o = .ok b ∧ (b = true ↔ PairInv o.start o.paired) := by
  obtain ⟨s, o', _, hc', r⟩ := createHalfedges_soup ts heven
  rw [hc] at hc'; cases hc'
  exact isManifold_spec (by rw [r.psize, r.ssize]) r.pairRange

/-- the gate as a whole never faults -/
theorem importGate_total_safe (ts : List Tri) (heven : ts.length % 2 = 0) :
    ∃ o b, createHalfedges ts = .ok o ∧ importGate ts = .ok b ∧
      (b = true ↔ PairInv o.start o.paired) := by
  obtain ⟨s, o, _, hc, r⟩ := createHalfedges_soup ts heven
  obtain ⟨b, hb, hbi⟩ := isManifold_total_safe ts heven o hc
  refine ⟨o, b, hc, ?_, hbi⟩
  unfold importGate; simp only [hc, bind, Except.bind]; exact hb

theorem ids_flippedTetra : sortIds (prep flippedTetra) = #[2, 5, 11, 1, 8, 3, 0, 9, 6, 4, 7, 10] :=
  sortIds_eq _ [2, 5, 11, 1, 8, 3, 0, 9, 6, 4, 7, 10] (by decide +kernel) (by decide +kernel)
example : (importGate flippedTetra).toOption = some false := by
  simp only [importGate, createHalfedges, removalState, ids_flippedTetra]; decide +kernel
theorem ids_tripleEdge : sortIds (prep tripleEdge) = #[9, 2, 5, 8, 11, 0, 3, 6, 10, 1, 4, 7] :=
  sortIds_eq _ [9, 2, 5, 8, 11, 0, 3, 6, 10, 1, 4, 7] (by decide +kernel) (by decide +kernel)
example : (importGate tripleEdge).toOption = some false := by
  simp only [importGate, createHalfedges, removalState, ids_tripleEdge]; decide +kernel
theorem ids_allAscending : sortIds (prep allAscending) = #[2, 5, 8, 11, 0, 3, 6, 1, 9, 4, 7, 10] :=
  sortIds_eq _ [2, 5, 8, 11, 0, 3, 6, 1, 9, 4, 7, 10] (by decide +kernel) (by decide +kernel)
example : (importGate allAscending).toOption = some false := by
  simp only [importGate, createHalfedges, removalState, ids_allAscending]; decide +kernel
theorem ids_tetra : sortIds (prep MV.C01a.tetra) = #[2, 9, 5, 1, 8, 11, 3, 0, 10, 6, 4, 7] :=
  sortIds_eq _ [2, 9, 5, 1, 8, 11, 3, 0, 10, 6, 4, 7] (by decide +kernel) (by decide +kernel)
example : (importGate MV.C01a.tetra).toOption = some true := by
  simp only [importGate, createHalfedges, removalState, ids_tetra]; decide +kernel

/-- **The gate is sound.**  If the constructor goes past `IsManifold()` then the halfedge
structure satisfies `PairInv` (every kept halfedge has exactly one partner, `paired` is an
involution joining opposite directed edges, no triangle repeats a vertex), tombstones are exactly
the halfedges `CreateHalfedges` removed and come by whole triangles, and every kept halfedge `e`
still carries the directed edge of the input and is paired with a kept halfedge carrying the
reversed edge of the input.  So no structure violating `PairInv` escapes with `NoError`. -/
theorem gate_sound (ts : List Tri) (heven : ts.length % 2 = 0) (hg : importGate ts = .ok true) :
    ∃ s o, removalState ts = .ok s ∧ createHalfedges ts = .ok o ∧ PairInv o.start o.paired ∧
      ∀ e, e < 3 * ts.length →
        (s.removed.getD e false = true →
          Tomb o.start o.paired e ∧ s.removed.getD (nextHalfedge e) false = true) ∧
        (s.removed.getD e false = false → ¬ Tomb o.start o.paired e ∧
          s.removed.getD (nextHalfedge e) false = false ∧
          o.start[e]! = ((edgeAt ts e).1 : Int) ∧ endOf o.start e = ((edgeAt ts e).2 : Int) ∧
          ∃ e', e' < 3 * ts.length ∧ e' ≠ e ∧ s.removed.getD e' false = false ∧
            o.paired[e]! = (e' : Int) ∧ o.paired[e']! = (e : Int) ∧
            edgeAt ts e' = ((edgeAt ts e).2, (edgeAt ts e).1)) := by
  obtain ⟨s, o, hs, hc, r⟩ := createHalfedges_soup ts heven
  obtain ⟨b, hb, hbi⟩ := isManifold_total_safe ts heven o hc
  have : b = true := by
    unfold importGate at hg; simp only [hc, bind, Except.bind] at hg
    rw [hb] at hg; cases hg; rfl
  have hpi := hbi.1 this
  exact ⟨s, o, hs, hc, hpi, fun e he => r.of_pairInv hpi e he⟩

/-- **Nothing removed + `NoDupEdge` = a closed oriented 2-manifold.**  When the gate passes, no
halfedge was removed and no directed edge occurs twice (`NoDupEdge`, what `Is2Manifold()` adds), the
input soup itself is `ClosedOriented`, hence (by `MV.C01a.checkMesh_iff` and the relabelling
theorems) a closed oriented 2-manifold over its used vertices. -/
theorem gate_sound_closed (ts : List Tri) (heven : ts.length % 2 = 0) (hg : importGate ts = .ok true)
    (o : Out) (hc : createHalfedges ts = .ok o) (hnd : (dirEdges ts).Nodup)
    (hnt : ∀ e, e < 3 * ts.length → ¬ Tomb o.start o.paired e) : ClosedOriented ts := by
  obtain ⟨s, o', hs, hc', hpi, hall⟩ := gate_sound ts heven hg
  rw [hc] at hc'; cases hc'
  obtain ⟨_, o'', _, hc'', r⟩ := createHalfedges_soup ts heven
  rw [hc] at hc''; cases hc''
  have hlen := length_dirEdges ts
  have alive : ∀ e, e < 3 * ts.length → s.removed.getD e false = false := by
    intro e he
    cases hr : s.removed.getD e false
    · rfl
    · exact absurd ((hall e he).1 hr).1 (hnt e he)
  have edge_mem : ∀ e, e < 3 * ts.length → edgeAt ts e ∈ dirEdges ts := by
    intro e he
    unfold edgeAt
    rw [List.getD_eq_getElem?_getD, List.getElem?_eq_getElem (by omega)]
    exact List.getElem_mem _
  have mem_edge : ∀ d ∈ dirEdges ts, ∃ e, e < 3 * ts.length ∧ edgeAt ts e = d := by
    intro d hd
    obtain ⟨e, he, hed⟩ := List.getElem_of_mem hd
    refine ⟨e, by omega, ?_⟩
    unfold edgeAt
    rw [List.getD_eq_getElem?_getD, List.getElem?_eq_getElem he]; exact hed
  rw [closedOriented_iff_edges]
  refine ⟨?_, hnd, ?_⟩
  · intro d hd
    obtain ⟨e, he, rfl⟩ := mem_edge d hd
    obtain ⟨_, _, h1, h2, _⟩ := (hall e he).2 (alive e he)
    have hg' := (hpi.2.2 e (by rw [r.ssize]; exact he)).resolve_left (hnt e he)
    have := hg'.2.2.2.2.2.1
    rw [h1, h2] at this
    intro heq; apply this; rw [heq]
  · intro a b hab
    obtain ⟨e, he, hed⟩ := mem_edge (a, b) hab
    obtain ⟨_, _, _, _, e', he', _, _, _, _, hrev⟩ := (hall e he).2 (alive e he)
    have := edge_mem e' he'
    rw [hrev, hed] at this
    exact this

/-- non-vacuity of `gate_sound_closed`: the tetrahedron -/
example : MV.C01a.tetra.length % 2 = 0 ∧ (dirEdges MV.C01a.tetra).Nodup := by decide

/--
FULL STATEMENT (completeness): every non-degenerate `Balanced` soup (an even-manifold: as many
copies of `a→b` as of `b→a`) with indices `< 2^31` passes the gate.  NOT proved: it needs the
counting argument that run `j` of the backward half of the sorted `ids` faces run `j` of the forward
half and that the re-pairing loop keeps the runs aligned (the same gap as
`MV.C01a.createHalfedges_pairInv_partial`).

PROVED (`_partial`): every closed oriented 2-manifold passes (in particular the gate rejects no
mesh that satisfies C01). -/
theorem gate_complete_partial (nV : Nat) (ts : List Tri) (h : Closed2Manifold nV ts)
    (hnV : nV ≤ 2 ^ 31) : importGate ts = .ok true := by
  have heven : ts.length % 2 = 0 := (MV.C01a.closed2Manifold_euler h).2.1
  obtain ⟨o, ho, hpi, _⟩ := MV.C01a.createHalfedges_of_closed2Manifold nV ts h hnV
  obtain ⟨b, hb, hbi⟩ := isManifold_total_safe ts heven o ho
  unfold importGate; simp only [ho, bind, Except.bind]
  rw [hb, hbi.2 hpi]

example : Closed2Manifold 4 MV.C01a.tetra ∧ 4 ≤ 2 ^ 31 := by decide

/-- **Composition with C09.**  Whatever MeshGL the validation ladder lets through, the
transliterated `CreateHalfedges` + `IsManifold` run to completion without a fault, and the verdict
the C09 model uses (`isManifoldKept`, stated with `decide PairInv`) IS the verdict of the
transliterated `IsManifold()`: status code 99 of `statusCode` is unreachable. -/
theorem ingest_then_halfedges_safe (sh : MeshShape) (r : Ingested)
    (h : ingest Guards.fixed sh = .ok r) :
    ∃ b, importGate r.kept.triVert.toList = .ok b ∧ isManifoldKept r.kept = some b := by
  have hev : r.kept.triVert.toList.length % 2 = 0 := by
    have := (MV.Ingest.ingest_ok_inv sh r h).2.2.2.2.1
    simpa using this
  obtain ⟨o, b, hc, hg, hbi⟩ := importGate_total_safe _ hev
  refine ⟨b, hg, ?_⟩
  unfold isManifoldKept
  by_cases h0 : r.kept.triVert.size = 0
  · simp only [h0, if_true]
    have : r.kept.triVert.toList = [] := by
      have : r.kept.triVert.toList.length = 0 := by simpa using h0
      exact List.length_eq_zero_iff.1 this
    rw [this] at hg
    have : importGate [] = .ok true := rfl
    rw [this] at hg; cases hg; rfl
  · simp only [h0, if_false, hc]
    congr 1
    cases b
    · have : ¬ PairInv o.start o.paired := fun hp => Bool.noConfusion (hbi.2 hp)
      simp [this]
    · simp [hbi.1 rfl]

theorem statusCode_ne_99 (sh : MeshShape) : (statusCode Guards.fixed sh).1 ≠ 99 := by
  unfold statusCode
  cases h : ingest Guards.fixed sh with
  | err e => cases e <;> simp [Err.code]
  | fault f =>
    have := MV.Ingest.ingest_total_safe sh
    rw [h] at this; exact absurd this (by simp [R.Safe])
  | ok r =>
    obtain ⟨b, _, hk⟩ := ingest_then_halfedges_safe sh r h
    simp only [hk]
    cases b
    · simp
    · simp only [tailCode]; split <;> simp [Err.code]

end MV.C09b
