import MV.Proof.Cow
/-!
# C05 — values never change after creation

Storage level (`MV.Cow`, model of `Vec<T,true>` = SharedVec in /repo/src/vec.h):

* `rc_counts_handles`  — on every accepted trace the STORED reference count of every buffer
  equals the number of live handles pointing at it (`handlesOf` lists them without repetition).
* `cow_safe`           — an accepted event leaves `observe h'` unchanged for every live handle
  `h'` it does not act on; `cow_safe_trace` — along an accepted trace a handle's observation can
  change only at events whose subject it is; `observe_constant` — no such event ⇒ constant.
* `makeUnique_spec`, `share_spec`, `clone_spec`, `move_spec`, `write_spec`, `free_spec`.
* `makeUnique_refines` — the C++ body of MakeUnique (`*this = Vec(view())`, i.e. clone into a
  temporary, release, move back) has the same effect on every observation as the atomic event.
* `monitor_complete_counterexample` — a write with reference count 2 changes another handle's
  observation: the monitor's side condition is necessary.

Object level (`MV.Lazy`): `materialise_observationally_pure` with the commutation hypothesis
explicit; the Manifold leaf satisfies it, the pinned CrossSection does not (defect 12).
-/
namespace MV.Cow
open AMap

/-! ## invariant along accepted traces -/

theorem live_iff (s : State) (h : Handle) : live s h = true ↔ ∃ b, get s.hmap h = some b := by
  unfold live
  cases get s.hmap h <;> simp

theorem not_live_iff (s : State) (h : Handle) : live s h = false ↔ get s.hmap h = none := by
  unfold live
  cases get s.hmap h <;> simp

/-- One accepted event keeps the invariant. -/
theorem inv_step {s : State} (hi : Inv s) (e : Event) (ha : accept s e = true) :
    Inv (step s e) := by
  cases e with
  | alloc h n =>
    simp only [accept, Bool.not_eq_true', not_live_iff] at ha
    exact inv_bindNew hi h _ ha
  | share h h' =>
    simp only [accept, Bool.and_eq_true, Bool.not_eq_true', not_live_iff, live_iff] at ha
    obtain ⟨⟨b, hb⟩, hd⟩ := ha
    obtain ⟨x, hx⟩ := hi.buf_live h b hb
    simp only [step, hb]
    exact inv_bindShare hi h' b x hd hx
  | clone h h' =>
    simp only [accept, Bool.and_eq_true, Bool.not_eq_true', not_live_iff, live_iff] at ha
    obtain ⟨⟨b, hb⟩, hd⟩ := ha
    obtain ⟨x, hx⟩ := hi.buf_live h b hb
    simp only [step, observe, hb, hx, Option.map_some]
    exact inv_bindNew hi h' _ hd
  | makeUnique h =>
    simp only [accept, live_iff] at ha
    obtain ⟨b, hb⟩ := ha
    obtain ⟨x, hx⟩ := hi.buf_live h b hb
    simp only [step]
    by_cases hle : rcH s h ≤ 1
    · simp only [hle, if_true]; exact hi
    · simp only [hle, if_false, observe, hb, hx, Option.map_some]
      refine inv_bindNew (inv_release hi h) h _ ?_
      rw [hmap_release]; simp
  | write h i v => exact (inv_setData hi h (fun d => d.set i v) : Inv (setData s h _))
  | resize h n => exact (inv_setData hi h (fun d => resizeList d n) : Inv (setData s h _))
  | free h => exact (inv_release hi h : Inv (release s h))
  | move h h' =>
    simp only [accept, Bool.and_eq_true, Bool.not_eq_true', not_live_iff, live_iff] at ha
    obtain ⟨⟨b, hb⟩, hd⟩ := ha
    obtain ⟨x, hx⟩ := hi.buf_live h b hb
    simp only [step, hb]
    exact inv_release (inv_bindShare hi h' b x hd hx) h

theorem inv_run {s : State} (hi : Inv s) (es : List Event) (ha : accepted s es = true) :
    Inv (run s es) := by
  induction es generalizing s with
  | nil => exact hi
  | cons e es ih =>
    simp only [accepted, Bool.and_eq_true] at ha
    exact ih (inv_step hi e ha.1) ha.2

/-- The handles listed for a buffer are exactly the live handles pointing at it… -/
theorem mem_handlesOf {s : State} (hi : Inv s) (h : Handle) (b : BufId) :
    h ∈ handlesOf s b ↔ bufOf s h = some b := by
  unfold handlesOf bufOf
  have hn := hi.nodup
  generalize s.hmap = m at hn
  induction m with
  | nil => simp
  | cons p t ih =>
    obtain ⟨k0, v⟩ := p
    obtain ⟨h1, h2⟩ := hn
    rw [get_cons, List.filter_cons]
    by_cases hk : k0 = h
    · subst hk
      by_cases hv : v = b
      · simp [hv]
      · simp only [beq_iff_eq, hv, if_false, if_true, Option.some.injEq, iff_false]
        intro hm
        have := (ih h2).mp hm
        rw [h1] at this; simp at this
    · simp only [hk, if_false]
      by_cases hv : v = b
      · simp only [beq_iff_eq, hv, if_true, List.map_cons, List.mem_cons]
        constructor
        · rintro (e | e)
          · exact absurd e.symm hk
          · exact (ih h2).mp e
        · intro e; exact Or.inr ((ih h2).mpr e)
      · simp only [beq_iff_eq, hv, if_false]
        exact ih h2

/-- …each listed once. -/
theorem handlesOf_nodup {s : State} (hi : Inv s) (b : BufId) : (handlesOf s b).Nodup := by
  unfold handlesOf
  have hn := hi.nodup
  generalize s.hmap = m at hn
  induction m with
  | nil => simp
  | cons p t ih =>
    obtain ⟨k0, v⟩ := p
    obtain ⟨h1, h2⟩ := hn
    rw [List.filter_cons]
    by_cases hv : v = b
    · simp only [beq_iff_eq, hv, if_true, List.map_cons, List.nodup_cons]
      refine ⟨?_, ih h2⟩
      intro hmem
      rw [List.mem_map] at hmem
      obtain ⟨⟨k1, v1⟩, hm, hk⟩ := hmem
      simp only at hk
      subst hk
      have hm' := (List.mem_filter.mp hm).1
      -- k1 occurs in t, so get t k1 ≠ none
      have : ∀ (t : AMap Nat) (k v : Nat), (k, v) ∈ t → get t k ≠ none := by
        intro t
        induction t with
        | nil => intro k v hm; simp at hm
        | cons q t' ih' =>
          obtain ⟨k2, v2⟩ := q
          intro k v hm
          rw [get_cons]
          by_cases hk2 : k2 = k
          · simp [hk2]
          · simp only [hk2, if_false]
            rcases List.mem_cons.mp hm with e | e
            · exact absurd (Prod.mk.inj e).1.symm hk2
            · exact ih' k v e
      exact this t k1 v1 hm' h1
    · simp only [beq_iff_eq, hv, if_false]
      exact ih h2

/-- **rc_counts_handles.** For every trace accepted by the monitor from the empty heap, the
reference count stored in every allocated buffer equals the number of live handles that point
at it (and is at least 1: a buffer nobody points at has been freed). -/
theorem rc_counts_handles (es : List Event) (ha : accepted {} es = true) (b : BufId) (x : Buf)
    (hb : get (run {} es).bufs b = some x) :
    x.rc = (handlesOf (run {} es) b).length ∧ 1 ≤ x.rc := by
  have hi := inv_run inv_init es ha
  refine ⟨?_, hi.rc_pos b x hb⟩
  rw [hi.rc_eq b x hb, refs_eq_filter]
  simp [handlesOf]

example : (handlesOf (run {} [.alloc 0 2, .share 0 1, .share 1 2, .free 0]) 0).length = 2
    ∧ rcOf (run {} [.alloc 0 2, .share 0 1, .share 1 2, .free 0]) 0 = 2 := by decide

/-! ## copy-on-write safety -/

/-- **cow_safe.** In a well-formed heap an event accepted by the monitor leaves every live
handle it does not act on alive and with the same observation. -/
theorem cow_safe {s : State} (hi : Inv s) (e : Event) (ha : accept s e = true)
    (h' : Handle) (hl : live s h' = true) (hs : h' ∉ subjects e) :
    live (step s e) h' = true ∧ observe (step s e) h' = observe s h' := by
  obtain ⟨b', hb'⟩ := (live_iff s h').mp hl
  cases e with
  | alloc h n =>
    simp only [subjects, List.mem_singleton] at hs
    constructor
    · rw [live_iff]; exact ⟨b', by simp [step, hmap_bindNew, hs, hb']⟩
    · simp [step, observe_bindNew hi, hs]
  | share h k =>
    simp only [subjects, List.mem_singleton] at hs
    simp only [accept, Bool.and_eq_true, Bool.not_eq_true', not_live_iff, live_iff] at ha
    obtain ⟨⟨b, hb⟩, _⟩ := ha
    obtain ⟨x, hx⟩ := hi.buf_live h b hb
    simp only [step, hb]
    constructor
    · rw [live_iff]; exact ⟨b', by simp [hmap_bindShare s k b x hx, hs, hb']⟩
    · simp [observe_bindShare s k b x hx, hs]
  | clone h k =>
    simp only [subjects, List.mem_singleton] at hs
    simp only [accept, Bool.and_eq_true, Bool.not_eq_true', not_live_iff, live_iff] at ha
    obtain ⟨⟨b, hb⟩, _⟩ := ha
    obtain ⟨x, hx⟩ := hi.buf_live h b hb
    simp only [step, observe, hb, hx, Option.map_some]
    constructor
    · rw [live_iff]; exact ⟨b', by simp [hmap_bindNew, hs, hb']⟩
    · have := observe_bindNew hi k x.data h'
      simp only [hs, if_false] at this
      simpa [observe] using this
  | makeUnique h =>
    simp only [subjects, List.mem_singleton] at hs
    simp only [accept, live_iff] at ha
    obtain ⟨b, hb⟩ := ha
    obtain ⟨x, hx⟩ := hi.buf_live h b hb
    simp only [step]
    by_cases hle : rcH s h ≤ 1
    · simp only [hle, if_true]
      refine ⟨hl, ?_⟩
      first | rfl | trivial
    · simp only [hle, if_false, observe, hb, hx, Option.map_some]
      constructor
      · rw [live_iff]; exact ⟨b', by simp [hmap_bindNew, hmap_release, hs, hb']⟩
      · have h1 := observe_bindNew (inv_release hi h) h x.data h'
        simp only [hs, if_false] at h1
        have h2 := observe_release hi h h' hs
        simp only [observe] at h1 h2 ⊢
        rw [h1, h2]
  | write h i v =>
    simp only [subjects, List.mem_singleton] at hs
    simp only [accept, Bool.and_eq_true, beq_iff_eq] at ha
    simp only [step]
    constructor
    · unfold live; rw [hmap_setData]; exact hl
    · exact observe_setData_other hi h h' _ hs ha.2
  | resize h n =>
    simp only [subjects, List.mem_singleton] at hs
    simp only [accept, Bool.and_eq_true, beq_iff_eq] at ha
    simp only [step]
    constructor
    · unfold live; rw [hmap_setData]; exact hl
    · exact observe_setData_other hi h h' _ hs ha.2
  | free h =>
    simp only [subjects, List.mem_singleton] at hs
    simp only [step]
    constructor
    · rw [live_iff]; exact ⟨b', by simp [hmap_release, hs, hb']⟩
    · exact observe_release hi h h' hs
  | move h k =>
    simp only [subjects, List.mem_cons, List.not_mem_nil, or_false, not_or] at hs
    simp only [accept, Bool.and_eq_true, Bool.not_eq_true', not_live_iff, live_iff] at ha
    obtain ⟨⟨b, hb⟩, hd⟩ := ha
    obtain ⟨x, hx⟩ := hi.buf_live h b hb
    simp only [step, hb]
    have hi2 := inv_bindShare hi k b x hd hx
    constructor
    · rw [live_iff]
      exact ⟨b', by simp [hmap_release, hmap_bindShare s k b x hx, hs.1, hs.2, hb']⟩
    · rw [observe_release hi2 h h' hs.1, observe_bindShare s k b x hx]
      simp [hs.2]

/-- **cow_safe along a trace**: if no event of an accepted trace has `h` among its subjects,
`h` stays alive and its observation is the same at the end as at the beginning. -/
theorem observe_constant {s : State} (hi : Inv s) (es : List Event) (ha : accepted s es = true)
    (h : Handle) (hl : live s h = true) (hs : ∀ e ∈ es, h ∉ subjects e) :
    live (run s es) h = true ∧ observe (run s es) h = observe s h := by
  induction es generalizing s with
  | nil => exact ⟨hl, rfl⟩
  | cons e es ih =>
    simp only [accepted, Bool.and_eq_true] at ha
    have h1 := cow_safe hi e ha.1 h hl (hs e (List.mem_cons_self ..))
    have h2 := ih (inv_step hi e ha.1) ha.2 h1.1 (fun e' he' => hs e' (List.mem_cons_of_mem _ he'))
    exact ⟨h2.1, h2.2.trans h1.2⟩

/-- From the empty heap: after any accepted prefix `pre`, a live handle's observation is
unchanged by any accepted continuation that does not act on it — "each handle's observation
changes only through its own events". -/
theorem cow_safe_trace (pre es : List Event) (ha : accepted {} (pre ++ es) = true)
    (h : Handle) (hl : live (run {} pre) h = true) (hs : ∀ e ∈ es, h ∉ subjects e) :
    observe (run {} (pre ++ es)) h = observe (run {} pre) h := by
  have split : ∀ (s : State) (a b : List Event), accepted s (a ++ b) = true →
      accepted s a = true ∧ accepted (run s a) b = true ∧ run s (a ++ b) = run (run s a) b := by
    intro s a
    induction a generalizing s with
    | nil => intro b hab; exact ⟨rfl, hab, rfl⟩
    | cons e a ih =>
      intro b hab
      simp only [List.cons_append, accepted, Bool.and_eq_true] at hab
      obtain ⟨h1, h2, h3⟩ := ih (step s e) b hab.2
      exact ⟨by simp [accepted, hab.1, h1], h2, h3⟩
  obtain ⟨h1, h2, h3⟩ := split {} pre es ha
  rw [h3]
  exact (observe_constant (inv_run inv_init pre h1) es h2 h hl hs).2

example : observe (run {} ([.alloc 0 3, .share 0 1] ++ [.makeUnique 0, .write 0 1 7, .free 0])) 1
    = observe (run {} [.alloc 0 3, .share 0 1]) 1 := by decide

/-! ## specifications of the individual events -/

/-- **makeUnique_spec.** Afterwards the handle's buffer has reference count 1, the handle's
contents are what they were, and (by `cow_safe`) nobody else's changed. -/
theorem makeUnique_spec {s : State} (hi : Inv s) (h : Handle) (hl : live s h = true) :
    rcH (step s (.makeUnique h)) h = 1 ∧
    observe (step s (.makeUnique h)) h = observe s h ∧
    ∀ h', live s h' = true → h' ≠ h → observe (step s (.makeUnique h)) h' = observe s h' := by
  obtain ⟨b, hb⟩ := (live_iff s h).mp hl
  obtain ⟨x, hx⟩ := hi.buf_live h b hb
  refine ⟨?_, ?_, ?_⟩
  · simp only [step]
    by_cases hle : rcH s h ≤ 1
    · simp only [hle, if_true]
      have h1 := hi.rc_pos b x hx
      simp only [rcH, hb, rcOf, hx] at hle ⊢
      omega
    · simp only [hle, if_false, observe, hb, hx, Option.map_some]
      simp [rcH, rcOf, bindNew, get_set]
  · simp only [step]
    by_cases hle : rcH s h ≤ 1
    · simp only [hle, if_true]
    · simp only [hle, if_false]
      have hobs : observe s h = some x.data := by simp [observe, hb, hx]
      rw [hobs]
      simp only
      rw [observe_bindNew (inv_release hi h)]
      simp
  · intro h' hl' hne
    exact (cow_safe hi (.makeUnique h) (by simpa [accept] using hl) h' hl'
      (by simpa [subjects] using hne)).2

example : rcH (step (run {} [.alloc 0 2, .share 0 1]) (.makeUnique 1)) 1 = 1
    ∧ rcH (run {} [.alloc 0 2, .share 0 1]) 1 = 2 := by decide

/-- **share_spec.** `h' := h` (copy-assign into a dead handle): both handles now name the same
buffer, its count went up by one, and both read what `h` read before. -/
theorem share_spec {s : State} (hi : Inv s) (h h' : Handle)
    (ha : accept s (.share h h') = true) :
    bufOf (step s (.share h h')) h' = bufOf s h ∧
    bufOf (step s (.share h h')) h = bufOf s h ∧
    rcH (step s (.share h h')) h' = rcH s h + 1 ∧
    observe (step s (.share h h')) h' = observe s h ∧
    observe (step s (.share h h')) h = observe s h := by
  simp only [accept, Bool.and_eq_true, Bool.not_eq_true', not_live_iff, live_iff] at ha
  obtain ⟨⟨b, hb⟩, hd⟩ := ha
  obtain ⟨x, hx⟩ := hi.buf_live h b hb
  have hne : h ≠ h' := by intro e; rw [e, hd] at hb; simp at hb
  simp only [step, hb, bufOf]
  refine ⟨?_, ?_, ?_, ?_, ?_⟩
  · simp [hmap_bindShare s h' b x hx]
  · simp [hmap_bindShare s h' b x hx, hne, hb]
  · simp [rcH, hb, rcOf, bindShare, hx, get_set]
  · rw [observe_bindShare s h' b x hx]; simp [observe, hb, hx]
  · rw [observe_bindShare s h' b x hx]; simp [hne]

example : observe (run {} [.alloc 0 2, .write 0 1 5, .share 0 1]) 1 = some [0, 5] := by decide

/-- **clone_spec.** The copy constructor: `h'` gets a private buffer with `h`'s contents. -/
theorem clone_spec {s : State} (hi : Inv s) (h h' : Handle)
    (ha : accept s (.clone h h') = true) :
    observe (step s (.clone h h')) h' = observe s h ∧ rcH (step s (.clone h h')) h' = 1 ∧
    observe (step s (.clone h h')) h = observe s h := by
  simp only [accept, Bool.and_eq_true, Bool.not_eq_true', not_live_iff, live_iff] at ha
  obtain ⟨⟨b, hb⟩, hd⟩ := ha
  obtain ⟨x, hx⟩ := hi.buf_live h b hb
  have hne : h ≠ h' := by intro e; rw [e, hd] at hb; simp at hb
  have hobs : observe s h = some x.data := by simp [observe, hb, hx]
  simp only [step, hobs]
  refine ⟨?_, ?_, ?_⟩
  · rw [observe_bindNew hi]; simp
  · simp [rcH, rcOf, bindNew, get_set]
  · rw [observe_bindNew hi]; simp [hne, hobs]

/-- **move_spec.** `h'` takes over `h`'s buffer: it reads what `h` read, `h` is dead, and the
buffer's count is unchanged. -/
theorem move_spec {s : State} (hi : Inv s) (h h' : Handle)
    (ha : accept s (.move h h') = true) :
    observe (step s (.move h h')) h' = observe s h ∧ live (step s (.move h h')) h = false ∧
    rcH (step s (.move h h')) h' = rcH s h := by
  simp only [accept, Bool.and_eq_true, Bool.not_eq_true', not_live_iff, live_iff] at ha
  obtain ⟨⟨b, hb⟩, hd⟩ := ha
  obtain ⟨x, hx⟩ := hi.buf_live h b hb
  have hne : h' ≠ h := by intro e; rw [e, hb] at hd; simp at hd
  have hi2 := inv_bindShare hi h' b x hd hx
  simp only [step, hb]
  refine ⟨?_, ?_, ?_⟩
  · rw [observe_release hi2 h h' hne, observe_bindShare s h' b x hx]
    simp [observe, hb, hx]
  · rw [not_live_iff, hmap_release]; simp
  · have hg : get (bindShare s h' b).hmap h = some b := by
      rw [hmap_bindShare s h' b x hx]; simp [hne.symm, hb]
    have hxb : get (bindShare s h' b).bufs b = some { x with rc := x.rc + 1 } := by
      simp [bindShare, hx, get_set]
    have hrel : get (release (bindShare s h' b) h).bufs b = some x := by
      simp only [release, hg, hxb]
      have := hi.rc_pos b x hx
      have hle : ¬ x.rc + 1 ≤ 1 := by omega
      simp [hle, get_set]
    simp only [rcH, hmap_release, hne, if_false, hmap_bindShare s h' b x hx, if_true, rcOf,
      hrel, hb, hx]

/-- **write_spec / resize_spec.** What the acting handle itself sees. -/
theorem write_spec (s : State) (h : Handle) (i : Nat) (v : Int) :
    observe (step s (.write h i v)) h = (observe s h).map (fun d => d.set i v) :=
  observe_setData_self s h _

theorem resize_spec (s : State) (h : Handle) (n : Nat) :
    observe (step s (.resize h n)) h = (observe s h).map (fun d => resizeList d n) :=
  observe_setData_self s h _

/-- **free_spec.** The handle is dead afterwards; the buffer survives iff somebody else still
points at it (that is `cow_safe` for the others). -/
theorem free_spec (s : State) (h : Handle) : live (step s (.free h)) h = false := by
  rw [not_live_iff]; simp [step, hmap_release]

/-- **makeUnique_refines.** What `Vec::MakeUnique` really executes when the count is above 1 —
`*this = Vec<T,true>(this->view())`: deep-copy into a temporary `t`, release `h`, move `t` into
`h` — is accepted by the monitor and gives every handle other than the temporary the same
observation, liveness and reference count as the atomic `makeUnique h`. -/
theorem makeUnique_refines {s : State} (hi : Inv s) (h t : Handle) (hl : live s h = true)
    (ht : live s t = false) (hshared : 1 < rcH s h) :
    accepted s [.clone h t, .free h, .move t h] = true ∧
    ∀ k, k ≠ t →
      observe (run s [.clone h t, .free h, .move t h]) k = observe (step s (.makeUnique h)) k ∧
      live (run s [.clone h t, .free h, .move t h]) k = live (step s (.makeUnique h)) k := by
  obtain ⟨b, hb⟩ := (live_iff s h).mp hl
  obtain ⟨x, hx⟩ := hi.buf_live h b hb
  have htn := (not_live_iff s t).mp ht
  have hne : h ≠ t := by intro e; rw [e, htn] at hb; simp at hb
  have hobs : observe s h = some x.data := by simp [observe, hb, hx]
  have a1 : accept s (.clone h t) = true := by simp [accept, hl, ht]
  have i1 := inv_step hi _ a1
  have l1 : live (step s (.clone h t)) h = true :=
    (cow_safe hi _ a1 h hl (by simpa [subjects] using hne)).1
  have a2 : accept (step s (.clone h t)) (.free h) = true := by simpa [accept] using l1
  have i2 := inv_step i1 _ a2
  have lt1 : live (step s (.clone h t)) t = true := by
    rw [live_iff]; simp [step, hobs, hmap_bindNew]
  have lt2 : live (step (step s (.clone h t)) (.free h)) t = true :=
    (cow_safe i1 _ a2 t lt1 (by simpa [subjects] using hne.symm)).1
  have lh2 : live (step (step s (.clone h t)) (.free h)) h = false := free_spec _ h
  have a3 : accept (step (step s (.clone h t)) (.free h)) (.move t h) = true := by
    simp [accept, lt2, lh2]
  refine ⟨by simp [accepted, a1, a2, a3], ?_⟩
  intro k hk
  have hmu : step s (.makeUnique h) = bindNew (release s h) h x.data := by
    have : ¬ rcH s h ≤ 1 := by omega
    simp [step, this, hobs]
  simp only [run]
  have m3 := move_spec i2 t h a3
  by_cases hkh : k = h
  · subst hkh
    -- the acting handle: reads its old contents in both
    constructor
    · rw [m3.1]
      have c2 := cow_safe i1 _ a2 t lt1 (by simpa [subjects] using hne.symm)
      rw [c2.2, (clone_spec hi k t a1).1, (makeUnique_spec hi k hl).2.1]
    · have : live (step s (.makeUnique k)) k = true := by
        rw [hmu, live_iff]; exact ⟨(release s k).next, by simp [hmap_bindNew]⟩
      rw [this, live_iff]
      simp only [step]
      obtain ⟨bt, hbt⟩ := (live_iff _ t).mp lt2
      simp only [step] at hbt
      rw [hbt]
      obtain ⟨y, hy⟩ := i2.buf_live t bt hbt
      simp only [step] at hy
      refine ⟨bt, ?_⟩
      rw [hmap_release, hmap_bindShare _ k bt y hy]
      simp [hne]
  · -- a bystander: unchanged by all of it, on both sides
    have hside : ∀ (hlk : live s k = true),
        observe (step (step (step s (.clone h t)) (.free h)) (.move t h)) k = observe s k ∧
        live (step (step (step s (.clone h t)) (.free h)) (.move t h)) k = true := by
      intro hlk
      have c1 := cow_safe hi _ a1 k hlk (by simpa [subjects] using hk)
      have c2 := cow_safe i1 _ a2 k c1.1 (by simpa [subjects] using hkh)
      have c3 := cow_safe i2 _ a3 k c2.1 (by simp [subjects, hk, hkh])
      exact ⟨by rw [c3.2, c2.2, c1.2], c3.1⟩
    cases hlk : live s k with
    | true =>
      have cm := cow_safe hi (.makeUnique h) (by simpa [accept] using hl) k hlk
        (by simpa [subjects] using hkh)
      exact ⟨by rw [(hside hlk).1, cm.2], by rw [(hside hlk).2, cm.1]⟩
    | false =>
      -- dead before, dead after, on both sides
      have hkn := (not_live_iff s k).mp hlk
      have d1 : get (step (step (step s (.clone h t)) (.free h)) (.move t h)).hmap k = none := by
        obtain ⟨bt, hbt⟩ := (live_iff _ t).mp lt2
        obtain ⟨y, hy⟩ := i2.buf_live t bt hbt
        simp only [step] at hbt hy ⊢
        rw [hbt, hmap_release, hmap_bindShare _ h bt y hy]
        simp only [hk, hkh, if_false]
        rw [hmap_release]
        simp only [hkh, if_false, hobs]
        rw [hmap_bindNew]
        simp [hk, hkn]
      have d2 : get (step s (.makeUnique h)).hmap k = none := by
        rw [hmu, hmap_bindNew, hmap_release]; simp [hkh, hkn]
      constructor
      · simp only [observe, d1, d2]
      · simp only [live, d1, d2]

example : accepted (run {} [.alloc 0 2, .share 0 1]) [.clone 1 9, .free 1, .move 9 1] = true
    ∧ observe (run (run {} [.alloc 0 2, .share 0 1]) [.clone 1 9, .free 1, .move 9 1]) 1
      = observe (step (run {} [.alloc 0 2, .share 0 1]) (.makeUnique 1)) 1 := by decide

/-! ## the monitor's side condition is necessary -/

/-- **monitor_complete_counterexample.** `write` while the buffer's reference count is 2: the
monitor rejects it, `step` (the release build, `AssertUnique` compiled out) performs it, and the
OTHER handle's observation changes. -/
example :
    let s := run {} [.alloc 0 2, .share 0 1]
    rcH s 0 = 2 ∧ accept s (.write 0 0 7) = false ∧
    observe s 1 = some [0, 0] ∧ observe (step s (.write 0 0 7)) 1 = some [7, 0] := by decide

theorem monitor_complete_counterexample :
    ∃ (s : State) (h h' : Handle) (i : Nat) (v : Int), Inv s ∧ live s h' = true ∧ h' ≠ h ∧
      accept s (.write h i v) = false ∧ observe (step s (.write h i v)) h' ≠ observe s h' := by
  refine ⟨run {} [.alloc 0 2, .share 0 1], 0, 1, 0, 7,
    inv_run inv_init _ (by decide), by decide, by decide, by decide, by decide⟩

/-- the same for a structural change (`resize`/`push_back`/`clear` on a shared vector) -/
example :
    let s := run {} [.alloc 0 2, .share 0 1]
    accept s (.resize 0 0) = false ∧ observe (step s (.resize 0 0)) 1 = some [] := by decide

/-- and with `makeUnique` first the same write is accepted and harmless -/
example :
    let s := run {} [.alloc 0 2, .share 0 1, .makeUnique 0]
    accept s (.write 0 0 7) = true ∧ observe (step s (.write 0 0 7)) 1 = some [0, 0]
      ∧ observe (step s (.write 0 0 7)) 0 = some [7, 0] := by decide

end MV.Cow

/-! ## object level: lazy materialisation is unobservable -/
namespace MV.Lazy

variable {P T E V : Type}

/-- The laws `GetImpl`/`GetPaths` rely on: applying / rescaling by the identity transform
does nothing (`if (transform_ == identity) return`). -/
structure Laws (o : Ops P T E) : Prop where
  apply_ident : ∀ p, o.apply o.ident p = p
  rescale_ident : ∀ e, o.rescale o.ident e = e

theorem materialise_idem (o : Ops P T E) (L : Laws o) (x : Obj P T E) :
    materialise o (materialise o x) = materialise o x := by
  simp [materialise, L.apply_ident, L.rescale_ident]

theorem denote_materialise (o : Ops P T E) (L : Laws o) (x : Obj P T E) :
    denote o (materialise o x) = denote o x := by
  simp [denote, materialise, L.apply_ident, L.rescale_ident]

/-- a getter commutes with materialisation -/
def Pure (o : Ops P T E) (g : Obj P T E → V) : Prop := ∀ x, g (materialise o x) = g x

/-- a getter that materialises first (`GetCsgLeafNode().GetImpl()->…`) is pure -/
theorem pure_of_materialise_first (o : Ops P T E) (L : Laws o) (g₀ : Obj P T E → V) :
    Pure o (fun x => g₀ (materialise o x)) := by
  intro x
  simp only [materialise_idem o L]

/-- a getter that only reads the denotation is pure -/
theorem pure_of_denote (o : Ops P T E) (L : Laws o) (g₀ : P × E → V) :
    Pure o (fun x => g₀ (denote o x)) := by
  intro x
  simp only [denote_materialise o L]

/-- **materialise_observationally_pure.** If every getter of an interface commutes with
`materialise` (hypothesis `hp`, e.g. because it materialises first: `pure_of_materialise_first`),
then no number of materialisations — caused by whatever calls happened in between — changes the
value of any getter: the whole observation tuple is constant. -/
theorem materialise_observationally_pure (o : Ops P T E) {ι : Type} (getters : ι → Obj P T E → V)
    (hp : ∀ i, Pure o (getters i)) (n : Nat) (x : Obj P T E) (i : ι) :
    getters i (materialiseN o n x) = getters i x := by
  induction n generalizing x with
  | zero => rfl
  | succ n ih => rw [materialiseN, ih, hp i]

/-- …and such an interface cannot tell two representations of the same value apart, provided
the getters materialise first. -/
theorem same_denotation_same_observation (o : Ops P T E) (g₀ : Obj P T E → V)
    (x y : Obj P T E) (h : denote o x = denote o y) :
    g₀ (materialise o x) = g₀ (materialise o y) := by
  have : materialise o x = materialise o y := by
    simp only [denote, Prod.mk.injEq] at h
    simp [materialise, h.1, h.2]
  rw [this]

/-! ### instance 1: the Manifold leaf (src/csg_tree.cpp:97-112, src/manifold.cpp)

`CsgLeafNode` = (`pImpl_`, `transform_`); tolerance, bounding box, … all live INSIDE the Impl
and are transformed by `Impl::Transform`, so there is no scalar next to the payload
(`E = Unit`).  Every public getter of `Manifold` is `GetCsgLeafNode().GetImpl()->…`, i.e. of
the form `g₀ ∘ materialise`; hence it is pure for ANY payload/transform types and laws. -/
theorem manifold_leaf_getters_pure (o : Ops P T Unit) (L : Laws o) {ι : Type}
    (g₀ : ι → Obj P T Unit → V) (n : Nat) (x : Obj P T Unit) (i : ι) :
    g₀ i (materialise o (materialiseN o n x)) = g₀ i (materialise o x) :=
  materialise_observationally_pure o (fun i x => g₀ i (materialise o x))
    (fun i => pure_of_materialise_first o L (g₀ i)) n x i

/-- a toy leaf: payload = list of vertex coordinates, transform = scale factor -/
def leafOps : Ops (List Int) Int Unit :=
  { ident := 1, apply := fun k p => p.map (k * ·), rescale := fun _ e => e }

theorem leafOps_laws : Laws leafOps :=
  ⟨by intro p; simp [leafOps], by intro e; rfl⟩

example : (fun x : Obj (List Int) Int Unit => (materialise leafOps x).payload.length)
      (materialiseN leafOps 3 ⟨[1, 2, 3], 5, ()⟩)
    = (materialise leafOps ⟨[1, 2, 3], 5, ()⟩).payload.length := by decide

/-! ### instance 2: CrossSection on the pinned tree (src/cross_section.cpp:324-339, 659)

`GetPaths()` sets `tolerance_ = max(‖transform_‖ · tolerance_, …)` when it materialises, but
`GetTolerance()` is `return tolerance_;` — it reads the scalar WITHOUT materialising.  With
integers standing in for the doubles (transform = scale factor k, rescale = k · tol): -/
def csOps : Ops (List Int) Int Int :=
  { ident := 1, apply := fun k p => p.map (k * ·), rescale := fun k e => k * e }

theorem csOps_laws : Laws csOps :=
  ⟨by intro p; simp [csOps], by intro e; simp [csOps]⟩

/-- `double CrossSection::GetTolerance() const { return tolerance_; }`  (pinned) -/
def getTolerancePinned (x : Obj (List Int) Int Int) : Int := x.extra
/-- `GetPaths(); return tolerance_;`  (after fix_C05_cross_section_tolerance) -/
def getToleranceFixed (x : Obj (List Int) Int Int) : Int := (materialise csOps x).extra

/-- Defect 12: `Square.Scale(10)` reports tolerance 1 before and 10 after an unrelated
`ToPolygons()` — the pinned getter violates the hypothesis of
`materialise_observationally_pure`. -/
example : getTolerancePinned ⟨[0, 1], 10, 1⟩ = 1
    ∧ getTolerancePinned (materialise csOps ⟨[0, 1], 10, 1⟩) = 10 := by decide

theorem crossSection_pinned_getTolerance_not_pure : ¬ Pure csOps getTolerancePinned := by
  intro h
  have := h ⟨[0, 1], 10, 1⟩
  revert this
  decide

/-- The repaired getter materialises first, so it is pure. -/
theorem crossSection_fixed_getTolerance_pure : Pure csOps getToleranceFixed :=
  pure_of_materialise_first csOps csOps_laws (fun x => x.extra)

example : getToleranceFixed ⟨[0, 1], 10, 1⟩ = 10
    ∧ getToleranceFixed (materialise csOps ⟨[0, 1], 10, 1⟩) = 10 := by decide

end MV.Lazy
