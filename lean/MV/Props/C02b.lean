/-
Property C02 where it meets C01 — the ASSEMBLY of the Boolean result is combinatorially sound.

Model: `MV/Model/BoolAssembly.lean` (line-by-line from src/boolean_result.cpp `PairUp`,
`AddNewEdgeVerts`, `AppendPartialEdges`, `AppendNewEdges`, `DuplicateHalfedges`, `SizeOutput`, and
src/boolean3.cpp `Winding03_`); replayed against the real code on every run by
harness/c02_assembly.cpp through the MANIFOLD_VERIF hook `onBoolAsm` (engine `boolasm`).

Proved here, for ALL inputs:

* `pairUp_pairs_all`       under `PairUp`'s own precondition (even size, as many starts as ends) and for
                           EVERY `std::partition` meeting the standard's contract: exactly `size/2` halfedges
                           are emitted, every entry is used exactly once, every halfedge runs from a start
                           entry to an end entry, and start `i` of the key order meets end `i` of the key order;
  `stdPartition_meets_contract`  libstdc++'s `__partition` (the one the replay runs) meets that contract.
* `partialEdge_balance`    if the winding number of the other operand at the end vertex of an edge is the one
                           at its start vertex minus the crossing numbers `x12` met on the way (what
                           `inclusion_coboundary`/`keepNew_is_jump` of MV/Props/C02.lean say a consistent
                           `w03, x12` satisfies), then the vector `AppendPartialEdges` hands to `PairUp` has
                           as many starts as ends — for every affine keeping rule, hence for the three
                           OpTypes, for P and for Q, and for all multiplicities.
* `sizeOutput_matches_emitted`  cursors started at the exclusive scan of the per-face counts: for EVERY order
                           of the `facePtr[f]++` / `AtomicAdd` fetches, every fetch lands inside its face's
                           reserved range, no slot is obtained twice, every slot is obtained, every cursor ends
                           at the start of the next face; `emitted_any_schedule`: the halfedges that land in a
                           face's range are the same for every schedule; `emitEvents_is_fetch`,
                           `emitEvents_paired`: the sequential model the replay runs is one such order and writes
                           mutually paired, reversed halfedges.
* `winding03_component_constant`  the flood fill gives every vertex the seed of its component's root, whatever
                           the traversal order (repeats allowed), constant on the components of the unbroken
                           edges; `winding03_true`: if the true winding is constant along unbroken edges and the
                           seeds are right at the roots, every `w03` is right.

NOT proved (decided per run by the replay and the oracle of harness/c02_assembly.cpp): that
`SizeOutput`'s per-face counts equal the number of fetches the Append* phases perform on that face
(the double-counting identity needs every vector to be balanced and the operand meshes to be
paired; the run compares `facePtrR` with `faceEdge` face by face), that each face's boundary is
closed, and the geometric hypothesis of `partialEdge_balance` (it is what `Kernel02/Kernel12`
must deliver; the run checks `#starts = #ends` on every vector).
-/
import MV.Proof.BoolAsmWinding
import MV.Proof.BoolAsmPair
import MV.Props.C02
import Mathlib.Data.Finset.Card
import Mathlib.Data.Finset.Range
import Mathlib.Data.List.Nodup

namespace MV.BoolAsm.C02b
open MV.BoolAsm MV.Bool3 MV.Dsu

/-! ## 1. PairUp -/

/-- **`pairUp_pairs_all`** -/
theorem pairUp_pairs_all (part : List EdgePos → List EdgePos) (hc : PartitionContract part)
    (es : List EdgePos) (hpre : pairUpPre es = true) :
    ∃ Ss Es : List EdgePos,
      -- the starts and the ends, each in key order (`operator<`: edgePos, then collisionId)
      Ss.Perm (es.filter (·.isStart)) ∧ Es.Perm (es.filter fun e => !e.isStart) ∧
      Ss.Pairwise (fun a b => EdgePos.le a b = true) ∧ Es.Pairwise (fun a b => EdgePos.le a b = true) ∧
      Ss.length = es.length / 2 ∧ Es.length = es.length / 2 ∧
      -- halfedge i goes from start i to end i
      pairUpWith part es = List.zip (Ss.map (·.vert)) (Es.map (·.vert)) ∧
      (pairUpWith part es).length = es.length / 2 ∧
      -- every entry is used exactly once
      ((pairUpWith part es).map (·.1) ++ (pairUpWith part es).map (·.2)).Perm (es.map (·.vert)) := by
  obtain ⟨S, E, _, hS, hE, hSl, hEl, heq⟩ := pairUpWith_eq part hc es hpre
  have l1 : ((stableSort S).map (·.vert)).length = es.length / 2 := by simp [stableSort_length, hSl]
  have l2 : ((stableSort E).map (·.vert)).length = es.length / 2 := by simp [stableSort_length, hEl]
  refine ⟨stableSort S, stableSort E, (stableSort_perm S).trans hS, (stableSort_perm E).trans hE,
    stableSort_sorted S, stableSort_sorted E, by rw [stableSort_length, hSl],
    by rw [stableSort_length, hEl], heq, ?_, ?_⟩
  · rw [heq, List.length_zip, l1, l2, Nat.min_self]
  · rw [heq, List.map_fst_zip (by omega), List.map_snd_zip (by omega)]
    have p1 : ((stableSort S).map (·.vert)).Perm ((es.filter (·.isStart)).map (·.vert)) :=
      ((stableSort_perm S).trans hS).map _
    have p2 : ((stableSort E).map (·.vert)).Perm ((es.filter fun e => !e.isStart).map (·.vert)) :=
      ((stableSort_perm E).trans hE).map _
    refine (p1.append p2).trans ?_
    rw [← List.map_append]
    exact (List.filter_append_perm (·.isStart) es).map _

/-- the partition the driver runs (libstdc++ `std::__partition`, bidirectional) meets the contract -/
theorem stdPartition_meets_contract : PartitionContract (stdPartition (·.isStart)) :=
  stdPartition_contract

/-- … so the statement holds for `pairUp`, the function replayed against the real `PairUp` -/
theorem pairUp_length (es : List EdgePos) (hpre : pairUpPre es = true) :
    (pairUp es).length = es.length / 2 := by
  obtain ⟨_, _, _, _, _, _, _, _, _, h, _⟩ := pairUp_pairs_all _ stdPartition_contract es hpre
  exact h

/-- non-vacuity: two crossings, one retained start vertex, one retained end vertex: the
precondition holds, so the theorem applies with libstdc++'s partition (the driver evaluates this
vector to `[(13, 11), (10, 12)]`) -/
example : pairUpPre [⟨5, 10, 0, true⟩, ⟨3, 11, 1, false⟩, ⟨9, 12, intMax, false⟩, ⟨1, 13, 2, true⟩] = true := by
  decide

example : (pairUp [⟨5, 10, 0, true⟩, ⟨3, 11, 1, false⟩, ⟨9, 12, intMax, false⟩, ⟨1, 13, 2, true⟩]).length = 2 :=
  pairUp_length _ (by decide)

/-! ## 2. balance of a partially kept edge -/

/-- **`partialEdge_balance`**, general form: `c + c3·w` is the keeping rule (`c1 + c3·w03` for P,
`c2 + c3·w30` for Q), `xs` the crossing numbers `x12` of the collisions `cs` on this edge (in any
order), `wS` the other operand's winding number at the start vertex, and the hypothesis `hwE` that
the winding number at the end vertex is `wS − Σ xs`. -/
theorem partialEdge_balance_affine (c c3 wS wE : Int) (cs : List Coll) (xs : List Int)
    (hx : cs.map (·.incl) = xs.map fun x => c3 * x) (hwE : wE = wS - xs.sum) (vS vE : Nat)
    (keys : List Int)
    (hk : keys.length = (partialEntries (crossingEntries cs) vS vE (c + c3 * wS) (c + c3 * wE)).length) :
    pairUpPre (withKeys (partialEntries (crossingEntries cs) vS vE (c + c3 * wS) (c + c3 * wE)) keys) = true := by
  rw [pairUpPre_withKeys _ _ hk]
  apply length_even_of_signed_zero
  rw [signed_partialEntries, signed_crossingEntries, hx, hwE, keep_along]
  omega

/-- **`partialEdge_balance`** for an edge of P under the three OpTypes: `i03 = keepP op w03`,
`i12 = keepNew op x12` (the generated constants of `Boolean3::Result`). -/
theorem partialEdge_balance (op : OpType) (wS : Int) (cs : List Coll) (xs : List Int)
    (hx : cs.map (·.incl) = xs.map (keepNew op)) (vS vE : Nat) (keys : List Int)
    (hk : keys.length =
      (partialEntries (crossingEntries cs) vS vE (keepP op wS) (keepP op (wS - xs.sum))).length) :
    pairUpPre (withKeys (partialEntries (crossingEntries cs) vS vE (keepP op wS) (keepP op (wS - xs.sum))) keys)
      = true :=
  partialEdge_balance_affine (c1 op) (c3 op) wS (wS - xs.sum) cs xs hx rfl vS vE keys hk

/-- the same for an edge of Q (`i30 = keepQ op w30`, `i21 = keepNew op x21`) -/
theorem partialEdge_balance_Q (op : OpType) (wS : Int) (cs : List Coll) (xs : List Int)
    (hx : cs.map (·.incl) = xs.map (keepNew op)) (vS vE : Nat) (keys : List Int)
    (hk : keys.length =
      (partialEntries (crossingEntries cs) vS vE (keepQ op wS) (keepQ op (wS - xs.sum))).length) :
    pairUpPre (withKeys (partialEntries (crossingEntries cs) vS vE (keepQ op wS) (keepQ op (wS - xs.sum))) keys)
      = true :=
  partialEdge_balance_affine (c2 op) (c3 op) wS (wS - xs.sum) cs xs hx rfl vS vE keys hk

/-- the hypothesis is the jump law of MV/Props/C02.lean iterated along the edge: one crossing -/
theorem balance_hypothesis_is_jump (op : OpType) (wQ x : Int) :
    keepP op (wQ - x) = keepP op wQ - keepNew op x := by
  have := (MV.Bool3.C02.keepNew_is_jump op wQ (-x)).1
  have e : wQ + -x = wQ - x := by omega
  rw [e] at this; rw [this]; unfold keepNew; rw [Int.mul_neg]; omega

/-- non-vacuity: `A − B`, an edge of A that starts outside B (w03 = 0, kept once), enters B
(x12 = −1: the winding rises to 1) and ends inside (not kept): one start (the vertex), one end
(the new vertex) — the hypotheses of `partialEdge_balance` are satisfiable. -/
example : pairUpPre (withKeys (partialEntries (crossingEntries [⟨7, 3, keepNew .subtract (-1), 20, 0⟩]) 4 9
    (keepP .subtract 0) (keepP .subtract (0 - [(-1 : Int)].sum))) [0, 5]) = true :=
  partialEdge_balance .subtract 0 [⟨7, 3, keepNew .subtract (-1), 20, 0⟩] [-1] (by decide) 4 9 [0, 5]
    (by rw [partialEntries_length]; decide)

/-! ## 3. cursors: reserved = written, for every schedule -/

/-- the per-face counts `SizeOutput` must reserve for the fetch sequence `fs` -/
def counts (nF : Nat) (fs : List Nat) : List Nat := (List.range nF).map fun f => fs.count f

theorem counts_getD (nF : Nat) (fs : List Nat) (f : Nat) (hf : f < nF) :
    (counts nF fs).getD f 0 = fs.count f := by
  unfold counts
  rw [List.getD_eq_getElem?_getD, List.getElem?_map, List.getElem?_range hf]; rfl

theorem counts_perm (nF : Nat) {fs fs' : List Nat} (h : fs'.Perm fs) : counts nF fs' = counts nF fs := by
  unfold counts; congr 1; funext f; exact h.count_eq f

theorem sum_indicator (a : Nat) : ∀ n, ((List.range n).map fun f => if a = f then 1 else 0).sum = if a < n then 1 else 0 := by
  intro n
  induction n with
  | zero => simp
  | succ n ih =>
    rw [List.range_succ, List.map_append, List.sum_append, ih]
    simp only [List.map_cons, List.map_nil, List.sum_cons, List.sum_nil]
    by_cases h1 : a < n
    · have : a ≠ n := by omega
      simp [h1, this]; omega
    · by_cases h2 : a = n
      · simp [h2]
      · have : ¬ a < n + 1 := by omega
        simp [h1, h2, this]

theorem counts_sum (nF : Nat) (fs : List Nat) (hf : ∀ f ∈ fs, f < nF) : (counts nF fs).sum = fs.length := by
  induction fs with
  | nil => simp [counts]
  | cons a fs ih =>
    have ha : a < nF := hf a (List.mem_cons_self ..)
    have ih' := ih (fun f h => hf f (List.mem_cons_of_mem _ h))
    unfold counts at ih' ⊢
    have : ((List.range nF).map fun f => (a :: fs).count f) =
        (List.range nF).map fun f => fs.count f + if a = f then 1 else 0 := by
      apply List.map_congr_left; intro f _
      rw [List.count_cons]; by_cases h : a = f <;> simp [h]
    rw [this]
    have hadd : ∀ (l : List Nat) (g h : Nat → Nat), (l.map fun f => g f + h f).sum = (l.map g).sum + (l.map h).sum := by
      intro l g h; induction l with
      | nil => simp
      | cons x xs ih2 => simp only [List.map_cons, List.sum_cons, ih2]; omega
    rw [hadd, ih', sum_indicator, if_pos ha, List.length_cons]

theorem count_take_lt (fs : List Nat) (k : Nat) (hk : k < fs.length) :
    (fs.take k).count (fs.getD k 0) < (fs.take (k + 1)).count (fs.getD k 0) := by
  have : fs.take (k + 1) = fs.take k ++ [fs.getD k 0] := by
    rw [List.take_add_one, List.getD_eq_getElem?_getD, List.getElem?_eq_getElem hk]; rfl
  rw [this, List.count_append]; simp

theorem count_take_mono (fs : List Nat) (g j k : Nat) (h : j ≤ k) : (fs.take j).count g ≤ (fs.take k).count g := by
  have : fs.take j = (fs.take k).take j := by rw [List.take_take, Nat.min_eq_left h]
  rw [this]
  exact (List.take_sublist j (fs.take k)).count_le g

theorem count_take_le (fs : List Nat) (g k : Nat) : (fs.take k).count g ≤ fs.count g :=
  (List.take_sublist k fs).count_le g

theorem getD_eq_getElem_nat (l : List Nat) (i : Nat) (h : i < l.length) : l.getD i 0 = l[i] := by
  rw [List.getD_eq_getElem?_getD, List.getElem?_eq_getElem h]; rfl

/-- **`sizeOutput_matches_emitted`.**  `fs` = the faces of the successive cursor fetches, in the
order a schedule executes them (ANY list: nothing is assumed about the order).  With the cursors
started at the exclusive scan `FE` of the per-face counts: (1) fetch `k` obtains a slot inside the
range `[FE f, FE (f+1))` reserved for its face `f`; (2) no slot is obtained twice (nothing is
overwritten); (3) every slot below the total is obtained (nothing is left unwritten); (4) every
cursor ends at the start of the next face. -/
theorem sizeOutput_matches_emitted (nF : Nat) (fs : List Nat) (hf : ∀ f ∈ fs, f < nF) :
    let FE := exSum 0 (counts nF fs)
    let r := fetch FE fs
    (∀ k, k < fs.length →
      FE.getD (fs.getD k 0) 0 ≤ r.2.getD k 0 ∧ r.2.getD k 0 < FE.getD (fs.getD k 0 + 1) 0) ∧
    r.2.Nodup ∧
    (∀ s, s < FE.getD nF 0 → s ∈ r.2) ∧
    (∀ f, f < nF → r.1.getD f 0 = FE.getD (f + 1) 0) ∧
    FE.getD nF 0 = fs.length := by
  intro FE r
  have hclen : (counts nF fs).length = nF := by simp [counts]
  have hFElen : FE.length = nF + 1 := by simp only [FE, exSum_length, hclen]
  obtain ⟨_, hptr, hlen, hslot⟩ := fetch_spec fs FE (fun f h => by rw [hFElen]; have := hf f h; omega)
  have hFE : ∀ k, k ≤ nF → FE.getD k 0 = ((counts nF fs).take k).sum := by
    intro k hk; simp only [FE]; rw [exSum_getD _ 0 k (by rw [hclen]; exact hk)]; omega
  have hstep : ∀ f, f < nF → FE.getD (f + 1) 0 = FE.getD f 0 + fs.count f := by
    intro f h
    rw [hFE _ (by omega), hFE _ (by omega), sum_take_succ _ _ (by rw [hclen]; exact h), counts_getD _ _ _ h]
  have hmono : ∀ f g, f ≤ g → g ≤ nF → FE.getD f 0 ≤ FE.getD g 0 := by
    intro f g h1 h2; rw [hFE _ (by omega), hFE _ h2]; exact sum_take_le _ _ _ h1
  have hmem : ∀ k, k < fs.length → fs.getD k 0 < nF := by
    intro k hk; apply hf; rw [List.getD_eq_getElem?_getD, List.getElem?_eq_getElem hk]; simp
  have hrange : ∀ k, k < fs.length →
      FE.getD (fs.getD k 0) 0 ≤ r.2.getD k 0 ∧ r.2.getD k 0 < FE.getD (fs.getD k 0 + 1) 0 := by
    intro k hk
    rw [hslot k hk, hstep _ (hmem k hk)]
    have h1 := count_take_lt fs k hk
    have h2 := count_take_le fs (fs.getD k 0) (k + 1)
    omega
  have hinj : ∀ j k, j < k → k < fs.length → r.2.getD j 0 ≠ r.2.getD k 0 := by
    intro j k hjk hk
    have hj : j < fs.length := by omega
    by_cases hg : fs.getD j 0 = fs.getD k 0
    · rw [hslot j hj, hslot k hk, hg]
      have h1 := count_take_lt fs j hj
      rw [hg] at h1
      have h2 := count_take_mono fs (fs.getD k 0) (j + 1) k (by omega)
      omega
    · have rj := hrange j hj
      have rk := hrange k hk
      rcases Nat.lt_or_gt_of_ne hg with h | h
      · have := hmono (fs.getD j 0 + 1) (fs.getD k 0) (by omega) (by have := hmem k hk; omega)
        omega
      · have := hmono (fs.getD k 0 + 1) (fs.getD j 0) (by omega) (by have := hmem j hj; omega)
        omega
  have hnd : r.2.Nodup := by
    rw [List.Nodup, List.pairwise_iff_getElem]
    intro i j hi hj hij
    have := hinj i j hij (by rw [← hlen]; exact hj)
    rwa [getD_eq_getElem_nat _ _ hi, getD_eq_getElem_nat _ _ hj] at this
  have htot : FE.getD nF 0 = fs.length := by
    rw [hFE nF (Nat.le_refl _), List.take_of_length_le (by rw [hclen]), counts_sum nF fs hf]
  refine ⟨hrange, hnd, ?_, fun f h => by rw [hptr f, hstep f h], htot⟩
  intro s hs
  have hsub : r.2.toFinset ⊆ Finset.range fs.length := by
    intro x hx
    rw [List.mem_toFinset] at hx
    obtain ⟨k, hk, rfl⟩ := List.getElem_of_mem hx
    rw [Finset.mem_range]
    have hk' : k < fs.length := by rw [← hlen]; exact hk
    have := (hrange k hk').2
    rw [getD_eq_getElem_nat _ _ hk] at this
    have h2 := hmono (fs.getD k 0 + 1) nF (by have := hmem k hk'; omega) (Nat.le_refl _)
    omega
  have hcard : (Finset.range fs.length).card ≤ r.2.toFinset.card := by
    rw [List.toFinset_card_of_nodup hnd, hlen, Finset.card_range]
  have := Finset.eq_of_subset_of_card_le hsub hcard
  have hs' : s ∈ Finset.range fs.length := by rw [Finset.mem_range, ← htot]; exact hs
  rw [← this, List.mem_toFinset] at hs'
  exact hs'

/-- **every schedule writes the same halfedges into every face.**  `items` = the fetches with a
payload (the halfedge to be written: `(s, e)` for the forward fetch, `(e, s)` for the backward
one); `items'` = the same fetches in another order (another schedule of the racing `AtomicAdd`s).
The reserved ranges are the same, and payload `x` lands in the range of face `f` exactly when its
fetch is on `f` — under both schedules. -/
theorem emitted_any_schedule {α : Type} (nF : Nat) (items items' : List (Nat × α))
    (hperm : items'.Perm items) (hf : ∀ it ∈ items, it.1 < nF) :
    let FE := exSum 0 (counts nF (items.map (·.1)))
    let FE' := exSum 0 (counts nF (items'.map (·.1)))
    FE' = FE ∧
    ∀ k, k < items'.length →
      FE.getD ((items'.map (·.1)).getD k 0) 0 ≤ (fetch FE (items'.map (·.1))).2.getD k 0 ∧
      (fetch FE (items'.map (·.1))).2.getD k 0 < FE.getD ((items'.map (·.1)).getD k 0 + 1) 0 := by
  intro FE FE'
  have hp : (items'.map (·.1)).Perm (items.map (·.1)) := hperm.map _
  have hFE : FE' = FE := by simp only [FE, FE', counts_perm nF hp]
  refine ⟨hFE, fun k hk => ?_⟩
  have hf' : ∀ f ∈ items'.map (·.1), f < nF := by
    intro f h
    obtain ⟨it, hit, rfl⟩ := List.mem_map.1 h
    exact hf it (hperm.mem_iff.1 hit)
  have := (sizeOutput_matches_emitted nF (items'.map (·.1)) hf').1 k (by simpa using hk)
  simp only [counts_perm nF hp] at this
  exact this

/-- the log of the sequential model: the slots written are the slots the fetches obtained, in
order, and the cursors are the fetch cursors -/
theorem emitEvents_is_fetch (evs : List Ev) : ∀ (o : Out),
    (emitEvents o evs).ptr = (fetch o.ptr (facesOf evs)).1 ∧
    (emitEvents o evs).log.map (·.1) = o.log.map (·.1) ++ (fetch o.ptr (facesOf evs)).2 := by
  induction evs with
  | nil => intro o; simp [emitEvents, facesOf, fetch]
  | cons ev evs ih =>
    intro o
    have := ih (emit o ev.fL ev.fR ev.s ev.e)
    simp only [emitEvents, List.foldl_cons, facesOf, List.flatMap_cons, List.cons_append,
      List.nil_append, fetch] at this ⊢
    refine ⟨this.1, ?_⟩
    rw [this.2]
    simp [emit]

/-- the log consists of mutually paired, reversed halfedges -/
def Paired (log : List (Nat × HE3)) : Prop :=
  ∃ ws : List (Nat × Nat × Nat × Nat),
    log = ws.flatMap fun w => [(w.1, ⟨w.2.2.1, w.2.2.2, w.2.1⟩), (w.2.1, ⟨w.2.2.2, w.2.2.1, w.1⟩)]

theorem emitEvents_paired (evs : List Ev) : ∀ (o : Out), Paired o.log → Paired (emitEvents o evs).log := by
  induction evs with
  | nil => intro o h; exact h
  | cons ev evs ih =>
    intro o h
    simp only [emitEvents, List.foldl_cons]
    apply ih
    obtain ⟨ws, hws⟩ := h
    refine ⟨ws ++ [(o.ptr.getD ev.fL 0, ((o.ptr.set ev.fL (o.ptr.getD ev.fL 0 + 1)).getD ev.fR 0), ev.s, ev.e)], ?_⟩
    simp [emit, hws, List.flatMap_append]

/-- non-vacuity: three faces, four fetches in two different orders -/
example : fetch (exSum 0 (counts 3 [0, 2, 0, 1])) [0, 2, 0, 1] = ([2, 3, 4, 4], [0, 3, 1, 2]) ∧
    fetch (exSum 0 (counts 3 [1, 0, 0, 2])) [1, 0, 0, 2] = ([2, 3, 4, 4], [2, 0, 1, 3]) := by decide

/-! ## 4. Winding03 -/

/-- `rootOf` extended by the identity outside `0..n-1` (never consulted there) -/
def extRoot (n : Nat) (rootOf : List Nat) (i : Nat) : Nat := if i < n then rootOf.getD i 0 else i

/-- **`winding03_component_constant`.**  `rootOf` passes the check `rootsOk` the replay applies to
the union-find's answers; `seed` holds the `Kernel02` sums (only root entries matter); `ord` is the
order in which the parallel `for_each` happens to run the iterations — any list that contains
every vertex.  Then every vertex receives the seed of its root, the result is constant on the
connected components of the unbroken edges, and it does not depend on `ord`. -/
theorem winding03_component_constant (n : Nat) (edges : List (Nat × Nat)) (rootOf : List Nat)
    (seed : List Int) (hb : ∀ p, p ∈ edges → p.1 < n ∧ p.2 < n) (hlen : seed.length = n)
    (hok : rootsOk n edges rootOf = true) (ord : List Nat) (hall : ∀ i, i < n → i ∈ ord) :
    let w := flood (fun i => rootOf.getD i 0) seed ord
    (∀ i, i < n → w.getD i 0 = seed.getD (rootOf.getD i 0) 0) ∧
    (∀ i j, i < n → j < n → Conn edges i j → w.getD i 0 = w.getD j 0) ∧
    (∀ i, i < n → w.getD i 0 = (winding03 rootOf seed).getD i 0) := by
  intro w
  have hs := rootsOk_spec hb hok
  -- make the root function idempotent everywhere (outside `0..n-1` it is never consulted)
  have hroot : ∀ i, extRoot n rootOf (extRoot n rootOf i) = extRoot n rootOf i := by
    intro i; unfold extRoot
    by_cases hi : i < n
    · rw [if_pos hi, if_pos (hs.lt i hi), hs.idem i hi]
    · rw [if_neg hi, if_neg hi]
  have hagree : ∀ (ord : List Nat) (w0 : List Int), w0.length = n →
      flood (fun i => rootOf.getD i 0) w0 ord = flood (extRoot n rootOf) w0 ord := by
    intro ord
    induction ord with
    | nil => intro _ _; rfl
    | cons k ord ih =>
      intro w0 hw0
      simp only [flood, List.foldl_cons] at ih ⊢
      have e : floodStep (fun i => rootOf.getD i 0) w0 k = floodStep (extRoot n rootOf) w0 k := by
        unfold floodStep
        by_cases hk : k < n
        · simp [extRoot, hk]
        · have h1 : (extRoot n rootOf k = k) := by simp [extRoot, hk]
          rw [if_pos h1]
          split
          · rfl
          · rw [List.set_eq_of_length_le (by omega)]
      rw [e]
      exact ih _ (by rw [floodStep_length]; exact hw0)
  have main : ∀ (ord : List Nat), (∀ i, i < n → i ∈ ord) → ∀ i, i < n →
      (flood (fun i => rootOf.getD i 0) seed ord).getD i 0 = seed.getD (rootOf.getD i 0) 0 := by
    intro ord hall i hi
    rw [hagree ord seed hlen, flood_any_order hroot seed ord (fun j hj => hall j (hlen ▸ hj)) i (hlen ▸ hi)]
    simp [extRoot, hi]
  refine ⟨main ord hall, fun i j hi hj hc => ?_, fun i hi => ?_⟩
  · rw [main ord hall i hi, main ord hall j hj, hs.same i j hi hj hc]
  · rw [main ord hall i hi]
    unfold winding03
    rw [main (List.range seed.length) (fun j hj => by rw [hlen]; exact List.mem_range.2 hj) i hi]

/-- **`winding03_true`**: if the true winding number `tw` of the other operand is constant along
every unbroken edge (no crossing, no change) and the seeds are right at the roots, the flood fill
is right at every vertex. -/
theorem winding03_true (n : Nat) (edges : List (Nat × Nat)) (rootOf : List Nat) (seed : List Int)
    (hb : ∀ p, p ∈ edges → p.1 < n ∧ p.2 < n) (hlen : seed.length = n)
    (hok : rootsOk n edges rootOf = true) (ord : List Nat) (hall : ∀ i, i < n → i ∈ ord)
    (tw : Nat → Int) (hconst : ∀ p, p ∈ edges → tw p.1 = tw p.2)
    (hseed : ∀ r, r < n → rootOf.getD r 0 = r → seed.getD r 0 = tw r) :
    ∀ i, i < n → (flood (fun i => rootOf.getD i 0) seed ord).getD i 0 = tw i := by
  intro i hi
  have hs := rootsOk_spec hb hok
  rw [(winding03_component_constant n edges rootOf seed hb hlen hok ord hall).1 i hi,
    hseed _ (hs.lt i hi) (hs.idem i hi)]
  exact (conn_const tw hconst (hs.conn i hi)).symm

/-- whole edges: both ends of an unbroken edge get the same `w03`, hence the same inclusion
number — `DuplicateHalfedges` may read `i03[startVert]` only (l.454) -/
theorem whole_edge_same_inclusion (n : Nat) (edges : List (Nat × Nat)) (rootOf : List Nat)
    (seed : List Int) (hb : ∀ p, p ∈ edges → p.1 < n ∧ p.2 < n) (hlen : seed.length = n)
    (hok : rootsOk n edges rootOf = true) (op : OpType) (p : Nat × Nat) (hp : p ∈ edges) :
    keepP op ((winding03 rootOf seed).getD p.1 0) = keepP op ((winding03 rootOf seed).getD p.2 0) := by
  have h := (winding03_component_constant n edges rootOf seed hb hlen hok (List.range n)
    (fun i hi => List.mem_range.2 hi)).2
  have e1 := h.2 p.1 (hb p hp).1
  have e2 := h.2 p.2 (hb p hp).2
  rw [← e1, ← e2, h.1 p.1 p.2 (hb p hp).1 (hb p hp).2 (.base hp)]

/-- non-vacuity: two components {0,1} and {2,3}, roots 1 and 2, visited in a scrambled order -/
example : rootsOk 4 [(0, 1), (2, 3)] [1, 1, 2, 2] = true ∧
    flood (fun i => [1, 1, 2, 2].getD i 0) [0, 5, 7, 0] [3, 0, 2, 1, 0] = [5, 5, 7, 7] ∧
    winding03 [1, 1, 2, 2] [0, 5, 7, 0] = [5, 5, 7, 7] := by decide

end MV.BoolAsm.C02b
