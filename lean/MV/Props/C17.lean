import MV.Props.C01a
import MV.Props.C10
import MV.Gen.Shapes
import MV.Model.Tet
import MV.Proof.Extrude
import MV.Proof.Ctor
import MV.Proof.Affine
/-!
# C17 — constructors and transforms produce the solid their parameters define

What is PROVED here (for all parameters) and what is left to the run-time oracles:

* topology of every constructor
  - `shapes_closed2manifold`  the `Impl(Shape)` tables (regenerated from src/impl.cpp on every run)
    pass the verified checker `checkMesh`, i.e. are closed oriented 2-manifolds;
  - `extrude_closed`, `revolve_closed`  the index arithmetic of `Extrude` / `Revolve`
    (MV/Model/Extrude.lean) emits, for ALL polygon sizes, division counts, cone flag, axis-vertex
    patterns, full and partial revolution, and for EVERY cap triangulation with the C10 property
    `net top = contours`, a triangle list whose net is 0 on every edge, with every index in range and
    every vertex referenced;
  - `tet_table_consistent` (+ `tet_faces_cancel_around_axis`, `buildTris_edges_geometric`,
    `tet_orientation_uniform`, `neighbors_opposite`)  marching tetrahedra tables of src/sdf.cpp;
  - `grid_index_roundtrip`  `DecodeIndex ∘ EncodeIndex = id` on every index the grid uses.
* transforms: `transform_chain_product`, `signed_volume_scales_by_det`, `flip_restores_outward`,
  `rotate_orthogonal`, `sind_cosd_exact_at_quarter_turns`.
* `segments_table`, `invalid_args_table`.

NOT proved (checked by the harness oracles on the real code, see checks/c17.py): vertex POSITIONS
(the analytic inside/outside predicate, faceting band, LevelSet root finding and snapping),
floating-point rounding of the matrices, and that the real code runs the modelled arithmetic
(tie: the model's triangle list is compared with the real export on every run).
-/
namespace MV.C17
open MV.EarClip MV.Extrude MV.Ctor MV.Tet MV.Gen.Tet MV.Gen.Shapes
open MV.Mesh (checkMesh Closed2Manifold eulerGenus)

/-! ## constant tables -/

/-- each `Impl(Shape)` table passes the VERIFIED checker (`MV.C01a.checkMesh_iff`), so it is a
    closed oriented 2-manifold over exactly its vertex table -/
theorem shapes_closed2manifold :
    checkMesh tetrahedronVerts.length tetrahedronTris = .ok () ∧
    checkMesh cubeVerts.length cubeTris = .ok () ∧
    checkMesh octahedronVerts.length octahedronTris = .ok () :=
  ⟨(MV.C01a.checkMesh_iff _ _).2 (by decide +kernel), (MV.C01a.checkMesh_iff _ _).2 (by decide +kernel),
   (MV.C01a.checkMesh_iff _ _).2 (by decide +kernel)⟩

example : Closed2Manifold 8 cubeTris := (MV.C01a.checkMesh_iff _ _).1 shapes_closed2manifold.2.1
example : eulerGenus 4 tetrahedronTris = 0 ∧ eulerGenus 8 cubeTris = 0 ∧ eulerGenus 6 octahedronTris = 0 := by decide

/-- **tet_table_consistent.**  For each of the 16 sign patterns `i` (bit k = corner k inside):
(1) every tet-edge id the tables name is in `0..5` and that edge really crosses the surface under
    pattern `i` (so `edges[tri[k]]` is a created vertex, never `kNone`);
(2) the net boundary of the emitted triangles, as a chain on pairs of tet edges, is EXACTLY the sum
    over the four faces of `faceRule`, which looks only at that face's corners, its induced
    orientation and its three corner signs; in particular the internal diagonal of a quad cancels
    and no side joins two opposite tet edges.
`faceRule_reverses` below says the rule flips sign with the face's orientation, so two tetrahedra
with the same handedness (`tet_orientation_uniform`) that share a face contribute opposite
boundaries on it: the marching output is closed.  (`CreateTri` drops a triangle with two equal
vertex ids; such a triangle has zero boundary, so the chain is unchanged.) -/
theorem tet_table_consistent :
    ∀ i, i < 16 →
      (∀ t ∈ patternTris i, ∀ e ∈ [t.1, t.2.1, t.2.2], 0 ≤ e ∧ e < 6 ∧ crossing i e.toNat = true) ∧
      (∀ e1, e1 < 6 → ∀ e2, e2 < 6 → patternNet i e1 e2 = expectedNet i e1 e2) := by decide +kernel

example : patternTris 3 = [(1, 5, 3), (3, 4, 1)] ∧ patternNet 3 1 5 = 1 ∧ patternNet 3 3 1 = 0 := by decide
example : patternTris 0 = [] ∧ patternTris 15 = [] := by decide

/-- the face rule is antisymmetric in the orientation of the face, for every placement of the
    face's corners among four labels and all eight sign patterns -/
theorem faceRule_reverses :
    ∀ p, p < 4 → ∀ q, q < 4 → ∀ r, r < 4 → p ≠ q → q ≠ r → r ≠ p → ∀ sp sq sr : Bool,
      faceRule p r q sp sr sq = (faceRule p q r sp sq sr).map fun s => (s.2, s.1) := by
  have h : ∀ p ∈ [0, 1, 2, 3], ∀ q ∈ [0, 1, 2, 3], ∀ r ∈ [0, 1, 2, 3],
      ∀ sp ∈ [true, false], ∀ sq ∈ [true, false], ∀ sr ∈ [true, false],
      (faceRule p r q sp sr sq = (faceRule p q r sp sq sr).map fun s => (s.2, s.1)) ∨ p = q ∨ q = r ∨ r = p := by
    decide +kernel
  intro p hp q hq r hr h1 h2 h3 sp sq sr
  have := h p (by simp; omega) q (by simp; omega) r (by simp; omega) sp (by cases sp <;> simp)
    sq (by cases sq <;> simp) sr (by cases sr <;> simp)
  rcases this with h | h | h | h
  · exact h
  · exact absurd h h1
  · exact absurd h h2
  · exact absurd h h3

/-- how sdf.cpp walks round the (1,1,1) edge: consecutive tetrahedra `(lead, base, X, Y)`,
`(lead, base, Y, Z)` share the face `{lead, base, Y}`; `edges2` reuses `edges1[5]` as its edge 1
and `edges1[3]` as its edge 4 (edge 0 is common).  On that face the two boundaries cancel, for
all 32 sign choices of the five corners. -/
theorem tet_faces_cancel_around_axis :
    ∀ s0 ∈ [0, 1], ∀ s1 ∈ [0, 1], ∀ x ∈ [0, 1], ∀ y ∈ [0, 1], ∀ z ∈ [0, 1],
      ∀ e ∈ [(0, 0), (5, 1), (3, 4)], ∀ f ∈ [(0, 0), (5, 1), (3, 4)],
        patternNet (s0 + 2 * s1 + 4 * x + 8 * y) e.1 f.1 + patternNet (s0 + 2 * s1 + 4 * y + 8 * z) e.2 f.2 = 0 := by
  decide +kernel

/-- `edges2[1] = edges1[5]`, `edges2[4] = edges1[3]`, `edges2[0] = edges1[0]` in the source -/
example : (edges2.map (·.1)) = [.base, .reuse, .thisVert, .nextVert, .reuse, .base] ∧
    (edges2.getD 1 (.base, id)).2 0 = 5 ∧ (edges2.getD 4 (.base, id)).2 0 = 3 := by decide

/-- the 14 neighbour offsets are 7 owned edges and their 7 opposites -/
theorem neighbors_opposite : ∀ i, i < 7 → nbrOff (i + 7) = P3.neg (nbrOff i) := by decide +kernel

/-- every entry of `edges1` / `edges2` is read from the GridVert and neighbour slot that span
    exactly the segment between the two corners `edgeEnds` assigns to that tet edge, for all six
    tetrahedra; slots are owned ones (`< 7`) -/
theorem buildTris_edges_geometric : ∀ g ∈ buildTets, ∀ e, e < 6 → edgeOk g e = true := by decide +kernel

/-- all six tetrahedra have the same handedness in their corner order -/
theorem tet_orientation_uniform : ∀ g ∈ buildTets, tetDet g = -4 := by decide +kernel

example : buildTets.length = 6 := by decide

/-! ## Extrude / Revolve -/

/-- **extrude_closed.**  For all polygon sizes, all `nDivisions`, cone or not, and every cap
triangulation `top` over the indices `0 … nC-1` with the C10 property `net top = contours`:
the net of ALL emitted triangles is 0 on every edge, every index is `< vertPos.size()`, and every
vertex is a corner of some triangle (cone: polygons non-empty — the apex duplicate of an empty
polygon would never be referenced). -/
theorem extrude_closed (polySizes : List Nat) (nDivisions : Nat) (isCone : Bool) (top : List Tri)
    (hnet : ∀ a b, net (triEdges top) a b = bdContours (contours polySizes) a b)
    (hrange : ∀ t ∈ top, TriLt polySizes.sum t)
    (hpos : isCone = true → ∀ s ∈ polySizes, 0 < s) :
    (∀ a b, net (triEdges (extrudeTris polySizes nDivisions isCone top)) a b = 0) ∧
    (∀ t ∈ extrudeTris polySizes nDivisions isCone top, TriLt (extrudeNumVert polySizes nDivisions isCone) t) ∧
    (∀ v, v < extrudeNumVert polySizes nDivisions isCone →
      ∃ t ∈ extrudeTris polySizes nDivisions isCone top, TriHas v t) :=
  ⟨fun a b => extrude_net_zero polySizes nDivisions isCone top hnet a b,
   extrude_in_range polySizes nDivisions isCone top hrange,
   extrude_all_used polySizes nDivisions isCone top hpos⟩

/-- non-vacuity: a square with a triangular hole, keyholed exactly as in `MV.EarClip.exOps`
    (the cap is the C10 model's own output for that op sequence), 2 extra divisions, prism and cone -/
def exTop : List Tri := [(0, 1, 4), (0, 4, 5), (3, 0, 5), (6, 4, 1), (6, 1, 2), (5, 6, 2), (5, 2, 3)]
theorem exTop_eq : (run (initState exPolys) exOps).tris = exTop := by decide +kernel
theorem exTop_net : ∀ a b, net (triEdges exTop) a b = bdContours (contours [4, 3]) a b := by
  have h := earclip_exit exPolys exOps exOps_ok.toLive (by decide +kernel)
  intro a b; rw [show contours [4, 3] = exPolys by decide, ← exTop_eq]; exact h a b
example : (∀ a b, net (triEdges (extrudeTris [4, 3] 2 false exTop)) a b = 0) :=
  (extrude_closed [4, 3] 2 false exTop exTop_net (by decide) (by decide)).1
set_option maxRecDepth 100000 in
example : checkMesh (extrudeNumVert [4, 3] 2 false) (extrudeTris [4, 3] 2 false exTop) = .ok () :=
  (MV.C01a.checkMesh_iff _ _).2 (by decide +kernel)
set_option maxRecDepth 100000 in
example : checkMesh (extrudeNumVert [4, 3] 2 true) (extrudeTris [4, 3] 2 true exTop) = .ok () :=
  (MV.C01a.checkMesh_iff _ _).2 (by decide +kernel)

/-- **revolve_closed.**  Input: the clipped polygons as they reach the index arithmetic (per vertex:
off the axis / on the axis), `nDivisions ≥ 1`, full or partial revolution, and any cap triangulation
`front` of the polygons with `net front = contours`.  The net of all emitted triangles (side
bands, axis fans, seam, and for a partial revolve the two end caps read through `startPoses` /
`endPoses`) is 0 on every edge; every index is in range; and if every axis vertex has a
neighbour off the axis (`AxisOk`) every vertex is referenced.
Without `AxisOk` the last clause is FALSE for the real code too: the middle one of three
consecutive axis vertices is pushed to `vertPos` and never referenced (see the example below). -/
theorem revolve_closed (polys : List (List Bool)) (nDivisions : Nat) (isFull : Bool) (front : List Tri)
    (hd : 1 ≤ nDivisions)
    (hnet : ∀ a b, net (triEdges front) a b = bdContours (revolveContours polys) a b)
    (hrange : ∀ t ∈ front, TriLt (polys.map List.length).sum t) :
    (∀ a b, net (triEdges (revolveTris polys nDivisions isFull front)) a b = 0) ∧
    (∀ t ∈ revolveTris polys nDivisions isFull front, TriLt (revolveNumVert polys nDivisions isFull) t) ∧
    ((∀ poly ∈ polys, AxisOk poly) → ∀ v, v < revolveNumVert polys nDivisions isFull →
      ∃ t ∈ revolveTris polys nDivisions isFull front, TriHas v t) :=
  ⟨fun a b => revolve_net_zero polys nDivisions isFull front hnet a b,
   revolve_in_range polys nDivisions isFull front hd hrange,
   fun hH => revolve_all_used polys nDivisions isFull front hd hH⟩

/-- non-vacuity: a quadrilateral with two vertices on the axis, cap = fan `(0,1,2),(0,2,3)` -/
theorem exFront_net : ∀ a b, net (triEdges [(0, 1, 2), (0, 2, 3)]) a b
    = bdContours (revolveContours [[true, true, false, false]]) a b := by
  intro a b
  have h : contourEdges (revolveContours [[true, true, false, false]]) = [(0, 1), (1, 2), (2, 3), (3, 0)] := by decide
  unfold bdContours; rw [h]
  simp only [triEdges, List.flatMap_cons, List.flatMap_nil, triEdgesOf, List.append_nil, List.cons_append,
    List.nil_append, net_cons, net_nil]
  have := ind_swap 2 0 a b; omega
set_option maxRecDepth 100000 in
example : checkMesh (revolveNumVert [[true, true, false, false]] 5 true)
    (revolveTris [[true, true, false, false]] 5 true [(0, 1, 2), (0, 2, 3)]) = .ok () :=
  (MV.C01a.checkMesh_iff _ _).2 (by decide +kernel)
set_option maxRecDepth 100000 in
example : checkMesh (revolveNumVert [[true, true, false, false]] 3 false)
    (revolveTris [[true, true, false, false]] 3 false [(0, 1, 2), (0, 2, 3)]) = .ok () :=
  (MV.C01a.checkMesh_iff _ _).2 (by decide +kernel)
/-- three consecutive axis vertices: vertex 17 (the middle one) is referenced by no triangle of
    the full revolve, whatever the cap — the unreferenced vertex the real `Revolve` exports -/
example : ¬ ∃ t ∈ revolveTris [[true, true, false, false, false]] 8 true [], TriHas 17 t := by
  decide +kernel

/-- **grid_index_roundtrip.**  `DecodeIndex(EncodeIndex(p, pow), pow) = p` whenever every
component fits its field, and the code fits `1 + pz + py + px` bits; `gridPow_fits`: with
`pow = ComputeGridPow(gridSize)` every index `0 … gridSize + 2` (the voxel array's range after
`kVoxelOffset`) fits. -/
theorem grid_index_roundtrip (x y z w px py pz : Nat) (hw : w < 2) (hz : z < 2 ^ pz) (hy : y < 2 ^ py)
    (hx : x < 2 ^ px) :
    decodeIndex (encodeIndex x y z w py pz) px py pz = (x, y, z, w) ∧
    encodeIndex x y z w py pz < 2 ^ (1 + pz + py + px) :=
  grid_index_roundtrip' x y z w px py pz hw hz hy hx

theorem grid_pow_fits (n : Nat) : n + 2 < 2 ^ gridPow n := gridPow_fits n

example : decodeIndex (encodeIndex 9 4 7 1 (gridPow 5) (gridPow 5)) (gridPow 7) (gridPow 5) (gridPow 5) = (9, 4, 7, 1) := by decide
example : gridPow 5 = 3 ∧ gridPow 6 = 4 ∧ gridPow 13 = 4 ∧ gridPow 14 = 5 := by decide

/-! ## transforms -/
section transforms
open MV.Affine
variable {R : Type} [CommRing R]

/-- **transform_chain_product.**  `m * Mat4(n)` acts as the composition of the point maps (first
`n`, then `m`) and the composition is associative with the identity as unit: a chain of lazily
combined transforms is the map obtained by applying them one after the other. -/
theorem transform_chain_product (m n k : Aff R) (p : V3 R) :
    (m.comp n).apply p = m.apply (n.apply p) ∧ (m.comp n).comp k = m.comp (n.comp k) ∧
    m.comp Aff.id = m ∧ Aff.id.comp m = m ∧ (m.comp n).det = m.det * n.det :=
  ⟨apply_comp m n p, comp_assoc m n k, (comp_id m).1, (comp_id m).2, det_comp m n⟩

/-- `Rotate(x, y, z)` is documented as: about global X first, then Y, then Z -/
example (sx cx sy cy sz cz : R) (p : V3 R) :
    (rotate sx cx sy cy sz cz).apply p = (rotZ sz cz).apply ((rotY sy cy).apply ((rotX sx cx).apply p)) := by
  unfold rotate; rw [apply_comp, apply_comp]

/-- **signed_volume_scales_by_det.**  The signed volume of a tetrahedron scales by `det` of the
linear part; a closed mesh's volume is the sum of `tetVol o v0 v1 v2` over its triangles, so it
scales by the same factor. -/
theorem signed_volume_scales_by_det (m : Aff R) (a b c d : V3 R) :
    tetVol (m.apply a) (m.apply b) (m.apply c) (m.apply d) = m.det * tetVol a b c d :=
  tetVol_apply m a b c d

/-- **flip_restores_outward.**  `FlipTris` turns `(v0, v1, v2)` into `(v0, v2, v1)`, which negates
the signed volume; after a transform the flipped triangle's volume is `(-det) ·` the original. -/
theorem flip_restores_outward (m : Aff R) (o v0 v1 v2 : V3 R) :
    tetVol o v0 v2 v1 = - tetVol o v0 v1 v2 ∧
    tetVol (m.apply o) (m.apply v0) (m.apply v2) (m.apply v1) = (- m.det) * tetVol o v0 v1 v2 := by
  refine ⟨tetVol_swap o v0 v1 v2, ?_⟩
  rw [tetVol_swap, tetVol_apply]; ring

/-- over ℤ (an ordered instance): with `det < 0` the flipped triangle keeps a positive volume -/
theorem flip_restores_outward_int (m : Aff Int) (o v0 v1 v2 : V3 Int) (hdet : m.det < 0)
    (hvol : 0 < tetVol o v0 v1 v2) :
    0 < tetVol (m.apply o) (m.apply v0) (m.apply v2) (m.apply v1) := by
  rw [(flip_restores_outward m o v0 v1 v2).2]
  exact Int.mul_pos (Int.neg_pos_of_neg hdet) hvol

example : (mirror (⟨0, 0, 1⟩ : V3 Int)).det = -1 := by decide
example : 0 < tetVol (⟨0, 0, 0⟩ : V3 Int) ⟨1, 0, 0⟩ ⟨0, 1, 0⟩ ⟨0, 0, 1⟩ := by decide

/-- **rotate_orthogonal.**  Given `s² + c² = 1` for each of the three angles, the matrix
`rZ * rY * rX` of `CsgNode::Rotate` has orthonormal columns and determinant 1 (so it preserves
dot products: lengths, angles, volume and orientation). -/
theorem rotate_orthogonal (sx cx sy cy sz cz : R) (hx : sx * sx + cx * cx = 1) (hy : sy * sy + cy * cy = 1)
    (hz : sz * sz + cz * cz = 1) :
    (rotate sx cx sy cy sz cz).Orthogonal ∧ (rotate sx cx sy cy sz cz).det = 1 ∧
    ∀ u v, dot ((rotate sx cx sy cy sz cz).lin u) ((rotate sx cx sy cy sz cz).lin v) = dot u v := by
  have hX := rotX_orth sx cx hx; have hY := rotY_orth sy cy hy; have hZ := rotZ_orth sz cz hz
  have ho : (rotate sx cx sy cy sz cz).Orthogonal := orth_comp _ _ (orth_comp _ _ hZ.1 hY.1) hX.1
  refine ⟨ho, ?_, fun u v => orth_preserves_dot _ ho u v⟩
  unfold rotate; rw [det_comp, det_comp, hX.2, hY.2, hZ.2]; ring

/-- the integer quarter-turn rotation the driver runs against the real `Rotate(90a, 90b, 90c)` IS
    the `rotate` matrix of this section at the exact sine / cosine values -/
theorem rotQuarter_eq_rotate (ka kb kc x y z : Int) :
    rotQuarter ka kb kc (x, y, z) =
      (let q := (rotate (sinQuarter ka) (cosQuarter ka) (sinQuarter kb) (cosQuarter kb) (sinQuarter kc)
          (cosQuarter kc)).apply ⟨x, y, z⟩
       (q.x, q.y, q.z)) := by
  simp only [rotQuarter, rotate, rotX, rotY, rotZ, Aff.comp, Aff.apply, Aff.lin, V3.add]
  refine Prod.ext ?_ (Prod.ext ?_ ?_) <;> simp <;> ring

/-- a unit-normal mirror is orthogonal with determinant −1 -/
theorem mirror_reflects (n : V3 R) (h : dot n n = 1) : (mirror n).det = -1 ∧ (mirror n).Orthogonal :=
  mirror_det n h

/-- a quarter turn about Z followed by one about X, over ℤ: an exact signed permutation -/
example : (rotate (1 : Int) 0 0 1 1 0).apply ⟨2, 3, 5⟩ = ⟨5, 2, 3⟩ := by decide
example : rotQuarter 1 0 1 (2, 3, 5) = (5, 2, 3) ∧ rotQuarter (-3) 6 0 (2, 3, 5) = (-2, -5, -3) := by decide

end transforms

/-- **sind_cosd_exact_at_quarter_turns.**  For every integer `k` and every `quo` function within
the C standard's contract for `remquo` (`quo ≡ k` modulo 8), the control flow of `sind` / `cosd`
returns exactly `sin 90k°` / `cos 90k°` ∈ {0, ±1}, given `sin(0) = 0` and `cos(0) = 1`; these
values satisfy `s² + c² = 1` exactly, so `rotate_orthogonal` applies with no rounding at all. -/
theorem sind_cosd_exact_at_quarter_turns (quoOf : Nat → Nat) (hq : ∀ m, quoOf m % 8 = m % 8) (k : Int) :
    sindQ 0 1 quoOf k = sinQuarter k ∧ cosdQ 0 1 quoOf k = cosQuarter k ∧
    sinQuarter k * sinQuarter k + cosQuarter k * cosQuarter k = 1 :=
  ⟨sindQ_exact quoOf hq k, by unfold cosdQ; rw [sindQ_exact quoOf hq, cosQuarter_eq], quarter_pythagoras k⟩

example : (List.range 9).map (fun k : Nat => sindQ 0 1 (· % 8) ((k : Int) - 4)) = [0, 1, 0, -1, 0, 1, 0, -1, 0] := by decide
example : (List.range 9).map (fun k : Nat => cosdQ 0 1 (· % 8) ((k : Int) - 4)) = [1, 0, -1, 0, 1, 0, -1, 0, 1] := by decide

/-- **segments_table.**  `GetCircularSegments`: an explicit `SetCircularSegments` value wins;
otherwise the result is a multiple of 4, at least 4, and is `min(nSegA, nSegL)` rounded UP to a
multiple of 4.  `SetCircularSegments` only ever stores 0 or a value ≥ 3. -/
theorem segments_table (circ a l : Nat) :
    (0 < circ → segments circ a l = circ) ∧
    (circ = 0 → segments circ a l % 4 = 0 ∧ 4 ≤ segments circ a l ∧
      min a l ≤ segments circ a l ∧ (1 ≤ min a l → segments circ a l < min a l + 4)) ∧
    (∀ cur number : Int, (cur = 0 ∨ 3 ≤ cur) →
      setCircularSegments cur number = 0 ∨ 3 ≤ setCircularSegments cur number) :=
  ⟨(segments_props circ a l).1, (segments_props circ a l).2, setCircularSegments_range⟩

example : segments 0 36 12 = 12 ∧ segments 0 36 13 = 16 ∧ segments 0 36 1000 = 36 ∧ segments 0 36 0 = 4 ∧
    segments 7 36 12 = 7 := by decide
example : cylinderNumTri (cylinderSegments 0 0 36 13) false = 60 ∧ sphereNumTri (sphereN 0 0 36 13) = 128 ∧
    sphereN 0 3 36 13 = 1 ∧ sphereN 0 5 36 13 = 2 := by decide

/-- **invalid_args_table.**  The guards of the constructors as a decision table over what the
comparisons can see of each argument (`neg`, `zero`, `pos`, `nan`): the result is `invalid`
exactly on the documented conditions, NaN counting as "not positive / not non-negative"; a
negative `nDivisions` and a `revolveDegrees` that is not positive are invalid too. -/
theorem invalid_args_table :
    (∀ x y z : Sgn, cubeStatus x y z = .invalid ↔
      (x = .neg ∨ x = .nan ∨ y = .neg ∨ y = .nan ∨ z = .neg ∨ z = .nan ∨ (x = .zero ∧ y = .zero ∧ z = .zero))) ∧
    (∀ h lo hi : Sgn, cylinderStatus h lo hi = .invalid ↔
      (h ≠ .pos ∨ lo = .neg ∨ lo = .nan ∨ (lo = .zero ∧ hi ≠ .pos))) ∧
    (∀ r : Sgn, sphereStatus r = .invalid ↔ r ≠ .pos) ∧
    (∀ n (h d : Sgn), extrudeStatus n h d = .invalid ↔ (n = 0 ∨ h ≠ .pos ∨ d = .neg)) ∧
    (∀ (deg : Sgn) (ps : List Bool), revolveStatus deg ps = .invalid ↔ (deg ≠ .pos ∨ ∀ p ∈ ps, p = false)) := by
  refine ⟨?_, ?_, ?_, ?_, ?_⟩
  · intro x y z; cases x <;> cases y <;> cases z <;> decide
  · intro h lo hi; cases h <;> cases lo <;> cases hi <;> decide
  · intro r; cases r <;> decide
  · intro n h d
    cases n <;> cases h <;> cases d <;> simp [extrudeStatus, Sgn.gt0, Sgn.lt0]
  · intro deg ps
    cases deg <;> simp [revolveStatus, Sgn.gt0]

example : sphereStatus .nan = .invalid ∧ cubeStatus .pos .nan .pos = .invalid ∧ extrudeStatus 1 .pos .neg = .invalid ∧
    revolveStatus .zero [true] = .invalid ∧ cylinderStatus .pos .pos .nan = .ok := by decide

end MV.C17
