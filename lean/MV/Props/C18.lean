/-
Property C18 — measurements and queries agree with their brute-force definitions.

  "Volume and SurfaceArea equal the signed-tetrahedron and triangle-area sums of the exported mesh;
   BoundingBox is the tight box of its vertices; MinGap equals the minimum triangle-to-triangle
   distance clamped to the search length (0 when the solids intersect); RayCast returns every
   crossing of the segment with the surface, sorted by distance, with positions on the segment, so
   hit parity equals the change of insideness between its ends; WindingNumber equals the true
   winding number at generic points. Slice(z) has the 2D winding of the solid's section at z,
   Project covers exactly the solid's shadow, Decompose returns connected components whose volumes
   sum to the whole, and IsEmpty/NumVert/NumTri/NumProp match the export."

Model: `MV/Model/Measure.lean` — ONE `Scalar`-polymorphic transliteration of the measured code; the
driver runs it at `Float` and `checks/c18.py` compares every output of the real library with it bit
for bit on every run.  Here the same definitions are instantiated at a linearly ordered field `F`
(`MV.Measure.Exact`: exact arithmetic) — and, for the NaN handling of `CalculateBBox`, at
`Option F` (`exactScalar` of C02: `none` = NaN) — and the following is proved for ALL meshes:

* `kahan_exact_when_exact`        without rounding the compensated sum is the plain sum;
* `volume_def`, `area_def`        `Volume()`/`SurfaceArea()` are the signed-tetrahedron / triangle-area sums;
* `volume_translation_invariant`  on closed oriented meshes the signed-tetrahedron sum does not depend on the origin;
* `bbox_tight`, `bbox_tight_any_bracketing`, `bbox_tight_tbb`, `calcBBox_eq`
                                  the NaN-skipping reduction returns the tight box of the NaN-free vertices,
                                  for libstdc++'s `std::reduce` and for every other bracketing (TBB);
* `far_boxes_far_points`, `mingap_candidates_complete`
                                  boxes that do not overlap after inflation by `L` hold no pair of points within `L`;
                                  hence the clamped minimum over a candidate set containing every overlapping
                                  pair (what C14's `query_iff_overlap` says the collider reports) is the clamped
                                  minimum over ALL pairs of triangles;
* `raycast_sorted`, `raycast_hits_exact`, `hit_parity_partial`
                                  the output is sorted by distance, is exactly the set of candidate crossings with
                                  parameter in [0,1], each reported once;
* `decompose_is_partition`        the labels are the connected components of the vertex-edge graph, constant on
                                  every triangle, and the face lists partition the triangles;
* `genus_formula`                 `E = 3F/2` on closed meshes and `Genus() = g` whenever `V - E + F = 2 - 2g`.

NOT proved here (oracle-checked on every run by `harness/c18_measure.cpp`): rounding; that
`DistanceTriangleTriangleSquared` returns the distance of two points of the triangles (hypothesis
`hD` of `mingap_candidates_complete`); that `Kernel12`/`Kernel02` find exactly the geometric
crossings (so that hits = all crossings, parity = change of insideness, winding = true winding);
that the `Slice` walk closes every loop (`slice_partial` below states what is proved); `Project`.
-/
import MV.Proof.Measure
import MV.Proof.MeasureBBox
import MV.Proof.MeasureGap
import MV.Proof.MeasureDecomp
import Mathlib.Algebra.Order.Ring.Rat
import Mathlib.Algebra.Field.Rat
import Mathlib.Tactic.NormNum

set_option linter.unusedSectionVars false

namespace MV.Measure.C18
open MV.Bool3 MV.Mesh MV.Measure MV.Measure.Exact

section Field
variable {F : Type} [Field F] [LinearOrder F] [IsStrictOrderedRing F]

/-! ## 1. Kahan, Volume, SurfaceArea -/

/-- **kahan_exact_when_exact.**  In exact arithmetic (every partial sum and compensation term
representable: rounding is the identity) the Kahan loop of `GetProperty` returns the plain sum.
This is what justifies comparing `Volume()` exactly on dyadic meshes. -/
theorem kahan_exact_when_exact (xs : List F) : kahan xs = xs.sum := kahan_eq_sum xs

example : kahan ([1 / 2, 1 / 3, -1 / 7, 5] : List ℚ) = 239 / 42 := by
  rw [kahan_exact_when_exact]; norm_num

/-- **volume_def.**  `Volume()` of ANY halfedge mesh is one sixth of the sum over its triangles of
the determinant of the three corner positions (the signed volume of the tetrahedron spanned with
the origin). -/
theorem volume_def [MConst F] (h6 : (MConst.six : F) = 6) (m : KMesh F) :
    volume m = vol6 m.pos (meshTris m) / 6 := by
  rw [volume_eq_vol6, h6]

/-- **area_def.**  `SurfaceArea()` is the sum over the triangles of half the length of the cross
product of two edge vectors (`sqrt` is the square root the code calls; any function here). -/
theorem area_def [MConst F] (h2 : (MConst.two : F) = 2) (sqrt : F → F) (m : KMesh F) :
    surfaceArea sqrt m = ((List.range (numTri m)).map fun t =>
      sqrt (normSq (cross (vsub (corner m t 1) (corner m t 0)) (vsub (corner m t 2) (corner m t 0)))) / 2).sum := by
  unfold surfaceArea
  split
  · next h =>
    have h0 : numTri m = 0 := by simpa using h
    rw [h0]; simp; rfl
  · rw [kahan_eq_sum]
    congr 1
    apply List.map_congr_left
    intro t _
    unfold triArea
    show sqrt (dot _ _) / (MConst.two : F) = _
    rw [dot_self_eq, h2]

/-- the constants at `ℚ` (any values would do for `tiny`, `big`, `inf`) -/
instance ratConst : MConst ℚ := ⟨1, 2, 6, 1 / 1000000000000000, 1000000, 1000000⟩

/-- the unit right tetrahedron, outward oriented -/
def exTet : KMesh ℚ :=
  { vertPos := #[⟨0, 0, 0⟩, ⟨1, 0, 0⟩, ⟨0, 1, 0⟩, ⟨0, 0, 1⟩]
    vertNormal := #[V3.zero, V3.zero, V3.zero, V3.zero]
    faceNormal := #[V3.zero, V3.zero, V3.zero, V3.zero]
    start := #[0, 2, 1, 0, 1, 3, 1, 2, 3, 2, 0, 3]
    pair := #[9, 6, 3, 2, 8, 11, 1, 10, 4, 0, 5, 7] }

example : volume exTet = 1 / 6 := by
  rw [volume_def rfl]; decide +kernel

/-- with `sqrt := id` the "area" is half the sum of the squared cross products: (1+1+3+1)/2 -/
example : surfaceArea id exTet = 3 := by
  rw [area_def rfl]; decide +kernel

theorem exTet_closed : ClosedOriented (meshTris exTet) := by
  refine ⟨by decide, by decide, ?_⟩
  intro a b h
  have : (a, b) ∈ [(0, 2), (2, 1), (1, 0), (0, 1), (1, 3), (3, 0), (1, 2), (2, 3), (3, 1), (2, 0), (0, 3), (3, 2)] := h
  simp only [List.mem_cons, Prod.mk.injEq, List.mem_nil_iff, or_false] at this
  rcases this with ⟨rfl, rfl⟩ | ⟨rfl, rfl⟩ | ⟨rfl, rfl⟩ | ⟨rfl, rfl⟩ | ⟨rfl, rfl⟩ | ⟨rfl, rfl⟩ |
    ⟨rfl, rfl⟩ | ⟨rfl, rfl⟩ | ⟨rfl, rfl⟩ | ⟨rfl, rfl⟩ | ⟨rfl, rfl⟩ | ⟨rfl, rfl⟩ <;> decide

/-! ## 2. translation invariance -/

/-- the mesh moved by `d` -/
def translate (m : KMesh F) (d : V3 F) : KMesh F := { m with vertPos := m.vertPos.map (vaddF · d) }

theorem translate_pos (m : KMesh F) (d : V3 F) {v : Nat} (hv : v < m.vertPos.size) :
    (translate m d).pos v = vaddF (m.pos v) d := by
  unfold translate KMesh.pos
  simp [Array.getD, hv]

theorem vol6_congr {pos pos' : Nat → V3 F} {ts : List Tri}
    (h : ∀ t ∈ ts, pos t.1 = pos' t.1 ∧ pos t.2.1 = pos' t.2.1 ∧ pos t.2.2 = pos' t.2.2) :
    vol6 pos ts = vol6 pos' ts := by
  unfold vol6
  congr 1
  apply List.map_congr_left
  intro t ht
  obtain ⟨h1, h2, h3⟩ := h t ht
  rw [h1, h2, h3]

/-- **volume_translation_invariant.**  For a closed oriented halfedge mesh (no triangle repeats a
vertex, every directed edge occurs once and is matched by its reverse: `ClosedOriented`, the
index-free part of C01's `Closed2Manifold`) with all indices in range, `Volume()` does not change
when every vertex is moved by the same vector — the signed-tetrahedron sum measures the solid and
not its position relative to the origin. -/
theorem volume_translation_invariant [MConst F] (m : KMesh F) (d : V3 F)
    (hc : ClosedOriented (meshTris m)) (hr : ∀ t ∈ meshTris m, TriInRange m.vertPos.size t) :
    volume (translate m d) = volume m := by
  rw [volume_eq_vol6, volume_eq_vol6]
  have hts : meshTris (translate m d) = meshTris m := rfl
  rw [hts]
  have : vol6 (translate m d).pos (meshTris m) = vol6 (fun v => vaddF (m.pos v) d) (meshTris m) := by
    apply vol6_congr
    intro t ht
    obtain ⟨h1, h2, h3⟩ := hr t ht
    exact ⟨translate_pos m d h1, translate_pos m d h2, translate_pos m d h3⟩
  rw [this, vol6_translate hc]

example : volume (translate exTet ⟨3, -7, 1 / 2⟩) = 1 / 6 := by
  rw [volume_translation_invariant exTet _ exTet_closed (by decide), volume_def rfl]; decide +kernel

/-- the hypothesis cannot be dropped: an open mesh (one triangle) has an origin-dependent "volume" -/
example : let m : KMesh ℚ := { vertPos := #[⟨0, 0, 0⟩, ⟨1, 0, 0⟩, ⟨0, 1, 0⟩], vertNormal := #[V3.zero, V3.zero, V3.zero],
                               faceNormal := #[V3.zero], start := #[0, 1, 2], pair := #[0, 1, 2] }
    volume m = 0 ∧ volume (translate m ⟨0, 0, 1⟩) = 1 / 6 := by
  refine ⟨?_, ?_⟩ <;> (rw [volume_def rfl]; decide +kernel)

end Field

/-! ## 3. BoundingBox -/

section BBox
variable {F : Type} [Field F] [LinearOrder F]
open MV.Bool3.C02

/-- **bbox_tight_any_bracketing.**  Let every vertex be admissible (NaN in x, or no NaN at all) and
let `r` be ANY bracketing of the reduction of `init :: verts` with the first lambda of
`CalculateBBox`, `init` NaN-free (the code's `vec3(inf)`).  Then `r` is NaN-free, is
componentwise `≤` every NaN-free vertex (and `init`), and each of its coordinates is attained by a
NaN-free vertex or by `init`.  This covers `std::reduce` of any standard library and
`tbb::parallel_reduce` with any splitting. -/
theorem bbox_tight_any_bracketing (i : V3 F) (verts : List (V3 (Option F)))
    (hadm : ∀ v ∈ verts, Adm v) {r : V3 (Option F)} (hr : Red bbMin (lift i :: verts) r) :
    ∃ p : V3 F, r = lift p ∧
      (∀ q : V3 F, lift q ∈ lift i :: verts → p.x ≤ q.x ∧ p.y ≤ q.y ∧ p.z ≤ q.z) ∧
      (∃ q : V3 F, lift q ∈ lift i :: verts ∧ q.x = p.x) ∧
      (∃ q : V3 F, lift q ∈ lift i :: verts ∧ q.y = p.y) ∧
      (∃ q : V3 F, lift q ∈ lift i :: verts ∧ q.z = p.z) := by
  have hadm' : ∀ v ∈ lift i :: verts, Adm v := by
    intro v hv
    rcases List.mem_cons.1 hv with rfl | hv
    · exact Or.inr ⟨i, rfl⟩
    · exact hadm v hv
  rw [bbMin_eq] at hr
  rcases red_tight sel_min laMin_some hr hadm' with ⟨_, hall⟩ | h
  · exact absurd (hall (lift i) (by simp)) (lift_x_ne_none i)
  · exact h

/-- the same for the maximum corner (second lambda, `init = vec3(-inf)`) -/
theorem bbox_tight_max_any_bracketing (i : V3 F) (verts : List (V3 (Option F)))
    (hadm : ∀ v ∈ verts, Adm v) {r : V3 (Option F)} (hr : Red bbMax (lift i :: verts) r) :
    ∃ p : V3 F, r = lift p ∧
      (∀ q : V3 F, lift q ∈ lift i :: verts → q.x ≤ p.x ∧ q.y ≤ p.y ∧ q.z ≤ p.z) ∧
      (∃ q : V3 F, lift q ∈ lift i :: verts ∧ q.x = p.x) ∧
      (∃ q : V3 F, lift q ∈ lift i :: verts ∧ q.y = p.y) ∧
      (∃ q : V3 F, lift q ∈ lift i :: verts ∧ q.z = p.z) := by
  have hadm' : ∀ v ∈ lift i :: verts, Adm v := by
    intro v hv
    rcases List.mem_cons.1 hv with rfl | hv
    · exact Or.inr ⟨i, rfl⟩
    · exact hadm v hv
  rw [bbMax_eq] at hr
  rcases red_tight sel_max laMax_some hr hadm' with ⟨_, hall⟩ | h
  · exact absurd (hall (lift i) (by simp)) (lift_x_ne_none i)
  · exact h

/-- **bbox_tight.**  `CalculateBBox` as the serial build computes it (libstdc++'s 4-way unrolled
`std::reduce`): `bBox_.min` is NaN-free, bounds every NaN-free vertex from below, and each of its
coordinates is attained by a NaN-free vertex (or is the initial `inf`); symmetrically for
`bBox_.max`.  Vertices with a NaN x are ignored ("Ignores NaNs"). -/
theorem bbox_tight (lo hi : V3 F) (verts : List (V3 (Option F))) (hadm : ∀ v ∈ verts, Adm v) :
    (∃ p : V3 F, stdReduce bbMin (lift lo) verts = lift p ∧
      (∀ q : V3 F, lift q ∈ lift lo :: verts → p.x ≤ q.x ∧ p.y ≤ q.y ∧ p.z ≤ q.z) ∧
      (∃ q : V3 F, lift q ∈ lift lo :: verts ∧ q.x = p.x) ∧
      (∃ q : V3 F, lift q ∈ lift lo :: verts ∧ q.y = p.y) ∧
      (∃ q : V3 F, lift q ∈ lift lo :: verts ∧ q.z = p.z)) ∧
    (∃ p : V3 F, stdReduce bbMax (lift hi) verts = lift p ∧
      (∀ q : V3 F, lift q ∈ lift hi :: verts → q.x ≤ p.x ∧ q.y ≤ p.y ∧ q.z ≤ p.z) ∧
      (∃ q : V3 F, lift q ∈ lift hi :: verts ∧ q.x = p.x) ∧
      (∃ q : V3 F, lift q ∈ lift hi :: verts ∧ q.y = p.y) ∧
      (∃ q : V3 F, lift q ∈ lift hi :: verts ∧ q.z = p.z)) :=
  ⟨bbox_tight_any_bracketing lo verts hadm (stdReduce_red _ _ _),
   bbox_tight_max_any_bracketing hi verts hadm (stdReduce_red _ _ _)⟩

open MV.Par in
/-- **bbox_tight_tbb.**  The parallel build: `manifold::reduce(Par, …)` hands the range to
`tbb::parallel_reduce` with `init` as identity (`MV.Par.parReduce`, the model of C13a).  For EVERY
split tree `t` — any grain, any stealing pattern — `bBox_.min` is the same tight bound (and
symmetrically `bBox_.max`): the bounding box does not depend on the schedule. -/
theorem bbox_tight_tbb (i : V3 F) (verts : List (V3 (Option F))) (hadm : ∀ v ∈ verts, Adm v) (t : Sched) :
    (∃ p : V3 F, parReduce bbMin (lift i) t verts = lift p ∧
      (∀ q : V3 F, lift q ∈ lift i :: verts → p.x ≤ q.x ∧ p.y ≤ q.y ∧ p.z ≤ q.z) ∧
      (∃ q : V3 F, lift q ∈ lift i :: verts ∧ q.x = p.x) ∧
      (∃ q : V3 F, lift q ∈ lift i :: verts ∧ q.y = p.y) ∧
      (∃ q : V3 F, lift q ∈ lift i :: verts ∧ q.z = p.z)) ∧
    (∃ p : V3 F, parReduce bbMax (lift i) t verts = lift p ∧
      (∀ q : V3 F, lift q ∈ lift i :: verts → q.x ≤ p.x ∧ q.y ≤ p.y ∧ q.z ≤ p.z) ∧
      (∃ q : V3 F, lift q ∈ lift i :: verts ∧ q.x = p.x) ∧
      (∃ q : V3 F, lift q ∈ lift i :: verts ∧ q.y = p.y) ∧
      (∃ q : V3 F, lift q ∈ lift i :: verts ∧ q.z = p.z)) := by
  have hadm' : ∀ v ∈ lift i :: verts, Adm v := by
    intro v hv
    rcases List.mem_cons.1 hv with rfl | hv
    · exact Or.inr ⟨i, rfl⟩
    · exact hadm v hv
  have key : ∀ {R : F → F → Prop} {s : F → F → F} (_ : Sel R s) {sel : Option F → Option F → Option F}
      (_ : ∀ x y, sel (some x) (some y) = some (s x y)),
      Tight R (lift i :: verts) (parReduce (bbOp sel) (lift i) t verts) := by
    intro R s hS sel hs
    unfold parReduce
    split
    · next he =>
      have : verts = [] := List.isEmpty_iff.1 he
      subst this
      exact red_tight hS hs (Red.one _) hadm'
    · obtain ⟨L', hr, hsub, hsup⟩ := reduceGo_red (bbOp sel) (lift i) t (lift i) verts [lift i] (Red.one _)
      have hm : ∀ x, x ∈ L' ↔ x ∈ lift i :: verts := by
        intro x
        constructor
        · intro hx
          rcases hsub x hx with h | h | h
          · exact List.mem_cons.2 (Or.inl (by simpa using h))
          · exact List.mem_cons_of_mem _ h
          · exact List.mem_cons.2 (Or.inl h)
        · intro hx
          rcases List.mem_cons.1 hx with h | h
          · exact hsup x (Or.inl (by simp [h]))
          · exact hsup x (Or.inr h)
      exact (red_tight hS hs hr (fun v hv => hadm' v ((hm v).1 hv))).congr hm
  constructor
  · rcases (bbMin_eq (F := F)) ▸ key sel_min laMin_some with ⟨_, hall⟩ | h
    · exact absurd (hall (lift i) (by simp)) (lift_x_ne_none i)
    · exact h
  · rcases (bbMax_eq (F := F)) ▸ key sel_max laMax_some with ⟨_, hall⟩ | h
    · exact absurd (hall (lift i) (by simp)) (lift_x_ne_none i)
    · exact h

/-- `calcBBox` is `bbox_tight`'s pair of reductions started from `vec3(inf)` and `vec3(-inf)` -/
theorem calcBBox_eq [MConst (Option F)] (I : F) (hI : (MConst.inf : Option F) = some I)
    (verts : List (V3 (Option F))) :
    calcBBox verts = (stdReduce bbMin (lift ⟨I, I, I⟩) verts, stdReduce bbMax (lift ⟨-I, -I, -I⟩) verts) := by
  unfold calcBBox
  simp only [hI]
  rfl

/-- five vertices: one NaN in x (skipped), four NaN-free; `inf` played by `100` -/
example :
    let r := stdReduce bbMin (lift (⟨100, 100, 100⟩ : V3 ℚ))
      [lift ⟨1, 5, 2⟩, ⟨none, some 0, some (-50)⟩, lift ⟨3, -1, 2⟩, lift ⟨2, 2, 9⟩, lift ⟨7, 0, 0⟩]
    r.x = some 1 ∧ r.y = some (-1) ∧ r.z = some 0 := by
  decide +kernel

/-- the admissibility hypothesis is needed: a NaN in y alone is not skipped, and whether it
survives depends on the position of the vertex (`a < b ? a : b` returns `b` on NaN) -/
example :
    (stdReduce bbMin (lift (⟨100, 100, 100⟩ : V3 ℚ)) [⟨some 1, none, some 1⟩, lift ⟨2, 2, 2⟩]).y = some 2 ∧
    (stdReduce bbMin (lift (⟨100, 100, 100⟩ : V3 ℚ)) [lift ⟨2, 2, 2⟩, ⟨some 1, none, some 1⟩]).y = none := by
  constructor <;> decide +kernel

end BBox

section Field2
variable {F : Type} [Field F] [LinearOrder F] [IsStrictOrderedRing F]

/-! ## 4. MinGap -/

/-- **mingap_candidates_complete.**  Let `boxA i` / `boxB j` be boxes containing triangle `i` of
`self` / triangle `j` of `other` (`GetFaceBoxMorton`), let the distance function return the squared
distance of two points of the two triangles (`hD`; oracle-checked, not proved), and let `cand`
contain every pair whose boxes overlap after inflating `boxB j` by `searchLength ≥ 0` — which is
what the collider reports by C14's `query_iff_overlap`.  Then `Impl::MinGap` computed over `cand`
equals the brute-force value over ALL pairs of triangles: no pair left out can be closer than
`searchLength` (`far_boxes_far_points`), and the result is clamped there. -/
theorem mingap_candidates_complete [MConst F] (sqrt : F → F) (self other : KMesh F) (L : F)
    (hL : 0 ≤ L) (boxA boxB : Nat → BoxF F)
    (hD : ∀ i j, i < numTri self → j < numTri other → ∃ p q : V3 F, (boxA i).Has p ∧ (boxB j).Has q ∧
      triTriDist2 (triOf self i) (triOf other j) = dist2 p q)
    (cand : List (Nat × Nat))
    (hsub : ∀ pr ∈ cand, pr.1 < numTri self ∧ pr.2 < numTri other)
    (hcomplete : ∀ i j, i < numTri self → j < numTri other →
      (boxA i).Overlaps ((boxB j).inflate L) → (i, j) ∈ cand) :
    minGapOver sqrt self other L cand = minGapAll sqrt self other L := by
  unfold minGapAll minGapOver
  dsimp only
  congr 1
  apply clamped_fold_eq (fun pr : Nat × Nat => triTriDist2 (triOf self pr.1) (triOf other pr.2))
  · intro p hp; exact mem_allPairs.2 (hsub p hp)
  · intro p hp hnc
    obtain ⟨h1, h2⟩ := mem_allPairs.1 hp
    obtain ⟨x, y, hx, hy, hd⟩ := hD p.1 p.2 h1 h2
    have hno : ¬ (boxA p.1).Overlaps ((boxB p.2).inflate L) := fun ho => hnc (hcomplete p.1 p.2 h1 h2 ho)
    show L * L ≤ _
    rw [hd]
    exact le_of_lt (far_boxes_far_points _ _ L hL hno hx hy)

/-- one triangle in the plane `z = height` -/
def exFlat (z : ℚ) : KMesh ℚ :=
  { vertPos := #[⟨0, 0, z⟩, ⟨1, 0, z⟩, ⟨0, 1, z⟩], vertNormal := #[V3.zero, V3.zero, V3.zero],
    faceNormal := #[V3.zero], start := #[0, 1, 2], pair := #[0, 1, 2] }

example : triTriDist2 (triOf (exFlat 0) 0) (triOf (exFlat 1) 0) = 1 := by decide +kernel

/-- all hypotheses of `mingap_candidates_complete` hold for two parallel triangles one apart -/
example : minGapOver id (exFlat 0) (exFlat 1) 3 [(0, 0)] = minGapAll id (exFlat 0) (exFlat 1) 3 :=
  mingap_candidates_complete id (exFlat 0) (exFlat 1) 3 (by norm_num)
    (fun _ => ⟨⟨0, 0, 0⟩, ⟨1, 1, 0⟩⟩) (fun _ => ⟨⟨0, 0, 1⟩, ⟨1, 1, 1⟩⟩)
    (by
      intro i j hi hj
      have hi' : i = 0 := by have : numTri (exFlat 0) = 1 := rfl; omega
      have hj' : j = 0 := by have : numTri (exFlat 1) = 1 := rfl; omega
      subst hi' hj'
      refine ⟨⟨0, 0, 0⟩, ⟨0, 0, 1⟩, ?_, ?_, ?_⟩
      · simp [BoxF.Has]
      · simp [BoxF.Has]
      · have : triTriDist2 (triOf (exFlat 0) 0) (triOf (exFlat 1) 0) = 1 := by decide +kernel
        rw [this]; simp [dist2])
    [(0, 0)] (by intro pr h; simp at h; subst h; exact ⟨by decide, by decide⟩)
    (by
      intro i j hi hj _
      have hi' : i = 0 := by have : numTri (exFlat 0) = 1 := rfl; omega
      have hj' : j = 0 := by have : numTri (exFlat 1) = 1 := rfl; omega
      subst hi' hj'; simp)

/-- re-export of the geometric half under the name the plan uses -/
theorem mingap_far_boxes (a b : BoxF F) (L : F) (hL : 0 ≤ L) (h : ¬ a.Overlaps (b.inflate L))
    {p q : V3 F} (hp : a.Has p) (hq : b.Has q) : L * L < dist2 p q :=
  far_boxes_far_points a b L hL h hp hq

example : let a : BoxF ℚ := ⟨⟨0, 0, 0⟩, ⟨1, 1, 1⟩⟩; let b : BoxF ℚ := ⟨⟨3, 0, 0⟩, ⟨4, 1, 1⟩⟩
    ¬ a.Overlaps (b.inflate (3 / 2)) ∧ a.Overlaps (b.inflate 2) ∧ a.Has ⟨1, 1, 1⟩ ∧ b.Has ⟨3, 0, 0⟩ ∧
      (3 / 2 : ℚ) * (3 / 2) < dist2 (⟨1, 1, 1⟩ : V3 ℚ) ⟨3, 0, 0⟩ := by
  refine ⟨?_, ?_, ?_, ?_, ?_⟩ <;> simp [BoxF.Overlaps, BoxF.inflate, BoxF.Has, dist2] <;> norm_num

/-! ## 5. RayCast -/

theorem rayHit_spec [MConst F] (h1 : (MConst.one : F) = 1) (m : KMesh F) (o e : V3 F) (tri : Nat)
    (h : Hit F) (hh : rayHit m o e tri = some h) : h.tri = tri ∧ 0 ≤ h.t ∧ h.t ≤ 1 := by
  unfold rayHit at hh
  simp only at hh
  split at hh
  · cases hh
  · split at hh
    · split at hh
      · next hc =>
        cases hh
        simp only [Bool.and_eq_true] at hc
        obtain ⟨c1, c2⟩ := hc
        refine ⟨rfl, ?_, ?_⟩
        · exact (le_iff _ _).1 c1
        · have := (le_iff _ _).1 c2
          rw [h1] at this; exact this
      · cases hh
    · cases hh

/-- the guard of `RayCast`: the mesh is not empty and the segment has positive length -/
def rayGuard (m : KMesh F) (o e : V3 F) : Bool :=
  !(numTri m == 0) && !(Scalar.beq (dot (vsub e o) (vsub e o)) (Scalar.zero : F))

theorem rayCastOver_eq [MConst F] (m : KMesh F) (o e : V3 F) (cands : List Nat) :
    rayCastOver m o e cands =
      if rayGuard m o e then sortHits (cands.filterMap (rayHit m o e)) else [] := by
  unfold rayCastOver rayGuard
  by_cases h1 : (numTri m == 0) = true
  · simp [h1]
  · by_cases h2 : Scalar.beq (dot (vsub e o) (vsub e o)) (Scalar.zero : F) = true
    · simp [h1, h2]
    · simp [h1, h2]

/-- **raycast_sorted.**  The output of `RayCast` over ANY candidate list is sorted by the distance
key and is a permutation of the candidate crossings the recorder accepted (when the guard holds;
empty otherwise): nothing is lost or duplicated by the sort. -/
theorem raycast_sorted [MConst F] (m : KMesh F) (o e : V3 F) (cands : List Nat) :
    SortedHits (rayCastOver m o e cands) ∧
      (rayCastOver m o e cands).Perm
        (if rayGuard m o e then cands.filterMap (rayHit m o e) else []) := by
  rw [rayCastOver_eq]
  split
  · exact sortHits_spec _
  · exact ⟨by simp [SortedHits], List.Perm.refl _⟩

/-- **raycast_hits_exact.**  With every triangle a candidate (`rayCast`; equal to the collider's
candidates on every run, and by C14 always): every reported hit is the recorder's answer for its
own triangle, its parameter lies on the segment `[0,1]`, every triangle whose crossing the recorder
accepts is reported, and no triangle is reported twice. -/
theorem raycast_hits_exact [MConst F] (h1 : (MConst.one : F) = 1) (m : KMesh F) (o e : V3 F) :
    (∀ h ∈ rayCast m o e, h.tri < numTri m ∧ rayHit m o e h.tri = some h ∧ 0 ≤ h.t ∧ h.t ≤ 1) ∧
    (rayGuard m o e = true → ∀ t < numTri m, ∀ h, rayHit m o e t = some h → h ∈ rayCast m o e) ∧
    ((rayCast m o e).map (·.tri)).Nodup := by
  obtain ⟨_, hperm⟩ := raycast_sorted m o e (List.range (numTri m))
  have hmem : ∀ h, h ∈ rayCast m o e →
      ∃ t, t < numTri m ∧ rayHit m o e t = some h := by
    intro h hh
    have := hperm.subset hh
    split at this
    · obtain ⟨t, ht, he⟩ := List.mem_filterMap.1 this
      exact ⟨t, List.mem_range.1 ht, he⟩
    · cases this
  refine ⟨?_, ?_, ?_⟩
  · intro h hh
    obtain ⟨t, ht, he⟩ := hmem h hh
    obtain ⟨e1, e2, e3⟩ := rayHit_spec h1 m o e t h he
    subst e1
    exact ⟨ht, he, e2, e3⟩
  · intro hg t ht h he
    apply hperm.symm.subset
    rw [if_pos hg]
    exact List.mem_filterMap.2 ⟨t, List.mem_range.2 ht, he⟩
  · have hp := hperm.map (·.tri)
    apply hp.nodup_iff.2
    split
    · have hsub : ((List.range (numTri m)).filterMap (rayHit m o e)).map (·.tri) =
          (List.range (numTri m)).filter (fun t => (rayHit m o e t).isSome) := by
        induction (List.range (numTri m)) with
        | nil => rfl
        | cons t l ih =>
          simp only [List.filterMap_cons, List.filter_cons]
          cases hrt : rayHit m o e t with
          | none => simpa using ih
          | some h =>
            have := (rayHit_spec h1 m o e t h hrt).1
            simp [ih, this]
      rw [hsub]
      exact List.Nodup.filter _ List.nodup_range
    · simp

/-- the unit tetrahedron with outward normals -/
def exTetN : KMesh ℚ := { exTet with
  faceNormal := #[⟨0, 0, -1⟩, ⟨0, -1, 0⟩, ⟨1, 1, 1⟩, ⟨-1, 0, 0⟩],
  vertNormal := #[⟨-1, -1, -1⟩, ⟨1, 0, 0⟩, ⟨0, 1, 0⟩, ⟨0, 0, 1⟩] }

/-- the model's `RayCast` at `ℚ`: the vertical segment through `(1/4, 1/5)` enters through the bottom
face at `t = 1/3` and leaves through the slanted face at `t = 31/60` -/
example : ((rayCast exTetN ⟨1/4, 1/5, -1⟩ ⟨1/4, 1/5, 2⟩).map fun h => (h.tri, h.t)) = [(0, 1/3), (2, 31/60)] := by
  decide +kernel

example : pointWinding exTetN (calcBBox exTetN.vertPos.toList) ⟨1/4, 1/5, 1/10⟩ = 1 ∧
    pointWinding exTetN (calcBBox exTetN.vertPos.toList) ⟨1/4, 1/5, 9/10⟩ = 0 := by
  constructor <;> decide +kernel

example : SortedHits (sortHits [(⟨0, 3 / 4, V3.zero⟩ : Hit ℚ), ⟨1, 1 / 4, V3.zero⟩, ⟨2, 1 / 2, V3.zero⟩]) ∧
    (sortHits [(⟨0, 3 / 4, V3.zero⟩ : Hit ℚ), ⟨1, 1 / 4, V3.zero⟩, ⟨2, 1 / 2, V3.zero⟩]).map (·.tri) = [1, 2, 0] := by
  refine ⟨(sortHits_spec _).1, by decide +kernel⟩

end Field2

/-! ## 5b. hit parity -/

/-
Full statement (NOT proved): for a closed surface and a generic segment, the number of hits is odd
exactly when one end is inside and the other outside.  It needs that `Kernel12` reports exactly the
geometric crossings and that each crossing of a closed surface switches insideness; both are
oracle-checked on every run (Moeller-Trumbore on all triangles, solid-angle winding at both ends).
-/

/-- **hit_parity_partial.**  What is proved is the counting step: if insideness switches at every
reported hit, then after all of them it differs from the initial one exactly when their number is
odd. -/
theorem hit_parity_partial {α : Type} (hits : List α) (inside0 : Bool) :
    hits.foldl (fun b _ => !b) inside0 = (inside0 != decide (hits.length % 2 = 1)) := by
  induction hits generalizing inside0 with
  | nil => simp
  | cons h t ih =>
    rw [List.foldl_cons, ih, List.length_cons]
    have : (t.length + 1) % 2 = 1 ↔ ¬ t.length % 2 = 1 := by omega
    cases inside0 <;> by_cases hp : t.length % 2 = 1 <;> simp [hp, this]

example : [10, 20, 30].foldl (fun b _ => !b) false = true := by
  rw [hit_parity_partial]; decide

/-! ## 6. Decompose -/

open MV.Dsu MV.C13c in
/-- **decompose_is_partition.**  Let the triangle list have its indices `< nV` and contain the
reverse of every directed edge (closed surface).  If `decompose` returns `(k, lab, faces)` (it does
whenever the single thread's `unite` program finishes within the model's fuel; the driver reports
the opposite as `fuel`), then, with `E` = the forward halfedges `(Start, End)`:
* `lab` has one entry per vertex, values exactly `0 … k-1`, every value used;
* two vertices carry the same label iff they are joined by a path of mesh edges (`Conn E`):
  the labels ARE the connected components;
* the three corners of every triangle carry the same label;
* every triangle index lies in `faces[i]` for exactly one `i`, namely the label of its corners:
  the face lists of `Decompose` partition the triangles. -/
theorem decompose_is_partition {nV : Nat} {ts : List Tri} (hr : ∀ t ∈ ts, TriInRange nV t)
    (hrev : ∀ a b, (a, b) ∈ dirEdges ts → (b, a) ∈ dirEdges ts)
    {k : Nat} {lab : List Nat} {faces : List (List Nat)}
    (h : decompose nV ts = some (k, lab, faces)) :
    lab.length = nV ∧ (∀ v, v < nV → lab.getD v 0 < k) ∧ (∀ l, l < k → ∃ v, v < nV ∧ lab.getD v 0 = l) ∧
    (∀ u v, u < nV → v < nV → (lab.getD u 0 = lab.getD v 0 ↔ Conn (forwardEdges ts) u v)) ∧
    (∀ t ∈ ts, lab.getD t.1 0 = lab.getD t.2.1 0 ∧ lab.getD t.2.1 0 = lab.getD t.2.2 0) ∧
    faces.length = k ∧
    (∀ f, f < ts.length → ∀ i, i < k →
      (f ∈ faces.getD i [] ↔ lab.getD (ts.getD f default).1 0 = i)) := by
  unfold decompose at h
  split at h
  · cases h
  · next s hs =>
    simp only [Option.some.injEq, Prod.mk.injEq] at h
    obtain ⟨rfl, rfl, rfl⟩ := h
    unfold decomposeState at hs
    obtain ⟨hq, sched, hex⟩ := runAlone_spec _ _ _ hs
    have hp := progsOk_uniteProg hr
    obtain ⟨hconn, hlen, hlt, hused⟩ := dsu_quiescent_partition hp ⟨sched, hex⟩ hq
    rw [allUnitePairs_single] at hconn
    have hlab : ∀ u v, u < nV → v < nV →
        ((connectedComponents s.mem).2.getD u 0 = (connectedComponents s.mem).2.getD v 0 ↔
          Conn (forwardEdges ts) u v) := fun u v hu hv => (hconn u v hu hv).2.2
    refine ⟨hlen, hlt, hused, hlab, ?_, by simp, ?_⟩
    · intro t ht
      obtain ⟨r1, r2, r3⟩ := hr t ht
      obtain ⟨e1, e2, _⟩ := tri_edges_mem ht
      exact ⟨(hlab _ _ r1 r2).2 (conn_of_dirEdge hrev e1), (hlab _ _ r2 r3).2 (conn_of_dirEdge hrev e2)⟩
    · intro f hf i hi
      simp only [List.getD_eq_getElem?_getD, List.getElem?_map, List.getElem?_range hi, Option.map_some,
        Option.getD_some, List.mem_filter, List.mem_range, hf, true_and, List.getElem?_eq_getElem hf,
        beq_iff_eq]

/-- two tetrahedra on disjoint vertex sets: two components, faces `0-3` and `4-7` -/
def exTwoTets : List Tri :=
  [(0, 2, 1), (0, 1, 3), (1, 2, 3), (2, 0, 3), (4, 6, 5), (4, 5, 7), (5, 6, 7), (6, 4, 7)]

example : decompose 8 exTwoTets =
    some (2, [0, 0, 0, 0, 1, 1, 1, 1], [[0, 1, 2, 3], [4, 5, 6, 7]]) := by decide +kernel

/-! ## 7. Genus -/

/-- **genus_formula.**  On a closed oriented mesh the number of triangles is even,
`NumEdge() = 3F/2` is the number of undirected edges, and `Genus() = 1 - χ/2` with
`χ = V - E + F`; hence `Genus() = g` whenever `χ = 2 - 2g` (a connected closed surface of genus
`g`; for several components `χ = 2c - 2Σg`, which the code's formula folds into one number). -/
theorem genus_formula {nV : Nat} {ts : List Tri} (h : ClosedOriented ts) :
    2 * numEdge ts = 3 * ts.length ∧ numEdge ts = numUndirected ts ∧
    eulerGenus nV ts = 1 - Int.tdiv ((nV : Int) - (numEdge ts : Int) + (ts.length : Int)) 2 ∧
    ∀ g : Int, (nV : Int) - (numEdge ts : Int) + (ts.length : Int) = 2 - 2 * g → eulerGenus nV ts = g := by
  have h1 := euler_edges h
  have h2 : numEdge ts = numUndirected ts := by unfold numEdge; omega
  refine ⟨by omega, h2, rfl, ?_⟩
  intro g hg
  unfold eulerGenus
  rw [hg]
  have : Int.tdiv (2 - 2 * g) 2 = 1 - g := by
    have : (2 - 2 * g : Int) = 2 * (1 - g) := by ring
    rw [this, Int.mul_tdiv_cancel_left _ (by decide)]
  omega

example : eulerGenus 4 (meshTris exTet) = 0 ∧ eulerGenus 8 exTwoTets = -1 := by decide

/-! ## 8. Slice: what is proved -/

section Slice
variable {F : Type} [Field F] [LinearOrder F] [IsStrictOrderedRing F]

/-
Full statement (NOT proved): for a closed oriented mesh and a height that is no vertex's z, the walk
of `Slice` visits every crossing triangle exactly once, every loop closes, and the polygons have
the 2-D winding of the section.  Oracle-checked on every run (2-D winding of the real polygons
against the solid-angle winding on the plane), and the model's walk is compared with the real one
point for point.
-/

/-- **slice_partial.**  What is proved: the set of triangles the walk starts from is exactly the
set of triangles with a corner at or below the plane and a corner above it
(`min <= height && max > height`), for every height inside the range of the `inf` the code
starts its min/max from. -/
theorem slice_partial [MConst F] (m : KMesh F) (height : F)
    (hlo : -(MConst.inf : F) ≤ height) (hhi : height < (MConst.inf : F)) (t : Nat) :
    t ∈ sliceTris m height ↔ t < numTri m ∧
      ((corner m t 0).z ≤ height ∨ (corner m t 1).z ≤ height ∨ (corner m t 2).z ≤ height) ∧
      (height < (corner m t 0).z ∨ height < (corner m t 1).z ∨ height < (corner m t 2).z) := by
  unfold sliceTris crossesHeight
  simp only [List.mem_filter, List.mem_range, Bool.and_eq_true]
  have hmin : ∀ a b : F, stdMin a b = min a b := stdMin_eq_min
  have hmax : ∀ a b : F, stdMax a b = max a b := stdMax_eq_max
  have hle : ∀ a b : F, le a b = true ↔ a ≤ b := le_iff
  have hlt : ∀ a b : F, Scalar.lt a b = true ↔ a < b := lt_iff
  have hneg : (Scalar.neg (MConst.inf : F)) = -(MConst.inf : F) := rfl
  rw [hmin, hmin, hmin, hmax, hmax, hmax, hle, hlt, hneg]
  constructor
  · rintro ⟨ht, h1, h2⟩
    refine ⟨ht, ?_, ?_⟩
    · simp only [min_le_iff] at h1
      rcases h1 with ((h | h) | h) | h
      · exact absurd h (not_le.2 hhi)
      · exact Or.inl h
      · exact Or.inr (Or.inl h)
      · exact Or.inr (Or.inr h)
    · simp only [lt_max_iff] at h2
      rcases h2 with ((h | h) | h) | h
      · exact absurd h (not_lt.2 hlo)
      · exact Or.inl h
      · exact Or.inr (Or.inl h)
      · exact Or.inr (Or.inr h)
  · rintro ⟨ht, h1, h2⟩
    refine ⟨ht, ?_, ?_⟩
    · simp only [min_le_iff]
      rcases h1 with h | h | h
      · exact Or.inl (Or.inl (Or.inr h))
      · exact Or.inl (Or.inr h)
      · exact Or.inr h
    · simp only [lt_max_iff]
      rcases h2 with h | h | h
      · exact Or.inl (Or.inl (Or.inr h))
      · exact Or.inl (Or.inr h)
      · exact Or.inr h

end Slice

end MV.Measure.C18
