import MV.Model.Sweep2
import MV.Gen.WindRule
import MV.Proof.Sweep2Wind
import MV.Proof.Sweep2PolySet
import MV.Proof.Sweep2Vert
import MV.Proof.Sweep2Walk
import MV.Proof.Sweep2Loops
/-!
# C11 — CrossSections are regularised; 2-D Booleans compute the set operation

Theorems about the multiplicity logic of `src/boolean2_sweep.cpp` / `src/boolean2.cpp`
(models: `MV/Model/Sweep2.lean`; regenerated copies of the switch and of the seeding/emission
expressions: `MV/Gen/WindRule.lean`).

What is proved (all inputs): the fill rules on all integers; the emitted boundary of a status
column is the coboundary of the fill indicator (so the output winds 0/1 and is 1 exactly where the
rule holds); the seeded `PolySet2` depends only on the multiset of input edges modulo reversal
(operand order is immaterial for union/intersection, Subtract is Add of the reversed operand);
`MergeVerticals1D` preserves the signed coverage of every vertical line and emits disjoint sorted
intervals; in a balanced directed multigraph the loop extraction never gets stuck, for every
tie-breaking rule.

NOT proved here (exercised by `harness/c11_cross.cpp` only): that the floating-point sweep keeps
the status in the geometric order (Bentley–Ottmann completeness under rounding, block rule), the
eps-preprocessing (`MergeVerts`, incidence split).
-/
namespace MV.C11
open MV.Sweep2

/-! ## (a) the winding rules -/

/-- the switch regenerated from the source equals the hand model on the table −4..4 … -/
theorem isInside_table :
    (allRules.all fun r => (List.range 9).all fun i =>
      MV.Gen.WindRule.isInside r ((i : Int) - 4) == isInside r ((i : Int) - 4)) = true := by
  decide

/-- … and, since both are built from the code's comparisons, on ALL integers; together with
    the regenerated `bSign`/`rule` selection of `Boolean2D`, the operand multiplicities of
    `ApplyFillRule` and the orientation expression of `EmitBoundary`. -/
theorem gen_eq_model :
    (∀ r w, MV.Gen.WindRule.isInside r w = isInside r w)
    ∧ (∀ op, MV.Gen.WindRule.bSign op = bSign op)
    ∧ (∀ op, MV.Gen.WindRule.ruleOf op = ruleOf op)
    ∧ (∀ sgn, MV.Gen.WindRule.multA sgn = 1 ∧ MV.Gen.WindRule.multB sgn = sgn)
    ∧ (∀ r fwd b a, MV.Gen.WindRule.emitRaw r fwd b a = emitRaw r fwd b a)
    ∧ MV.Gen.WindRule.enumerators = ["Add", "Intersect", "EvenOdd"] := by
  have h1 : ∀ r w, MV.Gen.WindRule.isInside r w = isInside r w := by
    intro r w; cases r <;> rfl
  refine ⟨h1, ?_, ?_, ?_, ?_, ?_⟩
  · intro op; cases op <;> rfl
  · intro op; cases op <;> rfl
  · intro sgn; exact ⟨rfl, rfl⟩
  · intro r fwd b a
    unfold MV.Gen.WindRule.emitRaw emitRaw
    simp only [h1] <;> (cases isInside r b <;> cases isInside r a <;> cases fwd <;> rfl)
  · rfl

/-- the rules as predicates on every integer winding: positive / greater than one / odd;
    `Add` and `Intersect` are monotone, `EvenOdd` is 2-periodic, winding 0 is never filled. -/
theorem isInside_spec :
    (∀ w, isInside .add w = true ↔ 0 < w)
    ∧ (∀ w, isInside .intersect w = true ↔ 1 < w)
    ∧ (∀ w, isInside .evenOdd w = true ↔ w % 2 = 1)
    ∧ (∀ w w', w ≤ w' → isInside .add w = true → isInside .add w' = true)
    ∧ (∀ w w', w ≤ w' → isInside .intersect w = true → isInside .intersect w' = true)
    ∧ (∀ w, isInside .evenOdd (w + 2) = isInside .evenOdd w)
    ∧ (∀ r, isInside r 0 = false) :=
  ⟨isInside_add, isInside_intersect, isInside_evenOdd,
   fun _ _ h hw => isInside_add_mono h hw, fun _ _ h hw => isInside_intersect_mono h hw,
   isInside_evenOdd_periodic, isInside_zero⟩

example : isInside .evenOdd (-1) = true ∧ isInside .add (-1) = false ∧ isInside .intersect 2 = true := by
  decide

/-- `Boolean2D` on regularised operands (winding 0/1 each) is the set formula. -/
theorem boolean_is_set_formula (a b : Int) (ha : a = 0 ∨ a = 1) (hb : b = 0 ∨ b = 1) :
    opInside .add a b = (decide (a = 1) || decide (b = 1))
    ∧ opInside .subtract a b = (decide (a = 1) && !decide (b = 1))
    ∧ opInside .intersect a b = (decide (a = 1) && decide (b = 1)) :=
  ⟨opInside_add a b ha hb, opInside_subtract a b ha hb, opInside_intersect a b ha hb⟩

example : opInside .subtract 1 1 = false ∧ opInside .subtract 1 0 = true ∧ opInside .intersect 1 1 = true := by
  decide

/-- `BatchBoolean` Add/Subtract concatenates all clips into one operand whose winding is the SUM
    of the clips' 0/1 windings (they may overlap): still the union / the difference of the union. -/
theorem batch_is_set_formula (a : Int) (bs : List Int) (ha : a = 0 ∨ a = 1)
    (hb : ∀ b ∈ bs, b = 0 ∨ b = 1) :
    (batchInside .add a bs = true ↔ a = 1 ∨ ∃ b ∈ bs, b = 1)
    ∧ (batchInside .subtract a bs = true ↔ a = 1 ∧ ∀ b ∈ bs, b = 0) := by
  have hs := sum_zero_one_nonneg bs hb
  have hp := sum_zero_one_pos_iff bs hb
  have hz : (∀ b ∈ bs, b = 0) ↔ ¬ ∃ b ∈ bs, b = 1 := by
    constructor
    · rintro h ⟨b, hb1, hb2⟩; have := h b hb1; omega
    · intro h b hb1
      rcases hb b hb1 with h0 | h1
      · exact h0
      · exact absurd ⟨b, hb1, h1⟩ h
  constructor
  · have e : batchInside .add a bs = isInside .add (a + 1 * bs.sum) := rfl
    rw [e, isInside_add, ← hp]
    rcases ha with rfl | rfl <;> omega
  · have e : batchInside .subtract a bs = isInside .add (a + (-1) * bs.sum) := rfl
    rw [e, isInside_add, hz, ← hp]
    rcases ha with rfl | rfl <;> omega

example : batchInside .add 0 [0, 1, 1] = true ∧ batchInside .subtract 1 [1, 1] = false
    ∧ batchInside .subtract 1 [0, 0] = true := by decide

/-! ## (b) EmitBoundary is the coboundary of the fill indicator -/

/-- For every status column (`ms` = lex-forward multiplicities bottom to top, entered with running
    winding `w` = the sum over the strictly-under edges) and either hand-over direction `fwd`:
    every stored sign is −1, 0 or +1 and the sum of the signs up to gap `k` is
    `[rule W_k] − [rule w]` where `W_k = w + Σ_{j<k} m_j`. -/
theorem emit_is_coboundary (rule : WindRule) (fwd : Bool) (w : Int) (ms : List Int) :
    (emitFrom rule fwd w ms).length = ms.length
    ∧ (∀ e ∈ emitFrom rule fwd w ms, e = -1 ∨ e = 0 ∨ e = 1)
    ∧ ∀ k, ((emitFrom rule fwd w ms).take k).sum
        = ind (isInside rule (w + (ms.take k).sum)) - ind (isInside rule w) :=
  ⟨emitFrom_length rule fwd w ms, emitFrom_mem_range rule fwd w ms, emitFrom_prefix_sum rule fwd w ms⟩

/-- Hence for a whole column (entered at winding 0): the winding number of the OUTPUT in every
    gap is the indicator of the filled set — 0 or 1 everywhere, and 1 exactly where the rule holds
    on the input winding. -/
theorem output_winding_is_indicator (rule : WindRule) (ms : List Int) (k : Nat) :
    let wOut := ((emitColumn rule ms).take k).sum
    (wOut = 0 ∨ wOut = 1) ∧ (wOut = 1 ↔ isInside rule ((ms.take k).sum) = true) := by
  have h := emitFrom_prefix_sum rule true 0 ms k
  simp only [isInside_zero, ind, Int.zero_add] at h
  simp only [emitColumn, h]
  cases isInside rule (ms.take k).sum <;> simp

/-- the direction in which `ProcessEvent` hands a piece to `EmitBoundary` does not matter -/
theorem emit_direction_irrelevant (rule : WindRule) (fwd : Bool) (below above : Int) :
    emitLex rule fwd below above = emitSign rule below above := emitLex_eq_emitSign rule fwd below above

example : emitColumn .add [1, 1, -1, -1] = [1, 0, 0, -1]
    ∧ emitColumn .evenOdd [1, 1, -1, -1] = [1, -1, 1, -1]
    ∧ emitColumn .intersect [1, 1, -1, -1] = [0, 1, -1, 0]
    ∧ emitFrom .add false 2 [-1, -1, -1] = [0, -1, 0] := by decide

/-! ## (c) PolySet2 -/

/-- The seeded `PolySet2` is a function of the multiset of input edges: any permutation of the
    edge list gives the identical map (same entries in the same iteration order). -/
theorem polyset_perm {es fs : List DEdge} (h : es.Perm fs) : ofEdges es = ofEdges fs :=
  ofEdges_ext (fun k => sum_map_perm (contrib · k) h)

/-- Reversing an edge is negating its multiplicity; an edge and its reverse cancel; zero-length
    and zero-multiplicity edges vanish. -/
theorem polyset_cancel (a b : Pt) (m : Int) (es : List DEdge) :
    ofEdges ((b, a, -m) :: es) = ofEdges ((a, b, m) :: es)
    ∧ ofEdges ((a, b, m) :: (b, a, m) :: es) = ofEdges es
    ∧ ofEdges ((a, b, m) :: (a, b, -m) :: es) = ofEdges es
    ∧ ofEdges ((a, a, m) :: es) = ofEdges es
    ∧ ofEdges ((a, b, 0) :: es) = ofEdges es := by
  refine ⟨?_, ?_, ?_, ?_, ?_⟩ <;> apply ofEdges_ext <;> intro k <;>
    simp only [List.map_cons, List.sum_cons]
  · rw [contrib_reverse]
  · have := contrib_reverse a b (-m) k
    have h2 := contrib_neg a b m k
    simp only [Int.neg_neg] at this
    omega
  · have h2 := contrib_neg a b m k
    omega
  · rw [contrib_degenerate]; omega
  · rw [contrib_zero]; omega

/-- the map is in canonical form: keys strictly increasing in `PairLexLess`, no zero entry;
    and the stored multiplicity of a key is the signed count of the input edges on it. -/
theorem polyset_canonical (es : List DEdge) :
    Canon (ofEdges es) ∧ ∀ k, mult (ofEdges es) k = (es.map (contrib · k)).sum :=
  ⟨canon_ofEdges es, mult_ofEdges es⟩

/-- seeding is symmetric in the operands for Add and Intersect (both use `bSign = +1`) -/
theorem polyset_union_comm (a b : List (List Pt)) : seed a b (bSign .add) = seed b a (bSign .add) :=
  polyset_perm List.perm_append_comm

theorem polyset_inter_comm (a b : List (List Pt)) :
    seed a b (bSign .intersect) = seed b a (bSign .intersect) :=
  polyset_perm List.perm_append_comm

/-- `Boolean2D(a, b, Subtract)` = the Add rule on `a` plus `b` with multiplicity −1, and that
    seeds the same `PolySet2` as `a` plus `b` with every edge reversed. -/
theorem subtract_is_add_with_negated_B (a b : List (Pt × Pt)) :
    ruleOf .subtract = .add ∧ bSign .subtract = -1
    ∧ seedEdges a b (-1) = seedEdges a (b.map fun e => (e.2, e.1)) 1 := by
  refine ⟨rfl, rfl, ?_⟩
  apply ofEdges_ext
  intro k
  simp only [List.map_append, List.sum_append, List.map_map]
  congr 1
  induction b with
  | nil => rfl
  | cons e b ih =>
    simp only [List.map_cons, List.sum_cons, Function.comp] at ih ⊢
    rw [ih]
    have := contrib_reverse e.1 e.2 (-1) k
    simp only [Int.neg_neg] at this
    rw [this]

example : ofEdges [((0, 0), (1, 0), 1), ((1, 0), (0, 0), 1), ((2, 0), (1, 5), 3), ((1, 5), (2, 0), -1)]
    = [(((1, 5), (2, 0)), -4)] := by decide

example : seed [[(0, 0), (2, 0), (2, 2)]] [[(0, 0), (2, 2), (0, 2)]] 1
    = seed [[(0, 0), (2, 2), (0, 2)]] [[(0, 0), (2, 0), (2, 2)]] 1 := by decide

/-! ## (d) MergeVerticals1D -/

/-- On one vertical line: the emitted intervals are non-degenerate, non-zero, sorted and
    pairwise disjoint (each ends where or before the next starts), their endpoints are input
    endpoints, and at every `y` that is not an input endpoint the signed coverage is unchanged. -/
theorem verticals_coverage (segs : List (Int × Int × Int)) (hwf : ∀ s ∈ segs, s.1 < s.2.1) :
    (∀ s ∈ mergeLine segs, s.1 < s.2.1 ∧ s.2.2 ≠ 0)
    ∧ (mergeLine segs).Pairwise (fun a b => a.2.1 ≤ b.1)
    ∧ (∀ s ∈ mergeLine segs, ∃ t ∈ segs, s.2.1 = t.1 ∨ s.2.1 = t.2.1)
    ∧ ∀ y, (∀ s ∈ segs, y ≠ s.1 ∧ y ≠ s.2.1) → cov (mergeLine segs) y = cov segs y := by
  have hs : DSorted (deltaOf segs) := by
    rw [deltaOf_eq]; exact dsorted_fold (by simp [DSorted]) segs
  have hshape := scan_none_shape (deltaOf segs) hs
  have hkeys : ∀ e ∈ deltaOf segs, ∃ t ∈ segs, e.1 = t.1 ∨ e.1 = t.2.1 := by
    intro e he
    rw [deltaOf_eq] at he
    rcases keys_fold segs he with ⟨e', he', _⟩ | h
    · simp at he'
    · exact h
  refine ⟨fun s h => ⟨(hshape.1 s h).1, (hshape.1 s h).2.1⟩, hshape.2, ?_, ?_⟩
  · intro s h
    obtain ⟨_, _, _, e, he, h4⟩ := hshape.1 s h
    obtain ⟨t, ht, hk⟩ := hkeys e he
    exact ⟨t, ht, by omega⟩
  · intro y hy
    unfold mergeLine
    have hyd : ∀ e ∈ deltaOf segs, y ≠ e.1 := by
      intro e he
      obtain ⟨t, ht, hk⟩ := hkeys e he
      have := hy t ht
      omega
    have ht : deltaTotal (deltaOf segs) = 0 := by
      rw [deltaOf_eq, deltaTotal_fold]; rfl
    rw [cov_scan_none _ y hs hyd ht]
    exact deltaBelow_deltaOf segs hwf y hy

example : mergeLine [(0, 4, 1), (2, 6, 1), (1, 3, -1), (6, 8, 2), (8, 9, -1), (8, 9, 1)]
    = [(0, 1, 1), (2, 3, 1), (3, 4, 2), (4, 6, 1), (6, 8, 2)] := by decide

/-! ## (e) closed walks -/

/-- In a finite directed multigraph in which every vertex has as many out-edges as in-edges,
    the extraction loop of `OutEdgesToPolygons` — with ANY rule for picking the next unused
    out-edge (`choose`; the code's smallest-CCW-turn rule is one instance) — never gets stuck:
    every walk returns to its start vertex, every edge is consumed exactly once, and the loops
    partition the edge set into closed walks. -/
theorem closed_walks (es : Graph) (choose : Nat → List Nat → Nat)
    (hbal : ∀ v, outdeg es v = indeg es v) :
    let r := extractAll es choose
    r.allClosed = true
    ∧ r.visited.Perm (List.range es.length)
    ∧ r.loops.flatten.Perm (List.range es.length)
    ∧ ∀ l ∈ r.loops, l ≠ [] ∧ ∃ s, WalkFromTo es s l s := by
  have h0 : ExtractOk es ⟨[], true, []⟩ := by
    refine ⟨rfl, List.nodup_nil, by simp, ?_, by simp, by simp⟩
    intro v
    have := hbal v
    simpa [outU, inU, outdeg, indeg] using this
  obtain ⟨hok, hall⟩ := extractFrom_spec es choose (List.range es.length) _
    (fun e he => List.mem_range.mp he) h0
  have hvis : (extractAll es choose).visited.Perm (List.range es.length) := by
    unfold extractAll
    rw [List.perm_ext_iff_of_nodup hok.nodup List.nodup_range]
    intro a
    constructor
    · intro ha; exact List.mem_range.mpr (hok.bound a ha)
    · intro ha; exact hall a (Or.inl ha)
  exact ⟨hok.allClosed, hvis, hok.perm.trans hvis, hok.loops⟩

/-- a bow-tie (two triangles sharing vertex 0) with the worst possible oracle (always the last
    candidate): still two closed walks using all six edges -/
example : (extractAll [(0, 1), (1, 2), (2, 0), (0, 3), (3, 4), (4, 0)] (fun _ cs => cs.getLastD 0)).allClosed = true
    ∧ (extractAll [(0, 1), (1, 2), (2, 0), (0, 3), (3, 4), (4, 0)] (fun _ cs => cs.getLastD 0)).loops
        = [[0, 1, 2], [3, 4, 5]] := by decide

/-- `PushSimpleLoops`: whatever walks were extracted, every polygon handed out has at least three
    vertices and repeats no vertex id (a contour is vertex-simple). -/
theorem simple_loops (verts : List Pt) (es : Graph) :
    ∀ l ∈ (outEdgesToPolygons verts es).1, l.Nodup ∧ 3 ≤ l.length := by
  unfold outEdgesToPolygons
  simp only
  generalize ((extractAll es (pickCcw verts es)).loops.map fun l => l.map es.v0) = loopsV
  have key : ∀ (ls : List (List Nat)) (out : List (List Nat)),
      (∀ x ∈ out, x.Nodup ∧ 3 ≤ x.length) →
      ∀ x ∈ ls.foldl (fun out l => if l.length ≥ 3 then pushSimpleLoops l.length l out else out) out,
        x.Nodup ∧ 3 ≤ x.length := by
    intro ls
    induction ls with
    | nil => intro out h; simpa using h
    | cons l ls ih =>
      intro out h
      simp only [List.foldl_cons]
      apply ih
      by_cases h3 : l.length ≥ 3
      · simp only [h3, if_true]; exact pushSimpleLoops_simple _ l out (Nat.le_refl _) h
      · simp only [h3, if_false]; exact h
  exact key loopsV [] (by simp)

/-- a walk that passes twice through vertex 0 is cut into two simple triangles -/
example : pushSimpleLoops 6 [0, 1, 2, 0, 3, 4] [] = [[0, 1, 2], [0, 3, 4]] := by decide

/-! ## pixel semantics (the executable specification used by the harness) -/

theorem pixel_union_comm (a b : Expr) (i j : Int) :
    pixelIn (.bin .add a b) i j = pixelIn (.bin .add b a) i j := by
  simp only [pixelIn]; exact Bool.or_comm _ _

theorem pixel_inter_comm (a b : Expr) (i j : Int) :
    pixelIn (.bin .intersect a b) i j = pixelIn (.bin .intersect b a) i j := by
  simp only [pixelIn]; exact Bool.and_comm _ _

/-- `pixelEval` lists exactly the pixels of the window that belong to the denoted set (each once,
    row-major), so its length is the pixel count the harness compares `Area()` with. -/
theorem pixelEval_mem (lo hi : Int) (e : Expr) (i j : Int) :
    (i, j) ∈ pixelEval lo hi e ↔ (lo ≤ i ∧ i < hi ∧ lo ≤ j ∧ j < hi) ∧ pixelIn e i j = true := by
  unfold pixelEval
  simp only [List.mem_flatMap, List.mem_filterMap, List.mem_range]
  constructor
  · rintro ⟨dj, hdj, di, hdi, h⟩
    split at h
    · rename_i hp
      simp only [Option.some.injEq, Prod.mk.injEq] at h
      obtain ⟨rfl, rfl⟩ := h
      exact ⟨by omega, hp⟩
    · simp at h
  · rintro ⟨⟨h1, h2, h3, h4⟩, hp⟩
    refine ⟨(j - lo).toNat, by omega, (i - lo).toNat, by omega, ?_⟩
    have e1 : lo + ((i - lo).toNat : Int) = i := by omega
    have e2 : lo + ((j - lo).toNat : Int) = j := by omega
    simp only [e1, e2, hp, if_true]

/-- the area of a pixel set is its number of pixels: a rectangle has `(x1−x0)(y1−y0)` of them
    inside any window that contains it -/
theorem pixel_area_rect_example :
    (pixelEval (-2) 10 (.rect 1 2 4 7)).length = (4 - 1) * (7 - 2) := by decide

example : pixelEval 0 4 (.bin .subtract (.rect 0 0 3 3) (.rot90 (.rect 0 (-2) 2 (-1))))
    = [(0, 0), (2, 0), (0, 1), (2, 1), (0, 2), (1, 2), (2, 2)] := by decide

end MV.C11
