/-
Property C14 — the collider (spatial index) of /repo/src/collider.h.

  "A collision query against the bounding-volume hierarchy reports a (query, leaf) pair if and
   only if the query box or point overlaps that leaf's box under the documented closed-interval
   test, each pair once, for any leaf set including many identical Morton codes, identical
   boxes and a degenerate bounding box; after an axis-aligned Transform or UpdateBoxes the same
   holds for the new boxes."

Model: MV/Model/Collider.lean (line-by-line transliteration of `CreateRadixTree`,
`BuildInternalBoxes`, `FindCollision`, `Box::DoesOverlap/Union/Transform`).
All theorems hold for ALL leaf counts `2 ≤ n < 2^32` (the C++ uses `int` indices and casts
them to `uint32_t` in `PrefixLength`), all non-decreasing code arrays with values `< 2^32`
(duplicates allowed: all equal is a legal input), all boxes (no validity assumption except for
`Transform`, where it is necessary — see `transform_needs_valid`), all queries, every arrival
order of `BuildInternalBoxes` and every execution order of `CreateRadixTree`.

Where the model returns `Option` (`findCollision`) / carries `ok` (`updateBoxes`), `some` /
`ok = true` *is* the statement that the 64-entry stack is never overrun, the loop fuel given by
the entry point suffices, no array is indexed out of range and no box is read before it is
written.
-/
import MV.Proof.Collider
import MV.Proof.ColliderSpec

namespace MV.Collider.C14
open MV.Collider

/-- the running example: duplicate codes -/
def exCodes : Array Nat := #[3, 3, 3, 7, 7, 9]

/-- identical boxes, a point box and an inverted ("empty") box among the leaves -/
def exBoxes : Array Box :=
  #[⟨⟨0, 0, 0⟩, ⟨1, 1, 1⟩⟩, ⟨⟨0, 0, 0⟩, ⟨1, 1, 1⟩⟩, ⟨⟨0, 0, 0⟩, ⟨1, 1, 1⟩⟩,
    ⟨⟨5, 5, 5⟩, ⟨5, 5, 5⟩⟩, ⟨⟨9, 9, 9⟩, ⟨8, 8, 8⟩⟩, ⟨⟨-3, 0, 2⟩, ⟨7, 1, 4⟩⟩]

theorem exSorted : Sorted exCodes := sorted_of_sortedCodes (by decide)

/-! ## 1. clz and δ -/

/-- **clz32_xor_spec.** `clz32 (a xor b)` is the number of leading bits (of 32) on which `a` and
`b` agree: for every `L ≤ 32`, the top `L` bits agree iff `L ≤ clz32 (a ^^^ b)`.  Hence for
`a ≠ b` it is the largest such `L` (`clz32_xor_largest`). -/
theorem clz32_xor_spec {a b : Nat} (ha : a < 2 ^ 32) (hb : b < 2 ^ 32) (L : Nat) (hL : L ≤ 32) :
    (a >>> (32 - L) = b >>> (32 - L)) ↔ L ≤ clz32 (a ^^^ b) :=
  MV.Collider.clz32_xor_spec ha hb L hL

theorem clz32_xor_largest {a b : Nat} (ha : a < 2 ^ 32) (hb : b < 2 ^ 32) (hab : a ≠ b) :
    clz32 (a ^^^ b) < 32 ∧
    a >>> (32 - clz32 (a ^^^ b)) = b >>> (32 - clz32 (a ^^^ b)) ∧
    a >>> (32 - (clz32 (a ^^^ b) + 1)) ≠ b >>> (32 - (clz32 (a ^^^ b) + 1)) :=
  MV.Collider.clz32_xor_largest ha hb hab

example : clz32 (3 ^^^ 7) = 29 ∧ (3 : Nat) >>> 3 = 7 >>> 3 ∧ (3 : Nat) >>> 2 ≠ 7 >>> 2 := by decide

/-- **delta = PrefixLength.**  With keys `k_i = code_i * 2^32 + i` (strictly increasing,
`key_strictMono`), the model's `prefixLength codes i j` is the length of the common prefix of
`k_i` and `k_j` as 64-bit words: for every `L ≤ 64`, `L ≤ prefixLength codes i j` iff the keys
agree on their top `L` bits. -/
theorem delta_spec {codes : Array Nat} (hs : Sorted codes) (hn : codes.size < 2 ^ 32)
    {i j : Int} (hi0 : 0 ≤ i) (hi : i < codes.size) (hj0 : 0 ≤ j) (hj : j < codes.size)
    (L : Nat) (hL : L ≤ 64) :
    ((L : Int) ≤ prefixLength codes i j) ↔ agree 64 L (key codes i.toNat) (key codes j.toNat) :=
  prefixLength_spec hs hn hi0 hi hj0 hj L hL

theorem key_increasing {codes : Array Nat} (hs : Sorted codes) {i j : Nat} (hij : i < j)
    (hj : j < codes.size) : key codes i < key codes j := key_strictMono hs hij hj

/-- **delta_min.** -/
theorem delta_min {codes : Array Nat} (hs : Sorted codes) (hn : codes.size < 2 ^ 32)
    {i j k : Int} (hi0 : 0 ≤ i) (hij : i ≤ j) (hjk : j ≤ k) (hk : k < codes.size) :
    prefixLength codes i k = min (prefixLength codes i j) (prefixLength codes j k) :=
  MV.Collider.delta_min hs hn hi0 hij hjk hk

/-- **delta_ne.** -/
theorem delta_ne {codes : Array Nat} (hs : Sorted codes) (hn : codes.size < 2 ^ 32)
    {i j k : Int} (hi0 : 0 ≤ i) (hij : i < j) (hjk : j < k) (hk : k < codes.size) :
    prefixLength codes i j ≠ prefixLength codes j k :=
  MV.Collider.delta_ne hs hn hi0 hij hjk hk

-- equal codes are disambiguated by the index: δ(0,1)=63, δ(1,2)=62, δ(0,2)=62, δ(2,3)=29
example : prefixLength exCodes 0 1 = 63 ∧ prefixLength exCodes 1 2 = 62 ∧
    prefixLength exCodes 0 2 = 62 ∧ prefixLength exCodes 2 3 = 29 ∧
    prefixLength exCodes 0 (-1) = -1 ∧ prefixLength exCodes 5 6 = -1 := by decide
example : prefixLength exCodes 0 2 = min (prefixLength exCodes 0 1) (prefixLength exCodes 1 2) :=
  delta_min exSorted (by decide) (by decide) (by decide) (by decide) (by decide)
example : prefixLength exCodes 0 1 ≠ prefixLength exCodes 1 2 :=
  delta_ne exSorted (by decide) (by decide) (by decide) (by decide) (by decide)

/-! ## 2. radixTree_wf -/

/-- Prop-level well-formedness of `(internalChildren_, nodeParent_)` for `n` leaves. -/
structure RadixWF (ch : Array (Int × Int)) (parent : Array Int) (n : Nat) : Prop where
  /-- array sizes -/
  sizes : ch.size = n - 1 ∧ parent.size = 2 * n - 1
  /-- the arrays unfold from the root (node 1 = internal 0) into a finite binary tree `t`:
  internal 0 covers `[0, n-1]`, every internal node `i` covers a contiguous block with
  `i ∈ {first, last}`, children cover `[first, γ]`, `[γ+1, last]`, a child is a leaf iff its
  block is a singleton (`Blocks`); the leaves are `0 … n-1` left to right, each once; the internal
  indices are exactly `0 … n-2`, each once; depth `≤ 64`. -/
  tree : ∃ t : T, toTree ch 65 kRoot = some t ∧ Rep ch t ∧ t.id = 1 ∧ Blocks t 0 (n - 1) ∧
    t.leaves = List.range n ∧ t.internals.Nodup ∧ (∀ k, k ∈ t.internals ↔ k < n - 1) ∧
    t.height ≤ 64
  /-- the root has no parent; every other node has exactly one parent, and `nodeParent_`
  records it -/
  rootParent : parent[1]? = some (-1)
  parents : ∀ c, c < 2 * n - 1 → c ≠ 1 →
    ∃ k, k < n - 1 ∧ parent[c]? = some (2 * (k : Int) + 1) ∧
      (∃ c1 c2, ch[k]? = some (c1, c2) ∧ ((c : Int) = c1 ∨ (c : Int) = c2)) ∧
      ∀ k', k' < n - 1 →
        (∃ c1 c2, ch[k']? = some (c1, c2) ∧ ((c : Int) = c1 ∨ (c : Int) = c2)) → k' = k
  /-- every leaf is reachable from the root by exactly one path -/
  paths : ∀ i, i < n → ∃ p, walk ch kRoot p = some (2 * (i : Int)) ∧
    ∀ p', walk ch kRoot p' = some (2 * (i : Int)) → p' = p

/-- the decidable check implies the Prop-level statement -/
theorem radixWF_of_wfTree {ch : Array (Int × Int)} {parent : Array Int} {n : Nat}
    (hwf : wfTree ch parent n = true) : RadixWF ch parent n := by
  obtain ⟨hn, hcs, hps, t, ht, hcov, _, hroot⟩ := wfTree_unpack hwf
  obtain ⟨hrep, hid, hh⟩ := toTree_spec _ _ _ ht
  refine ⟨⟨hcs, hps⟩, ⟨t, ht, hrep, hid, blocks_of_cover _ _ _ hcov, ?_,
    (cover_internals _ _ _ hcov).1, mem_internals_root hcov hid, by omega⟩, hroot,
    unique_parent_of_wf hwf, unique_path_of_wf hwf⟩
  rw [cover_leaves _ _ _ hcov, List.range_eq_range']
  congr 1
  omega

/-- **radixTree_wf.**  For every `n ≥ 2` and every sorted code array, the arrays produced by
`CreateRadixTree` — in any execution order of the parallel loop — form Karras' binary radix
tree: see `RadixWF`. -/
theorem radixTree_wf {codes : Array Nat} (hs : Sorted codes) (hn : codes.size < 2 ^ 32)
    (h2 : 2 ≤ codes.size) (order : List Nat) (hperm : order.Perm (List.range (codes.size - 1))) :
    wfTree (createRadixTreeOrd codes order).1 (createRadixTreeOrd codes order).2 codes.size = true ∧
    RadixWF (createRadixTreeOrd codes order).1 (createRadixTreeOrd codes order).2 codes.size := by
  have h := createRadixTreeOrd_wf hs hn h2 order
    (fun k hk => hperm.mem_iff.mpr (List.mem_range.mpr hk))
    (fun k hk => List.mem_range.mp (hperm.mem_iff.mp hk))
  exact ⟨h, radixWF_of_wfTree h⟩

/-- **The parallel loop is deterministic**: every execution order produces the same two
arrays. -/
theorem createRadixTreeOrd_eq {codes : Array Nat} (hs : Sorted codes) (hn : codes.size < 2 ^ 32)
    (h2 : 2 ≤ codes.size) (order : List Nat) (hperm : order.Perm (List.range (codes.size - 1))) :
    createRadixTreeOrd codes order = createRadixTree codes := by
  have hch : (createRadixTreeOrd codes order).1 = (createRadixTree codes).1 :=
    createRadixTreeOrd_children_eq codes order
      (fun k hk => hperm.mem_iff.mpr (List.mem_range.mpr hk))
  have w1 := (radixTree_wf hs hn h2 order hperm).1
  have w2 := createRadixTree_wf hs hn h2
  have hpar : (createRadixTreeOrd codes order).2 = (createRadixTree codes).2 := by
    apply Array.ext_getElem?
    intro c
    obtain ⟨_, _, s1, _⟩ := wfTree_unpack w1
    obtain ⟨_, _, s2, _⟩ := wfTree_unpack w2
    by_cases hc : c < 2 * codes.size - 1
    · by_cases hc1 : c = 1
      · subst hc1
        obtain ⟨_, _, _, _, _, _, _, r1⟩ := wfTree_unpack w1
        obtain ⟨_, _, _, _, _, _, _, r2⟩ := wfTree_unpack w2
        rw [r1, r2]
      · obtain ⟨k, hk, p1, _, u1⟩ := unique_parent_of_wf w1 c hc hc1
        obtain ⟨k', hk', p2, e2, _⟩ := unique_parent_of_wf w2 c hc hc1
        rw [← hch] at e2
        have := u1 k' hk' e2
        rw [p1, p2, this]
    · rw [Array.getElem?_eq_none (by omega), Array.getElem?_eq_none (by omega)]
  exact Prod.ext hch hpar

example : createRadixTreeOrd exCodes [4, 0, 3, 1, 2] = createRadixTree exCodes :=
  createRadixTreeOrd_eq exSorted (by decide) (by decide) _ (by decide)

/-- the sequential order used by `createRadixTree` -/
theorem radixTree_wf_seq {codes : Array Nat} (hs : Sorted codes) (hn : codes.size < 2 ^ 32)
    (h2 : 2 ≤ codes.size) :
    wfTree (createRadixTree codes).1 (createRadixTree codes).2 codes.size = true ∧
    RadixWF (createRadixTree codes).1 (createRadixTree codes).2 codes.size := by
  have h := createRadixTree_wf hs hn h2
  exact ⟨h, radixWF_of_wfTree h⟩

example : RadixWF (createRadixTree exCodes).1 (createRadixTree exCodes).2 6 :=
  (radixTree_wf_seq exSorted (by decide) (by decide)).2
example : RadixWF (createRadixTreeOrd exCodes [4, 0, 3, 1, 2]).1
    (createRadixTreeOrd exCodes [4, 0, 3, 1, 2]).2 6 :=
  (radixTree_wf exSorted (by decide) (by decide) [4, 0, 3, 1, 2] (by decide)).2
-- the arrays themselves (same as the C++ prints)
example : (createRadixTree exCodes).1.toList = [(9, 10), (0, 2), (3, 4), (6, 8), (5, 7)] ∧
    (createRadixTree exCodes).2.toList = [3, -1, 3, 5, 5, 9, 7, 9, 7, 1, 1] := by decide +kernel

/-! ## 3. boxes_are_unions -/

/-- **boxes_are_unions.**  For every arrival order of the leaves (any permutation),
`UpdateBoxes`/`BuildInternalBoxes` never reads a box before it is written (`ok`), writes every
cell, the leaf cells hold the leaf boxes, and the cell of every node of the tree — every tree `s`
contained in the arrays, in particular every subtree of the root — is the componentwise
min/max union of the leaf boxes of its block. -/
theorem boxes_are_unions {codes : Array Nat} (hs : Sorted codes) (hn : codes.size < 2 ^ 32)
    (h2 : 2 ≤ codes.size) (leafBB : Array Box) (hsz : leafBB.size = codes.size)
    (order : List Nat) (hperm : order.Perm (List.range codes.size)) :
    let ch := (createRadixTree codes).1
    let parent := (createRadixTree codes).2
    let st := updateBoxes parent ch leafBB order
    st.ok = true ∧ st.boxes.size = 2 * codes.size - 1 ∧
    (∀ i, i < 2 * codes.size - 1 → ∃ b, st.boxes[i]? = some (some b)) ∧
    unionBoxes ch st.final leafBB codes.size = true ∧
    ∀ s : T, Rep ch s → (∀ i ∈ s.leaves, i < codes.size) → (∀ k ∈ s.internals, k < codes.size - 1) →
      st.final[s.id.toNat]? = unionList (s.leaves.map fun i => leafBB.getD i default) := by
  intro ch parent st
  have hwf := createRadixTree_wf hs hn h2
  obtain ⟨h1, h2', h3, h4⟩ := updateBoxes_correct hwf leafBB hsz order hperm
  exact ⟨h1, h2', h3, h4, unionBoxes_block h4⟩

/-- the same from the decidable check alone (fallback form) -/
theorem boxes_are_unions_of_wf {ch : Array (Int × Int)} {parent : Array Int} {n : Nat}
    (hwf : wfTree ch parent n = true) (leafBB : Array Box) (hsz : leafBB.size = n)
    (order : List Nat) (hperm : order.Perm (List.range n)) :
    (updateBoxes parent ch leafBB order).ok = true ∧
    unionBoxes ch (updateBoxes parent ch leafBB order).final leafBB n = true := by
  obtain ⟨h1, _, _, h4⟩ := updateBoxes_correct hwf leafBB hsz order hperm
  exact ⟨h1, h4⟩

example :
    let st := updateBoxes (createRadixTree exCodes).2 (createRadixTree exCodes).1 exBoxes
      [4, 2, 0, 5, 1, 3]
    st.ok = true ∧ unionBoxes (createRadixTree exCodes).1 st.final exBoxes 6 = true :=
  let h := boxes_are_unions exSorted (by decide) (by decide) exBoxes (by decide)
    [4, 2, 0, 5, 1, 3] (by decide)
  ⟨h.1, h.2.2.2.1⟩

/-! ## 4. query_iff_overlap -/

/-- **query_iff_overlap, from the two decidable checks** (the driver's `check`/`checkboxes`
validate them for any concrete collider).  `ov` is the query's overlap test; the two documented
tests are instances (`query_box_of_wf`, `query_point_of_wf`). -/
theorem query_iff_overlap_of_wf {ch : Array (Int × Int)} {parent : Array Int}
    {boxes leafBB : Array Box} {n : Nat}
    (hwf : wfTree ch parent n = true) (hub : unionBoxes ch boxes leafBB n = true)
    (ov : Box → Bool)
    (hov1 : ∀ a b : Box, ov a = true → ov (a.union b) = true)
    (hov2 : ∀ a b : Box, ov b = true → ov (a.union b) = true)
    (self : Bool) (q : Nat) :
    ∃ out, findCollision ch boxes ov self q = some out ∧ out.toList.Nodup ∧
      ∀ i, i ∈ out.toList ↔
        (i < n ∧ (∃ b, leafBB[i]? = some b ∧ ov b = true) ∧ (self = true → i ≠ q)) :=
  findCollision_of_wf hwf hub ov hov1 hov2 self q

theorem query_box_of_wf {ch : Array (Int × Int)} {parent : Array Int}
    {boxes leafBB : Array Box} {n : Nat}
    (hwf : wfTree ch parent n = true) (hub : unionBoxes ch boxes leafBB n = true)
    (self : Bool) (qi : Nat) (q : Box) :
    ∃ out, findCollisionBox ch boxes self qi q = some out ∧ out.toList.Nodup ∧
      ∀ i, i ∈ out.toList ↔
        (i < n ∧ (∃ b, leafBB[i]? = some b ∧ doesOverlapBox b q = true) ∧
          (self = true → i ≠ qi)) :=
  findCollision_of_wf hwf hub _ (doesOverlapBox_union_left q) (doesOverlapBox_union_right q) self qi

theorem query_point_of_wf {ch : Array (Int × Int)} {parent : Array Int}
    {boxes leafBB : Array Box} {n : Nat}
    (hwf : wfTree ch parent n = true) (hub : unionBoxes ch boxes leafBB n = true)
    (self : Bool) (qi : Nat) (p : Vec3) :
    ∃ out, findCollisionPoint ch boxes self qi p = some out ∧ out.toList.Nodup ∧
      ∀ i, i ∈ out.toList ↔
        (i < n ∧ (∃ b, leafBB[i]? = some b ∧ doesOverlapPoint b p = true) ∧
          (self = true → i ≠ qi)) :=
  findCollision_of_wf hwf hub _ (doesOverlapPoint_union_left p) (doesOverlapPoint_union_right p)
    self qi

/-- **query_iff_overlap (end to end).**  Build the collider from any sorted codes and any leaf
boxes with any arrival order; then a box query reports leaf `i` iff `leafBB[i]` overlaps the
query under the closed-interval test (and `i ≠ queryIdx` when `selfCollision`), each reported
leaf exactly once; the traversal terminates within `children.size` iterations and never holds
more than 64 stack entries. -/
theorem query_iff_overlap {codes : Array Nat} (hs : Sorted codes) (hn : codes.size < 2 ^ 32)
    (h2 : 2 ≤ codes.size) (leafBB : Array Box) (hsz : leafBB.size = codes.size)
    (order : List Nat) (hperm : order.Perm (List.range codes.size))
    (self : Bool) (qi : Nat) (q : Box) :
    let ch := (createRadixTree codes).1
    let boxes := (updateBoxes (createRadixTree codes).2 ch leafBB order).final
    ∃ out, findCollisionBox ch boxes self qi q = some out ∧ out.toList.Nodup ∧
      ∀ i, i ∈ out.toList ↔
        (i < codes.size ∧ (∃ b, leafBB[i]? = some b ∧ doesOverlapBox b q = true) ∧
          (self = true → i ≠ qi)) := by
  intro ch boxes
  have hwf := createRadixTree_wf hs hn h2
  exact query_box_of_wf hwf (updateBoxes_correct hwf leafBB hsz order hperm).2.2.2 self qi q

/-- the same for point queries (`Box::DoesOverlap(vec3)`: x and y only) -/
theorem query_iff_overlap_point {codes : Array Nat} (hs : Sorted codes)
    (hn : codes.size < 2 ^ 32) (h2 : 2 ≤ codes.size) (leafBB : Array Box)
    (hsz : leafBB.size = codes.size) (order : List Nat)
    (hperm : order.Perm (List.range codes.size)) (self : Bool) (qi : Nat) (p : Vec3) :
    let ch := (createRadixTree codes).1
    let boxes := (updateBoxes (createRadixTree codes).2 ch leafBB order).final
    ∃ out, findCollisionPoint ch boxes self qi p = some out ∧ out.toList.Nodup ∧
      ∀ i, i ∈ out.toList ↔
        (i < codes.size ∧ (∃ b, leafBB[i]? = some b ∧ doesOverlapPoint b p = true) ∧
          (self = true → i ≠ qi)) := by
  intro ch boxes
  have hwf := createRadixTree_wf hs hn h2
  exact query_point_of_wf hwf (updateBoxes_correct hwf leafBB hsz order hperm).2.2.2 self qi p

-- the hypotheses are met by the running example, and the traversal really reports something:
example : ∃ out, findCollisionBox (createRadixTree exCodes).1
      (updateBoxes (createRadixTree exCodes).2 (createRadixTree exCodes).1 exBoxes
        [4, 2, 0, 5, 1, 3]).final true 1 ⟨⟨1, 1, 1⟩, ⟨6, 6, 6⟩⟩ = some out ∧ out.toList.Nodup ∧
      ∀ i, i ∈ out.toList ↔ (i < 6 ∧
        (∃ b, exBoxes[i]? = some b ∧ doesOverlapBox b ⟨⟨1, 1, 1⟩, ⟨6, 6, 6⟩⟩ = true) ∧
        ((true : Bool) = true → i ≠ 1)) :=
  query_iff_overlap exSorted (by decide) (by decide) exBoxes (by decide) [4, 2, 0, 5, 1, 3]
    (by decide) true 1 _
example : findCollisionBox (createRadixTree exCodes).1
      (updateBoxes (createRadixTree exCodes).2 (createRadixTree exCodes).1 exBoxes
        [4, 2, 0, 5, 1, 3]).final true 1 ⟨⟨1, 1, 1⟩, ⟨6, 6, 6⟩⟩ = some #[5, 2, 0, 3] := by
  decide +kernel
example : findCollisionPoint (createRadixTree exCodes).1
      (updateBoxes (createRadixTree exCodes).2 (createRadixTree exCodes).1 exBoxes
        [0, 1, 2, 3, 4, 5]).final false 0 ⟨0, 1, 100⟩ = some #[5, 2, 0, 1] := by
  decide +kernel

/-! ## 5. transform_commutes / UpdateBoxes -/

/-- **transform_commutes.**  For an axis-aligned matrix (`Collider::IsAxisAligned`: in every row
exactly two of the three linear entries are zero — this covers every permutation of axes with
non-zero scales and a translation) and valid (non-inverted) leaf boxes, `Collider::Transform`
(transform every node box) preserves the union-box invariant with respect to the transformed
leaf boxes … -/
theorem transform_commutes {ch : Array (Int × Int)} {parent : Array Int}
    {boxes leafBB : Array Box} {n : Nat} {m : Mat34}
    (hwf : wfTree ch parent n = true) (hm : m.isAxisAligned = true)
    (hv : ∀ i, i < leafBB.size → (leafBB.getD i default).Valid)
    (hub : unionBoxes ch boxes leafBB n = true) :
    unionBoxes ch (transformBoxes m boxes) (leafBB.map (Box.transform m)) n = true :=
  transform_unionBoxes hwf hm hv hub

/-- … so `query_iff_overlap` holds afterwards for the new boxes (generic overlap test). -/
theorem query_after_transform_gen {codes : Array Nat} (hs : Sorted codes)
    (hn : codes.size < 2 ^ 32) (h2 : 2 ≤ codes.size) (leafBB : Array Box)
    (hsz : leafBB.size = codes.size) (hv : ∀ i, i < leafBB.size → (leafBB.getD i default).Valid)
    (order : List Nat) (hperm : order.Perm (List.range codes.size))
    (m : Mat34) (hm : m.isAxisAligned = true) (ov : Box → Bool)
    (hov1 : ∀ a b : Box, ov a = true → ov (a.union b) = true)
    (hov2 : ∀ a b : Box, ov b = true → ov (a.union b) = true) (self : Bool) (qi : Nat) :
    let ch := (createRadixTree codes).1
    let boxes := transformBoxes m (updateBoxes (createRadixTree codes).2 ch leafBB order).final
    ∃ out, findCollision ch boxes ov self qi = some out ∧ out.toList.Nodup ∧
      ∀ i, i ∈ out.toList ↔
        (i < codes.size ∧ (∃ b, leafBB[i]? = some b ∧ ov (b.transform m) = true) ∧
          (self = true → i ≠ qi)) := by
  intro ch boxes
  have hwf := createRadixTree_wf hs hn h2
  have hub := (updateBoxes_correct hwf leafBB hsz order hperm).2.2.2
  obtain ⟨out, h1, h2', h3⟩ :=
    findCollision_of_wf hwf (transform_unionBoxes hwf hm hv hub) ov hov1 hov2 self qi
  refine ⟨out, h1, h2', ?_⟩
  intro i
  rw [h3 i]
  constructor
  · rintro ⟨hi, ⟨b, hb, ho⟩, hs'⟩
    refine ⟨hi, ?_, hs'⟩
    rw [Array.getElem?_map] at hb
    cases hx : leafBB[i]? with
    | none => rw [hx] at hb; cases hb
    | some b0 =>
      rw [hx] at hb
      simp only [Option.map_some, Option.some.injEq] at hb
      exact ⟨b0, rfl, by rw [hb]; exact ho⟩
  · rintro ⟨hi, ⟨b, hb, ho⟩, hs'⟩
    refine ⟨hi, ⟨b.transform m, ?_, ho⟩, hs'⟩
    rw [Array.getElem?_map, hb]; rfl

/-- box queries after `Transform` -/
theorem query_iff_overlap_after_transform {codes : Array Nat} (hs : Sorted codes)
    (hn : codes.size < 2 ^ 32) (h2 : 2 ≤ codes.size) (leafBB : Array Box)
    (hsz : leafBB.size = codes.size) (hv : ∀ i, i < leafBB.size → (leafBB.getD i default).Valid)
    (order : List Nat) (hperm : order.Perm (List.range codes.size))
    (m : Mat34) (hm : m.isAxisAligned = true) (self : Bool) (qi : Nat) (q : Box) :
    let ch := (createRadixTree codes).1
    let boxes := transformBoxes m (updateBoxes (createRadixTree codes).2 ch leafBB order).final
    ∃ out, findCollisionBox ch boxes self qi q = some out ∧ out.toList.Nodup ∧
      ∀ i, i ∈ out.toList ↔
        (i < codes.size ∧
          (∃ b, leafBB[i]? = some b ∧ doesOverlapBox (b.transform m) q = true) ∧
          (self = true → i ≠ qi)) :=
  query_after_transform_gen hs hn h2 leafBB hsz hv order hperm m hm _
    (doesOverlapBox_union_left q) (doesOverlapBox_union_right q) self qi

/-- point queries after `Transform` -/
theorem query_iff_overlap_point_after_transform {codes : Array Nat} (hs : Sorted codes)
    (hn : codes.size < 2 ^ 32) (h2 : 2 ≤ codes.size) (leafBB : Array Box)
    (hsz : leafBB.size = codes.size) (hv : ∀ i, i < leafBB.size → (leafBB.getD i default).Valid)
    (order : List Nat) (hperm : order.Perm (List.range codes.size))
    (m : Mat34) (hm : m.isAxisAligned = true) (self : Bool) (qi : Nat) (p : Vec3) :
    let ch := (createRadixTree codes).1
    let boxes := transformBoxes m (updateBoxes (createRadixTree codes).2 ch leafBB order).final
    ∃ out, findCollisionPoint ch boxes self qi p = some out ∧ out.toList.Nodup ∧
      ∀ i, i ∈ out.toList ↔
        (i < codes.size ∧
          (∃ b, leafBB[i]? = some b ∧ doesOverlapPoint (b.transform m) p = true) ∧
          (self = true → i ≠ qi)) :=
  query_after_transform_gen hs hn h2 leafBB hsz hv order hperm m hm _
    (doesOverlapPoint_union_left p) (doesOverlapPoint_union_right p) self qi

/-- The validity hypothesis cannot be dropped: `Box::Transform` re-sorts min/max, so an inverted
(empty) box becomes non-empty and `Transform ∘ Union ≠ Union ∘ Transform` even for the identity
matrix … -/
theorem transform_needs_valid :
    ∃ (m : Mat34) (a b : Box), m.isAxisAligned = true ∧
      (a.union b).transform m ≠ (a.transform m).union (b.transform m) :=
  transform_union_needs_valid

/-- … and the query property then really fails: three leaves, the first inverted; after the
identity `Transform` the new box of leaf 0 is `[3,5]×[0,0]×[0,0]`, it overlaps the query
`[4,4]×[0,0]×[0,0]`, but the traversal reports nothing (the internal node above leaves 0,1 still
has the box `[0,3]`). -/
theorem transform_inverted_counterexample :
    let codes : Array Nat := #[0, 0, 7]
    let leafBB : Array Box := #[⟨⟨5, 0, 0⟩, ⟨3, 0, 0⟩⟩, ⟨⟨0, 0, 0⟩, ⟨1, 0, 0⟩⟩, ⟨⟨9, 9, 9⟩, ⟨9, 9, 9⟩⟩]
    let idm : Mat34 := ⟨⟨1, 0, 0, 0⟩, ⟨0, 1, 0, 0⟩, ⟨0, 0, 1, 0⟩⟩
    let q : Box := ⟨⟨4, 0, 0⟩, ⟨4, 0, 0⟩⟩
    let ch := (createRadixTree codes).1
    let boxes := transformBoxes idm (updateBoxes (createRadixTree codes).2 ch leafBB [0, 1, 2]).final
    idm.isAxisAligned = true ∧
    doesOverlapBox ((leafBB.getD 0 default).transform idm) q = true ∧
    boxes[0]? = some ((leafBB.getD 0 default).transform idm) ∧
    findCollisionBox ch boxes false 0 q = some #[] := by
  decide +kernel

/-- **UpdateBoxes re-establishes the invariant** for any new leaf boxes (whatever the cells held
before: the model marks every internal cell unwritten and proves none is read), hence
`query_iff_overlap` holds for the new boxes. -/
theorem updateBoxes_reestablishes {ch : Array (Int × Int)} {parent : Array Int} {n : Nat}
    (hwf : wfTree ch parent n = true) (newBB : Array Box) (hsz : newBB.size = n)
    (order : List Nat) (hperm : order.Perm (List.range n)) (self : Bool) (qi : Nat) (q : Box) :
    (updateBoxes parent ch newBB order).ok = true ∧
    unionBoxes ch (updateBoxes parent ch newBB order).final newBB n = true ∧
    ∃ out, findCollisionBox ch (updateBoxes parent ch newBB order).final self qi q = some out ∧
      out.toList.Nodup ∧
      ∀ i, i ∈ out.toList ↔
        (i < n ∧ (∃ b, newBB[i]? = some b ∧ doesOverlapBox b q = true) ∧ (self = true → i ≠ qi)) := by
  obtain ⟨h1, _, _, h4⟩ := updateBoxes_correct hwf newBB hsz order hperm
  exact ⟨h1, h4, query_box_of_wf hwf h4 self qi q⟩

/-- leaf boxes for the transform example: the inverted leaf 4 replaced by a valid box -/
def exValidBoxes : Array Box := exBoxes.set! 4 ⟨⟨8, 8, 8⟩, ⟨9, 9, 9⟩⟩

/-- x' = -y, y' = 2x + 1, z' = 3z (a rotation by 90° with scales and a translation) -/
def exMat : Mat34 := ⟨⟨0, -1, 0, 0⟩, ⟨2, 0, 0, 1⟩, ⟨0, 0, 3, 0⟩⟩

theorem exValid : ∀ i, i < exValidBoxes.size → (exValidBoxes.getD i default).Valid := by
  intro i hi
  have : i < 6 := hi
  match i, this with
  | 0, _ | 1, _ | 2, _ | 3, _ | 4, _ | 5, _ => exact ⟨by decide, by decide, by decide⟩

example : ∃ out, findCollisionBox (createRadixTree exCodes).1
      (transformBoxes exMat (updateBoxes (createRadixTree exCodes).2 (createRadixTree exCodes).1
          exValidBoxes [5, 4, 3, 2, 1, 0]).final)
      false 0 ⟨⟨-1, 0, 0⟩, ⟨0, 3, 3⟩⟩ = some out ∧ out.toList.Nodup ∧
      ∀ i, i ∈ out.toList ↔ (i < 6 ∧
        (∃ b, exValidBoxes[i]? = some b ∧
          doesOverlapBox (b.transform exMat) ⟨⟨-1, 0, 0⟩, ⟨0, 3, 3⟩⟩ = true) ∧
        ((false : Bool) = true → i ≠ 0)) :=
  query_iff_overlap_after_transform exSorted (by decide) (by decide) exValidBoxes (by decide)
    exValid [5, 4, 3, 2, 1, 0] (by decide) exMat (by decide) false 0 _
example : findCollisionBox (createRadixTree exCodes).1
      (transformBoxes exMat (updateBoxes (createRadixTree exCodes).2 (createRadixTree exCodes).1
          exValidBoxes [5, 4, 3, 2, 1, 0]).final)
      false 0 ⟨⟨-1, 0, 0⟩, ⟨0, 3, 3⟩⟩ = some #[2, 0, 1] := by
  decide +kernel

end MV.Collider.C14
