/-
C20 — the C binding is a faithful, memory-safe image of the C++ API.

Full statement (properties.jsonl): "Every function of the C FFI returns the value, mesh or cross-section
that the C++ call it names returns for the same arguments (same argument order, units, defaults and error
codes), objects are constructed in exactly the caller-supplied storage of the advertised size, and every
object can be destructed or deleted exactly once without leak, double free or use of freed memory.
Callbacks receive the user context pointer unchanged."

What is proved here, and about what.
* Part 1 (table theorems, closed by `decide +kernel`): facts about `MV.Gen.CBind`, the tables that
  tools/extract_cbind.py regenerates from the clang AST of bindings/c/*.cpp on every run.  They say, for
  EVERY exported wrapper: which C++ declaration it forwards to, that each C parameter reaches the C++
  parameter in the declaration's order (packing of x,y,z / matrices / pointer+length checked component by
  component; names checked against the C++ declaration modulo the reviewed table
  `MV.CBind.exceptions`), that defaults are only the declared ones, that enum conversions are bijections
  that round-trip, that constructor wrappers placement-new exactly into their `void* mem` and return it,
  that `manifold_X_size` is `sizeof` of exactly the type constructed, that alloc/destruct/delete agree on
  that type, and that callbacks get `ctx` as the bound last argument.
  These theorems do NOT contain a semantics of C++: that the extracted forwarding expression is all the
  wrapper does is the translator's claim (it rejects wrapper bodies it cannot classify), and equality of
  results is checked by paired C / C++ execution under ASan+LSan (harness/c20_cbind.cpp).
* Part 2 (`lifecycle_safe`, a general theorem by induction over programs): every program of
  alloc / buffer / construct / use / destruct / delete / release operations that follows the header's
  protocol runs on the concrete memory model without any fault — no double destruct, no use after free,
  no double free, no construction over a live object — and when every object is finished nothing is
  leaked (`ctors = dtors`, `allocs = frees`, no live object, no heap storage held).
-/
import MV.Gen.CBind
import MV.Model.CBindExceptions
import MV.Model.CBindLifecycle

namespace MV.Props.C20
open MV.CBind MV.Gen.CBind

/-! ## Part 1 — table theorems -/

/-- conv.cpp enum switches: every enumerator of the source enum has its own `case` (no `default:`), the map is a
bijection onto the target enum, paired enumerators have the same numeric value (error codes survive a cast),
and names correspond (`MANIFOLD_[<ENUM>_]<NAME>` ↔ `Name`) up to `exceptions.enumNames`. -/
theorem enum_tables :
    ∀ m ∈ enumMaps, m.total = true ∧ m.bijective = true ∧ m.valuesAgree = true ∧ m.namesOK exceptions = true := by
  decide +kernel

/-- `from_c ∘ to_c = id` and `to_c ∘ from_c = id` on every enumerator, for every enum converted in both directions -/
theorem enum_roundtrip :
    ∀ f ∈ enumMaps, ∀ g ∈ enumMaps, f.src = g.dst → f.dst = g.src →
      ∀ x ∈ f.srcAll, ∃ y, lookup f.pairs x = some y ∧ lookup g.pairs y = some x := by
  decide +kernel

/-- both directions exist for at least one enum (OpType), so `enum_roundtrip` is not vacuous -/
example : ∃ f ∈ enumMaps, ∃ g ∈ enumMaps, f.src = g.dst ∧ f.dst = g.src ∧ f.srcAll.length = 3 := by decide +kernel

/-- the opaque-pointer overloads of `to_c` / `from_c` are mutually inverse bijections between C types and C++ types;
the by-value converters pass the components in declaration order x, y, z, w -/
theorem conversions_inverse :
    ptrConvsInverse ptrConvs = true ∧ ∀ v ∈ valConvs, valConvOK cStructs v = true := by
  decide +kernel

/-- **args_in_order.**  For every wrapper and every C++ call / field assignment / aggregate it forwards to:
the receiver and the arguments are built from the wrapper's C parameters in the order of the C parameter
list (`Call.orderOK`: strictly increasing positions), one argument per declared C++ parameter with only
declared defaults omitted (`Call.arityOK`), packed arguments take their components in the order x, y, z(, w)
and matrices column by column (`Arg.compsOK`), each non-object argument carries the C++ parameter's name
(`Call.namesOK`, modulo `exceptions.argNames`; unnamed header parameters are skipped), and no C parameter is
dropped (`Wrapper.allUsed`). -/
theorem args_in_order : ∀ w ∈ wrappers, w.argsOK exceptions = true := by
  decide +kernel

example : ∃ w ∈ wrappers, w.name = c!"manifold_cylinder" ∧
    (w.calls.map (fun c => c.args.map (·.srcs))) = [[[c!"height"], [c!"radius_low"], [c!"radius_high"], [c!"circular_segments"], [c!"center"]]] ∧
    (w.calls.map (·.cppParams)) = [[c!"height", c!"radiusLow", c!"radiusHigh", c!"circularSegments", c!"center"]] := by
  decide +kernel

/-- the checker rejects a swapped pair: `Cylinder(height, radius_high, radius_low, …)` -/
example :
    Call.ok exceptions [⟨c!"mem", c!"void *"⟩, ⟨c!"height", c!"double"⟩, ⟨c!"radius_low", c!"double"⟩, ⟨c!"radius_high", c!"double"⟩]
      { kind := c!"static", callee := c!"manifold::Manifold::Cylinder", recv := [],
        args := [⟨[c!"height"], [], [], c!"param"⟩, ⟨[c!"radius_high"], [], [], c!"param"⟩, ⟨[c!"radius_low"], [], [], c!"param"⟩],
        cppParams := [c!"height", c!"radiusLow", c!"radiusHigh"], cppDefaults := [false, true, true], defaultsUsed := 0, via := c!"" } = false := by
  decide +kernel

/-- … and a permuted vector: `vec3(x, z, y)` -/
example : Arg.compsOK ⟨[c!"x", c!"z", c!"y"], [], [3], c!"vec"⟩ = false ∧ Arg.compsOK ⟨[c!"x", c!"y", c!"z"], [], [3], c!"vec"⟩ = true := by
  decide +kernel

/-- every definition is declared in manifoldc.h with the same return type and parameter types, parameter names agree
(or the type alone pins the position), and the `manifold_*` declarations of the header are exactly the defined
wrappers (`headerDecls` lists them in definition order, undefined ones last) -/
theorem header_matches :
    (∀ w ∈ wrappers, w.headerOK exceptions = true) ∧ headerDecls = wrappers.map (·.name) := by
  decide +kernel

/-- **placement_in_mem.**  Every constructor-like wrapper placement-news exactly once per leading `void* mem…`
parameter, directly into that parameter, an object of the C++ type its return type stands for, and returns that
pointer; the array accessors `copy_data` into `mem` and return it; no other wrapper touches a `void* mem`. -/
theorem placement_in_mem : ∀ w ∈ wrappers, w.placementOK ptrConvs = true := by
  decide +kernel

example : ((wrappers.filter (fun w => w.placements.length > 0)).length ≥ 100) = true := by decide +kernel

/-- the generated summary `sizes` of the `manifold_X_size` functions (X normalised, type whose `sizeof` is returned)
IS what the wrapper table says -/
theorem sizes_eq : sizeTable wrappers = sizes := by decide +kernel

/-- **size_table.**  For every placement-new of a type `T` anywhere in the binding, the `manifold_X_size` function of the
opaque type standing for `T` exists and returns `sizeof(T)` for exactly that `T`; sizeof/alloc/destruct/delete
appear only in the functions named for them. -/
theorem size_table :
    (∀ w ∈ wrappers, w.sizeOK ptrConvs sizes = true) ∧ (∀ w ∈ wrappers, w.noStrayLifecycle = true) := by
  decide +kernel

/-- **lifecycle_table.**  For every opaque type `C` (standing for the C++ type `T`): `manifold_C_size` returns `sizeof(T)`,
`manifold_alloc_C` returns raw storage for a `T` as `C*`, `manifold_destruct_C(p)` runs `~T` on `p` and nothing else,
`manifold_delete_C(p)` is `delete (T*)p`.  These are the `alloc` / `destruct` / `delete` operations of Part 2. -/
theorem lifecycle_table : ∀ c ∈ ptrConvs, c.fn = c!"to_c" → familyOK wrappers c = true := by
  decide +kernel

/-- **callbacks_ctx.**  Every function-pointer parameter is invoked with the wrapper's `void*` context parameter as its
last argument, passed through unchanged (`std::bind(fun, _1, …, _k, ctx)` with the placeholders in order, or a
direct call `fun(…, ctx)`). -/
theorem callbacks_ctx : ∀ w ∈ wrappers, w.callbacksOK = true := by
  decide +kernel

example : ((wrappers.filter (fun w => w.callbacks.length > 0)).length ≥ 9) = true := by decide +kernel

/-- structs returned by value are filled field by field in the order of the C declaration -/
theorem returned_structs : ∀ w ∈ wrappers, w.retFieldsOK cStructs = true := by
  decide +kernel

/-- the C++ declaration a wrapper forwards to is the one its name says (normalised C++ name occurs in the C name),
or the pair is listed in `exceptions.calleeAliases` -/
theorem callee_named : ∀ w ∈ wrappers, w.calleeOK exceptions = true := by
  decide +kernel

/-! ## Part 2 — lifecycle -/

namespace Life
open MV.CBind.Life

/-- simulation relation between a protocol state and a concrete cell -/
def Rel : St → Cell → Prop
  | .fresh, c => c.storage = .none ∧ c.alive = false ∧ c.ctors = c.dtors ∧ c.allocs = c.frees
  | .raw true, c | .destructed true, c => c.storage = .heap ∧ c.alive = false ∧ c.ctors = c.dtors ∧ c.allocs = c.frees + 1
  | .raw false, c | .destructed false, c => c.storage = .caller ∧ c.alive = false ∧ c.ctors = c.dtors ∧ c.allocs = c.frees
  | .constructed true, c => c.storage = .heap ∧ c.alive = true ∧ c.ctors = c.dtors + 1 ∧ c.allocs = c.frees + 1
  | .constructed false, c => c.storage = .caller ∧ c.alive = true ∧ c.ctors = c.dtors + 1 ∧ c.allocs = c.frees
  | .freed, c => c.storage = .gone ∧ c.alive = false ∧ c.ctors = c.dtors ∧ c.allocs = c.frees

/-- one protocol step of one object is a fault-free step of the concrete cell, and the relation is kept -/
theorem cell_sim {s s' : St} {c : Cell} {op : Op} (h : Rel s c) (hs : stStep s op = some s') :
    ∃ c', cellStep c op = .ok c' ∧ Rel s' c' := by
  obtain ⟨st, al, ct, dt, as, fr⟩ := c
  cases s with
  | fresh =>
    obtain ⟨h1, h2, h3, h4⟩ := h
    cases op <;> simp [stStep] at hs <;> subst hs <;> simp_all [cellStep, Rel]
  | raw hp =>
    cases hp <;> obtain ⟨h1, h2, h3, h4⟩ := h <;>
      cases op <;> simp [stStep] at hs <;> subst hs <;> simp_all [cellStep, Rel]
  | destructed hp =>
    cases hp <;> obtain ⟨h1, h2, h3, h4⟩ := h <;>
      cases op <;> simp [stStep] at hs <;> subst hs <;> simp_all [cellStep, Rel]
  | constructed hp =>
    cases hp <;> obtain ⟨h1, h2, h3, h4⟩ := h <;>
      cases op <;> simp [stStep] at hs <;> subst hs <;> simp_all [cellStep, Rel]
  | freed =>
    cases op <;> simp [stStep] at hs

theorem step_sim {σ σ' : Abs} {m : Mem} {s : Op × Obj} (h : ∀ o, Rel (σ o) (m o)) (hs : astep σ s = some σ') :
    ∃ m', cstep m s = .ok m' ∧ ∀ o, Rel (σ' o) (m' o) := by
  unfold astep at hs
  cases hst : stStep (σ s.2) s.1 with
  | none => simp [hst] at hs
  | some st' =>
    simp [hst] at hs
    obtain ⟨c', hc, hr⟩ := cell_sim (h s.2) hst
    refine ⟨upd m s.2 c', by simp [cstep, hc], ?_⟩
    intro o
    subst hs
    by_cases ho : o = s.2
    · simp [upd, ho, hr]
    · simp [upd, ho, h o]

theorem run_sim : ∀ (p : Prog) {σ σ' : Abs} {m : Mem}, (∀ o, Rel (σ o) (m o)) → arun σ p = some σ' →
    ∃ m', crun m p = .ok m' ∧ ∀ o, Rel (σ' o) (m' o)
  | [], σ, σ', m, h, hr => by
    simp [arun] at hr; subst hr; exact ⟨m, rfl, h⟩
  | s :: rest, σ, σ', m, h, hr => by
    cases hs : astep σ s with
    | none => simp [arun, hs] at hr
    | some σ1 =>
      simp [arun, hs] at hr
      obtain ⟨m1, hm1, h1⟩ := step_sim h hs
      obtain ⟨m2, hm2, h2⟩ := run_sim rest h1 hr
      exact ⟨m2, by simp [crun, hm1, hm2], h2⟩

theorem rel_init : ∀ o : Obj, Rel ((fun _ => St.fresh) o) ((fun _ => Cell.init) o) := by
  intro o; simp [Rel, Cell.init]

theorem done_clean {s : St} {c : Cell} (h : Rel s c) (hd : s.done = true) : c.clean := by
  cases s with
  | fresh => exact ⟨h.2.1, by simp [h.1], h.2.2.1, h.2.2.2⟩
  | freed => exact ⟨h.2.1, by simp [h.1], h.2.2.1, h.2.2.2⟩
  | raw hp => cases hp with
    | true => simp [St.done] at hd
    | false => exact ⟨h.2.1, by simp [h.1], h.2.2.1, h.2.2.2⟩
  | destructed hp => cases hp with
    | true => simp [St.done] at hd
    | false => exact ⟨h.2.1, by simp [h.1], h.2.2.1, h.2.2.2⟩
  | constructed hp => cases hp <;> simp [St.done] at hd

end Life

open MV.CBind.Life in
/-- **lifecycle_safe.**  Every program that follows the header's protocol (`arun` accepts it from the all-fresh state)
executes on the concrete memory model without ANY fault — in particular no `doubleDestruct`, no `useAfterFree`
(hence no double free), no `badFree`, no `overwriteLive` — and in the final memory every object has run exactly as
many destructors as constructors (one more constructor iff it is still alive) and has freed exactly as many
allocations as it made (one more allocation iff heap storage is still held).  If in addition every object is
finished (`St.done`: deleted, or destructed in / never constructed in a caller buffer), nothing is leaked. -/
theorem lifecycle_safe (p : Prog) (σ : Abs) (h : arun (fun _ => St.fresh) p = some σ) :
    ∃ m, crun (fun _ => Cell.init) p = .ok m ∧
      (∀ o, (m o).ctors = (m o).dtors + (if (m o).alive then 1 else 0) ∧
            (m o).allocs = (m o).frees + (if (m o).storage = .heap then 1 else 0)) ∧
      ((∀ o, (σ o).done = true) → ∀ o, (m o).clean) := by
  obtain ⟨m, hm, hr⟩ := Life.run_sim p Life.rel_init h
  refine ⟨m, hm, ?_, fun hd o => Life.done_clean (hr o) (hd o)⟩
  intro o
  have := hr o
  generalize σ o = s at this
  generalize m o = c at this
  obtain ⟨st, al, ct, dt, as, fr⟩ := c
  cases s with
  | fresh => simp_all [Life.Rel]
  | freed => simp_all [Life.Rel]
  | raw hp => cases hp <;> simp_all [Life.Rel]
  | destructed hp => cases hp <;> simp_all [Life.Rel]
  | constructed hp => cases hp <;> simp_all [Life.Rel]

open MV.CBind.Life in
/-- a protocol-following program: heap object 0 (alloc, construct, use, delete) and caller-buffer object 1
(buffer, construct, destruct, re-construct, destruct, release) -/
example : (arun (fun _ => St.fresh)
    [(.alloc, 0), (.buffer, 1), (.construct, 0), (.construct, 1), (.use, 0), (.destruct, 1), (.construct, 1),
     (.delete, 0), (.destruct, 1), (.release, 1)]).isSome = true := by decide

open MV.CBind.Life in
/-- the concrete machine is not trivially fault-free: double delete, destruct-then-delete, delete of a caller buffer and
use after delete are all faults (and are all rejected by the protocol) -/
example :
    (crun (fun _ => Cell.init) [(.alloc, 0), (.construct, 0), (.delete, 0), (.delete, 0)] matches .error .useAfterFree) ∧
    (crun (fun _ => Cell.init) [(.alloc, 0), (.construct, 0), (.destruct, 0), (.delete, 0)] matches .error .doubleDestruct) ∧
    (crun (fun _ => Cell.init) [(.buffer, 0), (.construct, 0), (.delete, 0)] matches .error .badFree) ∧
    (crun (fun _ => Cell.init) [(.alloc, 0), (.construct, 0), (.delete, 0), (.use, 0)] matches .error .useAfterFree) ∧
    (crun (fun _ => Cell.init) [(.alloc, 0), (.construct, 0), (.construct, 0)] matches .error .overwriteLive) ∧
    arun (fun _ => St.fresh) [(.alloc, 0), (.construct, 0), (.delete, 0), (.delete, 0)] = none ∧
    arun (fun _ => St.fresh) [(.alloc, 0), (.construct, 0), (.destruct, 0), (.delete, 0)] = none := by
  refine ⟨rfl, rfl, rfl, rfl, rfl, rfl, rfl⟩

end MV.Props.C20
