import MV.Proof.CsgBatchUnion
import MV.Proof.CsgBatchHeapPerm
import MV.Proof.CsgFold
/-!
# C03 (deepening) — `BatchUnion` and `BatchBoolean` themselves

`MV/Props/C03.lean` treats `BatchUnion` / `BatchBoolean` as black boxes that return a fresh leaf
whose value is postulated (`Respects`) to be the n-ary operation on the operands.  Here the two
functions are modelled line by line (`MV/Model/CsgBatch.lean`: the chunking `start`, the `boxes`
of the chunk, the greedy partition, singleton vs `Compose`, `erase`, `push_back`, the swap, the
heap with `MeshCompare`, the groups of four) and the postulate is PROVED, for

* every chunk size `K ≥ 2` (1000 in the code) and group width `grp ≥ 1` (4 in the code),
* every overlap oracle `ov` and size oracle `size` (arbitrary functions of a leaf's identity and
  value — they depend on geometry),
* every interpretation of the mesh operations in a commutative monoid (`CsgBatchMon.lean`): with
  multisets of original operands this is "each child is used exactly once", with a `SolidAlg`
  it is "the result denotes the union of the children".
-/
set_option autoImplicit false
namespace MV.CsgBatch.C03b
open MV.CsgBatch MV.Csg CMon

variable {α : Type}

/-! ## termination -/

/-- **batchUnion_terminates.**  For every chunk size `K ≥ 2`, group width `grp ≥ 1`, operations
and oracles, and every non-empty `children`: the `while` loop ends within the fuel
`children.size()` the model gives it (each round replaces `min(size, K) ≥ 2` children by one),
more fuel changes nothing, it makes at most `children.size() - 1` rounds, never indexes outside
`children` (`ub = false`) and leaves exactly one child, which is what is returned. -/
theorem batchUnion_terminates (ops : Ops α) (orc : Orc α) (K grp : Nat) (hK : 2 ≤ K)
    (hg : 1 ≤ grp) (children : List (BLeaf α)) (hne : children ≠ []) (next : Nat) :
    (∃ r, (batchUnion ops orc K grp children next).ret = some r ∧
      (batchUnion ops orc K grp children next).children = [r]) ∧
    (batchUnion ops orc K grp children next).ub = false ∧
    (batchUnion ops orc K grp children next).rounds.length + 1 ≤ children.length ∧
    ∀ fuel, children.length ≤ fuel →
      unionLoop ops orc K grp fuel { children := children, next := next } =
        unionLoop ops orc K grp children.length { children := children, next := next } := by
  have hlen : 1 ≤ children.length := by
    cases children with
    | nil => exact absurd rfl hne
    | cons _ _ => simp
  have h := unionLoop_spec ops orc (fun _ => ()) (fun _ _ => rfl) rfl (fun _ _ => rfl) K grp hK hg
    children.length { children := children, next := next } (by simp) hlen
  have hr := unionLoop_rounds ops orc K grp hK hg children.length
    { children := children, next := next } (by simp)
  refine ⟨?_, ?_, ?_, fun fuel hf => hr.2 fuel hf⟩
  · simp only [batchUnion]
    match hc : (unionLoop ops orc K grp children.length
        { children := children, next := next }).children, h.2.2 with
    | [c], _ => exact ⟨c, rfl, rfl⟩
  · simpa [batchUnion] using h.1
  · have := hr.1
    simp only [batchUnion, List.length_nil, Nat.zero_add] at this ⊢
    omega

/-- **batchUnion_rounds_partition** (the statement about the recorded trace, which is what the
hooks report from the real run).  Every round of the run has `start = size > K ? size - K : 0`;
its disjoint sets, concatenated, are a rearrangement of the chunk's indices `0 … size-start-1`
(every child of the chunk is sent to `Compose`/`BatchBoolean` exactly once per round), no set is
empty, and `impls` receives exactly one leaf per set. -/
theorem batchUnion_rounds_partition (ops : Ops α) (orc : Orc α) (K grp : Nat) (hg : 1 ≤ grp)
    (children : List (BLeaf α)) (next : Nat) :
    ∀ r ∈ (batchUnion ops orc K grp children next).rounds,
      r.start = (if K < r.children.length then r.children.length - K else 0) ∧
      r.sets.flatten.Perm (List.range (r.children.length - r.start)) ∧
      (∀ s ∈ r.sets, s ≠ []) ∧ r.impls.length = r.sets.length := by
  intro r hr
  exact unionLoop_trace ops orc K grp hg children.length { children := children, next := next }
    rfl (by simp) r hr

/-- K = 1 would loop for ever and K = 0 would grow the vector: with `kMaxUnionSize = 1` a round
on two children takes a chunk of one and puts one back -/
example : ((unionRound (α := Unit) ⟨fun _ => (), fun _ _ => (), ()⟩ ⟨fun _ _ => false, fun _ => 0⟩
    1 4 { children := [⟨0, ()⟩, ⟨1, ()⟩], next := 2 }).children.map (·.id)) = [1, 0] := by decide

/-! ## nothing dropped, nothing duplicated -/

/-- operations on provenance lists: `Compose` concatenates, `SimpleBoolean` appends, the empty
mesh comes from nothing -/
def provOps (β : Type) : Ops (List β) := ⟨List.flatten, (· ++ ·), []⟩

/-- multisets over `β` as count functions -/
instance instCMonCount (β : Type) : CMon (β → Nat) where
  add f g := fun b => f b + g b
  zero := fun _ => 0
  add_assoc _ _ _ := funext fun _ => Nat.add_assoc _ _ _
  add_comm _ _ := funext fun _ => Nat.add_comm _ _
  add_zero _ := funext fun _ => rfl

theorem msum_count {β : Type} [DecidableEq β] (ls : List (List β)) :
    msum (ls.map fun l => fun b => l.count b) = fun b => ls.flatten.count b := by
  induction ls with
  | nil => rfl
  | cons l ls ih =>
    simp only [List.map_cons, msum_cons, ih, List.flatten_cons]
    funext b
    simp [CMon.add, List.count_append]

/-- **batchUnion_uses_each_child_once.**  Let every leaf carry the list of original operands it
was built from (`Compose` concatenates, `SimpleBoolean` appends).  For every chunk size `K ≥ 2`,
every overlap and size oracle and every non-empty `children`, the leaf returned by `BatchUnion`
carries a REARRANGEMENT of the concatenation of the children's lists: every operand reaches the
result exactly once — none dropped (the `children[set[0]]` offset bug), none duplicated. -/
theorem batchUnion_uses_each_child_once {β : Type} [DecidableEq β] (orc : Orc (List β))
    (K grp : Nat) (hK : 2 ≤ K) (hg : 1 ≤ grp) (children : List (BLeaf (List β)))
    (hne : children ≠ []) (next : Nat) :
    ∃ r, (batchUnion (provOps β) orc K grp children next).ret = some r ∧
      r.val.Perm (children.map (·.val)).flatten := by
  obtain ⟨⟨r, hr, hch⟩, _, _, _⟩ :=
    batchUnion_terminates (provOps β) orc K grp hK hg children hne next
  refine ⟨r, hr, ?_⟩
  have hlen : 1 ≤ children.length := by
    cases children with
    | nil => exact absurd rfl hne
    | cons _ _ => simp
  have h := (unionLoop_spec (provOps β) orc (N := β → Nat) (fun l => fun b => l.count b)
    (fun a b => by funext x; simp [provOps, CMon.add, List.count_append]) rfl
    (fun l _ => by
      have := msum_count (l.map (·.val))
      simp only [List.map_map] at this
      exact this.symm ▸ rfl)
    K grp hK hg children.length { children := children, next := next } (by simp) hlen).2.1
  simp only [batchUnion] at hch
  rw [hch] at h
  simp only [List.map_cons, List.map_nil, msum_cons, msum_nil, add_zero] at h
  have h2 := msum_count (children.map (·.val))
  simp only [List.map_map] at h2
  rw [List.perm_iff_count]
  intro b
  have := congrFun (h.trans h2) b
  simpa using this

/-- non-vacuity, and the run the correspondence harness makes with `kMaxUnionSize = 4`, ten
operands: operand 9 overlaps everything (a plate), the others are pairwise disjoint (pegs).
Three rounds; the result carries all ten operands. -/
def plateOrc : Orc (List Nat) :=
  ⟨fun x y => x.val.contains 9 || y.val.contains 9, fun x => 8 * x.val.length⟩

example : ((batchUnion (provOps Nat) plateOrc 4 4
    ((List.range 10).map fun i => ⟨i, [i]⟩) 10).ret.map (·.val)) =
      some [3, 4, 5, 0, 1, 2, 6, 7, 8, 9] := by decide

example : ((batchUnion (provOps Nat) plateOrc 4 4
    ((List.range 10).map fun i => ⟨i, [i]⟩) 10).rounds.map fun r =>
      (r.children, r.start, r.sets, r.impls)) =
      [([0, 1, 2, 3, 4, 5, 6, 7, 8, 9], 6, [[0, 1, 2], [3]], [10, 9]),
       ([11, 1, 2, 3, 4, 5, 0], 3, [[0, 1, 2, 3]], [12]),
       ([12, 1, 2, 11], 0, [[0, 1, 2], [3]], [13, 11])] := by decide

/-! ## the partition -/

/-- **partition_sets_pairwise_disjoint.**  For every overlap oracle and every chunk `boxes`:
the greedy partition puts every index `0 … n-1` in exactly one set, no set is empty, and inside
a set no member's box overlaps the box of an earlier member — `Compose`'s precondition, given
that bounding-box-disjoint leaves are disjoint.  If the oracle is symmetric (as
`Box::DoesOverlap` is) the members are pairwise non-overlapping in both directions. -/
theorem partition_sets_pairwise_disjoint (orc : Orc α) (boxes : Array (BLeaf α)) :
    (partition orc boxes).flatten.Perm (List.range boxes.size) ∧
    (∀ s ∈ partition orc boxes, s ≠ [] ∧ s.Pairwise fun j i => ovAt orc boxes i j = false) ∧
    ((∀ x y, orc.ov x y = orc.ov y x) → ∀ s ∈ partition orc boxes,
      s.Pairwise fun j i => ovAt orc boxes i j = false ∧ ovAt orc boxes j i = false) := by
  refine ⟨partition_perm orc boxes, fun s hs => ⟨(partition_sep orc boxes s hs).2,
    (partition_sep orc boxes s hs).1⟩, fun hsym s hs => ?_⟩
  refine List.Pairwise.imp ?_ (partition_sep orc boxes s hs).1
  intro j i h
  refine ⟨h, ?_⟩
  simp only [ovAt] at h ⊢
  generalize boxes[i]? = oi at h ⊢
  generalize boxes[j]? = oj at h ⊢
  cases oi with
  | none => cases oj <;> rfl
  | some a =>
    cases oj with
    | none => rfl
    | some b => exact (hsym b a).trans h

/-- the partition is first-fit: with boxes 0,1,2 mutually disjoint and box 3 overlapping box 0
only, 3 goes to a new set; box 4 overlapping 3 only joins the FIRST set -/
example : partition (α := Unit) ⟨fun x y => (x.id, y.id) ∈ [(3, 0), (4, 3)], fun _ => 0⟩
    #[⟨0, ()⟩, ⟨1, ()⟩, ⟨2, ()⟩, ⟨3, ()⟩, ⟨4, ()⟩] = [[0, 1, 2, 4], [3]] := by decide

/-! ## denotation -/

/-- solids under union form a commutative monoid -/
instance instCMonSolid (S : Type) [SolidAlg S] : CMon S where
  add := SolidAlg.union
  zero := SolidAlg.empty
  add_assoc := SolidAlg.union_assoc
  add_comm := SolidAlg.union_comm
  add_zero := SolidAlg.union_empty

theorem msum_eq_bigU {S : Type} [SolidAlg S] (l : List S) : msum l = bigU l := rfl

/-- **batchUnion_denotes.**  In every algebra of solids `S`: if `SimpleBoolean(·,·,Add)` is the
union, the default leaf is empty, `Compose` is the union on lists of pairwise disjoint solids,
and leaves whose boxes do not overlap are disjoint (the geometric hypothesis "bounding-box
disjoint ⇒ disjoint", stated for the oracle), then for every `K ≥ 2`, every size oracle and every
non-empty `children`, `BatchUnion` returns a leaf denoting the union of all the children. -/
theorem batchUnion_denotes {S : Type} [SolidAlg S] (ops : Ops S) (orc : Orc S)
    (hbool : ∀ a b, ops.bool a b = SolidAlg.union a b) (hempty : ops.empty = SolidAlg.empty)
    (hcompose : ∀ l : List S, (l.Pairwise fun a b => SolidAlg.inter a b = SolidAlg.empty) →
      ops.compose l = bigU l)
    (hdis : ∀ x y : BLeaf S, orc.ov y x = false → SolidAlg.inter x.val y.val = SolidAlg.empty)
    (K grp : Nat) (hK : 2 ≤ K) (hg : 1 ≤ grp) (children : List (BLeaf S))
    (hne : children ≠ []) (next : Nat) :
    ∃ r, (batchUnion ops orc K grp children next).ret = some r ∧
      r.val = bigU (children.map (·.val)) := by
  obtain ⟨⟨r, hr, hch⟩, _, _, _⟩ := batchUnion_terminates ops orc K grp hK hg children hne next
  refine ⟨r, hr, ?_⟩
  have hlen : 1 ≤ children.length := by
    cases children with
    | nil => exact absurd rfl hne
    | cons _ _ => simp
  have h := (unionLoop_spec ops orc (N := S) (fun s => s) hbool hempty
    (fun l hl => by
      rw [hcompose _ (List.pairwise_map.2 (hl.imp fun {x y} h => hdis x y h))]
      rfl)
    K grp hK hg children.length { children := children, next := next } (by simp) hlen).2.1
  simp only [batchUnion] at hch
  rw [hch] at h
  simp only [List.map_cons, List.map_nil, msum_cons, msum_nil, add_zero] at h
  exact h

/-- the two-point algebra (does the solid contain a fixed point?) -/
instance instSolidBool : SolidAlg Bool where
  union := or
  inter := and
  diff a b := a && !b
  empty := false
  union_assoc := by decide
  union_comm := by decide
  union_empty := by decide
  inter_assoc := by decide
  inter_comm := by decide
  diff_empty := by decide
  diff_diff := by decide

theorem xor_eq_bigU_of_disjoint (l : List Bool)
    (hl : l.Pairwise fun a b => SolidAlg.inter a b = SolidAlg.empty) :
    l.foldr xor false = bigU l := by
  induction l with
  | nil => rfl
  | cons a l ih =>
    have hl' := List.pairwise_cons.1 hl
    rw [List.foldr_cons, bigU_cons, ih hl'.2]
    cases a with
    | false => cases bigU l <;> rfl
    | true =>
      -- every other part is disjoint from `true`, i.e. false
      have hall : ∀ b ∈ l, b = false := fun b hb => by
        have := hl'.1 b hb
        cases b with
        | false => rfl
        | true => exact absurd this (by decide)
      have h0 : ∀ l : List Bool, (∀ b ∈ l, b = false) → bigU l = false := by
        intro l
        induction l with
        | nil => intro _; rfl
        | cons b l ih2 =>
          intro h
          rw [bigU_cons, ih2 (fun c hc => h c (by simp [hc])), h b (by simp)]
          rfl
      rw [h0 l hall]
      rfl

/-- non-vacuity of `batchUnion_denotes`: in the two-point algebra take `Compose` = XOR of the
parts (the union on disjoint parts ONLY) and "overlap" = both contain the point; all hypotheses
hold -/
example (children : List (BLeaf Bool)) (hne : children ≠ []) (size : BLeaf Bool → Nat) :
    ∃ r, (batchUnion ⟨fun l => l.foldr xor false, or, false⟩ ⟨fun x y => x.val && y.val, size⟩
      1000 4 children 0).ret = some r ∧ r.val = bigU (children.map (·.val)) := by
  apply batchUnion_denotes _ _ (fun _ _ => rfl) rfl _ _ 1000 4 (by omega) (by omega) children hne
  · exact xor_eq_bigU_of_disjoint
  · intro x y h
    have h' : (y.val && x.val) = false := h
    show (x.val && y.val) = false
    rw [Bool.and_comm]; exact h'

/-- an associative commutative operation with a unit adjoined is a commutative monoid -/
@[reducible] def optCMon (f : α → α → α) [ha : Std.Associative f] [hc : Std.Commutative f] :
    CMon (Option α) where
  add a b := match a, b with
    | none, b => b
    | a, none => a
    | some a, some b => some (f a b)
  zero := none
  add_assoc := by
    intro a b c
    cases a <;> cases b <;> cases c <;> simp [ha.assoc]
  add_comm := by
    intro a b
    cases a <;> cases b <;> simp [hc.comm]
  add_zero := by intro a; cases a <;> rfl

theorem optCMon_msum (f : α → α → α) [ha : Std.Associative f] [hc : Std.Commutative f]
    (l : List α) (x : α) : @msum _ (optCMon f) ((x :: l).map some) = some (l.foldl f x) := by
  induction l generalizing x with
  | nil => rfl
  | cons y ys ih =>
    have h := ih y
    rw [List.map_cons, @msum_cons _ (optCMon f), h, List.foldl_cons, List.foldl_assoc]
    rfl

/-- **batchBoolean_denotes.**  For every associative commutative `f` (= `SimpleBoolean` with
`Add` or `Intersect`), every size oracle, every group width `grp ≥ 1`: `BatchBoolean` of the
operands `x :: l` terminates and returns their fold, whatever order the heap pops them in. -/
theorem batchBoolean_denotes (f : α → α → α) [ha : Std.Associative f] [hc : Std.Commutative f]
    (ops : Ops α) (hf : ∀ a b, ops.bool a b = f a b) (orc : Orc α) (grp : Nat) (hg : 1 ≤ grp)
    (x : BLeaf α) (l : List (BLeaf α)) (next : Nat) :
    ∃ r, (batchBoolean ops orc grp (x :: l) next).ret = some r ∧
      r.val = (l.map (·.val)).foldl f x.val := by
  obtain ⟨r, hr, hv⟩ := @batchBoolean_msum _ (Option α) (optCMon f) ops orc some grp hg
    (fun a b => by rw [hf]; rfl) (x :: l) (fun h => by cases h) next
  refine ⟨r, hr, ?_⟩
  have h2 := optCMon_msum f (l.map (·.val)) x.val
  simp only [List.map_cons, List.map_map, Function.comp_def] at h2 hv
  rw [h2] at hv
  exact Option.some.inj hv

/-- `BatchBoolean(Add)` denotes `⋃`, `BatchBoolean(Intersect)` denotes `⋂` -/
theorem batchBoolean_union_inter {S : Type} [SolidAlg S] (orc : Orc S) (grp : Nat) (hg : 1 ≤ grp)
    (cmp : List S → S) (e : S) (x : BLeaf S) (l : List (BLeaf S)) (next : Nat) :
    (∃ r, (batchBoolean ⟨cmp, SolidAlg.union, e⟩ orc grp (x :: l) next).ret = some r ∧
      r.val = bigU ((x :: l).map (·.val))) ∧
    (∃ r, (batchBoolean ⟨cmp, SolidAlg.inter, e⟩ orc grp (x :: l) next).ret = some r ∧
      r.val = bigI ((x :: l).map (·.val))) := by
  constructor
  · obtain ⟨r, h1, h2⟩ := batchBoolean_denotes SolidAlg.union ⟨cmp, SolidAlg.union, e⟩
      (fun _ _ => rfl) orc grp hg x l next
    exact ⟨r, h1, by rw [h2, foldl_union_eq]; rfl⟩
  · obtain ⟨r, h1, h2⟩ := batchBoolean_denotes SolidAlg.inter ⟨cmp, SolidAlg.inter, e⟩
      (fun _ _ => rfl) orc grp hg x l next
    exact ⟨r, h1, by rw [h2, foldl_inter_eq]; rfl⟩

/-- non-vacuity: five operands with sizes 8,8,20,8,12 — the pops (largest NumVert first, ties
by LARGER serial) and the result's provenance -/
example : (batchBoolean (provOps Nat) ⟨fun _ _ => false, fun x => [8, 8, 20, 8, 12, 30, 14, 40].getD x.id 0⟩ 4
    ((List.range 5).map fun i => ⟨i, [i]⟩) 5).evs =
    [.start [0, 1, 2, 3, 4], .pop 2 2 4 4, .pop 3 3 1 1, .push 5 5, .push 6 6,
     .pop 5 5 6 6, .push 7 7, .pop 7 7 0 0, .push 8 8] := by decide

/-! ## the pop order -/

/-- **batchBoolean_pops_max.**  `std::pop_heap` with `MeshCompare` hands out the entry with the
LARGEST `NumVert`, and among those the LARGEST serial number (std heaps are max-heaps with
respect to the comparator; the comment "starting from smaller meshes" in the source does not
describe what the code does).  For every size oracle and every heap: the popped entry is a member,
the rest is the heap without it, and every entry is below or equal to it in `(NumVert, serial)`. -/
theorem batchBoolean_pops_max (orc : Orc α) {heap : List (Entry α)} {m : Entry α}
    {rest : List (Entry α)} (h : popMax (meshCompare orc) heap = some (m, rest)) :
    heap.Perm (m :: rest) ∧
    ∀ e ∈ heap, orc.size e.1 < orc.size m.1 ∨ (orc.size e.1 = orc.size m.1 ∧ e.2 ≤ m.2) := by
  refine ⟨popMax_perm _ h, fun e he => ?_⟩
  have hmem := (popMax_perm _ h).mem_iff.1 he
  have hle : meshCompare orc m e = false := by
    rcases List.mem_cons.1 hmem with rfl | hr
    · exact keyLt_irrefl _
    · exact popMax_max orc h e hr
  have hk : keyLt (orc.key m) (orc.key e) = false := hle
  by_cases h1 : orc.size m.1 = orc.size e.1
  · simp [keyLt, Orc.key, h1] at hk; omega
  · simp only [keyLt, Orc.key, bne_iff_ne, ne_eq, h1, not_false_eq_true, if_true] at hk
    have hk' : ¬ orc.size m.1 < orc.size e.1 := of_decide_eq_false hk
    omega

/-- **the pop order is a function of the key multiset.**  Serial numbers are pairwise distinct,
so `(NumVert, serial)` is a strict total order on the entries: whatever arrangement
`std::make_heap` / `push_heap` leave the vector in, `BatchBoolean` pops the same pairs, creates
the same leaves and returns the same result as the model, which keeps the heap as a list. -/
theorem batchBoolean_heap_arrangement_irrelevant (ops : Ops α) (orc : Orc α) (grp : Nat)
    (results : List (BLeaf α)) (next : Nat) (h3 : 3 ≤ results.length) (h0 : List (Entry α))
    (hp : h0.Perm (withSerials results 0)) :
    batchBooleanFrom ops orc grp results next h0 = batchBoolean ops orc grp results next :=
  batchBoolean_any_arrangement ops orc grp results next h3 h0 hp

example (ops : Ops Nat) (orc : Orc Nat) (a b c : BLeaf Nat) :
    batchBooleanFrom ops orc 4 [a, b, c] 3 [(c, 2), (a, 0), (b, 1)] =
      batchBoolean ops orc 4 [a, b, c] 3 :=
  batchBoolean_heap_arrangement_irrelevant ops orc 4 [a, b, c] 3 (by simp) _ (by
    simp only [withSerials]
    exact (List.perm_append_comm (l₁ := [(c, 2)]) (l₂ := [(a, 0), (b, 1)])))

/-! ## discharge of the postulate of `MV/Props/C03.lean` -/

variable {M S : Type} [One M] [Mul M] [SolidAlg S] [XfAct M S]

/-- The leaves `pos` of a finalize, as `BatchUnion` sees them -/
def asChildren (L : Val S) (pos : List (Leaf M)) : List (BLeaf S) :=
  (pos.zipIdx).map fun p => ⟨p.2, L.leaf p.1⟩

theorem asChildren_vals (L : Val S) (pos : List (Leaf M)) :
    (asChildren L pos).map (·.val) = L.leaves pos := by
  simp only [asChildren, List.map_map, Val.leaves]
  have : ((fun x : BLeaf S => x.val) ∘ fun p : Leaf M × Nat => (⟨p.2, L.leaf p.1⟩ : BLeaf S)) =
      L.leaf ∘ Prod.fst := rfl
  rw [this, ← List.map_map, List.zipIdx_map_fst]

/-- **the `Add` case of `Respects` is a theorem.**  `MV/Props/C03.lean` assumes that the mesh
created by `fin add pos []` has the value `evSem L .add pos []`.  Under the hypotheses of
`batchUnion_denotes` that is what `BatchUnion(pos)` returns. -/
theorem batchUnion_discharges_evSem (L : Val S) (ops : Ops S) (orc : Orc S)
    (hbool : ∀ a b, ops.bool a b = SolidAlg.union a b) (hempty : ops.empty = SolidAlg.empty)
    (hcompose : ∀ l : List S, (l.Pairwise fun a b => SolidAlg.inter a b = SolidAlg.empty) →
      ops.compose l = bigU l)
    (hdis : ∀ x y : BLeaf S, orc.ov y x = false → SolidAlg.inter x.val y.val = SolidAlg.empty)
    (K grp : Nat) (hK : 2 ≤ K) (hg : 1 ≤ grp) (pos : List (Leaf M)) (hne : pos ≠ []) :
    ∃ r, (batchUnion ops orc K grp (asChildren L pos) pos.length).ret = some r ∧
      r.val = evSem L .add pos [] := by
  have hne' : asChildren L pos ≠ [] := by
    cases pos with
    | nil => exact absurd rfl hne
    | cons p ps => simp [asChildren, List.zipIdx_cons]
  obtain ⟨r, h1, h2⟩ := batchUnion_denotes ops orc hbool hempty hcompose hdis K grp hK hg
    (asChildren L pos) hne' pos.length
  exact ⟨r, h1, by rw [h2, asChildren_vals]; rfl⟩

end MV.CsgBatch.C03b
