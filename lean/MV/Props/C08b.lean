import MV.Proof.ExportRuns
import MV.Proof.ExportRuns3
import MV.Proof.ExportRuns4
import MV.Props.C07
/-!
# C08 (part b) — MeshGL export and re-import is lossless: runs, relations, face IDs

Theorems about `MV.Export.exportRuns` / `MV.Export.importRuns` (the run part of `GetMeshGLImpl`,
/repo/src/impl.h:565-636, and of `Impl::Impl(MeshGLP)`, /repo/src/impl.h:417-463).
-/
namespace MV.C08
open MV.Export List

variable {τ : Type}

/-! ## face IDs -/

/-- what the importer stores as `faceID` is re-exported unchanged (user-supplied IDs survive any
number of round trips; a missing one is replaced ONCE by the coplanar ID) -/
theorem faceID_roundtrip (r : TriRef) (meshID originalID coplanarID : Int) (h : 0 ≤ exportFaceID r) :
    exportFaceID ⟨meshID, originalID, exportFaceID r, coplanarID⟩ = exportFaceID r := by
  show (if 0 ≤ exportFaceID r then exportFaceID r else coplanarID) = exportFaceID r
  rw [if_pos h]

/-- non-vacuity: a user-supplied face ID, and a missing one replaced by the coplanar ID -/
example : 0 ≤ exportFaceID ⟨5, 2, 3, 2⟩ ∧ 0 ≤ exportFaceID ⟨5, 2, -1, 7⟩ := by decide

/-! ## runs -/

/-- RUNS ROUND TRIP.  Export a consistent, non-original relation state, import the run fields
again with fresh IDs `startID, startID+1, …`:
* triangle `t` (in exported order) gets the ref of `sorted[t]` with its meshID renamed by
  `ρ id := startID + (index of id's run)`, the same originalID, the exported faceID, and
  `coplanarID = t`;
* run `k`'s relation is stored under `startID + k` (hasNormals survives iff the mesh has at least
  3 extra channels);
* `ρ` preserves the run sort key order between any two triangles, so a second export produces the
  runs in the same order. -/
theorem runs_roundtrip (idT : τ) (refs : List TriRef) (m : RelMap τ) (startID : Int) (nx : Nat)
    (hm : RelMap.Sorted m) (hid : ∀ r ∈ refs, r.meshID ≠ -1) (hc : Consistent refs m)
    (hne : refs ≠ []) :
    let rt := exportRuns false idT refs m
    let imp := importRuns idT startID nx (ImportIn.ofExport rt)
    let ρ := fun id : Int => startID + (rt.runMeshID.idxOf id : Nat)
    imp.1 = rt.sorted.zipIdx.map (fun rt' => ⟨ρ rt'.1.meshID, rt'.1.originalID, exportFaceID rt'.1, rt'.2⟩) ∧
    imp.2 = rt.runs.zipIdx.map (fun rk =>
      (startID + (rk.2 : Nat), { rk.1.rel with hasNormals := rk.1.rel.hasNormals && decide (3 ≤ nx) })) ∧
    (∀ a ∈ refs, ∀ b ∈ refs,
      runLE { a with meshID := ρ a.meshID } { b with meshID := ρ b.meshID } = runLE a b) := by
  intro rt imp ρ
  have _hm := hm
  have hp := (exportRuns_starts false idT refs m hid).1
  have hrne := exportRuns_runs_ne_nil idT refs m false hid hne
  obtain ⟨st, inv, himp⟩ := importRuns_ofExport idT rt startID nx rfl hrne hp
  have himp1 : imp.1 = st.1.toList := congrArg Prod.fst himp
  have himp2 : imp.2 = st.2 := congrArg Prod.snd himp
  refine ⟨?_, ?_, ?_⟩
  · rw [himp1]
    apply ext_getElem?
    intro t
    rw [Array.getElem?_toList, getElem?_map, getElem?_zipIdx, Nat.zero_add]
    cases hr : rt.sorted[t]? with
    | none =>
      have : refs.length ≤ t := by
        have := getElem?_eq_none_iff.1 hr
        rwa [exportRuns_sorted, sortedOf_length] at this
      simp only [Option.map_none]
      exact Array.getElem?_eq_none (by rw [inv.size]; exact this)
    | some r =>
      obtain ⟨k, run, hrun, h1, h2, _, ho, hidx⟩ := ref_run idT refs m hid hc t r hr
      have hkl : k < (loopOf false idT refs m).1.length := (List.getElem?_eq_some_iff.1 hrun).1
      have hrun' : rt.runs[k]? = some run := by
        rw [exportRuns_runs, getElem?_append_left hkl]; exact hrun
      have hk : k < rt.runs.length := (List.getElem?_eq_some_iff.1 hrun').1
      rw [inv.done k run hk hrun' t h1 h2]
      have hf : rt.faceID.isEmpty = false := by
        cases hs : rt.sorted with
        | nil => rw [hs] at hr; simp at hr
        | cons a l => simp [RunTable.faceID, hs]
      have hf2 : rt.faceID.getD t 0 = exportFaceID r := by
        simp [RunTable.faceID, hr]
      have hidx' : idxOf r.meshID rt.runMeshID = k := hidx
      simp only [Option.map_some, hf, Bool.false_eq_true, if_false, hf2, ho, ρ, hidx']
  · rw [himp2, inv.map, take_length]
  · exact rho_preserves idT refs m startID hid hc

/-- non-vacuity: the consistent two-instance state of `MV.C07.exRefs`, `MV.C07.exMap` -/
example := runs_roundtrip (0 : Nat) MV.C07.exRefs MV.C07.exMap 100 3 MV.C07.exMap_sorted
  MV.C07.exRefs_hid MV.C07.ex_consistent (by simp [MV.C07.exRefs])

/-- RE-EXPORT IS THE IDENTITY: exporting the re-imported state gives the same run fields and
the same face IDs, with the triangles already in run order (`triNew2Old = 0..n-1`).  `hn`: the
hasNormals bit survives when the mesh has ≥ 3 extra channels (or no relation has it). -/
theorem reexport_eq (idT : τ) (refs : List TriRef) (m : RelMap τ) (startID : Int) (nx : Nat)
    (hm : RelMap.Sorted m) (hid : ∀ r ∈ refs, r.meshID ≠ -1) (hc : Consistent refs m)
    (hne : refs ≠ []) (hs : 0 ≤ startID) (hf : ∀ r ∈ refs, 0 ≤ exportFaceID r)
    (hn : 3 ≤ nx ∨ ∀ kv ∈ m, kv.2.hasNormals = false) :
    let rt := exportRuns false idT refs m
    let imp := importRuns idT startID nx (ImportIn.ofExport rt)
    let rt2 := exportRuns false idT imp.1 imp.2
    rt2.triNew2Old = List.range refs.length ∧
    rt2.runIndex = rt.runIndex ∧ rt2.runOriginalID = rt.runOriginalID ∧
    rt2.runFlags = rt.runFlags ∧ rt2.runTransform = rt.runTransform ∧ rt2.faceID = rt.faceID := by
  intro rt imp rt2
  obtain ⟨e1, e2, _⟩ := runs_roundtrip idT refs m startID nx hm hid hc hne
  have hrt2 : rt2 = exportRuns false idT (reRefs startID (exportRuns false idT refs m))
      (reMap startID nx (exportRuns false idT refs m)) := by
    show exportRuns false idT imp.1 imp.2 = _
    rw [show imp.1 = reRefs startID (exportRuns false idT refs m) from e1,
      show imp.2 = reMap startID nx (exportRuns false idT refs m) from e2]
  have hfl := reexport_fields idT refs m startID nx hm hs hid hc hn
  rw [← hrt2] at hfl
  have hstart : rt2.runs.map (·.start) = rt.runs.map (·.start) := by
    have := congrArg (map Prod.fst) hfl
    rw [map_map, map_map] at this
    exact this
  have hrel : rt2.runs.map (·.rel) = rt.runs.map (·.rel) := by
    have := congrArg (map Prod.snd) hfl
    rw [map_map, map_map] at this
    exact this
  have hnum : rt2.numTri = rt.numTri := by
    rw [hrt2, exportRuns_numTri, reRefs_length']; rfl
  refine ⟨?_, ?_, ?_, ?_, ?_, ?_⟩
  · rw [hrt2]; exact reexport_triNew2Old idT refs m startID nx hid hc
  · rw [runIndex_eq rt2, runIndex_eq rt, hstart, hnum]
  · have := congrArg (map (·.originalID)) hrel
    rw [map_map, map_map] at this
    exact this
  · have := congrArg (map (relFlags ·)) hrel
    rw [map_map, map_map] at this
    exact this
  · have := congrArg (map (·.transform)) hrel
    have ho2 : rt2.isOriginal = false := by rw [hrt2]; rfl
    have ho : rt.isOriginal = false := rfl
    simp only [RunTable.runTransform, ho, ho2, Bool.false_eq_true, if_false]
    rw [map_map, map_map] at this
    exact this
  · rw [hrt2]; exact reexport_faceID idT refs m startID nx hid hc hf

/-- non-vacuity: every exported face ID of `exRefs` is non-negative (faceID or coplanarID), and the
mesh has 3 extra channels -/
example := reexport_eq (0 : Nat) MV.C07.exRefs MV.C07.exMap 100 3 MV.C07.exMap_sorted
  MV.C07.exRefs_hid MV.C07.ex_consistent (by simp [MV.C07.exRefs]) (by omega)
  (by simp [MV.C07.exRefs, exportFaceID]) (Or.inl (Nat.le_refl 3))

end MV.C08
