import MV.Proof.CsgHistory
import MV.Proof.CsgFresh
import MV.Proof.CsgFold
import MV.Proof.CsgWfB
/-!
# C03 — the solid denoted by a CSG expression does not depend on laziness

Model: `MV/Model/Csg.lean` (`toLeaf` = `CsgOpNode::ToLeafNode`, `force` =
`Manifold::GetCsgLeafNode`, `Store.boolean/batch/transform` = the node constructors).
Everything is proved for an arbitrary transform type `M` with `1`, `*` (the driver uses the
integer 3x4 matrices `Mat`), an arbitrary algebra of solids `S` (`SolidAlg`, `XfAct`: exactly the
laws used), EVERY oracle (the `use_count()` tests of `canCollapse`), EVERY well-formed store
(arbitrary DAG, arbitrary sharing of impls between op nodes that differ in their transform,
arbitrary subset of nodes already evaluated/cached).

Result meshes are abstract: a valuation `L : Val S` names the solid of every mesh and
`Respects L evs` says that each mesh created by a finalize (`fin op pos neg => r`) has the value
of the n-ary operation on its operands (`evSem`; independence from the partition / heap order
inside `BatchUnion` / `BatchBoolean` is `batch_eq_fold`).  Such an `L` always exists and extends
any valuation of the pre-existing meshes (`toLeaf_respects_exists`, `program_independent_exists`).
-/
set_option autoImplicit false
namespace MV.Csg.C03
open MV.Csg SolidAlg XfAct

variable {M S : Type} [One M] [Mul M] [SolidAlg S] [XfAct M S]

/-- The invariant `WF` of the property statement: structural part `WFs` (every impl has ≥ 2
children or is a single LEAF; op children have smaller impl ids = acyclic; nodes sharing an impl
have the same op; a cached node has a leaf cache and an impl that is a single leaf) and
`CacheOK` (the cache denotes its node). -/
def WF (L : Val S) (s : Store M) : Prop := WFs s ∧ CacheOK L s

/-! ## a concrete DAG with a sub-expression shared under two different transforms -/

/-- translate by 5 along x -/
def T1 : Mat := ⟨1, 0, 0, 5, 0, 1, 0, 0, 0, 0, 1, 0⟩
/-- scale by 2 -/
def T2 : Mat := ⟨2, 0, 0, 0, 0, 2, 0, 0, 0, 0, 2, 0⟩

/-- `x = a + b; root = (x.Transform(T1) - c) + x.Transform(T2)`: the op nodes of handles 5 and
6 share the impl of `x` -/
def dagProg : List (Cmd Mat) :=
  [.leaf 1, .leaf 2, .leaf 3, .bool 4 .add 1 2, .xf 5 4 T1, .xf 6 4 T2, .bool 7 .sub 5 3,
   .bool 8 .add 7 6]

def dag : Store Mat := (({} : Sess Mat).run dagProg).st

/-- the root is node 7; nodes 4 and 5 are the two transformed copies sharing impl 0 -/
example : (({} : Sess Mat).run dagProg).handles.lookup 8 = some 7 ∧
    dag.nodes[4]? = some (.op 0 .add T1 none) ∧ dag.nodes[5]? = some (.op 0 .add T2 none) := by
  decide

theorem dag_wfs : WFs dag := wf_sound (by decide)
theorem dag_below : StoreBelow dag := storeBelow_of_check (by decide)
theorem dag_cache {S' : Type} [SolidAlg S'] [XfAct Mat S'] (L : Val S') : CacheOK L dag :=
  cacheOK_of_noCache L (by decide)

/-- an oracle for the four non-finalize frame visits of `force root`: root, `T2·x` (finalized:
`x`'s impl becomes one result leaf), the Subtract node, `T1·x` (collapses: impl has size 1) -/
def dagOrc : List Bool := [false, false, false, true]

/-! ## toLeaf_denotes -/

/-- **toLeaf_denotes.**  For every well-formed store, every node `n`, every oracle and every
fuel `≥ cost s n` (the fuel bound; `force` passes exactly `cost s n`): the evaluator terminates
within the fuel without undefined behaviour, returns a leaf node, the new store is well formed,
and for every valuation respecting the emitted events the returned leaf denotes `denote s n`
(taken in the store BEFORE the call), the denotation of EVERY node of the store is unchanged,
and the caches stay consistent. -/
theorem toLeaf_denotes (s : Store M) (hwf : WFs s) (n : Nat) (hn : n < s.nodes.length)
    (orc : List Bool) (fuel : Nat) (hfuel : cost s n ≤ fuel) :
    (toLeaf s n orc fuel).ok = true ∧ (toLeaf s n orc fuel).ub = false ∧
    WFs (toLeaf s n orc fuel).st ∧
    (∃ l, (toLeaf s n orc fuel).st.nodes[(toLeaf s n orc fuel).ret]? = some (Node.leaf l)) ∧
    ∀ (L : Val S), CacheOK L s → Respects L (toLeaf s n orc fuel).evs →
      denote L (toLeaf s n orc fuel).st (toLeaf s n orc fuel).ret = denote L s n ∧
      (∀ k, k < s.nodes.length → denote L (toLeaf s n orc fuel).st k = denote L s k) ∧
      WF L (toLeaf s n orc fuel).st := by
  obtain ⟨ok, ub, wf, lf, sem⟩ := toLeaf_built (S := S) s hwf n hn orc fuel hfuel
  refine ⟨ok, ub, wf, lf, fun L hc hL => ?_⟩
  have b := sem L hL hc
  exact ⟨b.val, b.sem, b.wf, b.cache⟩

/-- The hypothesis `Respects` of `toLeaf_denotes` is satisfiable, for every store whose result
meshes were created before `nextRes` (`StoreBelow`) and every valuation `L₀` of the existing
meshes: `L₀.extend evs` respects the events, agrees with `L₀` on all existing meshes, and keeps
the caches consistent. -/
theorem toLeaf_respects_exists (s : Store M) (hs : StoreBelow s) (n : Nat) (orc : List Bool)
    (fuel : Nat) (L₀ : Val S) (hc : CacheOK L₀ s) :
    Respects (L₀.extend (toLeaf s n orc fuel).evs) (toLeaf s n orc fuel).evs ∧
    Agree s.nextRes L₀ (L₀.extend (toLeaf s n orc fuel).evs) ∧
    CacheOK (L₀.extend (toLeaf s n orc fuel).evs) s ∧
    ∀ k, denote (L₀.extend (toLeaf s n orc fuel).evs) s k = denote L₀ s k := by
  have f := toLeaf_fresh s hs n orc fuel
  have a := extend_agree (S := S) _ _ L₀ f.sc
  exact ⟨extend_respects _ _ L₀ f.sc, a, cacheOK_congr hs a hc,
    fun k => (denote_congr hs a k).symm⟩

/-- Non-vacuity of `toLeaf_denotes` on the DAG above: all hypotheses hold, so for EVERY algebra
of solids and every valuation `L₀` of the three user meshes the leaf returned for the root
denotes the eager value of the expression; the shared impl is evaluated once (event 1) and
re-used under the other transform (`r0` appears with `T1` and with `T2`). -/
example {S' : Type} [SolidAlg S'] [XfAct Mat S'] (L₀ : Val S') :
    let r := toLeaf dag 7 dagOrc (cost dag 7)
    let L := L₀.extend r.evs
    r.ok = true ∧ Respects L r.evs ∧ denote L r.st r.ret = denote L₀ dag 7 ∧
    denote L₀ dag 7 =
      union (diff (act T1 (union (L₀.orig 1) (L₀.orig 2))) (L₀.orig 3))
            (act T2 (union (L₀.orig 1) (L₀.orig 2))) := by
  intro r L
  obtain ⟨ok, _, _, _, sem⟩ :=
    toLeaf_denotes (S := S') dag dag_wfs 7 (by decide) dagOrc (cost dag 7) (Nat.le_refl _)
  obtain ⟨hR, _, hC, hD⟩ := toLeaf_respects_exists dag dag_below 7 dagOrc (cost dag 7) L₀
    (dag_cache L₀)
  refine ⟨ok, hR, ?_, ?_⟩
  · rw [(sem L hC hR).1]; exact hD 7
  · have hev : (({} : Sess Mat).run dagProg).evs = [] := by decide
    have h := ((run_inv dagProg ({} : Sess Mat) ({} : Spec S') (sessInv_empty L₀)
      (by rw [hev]; exact Respects_nil L₀)).bound 8 7 (by decide)).2
    exact (Option.some.inj h).symm

example :
    (toLeaf dag 7 dagOrc (cost dag 7)).evs =
      [ { op := .add, pos := [⟨.orig 1, 1⟩, ⟨.orig 2, 1⟩], neg := [], res := ⟨.res 0, 1⟩,
          fresh := true },
        { op := .sub, pos := [⟨.res 0, T1⟩], neg := [⟨.orig 3, 1⟩], res := ⟨.res 1, 1⟩,
          fresh := true },
        { op := .add, pos := [⟨.res 0, T2⟩, ⟨.res 1, 1⟩], neg := [], res := ⟨.res 2, 1⟩,
          fresh := true } ] ∧
    (toLeaf dag 7 dagOrc (cost dag 7)).used = 4 := by
  decide

/-- the same for `Manifold::GetCsgLeafNode` (which supplies the fuel `cost s n` itself) -/
theorem force_denotes (s : Store M) (hwf : WFs s) (n : Nat) (hn : n < s.nodes.length)
    (orc : List Bool) :
    (force s n orc).ok = true ∧ (force s n orc).ub = false ∧ WFs (force s n orc).st ∧
    (∃ l, (force s n orc).st.nodes[(force s n orc).ret]? = some (Node.leaf l)) ∧
    ∀ (L : Val S), CacheOK L s → Respects L (force s n orc).evs →
      denote L (force s n orc).st (force s n orc).ret = denote L s n ∧
      (∀ k, k < s.nodes.length → denote L (force s n orc).st k = denote L s k) ∧
      WF L (force s n orc).st := by
  obtain ⟨ok, ub, wf, lf, sem⟩ := force_built (S := S) s hwf n hn orc
  refine ⟨ok, ub, wf, lf, fun L hc hL => ?_⟩
  have b := sem L hL hc
  exact ⟨b.val, b.sem, b.wf, b.cache⟩

/-! ## history_independent -/

/-- **history_independent.**  For every well-formed initial store and every sequence of forcing
calls `(node, oracle)` on its nodes — any order, any repetition, shared sub-expressions forced
first, later, or through several parents — every call succeeds and returns a leaf that denotes
`denote₀` of its node in the INITIAL store; afterwards all initial nodes still denote what they
denoted initially. -/
theorem history_independent (s : Store M) (hwf : WFs s) (calls : List (Nat × List Bool))
    (hvalid : ∀ c ∈ calls, c.1 < s.nodes.length) :
    (forceSeq s calls).2.2.2 = true ∧ WFs (forceSeq s calls).1 ∧
    ∀ (L : Val S), CacheOK L s → Respects L (forceSeq s calls).2.2.1 →
      (forceSeq s calls).2.1.map (Option.map L.leaf)
        = calls.map (fun c => some (denote L s c.1)) ∧
      (∀ k, k < s.nodes.length → denote L (forceSeq s calls).1 k = denote L s k) ∧
      WF L (forceSeq s calls).1 := by
  obtain ⟨ok, wf, sem⟩ := forceSeq_spec (S := S) s hwf calls hvalid
  refine ⟨ok, wf, fun L hc hL => ?_⟩
  obtain ⟨r, se, c, _⟩ := sem L hL hc
  exact ⟨r, se, wf, c⟩

/-- Non-vacuity of `history_independent`: on the DAG above force the shared sub-expression
first (node 3), then the root, then a transformed copy (node 4), then node 3 again.  For every
algebra and every valuation of the user meshes all four calls return the initial denotation of
their node. -/
example {S' : Type} [SolidAlg S'] [XfAct Mat S'] (L₀ : Val S') :
    let calls : List (Nat × List Bool) :=
      [(3, [false]), (7, [false, true, false, false]), (4, [true]), (3, [])]
    let R := forceSeq dag calls
    let L := L₀.extend R.2.2.1
    R.2.2.2 = true ∧ Respects L R.2.2.1 ∧
    R.2.1.map (Option.map L.leaf) = calls.map (fun c => some (denote L₀ dag c.1)) := by
  intro calls R L
  obtain ⟨ok, _, sem⟩ := history_independent (S := S') dag dag_wfs calls (by decide)
  have hsc : Scoped 0 R.2.2.1 := by decide
  have hR : Respects L R.2.2.1 := extend_respects _ _ L₀ hsc
  have hA : Agree dag.nextRes L₀ L := extend_agree _ _ L₀ hsc
  refine ⟨ok, hR, ?_⟩
  rw [(sem L (dag_cache L) hR).1]
  apply List.map_congr_left
  intro c _
  rw [denote_congr dag_below hA]

/-- **program_independent** (history independence at the API level).  Run any program — any
interleaving of `leaf`, `Boolean`, `BatchBoolean`, `Transform`, handle destruction and forcing
with arbitrary oracles — lazily (`Sess.run`) and eagerly (`Spec.run`: every handle gets its
solid at once from `binSem`/`opSem`/`act`).  Then every live handle denotes its eager solid,
and every `force` returned a leaf denoting the eager solid of its handle.  Unbound handles are
unbound on both sides. -/
theorem program_independent (prog : List (Cmd M)) (L : Val S)
    (hL : Respects L ((({} : Sess M).run prog).evs)) :
    (∀ h n, (({} : Sess M).run prog).handles.lookup h = some n →
      (({} : Spec S).run L prog).env.lookup h
        = some (denote L (({} : Sess M).run prog).st n)) ∧
    (∀ h, (({} : Sess M).run prog).handles.lookup h = none →
      (({} : Spec S).run L prog).env.lookup h = none) ∧
    (({} : Sess M).run prog).rets.map L.leaf = (({} : Spec S).run L prog).rets ∧
    WF L (({} : Sess M).run prog).st := by
  have inv := run_inv prog ({} : Sess M) ({} : Spec S) (sessInv_empty L) hL
  exact ⟨fun h n hl => (inv.bound h n hl).2, inv.unbound, inv.rets, inv.wf, inv.cache⟩

/-- the valuation needed by `program_independent` exists for every valuation `L₀` of the user
meshes: the events of every program are well scoped -/
theorem program_independent_exists (prog : List (Cmd M)) (L₀ : Val S) :
    Respects (L₀.extend (({} : Sess M).run prog).evs) (({} : Sess M).run prog).evs ∧
    (L₀.extend (({} : Sess M).run prog).evs).orig = L₀.orig := by
  have f := run_sess_fresh prog ({} : Sess M) sessFresh_empty
  exact ⟨extend_respects _ _ L₀ f.sc, (extend_agree (S := S) _ _ L₀ f.sc).1.symm⟩

/-- A program that forces the shared sub-expression late, the root early, re-uses an evaluated
handle under a new transform, drops a handle and re-binds another one. -/
def histProg : List (Cmd Mat) :=
  dagProg ++ [.force 8 [false, false, false, true], .force 4 [], .xf 9 8 T1, .force 9 [],
              .bool 8 .int 9 5, .drop 4, .force 8 [false, true], .force 5 []]

/-- Non-vacuity of `program_independent`: the program runs without failure, makes five forces
and six finalizes, and for every algebra and every valuation of the user meshes the required
valuation exists, so every force returned the eager solid. -/
example {S' : Type} [SolidAlg S'] [XfAct Mat S'] (L₀ : Val S') :
    let σ := ({} : Sess Mat).run histProg
    let L := L₀.extend σ.evs
    σ.ok = true ∧ σ.rets.length = 5 ∧ σ.evs.length = 6 ∧
    σ.rets.map L.leaf = (({} : Spec S').run L histProg).rets ∧ L.orig = L₀.orig := by
  intro σ L
  obtain ⟨hR, hO⟩ := program_independent_exists (S := S') histProg L₀
  exact ⟨by decide, by decide, by decide, (program_independent histProg L hR).2.2.1, hO⟩

/-! ## corollaries: the evaluator's rewrites at the denotation level -/

/-- **sub_sub**: `(a − b) − c = a − (b + c)`, for the nodes built by `Manifold::Boolean` -/
theorem sub_sub (L : Val S) (s : Store M) (hwf : WFs s) (hc : CacheOK L s) (a b c : Nat)
    (ha : a < s.nodes.length) (hb : b < s.nodes.length) (hcl : c < s.nodes.length) :
    let s1 := (s.boolean a b .sub).1
    let x := (s.boolean a b .sub).2
    let s2 := (s1.boolean x c .sub).1
    let y := (s1.boolean x c .sub).2
    let t1 := (s.boolean b c .add).1
    let z := (s.boolean b c .add).2
    let t2 := (t1.boolean a z .sub).1
    let w := (t1.boolean a z .sub).2
    denote L s2 y = denote L t2 w ∧
    denote L s2 y = diff (denote L s a) (union (denote L s b) (denote L s c)) := by
  intro s1 x s2 y t1 z t2 w
  have b1 := boolean_built L s hwf hc a b .sub ha hb
  have b2 := boolean_built L s1 b1.wf b1.cache x c .sub b1.lt (Nat.lt_of_lt_of_le hcl b1.mono)
  have c1 := boolean_built L s hwf hc b c .add hb hcl
  have c2 := boolean_built L t1 c1.wf c1.cache a z .sub (Nat.lt_of_lt_of_le ha c1.mono) c1.lt
  have e1 : denote L s2 y = diff (denote L s a) (union (denote L s b) (denote L s c)) := by
    rw [b2.val, b1.val, b1.sem c hcl]
    exact diff_diff _ _ _
  refine ⟨?_, e1⟩
  rw [e1, c2.val, c1.val, c1.sem a ha]
  rfl

/-- `sub_sub` applies to the three leaves of the DAG above (every algebra, every valuation) -/
example {S' : Type} [SolidAlg S'] [XfAct Mat S'] (L : Val S') :
    diff (diff (L.orig 1) (L.orig 2)) (L.orig 3) = diff (L.orig 1) (union (L.orig 2) (L.orig 3)) := by
  have h := (sub_sub L dag dag_wfs (dag_cache L) 0 1 2 (by decide) (by decide) (by decide)).2
  have e0 : denote L dag 0 = L.orig 1 := by
    rw [denote_leaf L (l := ⟨.orig 1, 1⟩) (by decide)]; simp [Val.leaf, Val.leafId, act_one]
  have e1 : denote L dag 1 = L.orig 2 := by
    rw [denote_leaf L (l := ⟨.orig 2, 1⟩) (by decide)]; simp [Val.leaf, Val.leafId, act_one]
  have e2 : denote L dag 2 = L.orig 3 := by
    rw [denote_leaf L (l := ⟨.orig 3, 1⟩) (by decide)]; simp [Val.leaf, Val.leafId, act_one]
  rw [e0, e1, e2] at h
  exact (diff_diff _ _ _).trans (h.symm.trans h)

/-- **sub_sub as the evaluator performs it**: `(a − b) − c` with the inner node unshared (handle
dropped, oracle bit 1) is collapsed — ONE finalize with `pos = [a]`, `neg = [c, b]`; with the
inner node still shared (oracle bit 0) it is evaluated in two finalizes. -/
example :
    (({} : Sess Mat).run [.leaf 1, .leaf 2, .leaf 3, .bool 4 .sub 1 2, .bool 5 .sub 4 3,
        .drop 4, .force 5 [false, true]]).evs =
      [ { op := .sub, pos := [⟨.orig 1, 1⟩], neg := [⟨.orig 3, 1⟩, ⟨.orig 2, 1⟩],
          res := ⟨.res 0, 1⟩, fresh := true } ] ∧
    (({} : Sess Mat).run [.leaf 1, .leaf 2, .leaf 3, .bool 4 .sub 1 2, .bool 5 .sub 4 3,
        .force 5 [false, false]]).evs =
      [ { op := .sub, pos := [⟨.orig 1, 1⟩], neg := [⟨.orig 2, 1⟩], res := ⟨.res 0, 1⟩,
          fresh := true },
        { op := .sub, pos := [⟨.res 0, 1⟩], neg := [⟨.orig 3, 1⟩], res := ⟨.res 1, 1⟩,
          fresh := true } ] := by
  decide

/-- **nested_eq_flat**: nested binary unions / intersections equal the flat batch -/
theorem nested_eq_flat (L : Val S) (s : Store M) (hwf : WFs s) (hc : CacheOK L s) (o : Op)
    (ho : o = .add ∨ o = .int) (a b c : Nat)
    (ha : a < s.nodes.length) (hb : b < s.nodes.length) (hcl : c < s.nodes.length) :
    let s1 := (s.boolean a b o).1
    let x := (s.boolean a b o).2
    denote L (s1.boolean x c o).1 (s1.boolean x c o).2
      = denote L (s.batch [a, b, c] o).1 (s.batch [a, b, c] o).2 := by
  intro s1 x
  have b1 := boolean_built L s hwf hc a b o ha hb
  have b2 := boolean_built L s1 b1.wf b1.cache x c o b1.lt (Nat.lt_of_lt_of_le hcl b1.mono)
  have f := batch_built L s hwf hc [a, b, c] o (by
    intro n hn
    simp only [List.mem_cons, List.not_mem_nil, or_false] at hn
    rcases hn with rfl | rfl | rfl <;> assumption)
  rw [b2.val, b1.val, b1.sem c hcl, f.val]
  rcases ho with rfl | rfl
  · simp [binSem, opSem, union_empty, union_assoc]
  · simp [binSem, opSem, bigI, bigIo, inter_assoc]

/-- `nested_eq_flat` on the DAG above, with the shared op node `x` (node 3) as an operand -/
example {S' : Type} [SolidAlg S'] [XfAct Mat S'] (L : Val S') :
    let s1 := (dag.boolean 3 4 .add).1
    let x := (dag.boolean 3 4 .add).2
    denote L (s1.boolean x 5 .add).1 (s1.boolean x 5 .add).2
      = denote L (dag.batch [3, 4, 5] .add).1 (dag.batch [3, 4, 5] .add).2 :=
  nested_eq_flat L dag dag_wfs (dag_cache L) .add (Or.inl rfl) 3 4 5 (by decide) (by decide)
    (by decide)

/-- nested versus flat as the evaluator performs it: the nested union collapses (oracle bit 1)
into one finalize over the same three operands as the batch -/
example :
    (({} : Sess Mat).run [.leaf 1, .leaf 2, .leaf 3, .bool 4 .add 1 2, .bool 5 .add 4 3,
        .drop 4, .force 5 [false, true]]).evs =
      [ { op := .add, pos := [⟨.orig 3, 1⟩, ⟨.orig 1, 1⟩, ⟨.orig 2, 1⟩], neg := [],
          res := ⟨.res 0, 1⟩, fresh := true } ] ∧
    (({} : Sess Mat).run [.leaf 1, .leaf 2, .leaf 3, .batch 5 .add [1, 2, 3],
        .force 5 [false]]).evs =
      [ { op := .add, pos := [⟨.orig 1, 1⟩, ⟨.orig 2, 1⟩, ⟨.orig 3, 1⟩], neg := [],
          res := ⟨.res 0, 1⟩, fresh := true } ] := by
  decide

/-- **transform_chain**: a chain of transforms equals the product applied once -/
theorem transform_chain (L : Val S) (s : Store M) (hwf : WFs s) (hc : CacheOK L s) (e : Nat)
    (m n : M) (he : e < s.nodes.length) :
    let s1 := (s.transform e n).1
    let x := (s.transform e n).2
    denote L (s1.transform x m).1 (s1.transform x m).2 = act (m * n) (denote L s e) := by
  intro s1 x
  have b1 := transform_built L s hwf hc e n he
  have b2 := transform_built L s1 b1.wf b1.cache x m b1.lt
  rw [b2.val, b1.val, act_mul]

/-- `transform_chain` on the shared op node `x` (node 3) of the DAG above, and the matrices the
model actually stores: the chain is multiplied out at construction (`m * Mat4(n)`), also when
the transformed node was collapsed into its parent during evaluation (`r0:T2*T1` below). -/
example {S' : Type} [SolidAlg S'] [XfAct Mat S'] (L : Val S') :
    let s1 := (dag.transform 3 T1).1
    let x := (dag.transform 3 T1).2
    denote L (s1.transform x T2).1 (s1.transform x T2).2 = act (T2 * T1) (denote L dag 3) :=
  transform_chain L dag dag_wfs (dag_cache L) 3 T2 T1 (by decide)

example :
    ((dag.transform 3 T1).1.transform (dag.transform 3 T1).2 T2).1.nodes[9]?
      = some (.op 0 .add (T2 * T1) none) ∧
    T2 * T1 = (⟨2, 0, 0, 10, 0, 2, 0, 0, 0, 0, 2, 0⟩ : Mat) ∧
    (({} : Sess Mat).run [.leaf 1, .xf 2 1 T1, .xf 3 2 T2, .force 3 []]).rets
      = [⟨.orig 1, T2 * T1⟩] := by
  decide

/-- **batch_eq_fold**: any bracketing, grouping and order in which `BatchUnion` /
`BatchBoolean` combine their operands with a commutative associative operation gives the left
fold of the operands -/
theorem batch_eq_fold {α : Type} (f : α → α → α) [Std.Associative f] [Std.Commutative f]
    (t : Bracket α) (x : α) (l : List α) (h : t.leaves.Perm (x :: l)) :
    t.eval f = l.foldl f x :=
  MV.Csg.batch_eq_fold f t x l h

/-- `batch_eq_fold` on a concrete bracketing: `(d ∪ a) ∪ (c ∪ b)` is the fold of `a,b,c,d` -/
example (a b c d : S) :
    union (union d a) (union c b) = union (union (union a b) c) d :=
  batch_eq_fold union (.op (.op (.one d) (.one a)) (.op (.one c) (.one b))) a [b, c, d]
    ((List.Perm.swap a d [c, b]).trans ((List.reverse_perm [b, c, d]).cons a))

/-- `BatchUnion` of the operands `x :: l`, whatever it does internally, is `⋃` -/
theorem batchUnion_eq (t : Bracket S) (x : S) (l : List S) (h : t.leaves.Perm (x :: l)) :
    t.eval union = bigU (x :: l) := batchUnion_eq_bigU t x l h

/-- `BatchBoolean(Intersect)` of the operands `x :: l`, whatever the heap order, is `⋂` -/
theorem batchInter_eq (t : Bracket S) (x : S) (l : List S) (h : t.leaves.Perm (x :: l)) :
    t.eval inter = bigI (x :: l) := batchInter_eq_bigI t x l h

end MV.Csg.C03
