import MV.Proof.EarClip
import MV.Proof.EarClipRings
/-!
# C10 (topological part) — `Triangulate` returns a correct triangulation

Property: "Triangulate returns triangles over the input vertex indices in which every input edge
occurs exactly once in its input direction and every other edge is matched by its reverse;
exactly V−2+2h−2(o−1) triangles when no topological degenerate is skipped; the convex fast
path gives a valid triangulation too; the call terminates."

Model: `MV/Model/EarClip.lean` (`polygon_` vector with `left`/`right` indices, `ClipEar`,
`JoinPolygons`, `Initialize`, `TriangulateConvex`, `HalfedgeTriangulation`).  Every geometric
decision of the C++ is an oracle: all theorems quantify over EVERY sequence `ops` of
`clip v` / `join s c` whose ops satisfy the guard the C++ call sites establish.

Guards (`MV/Proof/EarClip.lean`):
* `OpLive st op` — `clip v`: `v` in range and `!Clipped(v)`; `join s c`: both in range and
  unclipped and `s->right ≠ c` (true whenever `s`, `c` lie in different rings, which is what
  `CutKeyhole` guarantees: `start` is on a hole ring, `connector` on an outer ring).  This is
  all the chain invariant needs — clipping a vert of a ring with one or two verts is harmless
  for it.  (For `s->right = c` the statement is FALSE: `JoinPolygons` then leaves `newStart`
  clipped and `newConnector->right` dangling.)
* `OpOk st op` — additionally `v->left ≠ v->right` for `clip v` (the test in
  `ClipIfDegenerate`; in the main loop the `numTri` countdown keeps the ring at ≥ 3 verts).
  `opOk`/`runChecked` decide it; needed for the triangle count only.

`Σ_rings net(ring edges)` is stated as `net (liveEdges s)`: every unclipped vert `v` contributes
the edge `(v.mesh_idx, v->right.mesh_idx)` of the one ring it lies on.  `Linked` says `right` is
a bijection of the unclipped verts with inverse `left` (`liveList_map_R_perm`); that they
decompose into disjoint cycles is made explicit by `linked_rings_partition` (the lists
`ring s v` read through `right` from the smallest vert of each ring are duplicate-free and
partition the unclipped verts) and `earclip_chain_rings` restates the invariant with the
literal sum `Σ_{ring} bdRing`.
-/
namespace MV.EarClip

/-! ## `earclip_chain` -/

/-- the closed form `initState` used below is what the literal push_back/`Link` loop of
    `Initialize` (`initStateSeq`) produces, for every input -/
theorem initialize_faithful (polys : List (List Nat)) : initStateSeq polys = initState polys :=
  initStateSeq_eq polys

example : (initStateSeq [[0, 1, 2, 3], [4, 5, 6]]).verts.toList.map (fun v => (v.meshIdx, v.left, v.right)) =
    [(0, 3, 1), (1, 0, 2), (2, 1, 3), (3, 2, 0), (4, 6, 5), (5, 4, 6), (6, 5, 4)] := by decide +kernel

/-- after `Initialize` the lists are well linked, no triangle is emitted and the rings'
    boundary is the contours' -/
theorem earclip_chain_init (polys : List (List Nat)) :
    Linked (initState polys) ∧
    ∀ a b, net (triEdges (initState polys).tris) a b + net (liveEdges (initState polys)) a b
      = bdContours polys a b :=
  ⟨init_linked polys, fun a b => init_chain polys a b⟩

/-- `ClipEar` on any unclipped vert of any well-linked state keeps the state well linked and
    keeps `net(triangles) + Σ_rings net(ring edges)` -/
theorem earclip_chain_clip (s : State) (h : Linked s) (v : Nat) (hv : v < s.n) (hl : s.live v) :
    Linked (clipEar s v) ∧
    ∀ a b, net (triEdges (clipEar s v).tris) a b + net (liveEdges (clipEar s v)) a b
      = net (triEdges s.tris) a b + net (liveEdges s) a b :=
  ⟨clip_linked s h v hv hl, fun a b => clip_chain s h v hv hl a b⟩

/-- when the topological degenerate is skipped (two of the three mesh indices coincide) no
    triangle is emitted and the change of the ring is zero in the group -/
theorem earclip_chain_clip_degenerate (s : State) (h : Linked s) (v : Nat) (hv : v < s.n)
    (hl : s.live v)
    (hdeg : s.mesh (s.L v) = s.mesh v ∨ s.mesh v = s.mesh (s.R v) ∨ s.mesh (s.R v) = s.mesh (s.L v)) :
    (clipEar s v).tris = s.tris ∧ (clipEar s v).skipped = s.skipped + 1 ∧
    ∀ a b, net (liveEdges (clipEar s v)) a b = net (liveEdges s) a b := by
  have ht : (clipEar s v).tris = s.tris ∧ (clipEar s v).skipped = s.skipped + 1 := by
    unfold clipEar; dsimp only
    split
    · next hd => rcases hdeg with h1 | h1 | h1
                 · exact absurd h1 hd.1
                 · exact absurd h1 hd.2.1
                 · exact absurd h1 hd.2.2
    · exact ⟨rfl, rfl⟩
  refine ⟨ht.1, ht.2, fun a b => ?_⟩
  have := clip_chain s h v hv hl a b
  unfold chainVal at this
  rw [ht.1] at this
  omega

/-- `JoinPolygons(start, connector)` (both unclipped, `start->right ≠ connector`; same ring or
    different rings) keeps the state well linked and keeps the chain -/
theorem earclip_chain_join (st : State) (h : Linked st) (s c : Nat) (hs : s < st.n) (hc : c < st.n)
    (hls : st.live s) (hlc : st.live c) (hne : st.R s ≠ c) :
    Linked (joinPolygons st s c) ∧
    ∀ a b, net (triEdges (joinPolygons st s c).tris) a b + net (liveEdges (joinPolygons st s c)) a b
      = net (triEdges st.tris) a b + net (liveEdges st) a b :=
  ⟨join_linked st h s c hs hc hls hlc hne, fun a b => join_chain st h s c hs hc hls hlc hne a b⟩

/-- **earclip_chain**: for every contour set and every guarded op sequence,
    `net(triangles) + Σ_rings net(ring edges) = net(contours)` and the lists stay well linked -/
theorem earclip_chain (polys : List (List Nat)) (ops : List Op)
    (hr : RunOk OpLive (initState polys) ops) :
    Linked (run (initState polys) ops) ∧
    ∀ a b, net (triEdges (run (initState polys) ops).tris) a b
        + net (liveEdges (run (initState polys) ops)) a b = bdContours polys a b := by
  refine ⟨run_linked _ (init_linked polys) ops hr, fun a b => ?_⟩
  have := run_chain _ (init_linked polys) ops hr a b
  unfold chainVal at this
  rw [this]
  exact init_chain polys a b

/-- in a well-linked state the unclipped verts decompose into disjoint cycles: the rings read
    through `right` pointers (one per smallest vert) are duplicate-free lists whose
    concatenation is a permutation of the unclipped verts; hence `net (liveEdges s)` is
    literally `Σ_rings bdRing`. -/
theorem linked_rings_partition (s : State) (h : Linked s) :
    (rings s).flatten.Perm (liveList s) ∧ (∀ r, r ∈ rings s → r.Nodup) ∧
    ∀ a b, net (liveEdges s) a b = ((ringReps s).map fun v => bdRing s v a b).sum := by
  refine ⟨rings_flatten_perm s h, ?_, netLive_eq_sum_rings s h⟩
  intro r hr
  simp only [rings, List.mem_map] at hr
  obtain ⟨v, hv, rfl⟩ := hr
  rw [mem_ringReps s h] at hv
  exact ring_nodup s h v hv.1 hv.2.1

/-- `earclip_chain` with the sum over rings written out -/
theorem earclip_chain_rings (polys : List (List Nat)) (ops : List Op)
    (hr : RunOk OpLive (initState polys) ops) (a b : Nat) :
    let s := run (initState polys) ops
    net (triEdges s.tris) a b + ((ringReps s).map fun v => bdRing s v a b).sum
      = bdContours polys a b := by
  dsimp only
  obtain ⟨hl, hc⟩ := earclip_chain polys ops hr
  rw [← netLive_eq_sum_rings _ hl]
  exact hc a b

/-- the same from an arbitrary well-linked state -/
theorem earclip_chain_from (st : State) (h : Linked st) (ops : List Op) (hr : RunOk OpLive st ops) :
    Linked (run st ops) ∧
    ∀ a b, net (triEdges (run st ops).tris) a b + net (liveEdges (run st ops)) a b
      = net (triEdges st.tris) a b + net (liveEdges st) a b :=
  ⟨run_linked st h ops hr, fun a b => run_chain st h ops hr a b⟩

/-- `runChecked` (used by the driver) succeeds exactly on the sequences satisfying the C++ guards -/
theorem runChecked_sound (st : State) (ops : List Op) (st' : State)
    (h : runChecked st ops = .ok st') : RunOk OpOk st ops ∧ st' = run st ops :=
  (runChecked_ok st ops 0 st').1 h

theorem runOk_of_toBool (st : State) (ops : List Op) (h : (runChecked st ops).toBool = true) :
    RunOk OpOk st ops := by
  cases hc : runChecked st ops with
  | error k => rw [hc] at h; cases h
  | ok st' => exact (runChecked_sound st ops st' hc).1

/-! non-vacuity: a square `0 1 2 3` with a triangular hole `4 5 6`, keyholed by one join of hole
vert 4 to outer vert 1 (`newStart = 7`, `newConnector = 8`), then seven ears. -/
def exPolys : List (List Nat) := [[0, 1, 2, 3], [4, 5, 6]]
def exOps : List Op :=
  [.join 4 1, .clip 8, .clip 7, .clip 0, .clip 4, .clip 1, .clip 6, .clip 2]

theorem exOps_ok : RunOk OpOk (initState exPolys) exOps :=
  runOk_of_toBool _ _ (by decide)

example : RunOk OpLive (initState exPolys) exOps := exOps_ok.toLive
example : (run (initState exPolys) exOps).tris =
    [(0, 1, 4), (0, 4, 5), (3, 0, 5), (6, 4, 1), (6, 1, 2), (5, 6, 2), (5, 2, 3)] := by decide +kernel
/-- a degenerate is really skipped on some guarded run (clip 0 after clips 2, 3 sees mesh 1 twice) -/
example : RunOk OpOk (initState exPolys) [.join 4 1, .clip 2, .clip 3, .clip 0] ∧
    (run (initState exPolys) [.join 4 1, .clip 2, .clip 3, .clip 0]).skipped = 1 :=
  ⟨runOk_of_toBool _ _ (by decide), by decide⟩
/-- the excluded join really breaks the lists: `join 0 1` on a square leaves `newStart` clipped
    while `newConnector->right = newStart` -/
example : let s := joinPolygons (initState [[0, 1, 2, 3]]) 0 1
    s.clipped 4 = true ∧ s.clipped 5 = false ∧ s.R 5 = 4 := by decide

/-! ## `earclip_exit` -/

/-- **earclip_exit**: if at the end every live ring has ≤ 2 verts (`ringsDone`, the
    `v->right == v->left` test of the C++), the triangles' boundary IS the contours':
    `count (a,b) − count (b,a)` over the triangle edges equals the same over the input edges,
    for every `(a,b)`. -/
theorem earclip_exit (polys : List (List Nat)) (ops : List Op)
    (hr : RunOk OpLive (initState polys) ops)
    (hdone : ringsDone (run (initState polys) ops) = true) :
    ∀ a b, net (triEdges (run (initState polys) ops).tris) a b = bdContours polys a b := by
  intro a b
  obtain ⟨hl, hc⟩ := earclip_chain polys ops hr
  have := hc a b
  rw [liveEdges_net_zero _ hl hdone] at this
  omega

/-- reading of `earclip_exit` for a simple input (no contour edge repeated, reversed or a
    self-loop): every input edge has net count `+1` in its input direction (so `−1` against it),
    every other edge has net count `0`, i.e. is matched by its reverse. -/
theorem earclip_exit_simple (polys : List (List Nat)) (ops : List Op)
    (hr : RunOk OpLive (initState polys) ops)
    (hdone : ringsDone (run (initState polys) ops) = true)
    (hnd : (contourEdges polys).Nodup)
    (hrev : ∀ a b, (a, b) ∈ contourEdges polys → (b, a) ∉ contourEdges polys) (a b : Nat) :
    let T := triEdges (run (initState polys) ops).tris
    ((T.count (a, b) : Int) - (T.count (b, a) : Int)) =
      if (a, b) ∈ contourEdges polys then 1 else if (b, a) ∈ contourEdges polys then -1 else 0 := by
  intro T
  have := earclip_exit polys ops hr hdone a b
  unfold net at this
  rw [this]
  unfold bdContours net
  rw [hnd.count, hnd.count]
  by_cases h1 : (a, b) ∈ contourEdges polys
  · have := hrev a b h1
    simp [h1, this]
  · by_cases h2 : (b, a) ∈ contourEdges polys <;> simp [h1, h2]

example : ringsDone (run (initState exPolys) exOps) = true := by decide +kernel
example : (contourEdges exPolys).Nodup ∧
    ∀ e ∈ contourEdges exPolys, (e.2, e.1) ∉ contourEdges exPolys := by decide

/-! ## `earclip_count` -/

/-- **earclip_count**.  With the C++ guards (`OpOk`): every `clip` removes one vert from a ring
    and emits one triangle or skips one degenerate; every `join` adds two verts; so
    `#triangles + #skipped + #unclipped = #polygon_ = V + 2j` at every moment, and `#clip ops =
    #triangles + #skipped`.  If at the end every live ring has exactly two verts
    (`ringsAllTwo`), `#unclipped = 2·numRings`, hence

      `#triangles = V + 2j − 2·(#final rings) − d`.

    With `h = j` holes keyholed, `o = #final rings` and `d = 0` this is the property's
    `V − 2 + 2h − 2(o−1)`.  (A `join` of two different rings merges them into one ring with two
    more verts; a guarded `join` inside one ring splits it in two — the C++ never does the
    latter; the count does not depend on which happened, only on `o` at the end.) -/
theorem earclip_count (polys : List (List Nat)) (ops : List Op)
    (hr : RunOk OpOk (initState polys) ops) :
    let s := run (initState polys) ops
    s.n = totalVerts polys + 2 * numJoins ops ∧
    s.tris.length + s.skipped + liveCount s = totalVerts polys + 2 * numJoins ops ∧
    s.tris.length + s.skipped = numClips ops ∧
    (ringsAllTwo s = true →
      s.tris.length + 2 * numRings s + s.skipped = totalVerts polys + 2 * numJoins ops) := by
  dsimp only
  have h1 := run_count _ (init_linked polys) ops hr
  have h2 := init_count polys
  have h3 := run_emit (initState polys) ops
  have hl := run_linked _ (init_linked polys) ops hr.toLive
  have h0 : (initState polys).tris.length = 0 ∧ (initState polys).skipped = 0 := ⟨rfl, rfl⟩
  refine ⟨by omega, by omega, by omega, fun h2' => ?_⟩
  have := liveCount_allTwo _ hl h2'
  omega

/-- the property's formula: no degenerate skipped, `h` joins, `o` final rings of two verts -/
theorem earclip_count_formula (polys : List (List Nat)) (ops : List Op)
    (hr : RunOk OpOk (initState polys) ops)
    (htwo : ringsAllTwo (run (initState polys) ops) = true)
    (hskip : (run (initState polys) ops).skipped = 0) :
    ((run (initState polys) ops).tris.length : Int) =
      (totalVerts polys : Int) - 2 + 2 * (numJoins ops : Int)
        - 2 * ((numRings (run (initState polys) ops) : Int) - 1) := by
  have := (earclip_count polys ops hr).2.2.2 htwo
  omega

/-- termination of the clipping: under the guards at most `V + 2j` clips can ever happen -/
theorem earclip_clip_bound (polys : List (List Nat)) (ops : List Op)
    (hr : RunOk OpOk (initState polys) ops) :
    numClips ops ≤ totalVerts polys + 2 * numJoins ops := by
  have := earclip_count polys ops hr
  omega

/-- ring bookkeeping on the example: two rings after `Initialize`, the keyhole join merges them
    into one ring of 9 verts; a guarded join inside one ring would split it (never done by the C++) -/
example : rings (initState exPolys) = [[0, 1, 2, 3], [4, 5, 6]] ∧
    rings (joinPolygons (initState exPolys) 4 1) = [[0, 8, 7, 5, 6, 4, 1, 2, 3]] ∧
    rings (joinPolygons (initState [[0, 1, 2, 3, 4, 5]]) 0 3) = [[0, 3, 4, 5], [1, 2, 7, 6]] := by
  decide +kernel

example : ringsAllTwo (run (initState exPolys) exOps) = true ∧
    (run (initState exPolys) exOps).skipped = 0 ∧
    numRings (run (initState exPolys) exOps) = 1 ∧ numJoins exOps = 1 ∧ totalVerts exPolys = 7 ∧
    (run (initState exPolys) exOps).tris.length = 7 := by decide +kernel

/-! ## `indices_subset_input` -/

/-- **indices_subset_input**: every emitted index is an input mesh index -/
theorem indices_subset_input (polys : List (List Nat)) (ops : List Op)
    (hr : RunOk OpLive (initState polys) ops) (t : Tri)
    (ht : t ∈ (run (initState polys) ops).tris) :
    t.1 ∈ polys.flatten ∧ t.2.1 ∈ polys.flatten ∧ t.2.2 ∈ polys.flatten :=
  (run_meshIn polys.flatten _ (init_linked polys) (init_meshIn polys) ops hr).2 t ht

/-- and no emitted triangle repeats an index (for every op sequence, guarded or not) -/
theorem emitted_distinct (polys : List (List Nat)) (ops : List Op) (t : Tri)
    (ht : t ∈ (run (initState polys) ops).tris) : t.1 ≠ t.2.1 ∧ t.2.1 ≠ t.2.2 ∧ t.2.2 ≠ t.1 :=
  run_trisDistinct _ ops (fun t ht => by simp [initState] at ht) t ht

example : (5, 2, 3) ∈ (run (initState exPolys) exOps).tris := by decide +kernel

/-! ## `halfedgeTri_pairInv` -/

/-- **halfedgeTri_pairInv**: after ANY sequence of `AddHalfedge` calls
    (i) `pairedHalfedge` is a partial involution between opposite halfedges,
    (ii) the stacks of `edge2halfedge` hold exactly the unpaired halfedges, each under its own
         `(start,end)` key, without repetition, and no empty stack is stored,
    (iii) a key and its reverse are never both non-empty (for a self-loop key `(a,a)`, which is
         its own reverse: at most one entry),
    and the net count of all added halfedges on `(a,b)` is `|stack(a,b)| − |stack(b,a)|`. -/
theorem halfedgeTri_pairInv (es : List Edge) :
    let t := HT.empty.addEdges es
    (∀ h, h < t.size → -1 ≤ t.pr h) ∧
    (∀ h, h < t.size → ∀ p : Nat, t.pr h = (p : Int) →
      p < t.size ∧ t.pr p = (h : Int) ∧ t.st p = t.en h ∧ t.en p = t.st h ∧ p ≠ h) ∧
    (∀ k h, h ∈ t.stk k ↔ (h < t.size ∧ t.pr h = -1 ∧ (t.st h, t.en h) = k)) ∧
    (∀ k, (t.stk k).Nodup) ∧ (∀ e, e ∈ t.stacks → e.2 ≠ []) ∧
    (∀ a b, a ≠ b → t.stk (a, b) = [] ∨ t.stk (b, a) = []) ∧
    (∀ a, (t.stk (a, a)).length ≤ 1) ∧
    t.edges = es ∧
    (∀ a b, net es a b = ((t.stk (a, b)).length : Int) - ((t.stk (b, a)).length : Int)) := by
  intro t
  obtain ⟨hI, hE⟩ := hinv_addEdges HT.empty hinv_empty es
  have hE' : t.edges = es := by rw [hE]; simp [HT.edges, HT.empty, HT.size]
  exact ⟨hI.prLow, hI.pair, hI.stk, hI.nodup, hI.nonempty, hI.excl, hI.self, hE',
    fun a b => by rw [← hE']; exact hI.netEq a b⟩

/-- hence: if the added halfedges have net count 0 on every edge and none is a self-loop,
    `edge2halfedge` is empty and every halfedge is paired — all asserts of `Finalize` hold.
    (A self-loop halfedge `(a,a)` added an odd number of times stays unpaired although its net
    count is 0: a contour with a repeated consecutive index makes `Finalize` assert.) -/
theorem halfedgeTri_all_paired (es : List Edge) (hnet : ∀ a b, net es a b = 0)
    (hloop : ∀ e, e ∈ es → e.1 ≠ e.2) :
    (HT.empty.addEdges es).stacks = [] ∧
    (∀ i, i < (HT.empty.addEdges es).size → 0 ≤ (HT.empty.addEdges es).pr i) ∧
    (HT.empty.addEdges es).finalizeOk = true := by
  obtain ⟨hI, hE⟩ := hinv_addEdges HT.empty hinv_empty es
  have hE' : (HT.empty.addEdges es).edges = es := by rw [hE]; simp [HT.edges, HT.empty, HT.size]
  have := hinv_all_paired _ hI (by rw [hE']; exact hnet)
    (fun i hi => hloop _ (by rw [← hE']; exact mem_edges _ i hi))
  exact ⟨this.1, this.2, finalizeOk_of _ hI this.1 this.2⟩

/-- the whole call: for every guarded op sequence ending with `ringsDone`, on contours without
    self-loop edges, the `HalfedgeTriangulation` the C++ returns passes `Finalize`'s asserts -/
theorem earclip_finalize_ok (polys : List (List Nat)) (ops : List Op)
    (hr : RunOk OpLive (initState polys) ops)
    (hdone : ringsDone (run (initState polys) ops) = true)
    (hcont : ∀ e, e ∈ contourEdges polys → e.1 ≠ e.2) :
    (halfedgeTriangulation polys (run (initState polys) ops).tris).finalizeOk = true :=
  halfedgeTriangulation_ok polys _ (earclip_exit polys ops hr hdone) hcont
    (fun t ht => emitted_distinct polys ops t ht)

example : ∀ e ∈ contourEdges exPolys, e.1 ≠ e.2 := by decide
/-- self-loop remark is real: contour `0 0 1` leaves the halfedge `(0,0)` unpaired -/
example : (halfedgeTriangulation [[0, 0, 1]] []).finalizeOk = false ∧
    ∀ a b, net (triEdges []) a b = net (contourEdges [[0, 0, 1]]) a b := by
  refine ⟨by decide, fun a b => ?_⟩
  have : contourEdges [[0, 0, 1]] = [(0, 0), (0, 1), (1, 0)] := by decide
  rw [this]; simp only [triEdges, List.flatMap_nil, net_nil, net_cons]
  have := ind_swap 0 1 a b; have := ind_self 0 a b; omega
/-- LIFO pairing is observable: two `(0,1)` then one `(1,0)` pairs halfedge 2 with halfedge 1 -/
example : ((HT.empty.addEdges [(0, 1), (0, 1), (1, 0)]).halfedges.toList.map (·.paired)) = [-1, 2, 1] := by
  decide

/-- what the driver's flags mean: whenever `runChecked` accepts the logged ops and prints
    `rings done`, the brute-force `net` check must print `ok`, and `paired` must print `ok`
    unless some contour has a repeated consecutive index.  (So `rings done | net bad` can never
    be printed for the model; it can only show up when the logged C++ triangles are compared
    instead.) -/
theorem driver_flags (polys : List (List Nat)) (ops : List Op) (s : State)
    (h : runChecked (initState polys) ops = .ok s) (hd : ringsDone s = true) :
    netEqCheck (triEdges s.tris) (contourEdges polys) = true ∧
    ((∀ e, e ∈ contourEdges polys → e.1 ≠ e.2) →
      (halfedgeTriangulation polys s.tris).finalizeOk = true) := by
  obtain ⟨hr, rfl⟩ := runChecked_sound _ _ _ h
  exact ⟨(netEqCheck_iff _ _).2 (earclip_exit polys ops hr.toLive hd),
    fun hc => earclip_finalize_ok polys ops hr.toLive hd hc⟩

/-! ## `convex_strip_triangulates` -/

/-- **convex_strip_triangulates**: for one contour with `n` indices, the alternating strip of
    `TriangulateConvex` emits `n − 2` triangles whose boundary is the contour (every `n`, also
    with repeated indices); with `n ≥ 3` distinct indices every triangle has three distinct
    input indices and the resulting `HalfedgeTriangulation` passes `Finalize`'s asserts. -/
theorem convex_strip_triangulates (p : List Nat) :
    (stripPoly p).length = p.length - 2 ∧
    (∀ a b, net (triEdges (stripPoly p)) a b = net (polyEdges p) a b) ∧
    (∀ t, t ∈ stripPoly p → t.1 ∈ p ∧ t.2.1 ∈ p ∧ t.2.2 ∈ p) ∧
    (p.Nodup → 3 ≤ p.length →
      (∀ t, t ∈ stripPoly p → t.1 ≠ t.2.1 ∧ t.2.1 ≠ t.2.2 ∧ t.2.2 ≠ t.1) ∧
      (halfedgeTriangulation [p] (triangulateConvex [p])).finalizeOk = true) := by
  refine ⟨stripPoly_length p, stripPoly_net p, stripPoly_in p, fun hnd hlen => ?_⟩
  refine ⟨stripPoly_distinct p hnd, ?_⟩
  apply halfedgeTriangulation_ok
  · exact triangulateConvex_net [p]
  · intro e he
    simp only [contourEdges, List.flatMap_cons, List.flatMap_nil, List.append_nil] at he
    exact polyEdges_noloop p hnd (by omega) e he
  · intro t ht
    simp only [triangulateConvex, List.flatMap_cons, List.flatMap_nil, List.append_nil] at ht
    exact stripPoly_distinct p hnd t ht

/-- several contours: boundary and count add up -/
theorem convex_triangulates (polys : List (List Nat)) :
    (triangulateConvex polys).length = (polys.map fun p => p.length - 2).sum ∧
    ∀ a b, net (triEdges (triangulateConvex polys)) a b = bdContours polys a b :=
  ⟨triangulateConvex_length polys, triangulateConvex_net polys⟩

example : stripPoly [0, 1, 2, 3, 4, 5, 6] = [(0, 1, 6), (1, 5, 6), (1, 2, 5), (2, 4, 5), (2, 3, 4)] := by
  decide
example : [0, 1, 2, 3, 4, 5, 6].Nodup := by decide

end MV.EarClip
