/-
Property C13a: the parallel primitives of /repo/src/parallel.h (TBB parallel_reduce,
parallel_scan, parallel_for protocols, model in `MV/Model/Par.lean`) equal their sequential
specifications for EVERY schedule tree satisfying `Sched.Valid` and every input list.

Each theorem is followed by a concrete `example` instantiating its hypotheses (non-vacuity).
Lemmas are in `MV/Proof/ParScan.lean`.  Core Lean only.
-/
import MV.Proof.ParScan

namespace MV.Par

variable {α : Type}

/-! ## 0. schedules -/

theorem Sched.valid_iff {t : Sched} {n : Nat} : t.valid n = true ↔ t.Valid n :=
  Sched.valid_iff'

example : (Sched.node 2 true .leaf .leaf).valid 5 = true ∧ (Sched.node 2 true .leaf .leaf).Valid 5 :=
  ⟨by decide, Sched.valid_iff.1 (by decide)⟩
example : ¬ (Sched.node 5 true .leaf .leaf).Valid 5 := by decide

/-! ## 1. parallel_reduce -/

/-- One body walking a sub-tree with running value `v` computes the left fold, for every
valid schedule.  `hid` is deliberately weaker than "`idn` is an identity of `f`":
`AbsSum` (`|a| + |b|`, boolean_result.cpp:50) satisfies `hid` with `idn = 0` although
`f a 0 = |a| ≠ a`. -/
theorem reduceGo_eq_foldl {f : α → α → α} {idn : α}
    (hassoc : ∀ a b c, f (f a b) c = f a (f b c))
    (hid : ∀ a b, f a (f idn b) = f a b)
    {t : Sched} {xs : List α} (v : α) (hv : t.Valid xs.length) :
    reduceGo f idn t v xs = xs.foldl f v :=
  reduceGo_eq_foldl' f idn hassoc hid t v xs hv

example : reduceGo (· + ·) 0 (.node 2 true .leaf (.node 1 false .leaf .leaf)) 7 [1, 2, 3, 4, 5]
    = [1, 2, 3, 4, 5].foldl (· + ·) 7 :=
  reduceGo_eq_foldl (by intros; omega) (by intros; omega) 7 (by decide)

/-- `AbsSum` on `Int` with `idn = 0` meets `hassoc` and `hid` (and `0` is not an identity) -/
example : reduceGo (fun a b : Int => a.natAbs + b.natAbs) 0 (.node 2 true .leaf .leaf) (-7)
      [1, -2, 3, -4, 5]
    = [1, -2, 3, -4, 5].foldl (fun a b : Int => a.natAbs + b.natAbs) (-7) :=
  reduceGo_eq_foldl (by intros; omega) (by intros; omega) (-7) (by decide)

/-! ## 2. reduce -/

theorem parReduce_eq_foldl {f : α → α → α} {init : α}
    (hassoc : ∀ a b c, f (f a b) c = f a (f b c))
    (hid : ∀ a b, f a (f init b) = f a b)
    {t : Sched} {xs : List α} (hv : t.Valid xs.length) :
    parReduce f init t xs = xs.foldl f init := by
  unfold parReduce
  split
  · next h => rw [List.isEmpty_iff.1 h]; rfl
  · exact reduceGo_eq_foldl hassoc hid init hv

example : parReduce (· + ·) 0 (.node 2 true .leaf .leaf) [1, 2, 3, 4, 5] = 15 :=
  (parReduce_eq_foldl (by intros; omega) (by intros; omega) (by decide)).trans (by decide)

/-- Without `hid` the statement fails: `manifold::reduce` hands `init` to TBB as the identity,
so every stolen sub-range adds `init` again. -/
theorem parReduce_init_not_identity :
    parReduce (· + ·) 5 (.node 1 true .leaf .leaf) [1, 2] = 13 ∧
      [1, 2].foldl (· + ·) 5 = 8 ∧ (Sched.node 1 true .leaf .leaf).Valid [1, 2].length := by
  decide

/-! ## 3. all_of, count_if -/

/-- No `Valid` hypothesis is needed: `true` is a genuine identity of `&&` and the leaf
function is total on empty chunks. -/
theorem parAllOf_eq_all (p : α → Bool) (t : Sched) (xs : List α) :
    parAllOf p t xs = xs.all p := by
  unfold parAllOf
  split
  · next h => rw [List.isEmpty_iff.1 h]; rfl
  · rw [allOfGo_eq]; simp

example : parAllOf (fun x => x < 5) (.node 2 true .leaf .leaf) [1, 2, 3, 4, 5] = false ∧
    [1, 2, 3, 4, 5].all (fun x => decide (x < 5)) = false := by decide

theorem parCountIf_eq_countP (p : α → Bool) {t : Sched} {xs : List α} (hv : t.Valid xs.length) :
    parCountIf p t xs = xs.countP p := by
  unfold parCountIf
  rw [parReduce_eq_foldl nat_add_assoc' nat_add_hid (by simpa using hv)]
  have := foldl_add_ind p 0 xs
  simp only [Nat.zero_add] at this
  rw [List.countP_eq_length_filter]
  exact this

example : parCountIf (fun x => x % 2 == 1) (.node 2 true .leaf .leaf) [1, 2, 3, 4, 5] = 3 :=
  (parCountIf_eq_countP _ (by decide)).trans (by decide)

/-! ## 4. parallel_scan with ScanBody -/

theorem finalScan_eq_exScan {f : α → α → α} {idn : α}
    (hassoc : ∀ a b c, f (f a b) c = f a (f b c))
    (hid : ∀ a b, f a (f idn b) = f a b)
    {t : Sched} {xs : List α} (c : α) (hv : t.Valid xs.length) :
    finalScan f idn t c xs = exScan f c xs :=
  finalScan_eq_exScan' f idn hassoc hid t c xs hv

example : finalScan (· + ·) 0 (.node 2 true .leaf (.node 2 false .leaf .leaf)) 10 [1, 2, 3, 4, 5]
    = ([10, 11, 13, 16, 20], 25) :=
  (finalScan_eq_exScan (by intros; omega) (by intros; omega) 10 (by decide)).trans (by decide)

theorem parExclusiveScan_eq {f : α → α → α} {idn : α}
    (hassoc : ∀ a b c, f (f a b) c = f a (f b c))
    (hid : ∀ a b, f a (f idn b) = f a b)
    {t : Sched} {xs : List α} (init : α) (hv : t.Valid xs.length) :
    parExclusiveScan f init idn t xs = (exScan f init xs).1 := by
  unfold parExclusiveScan
  split
  · next h => rw [List.isEmpty_iff.1 h]; rfl
  · rw [finalScan_eq_exScan hassoc hid init hv]

/-- the `AbsSum` call of boolean_result.cpp:807 (`init = numVertR`, identity `0`) -/
example : parExclusiveScan (fun a b : Int => a.natAbs + b.natAbs) 3 0
      (.node 2 true .leaf .leaf) [1, -1, 0, -1, 1] = [3, 4, 5, 5, 6] :=
  (parExclusiveScan_eq (by intros; omega) (by intros; omega) 3 (by decide)).trans (by decide)

/-- Weakest law that makes the functional-form `parallel_scan` of `inclusive_scan` agree with
the sequential inclusive scan *started from* `idn`: associativity and `hid`
(`f a (f idn b) = f a b`).  A left identity (`∀ b, f idn b = b`) implies `hid`; it is needed
only to drop the leading `idn` (`parInclusiveScan_eq_std` below). -/
theorem parInclusiveScan_eq {f : α → α → α} {idn : α}
    (hassoc : ∀ a b c, f (f a b) c = f a (f b c))
    (hid : ∀ a b, f a (f idn b) = f a b)
    {t : Sched} {xs : List α} (hv : t.Valid xs.length) :
    parInclusiveScan f idn t xs = inScan f idn xs := by
  unfold parInclusiveScan
  split
  · next h => rw [List.isEmpty_iff.1 h]; rfl
  · rw [finalScanIncl_eq f idn hassoc hid t idn xs hv]

example : parInclusiveScan (· + ·) 0 (.node 2 true .leaf .leaf) [1, 2, 3, 4, 5] = [1, 3, 6, 10, 15] :=
  (parInclusiveScan_eq (by intros; omega) (by intros; omega) (by decide)).trans (by decide)

/-- `std::inclusive_scan(first, last, d_first)` (no init): `out[0] = x0`, `out[i] = out[i-1] ∘ x[i]` -/
def stdInScan (f : α → α → α) : List α → List α
  | [] => []
  | x :: xs => x :: inScan f x xs

theorem parInclusiveScan_eq_std {f : α → α → α} {idn : α}
    (hassoc : ∀ a b c, f (f a b) c = f a (f b c))
    (hleft : ∀ b, f idn b = b)
    {t : Sched} {xs : List α} (hv : t.Valid xs.length) :
    parInclusiveScan f idn t xs = stdInScan f xs := by
  rw [parInclusiveScan_eq hassoc (fun a b => by rw [hleft]) hv]
  cases xs with
  | nil => rfl
  | cons x xs => simp [inScan, stdInScan, hleft]

example : parInclusiveScan (· + ·) 0 (.node 3 true (.node 1 true .leaf .leaf) .leaf) [1, 2, 3, 4, 5]
    = stdInScan (· + ·) [1, 2, 3, 4, 5] :=
  parInclusiveScan_eq_std (by intros; omega) (by intros; omega) (by decide)

/-! ## 5. CopyIfScanBody: slots and count -/

/-- the final pass writes the kept values, in order, to the consecutive slots `c, c+1, …` -/
theorem copyIfWrites_eq (p : α → Bool) {t : Sched} (c : Nat) {xs : List α}
    (hv : t.Valid xs.length) :
    copyIfWrites p t c xs = (List.range' c (xs.filter p).length).zip (xs.filter p) :=
  copyIfWrites_eq' p t c xs hv

example : copyIfWrites (fun x => x % 2 == 1) (.node 2 true .leaf .leaf) 0 [11, 12, 13, 14, 15]
    = [(0, 11), (1, 13), (2, 15)] :=
  (copyIfWrites_eq _ 0 (by decide)).trans (by decide)

theorem copyIfCount_eq (p : α → Bool) {t : Sched} (c : Nat) {xs : List α}
    (hv : t.Valid xs.length) :
    copyIfCount p t c xs = c + (xs.filter p).length :=
  copyIfCount_eq' p t c xs hv

example : copyIfCount (fun x => x % 2 == 1) (.node 2 true .leaf .leaf) 4 [11, 12, 13, 14, 15] = 7 :=
  (copyIfCount_eq _ 4 (by decide)).trans (by decide)

/-! ## 6. copy_if, remove_if -/

theorem applyWrites_prefix (out vs : List α) (h : vs.length ≤ out.length) :
    applyWrites out ((List.range' 0 vs.length).zip vs) = vs ++ out.drop vs.length :=
  applyWrites_prefix' out vs h

example : applyWrites [0, 0, 0, 0, 9] ((List.range' 0 3).zip [11, 13, 15]) = [11, 13, 15, 0, 9] :=
  applyWrites_prefix [0, 0, 0, 0, 9] [11, 13, 15] (by decide)

/-- the parallel pass alone already leaves `filter p xs` in the buffer prefix and the right
count in `body.get_sum()` -/
theorem parCopyIfPass_eq (p : α → Bool) {t : Sched} {xs out : List α}
    (hv : t.Valid xs.length) (hout : (xs.filter p).length ≤ out.length) :
    parCopyIfPass p t xs out
      = (xs.filter p ++ out.drop (xs.filter p).length, (xs.filter p).length) := by
  unfold parCopyIfPass
  rw [if_neg (by simpa using hv.ne_nil), copyIfWrites_eq p 0 hv, copyIfCount_eq p 0 hv,
    applyWrites_prefix _ _ hout, Nat.zero_add]

example : parCopyIfPass (fun x => x % 2 == 1) (.node 2 true .leaf .leaf) [11, 12, 13, 14, 15]
    [0, 0, 0, 0, 9] = ([11, 13, 15, 0, 9], 3) :=
  (parCopyIfPass_eq _ (by decide) (by decide)).trans (by decide)

/-- No `Valid` hypothesis: `manifold::copy_if(Par)` discards the parallel pass's return value
(the `return` is inside the `isolate` lambda) and falls through to `std::copy_if`, which
rewrites the prefix; so the result is right for any schedule by the fall-through alone. -/
theorem parCopyIf_eq_filter (p : α → Bool) (t : Sched) (xs out : List α) :
    (parCopyIf p t xs out).1.take (parCopyIf p t xs out).2 = xs.filter p := by
  simp [parCopyIf]

example : (parCopyIf (fun x => x % 2 == 1) (.node 2 true .leaf .leaf) [11, 12, 13, 14, 15]
    [0, 0, 0, 0, 9]) = ([11, 13, 15, 0, 9], 3) := by decide

/-- whole buffer, not only the prefix: with a valid schedule the fall-through changes nothing -/
theorem parCopyIf_eq_pass (p : α → Bool) {t : Sched} {xs out : List α}
    (hv : t.Valid xs.length) (hout : (xs.filter p).length ≤ out.length) :
    parCopyIf p t xs out = parCopyIfPass p t xs out := by
  rw [parCopyIfPass_eq p hv hout]
  unfold parCopyIf
  rw [if_neg (by simpa using hv.ne_nil), copyIfWrites_eq p 0 hv, applyWrites_prefix _ _ hout]
  simp

example : parCopyIf (fun x => x % 2 == 1) (.node 2 true .leaf .leaf) [11, 12, 13, 14, 15]
      [0, 0, 0, 0, 9]
    = parCopyIfPass (fun x => x % 2 == 1) (.node 2 true .leaf .leaf) [11, 12, 13, 14, 15]
      [0, 0, 0, 0, 9] :=
  parCopyIf_eq_pass _ (by decide) (by decide)

/-- no `Valid` needed (inherits the fall-through of `copy_if`) -/
theorem parRemoveIf_eq (p : α → Bool) (t : Sched) (xs : List α) :
    parRemoveIf p t xs = xs.filter (fun x => !p x) := by
  unfold parRemoveIf
  exact parCopyIf_eq_filter _ t xs xs

example : parRemoveIf (fun x => x % 2 == 1) (.node 2 true .leaf .leaf) [11, 12, 13, 14, 15]
    = [12, 14] := by
  rw [parRemoveIf_eq]; decide

/-! ## 7. writes to distinct slots commute -/

theorem applyWrites_perm {ws ws' : List (Nat × α)} (out : List α)
    (hd : (ws.map Prod.fst).Nodup) (hp : ws'.Perm ws) :
    applyWrites out ws' = applyWrites out ws :=
  applyWrites_perm' out hd hp

example : applyWrites [0, 0, 0, 0] [(2, 15), (0, 11), (1, 13)]
    = applyWrites [0, 0, 0, 0] [(0, 11), (1, 13), (2, 15)] :=
  applyWrites_perm _ (by decide) (by decide)

/-! ## 8. parallel_for -/

theorem tiles_iff {cs : List (Nat × Nat)} {a b : Nat} : tiles cs a b = true ↔ Tiles cs a b :=
  tiles_iff'

example : tiles [(0, 2), (2, 5)] 0 5 = true ∧ Tiles [(0, 2), (2, 5)] 0 5 :=
  ⟨by decide, tiles_iff.1 (by decide)⟩

theorem Sched.chunks_tiles {t : Sched} (a : Nat) {n : Nat} (hv : t.Valid n) :
    Tiles (t.chunks a n) a (a + n) :=
  Sched.chunks_tiles' t a n hv

example : Tiles ((Sched.node 2 true .leaf (.node 1 false .leaf .leaf)).chunks 10 5) 10 15 :=
  Sched.chunks_tiles 10 (by decide)
example : (Sched.node 2 true .leaf (.node 1 false .leaf .leaf)).chunks 10 5
    = [(10, 12), (12, 13), (13, 15)] := by decide

/-- the leaves of `parallel_for`, executed in ANY order, give the sequential loop, provided
the bodies of distinct indices commute -/
theorem parFor_eq_seqFor {σ : Type} (body : Nat → σ → σ)
    (hcomm : ∀ i j s, i ≠ j → body i (body j s) = body j (body i s))
    {cs ts : List (Nat × Nat)} {n : Nat} (hp : cs.Perm ts) (ht : Tiles ts 0 n) (s : σ) :
    parFor body cs s = seqFor body n s :=
  parFor_eq_seqFor' body hcomm hp ht s

/-- in particular: the leaves of any valid schedule, in any execution order -/
theorem parFor_sched_eq_seqFor {σ : Type} (body : Nat → σ → σ)
    (hcomm : ∀ i j s, i ≠ j → body i (body j s) = body j (body i s))
    {t : Sched} {n : Nat} (hv : t.Valid n) {cs : List (Nat × Nat)}
    (hp : cs.Perm (t.chunks 0 n)) (s : σ) :
    parFor body cs s = seqFor body n s := by
  have ht := Sched.chunks_tiles 0 hv
  rw [Nat.zero_add] at ht
  exact parFor_eq_seqFor body hcomm hp ht s

/-- `out[i] = i + 10` written by three chunks executed out of order -/
example : parFor (fun i (s : List Nat) => s.set i (i + 10)) [(3, 5), (0, 2), (2, 3)] [0, 0, 0, 0, 0]
    = seqFor (fun i (s : List Nat) => s.set i (i + 10)) 5 [0, 0, 0, 0, 0] :=
  parFor_sched_eq_seqFor (t := .node 2 true .leaf (.node 1 false .leaf .leaf)) _
    (fun _ _ _ h => List.set_comm _ _ (Ne.symm h)) (by decide) (by decide) _

/-! ## 9. cancellation is whole-chunk -/

/-- `for_each(Par, ctx)`: the result is `parallel_for` over exactly the chunks whose cancel
check did not fire — every chunk is processed entirely or not at all.  (No disjointness
hypothesis is needed; the statement is close to definitional.) -/
theorem parForCancel_subset {σ : Type} (body : Nat → σ → σ)
    (cs : List ((Nat × Nat) × Bool)) (s : σ) :
    parForCancel body cs s = parFor body ((cs.filter fun c => !c.2).map Prod.fst) s :=
  parForCancel_eq_parFor body cs s

example : parForCancel (fun i (s : List Nat) => s.set i (i + 10))
      [((0, 2), false), ((2, 4), true), ((4, 5), false)] [0, 0, 0, 0, 0]
    = [10, 11, 0, 0, 14] := by
  rw [parForCancel_subset]; decide

/-- if no check fires nothing is skipped -/
theorem parForCancel_none {σ : Type} (body : Nat → σ → σ) (cs : List (Nat × Nat)) (s : σ) :
    parForCancel body (cs.map fun c => (c, false)) s = parFor body cs s := by
  rw [parForCancel_subset]
  congr 1
  induction cs with
  | nil => rfl
  | cons c cs ih => simpa using ih

example : parForCancel (fun i (s : Nat) => s + i) ([(0, 2), (2, 5)].map fun c => (c, false)) 0
    = parFor (fun i (s : Nat) => s + i) [(0, 2), (2, 5)] 0 :=
  parForCancel_none _ _ _

/-! ## 10. unique

`uniqFrom last xs` (in `MV/Proof/ParScan.lean`) is `std::unique` with an explicit
predecessor; `seqUnique xs = uniqFrom none xs`. -/

section unique
variable [BEq α] [LawfulBEq α]

theorem seqUnique_eq (xs : List α) : seqUnique xs = uniqFrom none xs :=
  seqUnique_eq_uniqFrom xs

/-- one window: the scan over `[0, L-1)` needs a valid schedule only when `L ≥ 2`
(`L = 1` is the empty `blocked_range(0,0)`) -/
theorem uniqueWindow_eq (t : Sched) (last : Option α) (tmp : List α)
    (hv : 2 ≤ tmp.length → t.Valid (tmp.length - 1)) :
    uniqueWindow t last tmp = uniqFrom last tmp :=
  uniqueWindow_eq' t last tmp hv

example : uniqueWindow (.node 2 true .leaf .leaf) (some 1) [1, 1, 2, 2, 3] = [2, 3] :=
  (uniqueWindow_eq _ _ _ (fun _ => by decide)).trans (by decide)

theorem parUnique_eq_seqUnique {W : Nat} (hW : 0 < W) {ts : List Sched} {xs : List α}
    (hv : WindowsValid W ts xs) : parUnique W ts xs = seqUnique xs := by
  rw [seqUnique_eq]
  exact parUniqueGo_eq W hW _ ts none xs (Nat.lt_succ_self _) hv

/-- windows `[1,1,2]`, `[2,2,3]`, `[3]` with a split schedule, a leaf and the default -/
example : parUnique 3 [.node 1 true .leaf .leaf, .leaf] [1, 1, 2, 2, 2, 3, 3] = [1, 2, 3] :=
  (parUnique_eq_seqUnique (by decide)
    (by simp [WindowsValid, WindowsValidGo, Sched.Valid])).trans (by decide)

end unique

/-- index form of the window hypothesis: window `i` has length `L = min W (n - i*W)` and its
schedule (default `leaf`) is valid for the scan range `[0, L-1)` whenever `L ≥ 2` -/
theorem windowsValid_of_forall (W : Nat) (ts : List Sched) (xs : List α)
    (h : ∀ i, i * W < xs.length → 2 ≤ min W (xs.length - i * W) →
      (ts.getD i .leaf).Valid (min W (xs.length - i * W) - 1)) :
    WindowsValid W ts xs :=
  windowsValidGo_of_forall W _ ts xs h

/-- with no schedules given every window runs as one leaf, which is always valid -/
example (W : Nat) (xs : List Nat) : WindowsValid W [] xs :=
  windowsValid_of_forall W [] xs (fun i _ h => by
    show 0 < _
    omega)

/-- Safety: after `j` windows (`parUniqueGo` with fuel `j` is exactly the output of the first
`j` windows) the number of emitted elements is at most the number consumed,
`min (j*W) n` — the in-place output cursor `first` never overtakes `newSrcStart`.
Holds for every schedule, valid or not. -/
theorem parUnique_emitted_le_consumed [BEq α] (W j : Nat) (ts : List Sched) (last : Option α)
    (xs : List α) : (parUniqueGo W j ts last xs).length ≤ min (j * W) xs.length :=
  parUniqueGo_length_le W j ts last xs

/-- per window -/
theorem uniqueWindow_emitted_le [BEq α] (t : Sched) (last : Option α) (tmp : List α) :
    (uniqueWindow t last tmp).length ≤ tmp.length :=
  uniqueWindow_length_le t last tmp

example : (parUniqueGo 3 2 [.node 1 true .leaf .leaf, .leaf] none [1, 1, 2, 2, 2, 3, 3]).length = 3
    ∧ min (2 * 3) [1, 1, 2, 2, 2, 3, 3].length = 6 := by decide

/-! ### the pinned tree

`uniqueWindow` models `manifold::unique(Par)` *after* the planned `fix:` commit.  The pinned
/repo/src/parallel.h:1047 executes `*first = *newSrcStart` unconditionally, i.e. every window
behaves as if `last = none`.  That variant is NOT `std::unique`: -/

def parUniquePinnedGo [BEq α] (W : Nat) : Nat → List Sched → List α → List α
  | 0, _, _ => []
  | fuel + 1, ts, xs =>
    if xs.isEmpty then []
    else uniqueWindow (ts.headD .leaf) none (xs.take W)
      ++ parUniquePinnedGo W fuel ts.tail (xs.drop W)

theorem parUniquePinned_duplicates :
    parUniquePinnedGo 2 4 [] [1, 1, 1] = [1, 1] ∧ seqUnique [1, 1, 1] = [1] := by decide

end MV.Par
