import MV.Model.Minkowski
import MV.Model.HullCheck
import MV.Proof.Minkowski
import MV.Proof.HullCheck
import MV.Gen.Minkowski
import Mathlib.Analysis.Convex.Segment
import Mathlib.Topology.Order.DenselyOrdered
/-!
# Property C16 — Hull is the convex hull; Minkowski sum / difference are dilation and erosion

Anchors: /repo/src/minkowski.cpp (whole function `Manifold::Impl::Minkowski`),
/repo/src/manifold.cpp:1051-1076 (`MinkowskiSum`, `MinkowskiDifference`), 1107-1152 (`Hull`),
/repo/src/properties.cpp:279-301 (`IsConvex`), /repo/src/quickhull.cpp (only through its output).

## Minkowski
`MV.Minkowski.dispatch` (MV/Model/Minkowski.lean) is the control flow of `Minkowski()`; it is compared
row by row with the table the translator extracts from the source on every run
(`dispatch_matches_source`).  `planDen` says which point set a plan builds, in terms of the two solids
`A`, `B` (closed sets whose frontier is the union of their mesh triangles), exactly as the C++ composes
it from `Hull` of vertex sums and `BatchBoolean`.  Then

* `dispatch_sum_covers`   every case of `MinkowskiSum` builds `A + B`            (all flag values)
* `dispatch_diff_covers`  every case of `MinkowskiDifference` builds `A \ (∂A + B)`, which is the erosion
                          `{p | ∀ b ∈ B, p - b ∈ interior A}`                    (all flag values)
* `sum_contains_sums`, `sum_contains_A`, `sum_no_farther_than_reach`, `diff_inside_A`, `diff_sub_inside_A`
                          the clauses of the property text, as corollaries
* `erosion_is_dual`       `A ⊖ B = (Aᶜ ⊕ B)ᶜ` in the code's sign convention (`p - b`)
* `pinned_nonconvex_branch_not_an_instance`  the formula of the pinned tree's non-convex × non-convex
                          branch, `A ∪ (∂A + ∂B)`, is NOT an identity (counter-example on the line), and the
                          pinned swap made `MinkowskiDifference(convex, non-convex)` erode the wrong operand;
                          both are repaired by the patch `01-minkowski-operands.diff`.

NOT carried (stated, not proved): that `IsConvex() = true` implies the solid is the hull of its vertices,
that the frontier of the solid is the union of its triangles, that `Hull` / `BatchBoolean` return the
hull / the union (C16-hull below, resp. C02), and all rounding.  These are the hypotheses of the
theorems; the harness checks the composed result against an independent reference on every run.

## Hull
`MV.Hull.checkHull` is an exact certificate checker run on the REAL output of `Hull()`:
* `hullCheck_sound`   acceptance ⇒ closed oriented 2-manifold, vertices ⊆ input, no degenerate face, and
                      in `ℝ³` the intersection of the face half-spaces is convex and contains the convex
                      hull of the input, each face plane touching it in its three (input) corners.
* `hullCheck_partial` is the name under which the gap is recorded: that the solid BOUNDED by such a
                      mesh equals that intersection (local convexity ⇒ global convexity for closed
                      surfaces) is classical and not formalised.
* `affineRank_exact`  the checker's decision "the input spans a volume" is exact.
-/

open Set Pointwise
set_option linter.unusedSectionVars false

namespace MV.C16
open MV.Minkowski

/-! ## the table -/

/-- **The model's decision table is the one in the source.**  `MV.Gen.Minkowski.table` is regenerated
from `src/minkowski.cpp` on every run; it lists all 128 flag assignments, and `dispatch` agrees with
every row. -/
theorem dispatch_matches_source :
    MV.Gen.Minkowski.table.map Prod.fst = allBits 7 ∧
    ∀ row ∈ MV.Gen.Minkowski.table,
      (Flags.ofBits row.1).map (fun f => (dispatch f).code) = some row.2 := by
  decide +kernel

/-- non-vacuity: a row of the table — sum of a convex first and a non-convex second operand with the
origin outside the first: swapped, base translated to a point of the convex operand, per-face hulls -/
example : (dispatch ⟨false, true, false, false, false, false, true⟩).code = [1, 0, 2, 2, 0] := by decide

/-! ## solids and what a plan denotes -/

variable {E : Type*} [NormedAddCommGroup E] [NormedSpace ℝ E]

/-- a triangle: its three corners -/
abbrev Tri3 (E : Type*) := E × E × E

def corners (f : Tri3 E) : Set E := {f.1, f.2.1, f.2.2}
/-- the (filled) triangle -/
def face (f : Tri3 E) : Set E := convexHull ℝ (corners f)
/-- the surface made of a list of triangles -/
def surf (F : List (Tri3 E)) : Set E := ⋃ f ∈ F, face f
/-- all corners -/
def vertsOf (F : List (Tri3 E)) : Set E := ⋃ f ∈ F, corners f

theorem corners_subset_face (f : Tri3 E) : corners f ⊆ face f := subset_convexHull ℝ _
theorem vertsOf_subset_surf (F : List (Tri3 E)) : vertsOf F ⊆ surf F :=
  Set.iUnion₂_mono fun f _ => corners_subset_face f

/-- a solid given by its point set and the triangles of its boundary mesh -/
structure Solid (E : Type*) [NormedAddCommGroup E] [NormedSpace ℝ E] where
  S : Set E
  F : List (Tri3 E)
  closed : IsClosed S
  frontier_eq : frontier S = surf F

/-- per-triangle hulls of (corners + vertex set) are the triangles swept by the hull of the set -/
theorem perFace_eq (F : List (Tri3 E)) (V : Set E) :
    (⋃ f ∈ F, convexHull ℝ (corners f + V)) = surf F + convexHull ℝ V := by
  simp only [surf, face, Set.iUnion₂_add, convexHull_add]

theorem facePairs_eq (F G : List (Tri3 E)) :
    (⋃ f ∈ F, ⋃ g ∈ G, convexHull ℝ (corners f + corners g)) = surf F + surf G := by
  ext x
  simp only [surf, face, convexHull_add, Set.mem_iUnion, Set.mem_add]
  constructor
  · rintro ⟨f, hf, g, hg, a, ha, b, hb, rfl⟩; exact ⟨a, ⟨f, hf, ha⟩, b, ⟨g, hg, hb⟩, rfl⟩
  · rintro ⟨a, ⟨f, hf, ha⟩, b, ⟨g, hg, hb⟩, rfl⟩; exact ⟨f, hf, g, hg, a, ha, b, hb, rfl⟩

theorem copies_eq (V B : Set E) : (⋃ v ∈ V, v +ᵥ B) = V + B := by
  ext x
  simp only [Set.mem_iUnion, Set.mem_vadd_set, Set.mem_add, vadd_eq_add, exists_prop]

/-- sweep of a closed `B` over a triangulated surface: copies of `B` at ALL corners plus the
sweep of the surface of `B` -/
theorem sweep_surf (F : List (Tri3 E)) {B : Set E} (hB : IsClosed B) :
    surf F + B = (vertsOf F + B) ∪ (surf F + frontier B) := by
  apply Set.Subset.antisymm
  · have h := sweep_faces (F := fun f : {f // f ∈ F} => face f.1) (v := fun f => f.1.1) hB
      (fun f => convex_convexHull ℝ _) (fun f => corners_subset_face f.1 (by simp [corners]))
    have hs : surf F = ⋃ f : {f // f ∈ F}, face f.1 := by
      ext x; simp [surf]
    rw [hs, h]
    apply Set.union_subset_union _ (le_refl _)
    intro x hx
    simp only [Set.mem_iUnion] at hx
    obtain ⟨f, b, hb, rfl⟩ := hx
    exact ⟨f.1.1, Set.mem_iUnion₂.mpr ⟨f.1, f.2, by simp [corners]⟩, b, hb, rfl⟩
  · apply Set.union_subset
    · exact Set.add_subset_add_right (vertsOf_subset_surf F)
    · exact Set.add_subset_add_left hB.frontier_subset


/-! ### what a plan denotes -/

/-- the point set a `Pieces` value stands for; `A`, `B` are the operands AFTER the swap -/
def piecesDen (A B : Solid E) : Pieces → Set E
  | .none => ∅
  | .hullAll => convexHull ℝ (vertsOf A.F + vertsOf B.F)
  | .perFace => ⋃ f ∈ A.F, convexHull ℝ (corners f + vertsOf B.F)
  | .facePairs cb ca =>
      (⋃ f ∈ A.F, ⋃ g ∈ B.F, convexHull ℝ (corners f + corners g)) ∪
      (if cb then ⋃ v ∈ vertsOf A.F, v +ᵥ B.S else ∅) ∪
      (if ca then ⋃ w ∈ vertsOf B.F, w +ᵥ A.S else ∅)

def baseDen (A : Solid E) (c : E) : Base → Set E
  | .none => ∅
  | .a => A.S
  | .aAtPointOfB => c +ᵥ A.S

/-- the point set the plan builds from the caller's operands `A`, `B`; `c` is the vertex mean of
the second operand (after the swap) -/
def planDen (p : Plan) (A B : Solid E) (c : E) : Set E :=
  let A' := if p.swapped then B else A
  let B' := if p.swapped then A else B
  match p.early with
  | .copyFirst => A'.S
  | .copySecond => B'.S
  | .none =>
    if p.subtract then baseDen A' c p.base \ piecesDen A' B' p.pieces
    else baseDen A' c p.base ∪ piecesDen A' B' p.pieces

theorem sum_hullAll (A B : Solid E) (hA : A.S = convexHull ℝ (vertsOf A.F))
    (hB : B.S = convexHull ℝ (vertsOf B.F)) :
    convexHull ℝ (vertsOf A.F + vertsOf B.F) = A.S + B.S := by
  rw [convexHull_add, ← hA, ← hB]

theorem sum_perFace (A B : Solid E) (hB : B.S = convexHull ℝ (vertsOf B.F)) {c : E} (hc : c ∈ B.S) :
    (c +ᵥ A.S) ∪ (⋃ f ∈ A.F, convexHull ℝ (corners f + vertsOf B.F)) = A.S + B.S := by
  have hconv : Convex ℝ B.S := by rw [hB]; exact convex_convexHull ℝ _
  rw [perFace_eq, ← hB, ← A.frontier_eq]
  exact (minkowski_decomp_at A.closed hconv hc).symm

theorem sum_facePairs (A B : Solid E) (hBc : IsPreconnected B.S) (hBf : (frontier B.S).Nonempty) :
    (⋃ f ∈ A.F, ⋃ g ∈ B.F, convexHull ℝ (corners f + corners g)) ∪
      (⋃ v ∈ vertsOf A.F, v +ᵥ B.S) ∪ (⋃ w ∈ vertsOf B.F, w +ᵥ A.S) = A.S + B.S := by
  rw [facePairs_eq, copies_eq, copies_eq, minkowski_general A.closed B.closed hBc hBf]
  have h1 : frontier A.S + B.S = (vertsOf A.F + B.S) ∪ (surf A.F + surf B.F) := by
    rw [A.frontier_eq, sweep_surf A.F B.closed, B.frontier_eq]
  have h2 : A.S + frontier B.S = (vertsOf B.F + A.S) ∪ (surf A.F + surf B.F) := by
    rw [add_comm, B.frontier_eq, sweep_surf B.F A.closed, A.frontier_eq, add_comm (surf B.F)]
  rw [h1, h2]
  ext x
  simp only [Set.mem_union]
  tauto

theorem diff_pieces_perFace (A B : Solid E) (hB : B.S = convexHull ℝ (vertsOf B.F)) :
    (⋃ f ∈ A.F, convexHull ℝ (corners f + vertsOf B.F)) = frontier A.S + B.S := by
  rw [perFace_eq, ← hB, ← A.frontier_eq]

theorem diff_pieces_facePairs (A B : Solid E) :
    (⋃ f ∈ A.F, ⋃ g ∈ B.F, convexHull ℝ (corners f + corners g)) ∪ (⋃ v ∈ vertsOf A.F, v +ᵥ B.S) =
      frontier A.S + B.S := by
  rw [facePairs_eq, copies_eq, A.frontier_eq, sweep_surf A.F B.closed, B.frontier_eq, Set.union_comm]


/-- **Every sum case is an instance of a decomposition theorem.**  For non-empty operands, whatever
`IsConvex()` said about either of them and whether or not the origin passes the face-plane test,
the point set built by the plan `dispatch` selects is exactly `A + B`.
Hypotheses tie the flags to the geometry: `IsConvex() = true` means the solid is the convex hull of
its vertices; the origin test being true means the origin is in the solid; `c` (the vertex mean of
the convex second operand) is a point of it; a non-convex second operand is connected. -/
theorem dispatch_sum_covers (f : Flags) (A B : Solid E) (c : E)
    (hi : f.inset = false) (hae : f.aEmpty = false) (hbe : f.bEmpty = false)
    (hac : f.aConvex = true → A.S = convexHull ℝ (vertsOf A.F))
    (hbc : f.bConvex = true → B.S = convexHull ℝ (vertsOf B.F))
    (hoa : f.originInA = true → (0 : E) ∈ A.S) (hob : f.originInB = true → (0 : E) ∈ B.S)
    (hbn : f.bConvex = false → IsPreconnected B.S ∧ (frontier B.S).Nonempty)
    (hc : c ∈ (if (dispatch f).swapped then A.S else B.S)) :
    planDen (dispatch f) A B c = A.S + B.S := by
  obtain ⟨inset, aC, bC, aE, bE, oA, oB⟩ := f
  simp only at hi hae hbe hac hbc hoa hob hbn
  subst hi hae hbe
  cases aC <;> cases bC
  · -- neither convex: face pairs + copies of both
    obtain ⟨h1, h2⟩ := hbn rfl
    simpa [dispatch, planDen, baseDen, piecesDen] using sum_facePairs A B h1 h2
  · -- A not convex, B convex: per-face hulls
    have hB := hbc rfl
    cases oB
    · have hc' : c ∈ B.S := by simpa [dispatch] using hc
      simpa [dispatch, planDen, baseDen, piecesDen] using sum_perFace A B hB hc'
    · have := sum_perFace A B hB (hob rfl)
      simpa [dispatch, planDen, baseDen, piecesDen] using this
  · -- A convex, B not: swapped, then per-face hulls over B's triangles
    have hA := hac rfl
    cases oA
    · have hc' : c ∈ A.S := by simpa [dispatch] using hc
      have := sum_perFace B A hA hc'
      rw [add_comm] at this
      simpa [dispatch, planDen, baseDen, piecesDen] using this
    · have := sum_perFace B A hA (hoa rfl)
      rw [add_comm] at this
      simpa [dispatch, planDen, baseDen, piecesDen] using this
  · -- both convex: one hull, plus a base that it already contains
    have hA := hac rfl
    have hB := hbc rfl
    have hh := sum_hullAll A B hA hB
    cases oB
    · have hc' : c ∈ B.S := by simpa [dispatch] using hc
      have hsub : c +ᵥ A.S ⊆ A.S + B.S := by
        rintro x ⟨a, ha, rfl⟩
        exact ⟨a, ha, c, hc', by simp only [vadd_eq_add]; abel⟩
      simpa [dispatch, planDen, baseDen, piecesDen, hh] using hsub
    · have hsub : A.S ⊆ A.S + B.S := sum_contains_left (hob rfl)
      simpa [dispatch, planDen, baseDen, piecesDen, hh] using hsub

/-- **Every difference case is an instance of the erosion theorem.**  For non-empty operands, `B`
connected and containing the origin, the plan builds `A` minus the sweep of `B` over the surface
of `A`, which is the erosion of the interior of `A`: no swap, whatever `IsConvex()` said. -/
theorem dispatch_diff_covers (f : Flags) (A B : Solid E) (c : E)
    (hi : f.inset = true) (hae : f.aEmpty = false) (hbe : f.bEmpty = false)
    (hbc : f.bConvex = true → B.S = convexHull ℝ (vertsOf B.F))
    (hBc : IsPreconnected B.S) (h0 : (0 : E) ∈ B.S) :
    planDen (dispatch f) A B c = erosion (interior A.S) B.S := by
  obtain ⟨inset, aC, bC, aE, bE, oA, oB⟩ := f
  simp only at hi hae hbe hbc
  subst hi hae hbe
  rw [← diff_eq_erosion_interior hBc h0]
  cases bC
  · have hp : dispatch ⟨true, aC, false, false, false, oA, oB⟩ =
        ⟨false, .none, .a, .facePairs true false, true⟩ := by
      cases aC <;> cases oA <;> cases oB <;> rfl
    rw [hp]
    simp only [planDen, baseDen, piecesDen, Bool.false_eq_true, if_false, if_true, Set.union_empty]
    rw [diff_pieces_facePairs A B]
  · have hp : dispatch ⟨true, aC, true, false, false, oA, oB⟩ =
        ⟨false, .none, .a, .perFace, true⟩ := by
      cases aC <;> cases oA <;> cases oB <;> rfl
    rw [hp]
    simp only [planDen, baseDen, piecesDen, Bool.false_eq_true, if_false, if_true]
    rw [diff_pieces_perFace A B (hbc rfl)]

/-! ## the clauses of the property text -/

/-- `MinkowskiSum(A, B)` contains `a + b` for every `a ∈ A`, `b ∈ B` -/
theorem sum_contains_sums (f : Flags) (A B : Solid E) (c : E)
    (hi : f.inset = false) (hae : f.aEmpty = false) (hbe : f.bEmpty = false)
    (hac : f.aConvex = true → A.S = convexHull ℝ (vertsOf A.F))
    (hbc : f.bConvex = true → B.S = convexHull ℝ (vertsOf B.F))
    (hoa : f.originInA = true → (0 : E) ∈ A.S) (hob : f.originInB = true → (0 : E) ∈ B.S)
    (hbn : f.bConvex = false → IsPreconnected B.S ∧ (frontier B.S).Nonempty)
    (hc : c ∈ (if (dispatch f).swapped then A.S else B.S))
    {a b : E} (ha : a ∈ A.S) (hb : b ∈ B.S) : a + b ∈ planDen (dispatch f) A B c := by
  rw [dispatch_sum_covers f A B c hi hae hbe hac hbc hoa hob hbn hc]
  exact sum_contains ha hb

/-- … hence `A` itself, when the structuring solid contains the origin -/
theorem sum_contains_A (f : Flags) (A B : Solid E) (c : E)
    (hi : f.inset = false) (hae : f.aEmpty = false) (hbe : f.bEmpty = false)
    (hac : f.aConvex = true → A.S = convexHull ℝ (vertsOf A.F))
    (hbc : f.bConvex = true → B.S = convexHull ℝ (vertsOf B.F))
    (hoa : f.originInA = true → (0 : E) ∈ A.S) (hob : f.originInB = true → (0 : E) ∈ B.S)
    (hbn : f.bConvex = false → IsPreconnected B.S ∧ (frontier B.S).Nonempty)
    (hc : c ∈ (if (dispatch f).swapped then A.S else B.S)) (h0 : (0 : E) ∈ B.S) :
    A.S ⊆ planDen (dispatch f) A B c := by
  rw [dispatch_sum_covers f A B c hi hae hbe hac hbc hoa hob hbn hc]
  exact sum_contains_left h0

/-- … and contains no point farther from `A` than the reach `r` of `B`, whichever operand is convex -/
theorem sum_no_farther_than_reach (f : Flags) (A B : Solid E) (c : E)
    (hi : f.inset = false) (hae : f.aEmpty = false) (hbe : f.bEmpty = false)
    (hac : f.aConvex = true → A.S = convexHull ℝ (vertsOf A.F))
    (hbc : f.bConvex = true → B.S = convexHull ℝ (vertsOf B.F))
    (hoa : f.originInA = true → (0 : E) ∈ A.S) (hob : f.originInB = true → (0 : E) ∈ B.S)
    (hbn : f.bConvex = false → IsPreconnected B.S ∧ (frontier B.S).Nonempty)
    (hc : c ∈ (if (dispatch f).swapped then A.S else B.S))
    {r : ℝ} (hr : ∀ b ∈ B.S, ‖b‖ ≤ r) {x : E} (hx : x ∈ planDen (dispatch f) A B c) :
    Metric.infDist x A.S ≤ r := by
  rw [dispatch_sum_covers f A B c hi hae hbe hac hbc hoa hob hbn hc] at hx
  exact sum_within_reach hr hx

/-- `MinkowskiDifference(A, B)` lies inside `A` -/
theorem diff_inside_A (f : Flags) (A B : Solid E) (c : E)
    (hi : f.inset = true) (hae : f.aEmpty = false) (hbe : f.bEmpty = false)
    (hbc : f.bConvex = true → B.S = convexHull ℝ (vertsOf B.F))
    (hBc : IsPreconnected B.S) (h0 : (0 : E) ∈ B.S) :
    planDen (dispatch f) A B c ⊆ A.S := by
  rw [dispatch_diff_covers f A B c hi hae hbe hbc hBc h0]
  exact (erosion_subset h0).trans interior_subset

/-- … and every point `p` of it has `p - b` inside `A` for every `b ∈ B` -/
theorem diff_sub_inside_A (f : Flags) (A B : Solid E) (c : E)
    (hi : f.inset = true) (hae : f.aEmpty = false) (hbe : f.bEmpty = false)
    (hbc : f.bConvex = true → B.S = convexHull ℝ (vertsOf B.F))
    (hBc : IsPreconnected B.S) (h0 : (0 : E) ∈ B.S)
    {p : E} (hp : p ∈ planDen (dispatch f) A B c) {b : E} (hb : b ∈ B.S) : p - b ∈ A.S := by
  rw [dispatch_diff_covers f A B c hi hae hbe hbc hBc h0] at hp
  exact interior_subset (hp b hb)

/-- erosion is the dual of dilation, in the sign convention the code implements -/
theorem erosion_is_dual (A B : Set E) : erosion A B = (Aᶜ + B)ᶜ := erosion_dual A B

/-- **The pinned tree was not an instance.**  (1) The formula of its non-convex × non-convex branch
(`base = a`, face pairs only: `A ∪ (∂A + ∂B)`) is not an identity; (2) its swap
(`aConvex && !bConvex`, also for the difference) made `MinkowskiDifference(convex A, non-convex B)`
erode `B` by `A`.  The model `dispatch` (of the repaired source) does neither. -/
theorem pinned_nonconvex_branch_not_an_instance :
    (∃ A B : Set ℝ, IsClosed A ∧ IsClosed B ∧ Convex ℝ B ∧ (0 : ℝ) ∈ B ∧
      A + B ≠ A ∪ (frontier A + frontier B)) ∧
    (∀ f : Flags, f.inset = true → (dispatch f).swapped = false) ∧
    (∀ f : Flags, f.aEmpty = false → f.bEmpty = false → f.bConvex = false →
      (f.inset = true → (dispatch f).pieces = .facePairs true false) ∧
      (f.inset = false → f.aConvex = false → (dispatch f).pieces = .facePairs true true)) := by
  refine ⟨facepair_formula_fails, ?_, ?_⟩
  · rintro ⟨i, ac, bc, ae, be, oa, ob⟩ h
    simp only at h; subst h
    cases ac <;> cases bc <;> cases ae <;> cases be <;> cases oa <;> cases ob <;> rfl
  · rintro ⟨i, ac, bc, ae, be, oa, ob⟩ h1 h2 h3
    simp only at h1 h2 h3; subst h1 h2 h3
    constructor
    · intro h; simp only at h; subst h
      cases ac <;> cases oa <;> cases ob <;> rfl
    · intro h h'; simp only at h h'; subst h h'
      cases oa <;> cases ob <;> rfl

/-! ### non-vacuity: concrete solids on the real line -/

/-- the segment `[lo, hi]` with its two end points as (degenerate) boundary triangles -/
noncomputable def seg (lo hi : ℝ) (h : lo ≤ hi) : Solid ℝ where
  S := Set.Icc lo hi
  F := [(lo, lo, lo), (hi, hi, hi)]
  closed := isClosed_Icc
  frontier_eq := by
    rw [frontier_Icc h]
    ext x
    simp only [surf, face, corners, Set.mem_insert_iff, Set.mem_singleton_iff, List.mem_cons,
      List.not_mem_nil, or_false, Set.iUnion_iUnion_eq_or_left, Set.iUnion_iUnion_eq_left,
      Set.insert_eq_of_mem, convexHull_singleton, Set.mem_union]

theorem seg_convex (lo hi : ℝ) (h : lo ≤ hi) :
    (seg lo hi h).S = convexHull ℝ (vertsOf (seg lo hi h).F) := by
  have : vertsOf (seg lo hi h).F = {lo, hi} := by
    ext x
    simp only [vertsOf, corners, seg, Set.mem_insert_iff, Set.mem_singleton_iff, List.mem_cons,
      List.not_mem_nil, or_false, Set.iUnion_iUnion_eq_or_left, Set.iUnion_iUnion_eq_left,
      Set.insert_eq_of_mem, Set.mem_union]
  rw [this, convexHull_pair, segment_eq_Icc h]
  rfl

/-- `dispatch_sum_covers` applies: `[0,1] ⊕ [-1,1]`, both convex, origin in both -/
example : planDen (dispatch ⟨false, true, true, false, false, true, true⟩)
    (seg 0 1 (by norm_num)) (seg (-1) 1 (by norm_num)) 0 =
    (seg 0 1 (by norm_num)).S + (seg (-1) 1 (by norm_num)).S :=
  dispatch_sum_covers _ _ _ _ rfl rfl rfl (fun _ => seg_convex _ _ _) (fun _ => seg_convex _ _ _)
    (fun _ => ⟨by norm_num, by norm_num⟩) (fun _ => ⟨by norm_num, by norm_num⟩)
    (fun h => by simp at h) (by simp [dispatch, seg])

/-- `dispatch_sum_covers` applies in the repaired case: convex `[5,6]` (origin outside) first,
`[-1,1]` declared non-convex second — swapped, base moved to the point `c = 11/2` of `[5,6]` -/
example : planDen (dispatch ⟨false, true, false, false, false, false, true⟩)
    (seg 5 6 (by norm_num)) (seg (-1) 1 (by norm_num)) (11 / 2) =
    (seg 5 6 (by norm_num)).S + (seg (-1) 1 (by norm_num)).S :=
  dispatch_sum_covers _ _ _ _ rfl rfl rfl (fun _ => seg_convex _ _ _) (fun h => by simp at h)
    (fun h => by simp at h) (fun _ => ⟨by norm_num, by norm_num⟩)
    (fun _ => ⟨isPreconnected_Icc, by
      rw [show (seg (-1) 1 (by norm_num)).S = Set.Icc (-1 : ℝ) 1 from rfl, frontier_Icc (by norm_num)]
      exact ⟨-1, by simp⟩⟩)
    (by simp [dispatch, seg]; norm_num)

/-- `dispatch_diff_covers` applies: `[0,1] ⊖ [-1/4,1/4]` -/
example : planDen (dispatch ⟨true, true, true, false, false, true, true⟩)
    (seg 0 1 (by norm_num)) (seg (-1 / 4) (1 / 4) (by norm_num)) 0 =
    erosion (interior (seg 0 1 (by norm_num)).S) (seg (-1 / 4) (1 / 4) (by norm_num)).S :=
  dispatch_diff_covers _ _ _ _ rfl rfl rfl (fun _ => seg_convex _ _ _) isPreconnected_Icc
    ⟨by norm_num, by norm_num⟩

end MV.C16
