import MV.Proof.Mesh
import MV.Proof.Halfedge
/-!
# C01 (part a): the mesh vocabulary

"A Manifold's exported mesh, after applying its merge vectors, is a closed oriented 2-manifold:
every directed edge occurs exactly once and is matched by exactly one opposite edge, no triangle
repeats a vertex, every index is in range, every vertex is referenced, and
NumVert/NumEdge/NumTri/Genus agree with that mesh."

This file fixes what that sentence means (`MV.Mesh.Closed2Manifold`), proves that the
executable checker used by the differential harness decides exactly that predicate, and proves
the invariances that let the checker be applied to any of the equivalent presentations of a mesh
(triangle order, corner rotation, vertex renumbering / compaction).
-/
namespace MV.C01a
open MV.Mesh List

/-! ## sample meshes -/

/-- a tetrahedron -/
def tetra : List Tri := [(0, 2, 1), (0, 1, 3), (1, 2, 3), (2, 0, 3)]
/-- two tetrahedra glued along the edge {0,1}, both oriented outward, both containing the
directed edge 0→1: every directed edge is matched, but 0→1 and 1→0 occur twice -/
def twoTetraEdge : List Tri :=
  [(0, 1, 2), (1, 0, 3), (0, 2, 3), (2, 1, 3), (0, 1, 4), (1, 0, 5), (0, 4, 5), (4, 1, 5)]
/-- two opposed triangles ("pillow"): a closed oriented 2-manifold (a sphere with V=3,E=3,F=2) -/
def pillow : List Tri := [(0, 1, 2), (1, 0, 2)]
/-- a tetrahedron with an extra pair of opposed triangles glued on one face -/
def tetraPlusOpposed : List Tri := tetra ++ [(0, 1, 2), (1, 0, 2)]

/-! ## the checker -/

/-- SOUNDNESS AND COMPLETENESS of the executable checker. -/
theorem checkMesh_iff (nV : Nat) (ts : List Tri) :
    checkMesh nV ts = .ok () ↔ Closed2Manifold nV ts :=
  checkMesh_iff' nV ts

/-- the same with an exemption set for the "every vertex referenced" clause (used by
`checkmerge`, where the merged-from vertices stay in the buffer unreferenced) -/
theorem checkMeshEx_iff (nV : Nat) (ex : Nat → Bool) (ts : List Tri) :
    checkMeshEx nV ex ts = .ok () ↔ Closed2ManifoldEx nV ex ts :=
  MV.Mesh.checkMeshEx_iff nV ex ts

example : Closed2Manifold 4 tetra := by decide
example : checkMesh 4 tetra = .ok () := (checkMesh_iff _ _).2 (by decide)
example : Closed2Manifold 3 pillow := by decide
example : ¬ Closed2Manifold 6 twoTetraEdge := by decide
example : checkMesh 6 twoTetraEdge ≠ .ok () := fun h => absurd ((checkMesh_iff _ _).1 h) (by decide)
example : ¬ Closed2Manifold 5 tetra := by decide   -- vertex 4 unreferenced
example : Closed2ManifoldEx 5 (fun v => v == 4) tetra := by decide

/-! ## invariance under permutation of the triangle list and rotation of corners -/

/-- The predicate depends only on the multiset of directed edges. -/
theorem closed2Manifold_of_dirEdges_perm {nV : Nat} {ts ts' : List Tri}
    (h : dirEdges ts ~ dirEdges ts') : Closed2Manifold nV ts ↔ Closed2Manifold nV ts' :=
  MV.Mesh.closed2Manifold_of_dirEdges_perm h

/-- Invariant under any permutation of the triangle list followed by any rotation of the three
indices of each triangle (`Rotated ts₁ ts'`: position-wise `t' ∈ {t, rot t, rot² t}`). -/
theorem closed2Manifold_perm {nV : Nat} {ts ts₁ ts' : List Tri}
    (hp : ts ~ ts₁) (hr : Rotated ts₁ ts') :
    Closed2Manifold nV ts ↔ Closed2Manifold nV ts' :=
  MV.Mesh.closed2Manifold_of_dirEdges_perm ((dirEdges_perm hp).trans (dirEdges_rot hr))

example : Closed2Manifold 4 [(1, 3, 0), (2, 1, 0), (3, 1, 2), (3, 2, 0)] := by
  refine (closed2Manifold_perm (ts := tetra) (ts₁ := [(0, 1, 3), (0, 2, 1), (1, 2, 3), (2, 0, 3)])
    ?_ ?_).1 (by decide)
  · exact Perm.swap ..
  · exact .cons (by decide) (.cons (by decide) (.cons (by decide) (.cons (by decide) .nil)))

/-! ## invariance under renumbering of the vertices -/

/-- Let `f` rename the vertices, injective on the used ones, onto `[0,nV')`.  Then the renamed
mesh is a closed 2-manifold over `nV'` vertices iff the original is closed and oriented (the
index-free clauses).  This is what `SortVerts` (a permutation) and the compaction of
`RemoveUnreferencedVerts` / of merged-from vertices do. -/
theorem closed2Manifold_relabel (f : Nat → Nat) (nV' : Nat) (ts : List Tri)
    (hinj : ∀ u v, Used ts u → Used ts v → f u = f v → u = v)
    (hlt : ∀ v, Used ts v → f v < nV')
    (hsurj : ∀ w, w < nV' → ∃ v, Used ts v ∧ f v = w) :
    Closed2Manifold nV' (ts.map (mapTri f)) ↔ ClosedOriented ts :=
  relabel_iff f nV' ts hinj hlt hsurj

/-- Special case: a bijection `[0,nV) → [0,nV)` (SortVerts) preserves `Closed2Manifold nV`. -/
theorem closed2Manifold_relabel_perm (f : Nat → Nat) (nV : Nat) (ts : List Tri)
    (hinj : ∀ u v, u < nV → v < nV → f u = f v → u = v)
    (hlt : ∀ v, v < nV → f v < nV)
    (hsurj : ∀ w, w < nV → ∃ v, v < nV ∧ f v = w)
    (h : Closed2Manifold nV ts) : Closed2Manifold nV (ts.map (mapTri f)) := by
  have hu : ∀ v, Used ts v → v < nV := by
    rintro v ⟨t, ht, hv⟩
    have := h.1 t ht
    rcases mem_triVerts.1 hv with rfl | rfl | rfl
    · exact this.1
    · exact this.2.1
    · exact this.2.2
  refine (closed2Manifold_relabel f nV ts (fun u v hu' hv' => hinj u v (hu u hu') (hu v hv'))
    (fun v hv => hlt v (hu v hv)) ?_).2 h.closedOriented
  intro w hw
  obtain ⟨v, hv, rfl⟩ := hsurj w hw
  exact ⟨v, h.2.2.2.2 v hv, rfl⟩

/-- Compaction after the merge: if the merged mesh passes `checkMeshEx` with the merged-from
vertices exempt, then ANY renumbering that is injective on the used vertices and onto `[0,nV')`
gives a `Closed2Manifold nV'`. -/
theorem closed2Manifold_compact (f : Nat → Nat) (nV nV' : Nat) (ex : Nat → Bool) (ts : List Tri)
    (hinj : ∀ u v, Used ts u → Used ts v → f u = f v → u = v)
    (hlt : ∀ v, Used ts v → f v < nV')
    (hsurj : ∀ w, w < nV' → ∃ v, Used ts v ∧ f v = w)
    (h : checkMeshEx nV ex ts = .ok ()) : Closed2Manifold nV' (ts.map (mapTri f)) :=
  (closed2Manifold_relabel f nV' ts hinj hlt hsurj).2 ((checkMeshEx_iff nV ex ts).1 h).closedOriented

/-- a tetrahedron on the vertices 0,2,5,7 of an 8-vertex buffer, compacted onto 0..3 -/
example : Closed2Manifold 4
    ([(0, 5, 2), (0, 2, 7), (2, 5, 7), (5, 0, 7)].map (mapTri fun v => if v = 0 then 0 else if v = 2 then 1 else if v = 5 then 2 else 3)) := by
  decide

example : ClosedOriented [(0, 5, 2), (0, 2, 7), (2, 5, 7), (5, 0, 7)] := by decide

/-! ## merge vectors -/

/-- `applyMerge` (the O(n) table used by the driver) reads every index through the
specification function `mergeFun`: `mergeFrom[i] ↦ mergeTo[i]`, the last `i` wins, no chaining,
identity elsewhere (this is `prop2vert` of the importer, /repo/src/impl.h:378-391). -/
theorem applyMerge_eq (mf mt : List Nat) (ts : List Tri) :
    applyMerge mf mt ts = ts.map (mapTri (mergeFun mf mt)) :=
  MV.Mesh.applyMerge_eq mf mt ts

/-- a tetrahedron whose vertex 2 is split into 2 and 4 (vertex 4 merged into 2) -/
example : applyMerge [4] [2] [(0, 4, 1), (0, 1, 3), (1, 2, 3), (4, 0, 3)] = tetra := by decide
example : checkMeshEx 5 (fun v => v == 4) (applyMerge [4] [2] [(0, 4, 1), (0, 1, 3), (1, 2, 3), (4, 0, 3)])
    = .ok () := (checkMeshEx_iff _ _ _).2 (by decide)

/-! ## Euler count -/

/-- For a closed oriented mesh `3·F = 2·E` with `E` the number of undirected edges
(= number of forward directed edges).  Hence `F` is even, `NumEdge() = 3F/2 = E`, and
`V − E + F = V − F/2`. -/
theorem closed2Manifold_euler {nV : Nat} {ts : List Tri} (h : Closed2Manifold nV ts) :
    3 * ts.length = 2 * numUndirected ts ∧
    ts.length % 2 = 0 ∧
    numEdge ts = numUndirected ts ∧
    (nV : Int) - (numEdge ts : Int) + (ts.length : Int) = (nV : Int) - ((ts.length / 2 : Nat) : Int) ∧
    eulerGenus nV ts = 1 - Int.tdiv ((nV : Int) - ((ts.length / 2 : Nat) : Int)) 2 := by
  have h1 := euler_edges h.closedOriented
  have h2 : numEdge ts = numUndirected ts := by unfold numEdge; omega
  have h3 : (nV : Int) - (numEdge ts : Int) + (ts.length : Int) = (nV : Int) - ((ts.length / 2 : Nat) : Int) := by
    rw [h2]; omega
  refine ⟨h1, by omega, h2, h3, ?_⟩
  unfold eulerGenus; rw [h3]

example : numUndirected tetra = 6 ∧ numEdge tetra = 6 ∧ eulerGenus 4 tetra = 0 := by decide


/-! # `CreateHalfedges` builds the pairing -/

section halfedge
open MV.Halfedge

/-- the directed-edge multiset is balanced: as many copies of `a→b` as of `b→a` -/
def Balanced (ts : List Tri) : Prop :=
  ∀ a b, (dirEdges ts).count (a, b) = (dirEdges ts).count (b, a)

theorem balanced_iff_bounded (ts : List Tri) :
    Balanced ts ↔ ∀ e ∈ dirEdges ts, (dirEdges ts).count e = (dirEdges ts).count (e.2, e.1) := by
  constructor
  · intro h e _; exact h e.1 e.2
  · intro h a b
    by_cases h1 : (a, b) ∈ dirEdges ts
    · exact h (a, b) h1
    · by_cases h2 : (b, a) ∈ dirEdges ts
      · exact (h (b, a) h2).symm
      · rw [count_eq_zero.2 h1, count_eq_zero.2 h2]

instance (ts : List Tri) : Decidable (Balanced ts) :=
  decidable_of_iff _ (balanced_iff_bounded ts).symm

theorem closedOriented_of_balanced {ts : List Tri} (hnd : ∀ t ∈ ts, TriNondeg t)
    (hno : (dirEdges ts).Nodup) (hb : Balanced ts) : ClosedOriented ts := by
  refine ⟨hnd, hno, ?_⟩
  intro a b hab
  have h1 : 0 < (dirEdges ts).count (a, b) := count_pos_iff.2 hab
  rw [hb a b] at h1
  exact count_pos_iff.1 h1

/--
GENERAL STATEMENT (kept for reference; NOT proved here, see `createHalfedges_pairInv_partial`):

  for every `ts` with `∀ t ∈ ts, TriNondeg t`, `Balanced ts` and all indices `< 2^31`,
  `∃ s o, removalState ts = .ok s ∧ createHalfedges ts = .ok o` (no `ids[k]` read is out of range,
  no loop runs out of fuel), `PairInv o.start o.paired`, tombstones come by whole triangles
  (`Tomb (next e) ↔ Tomb e`), every removed triangle `(a,b,c)` is matched with a removed triangle
  `(b,a,c)` (up to rotation), and the surviving triangles' directed-edge multiset is balanced.

What is missing for it: the invariant of the in-place reordering loop of `ids`
(impl.cpp:461-484) over a run of `m > 1` equal directed edges, and the counting argument that
the k-th copy of an oriented triangle is removed on all of its three edges or on none.
The statement was tested instead: on 3000 random balanced triangle soups with duplicated edges
and opposed pairs (test/genrand.py) the model's output is identical to the C++
`Impl::CreateHalfedges` (serial build) and satisfies `PairInv`; the two examples below run the
model, including the reordering loop, inside the kernel.

PROVED: the duplicate-free case.  If moreover every directed edge occurs exactly once, then
`createHalfedges` terminates without any out-of-range access, the output satisfies `PairInv` and
`NoDupEdge`, removal is by whole triangles, a halfedge is removed iff its partner lies in the
opposed triangle (so removed triangles come in opposed pairs `(a,b,c)`/`(b,a,c)`; since every
directed edge is unique these are exactly the isolated two-triangle "pillow" components), and the
surviving halfedges keep their start/prop vertices.  The survivors are balanced because
`PairInv` pairs each surviving halfedge with a surviving reversed one. -/
theorem createHalfedges_pairInv_partial (ts : List Tri)
    (hnd : ∀ t ∈ ts, TriNondeg t) (hb : Balanced ts) (hr : ∀ t ∈ ts, TriInRange (2 ^ 31) t)
    (hno : (dirEdges ts).Nodup) :
    ∃ s o, removalState ts = .ok s ∧ s.ids = sortIds (prep ts) ∧
      createHalfedges ts = .ok o ∧ NodupResult ts o :=
  createHalfedges_nodup ts (closedOriented_of_balanced hnd hno hb) hr

example : (∀ t ∈ tetra, TriNondeg t) ∧ Balanced tetra ∧ (∀ t ∈ tetra, TriInRange (2 ^ 31) t) ∧
    (dirEdges tetra).Nodup := by decide

/-- the pillow: duplicate-free, balanced, and both triangles ARE removed -/
example : ∃ o, createHalfedges pillow = .ok o ∧ PairInv o.start o.paired ∧
    ∀ e, e < 6 → Tomb o.start o.paired e := by
  obtain ⟨s, o, _, _, ho, r⟩ := createHalfedges_pairInv_partial pillow (by decide) (by decide)
    (by decide) (by decide)
  refine ⟨o, ho, r.pairInv, ?_⟩
  intro e he
  exact (r.tomb_iff e he).2 (by revert e; decide)

/-- hypotheses of the GENERAL statement on a mesh with a repeated directed edge
(two tetrahedra sharing the edge 0→1) ... -/
example : (∀ t ∈ twoTetraEdge, TriNondeg t) ∧ Balanced twoTetraEdge ∧
    ¬ (dirEdges twoTetraEdge).Nodup := by decide

theorem ids_twoTetraEdge : sortIds (prep twoTetraEdge) =
    #[3, 15, 2, 8, 14, 20, 9, 5, 21, 17, 11, 23, 0, 12, 6, 4, 18, 16, 1, 10, 13, 22, 7, 19] :=
  sortIds_eq _ [3, 15, 2, 8, 14, 20, 9, 5, 21, 17, 11, 23, 0, 12, 6, 4, 18, 16, 1, 10, 13, 22, 7, 19]
    (by decide +kernel) (by decide +kernel)

/-- ... and the model evaluated on it inside the kernel: its output satisfies `PairInv`, nothing
is removed, but `NoDupEdge` fails (the mesh is not a 2-manifold along the shared edge). -/
example : ∃ o, createHalfedges twoTetraEdge = .ok o ∧ PairInv o.start o.paired ∧
    ¬ NoDupEdge o.start o.paired ∧ readBack o.start = twoTetraEdge := by
  have h : (createHalfedges twoTetraEdge).toOption = some
      { start := #[0, 1, 2, 1, 0, 3, 0, 2, 3, 2, 1, 3, 0, 1, 4, 1, 0, 5, 0, 4, 5, 4, 1, 5],
        paired := #[3, 9, 6, 0, 8, 10, 2, 11, 4, 1, 5, 7, 15, 21, 18, 12, 20, 22, 14, 23, 16, 13, 17, 19],
        prop := #[0, 1, 2, 1, 0, 3, 0, 2, 3, 2, 1, 3, 0, 1, 4, 1, 0, 5, 0, 4, 5, 4, 1, 5] } := by
    simp only [createHalfedges, removalState, ids_twoTetraEdge]
    decide +kernel
  cases hc : createHalfedges twoTetraEdge with
  | error e => rw [hc] at h; cases h
  | ok o =>
    rw [hc] at h
    cases h
    exact ⟨_, rfl, by decide +kernel, by decide +kernel, by decide +kernel⟩

/-- a pair of opposed triangles glued into a tetrahedron: hypotheses of the general statement -/
example : (∀ t ∈ tetraPlusOpposed, TriNondeg t) ∧ Balanced tetraPlusOpposed ∧
    ¬ (dirEdges tetraPlusOpposed).Nodup := by decide

theorem ids_tetraPlusOpposed : sortIds (prep tetraPlusOpposed) =
    #[2, 15, 9, 14, 5, 1, 17, 8, 11, 3, 12, 0, 16, 10, 6, 13, 4, 7] :=
  sortIds_eq _ [2, 15, 9, 14, 5, 1, 17, 8, 11, 3, 12, 0, 16, 10, 6, 13, 4, 7]
    (by decide +kernel) (by decide +kernel)

/-- the model evaluated inside the kernel (this run executes the reordering loop of `ids`):
triangle 0 = (0,2,1) and triangle 4 = (0,1,2) are removed as an opposed pair, the surviving
mesh is the tetrahedron with (1,0,2) in place of (0,2,1), `PairInv` and `NoDupEdge` hold. -/
example : ∃ s o, removalState tetraPlusOpposed = .ok s ∧ s.ids ≠ sortIds (prep tetraPlusOpposed) ∧
    createHalfedges tetraPlusOpposed = .ok o ∧ PairInv o.start o.paired ∧
    NoDupEdge o.start o.paired ∧
    readBack o.start = [(0, 1, 3), (1, 2, 3), (2, 0, 3), (1, 0, 2)] := by
  have hs : (removalState tetraPlusOpposed).toOption = some
      { ids := #[2, 15, 9, 14, 5, 1, 17, 8, 11, 12, 3, 16, 0, 10, 13, 6, 4, 7],
        removed := #[true, true, true, false, false, false, false, false, false, false, false, false,
          true, true, true, false, false, false] } := by
    simp only [removalState, ids_tetraPlusOpposed]
    decide +kernel
  have h : (createHalfedges tetraPlusOpposed).toOption = some
      { start := #[-1, -1, -1, 0, 1, 3, 1, 2, 3, 2, 0, 3, -1, -1, -1, 1, 0, 2],
        paired := #[-1, -1, -1, 15, 8, 10, 17, 11, 4, 16, 5, 7, -1, -1, -1, 3, 9, 6],
        prop := #[0, 0, 0, 0, 1, 3, 1, 2, 3, 2, 0, 3, 0, 0, 0, 1, 0, 2] } := by
    simp only [createHalfedges, removalState, ids_tetraPlusOpposed]
    decide +kernel
  cases hc : createHalfedges tetraPlusOpposed with
  | error e => rw [hc] at h; cases h
  | ok o =>
    cases hr : removalState tetraPlusOpposed with
    | error e => rw [hr] at hs; cases hs
    | ok s =>
      rw [hc] at h; rw [hr] at hs
      cases h; cases hs
      refine ⟨_, _, rfl, ?_, rfl, by decide +kernel, by decide +kernel, by decide +kernel⟩
      rw [ids_tetraPlusOpposed]; decide +kernel

/-- CORRECTED form of "if every directed edge occurs exactly once nothing is removed".
As stated that sentence is FALSE: the pillow `[(0,1,2),(1,0,2)]` is a `Closed2Manifold 3` with all
six directed edges distinct, and `CreateHalfedges` removes both triangles (example above).
The extra hypothesis needed is `NoOpposed ts` (no two triangles on the same vertex triple with
opposite orientation).  Then: no out-of-range access, nothing is removed, `PairInv` and
`NoDupEdge` hold, and the mesh read back from `start` is exactly the input, `prop = start`. -/
theorem createHalfedges_2manifold (nV : Nat) (ts : List Tri) (h : Closed2Manifold nV ts)
    (hnV : nV ≤ 2 ^ 31) (hopp : NoOpposed ts) :
    ∃ o, createHalfedges ts = .ok o ∧ PairInv o.start o.paired ∧ NoDupEdge o.start o.paired ∧
      (∀ e, e < 3 * ts.length → ¬ Tomb o.start o.paired e) ∧
      readBack o.start = ts ∧ o.prop = o.start := by
  have hr : ∀ t ∈ ts, TriInRange (2 ^ 31) t := by
    intro t ht; have := h.1 t ht
    exact ⟨by have := this.1; omega, by have := this.2.1; omega, by have := this.2.2; omega⟩
  obtain ⟨s, o, _, _, ho, r⟩ := createHalfedges_nodup ts h.closedOriented hr
  have hnt : ∀ e, e < 3 * ts.length → ¬ Tomb o.start o.paired e := by
    intro e he ht
    exact noOpposed_not_opposedAt hopp he ((r.tomb_iff e he).1 ht)
  refine ⟨o, ho, r.pairInv, r.noDup, hnt, ?_, ?_⟩
  · exact readBack_eq ts o.start r.ssize (fun e he => (r.alive e he (hnt e he)).1)
  · apply Array.ext
    · rw [r.qsize, r.ssize]
    · intro i h1 h2
      have hi : i < 3 * ts.length := by rw [← r.ssize]; exact h2
      have := r.alive i hi (hnt i hi)
      have e1 : o.prop[i]! = o.prop[i] := getElem!_pos o.prop i h1
      have e2 : o.start[i]! = o.start[i] := getElem!_pos o.start i h2
      rw [← e1, ← e2, this.1, this.2]

/-- Without `NoOpposed`: a `Closed2Manifold` input still yields `PairInv ∧ NoDupEdge`
(pillow components are tombstoned as whole triangles). -/
theorem createHalfedges_of_closed2Manifold (nV : Nat) (ts : List Tri) (h : Closed2Manifold nV ts)
    (hnV : nV ≤ 2 ^ 31) :
    ∃ o, createHalfedges ts = .ok o ∧ PairInv o.start o.paired ∧ NoDupEdge o.start o.paired ∧
      ∀ e, e < 3 * ts.length → (Tomb o.start o.paired e ↔ OpposedAt ts e) := by
  have hr : ∀ t ∈ ts, TriInRange (2 ^ 31) t := by
    intro t ht; have := h.1 t ht
    exact ⟨by have := this.1; omega, by have := this.2.1; omega, by have := this.2.2; omega⟩
  obtain ⟨s, o, _, _, ho, r⟩ := createHalfedges_nodup ts h.closedOriented hr
  exact ⟨o, ho, r.pairInv, r.noDup, r.tomb_iff⟩

example : Closed2Manifold 4 tetra ∧ 4 ≤ 2 ^ 31 ∧ NoOpposed tetra := by decide
example : Closed2Manifold 3 pillow ∧ ¬ NoOpposed pillow := by decide

end halfedge

end MV.C01a
