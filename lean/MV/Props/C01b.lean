import MV.Proof.EdgeOpLocal
import MV.Proof.EdgeOpOrbit
import MV.Proof.EdgeOpFormLoop
import MV.Proof.EdgeOpCollapse
/-!
# C01 (part b): the topological editing primitives of `src/edge_op.cpp` keep the halfedge
structure paired

Model: `MV/Model/EdgeOp.lean` (line-by-line transliteration of `PairUp`, `UpdateVert`,
`CollapseTri`, `RemoveIfFolded`, `FormLoop`, `CollapseEdge`/`CollapseEdge2`, `SwapEdge`,
`DedupeEdge`, `SplitPinchedVerts` over the three `int` arrays of `Halfedges`), tied to the C++ by
op-level replay (hook `onTopoOp`, harness `c01_topo.cpp`).

Vocabulary (`MV/Proof/EdgeOpBasic.lean`): `Good s e` is `CheckHalfedges::operator()(e)` of
`properties.cpp`, `PairInv s` is `Impl::IsManifold()`; `PairInvExcept s X` says every halfedge
outside the finite list `X` is `Good` - the shape of the invariant INSIDE an operation, where a
few halfedges are dangling or carry a label that is about to be rewritten (`PairInv s ↔
PairInvExcept s []`).  `s.walk c0 i` is `i` steps of `current ↦ Pair(NextHalfedge(current))`.

All theorems quantify over every state (all array sizes); hypotheses are explicit and decidable;
after each theorem an `example` shows a concrete state meeting them.
-/
namespace MV.C01b
open MV.EdgeOp MV.Halfedge

/-! ## the checkers -/

/-- the executable `checkPairInv` (the property gate of the replay) decides the library's
`IsManifold()` predicate -/
theorem checkPairInv_iff (start paired : Array Int) :
    checkPairInv start paired = true ↔ MV.Halfedge.PairInv start paired :=
  MV.EdgeOp.checkPairInv_iff start paired

/-- `checkVertOrbit` decides "any two live halfedges with the same start vertex lie on one
`ForVert` cycle" (no pinched vertex) -/
theorem checkVertOrbit_iff (start paired : Array Int) :
    checkVertOrbit start paired = true ↔ VertOrbitOk start paired :=
  MV.EdgeOp.checkVertOrbit_iff start paired

example : checkPairInv tetra.start tetra.paired = true ∧ checkVertOrbit tetra.start tetra.paired = true := by
  decide +kernel
example : PairInv tetra := ⟨by decide, (checkPairInv_iff _ _).1 (by decide +kernel)⟩
/-- a state that is rejected: the tetrahedron with one pairing cleared -/
example : checkPairInv tetraCut.start tetraCut.paired = false := by decide +kernel

/-! ## `PairUp` (edge_op.cpp:718) -/

/-- If whoever still points at `e0` / `e1` is in the exception list (or is the new partner), both
triangles are live and the two halfedges are opposite, non-degenerate directed edges, then after
`PairUp(e0, e1)` both are `Good` and leave the list; nothing else changes. -/
theorem pairUp_preserves (s : HE) (X : List Nat) (e0 e1 : Nat)
    (h : PairInvExcept s X) (h0 : e0 < s.start.size) (h1 : e1 < s.start.size) (hne : e0 ≠ e1)
    (hp0 : ∀ e, e < s.start.size → e ∉ X → s.P e = (e0 : Int) → e = e1)
    (hp1 : ∀ e, e < s.start.size → e ∉ X → s.P e = (e1 : Int) → e = e0)
    (hl0 : s.S (nx e0) ≠ -1 ∧ s.S (nx (nx e0)) ≠ -1) (hl1 : s.S (nx e1) ≠ -1 ∧ s.S (nx (nx e1)) ≠ -1)
    (hv : s.S e0 = s.S (nx e1) ∧ s.S (nx e0) = s.S e1 ∧ s.S e0 ≠ s.S (nx e0)) :
    ∃ s', pairUp s (e0 : Int) (e1 : Int) = .ok s' ∧ s'.start = s.start ∧ s'.prop = s.prop ∧
      s'.nVert = s.nVert ∧ PairInvExcept s' (X.filter fun e => e ≠ e0 ∧ e ≠ e1) :=
  MV.EdgeOp.pairUp_preserves s X e0 e1 h h0 h1 hne hp0 hp1 hl0 hl1 hv

/-- the frame part alone (no label hypothesis): only `e0`, `e1` and their old partners can stop
being `Good` -/
theorem pairUp_frame (s : HE) (X : List Nat) (e0 e1 : Nat)
    (h : PairInvExcept s X) (h0 : e0 < s.start.size) (h1 : e1 < s.start.size) :
    ∃ s', pairUp s (e0 : Int) (e1 : Int) = .ok s' ∧ s'.start = s.start ∧ s'.prop = s.prop ∧
      s'.nVert = s.nVert ∧ PairInvExcept s' (X ++ [e0, e1, s.Pn e0, s.Pn e1]) :=
  MV.EdgeOp.pairUp_frame s X e0 e1 h h0 h1

/-- the tetrahedron with the edge 0-9 un-paired: `PairUp 0 9` restores `PairInv` -/
example : ∃ s', pairUp tetraCut ((0 : Nat) : Int) ((9 : Nat) : Int) = .ok s' ∧ PairInvExcept s' [] := by
  obtain ⟨s', h1, _, _, _, h2⟩ := pairUp_preserves tetraCut [0, 9] 0 9 (by decide +kernel) (by decide +kernel)
    (by decide +kernel) (by decide) (by decide +kernel) (by decide +kernel) (by decide +kernel)
    (by decide +kernel) (by decide +kernel)
  exact ⟨s', h1, h2⟩

/-! ## `CollapseTri` (edge_op.cpp:758) -/

/-- FRAME FORM, needing only that the two outer halfedges `e1 = nx e0`, `e2 = nx e1` are paired
with something that points back: the triangle becomes three tombstones and leaves the list, the
old partner of `e0` is left dangling, the outer partners `p1`, `p2` are paired with each other and
stay in the list until their labels are known to match.  This is the form used inside
`CollapseEdge`, whose first `CollapseTri` runs BEFORE the vertex relabelling. -/
theorem collapseTri_frame (s : HE) (X : List Nat) (e0 : Nat) (h : PairInvExcept s X)
    (h0 : e0 < s.start.size)
    (hq1 : 0 ≤ s.P (nx e0) ∧ s.Pn (nx e0) < s.start.size ∧ s.P (s.Pn (nx e0)) = ((nx e0 : Nat) : Int))
    (hq2 : 0 ≤ s.P (nx (nx e0)) ∧ s.Pn (nx (nx e0)) < s.start.size ∧
      s.P (s.Pn (nx (nx e0))) = ((nx (nx e0) : Nat) : Int)) :
    ∃ s', collapseTri s (triOf (e0 : Int)) = .ok s' ∧ s'.prop = s.prop ∧ s'.nVert = s.nVert ∧
      s'.start.size = s.start.size ∧
      (∀ j, j / 3 ≠ e0 / 3 → s'.S j = s.S j) ∧
      (∀ j, j / 3 = e0 / 3 → j < s.start.size → s'.S j = -1 ∧ s'.P j = -1) ∧
      PairInvExcept s' ((X.filter fun e => e / 3 ≠ e0 / 3) ++
        [s.Pn e0, s.Pn (nx e0), s.Pn (nx (nx e0))]) := by
  obtain ⟨s', a, b, c, _, d, e, f, _, _, g⟩ := MV.EdgeOp.collapseTri_frame s X e0 h h0 hq1 hq2
  exact ⟨s', a, b, c, d, e, f, g⟩

/-- "Removing a triangle whose two outer neighbours get paired keeps `PairInv`": if the outer
partners `p1`, `p2` lie outside the triangle, their triangles are live and their labels are
opposite (what the relabelling of `UpdateVert` establishes), then after `CollapseTri` only the old
partner of `e0` is left in the list. -/
theorem collapseTri_preserves (s : HE) (X : List Nat) (e0 : Nat) (h : PairInvExcept s X)
    (h0 : e0 < s.start.size)
    (hq1 : 0 ≤ s.P (nx e0) ∧ s.Pn (nx e0) < s.start.size ∧ s.P (s.Pn (nx e0)) = ((nx e0 : Nat) : Int))
    (hq2 : 0 ≤ s.P (nx (nx e0)) ∧ s.Pn (nx (nx e0)) < s.start.size ∧
      s.P (s.Pn (nx (nx e0))) = ((nx (nx e0) : Nat) : Int))
    (ho1 : s.Pn (nx e0) / 3 ≠ e0 / 3) (ho2 : s.Pn (nx (nx e0)) / 3 ≠ e0 / 3)
    (hl1 : s.S (nx (s.Pn (nx e0))) ≠ -1 ∧ s.S (nx (nx (s.Pn (nx e0)))) ≠ -1)
    (hl2 : s.S (nx (s.Pn (nx (nx e0)))) ≠ -1 ∧ s.S (nx (nx (s.Pn (nx (nx e0))))) ≠ -1)
    (hv : s.S (s.Pn (nx e0)) = s.S (nx (s.Pn (nx (nx e0)))) ∧
      s.S (nx (s.Pn (nx e0))) = s.S (s.Pn (nx (nx e0))) ∧
      s.S (s.Pn (nx e0)) ≠ s.S (nx (s.Pn (nx e0)))) :
    ∃ s', collapseTri s (triOf (e0 : Int)) = .ok s' ∧
      PairInvExcept s' ((X.filter fun e => e / 3 ≠ e0 / 3 ∧ e ≠ s.Pn (nx e0) ∧ e ≠ s.Pn (nx (nx e0))) ++
        [s.Pn e0]) :=
  MV.EdgeOp.collapseTri_preserves s X e0 h h0 hq1 hq2 ho1 ho2 hl1 hl2 hv

/-- the same from `Good`-ness of the neighbourhood and "the collapsed edge `e0` has equal ends";
also covers the folded triangle whose two outer edges are paired with each other -/
theorem collapseTri_preserves_of_good (s : HE) (X : List Nat) (e0 : Nat) (h : PairInvExcept s X)
    (h0 : e0 < s.start.size) (hl : s.P (nx e0) ≠ -1) (hX1 : nx e0 ∉ X) (hX2 : nx (nx e0) ∉ X)
    (hdeg : s.S e0 = s.S (nx e0))
    (hXp1 : s.Pn (nx e0) ∉ X) (hXp2 : s.Pn (nx (nx e0)) ∉ X) :
    ∃ s', collapseTri s (triOf (e0 : Int)) = .ok s' ∧
      PairInvExcept s' ((X.filter fun e => e / 3 ≠ e0 / 3) ++ [s.Pn e0]) :=
  MV.EdgeOp.collapseTri_preserves' s X e0 h h0 hl hX1 hX2 hdeg hXp1 hXp2

/-- the octahedron with vertex 2 merged into its neighbour 3 (the two halfedges 1, 13 of the edge
2-3 are degenerate = the exception list): collapsing the triangle of halfedge 1 leaves only 13 -/
example : ∃ s', collapseTri octaDeg (triOf ((1 : Nat) : Int)) = .ok s' ∧
    PairInvExcept s' (([1, 13].filter fun e => e / 3 ≠ 1 / 3) ++ [octaDeg.Pn 1]) :=
  collapseTri_preserves_of_good octaDeg [1, 13] 1 (by decide +kernel) (by decide +kernel) (by decide +kernel)
    (by decide +kernel) (by decide +kernel) (by decide +kernel) (by decide +kernel) (by decide +kernel)

/-! ## `RemoveIfFolded` (edge_op.cpp:768) -/

/-- For EVERY `PairInv` state and every halfedge: `RemoveIfFolded` performs no out-of-range
access and returns a `PairInv` state (dead halfedge or different apexes: unchanged; folded pair:
the four outer partners are re-paired two by two - or are inside the pair - and both triangles
become tombstones). -/
theorem removeIfFolded_preserves (s : HE) (e : Nat) (h : PairInv s) (he : e < s.start.size) :
    ∃ s', removeIfFolded s (e : Int) = .ok s' ∧ PairInv s' ∧ s'.nVert = s.nVert ∧
      s'.prop.size = s.prop.size :=
  MV.EdgeOp.removeIfFolded_preserves s e h he

/-- a fold whose four outer partners 3, 0, 5, 1 are OUTSIDE (doubled edges): they get paired
3-0 and 5-1 -/
example : PairInv foldEx ∧ removeIfFolded foldEx ((6 : Nat) : Int) = .ok
    { start := #[1,2,0, 2,1,0, -1,-1,-1, -1,-1,-1], paired := #[3,5,4, 0,2,1, -1,-1,-1, -1,-1,-1],
      prop := #[1,2,0, 2,1,0, -1,-1,-1, -1,-1,-1], nVert := 3, nPropVert := 3 } :=
  ⟨⟨by decide, (checkPairInv_iff _ _).1 (by decide +kernel)⟩, rfl⟩

/-! ## `UpdateVert` (edge_op.cpp:726) -/

/-- If the walk `c ↦ Pair(Next(c))` from `startEdge = c0` reaches `endEdge` after `k ≤ size`
steps (first time) through in-range halfedges, `UpdateVert(vert, c0, endEdge)` terminates within
the fuel, never writes `paired`/`prop`, and rewrites exactly the cells `start[Next(c_i)]`, `i < k`. -/
theorem updateVert_spec (s : HE) (vert : Int) (c0 k : Nat) (endEdge : Int)
    (hw : WF s) (hk : k ≤ s.start.size)
    (hr : ∀ i, i ≤ k → s.walk c0 i < s.start.size)
    (hp : ∀ i, i < k → 0 ≤ s.P (nx (s.walk c0 i)))
    (hend : ((s.walk c0 k : Nat) : Int) = endEdge)
    (hmin : ∀ i, i < k → ((s.walk c0 i : Nat) : Int) ≠ endEdge) :
    ∃ s', updateVert s vert (c0 : Int) endEdge = .ok s' ∧ s'.paired = s.paired ∧ s'.prop = s.prop ∧
      s'.nVert = s.nVert ∧ s'.nPropVert = s.nPropVert ∧ s'.start.size = s.start.size ∧
      (∀ i, i < k → s'.S (nx (s.walk c0 i)) = vert) ∧
      (∀ j, (∀ i, i < k → j ≠ nx (s.walk c0 i)) → s'.S j = s.S j) :=
  MV.EdgeOp.updateVert_spec s vert c0 k endEdge hw hk hr hp hend hmin

/-- THE FUEL BOUND of all "orbit" loops: in a `PairInv` state a walk from a live halfedge that
reaches its target for the first time after `k` steps visits `k+1` distinct halfedges, so
`k < size`: the fuel `size + 1` of the model never runs out on a loop that terminates in the C++. -/
theorem walk_simple (s : HE) (c0 k t : Nat) (h : PairInv s) (hc0 : c0 < s.start.size)
    (hl0 : s.P c0 ≠ -1) (hk : s.walk c0 k = t) (hmin : ∀ i, i < k → s.walk c0 i ≠ t) :
    (∀ i j, i < j → j ≤ k → s.walk c0 i ≠ s.walk c0 j) ∧ k < s.start.size :=
  MV.EdgeOp.walk_simple s c0 k t h hc0 hl0 hk hmin

example : PairInv tetraHE ∧ 2 < tetraHE.start.size ∧ tetraHE.P 2 ≠ -1 ∧ tetraHE.walk 2 2 = 5 ∧
    (∀ i, i < 2 → tetraHE.walk 2 i ≠ 5) := by decide +kernel

/-! ## `FormLoop` (edge_op.cpp:740) -/

/-- `FormLoop(current, end)` on two DISTINCT live halfedges carrying the same directed edge
`u → v` (a doubled edge; SwapEdge line 311), when `Pair(end)` is on the fan of `u` walked from
`Pair(current)` and `current` is on the fan of `v` walked from `end` (without this the C++ loops
for ever: "infinite loop in decimator"): it terminates, creates the vertices `nVert`, `nVert+1`,
and the result - including the final `RemoveIfFolded` - satisfies `PairInv`. -/
theorem formLoop_preserves (s : HE) (cur en k m : Nat) (h : PairInv s)
    (hc : cur < s.start.size) (he : en < s.start.size) (hne : cur ≠ en)
    (hlc : s.P cur ≠ -1) (hle : s.P en ≠ -1)
    (hS : s.S cur = s.S en) (hE : s.S (nx cur) = s.S (nx en))
    (hfresh : ∀ e, e < s.start.size → s.S e < (s.nVert : Int))
    (hk : s.walk (s.Pn cur) k = s.Pn en) (hkmin : ∀ i, i < k → s.walk (s.Pn cur) i ≠ s.Pn en)
    (hm : s.walk en m = cur) (hmmin : ∀ i, i < m → s.walk en i ≠ cur) :
    ∃ s', formLoop s (cur : Int) (en : Int) = .ok s' ∧ PairInv s' ∧ s'.nVert = s.nVert + 2 ∧
      s'.prop.size = s.prop.size :=
  MV.EdgeOp.formLoop_preserves s cur en k m h hc he hne hlc hle hS hE hfresh hk hkmin hm hmmin

/-- ... and before the final `RemoveIfFolded` the two new vertices carry exactly one fan each,
and each fan is ONE `ForVert` cycle of the new pairing ("two valid orbits"). -/
theorem formLoop_orbits (s : HE) (cur en k m : Nat) (h : PairInv s)
    (hc : cur < s.start.size) (he : en < s.start.size) (hne : cur ≠ en)
    (hlc : s.P cur ≠ -1) (hle : s.P en ≠ -1)
    (hS : s.S cur = s.S en) (hE : s.S (nx cur) = s.S (nx en))
    (hfresh : ∀ e, e < s.start.size → s.S e < (s.nVert : Int))
    (hk : s.walk (s.Pn cur) k = s.Pn en) (hkmin : ∀ i, i < k → s.walk (s.Pn cur) i ≠ s.Pn en)
    (hm : s.walk en m = cur) (hmmin : ∀ i, i < m → s.walk en i ≠ cur) :
    ∃ s', formLoopCore s (cur : Int) (en : Int) = .ok s' ∧ PairInv s' ∧
      (∀ e e', e < s'.start.size → e' < s'.start.size → s'.S e = (s.nVert : Int) →
        s'.S e' = (s.nVert : Int) → reaches s'.paired s'.start.size e e' = true) ∧
      (∀ e e', e < s'.start.size → e' < s'.start.size → s'.S e = (s.nVert : Int) + 1 →
        s'.S e' = (s.nVert : Int) + 1 → reaches s'.paired s'.start.size e e' = true) :=
  MV.EdgeOp.formLoopCore_orbits s cur en k m h hc he hne hlc hle hS hE hfresh hk hkmin hm hmmin

/-- `formLoop` is `formLoopCore` followed by `RemoveIfFolded(end)` -/
theorem formLoop_eq (s : HE) (c e : Int) :
    formLoop s c e = formLoopCore s c e >>= fun s' => removeIfFolded s' e :=
  MV.EdgeOp.formLoop_eq s c e

/-- two tetrahedra sharing the edge 0-1 BY INDEX with the pairing crossing the sheets
(halfedges 0 and 12 are both 0→1): `FormLoop 0 12` separates them -/
example : ∃ s', formLoop twoTetraCross ((0 : Nat) : Int) ((12 : Nat) : Int) = .ok s' ∧ PairInv s' ∧
    s'.nVert = 8 := by
  obtain ⟨s', a, b, c, _⟩ := formLoop_preserves twoTetraCross 0 12 3 3 (by decide +kernel) (by decide +kernel)
    (by decide +kernel) (by decide) (by decide +kernel) (by decide +kernel) (by decide +kernel)
    (by decide +kernel) (by decide +kernel) (by decide +kernel) (by decide +kernel) (by decide +kernel)
    (by decide +kernel)
  exact ⟨s', a, b, c⟩

/-! ## `CollapseEdge` / `CollapseEdge2` (edge_op.cpp:799, 920) -/

/--
FULL STATEMENT (kept for reference; NOT proved):

  for every state `s` with `PairInv s`, `VertOrbitOk s.start s.paired` and `NoDupEdge s.start s.paired`
  (a 2-manifold without pinched vertices: what `CleanupTopology` establishes before the collapse
  passes run), every live halfedge `edge`, every `edges0 = #[]`, `hasProp` and every outcome
  `allowed` of the geometric guards:
  `∃ s' r, collapseEdge s edge #[] allowed hasProp = .ok (s', r) ∧ r = allowed ∧ PairInv s'`
  (no out-of-range access, every loop closes within the fuel, and the result passes
  `CheckHalfedges`), and `¬ allowed → s' = s`.

What is missing for it: the branch of the "Orbit startVert" loop that calls `FormLoop` when the two
fans share an outer vertex (edge_op.cpp:898-905).  There `FormLoop` runs on the label-inconsistent
intermediate state after the first `CollapseTri` (the fan of `startVert` is already spliced into the
fan of `endVert` but not yet relabelled), so `formLoop_preserves` (stated for label-consistent
states) does not apply directly; an invariant for that intermediate state is not written.  That
branch is covered by the op-level replay (thousands of `formloop` cases inside `collapseedge`
per run, each exit state through `checkPairInv`).

PROVED (the straight-line case, no `FormLoop`): if the link condition holds - the fan of
`startVert` walked from `Pair(tri1edge[1])` to `tri0edge[2]` and the fan of `endVert` walked from
`Pair(tri0edge[1])` to `tri1edge[2]` have no common outer vertex, and there is no second edge
`startVert`-`endVert` - then `CollapseEdge` (all guards passed) performs no out-of-range access,
closes every loop within the fuel, returns `true`, creates no vertex, and the result satisfies
`PairInv`, for either value of `hasProp` (the re-indexing of `propVert_` runs).  Vertices of
valence 2 (`k = 0` or `m = 0`) and the final `RemoveIfFolded` are included; `NoDupEdge` /
`VertOrbitOk` are not needed as hypotheses (the walk hypotheses say what is used of them). -/
theorem collapseEdge_preserves_partial (s : HE) (edge k m : Nat) (hasProp : Bool)
    (h : PairInv s) (he : edge < s.start.size) (hl : s.P edge ≠ -1)
    (hk : s.walk (s.Pn (nx (s.Pn edge))) k = nx (nx edge))
    (hkmin : ∀ i, i < k → s.walk (s.Pn (nx (s.Pn edge))) i ≠ nx (nx edge))
    (hm : s.walk (s.Pn (nx edge)) m = nx (nx (s.Pn edge)))
    (hmmin : ∀ j, j < m → s.walk (s.Pn (nx edge)) j ≠ nx (nx (s.Pn edge)))
    (hlink : ∀ i, i < k → ∀ j, j < m →
      s.S (nx (nx (s.walk (s.Pn (nx (s.Pn edge))) i))) ≠ s.S (nx (nx (s.walk (s.Pn (nx edge)) j))))
    (hdup : ∀ i, i < k → s.S (nx (nx (s.walk (s.Pn (nx (s.Pn edge))) i))) ≠ s.S (nx edge)) :
    ∃ s', collapseEdge s (edge : Int) #[] true hasProp = .ok (s', true) ∧ PairInv s' ∧
      s'.nVert = s.nVert :=
  MV.EdgeOp.collapseEdge_straight s edge k m hasProp h he hl hk hkmin hm hmmin hlink hdup

/-- `CollapseEdge2` runs the same statements (its geometric part differs) -/
theorem collapseEdge2_preserves_partial (s : HE) (edge k m : Nat) (hasProp : Bool)
    (h : PairInv s) (he : edge < s.start.size) (hl : s.P edge ≠ -1)
    (hk : s.walk (s.Pn (nx (s.Pn edge))) k = nx (nx edge))
    (hkmin : ∀ i, i < k → s.walk (s.Pn (nx (s.Pn edge))) i ≠ nx (nx edge))
    (hm : s.walk (s.Pn (nx edge)) m = nx (nx (s.Pn edge)))
    (hmmin : ∀ j, j < m → s.walk (s.Pn (nx edge)) j ≠ nx (nx (s.Pn edge)))
    (hlink : ∀ i, i < k → ∀ j, j < m →
      s.S (nx (nx (s.walk (s.Pn (nx (s.Pn edge))) i))) ≠ s.S (nx (nx (s.walk (s.Pn (nx edge)) j))))
    (hdup : ∀ i, i < k → s.S (nx (nx (s.walk (s.Pn (nx (s.Pn edge))) i))) ≠ s.S (nx edge)) :
    ∃ s', collapseEdge2 s (edge : Int) true hasProp = .ok (s', true) ∧ PairInv s' ∧
      s'.nVert = s.nVert :=
  MV.EdgeOp.collapseEdge_straight s edge k m hasProp h he hl hk hkmin hm hmmin hlink hdup

/-- a guard that refuses leaves the state untouched -/
theorem collapseEdge_refused (s : HE) (edge : Nat) (edges0 : Array Int) (hasProp : Bool)
    (h : PairInv s) (he : edge < s.start.size) (hl : s.P edge ≠ -1) :
    collapseEdge s (edge : Int) edges0 false hasProp = .ok (s, false) := by
  have hg := PairInv.good h he
  obtain ⟨_, _, h0, hlt, _⟩ := hg.live hl
  have hw := h.1
  have hsz : edge < s.paired.size := hw.1 ▸ he
  have hn1 : nx edge < s.start.size := nx_lt hw.2.2 he
  have hp1 : nx (s.Pn edge) < s.start.size := nx_lt hw.2.2 hlt
  unfold collapseEdge
  rw [getPair_ok s edge hsz]
  simp only [bind, Except.bind]
  rw [if_neg (by omega)]
  rw [← Pn_cast s edge h0, triOf_cast, triOf_cast]
  simp only [getStart_ok s edge he, getStart_ok s (nx edge) hn1,
    getPair_ok s (nx (s.Pn edge)) (hw.1 ▸ hp1)]
  rfl

/-- an octahedron, equator edge 0→1 (`k = m = 2`): the common neighbours of its ends are exactly
the two apexes -/
example : ∃ s', collapseEdge octaCE ((0 : Nat) : Int) #[] true true = .ok (s', true) ∧ PairInv s' ∧
    s'.nVert = octaCE.nVert :=
  collapseEdge_preserves_partial octaCE 0 2 2 true (by decide +kernel) (by decide +kernel) (by decide +kernel)
    (by decide +kernel) (by decide +kernel) (by decide +kernel)
    (by decide +kernel) (by decide +kernel) (by decide +kernel)
/-- a vertex of valence 2 (`k = 0`) -/
example : ∃ s', collapseEdge val2CE ((0 : Nat) : Int) #[] true true = .ok (s', true) ∧ PairInv s' ∧
    s'.nVert = val2CE.nVert :=
  collapseEdge_preserves_partial val2CE 0 0 2 true (by decide +kernel) (by decide +kernel) (by decide +kernel)
    (by decide +kernel) (by decide +kernel) (by decide +kernel)
    (by decide +kernel) (by decide +kernel) (by decide +kernel)
/-- a refused collapse on the same octahedron -/
example : collapseEdge octaCE ((0 : Nat) : Int) #[] false true = .ok (octaCE, false) :=
  collapseEdge_refused octaCE 0 #[] true (by decide +kernel) (by decide +kernel) (by decide +kernel)

end MV.C01b
