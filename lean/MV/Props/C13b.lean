/-
Property C13 (part b): the parallel sorts of /repo/src/parallel.h equal the sequential
stable sort, for every input length, every threshold `T ≥ 2` and every TBB schedule.

Model: `MV/Model/Par.lean` (`mergeSeq … parRadixSort`).  Lemmas: `MV/Proof/ParSort.lean`.

Comparator hypotheses.  `lt : α → α → Bool` is assumed to be a strict weak order,
`StrictWeak lt`, i.e.
    asymm    : lt a b = true → lt b a = false
    negTrans : lt a b = false → lt b c = false → lt a c = false
`strictWeak_of_std` below shows this follows from the textbook presentation (irreflexive,
transitive, incomparability transitive); `StrictWeak.irrefl/.trans/.incomp_trans` are the
converse, so the two are equivalent.  `mergeSeq_perm`, `mergeSeq_split` and the termination
theorems need no hypothesis on `lt` at all; `stable_unique` only uses irreflexivity.

Remark on fuel.  `mergeRec` and `mergeSortRec` in the model fall back to the sequential
algorithm when their fuel argument reaches 0, so the *equalities* `mergeRec_eq_mergeSeq`,
`mergeSortRec_eq_stableSort`, `parRadixSort_eq_sort` hold for every fuel and every `T`
(primed versions in `MV/Proof/ParSort.lean`; the hypotheses `2 ≤ T`, `fuel ≥ …`,
`t.Valid …` are kept in the statements here because they are the conditions under which the
model is a faithful reading of the C++, but they are not used in those proofs).  That the
fall-back is dead code, i.e. that the C++ recursion terminates, is a separate statement:
`mergeRec_terminates`, `mergeSortRec_terminates`; these genuinely need `2 ≤ T`, and
`mergeRec_diverges_T1` / `mergeSortRec_diverges_T0` show the recursion re-enters itself on
the same arguments for smaller thresholds.
-/
import MV.Proof.ParSort

namespace MV.C13b
open MV.Par

variable {α : Type}

/-! ## test comparators for the non-vacuity examples -/

/-- records `(key, payload)` compared by key only: a strict weak order that is not linear -/
def keyLt : Nat × Nat → Nat × Nat → Bool := fun a b => decide (a.1 < b.1)

theorem strictWeak_keyLt : StrictWeak keyLt where
  asymm a b h := by simp [keyLt] at *; omega
  negTrans a b c h1 h2 := by simp [keyLt] at *; omega

theorem cls_keyLt (k p : Nat) : cls keyLt (k, p) = fun x => x.1 == k := by
  funext x
  by_cases h : x.1 = k
  · simp [cls, keyLt, h]
  · have : x.1 < k ∨ k < x.1 := by omega
    rcases this with h' | h' <;> simp [cls, keyLt, h, h'] <;> omega

/-- the textbook presentation of a strict weak order implies `StrictWeak` -/
theorem strictWeak_of_std {lt : α → α → Bool}
    (irr : ∀ a, lt a a = false)
    (tr : ∀ a b c, lt a b = true → lt b c = true → lt a c = true)
    (inc : ∀ a b c, lt a b = false → lt b a = false → lt b c = false → lt c b = false →
      lt a c = false ∧ lt c a = false) : StrictWeak lt :=
  StrictWeak.of_std irr tr inc

example : StrictWeak keyLt :=
  strictWeak_of_std (by simp [keyLt])
    (by intro a b c; simp [keyLt]; omega)
    (by intro a b c; simp [keyLt]; omega)

/-! ## 1. `std::merge`, `std::stable_sort`, uniqueness of the stable sort -/

theorem mergeSeq_sorted {lt : α → α → Bool} (sw : StrictWeak lt) {l1 l2 : List α}
    (h1 : SortedBy lt l1) (h2 : SortedBy lt l2) : SortedBy lt (mergeSeq lt l1 l2) :=
  Par.mergeSeq_sorted sw l1 l2 h1 h2

example : SortedBy keyLt (mergeSeq keyLt [(1,0),(2,1),(2,2)] [(0,3),(2,4),(3,5)]) :=
  mergeSeq_sorted strictWeak_keyLt (by decide) (by decide)

theorem mergeSeq_perm (lt : α → α → Bool) (l1 l2 : List α) :
    (mergeSeq lt l1 l2).Perm (l1 ++ l2) :=
  Par.mergeSeq_perm lt l1 l2

example : (mergeSeq keyLt [(1,0),(2,1),(2,2)] [(0,3),(2,4),(3,5)]).Perm
    ([(1,0),(2,1),(2,2)] ++ [(0,3),(2,4),(3,5)]) := mergeSeq_perm _ _ _

/-- Stability of `std::merge`: within every key class the merge lists the members of `l1`
(in their order) followed by those of `l2` (in their order). -/
theorem mergeSeq_stable {lt : α → α → Bool} (sw : StrictWeak lt) {l1 l2 : List α}
    (h1 : SortedBy lt l1) (a : α) :
    (mergeSeq lt l1 l2).filter (cls lt a) = l1.filter (cls lt a) ++ l2.filter (cls lt a) :=
  Par.mergeSeq_filter_cls sw a l1 l2 h1

example : (mergeSeq keyLt [(1,0),(2,1),(2,2)] [(0,3),(2,4),(3,5)]).filter (cls keyLt (2,9))
    = [(2,1),(2,2),(2,4)] := by simp [mergeSeq, keyLt, cls]

example : (mergeSeq keyLt [(1,0),(2,1),(2,2)] [(0,3),(2,4),(3,5)]).filter (cls keyLt (2,9))
    = [(1,0),(2,1),(2,2)].filter (cls keyLt (2,9)) ++ [(0,3),(2,4),(3,5)].filter (cls keyLt (2,9)) :=
  mergeSeq_stable strictWeak_keyLt (by decide) _

/-- **Uniqueness.**  A list has at most one sorted, stable rearrangement.  (`StableWrt lt l l'`
: for every `a`, `l'.filter (cls lt a) = l.filter (cls lt a)`.)  The permutation hypotheses
are implied by stability and are not used; `Par.stable_unique'` omits them. -/
theorem stable_unique {lt : α → α → Bool} (sw : StrictWeak lt) {l l' l'' : List α}
    (s1 : SortedBy lt l') (s2 : SortedBy lt l'') (_p1 : l'.Perm l) (_p2 : l''.Perm l)
    (st1 : StableWrt lt l l') (st2 : StableWrt lt l l'') : l' = l'' :=
  Par.stable_unique' sw s1 s2 st1 st2

theorem stableSort_sorted {lt : α → α → Bool} (sw : StrictWeak lt) (xs : List α) :
    SortedBy lt (stableSort lt xs) := Par.stableSort_sorted sw xs

theorem stableSort_perm {lt : α → α → Bool} (sw : StrictWeak lt) (xs : List α) :
    (stableSort lt xs).Perm xs := Par.stableSort_perm sw xs

theorem stableSort_stable {lt : α → α → Bool} (sw : StrictWeak lt) (xs : List α) :
    StableWrt lt xs (stableSort lt xs) := Par.stableSort_stable sw xs

example : stableSort keyLt [(2,0),(1,1),(2,2),(0,3),(1,4)] = [(0,3),(1,1),(1,4),(2,0),(2,2)] := by
  decide

/-- non-vacuity of `stable_unique`: the hand-written answer is *the* stable sort -/
example : [(0,3),(1,1),(1,4),(2,0),(2,2)] = stableSort keyLt [(2,0),(1,1),(2,2),(0,3),(1,4)] :=
  stable_unique (l := [(2,0),(1,1),(2,2),(0,3),(1,4)]) strictWeak_keyLt (by decide)
    (stableSort_sorted strictWeak_keyLt _) (by decide) (stableSort_perm strictWeak_keyLt _)
    (by
      intro ⟨k, p⟩
      rw [cls_keyLt]
      match k with
      | 0 => decide
      | 1 => decide
      | 2 => decide
      | k + 3 => simp)
    (stableSort_stable strictWeak_keyLt _)

/-! ## 2. the split lemma -/

/-- **Split lemma.**  If every element of `l1[0,q1)` is `≤` every element of `l2[q2,…)` and
every element of `l2[0,q2)` is `<` every element of `l1[q1,…)`, the merge splits at
`(q1,q2)`.  (Sortedness of `l1`, `l2` is not needed for this step; it is needed to derive
the two conditions from the pivot rules, see `split_left_pivot`, `split_right_pivot`.) -/
theorem mergeSeq_split (lt : α → α → Bool) (l1 l2 : List α) (q1 q2 : Nat)
    (hA : ∀ x ∈ l1.take q1, ∀ y ∈ l2.drop q2, lt y x = false)
    (hB : ∀ y ∈ l2.take q2, ∀ x ∈ l1.drop q1, lt y x = true) :
    mergeSeq lt l1 l2 =
      mergeSeq lt (l1.take q1) (l2.take q2) ++ mergeSeq lt (l1.drop q1) (l2.drop q2) :=
  Par.mergeSeq_split lt l1 l2 q1 q2 hA hB

example : mergeSeq keyLt [(1,0),(2,1),(2,2)] [(0,3),(2,4),(3,5)] =
    mergeSeq keyLt [(1,0),(2,1),(2,2)] [(0,3)] ++ mergeSeq keyLt [] [(2,4),(3,5)] :=
  mergeSeq_split keyLt [(1,0),(2,1),(2,2)] [(0,3),(2,4),(3,5)] 3 1 (by decide) (by decide)

/-- C++ left-pivot rule (`length1 > length2`): pivot `l1[q1]`, `q2 = lower_bound(l2, pivot)` -/
theorem split_left_pivot {lt : α → α → Bool} (sw : StrictWeak lt) {l1 l2 : List α}
    (h1 : SortedBy lt l1) (h2 : SortedBy lt l2) {q1 : Nat} {p : α} (hp : l1[q1]? = some p) :
    mergeSeq lt l1 l2 =
      mergeSeq lt (l1.take q1) (l2.take (lowerBound lt l2 p)) ++
      mergeSeq lt (l1.drop q1) (l2.drop (lowerBound lt l2 p)) :=
  have h := Par.split_left_pivot sw h1 h2 hp
  Par.mergeSeq_split lt l1 l2 _ _ h.1 h.2

/-- C++ right-pivot rule: pivot `l2[q2]`, `q1 = upper_bound(l1, pivot)` -/
theorem split_right_pivot {lt : α → α → Bool} (sw : StrictWeak lt) {l1 l2 : List α}
    (h1 : SortedBy lt l1) (h2 : SortedBy lt l2) {q2 : Nat} {p : α} (hp : l2[q2]? = some p) :
    mergeSeq lt l1 l2 =
      mergeSeq lt (l1.take (upperBound lt l1 p)) (l2.take q2) ++
      mergeSeq lt (l1.drop (upperBound lt l1 p)) (l2.drop q2) :=
  have h := Par.split_right_pivot sw h1 h2 hp
  Par.mergeSeq_split lt l1 l2 _ _ h.1 h.2

example : mergeSeq keyLt [(1,0),(2,1),(2,2),(4,6)] [(0,3),(2,4),(3,5)] =
    mergeSeq keyLt [(1,0),(2,1)] [(0,3)] ++ mergeSeq keyLt [(2,2),(4,6)] [(2,4),(3,5)] :=
  split_left_pivot (q1 := 2) (p := (2,2)) strictWeak_keyLt (by decide) (by decide) (by decide)

example : mergeSeq keyLt [(1,0),(2,1),(2,2)] [(0,3),(2,4),(3,5)] =
    mergeSeq keyLt [(1,0),(2,1),(2,2)] [(0,3)] ++ mergeSeq keyLt [] [(2,4),(3,5)] :=
  split_right_pivot (q2 := 1) (p := (2,4)) strictWeak_keyLt (by decide) (by decide) (by decide)

/-! ## 3. `details::mergeRec` -/

/-- `details::mergeRec` on sorted ranges is `std::merge`. -/
theorem mergeRec_eq_mergeSeq {lt : α → α → Bool} (sw : StrictWeak lt) {T fuel : Nat}
    {l1 l2 : List α} (_hT : 2 ≤ T) (h1 : SortedBy lt l1) (h2 : SortedBy lt l2)
    (_hf : l1.length + l2.length ≤ fuel) :
    mergeRec T lt fuel l1 l2 = mergeSeq lt l1 l2 :=
  Par.mergeRec_eq_mergeSeq' sw T fuel l1 l2 h1 h2

example : mergeRec 2 keyLt 7 [(1,0),(2,1),(2,2),(4,6)] [(0,3),(2,4),(3,5)] =
    mergeSeq keyLt [(1,0),(2,1),(2,2),(4,6)] [(0,3),(2,4),(3,5)] :=
  mergeRec_eq_mergeSeq strictWeak_keyLt (by decide) (by decide) (by decide) (by decide)

example : mergeRec 2 keyLt 7 [(1,0),(2,1),(2,2),(4,6)] [(0,3),(2,4),(3,5)] =
    [(0,3),(1,0),(2,1),(2,2),(2,4),(3,5),(4,6)] := by
  simp [mergeRec, mergeSeq, keyLt, lowerBound, upperBound]

/-- **Termination of `details::mergeRec`.**  `mergeRecO` is `mergeRec` with `none` for
"fuel exhausted"; for `2 ≤ T` it returns (with the right value) as soon as the fuel exceeds
the total length, because both recursive calls are on strictly shorter inputs.  The entry
points of the model supply exactly such fuel. -/
theorem mergeRec_terminates {lt : α → α → Bool} (sw : StrictWeak lt) {T fuel : Nat}
    {l1 l2 : List α} (hT : 2 ≤ T) (h1 : SortedBy lt l1) (h2 : SortedBy lt l2)
    (hf : l1.length + l2.length < fuel) :
    mergeRecO T lt fuel l1 l2 = some (mergeSeq lt l1 l2) :=
  Par.mergeRecO_eq_some' sw hT h1 h2 hf

/-- termination needs no assumption on the data or on `lt` -/
theorem mergeRec_terminates_any (lt : α → α → Bool) {T fuel : Nat} (l1 l2 : List α)
    (hT : 2 ≤ T) (hf : l1.length + l2.length < fuel) :
    ∃ r, mergeRecO T lt fuel l1 l2 = some r ∧ mergeRec T lt fuel l1 l2 = r := by
  obtain ⟨r, hr⟩ := Par.mergeRecO_isSome hT lt fuel l1 l2 hf
  exact ⟨r, hr, Par.mergeRecO_sound T lt fuel l1 l2 r hr⟩

example : mergeRecO 2 keyLt 8 [(1,0),(2,1),(2,2),(4,6)] [(0,3),(2,4),(3,5)] =
    some (mergeSeq keyLt [(1,0),(2,1),(2,2),(4,6)] [(0,3),(2,4),(3,5)]) :=
  mergeRec_terminates strictWeak_keyLt (by decide) (by decide) (by decide) (by decide)

/-- **Finding (hypothetical thresholds only; `kSeqThreshold = 10000`).**  With `T = 1`,
`mergeRec([1],[0])` takes the right pivot `0`, `upper_bound([1],0) = 0`, and the second
`parallel_invoke` branch is `mergeRec([1],[0])` again: no amount of fuel suffices. -/
theorem mergeRec_diverges_T1 (fuel : Nat) : mergeRecO 1 natLt fuel [1] [0] = none :=
  Par.mergeRecO_T1_none fuel

theorem mergeRec_self_call_T1 (fuel : Nat) :
    mergeRec 1 natLt (fuel + 1) [1] [0] = [] ++ mergeRec 1 natLt fuel [1] [0] :=
  Par.mergeRec_T1_self_call fuel

example : mergeRecO 1 natLt 1000 [1] [0] = none := mergeRec_diverges_T1 1000

/-! ## 4. `details::mergeSortRec` / `stable_sort(Par, …, comp)` -/

theorem mergeSortRec_eq_stableSort {lt : α → α → Bool} (sw : StrictWeak lt) {T fuel : Nat}
    {xs : List α} (_hT : 2 ≤ T) (_hf : xs.length ≤ fuel) :
    mergeSortRec T lt fuel xs = stableSort lt xs :=
  Par.mergeSortRec_eq_stableSort' sw T fuel xs

example : mergeSortRec 2 keyLt 9 [(2,0),(1,1),(2,2),(0,3),(1,4),(2,5),(0,6),(1,7),(3,8)] =
    stableSort keyLt [(2,0),(1,1),(2,2),(0,3),(1,4),(2,5),(0,6),(1,7),(3,8)] :=
  mergeSortRec_eq_stableSort strictWeak_keyLt (by decide) (by decide)

theorem parStableSort_eq_stableSort {lt : α → α → Bool} (sw : StrictWeak lt) {T : Nat}
    (_hT : 2 ≤ T) (xs : List α) : parStableSort T lt xs = stableSort lt xs :=
  Par.parStableSort_eq_stableSort' sw T xs

example : parStableSort 2 keyLt [(2,0),(1,1),(2,2),(0,3),(1,4),(2,5),(0,6),(1,7),(3,8)] =
    [(0,3),(0,6),(1,1),(1,4),(1,7),(2,0),(2,2),(2,5),(3,8)] := by
  simp [parStableSort, mergeSortRec, stableSort, insertStable, mergeRec, mergeSeq, keyLt,
    lowerBound, upperBound]

example : parStableSort 2 keyLt [(2,0),(1,1),(2,2),(0,3),(1,4),(2,5),(0,6),(1,7),(3,8)] =
    stableSort keyLt [(2,0),(1,1),(2,2),(0,3),(1,4),(2,5),(0,6),(1,7),(3,8)] :=
  parStableSort_eq_stableSort strictWeak_keyLt (by decide) _

/-- **Termination of `details::mergeSortRec`** including the `mergeRec` calls it makes:
with the fuel supplied by `parStableSort` (`xs.length + 1`) no fall-back is reached. -/
theorem mergeSortRec_terminates {lt : α → α → Bool} (sw : StrictWeak lt) {T fuel : Nat}
    (hT : 2 ≤ T) (xs : List α) (hf : xs.length < fuel) :
    mergeSortRecO T lt fuel xs = some (stableSort lt xs) :=
  Par.mergeSortRecO_eq_some' sw hT fuel xs hf

example : mergeSortRecO 2 keyLt 10 [(2,0),(1,1),(2,2),(0,3),(1,4),(2,5),(0,6),(1,7),(3,8)] =
    some (stableSort keyLt [(2,0),(1,1),(2,2),(0,3),(1,4),(2,5),(0,6),(1,7),(3,8)]) :=
  mergeSortRec_terminates strictWeak_keyLt (by decide) _ (by decide)

/-- with `T = 0` a one-element range is split into `[]` and itself -/
theorem mergeSortRec_diverges_T0 (lt : α → α → Bool) (x : α) (fuel : Nat) :
    mergeSortRecO 0 lt fuel [x] = none := Par.mergeSortRecO_T0_none lt x fuel

example : mergeSortRecO 0 natLt 50 [7] = none := mergeSortRec_diverges_T0 _ _ _

/-! ## 5. LSB radix sort -/

theorem shufflePass_perm (k : Nat) (xs : List Nat) : (shufflePass k xs).Perm xs :=
  Par.shufflePass_perm k xs

/-- one `shuffle` pass is the stable sort by byte `k` (`byteLt k a b := byteOf k a < byteOf k b`) -/
theorem shufflePass_eq_stableSort (k : Nat) (xs : List Nat) :
    shufflePass k xs = stableSort (byteLt k) xs := Par.shufflePass_eq_stableSort k xs

example : shufflePass 0 [770, 3, 513, 258, 3, 2] = [513, 770, 258, 2, 3, 3] := by decide +kernel
example : shufflePass 0 [770, 3, 513, 258, 3, 2] = stableSort (byteLt 0) [770, 3, 513, 258, 3, 2] :=
  shufflePass_eq_stableSort _ _

theorem lsbRadix_sorted_perm {nb : Nat} {xs : List Nat} (hk : ∀ x ∈ xs, x < 256 ^ nb) :
    (lsbRadix nb xs).Perm xs ∧ (lsbRadix nb xs).Pairwise (· ≤ ·) :=
  Par.lsbRadix_sorted_perm hk

theorem lsbRadix_eq_sort {nb : Nat} {xs : List Nat} (hk : ∀ x ∈ xs, x < 256 ^ nb) :
    lsbRadix nb xs = stableSort natLt xs := Par.lsbRadix_eq_sort' hk

/-- the same against core's `List.mergeSort` -/
theorem lsbRadix_eq_mergeSort {nb : Nat} {xs : List Nat} (hk : ∀ x ∈ xs, x < 256 ^ nb) :
    lsbRadix nb xs = xs.mergeSort := by
  have h := Par.lsbRadix_sorted_perm hk
  apply Par.sorted_perm_unique_nat _ _ (h.1.trans (List.mergeSort_perm xs _).symm) h.2
  have := List.pairwise_mergeSort (le := fun (a b : Nat) => decide (a ≤ b))
    (by intro a b c; simp; omega) (by intro a b; simp; omega) xs
  exact this.imp (by intro a b; simp)

example : lsbRadix 2 [770, 3, 513, 258, 3, 2] = [2, 3, 3, 258, 513, 770] := by decide +kernel
example : lsbRadix 2 [770, 3, 513, 258, 3, 2] = stableSort natLt [770, 3, 513, 258, 3, 2] :=
  lsbRadix_eq_sort (by decide)

/-- the skip rule is exercised: byte 1 of every key is 1, the input is not sorted, so the
loop runs, skips `k = 1`, and the result is still sorted -/
example : canSkip 1 [259, 258, 257] = true ∧ canSkip 0 [259, 258, 257] = false ∧
    lsbRadix 2 [259, 258, 257] = [257, 258, 259] := by decide +kernel
example : lsbRadix 2 [259, 258, 257] = stableSort natLt [259, 258, 257] :=
  lsbRadix_eq_sort (by decide)

/-! ## 6. `SortedRange::join`, `radix_sort` -/

theorem sortedJoin_sorted_perm {T : Nat} (_hT : 2 ≤ T) {a b : List Nat}
    (ha : a.Pairwise (· ≤ ·)) (hb : b.Pairwise (· ≤ ·)) :
    (sortedJoin T a b).Pairwise (· ≤ ·) ∧ (sortedJoin T a b).Perm (a ++ b) :=
  Par.sortedJoin_sorted_perm' T ha hb

example : sortedJoin 2 [1, 4, 4, 9] [0, 4, 5] = [0, 1, 4, 4, 4, 5, 9] := by
  simp [sortedJoin, mergeRec, mergeSeq, lowerBound, upperBound]
example : (sortedJoin 2 [1, 4, 4, 9] [0, 4, 5]).Pairwise (· ≤ ·) ∧
    (sortedJoin 2 [1, 4, 4, 9] [0, 4, 5]).Perm ([1, 4, 4, 9] ++ [0, 4, 5]) :=
  sortedJoin_sorted_perm (by decide) (by decide) (by decide)

/-- **`radix_sort` = sequential stable sort**, for every threshold, every schedule (any split
tree, any pattern of steals) and every input with keys below `256 ^ nb`. -/
theorem parRadixSort_eq_sort {T nb : Nat} {t : Sched} {xs : List Nat} (_hT : 2 ≤ T)
    (_hv : t.Valid xs.length) (hk : ∀ x ∈ xs, x < 256 ^ nb) :
    parRadixSort T nb t xs = stableSort natLt xs :=
  Par.parRadixSort_eq_sort' T t hk

theorem parRadixSort_eq_mergeSort {T nb : Nat} {t : Sched} {xs : List Nat} (_hT : 2 ≤ T)
    (_hv : t.Valid xs.length) (hk : ∀ x ∈ xs, x < 256 ^ nb) :
    parRadixSort T nb t xs = xs.mergeSort := by
  rw [Par.parRadixSort_eq_sort' T t hk, ← Par.lsbRadix_eq_sort' hk, lsbRadix_eq_mergeSort hk]

example : parRadixSort 2 2 (.node 4 true (.node 2 false .leaf .leaf) (.node 1 true .leaf .leaf))
    [770, 3, 513, 258, 3, 2, 600] = [2, 3, 3, 258, 513, 600, 770] := by
  rw [parRadixSort_eq_sort (by decide) (by simp [Sched.Valid]) (by decide)]
  decide

example : parRadixSort 2 2 (.node 4 true (.node 2 false .leaf .leaf) (.node 1 true .leaf .leaf))
    [770, 3, 513, 258, 3, 2, 600] = stableSort natLt [770, 3, 513, 258, 3, 2, 600] :=
  parRadixSort_eq_sort (by decide) (by simp [Sched.Valid]) (by decide)

end MV.C13b
